(* C01 proofs: the backtracking matcher of the compiled route pattern equals the
   declarative enumeration of whole-path decompositions (longest first);
   RoutesMapper.__call__ returns the first qualifying route. *)
From Coq Require Import List NArith ZArith Bool Lia Arith.
Import ListNotations.
Require Import Verif.Lib.Wire Verif.Lib.Text Verif.Lib.PathNorm Verif.Lib.Utf8 Verif.Gen.Facts_C01 Verif.Model.C01.
Local Close Scope N_scope.
Local Open Scope nat_scope.

(* ---------- the regenerated facts the theorems depend on *)
Definition facts_ok : bool :=
  regex_sources_ok
  && match anchor_of anchor_suffix with Some EndZ => true | _ => false end
  && match dotall_of remainder_group_fmt with Some true => true | _ => false end
  && match parse_reg default_hole_regex with
     | Some (mkHre (CSet true [CChar 47%N]) 1 None) => true
     | _ => false
     end.

Lemma facts_ok_true : facts_ok = true.
Proof. vm_compute. reflexivity. Qed.

Lemma the_anchor_strict : the_anchor = EndZ.
Proof. vm_compute. reflexivity. Qed.
Lemma the_dotall_on : the_dotall = true.
Proof. vm_compute. reflexivity. Qed.
Lemma default_hole_is_segment : parse_reg default_hole_regex = Some spec_default_hole.
Proof. vm_compute. reflexivity. Qed.

(* ---------- lists *)
Lemma hd_error_app {A} (a b : list A) :
  hd_error (a ++ b) = match hd_error a with Some x => Some x | None => hd_error b end.
Proof. destruct a; reflexivity. Qed.
Lemma hd_error_map {A B} (f : A -> B) l : hd_error (map f l) = option_map f (hd_error l).
Proof. destruct l; reflexivity. Qed.
Lemma hd_error_none {A} (l : list A) : hd_error l = None -> l = [].
Proof. destruct l; [reflexivity|discriminate]. Qed.

Lemma flat_map_all_nil {A B} (g : A -> list B) l : (forall x, In x l -> g x = []) -> flat_map g l = [].
Proof.
  induction l as [|x l IH]; intros H; simpl; [reflexivity|].
  rewrite (H x) by (left; reflexivity). apply IH. intros y Hy. apply H. right. exact Hy.
Qed.

Lemma In_lens_desc n k : In k (lens_desc n) <-> k <= n.
Proof.
  induction n as [|n IH]; simpl.
  - split; [intros [<-|[]]; lia|intros H; left; lia].
  - rewrite IH. split; [intros [<-|H]; lia|intros H; destruct (Nat.eq_dec k (S n)); [left; congruence|right; lia]].
Qed.

(* ---------- span_upto *)
Lemma span_upto_spec f hi s : forall p r, span_upto f hi s = (p, r) ->
  s = p ++ r /\ forallb f p = true /\ (forall m, hi = Some m -> length p <= m)
  /\ (r = [] \/ (exists c r', r = c :: r' /\ f c = false) \/ hi = Some (length p)).
Proof.
  revert hi; induction s as [|c s IH]; intros hi p r H; simpl in H.
  - injection H as <- <-. repeat split; auto. intros; simpl; lia.
  - destruct hi as [[|m]|].
    + injection H as <- <-. repeat split; auto. intros m Hm; injection Hm as <-; simpl; lia.
    + destruct (f c) eqn:Hc.
      * destruct (span_upto f (option_map Nat.pred (Some (S m))) s) as [p' q] eqn:E.
        injection H as <- <-. destruct (IH _ _ _ E) as (-> & Hp & Hb & Hmax).
        repeat split; auto.
        -- simpl. rewrite Hc. exact Hp.
        -- intros m0 Hm0. injection Hm0 as <-. simpl. specialize (Hb m eq_refl). lia.
        -- destruct Hmax as [->|[(c' & r' & -> & Hc')|Hh]]; auto.
           ++ right. left. eauto.
           ++ right. right. simpl in Hh. injection Hh as ->. reflexivity.
      * injection H as <- <-. repeat split; auto; [intros; simpl; lia|]. right. left. eauto.
    + destruct (f c) eqn:Hc.
      * destruct (span_upto f (option_map Nat.pred None) s) as [p' q] eqn:E.
        injection H as <- <-. destruct (IH _ _ _ E) as (-> & Hp & Hb & Hmax).
        repeat split; auto.
        -- simpl. rewrite Hc. exact Hp.
        -- intros m0 Hm0. discriminate.
        -- destruct Hmax as [->|[(c' & r' & -> & Hc')|Hh]]; auto.
           ++ right. left. eauto.
           ++ discriminate.
      * injection H as <- <-. repeat split; auto; [intros; discriminate|]. right. left. eauto.
Qed.

Lemma forallb_firstn {A} (f : A -> bool) k l : forallb f l = true -> forallb f (firstn k l) = true.
Proof.
  revert k; induction l as [|x l IH]; intros k H; destruct k; simpl in *; auto.
  apply andb_true_iff in H as [-> H]. simpl. auto.
Qed.

(* which prefix lengths are acceptable captures of a placeholder, given the greedy run *)
Lemma hole_ok_within O h s p r k :
  span_upto (cls_mem O (h_cls h)) (h_hi h) s = (p, r) -> k <= length p ->
  hole_ok O h (firstn k s) = (h_lo h <=? k).
Proof.
  intros E Hk. destruct (span_upto_spec _ _ _ _ _ E) as (-> & Hp & Hb & _).
  unfold hole_ok. rewrite firstn_app. replace (k - length p) with 0 by lia. simpl. rewrite app_nil_r.
  rewrite firstn_length_le by exact Hk. rewrite (forallb_firstn _ _ _ Hp), andb_true_r.
  destruct (h_hi h) as [m|]; [|apply andb_true_r].
  specialize (Hb m eq_refl). replace (k <=? m) with true by (symmetry; apply Nat.leb_le; lia). apply andb_true_r.
Qed.

Lemma hole_ok_beyond O h s p r k :
  span_upto (cls_mem O (h_cls h)) (h_hi h) s = (p, r) -> length p < k -> k <= length s ->
  hole_ok O h (firstn k s) = false.
Proof.
  intros E Hk Hs. destruct (span_upto_spec _ _ _ _ _ E) as (-> & Hp & Hb & Hmax).
  unfold hole_ok. rewrite app_length in Hs.
  assert (Hlen : length (firstn k (p ++ r)) = k) by (apply firstn_length_le; rewrite app_length; lia).
  rewrite Hlen.
  destruct Hmax as [->|[(c & r' & -> & Hc)|Hh]].
  - simpl in Hs. lia.
  - rewrite firstn_app. replace (firstn k p) with p by (symmetry; apply firstn_all2; lia).
    destruct (k - length p) as [|j] eqn:Ej; [lia|]. simpl. rewrite forallb_app. simpl. rewrite Hc.
    rewrite andb_false_r, andb_false_r. reflexivity.
  - rewrite Hh. replace (k <=? length p) with false by (symmetry; apply Nat.leb_gt; lia).
    rewrite andb_false_r. reflexivity.
Qed.

(* ---------- the end of the compiled pattern, strict facts *)
Lemma lazy_star_strict acc s : lazy_star EndZ true acc s = Some (rev acc ++ s).
Proof.
  revert acc; induction s as [|c s IH]; intros acc; simpl.
  - rewrite app_nil_r. reflexivity.
  - specialize (IH (c :: acc)). destruct s as [|d s']; simpl in *.
    + reflexivity.
    + rewrite IH. rewrite <- app_assoc. reflexivity.
Qed.

Lemma kend_strict st s :
  kend EndZ true st s = hd_error (all_decs_end st s).
Proof.
  unfold kend, all_decs_end. destruct st as [n|].
  - rewrite lazy_star_strict. reflexivity.
  - destruct s as [|c [|d s]]; reflexivity.
Qed.

(* ---------- the matcher equals the head of the declarative enumeration *)
Section HoleStep.
  Variables (O : oracle) (h : hre) (s : text) (kont : text -> option (list text)) (L : text -> list (list text)).
  Hypothesis kont_L : forall t, kont t = hd_error (L t).
  Let G (k : nat) : list (list text) :=
    let v := firstn k s in if hole_ok O h v then map (cons v) (L (skipn k s)) else [].

  Lemma back_flat : forall tr rest,
    rev tr ++ rest = s ->
    (forall k, k <= length tr -> hole_ok O h (firstn k s) = (h_lo h <=? k)) ->
    back (h_lo h) tr rest kont = hd_error (flat_map G (lens_desc (length tr))).
  Proof.
    induction tr as [|c tr IH]; intros rest Hs Hok.
    - simpl in Hs. subst rest. simpl. rewrite app_nil_r. unfold G. simpl.
      specialize (Hok 0 (Nat.le_0_l _)). simpl in Hok. rewrite Hok.
      destruct (h_lo h) as [|lo]; simpl; [|reflexivity].
      rewrite hd_error_map, kont_L. reflexivity.
    - assert (Hlen : length (rev (c :: tr)) = length (c :: tr)) by apply rev_length.
      assert (Hf : firstn (length (c :: tr)) s = rev (c :: tr)).
      { rewrite <- Hs, <- Hlen. rewrite firstn_app, Nat.sub_diag, firstn_all. simpl. apply app_nil_r. }
      assert (Hk : skipn (length (c :: tr)) s = rest).
      { rewrite <- Hs, <- Hlen. rewrite skipn_app, Nat.sub_diag, skipn_all. reflexivity. }
      cbn [back]. destruct (length (c :: tr) <? h_lo h) eqn:Hlt.
      + apply Nat.ltb_lt in Hlt. symmetry. rewrite flat_map_all_nil; [reflexivity|].
        intros k Hk'. apply In_lens_desc in Hk'. unfold G. rewrite (Hok k Hk').
        replace (h_lo h <=? k) with false by (symmetry; apply Nat.leb_gt; lia). reflexivity.
      + apply Nat.ltb_ge in Hlt.
        change (lens_desc (length (c :: tr))) with (length (c :: tr) :: lens_desc (length tr)).
        cbn [flat_map]. rewrite hd_error_app.
        unfold G at 1. rewrite Hf, Hk. rewrite <- Hf at 1. rewrite (Hok _ (Nat.le_refl _)).
        replace (h_lo h <=? length (c :: tr)) with true by (symmetry; apply Nat.leb_le; lia).
        rewrite hd_error_map, <- kont_L.
        destruct (kont rest) as [caps|] eqn:Ek; [reflexivity|]. simpl.
        apply IH.
        * rewrite <- Hs. simpl. rewrite <- app_assoc. reflexivity.
        * intros k Hk'. apply Hok. simpl. lia.
  Qed.
End HoleStep.

Lemma flat_map_skip_high {B} (g : nat -> list B) m n :
  m <= n -> (forall k, m < k -> k <= n -> g k = []) ->
  flat_map g (lens_desc n) = flat_map g (lens_desc m).
Proof.
  intros Hmn. induction Hmn as [|n Hmn IH]; intros H; [reflexivity|].
  simpl. rewrite (H (S n)) by lia. simpl. apply IH. intros k H1 H2. apply H; lia.
Qed.

Theorem mi_all_decs O st its : forall s,
  mi (kend EndZ true st) O its s = hd_error (all_decs O st its s).
Proof.
  induction its as [|[l|n h] its IH]; intros s; simpl.
  - apply kend_strict.
  - destruct (strip_prefix l s); [apply IH|reflexivity].
  - destruct (span_upto (cls_mem O (h_cls h)) (h_hi h) s) as [p r] eqn:E.
    pose proof (span_upto_spec _ _ _ _ _ E) as (Hs & _).
    rewrite (flat_map_skip_high _ (length p) (length s)).
    + rewrite <- (rev_length p).
      apply (back_flat O h s (mi (kend EndZ true st) O its) (all_decs O st its) IH).
      * rewrite rev_involutive. symmetry. exact Hs.
      * intros k Hk. rewrite rev_length in Hk. eapply hole_ok_within; eauto.
    + rewrite Hs, app_length. lia.
    + intros k H1 H2. rewrite (hole_ok_beyond O h s p r k E H1 H2). reflexivity.
Qed.

(* ---------- the enumeration contains exactly the decompositions of the whole text *)
Lemma all_decs_end_char O st s caps :
  In caps (all_decs_end st s) <-> s = render [] caps /\ caps_ok O st [] caps = true.
Proof.
  unfold all_decs_end. simpl. destruct st as [n|].
  - simpl. split.
    + intros [<-|[]]. auto.
    + intros [-> H]. destruct caps as [|v [|w c]]; try discriminate. left. reflexivity.
  - destruct s as [|c s]; simpl; split.
    + intros [<-|[]]. auto.
    + intros [_ H]. destruct caps; [left; reflexivity|discriminate].
    + intros [].
    + intros [H1 H2]. destruct caps; discriminate.
Qed.

Theorem all_decs_char O st its : forall s caps,
  In caps (all_decs O st its s) <-> s = render its caps /\ caps_ok O st its caps = true.
Proof.
  induction its as [|[l|n h] its IH]; intros s caps.
  - apply all_decs_end_char.
  - simpl. destruct (strip_prefix l s) as [r|] eqn:E.
    + apply strip_prefix_spec in E. subst s. rewrite IH. split.
      * intros [-> H]. auto.
      * intros [H1 H2]. apply app_inv_head in H1. auto.
    + split; [intros []|]. intros [H1 _].
      assert (E' : strip_prefix l s = Some (render its caps)) by (apply strip_prefix_spec; exact H1). congruence.
  - simpl. rewrite in_flat_map. split.
    + intros (k & Hk & Hin). destruct (hole_ok O h (firstn k s)) eqn:Hok; [|destruct Hin].
      apply in_map_iff in Hin. destruct Hin as (c & <- & Hc). apply IH in Hc. destruct Hc as [Hc1 Hc2].
      rewrite Hok, Hc2, <- Hc1, firstn_skipn. auto.
    + intros [H1 H2]. destruct caps as [|v c]; [discriminate|]. apply andb_true_iff in H2 as [Hv Hc].
      exists (length v). subst s. split.
      * apply In_lens_desc. rewrite app_length. lia.
      * rewrite firstn_app, Nat.sub_diag, firstn_all. simpl. rewrite app_nil_r, Hv.
        apply in_map. apply IH. rewrite skipn_app, Nat.sub_diag, skipn_all. simpl. auto.
Qed.

(* soundness + "matches the whole path": strict anchor, remainder group spanning newlines *)
Theorem mi_sound_whole O st its s caps :
  mi (kend EndZ true st) O its s = Some caps -> s = render its caps /\ caps_ok O st its caps = true.
Proof.
  rewrite mi_all_decs. intros H. apply (all_decs_char O st its s caps).
  destruct (all_decs O st its s) as [|x l]; [discriminate|]. injection H as ->. left. reflexivity.
Qed.

Theorem mi_complete O st its caps :
  caps_ok O st its caps = true -> exists caps', mi (kend EndZ true st) O its (render its caps) = Some caps'.
Proof.
  intros H. rewrite mi_all_decs.
  assert (Hin : In caps (all_decs O st its (render its caps))) by (apply all_decs_char; auto).
  destruct (all_decs O st its (render its caps)) as [|x l]; [destruct Hin|]. exists x. reflexivity.
Qed.

(* ---------- pattern level, for the facts of the current source *)
Theorem match_spec O p s : match_pat O p s = spec_match O p s.
Proof.
  unfold match_pat, match_pat_with, spec_match. rewrite the_anchor_strict, the_dotall_on, mi_all_decs.
  destruct (all_decs O (star p) (items p) s); reflexivity.
Qed.

Theorem match_whole O p s d :
  match_pat O p s = Some d ->
  exists caps, d = mk_dict (items p) (star p) caps /\ s = render (items p) caps
               /\ caps_ok O (star p) (items p) caps = true.
Proof.
  unfold match_pat, match_pat_with. rewrite the_anchor_strict, the_dotall_on.
  destruct (mi (kend EndZ true (star p)) O (items p) s) as [caps|] eqn:E; [|discriminate].
  intros H. injection H as <-. exists caps. apply mi_sound_whole in E. tauto.
Qed.

Theorem match_complete O p caps :
  caps_ok O (star p) (items p) caps = true -> match_pat O p (render (items p) caps) <> None.
Proof.
  intros H. unfold match_pat, match_pat_with. rewrite the_anchor_strict, the_dotall_on.
  destruct (mi_complete O _ _ _ H) as (c & ->). discriminate.
Qed.

(* the dictionary: one entry per placeholder, in order, holding exactly the captured
   text; the remainder entry holds the normalised segments of its capture *)
Definition dict_vals (st : option text) (caps : list text) : list mval :=
  match st with
  | None => map MText caps
  | Some _ => map MText (removelast caps) ++ [MSegs (split_path_info (last caps []))]
  end.

Lemma mk_dict_char O st its : forall caps,
  caps_ok O st its caps = true ->
  map fst (mk_dict its st caps) = hole_names its ++ match st with Some n => [n] | None => [] end
  /\ map snd (mk_dict its st caps) = dict_vals st caps.
Proof.
  induction its as [|[l|n h] its IH]; intros caps H; simpl in *.
  - destruct st as [m|]; destruct caps as [|v [|w c]]; try discriminate; simpl; auto.
  - apply IH. exact H.
  - destruct caps as [|v c]; [discriminate|]. apply andb_true_iff in H as [_ H].
    destruct (IH c H) as [K V]. simpl. rewrite K, V. split; [reflexivity|].
    unfold dict_vals. destruct st as [m|]; [|reflexivity].
    assert (Hc : c <> []).
    { clear -H. revert c H. induction its as [|[l|n' h'] its IH]; intros c H; simpl in H.
      - destruct c as [|w [|w' c']]; try discriminate.
      - apply IH. exact H.
      - destruct c; discriminate. }
    destruct c as [|w c']; [congruence|]. reflexivity.
Qed.

(* ---------- RoutesMapper.__call__ *)
Lemma eval_preds_fst method d ps : forall n,
  fst (eval_preds method d ps n) = forallb (pred_ok method d) ps.
Proof.
  induction ps as [|p ps IH]; intros n; simpl; [reflexivity|].
  destruct (pred_ok method d p); [apply IH|reflexivity].
Qed.

Definition qual (mt : pat -> text -> option matchdict) (method path : text) (r : route) : bool :=
  match mt (r_pat r) path with
  | Some d => forallb (pred_ok method d) (r_preds r)
  | None => false
  end.

Theorem dispatch_with_find mt method rs path :
  fst (dispatch_with mt method rs path) =
  match find (qual mt method path) rs with
  | Some r => match mt (r_pat r) path with Some d => Some (r, d) | None => None end
  | None => None
  end.
Proof.
  induction rs as [|r rs IH]; simpl; [reflexivity|]. unfold qual at 1.
  destruct (mt (r_pat r) path) as [d|] eqn:E.
  - pose proof (eval_preds_fst method d (r_preds r) 0) as F.
    destruct (eval_preds method d (r_preds r) 0) as [ok n]. simpl in F. subst ok.
    destruct (forallb (pred_ok method d) (r_preds r)).
    + simpl. rewrite E. reflexivity.
    + destruct (dispatch_with mt method rs path) as [o tr]. exact IH.
  - exact IH.
Qed.

Lemma find_first {A} (f : A -> bool) l x :
  find f l = Some x <->
  exists pre post, l = pre ++ x :: post /\ Forall (fun y => f y = false) pre /\ f x = true.
Proof.
  induction l as [|y l IH]; simpl.
  - split; [discriminate|]. intros (pre & post & H & _). destruct pre; discriminate.
  - destruct (f y) eqn:Fy.
    + split.
      * intros H. injection H as <-. exists [], l. auto.
      * intros (pre & post & H & Hpre & Fx). destruct pre as [|z pre].
        -- injection H as <- _. reflexivity.
        -- injection H as <- _. inversion Hpre; congruence.
    + rewrite IH. split.
      * intros (pre & post & -> & Hpre & Fx). exists (y :: pre), post. auto.
      * intros (pre & post & H & Hpre & Fx). destruct pre as [|z pre].
        -- injection H as <- _. congruence.
        -- injection H as <- ->. inversion Hpre; subst. eauto.
Qed.

Lemma find_none_all {A} (f : A -> bool) l : find f l = None <-> Forall (fun y => f y = false) l.
Proof.
  induction l as [|y l IH]; simpl; [split; auto|].
  destruct (f y) eqn:Fy.
  - split; [discriminate|]. intros H. inversion H; congruence.
  - rewrite IH. split; [auto|]. intros H. inversion H; auto.
Qed.

(* the selected route is the first one, in list order, whose pattern matches and
   whose predicates all hold on the dictionary of that match *)
Theorem dispatch_first mt method rs path r d :
  fst (dispatch_with mt method rs path) = Some (r, d) <->
  exists pre post, rs = pre ++ r :: post
    /\ Forall (fun r' => qual mt method path r' = false) pre
    /\ mt (r_pat r) path = Some d /\ forallb (pred_ok method d) (r_preds r) = true.
Proof.
  rewrite dispatch_with_find. split.
  - destruct (find (qual mt method path) rs) as [r0|] eqn:F; [|discriminate].
    apply find_first in F. destruct F as (pre & post & -> & Hpre & Q).
    unfold qual in Q. destruct (mt (r_pat r0) path) as [d0|] eqn:E; [|discriminate].
    intros H. injection H as <- <-. exists pre, post. auto.
  - intros (pre & post & -> & Hpre & E & P).
    assert (F : find (qual mt method path) (pre ++ r :: post) = Some r).
    { apply find_first. exists pre, post. repeat split; auto. unfold qual. rewrite E. exact P. }
    rewrite F, E. reflexivity.
Qed.

Theorem dispatch_none mt method rs path :
  fst (dispatch_with mt method rs path) = None <-> Forall (fun r => qual mt method path r = false) rs.
Proof.
  rewrite dispatch_with_find, <- find_none_all.
  destruct (find (qual mt method path) rs) as [r|] eqn:F; [|tauto].
  apply find_some in F. destruct F as [_ Q]. unfold qual in Q.
  destruct (mt (r_pat r) path); [|discriminate]. split; discriminate.
Qed.

(* predicates are only ever called for routes whose pattern matched the path *)
Theorem trace_only_matched mt method rs path i n :
  In (i, n) (snd (dispatch_with mt method rs path)) ->
  exists r, In r rs /\ r_id r = i /\ mt (r_pat r) path <> None.
Proof.
  induction rs as [|r rs IH]; simpl; [intros []|].
  destruct (mt (r_pat r) path) as [d|] eqn:E.
  - destruct (eval_preds method d (r_preds r) 0) as [ok k]. destruct ok.
    + simpl. intros [H|[]]. injection H as <- <-. exists r. rewrite E. repeat split; auto. discriminate.
    + destruct (dispatch_with mt method rs path) as [o tr]. simpl in *. intros [H|H].
      * injection H as <- <-. exists r. rewrite E. repeat split; auto. discriminate.
      * destruct (IH H) as (r' & H1 & H2 & H3). exists r'. auto.
  - intros H. destruct (IH H) as (r' & H1 & H2 & H3). exists r'. auto.
Qed.

Lemma find_ext {A} (f g : A -> bool) l : (forall x, f x = g x) -> find f l = find g l.
Proof. intros H. induction l as [|x l IH]; simpl; [reflexivity|]. rewrite H, IH. reflexivity. Qed.

(* for the current source: the mapper's choice is the declarative specification's *)
Theorem dispatch_spec O method rs path :
  fst (dispatch O method rs path) = spec_dispatch O method rs path.
Proof.
  unfold dispatch, spec_dispatch. rewrite dispatch_with_find.
  rewrite (find_ext (qual (match_pat O) method path) (qualifies O method path)).
  - destruct (find (qualifies O method path) rs); [|reflexivity]. rewrite match_spec. reflexivity.
  - intros r. unfold qual, qualifies. rewrite match_spec. reflexivity.
Qed.

(* a path that is not valid UTF-8 is refused before any pattern or predicate is evaluated *)
Theorem invalid_utf8_refused O m method raw :
  Utf8.decode raw = None -> dispatch_request O m method (Some raw) = (ODecodeError, []).
Proof. intros H. unfold dispatch_request, request_path. rewrite H. reflexivity. Qed.

Theorem valid_path_dispatched O m method raw t :
  Utf8.decode raw = Some t ->
  fst (dispatch_request O m method (Some raw)) =
  match spec_dispatch O method (routelist m) (match t with [] => path_default | _ => t end) with
  | Some (r, d) => OMatch r d
  | None => ONone
  end.
Proof.
  intros H. unfold dispatch_request, request_path. rewrite H.
  set (path := match t with [] => path_default | _ => t end).
  replace (match t with [] => RPath path_default | _ :: _ => RPath t end) with (RPath path) by (destruct t; reflexivity).
  rewrite <- dispatch_spec. destruct (dispatch O method (routelist m) path) as [[[r d]|] tr]; reflexivity.
Qed.

(* ---------- greedy: the returned decomposition is the longest-first one *)
Fixpoint lex_ge (a b : list text) : Prop :=
  match a, b with
  | x :: a', y :: b' => length y < length x \/ (length y = length x /\ lex_ge a' b')
  | _, _ => True
  end.

Lemma lex_ge_refl a : lex_ge a a.
Proof. induction a as [|x a IH]; simpl; auto. Qed.

Lemma flat_lens {B} (G : nat -> list B) n : forall x l y,
  flat_map G (lens_desc n) = x :: l -> In y (flat_map G (lens_desc n)) ->
  exists k0 k, k <= k0 /\ k0 <= n /\ hd_error (G k0) = Some x /\ In y (G k).
Proof.
  induction n as [|n IH]; intros x l y Hx Hy.
  - simpl in *. rewrite app_nil_r in *. exists 0, 0. rewrite Hx in *. repeat split; auto.
  - change (lens_desc (S n)) with (S n :: lens_desc n) in *. cbn [flat_map] in *.
    destruct (G (S n)) as [|x1 l1] eqn:E.
    + simpl in *. destruct (IH x l y Hx Hy) as (k0 & k & H1 & H2 & H3 & H4).
      exists k0, k. repeat split; auto.
    + simpl in Hx. injection Hx as -> _. apply in_app_or in Hy. destruct Hy as [Hy|Hy].
      * exists (S n), (S n). rewrite E. repeat split; auto.
      * apply in_flat_map in Hy. destruct Hy as (k & Hk & Hy). apply In_lens_desc in Hk.
        exists (S n), k. rewrite E. repeat split; auto.
Qed.

Theorem all_decs_head_greatest O st its : forall s x l y,
  all_decs O st its s = x :: l -> In y (all_decs O st its s) -> lex_ge x y.
Proof.
  induction its as [|[lt|n h] its IH]; intros s x l y Hx Hy.
  - simpl in *. unfold all_decs_end in *. destruct st.
    + injection Hx as <- <-. destruct Hy as [<-|[]]. apply lex_ge_refl.
    + destruct s; [|discriminate]. injection Hx as <- <-. destruct Hy as [<-|[]]. apply lex_ge_refl.
  - simpl in *. destruct (strip_prefix lt s); [eapply IH; eauto|discriminate].
  - simpl in Hx, Hy.
    destruct (flat_lens _ _ _ _ _ Hx Hy) as (k0 & k & Hk & Hk0 & H0 & Hyk).
    destruct (hole_ok O h (firstn k0 s)); [|discriminate].
    destruct (hole_ok O h (firstn k s)); [|destruct Hyk].
    destruct (all_decs O st its (skipn k0 s)) as [|x' l'] eqn:E0; [discriminate|].
    simpl in H0. injection H0 as <-.
    apply in_map_iff in Hyk. destruct Hyk as (c & <- & Hc).
    simpl. rewrite !firstn_length_le by lia.
    destruct (Nat.eq_dec k k0) as [->|Hne]; [|left; lia].
    right. split; [reflexivity|]. eapply IH; [exact E0|exact Hc].
Qed.

Theorem mi_greedy O st its s caps caps' :
  mi (kend EndZ true st) O its s = Some caps ->
  s = render its caps' -> caps_ok O st its caps' = true -> lex_ge caps caps'.
Proof.
  rewrite mi_all_decs. intros H Hs Hok.
  destruct (all_decs O st its s) as [|x l] eqn:E; [discriminate|]. injection H as ->.
  eapply all_decs_head_greatest; [exact E|]. apply all_decs_char. auto.
Qed.

(* ---------- the '$' anchor / remainder without DOTALL (the unrepaired source):
   same behaviour on newline-free paths, deviations with a newline *)
Lemma at_end_nonl a t : ~ In c_nl t -> at_end a t = at_end EndZ t.
Proof.
  destruct t as [|c [|d t]]; simpl; auto. intros H. destruct a; [|reflexivity].
  destruct (N.eqb_spec c c_nl); [exfalso; apply H; left; auto|reflexivity].
Qed.

Lemma lazy_star_nonl a b : forall t acc, ~ In c_nl t -> lazy_star a b acc t = Some (rev acc ++ t).
Proof.
  induction t as [|c t IH]; intros acc H.
  - simpl. rewrite app_nil_r. reflexivity.
  - assert (Hc : (c =? c_nl)%N = false) by (destruct (N.eqb_spec c c_nl); [exfalso; apply H; left; auto|reflexivity]).
    assert (Ht : ~ In c_nl t) by (intros X; apply H; right; exact X).
    cbn [lazy_star]. rewrite (at_end_nonl a (c :: t) H).
    replace (at_end EndZ (c :: t)) with false by (destruct t; reflexivity).
    rewrite Hc, orb_true_r. rewrite (IH (c :: acc) Ht). simpl. rewrite <- app_assoc. reflexivity.
Qed.

Lemma kend_nonl a b st t : ~ In c_nl t -> kend a b st t = kend EndZ true st t.
Proof.
  intros H. unfold kend. destruct st.
  - rewrite (lazy_star_nonl a b t [] H), (lazy_star_nonl EndZ true t [] H). reflexivity.
  - rewrite (at_end_nonl a t H). reflexivity.
Qed.

Lemma back_ext lo k1 k2 : (forall t, ~ In c_nl t -> k1 t = k2 t) ->
  forall tr rest, ~ In c_nl (rev tr ++ rest) -> back lo tr rest k1 = back lo tr rest k2.
Proof.
  intros Hk. induction tr as [|c tr IH]; intros rest H; simpl.
  - simpl in H. rewrite (Hk rest H). reflexivity.
  - assert (Hr : ~ In c_nl rest) by (intros X; apply H; apply in_or_app; right; exact X).
    rewrite (Hk rest Hr). rewrite IH; [reflexivity|].
    simpl in H. rewrite <- app_assoc in H. exact H.
Qed.

Lemma mi_ext O ek1 ek2 : (forall t, ~ In c_nl t -> ek1 t = ek2 t) ->
  forall its s, ~ In c_nl s -> mi ek1 O its s = mi ek2 O its s.
Proof.
  intros Hk. induction its as [|[l|n h] its IH]; intros s H; simpl.
  - apply Hk. exact H.
  - destruct (strip_prefix l s) as [r|] eqn:E; [|reflexivity].
    apply strip_prefix_spec in E. subst s. apply IH. intros X. apply H. apply in_or_app. right. exact X.
  - destruct (span_upto (cls_mem O (h_cls h)) (h_hi h) s) as [p r] eqn:E.
    destruct (span_upto_spec _ _ _ _ _ E) as (Hs & _).
    apply back_ext.
    + intros t Ht. apply IH. exact Ht.
    + rewrite rev_involutive, <- Hs. exact H.
Qed.

(* full statement "a match covers the whole path" restricted to newline-free paths:
   holds whatever the anchor and the remainder group are *)
Theorem match_whole_partial a b O p s :
  ~ In c_nl s -> match_pat_with a b O p s = match_pat_with EndZ true O p s.
Proof.
  intros H. unfold match_pat_with.
  rewrite (mi_ext O (kend a b (star p)) (kend EndZ true (star p))); [reflexivity| |exact H].
  intros t Ht. apply kend_nonl. exact Ht.
Qed.

(* pattern-level forms for the facts of the current source *)
Theorem match_greedy O p s caps caps' :
  mi (kend the_anchor the_dotall (star p)) O (items p) s = Some caps ->
  s = render (items p) caps' -> caps_ok O (star p) (items p) caps' = true -> lex_ge caps caps'.
Proof. rewrite the_anchor_strict, the_dotall_on. apply mi_greedy. Qed.

(* a bare {name} captures exactly one non-empty run without '/' *)
Theorem default_hole_one_segment O v :
  (exists h, parse_reg default_hole_regex = Some h /\ hole_ok O h v = true) <-> v <> [] /\ ~ In 47%N v.
Proof.
  rewrite default_hole_is_segment. split.
  - intros (h & Hh & Hok). injection Hh as <-. unfold hole_ok in Hok. simpl in Hok.
    apply andb_true_iff in Hok as [Hok Hf]. apply andb_true_iff in Hok as [Hl _]. split.
    + intros ->. discriminate.
    + intros Hin. rewrite forallb_forall in Hf. specialize (Hf _ Hin). simpl in Hf. discriminate.
  - intros [Hne Hns]. exists spec_default_hole. split; [reflexivity|].
    unfold hole_ok. simpl. rewrite andb_true_r. apply andb_true_iff. split.
    + destruct v; [congruence|reflexivity].
    + apply forallb_forall. intros x Hx. simpl. rewrite orb_false_r.
      destruct (N.eqb_spec x 47%N) as [->|]; [contradiction|reflexivity].
Qed.

(* ---------- RoutesMapper.connect over a list of declarations = "the last declaration of a
   name wins and takes the later place; static routes are not matched" *)
Definition key (e : nat * decl) : text := d_name (snd e).
Definition nonstatic (e : nat * decl) : bool := negb (d_static (snd e)).
Definition pat_or_empty (O : oracle) (src : text) : pat :=
  match parse_pattern O src with Ok p => p | _ => mkPat [] None end.
Definition mkr (O : oracle) (e : nat * decl) : route :=
  mkRoute (fst e) (key e) (pat_or_empty O (d_src (snd e))) (d_preds (snd e)).
Definition parses (O : oracle) (d : decl) : Prop := exists p, parse_pattern O (d_src d) = Ok p.
Definition other_key (x e : nat * decl) : bool := negb (text_eqb (key e) (key x)).

Lemma last_wins_snoc l x :
  last_wins (l ++ [x]) = filter (other_key x) (last_wins l) ++ [x].
Proof.
  induction l as [|y l IH]; simpl; [reflexivity|].
  rewrite existsb_app. simpl. rewrite orb_false_r.
  destruct (existsb (fun e => text_eqb (d_name (snd e)) (d_name (snd y))) l) eqn:Ex; simpl.
  - exact IH.
  - unfold other_key at 1, key. destruct (text_eqb_spec (d_name (snd x)) (d_name (snd y))) as [E|NE].
    + rewrite IH. simpl. unfold other_key at 2, key. rewrite <- E, text_eqb_refl. reflexivity.
    + rewrite IH. simpl. unfold other_key at 2, key.
      destruct (text_eqb_spec (d_name (snd y)) (d_name (snd x))) as [E'|_]; [congruence|]. reflexivity.
Qed.

Lemma last_wins_In l e : In e (last_wins l) -> In e l.
Proof.
  induction l as [|y l IH]; simpl; [auto|].
  destruct (existsb _ l); simpl; intros H; [right; auto|destruct H; auto].
Qed.

Lemma last_wins_keys_unique l : forall y, In y (last_wins l) ->
  forall l1 l2, last_wins l = l1 ++ y :: l2 -> Forall (fun e => key e <> key y) l2.
Proof.
  induction l as [|z l IH]; simpl; intros y Hy l1 l2 E.
  - destruct l1; discriminate.
  - destruct (existsb (fun e => text_eqb (d_name (snd e)) (d_name (snd z))) l) eqn:Ex.
    + eapply IH; eauto.
    + destruct l1 as [|w l1]; simpl in E.
      * injection E as -> <-. apply Forall_forall. intros e He Hk.
        assert (X : existsb (fun e => text_eqb (d_name (snd e)) (d_name (snd y))) l = true).
        { apply existsb_exists. exists e. split; [apply last_wins_In; exact He|]. apply text_eqb_eq. exact Hk. }
        congruence.
      * injection E as -> E. destruct Hy as [<-|Hy].
        -- eapply IH; [|exact E]. rewrite E. apply in_or_app. right. left. reflexivity.
        -- eapply IH; eauto.
Qed.

Lemma filter_other_none x L :
  find (fun e => text_eqb (key x) (key e)) L = None -> filter (other_key x) L = L.
Proof.
  induction L as [|y L IH]; simpl; [reflexivity|]. unfold other_key at 1.
  destruct (text_eqb_spec (key x) (key y)) as [E|NE]; [discriminate|].
  destruct (text_eqb_spec (key y) (key x)) as [E'|_]; [congruence|]. simpl. intros H. rewrite IH; auto.
Qed.

Lemma filter_other_all x L : Forall (fun e => key e <> key x) L -> filter (other_key x) L = L.
Proof.
  induction 1 as [|y L Hy HL IH]; simpl; [reflexivity|]. unfold other_key at 1.
  destruct (text_eqb_spec (key y) (key x)); [contradiction|]. simpl. rewrite IH. reflexivity.
Qed.

Lemma remove_id_absent O i L : ~ In i (map fst L) -> remove_id i (map (mkr O) L) = map (mkr O) L.
Proof.
  induction L as [|y L IH]; simpl; intros H; [reflexivity|].
  destruct (Nat.eqb_spec (fst y) i) as [E|NE]; [exfalso; auto|]. rewrite IH; auto.
Qed.

Lemma In_filter_fst {A} (f : nat * A -> bool) i L : In i (map fst (filter f L)) -> In i (map fst L).
Proof.
  induction L as [|y L IH]; simpl; [auto|]. destruct (f y); simpl; intros H; [destruct H; auto|auto].
Qed.

(* removing the old route of that name from routelist *)
Lemma remove_old O x e : forall L,
  NoDup (map fst L) ->
  (forall y, In y L -> forall l1 l2, L = l1 ++ y :: l2 -> Forall (fun e => key e <> key y) l2) ->
  find (fun e => text_eqb (key x) (key e)) L = Some e ->
  remove_id (fst e) (map (mkr O) (filter nonstatic L)) = map (mkr O) (filter nonstatic (filter (other_key x) L)).
Proof.
  induction L as [|y L IH]; intros ND U F; simpl in *; [discriminate|].
  inversion ND as [|? ? Hny ND']; subst.
  assert (U' : forall y0, In y0 L -> forall l1 l2, L = l1 ++ y0 :: l2 -> Forall (fun e => key e <> key y0) l2).
  { intros y0 H0 l1 l2 E. apply (U y0 (or_intror H0) (y :: l1) l2). rewrite E. reflexivity. }
  unfold other_key at 1.
  destruct (text_eqb_spec (key x) (key y)) as [E|NE].
  - injection F as <-. rewrite <- E, text_eqb_refl. simpl.
    assert (HL : filter (other_key x) L = L).
    { apply filter_other_all. rewrite E. apply (U y (or_introl eq_refl) [] L). reflexivity. }
    rewrite HL. destruct (nonstatic y) eqn:Ny; simpl.
    + rewrite Nat.eqb_refl. reflexivity.
    + apply remove_id_absent. intros H. apply Hny. eapply In_filter_fst. exact H.
  - destruct (text_eqb_spec (key y) (key x)) as [E'|_]; [congruence|]. simpl.
    assert (He : In e L) by (apply find_some in F; tauto).
    destruct (nonstatic y) eqn:Ny; simpl.
    + destruct (Nat.eqb_spec (fst y) (fst e)) as [Eid|_].
      * exfalso. apply Hny. rewrite Eid. apply in_map. exact He.
      * rewrite IH; auto.
    + apply IH; auto.
Qed.

Lemma assoc_get_set M k v k' :
  assoc_get (assoc_set M k v) k' = if text_eqb k' k then Some v else assoc_get M k'.
Proof.
  induction M as [|[k0 v0] M IH]; simpl.
  - reflexivity.
  - destruct (text_eqb_spec k k0) as [->|NE]; simpl.
    + destruct (text_eqb_spec k' k0); reflexivity.
    + rewrite IH. destruct (text_eqb_spec k' k0) as [->|]; [|reflexivity].
      destruct (text_eqb_spec k0 k); [congruence|reflexivity].
Qed.

Lemma find_filter_other x k L : k <> key x ->
  find (fun e => text_eqb k (key e)) (filter (other_key x) L) = find (fun e => text_eqb k (key e)) L.
Proof.
  intros NE. induction L as [|y L IH]; simpl; [reflexivity|]. unfold other_key at 1.
  destruct (text_eqb_spec (key y) (key x)) as [E|NE']; simpl.
  - destruct (text_eqb_spec k (key y)); [congruence|exact IH].
  - destruct (text_eqb_spec k (key y)); [reflexivity|exact IH].
Qed.

Lemma find_filter_same x L : find (fun e => text_eqb (key x) (key e)) (filter (other_key x) L) = None.
Proof.
  induction L as [|y L IH]; simpl; [reflexivity|]. unfold other_key at 1.
  destruct (text_eqb_spec (key y) (key x)) as [E|NE']; simpl; [exact IH|].
  destruct (text_eqb_spec (key x) (key y)); [congruence|exact IH].
Qed.

Lemma find_app {A} (f : A -> bool) l1 l2 :
  find f (l1 ++ l2) = match find f l1 with Some x => Some x | None => find f l2 end.
Proof. induction l1 as [|x l1 IH]; simpl; [reflexivity|]. destruct (f x); auto. Qed.

Definition Inv (O : oracle) (pre : list (nat * decl)) (m : mapper) : Prop :=
  routelist m = map (mkr O) (filter nonstatic (last_wins pre))
  /\ forall k, assoc_get (routes m) k
               = option_map (mkr O) (find (fun e => text_eqb k (key e)) (last_wins pre)).

Lemma NoDup_sub_last_wins l : NoDup (map fst l) -> NoDup (map fst (last_wins l)).
Proof.
  induction l as [|y l IH]; simpl; intros H; [constructor|]. inversion H; subst.
  destruct (existsb _ l); [auto|]. simpl. constructor; [|auto].
  intros X. apply in_map_iff in X. destruct X as (e & E1 & E2). apply last_wins_In in E2.
  apply H2. rewrite <- E1. apply in_map. exact E2.
Qed.

Lemma connect_step O pre m id d :
  Inv O pre m -> parses O d -> NoDup (map fst pre) ->
  exists m', connect O m id d = (m', Ok tt) /\ Inv O (pre ++ [(id, d)]) m'.
Proof.
  intros [Hrl Has] [p Hp] ND. set (x := (id, d)).
  assert (Hrl' : match assoc_get (routes m) (d_name d) with
                 | Some old => remove_id (r_id old) (routelist m)
                 | None => routelist m
                 end = map (mkr O) (filter nonstatic (filter (other_key x) (last_wins pre)))).
  { rewrite (Has (d_name d)). change (d_name d) with (key x).
    destruct (find (fun e => text_eqb (key x) (key e)) (last_wins pre)) as [e|] eqn:F; simpl.
    - rewrite Hrl. apply remove_old; auto.
      + apply NoDup_sub_last_wins. exact ND.
      + intros y Hy l1 l2 E. eapply last_wins_keys_unique; eauto.
    - rewrite (filter_other_none x _ F). exact Hrl. }
  assert (Hx : mkRoute id (d_name d) p (d_preds d) = mkr O x).
  { unfold mkr, pat_or_empty, x, key. simpl. rewrite Hp. reflexivity. }
  unfold connect. rewrite Hp, Hrl', Hx.
  assert (Hassoc : forall k, assoc_get (assoc_set (routes m) (d_name d) (mkr O x)) k
            = option_map (mkr O) (find (fun e => text_eqb k (key e)) (last_wins (pre ++ [x])))).
  { intros k. rewrite assoc_get_set, last_wins_snoc, find_app. change (d_name d) with (key x).
    destruct (text_eqb_spec k (key x)) as [->|NE].
    - rewrite find_filter_same. simpl. rewrite text_eqb_refl. reflexivity.
    - rewrite (find_filter_other x k _ NE), Has.
      destruct (find (fun e => text_eqb k (key e)) (last_wins pre)); [reflexivity|].
      simpl. destruct (text_eqb_spec k (key x)); [congruence|reflexivity]. }
  assert (Hns : filter nonstatic [x] = if d_static d then [] else [x]).
  { unfold x, nonstatic. simpl. destruct (d_static d); reflexivity. }
  destruct (d_static d) eqn:St.
  - eexists. split; [reflexivity|]. split; [|exact Hassoc].
    cbn [routelist]. rewrite last_wins_snoc, filter_app, Hns, app_nil_r. reflexivity.
  - eexists. split; [reflexivity|]. split; [|exact Hassoc].
    cbn [routelist]. rewrite last_wins_snoc, filter_app, Hns, map_app. reflexivity.
Qed.

Lemma number_fst {A} (l : list A) : forall i, map fst (number i l) = seq i (length l).
Proof. induction l as [|x l IH]; intros i; simpl; [reflexivity|]. rewrite IH. reflexivity. Qed.

Lemma connect_all_inv O : forall l pre m m' sts,
  Inv O pre m -> Forall (parses O) l -> map fst pre = seq 0 (length pre) ->
  connect_all O m (length pre) l = (m', sts) ->
  Forall (fun s => s = Ok tt) sts /\ Inv O (pre ++ number (length pre) l) m'.
Proof.
  induction l as [|d l IH]; intros pre m m' sts HI HP Hids H; simpl in H.
  - injection H as <- <-. rewrite app_nil_r. auto.
  - inversion HP as [|? ? Hd Hl]; subst.
    destruct (connect_step O pre m (length pre) d HI Hd) as (m1 & E1 & HI1).
    { rewrite Hids. apply seq_NoDup. }
    rewrite E1 in H.
    destruct (connect_all O m1 (S (length pre)) l) as [m2 sts2] eqn:E2.
    injection H as <- <-.
    assert (Hlen : length (pre ++ [(length pre, d)]) = S (length pre)) by (rewrite app_length; simpl; lia).
    destruct (IH (pre ++ [(length pre, d)]) m1 m2 sts2 HI1 Hl) as [S2 I2].
    + rewrite map_app, Hids, Hlen, seq_S. reflexivity.
    + rewrite Hlen. exact E2.
    + split; [constructor; auto|]. rewrite Hlen, <- app_assoc in I2. exact I2.
Qed.

Theorem connect_last_wins O ds m sts :
  Forall (parses O) ds -> connect_all O empty_mapper 0 ds = (m, sts) ->
  Forall (fun s => s = Ok tt) sts
  /\ routelist m = map (mkr O) (filter nonstatic (last_wins (number 0 ds))).
Proof.
  intros HP H.
  destruct (connect_all_inv O ds [] empty_mapper m sts) as [S [I _]]; auto.
  split; reflexivity.
Qed.

(* the executable specification's route list is that list *)
Lemma regex_sources_ok_true : regex_sources_ok = true.
Proof. vm_compute. reflexivity. Qed.

Lemma parse_pattern_core O src : parse_pattern O src = parse_core O (Some spec_default_hole) src.
Proof. unfold parse_pattern, parse_pattern_with. rewrite regex_sources_ok_true, default_hole_is_segment. reflexivity. Qed.

Lemma all_ok_parses O ds : all_ok O ds = true -> Forall (parses O) ds.
Proof.
  unfold all_ok. rewrite forallb_forall. intros H. apply Forall_forall. intros d Hd. specialize (H d Hd).
  unfold parses. rewrite parse_pattern_core. destruct (parse_core O (Some spec_default_hole) (d_src d)); try discriminate. eauto.
Qed.

Lemma spec_routes_ok O L : Forall (fun e => parses O (snd e)) L ->
  spec_routes O L = Ok (map (mkr O) (filter nonstatic L)).
Proof.
  induction 1 as [|[i d] L [p Hp] HL IH]; simpl; [reflexivity|].
  rewrite IH. pose proof Hp as Hp'. rewrite parse_pattern_core in Hp'. simpl in Hp'. rewrite Hp'.
  assert (Hns : nonstatic (i, d) = negb (d_static d)) by reflexivity. rewrite Hns.
  destruct (d_static d); simpl; [reflexivity|].
  unfold mkr at 2, pat_or_empty, key. simpl in *. rewrite Hp. reflexivity.
Qed.

Lemma number_In {A} (l : list A) : forall i e, In e (number i l) -> In (snd e) l.
Proof. induction l as [|x l IH]; intros i e; simpl; [auto|]. intros [<-|H]; [left; reflexivity|right; eapply IH; eauto]. Qed.

(* end to end, for declarations that all compile: what the mapper built by the connect
   calls answers is what the declarative specification says *)
Theorem request_spec O ds method raw m sts :
  all_ok O ds = true -> connect_all O empty_mapper 0 ds = (m, sts) ->
  Forall (fun s => s = Ok tt) sts
  /\ spec_request O ds method raw =
     match fst (dispatch_request O m method raw) with
     | ODecodeError => SDecodeError
     | OMatch r d => SMatch r d
     | ONone => SNone
     | OConfigError => SNothing
     end.
Proof.
  intros Hok H. pose proof (all_ok_parses O ds Hok) as HP.
  destruct (connect_last_wins O ds m sts HP H) as [S Hrl]. split; [exact S|].
  unfold spec_request. rewrite Hok. simpl.
  rewrite spec_routes_ok.
  - rewrite <- Hrl. unfold dispatch_request. destruct (request_path raw) as [|path]; [reflexivity|].
    rewrite <- dispatch_spec. destruct (dispatch O method (routelist m) path) as [[[r d]|] tr]; reflexivity.
  - apply Forall_forall. intros e He. apply last_wins_In, number_In in He.
    rewrite Forall_forall in HP. auto.
Qed.

(* a literal matches only itself: no regex metacharacter of the pattern text leaks *)
Theorem lit_is_literal O l s : match_pat O (mkPat [Lit l] None) s = Some [] <-> s = l.
Proof.
  rewrite match_spec. unfold spec_match. simpl. split.
  - destruct (strip_prefix l s) as [r|] eqn:E; [|discriminate]. apply strip_prefix_spec in E. subst s.
    destruct r; [rewrite app_nil_r; auto|discriminate].
  - intros ->. assert (E : strip_prefix l l = Some []) by (apply strip_prefix_spec; rewrite app_nil_r; reflexivity).
    rewrite E. reflexivity.
Qed.

(* ---------- concrete witnesses *)
Require Import Coq.Strings.String.
Definition no_oracle : oracle := mkOracle (fun _ => false) (fun _ => false).
Definition pat_of (src : String.string) : pat :=
  match parse_pattern no_oracle (T src) with Ok p => p | _ => mkPat [] None end.

(* with '$' and '.*?' the full statement is false: each line is a replay *)
Example match_whole_refuted :
  (* /foo matches "/foo\n" *)
  match_pat_with Dollar false no_oracle (pat_of "/foo"%string) (T "/foo" ++ [c_nl]) = Some []
  /\ spec_match no_oracle (pat_of "/foo"%string) (T "/foo" ++ [c_nl]) = None
  (* /f/*rest on "/f/a\n" drops the newline *)
  /\ match_pat_with Dollar false no_oracle (pat_of "/f/*rest"%string) (T "/f/a" ++ [c_nl])
     = Some [(T "rest", MSegs [T "a"])]
  /\ spec_match no_oracle (pat_of "/f/*rest"%string) (T "/f/a" ++ [c_nl])
     = Some [(T "rest", MSegs [T "a" ++ [c_nl]])]
  (* /f/*rest on "/f/a\nb" does not match at all *)
  /\ match_pat_with Dollar false no_oracle (pat_of "/f/*rest"%string) (T "/f/a" ++ [c_nl] ++ T "b") = None
  /\ spec_match no_oracle (pat_of "/f/*rest"%string) (T "/f/a" ++ [c_nl] ++ T "b")
     = Some [(T "rest", MSegs [T "a" ++ [c_nl] ++ T "b"])].
Proof. vm_compute. repeat split. Qed.

(* non-vacuity: parsing, greedy splitting inside one segment, custom classes, old-style
   placeholders, the remainder, ordering with a failing predicate, and a refused path *)
Example c01_nonvacuous :
  parse_pattern no_oracle (T "/f/{a}.{b:\d{2}}/*rest")
    = Ok (mkPat [Lit (T "/f/"); Hole (T "a") spec_default_hole; Lit (T ".");
                 Hole (T "b") (mkHre CDigit 2 (Some 2)); Lit (T "/")] (Some (T "rest")))
  /\ match_pat no_oracle (pat_of "/f/{a}.{b:\d{2}}/*rest"%string) (T "/f/x.y.42/u/../v//w/")
     = Some [(T "a", MText (T "x.y")); (T "b", MText (T "42")); (T "rest", MSegs [T "v"; T "w"])]
  /\ match_pat no_oracle (pat_of "/:x/:y"%string) (T "/1/2") = Some [(T "x", MText (T "1")); (T "y", MText (T "2"))]
  /\ match_pat no_oracle (pat_of "/{a}{b}"%string) (T "/xyz") = Some [(T "a", MText (T "xy")); (T "b", MText (T "z"))]
  /\ match_pat no_oracle (pat_of "/a.b"%string) (T "/axb") = None
  /\ (let rs := [mkRoute 0 (T "r0") (pat_of "/{a}"%string) [PConst false];
                 mkRoute 1 (T "r1") (pat_of "/x"%string) [PMethod (T "GET")];
                 mkRoute 2 (T "r2") (pat_of "/*all"%string) []] in
      dispatch no_oracle (T "GET") rs (T "/x")
        = (Some (mkRoute 1 (T "r1") (pat_of "/x"%string) [PMethod (T "GET")], []), [(0, 1); (1, 1)])
      /\ fst (dispatch no_oracle (T "POST") rs (T "/x")) = Some (mkRoute 2 (T "r2") (pat_of "/*all"%string) [],
                                                                  [(T "all", MSegs [T "x"])]))
  /\ dispatch_request no_oracle empty_mapper (T "GET") (Some [47; 255]%N) = (ODecodeError, [])
  /\ parse_pattern no_oracle (T "/{a}/{a}") = CompileError
  /\ parse_pattern no_oracle (T "/{a:(x|y)}") = Unsupported.
Proof. vm_compute. repeat split. Qed.
