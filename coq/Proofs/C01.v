(* C01 proofs: the backtracking matcher of the compiled route pattern equals the
   declarative enumeration of whole-path decompositions (longest first);
   RoutesMapper.__call__ returns the first qualifying route. *)
From Coq Require Import List NArith ZArith Bool Lia Arith.
Import ListNotations.
Require Import Verif.Lib.Wire Verif.Lib.Text Verif.Lib.PathNorm Verif.Lib.Utf8 Verif.Gen.Facts_C01 Verif.Model.C01.
Local Close Scope N_scope.
Local Open Scope nat_scope.

(* ---------- the regenerated facts the theorems depend on *)
Definition facts_ok : bool :=
  regex_sources_ok
  && match anchor_of anchor_suffix with Some EndZ => true | _ => false end
  && match dotall_of remainder_group_fmt with Some true => true | _ => false end
  && match parse_reg default_hole_regex with
     | Some (mkHre (CSet true [CChar 47%N]) 1 None) => true
     | _ => false
     end.

Lemma facts_ok_true : facts_ok = true.
Proof. vm_compute. reflexivity. Qed.

Lemma the_anchor_strict : the_anchor = EndZ.
Proof. vm_compute. reflexivity. Qed.
Lemma the_dotall_on : the_dotall = true.
Proof. vm_compute. reflexivity. Qed.
Lemma default_hole_is_segment : parse_reg default_hole_regex = Some spec_default_hole.
Proof. vm_compute. reflexivity. Qed.

(* ---------- lists *)
Lemma hd_error_app {A} (a b : list A) :
  hd_error (a ++ b) = match hd_error a with Some x => Some x | None => hd_error b end.
Proof. destruct a; reflexivity. Qed.
Lemma hd_error_map {A B} (f : A -> B) l : hd_error (map f l) = option_map f (hd_error l).
Proof. destruct l; reflexivity. Qed.
Lemma hd_error_none {A} (l : list A) : hd_error l = None -> l = [].
Proof. destruct l; [reflexivity|discriminate]. Qed.

Lemma flat_map_all_nil {A B} (g : A -> list B) l : (forall x, In x l -> g x = []) -> flat_map g l = [].
Proof.
  induction l as [|x l IH]; intros H; simpl; [reflexivity|].
  rewrite (H x) by (left; reflexivity). apply IH. intros y Hy. apply H. right. exact Hy.
Qed.

Lemma In_lens_desc n k : In k (lens_desc n) <-> k <= n.
Proof.
  induction n as [|n IH]; simpl.
  - split; [intros [<-|[]]; lia|intros H; left; lia].
  - rewrite IH. split; [intros [<-|H]; lia|intros H; destruct (Nat.eq_dec k (S n)); [left; congruence|right; lia]].
Qed.

(* ---------- span_upto *)
Lemma span_upto_spec f hi s : forall p r, span_upto f hi s = (p, r) ->
  s = p ++ r /\ forallb f p = true /\ (forall m, hi = Some m -> length p <= m)
  /\ (r = [] \/ (exists c r', r = c :: r' /\ f c = false) \/ hi = Some (length p)).
Proof.
  revert hi; induction s as [|c s IH]; intros hi p r H; simpl in H.
  - injection H as <- <-. repeat split; auto. intros; simpl; lia.
  - destruct hi as [[|m]|].
    + injection H as <- <-. repeat split; auto. intros m Hm; injection Hm as <-; simpl; lia.
    + destruct (f c) eqn:Hc.
      * destruct (span_upto f (option_map Nat.pred (Some (S m))) s) as [p' q] eqn:E.
        injection H as <- <-. destruct (IH _ _ _ E) as (-> & Hp & Hb & Hmax).
        repeat split; auto.
        -- simpl. rewrite Hc. exact Hp.
        -- intros m0 Hm0. injection Hm0 as <-. simpl. specialize (Hb m eq_refl). lia.
        -- destruct Hmax as [->|[(c' & r' & -> & Hc')|Hh]]; auto.
           ++ right. left. eauto.
           ++ right. right. simpl in Hh. injection Hh as ->. reflexivity.
      * injection H as <- <-. repeat split; auto; [intros; simpl; lia|]. right. left. eauto.
    + destruct (f c) eqn:Hc.
      * destruct (span_upto f (option_map Nat.pred None) s) as [p' q] eqn:E.
        injection H as <- <-. destruct (IH _ _ _ E) as (-> & Hp & Hb & Hmax).
        repeat split; auto.
        -- simpl. rewrite Hc. exact Hp.
        -- intros m0 Hm0. discriminate.
        -- destruct Hmax as [->|[(c' & r' & -> & Hc')|Hh]]; auto.
           ++ right. left. eauto.
           ++ discriminate.
      * injection H as <- <-. repeat split; auto; [intros; discriminate|]. right. left. eauto.
Qed.

Lemma forallb_firstn {A} (f : A -> bool) k l : forallb f l = true -> forallb f (firstn k l) = true.
Proof.
  revert k; induction l as [|x l IH]; intros k H; destruct k; simpl in *; auto.
  apply andb_true_iff in H as [-> H]. simpl. auto.
Qed.

(* which prefix lengths are acceptable captures of a placeholder, given the greedy run *)
Lemma hole_ok_within O h s p r k :
  span_upto (cls_mem O (h_cls h)) (h_hi h) s = (p, r) -> k <= length p ->
  hole_ok O h (firstn k s) = (h_lo h <=? k).
Proof.
  intros E Hk. destruct (span_upto_spec _ _ _ _ _ E) as (-> & Hp & Hb & _).
  unfold hole_ok. rewrite firstn_app. replace (k - length p) with 0 by lia. simpl. rewrite app_nil_r.
  rewrite firstn_length_le by exact Hk. rewrite (forallb_firstn _ _ _ Hp), andb_true_r.
  destruct (h_hi h) as [m|]; [|apply andb_true_r].
  specialize (Hb m eq_refl). replace (k <=? m) with true by (symmetry; apply Nat.leb_le; lia). apply andb_true_r.
Qed.

Lemma hole_ok_beyond O h s p r k :
  span_upto (cls_mem O (h_cls h)) (h_hi h) s = (p, r) -> length p < k -> k <= length s ->
  hole_ok O h (firstn k s) = false.
Proof.
  intros E Hk Hs. destruct (span_upto_spec _ _ _ _ _ E) as (-> & Hp & Hb & Hmax).
  unfold hole_ok. rewrite app_length in Hs.
  assert (Hlen : length (firstn k (p ++ r)) = k) by (apply firstn_length_le; rewrite app_length; lia).
  rewrite Hlen.
  destruct Hmax as [->|[(c & r' & -> & Hc)|Hh]].
  - simpl in Hs. lia.
  - rewrite firstn_app. replace (firstn k p) with p by (symmetry; apply firstn_all2; lia).
    destruct (k - length p) as [|j] eqn:Ej; [lia|]. simpl. rewrite forallb_app. simpl. rewrite Hc.
    rewrite andb_false_r, andb_false_r. reflexivity.
  - rewrite Hh. replace (k <=? length p) with false by (symmetry; apply Nat.leb_gt; lia).
    rewrite andb_false_r. reflexivity.
Qed.

(* ---------- the end of the compiled pattern, strict facts *)
Lemma lazy_star_strict acc s : lazy_star EndZ true acc s = Some (rev acc ++ s).
Proof.
  revert acc; induction s as [|c s IH]; intros acc; simpl.
  - rewrite app_nil_r. reflexivity.
  - specialize (IH (c :: acc)). destruct s as [|d s']; simpl in *.
    + reflexivity.
    + rewrite IH. rewrite <- app_assoc. reflexivity.
Qed.

Lemma kend_strict st s :
  kend EndZ true st s = hd_error (all_decs_end st s).
Proof.
  unfold kend, all_decs_end. destruct st as [n|].
  - rewrite lazy_star_strict. reflexivity.
  - destruct s as [|c [|d s]]; reflexivity.
Qed.

(* ---------- the matcher equals the head of the declarative enumeration *)
Section HoleStep.
  Variables (O : oracle) (h : hre) (s : text) (kont : text -> option (list text)) (L : text -> list (list text)).
  Hypothesis kont_L : forall t, kont t = hd_error (L t).
  Let G (k : nat) : list (list text) :=
    let v := firstn k s in if hole_ok O h v then map (cons v) (L (skipn k s)) else [].

  Lemma back_flat : forall tr rest,
    rev tr ++ rest = s ->
    (forall k, k <= length tr -> hole_ok O h (firstn k s) = (h_lo h <=? k)) ->
    back (h_lo h) tr rest kont = hd_error (flat_map G (lens_desc (length tr))).
  Proof.
    induction tr as [|c tr IH]; intros rest Hs Hok.
    - simpl in Hs. subst rest. simpl. rewrite app_nil_r. unfold G. simpl.
      specialize (Hok 0 (Nat.le_0_l _)). simpl in Hok. rewrite Hok.
      destruct (h_lo h) as [|lo]; simpl; [|reflexivity].
      rewrite hd_error_map, kont_L. reflexivity.
    - assert (Hlen : length (rev (c :: tr)) = length (c :: tr)) by apply rev_length.
      assert (Hf : firstn (length (c :: tr)) s = rev (c :: tr)).
      { rewrite <- Hs, <- Hlen. rewrite firstn_app, Nat.sub_diag, firstn_all. simpl. apply app_nil_r. }
      assert (Hk : skipn (length (c :: tr)) s = rest).
      { rewrite <- Hs, <- Hlen. rewrite skipn_app, Nat.sub_diag, skipn_all. reflexivity. }
      cbn [back]. destruct (length (c :: tr) <? h_lo h) eqn:Hlt.
      + apply Nat.ltb_lt in Hlt. symmetry. rewrite flat_map_all_nil; [reflexivity|].
        intros k Hk'. apply In_lens_desc in Hk'. unfold G. rewrite (Hok k Hk').
        replace (h_lo h <=? k) with false by (symmetry; apply Nat.leb_gt; lia). reflexivity.
      + apply Nat.ltb_ge in Hlt.
        change (lens_desc (length (c :: tr))) with (length (c :: tr) :: lens_desc (length tr)).
        cbn [flat_map]. rewrite hd_error_app.
        unfold G at 1. rewrite Hf, Hk. rewrite <- Hf at 1. rewrite (Hok _ (Nat.le_refl _)).
        replace (h_lo h <=? length (c :: tr)) with true by (symmetry; apply Nat.leb_le; lia).
        rewrite hd_error_map, <- kont_L.
        destruct (kont rest) as [caps|] eqn:Ek; [reflexivity|]. simpl.
        apply IH.
        * rewrite <- Hs. simpl. rewrite <- app_assoc. reflexivity.
        * intros k Hk'. apply Hok. simpl. lia.
  Qed.
End HoleStep.

Lemma flat_map_skip_high {B} (g : nat -> list B) m n :
  m <= n -> (forall k, m < k -> k <= n -> g k = []) ->
  flat_map g (lens_desc n) = flat_map g (lens_desc m).
Proof.
  intros Hmn. induction Hmn as [|n Hmn IH]; intros H; [reflexivity|].
  simpl. rewrite (H (S n)) by lia. simpl. apply IH. intros k H1 H2. apply H; lia.
Qed.

Theorem mi_all_decs O st its : forall s,
  mi (kend EndZ true st) O its s = hd_error (all_decs O st its s).
Proof.
  induction its as [|[l|n h] its IH]; intros s; simpl.
  - apply kend_strict.
  - destruct (strip_prefix l s); [apply IH|reflexivity].
  - destruct (span_upto (cls_mem O (h_cls h)) (h_hi h) s) as [p r] eqn:E.
    pose proof (span_upto_spec _ _ _ _ _ E) as (Hs & _).
    rewrite (flat_map_skip_high _ (length p) (length s)).
    + rewrite <- (rev_length p).
      apply (back_flat O h s (mi (kend EndZ true st) O its) (all_decs O st its) IH).
      * rewrite rev_involutive. symmetry. exact Hs.
      * intros k Hk. rewrite rev_length in Hk. eapply hole_ok_within; eauto.
    + rewrite Hs, app_length. lia.
    + intros k H1 H2. rewrite (hole_ok_beyond O h s p r k E H1 H2). reflexivity.
Qed.

(* ---------- the enumeration contains exactly the decompositions of the whole text *)
Lemma all_decs_end_char O st s caps :
  In caps (all_decs_end st s) <-> s = render [] caps /\ caps_ok O st [] caps = true.
Proof.
  unfold all_decs_end. simpl. destruct st as [n|].
  - simpl. split.
    + intros [<-|[]]. auto.
    + intros [-> H]. destruct caps as [|v [|w c]]; try discriminate. left. reflexivity.
  - destruct s as [|c s]; simpl; split.
    + intros [<-|[]]. auto.
    + intros [_ H]. destruct caps; [left; reflexivity|discriminate].
    + intros [].
    + intros [H1 H2]. destruct caps; discriminate.
Qed.

Theorem all_decs_char O st its : forall s caps,
  In caps (all_decs O st its s) <-> s = render its caps /\ caps_ok O st its caps = true.
Proof.
  induction its as [|[l|n h] its IH]; intros s caps.
  - apply all_decs_end_char.
  - simpl. destruct (strip_prefix l s) as [r|] eqn:E.
    + apply strip_prefix_spec in E. subst s. rewrite IH. split.
      * intros [-> H]. auto.
      * intros [H1 H2]. apply app_inv_head in H1. auto.
    + split; [intros []|]. intros [H1 _].
      assert (E' : strip_prefix l s = Some (render its caps)) by (apply strip_prefix_spec; exact H1). congruence.
  - simpl. rewrite in_flat_map. split.
    + intros (k & Hk & Hin). destruct (hole_ok O h (firstn k s)) eqn:Hok; [|destruct Hin].
      apply in_map_iff in Hin. destruct Hin as (c & <- & Hc). apply IH in Hc. destruct Hc as [Hc1 Hc2].
      rewrite Hok, Hc2, <- Hc1, firstn_skipn. auto.
    + intros [H1 H2]. destruct caps as [|v c]; [discriminate|]. apply andb_true_iff in H2 as [Hv Hc].
      exists (length v). subst s. split.
      * apply In_lens_desc. rewrite app_length. lia.
      * rewrite firstn_app, Nat.sub_diag, firstn_all. simpl. rewrite app_nil_r, Hv.
        apply in_map. apply IH. rewrite skipn_app, Nat.sub_diag, skipn_all. simpl. auto.
Qed.

(* soundness + "matches the whole path": strict anchor, remainder group spanning newlines *)
Theorem mi_sound_whole O st its s caps :
  mi (kend EndZ true st) O its s = Some caps -> s = render its caps /\ caps_ok O st its caps = true.
Proof.
  rewrite mi_all_decs. intros H. apply (all_decs_char O st its s caps).
  destruct (all_decs O st its s) as [|x l]; [discriminate|]. injection H as ->. left. reflexivity.
Qed.

Theorem mi_complete O st its caps :
  caps_ok O st its caps = true -> exists caps', mi (kend EndZ true st) O its (render its caps) = Some caps'.
Proof.
  intros H. rewrite mi_all_decs.
  assert (Hin : In caps (all_decs O st its (render its caps))) by (apply all_decs_char; auto).
  destruct (all_decs O st its (render its caps)) as [|x l]; [destruct Hin|]. exists x. reflexivity.
Qed.

(* ---------- pattern level, for the facts of the current source *)
Theorem match_spec O p s : match_pat O p s = spec_match O p s.
Proof.
  unfold match_pat, match_pat_with, spec_match. rewrite the_anchor_strict, the_dotall_on, mi_all_decs.
  destruct (all_decs O (star p) (items p) s); reflexivity.
Qed.

Theorem match_whole O p s d :
  match_pat O p s = Some d ->
  exists caps, d = mk_dict (items p) (star p) caps /\ s = render (items p) caps
               /\ caps_ok O (star p) (items p) caps = true.
Proof.
  unfold match_pat, match_pat_with. rewrite the_anchor_strict, the_dotall_on.
  destruct (mi (kend EndZ true (star p)) O (items p) s) as [caps|] eqn:E; [|discriminate].
  intros H. injection H as <-. exists caps. apply mi_sound_whole in E. tauto.
Qed.

Theorem match_complete O p caps :
  caps_ok O (star p) (items p) caps = true -> match_pat O p (render (items p) caps) <> None.
Proof.
  intros H. unfold match_pat, match_pat_with. rewrite the_anchor_strict, the_dotall_on.
  destruct (mi_complete O _ _ _ H) as (c & ->). discriminate.
Qed.

(* the dictionary: one entry per placeholder, in order, holding exactly the captured
   text; the remainder entry holds the normalised segments of its capture *)
Definition dict_vals (st : option text) (caps : list text) : list mval :=
  match st with
  | None => map MText caps
  | Some _ => map MText (removelast caps) ++ [MSegs (split_path_info (last caps []))]
  end.

Lemma mk_dict_char O st its : forall caps,
  caps_ok O st its caps = true ->
  map fst (mk_dict its st caps) = hole_names its ++ match st with Some n => [n] | None => [] end
  /\ map snd (mk_dict its st caps) = dict_vals st caps.
Proof.
  induction its as [|[l|n h] its IH]; intros caps H; simpl in *.
  - destruct st as [m|]; destruct caps as [|v [|w c]]; try discriminate; simpl; auto.
  - apply IH. exact H.
  - destruct caps as [|v c]; [discriminate|]. apply andb_true_iff in H as [_ H].
    destruct (IH c H) as [K V]. simpl. rewrite K, V. split; [reflexivity|].
    unfold dict_vals. destruct st as [m|]; [|reflexivity].
    assert (Hc : c <> []).
    { clear -H. revert c H. induction its as [|[l|n' h'] its IH]; intros c H; simpl in H.
      - destruct c as [|w [|w' c']]; try discriminate.
      - apply IH. exact H.
      - destruct c; discriminate. }
    destruct c as [|w c']; [congruence|]. reflexivity.
Qed.

(* ---------- RoutesMapper.__call__ *)
Lemma eval_preds_fst method d ps : forall n,
  fst (eval_preds method d ps n) = forallb (pred_ok method d) ps.
Proof.
  induction ps as [|p ps IH]; intros n; simpl; [reflexivity|].
  destruct (pred_ok method d p); [apply IH|reflexivity].
Qed.

Definition qual (mt : pat -> text -> option matchdict) (method path : text) (r : route) : bool :=
  match mt (r_pat r) path with
  | Some d => forallb (pred_ok method d) (r_preds r)
  | None => false
  end.

Theorem dispatch_with_find mt method rs path :
  fst (dispatch_with mt method rs path) =
  match find (qual mt method path) rs with
  | Some r => match mt (r_pat r) path with Some d => Some (r, d) | None => None end
  | None => None
  end.
Proof.
  induction rs as [|r rs IH]; simpl; [reflexivity|]. unfold qual at 1.
  destruct (mt (r_pat r) path) as [d|] eqn:E.
  - pose proof (eval_preds_fst method d (r_preds r) 0) as F.
    destruct (eval_preds method d (r_preds r) 0) as [ok n]. simpl in F. subst ok.
    destruct (forallb (pred_ok method d) (r_preds r)).
    + simpl. rewrite E. reflexivity.
    + destruct (dispatch_with mt method rs path) as [o tr]. exact IH.
  - exact IH.
Qed.

Lemma find_first {A} (f : A -> bool) l x :
  find f l = Some x <->
  exists pre post, l = pre ++ x :: post /\ Forall (fun y => f y = false) pre /\ f x = true.
Proof.
  induction l as [|y l IH]; simpl.
  - split; [discriminate|]. intros (pre & post & H & _). destruct pre; discriminate.
  - destruct (f y) eqn:Fy.
    + split.
      * intros H. injection H as <-. exists [], l. auto.
      * intros (pre & post & H & Hpre & Fx). destruct pre as [|z pre].
        -- injection H as <- _. reflexivity.
        -- injection H as <- _. inversion Hpre; congruence.
    + rewrite IH. split.
      * intros (pre & post & -> & Hpre & Fx). exists (y :: pre), post. auto.
      * intros (pre & post & H & Hpre & Fx). destruct pre as [|z pre].
        -- injection H as <- _. congruence.
        -- injection H as <- ->. inversion Hpre; subst. eauto.
Qed.

Lemma find_none_all {A} (f : A -> bool) l : find f l = None <-> Forall (fun y => f y = false) l.
Proof.
  induction l as [|y l IH]; simpl; [split; auto|].
  destruct (f y) eqn:Fy.
  - split; [discriminate|]. intros H. inversion H; congruence.
  - rewrite IH. split; [auto|]. intros H. inversion H; auto.
Qed.

(* the selected route is the first one, in list order, whose pattern matches and
   whose predicates all hold on the dictionary of that match *)
Theorem dispatch_first mt method rs path r d :
  fst (dispatch_with mt method rs path) = Some (r, d) <->
  exists pre post, rs = pre ++ r :: post
    /\ Forall (fun r' => qual mt method path r' = false) pre
    /\ mt (r_pat r) path = Some d /\ forallb (pred_ok method d) (r_preds r) = true.
Proof.
  rewrite dispatch_with_find. split.
  - destruct (find (qual mt method path) rs) as [r0|] eqn:F; [|discriminate].
    apply find_first in F. destruct F as (pre & post & -> & Hpre & Q).
    unfold qual in Q. destruct (mt (r_pat r0) path) as [d0|] eqn:E; [|discriminate].
    intros H. injection H as <- <-. exists pre, post. auto.
  - intros (pre & post & -> & Hpre & E & P).
    assert (F : find (qual mt method path) (pre ++ r :: post) = Some r).
    { apply find_first. exists pre, post. repeat split; auto. unfold qual. rewrite E. exact P. }
    rewrite F, E. reflexivity.
Qed.

Theorem dispatch_none mt method rs path :
  fst (dispatch_with mt method rs path) = None <-> Forall (fun r => qual mt method path r = false) rs.
Proof.
  rewrite dispatch_with_find, <- find_none_all.
  destruct (find (qual mt method path) rs) as [r|] eqn:F; [|tauto].
  apply find_some in F. destruct F as [_ Q]. unfold qual in Q.
  destruct (mt (r_pat r) path); [|discriminate]. split; discriminate.
Qed.

(* predicates are only ever called for routes whose pattern matched the path *)
Theorem trace_only_matched mt method rs path i n :
  In (i, n) (snd (dispatch_with mt method rs path)) ->
  exists r, In r rs /\ r_id r = i /\ mt (r_pat r) path <> None.
Proof.
  induction rs as [|r rs IH]; simpl; [intros []|].
  destruct (mt (r_pat r) path) as [d|] eqn:E.
  - destruct (eval_preds method d (r_preds r) 0) as [ok k]. destruct ok.
    + simpl. intros [H|[]]. injection H as <- <-. exists r. rewrite E. repeat split; auto. discriminate.
    + destruct (dispatch_with mt method rs path) as [o tr]. simpl in *. intros [H|H].
      * injection H as <- <-. exists r. rewrite E. repeat split; auto. discriminate.
      * destruct (IH H) as (r' & H1 & H2 & H3). exists r'. auto.
  - intros H. destruct (IH H) as (r' & H1 & H2 & H3). exists r'. auto.
Qed.

Lemma find_ext {A} (f g : A -> bool) l : (forall x, f x = g x) -> find f l = find g l.
Proof. intros H. induction l as [|x l IH]; simpl; [reflexivity|]. rewrite H, IH. reflexivity. Qed.

(* for the current source: the mapper's choice is the declarative specification's *)
Theorem dispatch_spec O method rs path :
  fst (dispatch O method rs path) = spec_dispatch O method rs path.
Proof.
  unfold dispatch, spec_dispatch. rewrite dispatch_with_find.
  rewrite (find_ext (qual (match_pat O) method path) (qualifies O method path)).
  - destruct (find (qualifies O method path) rs); [|reflexivity]. rewrite match_spec. reflexivity.
  - intros r. unfold qual, qualifies. rewrite match_spec. reflexivity.
Qed.

(* a path that is not valid UTF-8 is refused before any pattern or predicate is evaluated *)
Theorem invalid_utf8_refused O m method raw :
  Utf8.decode raw = None -> dispatch_request O m method (Some raw) = (ODecodeError, []).
Proof. intros H. unfold dispatch_request, request_path. rewrite H. reflexivity. Qed.

Theorem valid_path_dispatched O m method raw t :
  Utf8.decode raw = Some t ->
  fst (dispatch_request O m method (Some raw)) =
  match spec_dispatch O method (routelist m) (match t with [] => path_default | _ => t end) with
  | Some (r, d) => OMatch r d
  | None => ONone
  end.
Proof.
  intros H. unfold dispatch_request, request_path. rewrite H.
  set (path := match t with [] => path_default | _ => t end).
  replace (match t with [] => RPath path_default | _ :: _ => RPath t end) with (RPath path) by (destruct t; reflexivity).
  rewrite <- dispatch_spec. destruct (dispatch O method (routelist m) path) as [[[r d]|] tr]; reflexivity.
Qed.
