(* C04 proofs, part 11 (clause d, generator-step level): within a phase, pending actions are handed out in
   increasing index order; indices are positions in remaining_actions, to which re-entrant declarations are appended. *)
From Coq Require Import List NArith ZArith Bool Lia Permutation Sorted.
Import ListNotations.
Require Import Verif.Lib.Wire Verif.Lib.C04Sort Verif.Gen.Facts_C04 Verif.Model.C04.
Require Import Verif.Proofs.C04_flat Verif.Proofs.C04_decide Verif.Proofs.C04_safe Verif.Proofs.C04_groups Verif.Proofs.C04_spec.

Definition idx_le (u v : ainfo) : Prop := (fst u <= fst v)%N.

Lemma output_sorted l : StronglySorted idx_le (sort (leb_by output_key) l).
Proof.
  eapply SS_impl; [apply (sort_sorted (leb_by output_key))|].
  - intros x y. rewrite !leb5_spec. lia.
  - intros x y z. rewrite !leb5_spec. lia.
  - intros x y H. unfold le in H. apply leb5_spec in H. exact H.
Qed.

Lemma next_group_in_order cfg : forall gs st evs a st2 g2 e,
  next_group cfg st gs evs = SYield a st2 g2 e ->
  exists x k grp, a = snd x /\ In (k, grp) gs /\
                  StronglySorted idx_le (x :: g_out g2) /\
                  (forall y, In y (x :: g_out g2) -> In y (forced_group grp)).
Proof.
  induction gs as [|[k grp] gs IH]; intros st evs a st2 g2 e H; [discriminate|].
  cbn [next_group] in H. destruct (late (min_order st) k); [discriminate|].
  pose proof (group_output_all (fun y => In y (forced_group grp)) cfg (resolved st) grp
                (proj2 (Forall_forall _ _) (fun y Hy => Hy))) as Hout. unfold group_output in Hout.
  destruct (detect cfg (resolved st) (sort_unique_lists (build_unique (forced_group grp)))) as [firsts K]. cbn [fst] in Hout.
  destruct K; [|discriminate].
  match type of H with context [match ?X with Some _ => _ | None => _ end] => destruct X as [rem2|]; [|discriminate] end.
  pose proof (output_sorted (none_output (forced_group grp) ++ firsts)) as HS.
  destruct (sort (leb_by output_key) (none_output (forced_group grp) ++ firsts)) as [|x rest].
  - apply IH in H. destruct H as [x [k' [grp' [A [B [C Dd]]]]]]. exists x, k', grp'. split; [exact A|]. split; [right; exact B|]. tauto.
  - unfold yield_first in H. destruct (remove_aid (aid (snd x)) _); [|discriminate]. inversion H; subst. cbn [g_out].
    exists x, k, grp. split; [reflexivity|]. split; [left; reflexivity|]. split; [exact HS|].
    rewrite Forall_forall in Hout. exact Hout.
Qed.

(* (d) the generator hands out, of the phase in progress, the pending action with the smallest index; what stays
   pending of that phase stays sorted by index *)
Theorem gen_next_in_order cfg st g a st2 g2 e :
  StronglySorted idx_le (g_out g) ->
  gen_next cfg st g = SYield a st2 g2 e ->
  exists x, a = snd x /\ StronglySorted idx_le (x :: g_out g2).
Proof.
  intros HS H. unfold gen_next in H. destruct (g_out g) as [|x rest] eqn:Eo.
  - apply next_group_in_order in H. destruct H as [x [k [grp [A [_ [C _]]]]]]. exists x. split; assumption.
  - unfold yield_first in H. destruct (remove_aid (aid (snd x)) (remaining st)); [|discriminate]. inversion H; subst. cbn [g_out].
    exists x. split; [reflexivity|exact HS].
Qed.

(* ... and the indices given when actions are (re-)declared follow the list order of remaining_actions followed by
   the new declarations, all above the indices used before *)
Theorem restart_indices st new :
  let items := enumerate (start st) (remaining st ++ new) in
  map snd items = remaining st ++ new /\
  StronglySorted (fun u v : ainfo => (fst u < fst v)%N) items /\
  Forall (fun u : ainfo => (start st <= fst u)%N) items.
Proof. split; [apply enumerate_snd|split; [apply enumerate_sorted|apply enumerate_ge]]. Qed.
