(* C04 proofs, part 7: over a whole (re-entrant) run at most one action is executed
   per discriminator. *)
From Coq Require Import List NArith ZArith Bool Lia Permutation Sorted.
Import ListNotations.
Require Import Verif.Lib.Wire Verif.Lib.C04Sort Verif.Gen.Facts_C04 Verif.Model.C04.
Require Import Verif.Proofs.C04_flat Verif.Proofs.C04_decide Verif.Proofs.C04_safe Verif.Proofs.C04_groups
               Verif.Proofs.C04_spec Verif.Proofs.C04_mono.

Definition hdx (d : N) (x : ainfo) : bool := match Dx x with Some d' => N.eqb d d' | None => false end.

Lemma hdx_true d x : hdx d x = true <-> Dx x = Some d.
Proof. unfold hdx. destruct (Dx x) as [d'|]; [rewrite N.eqb_eq; split; congruence|split; discriminate]. Qed.

Lemma filter_nil_all {A} (f : A -> bool) l : (forall y, In y l -> f y = false) -> filter f l = [].
Proof.
  induction l as [|x r IH]; intros H; [reflexivity|]. simpl. rewrite (H x (or_introl eq_refl)). apply IH.
  intros y Hy. apply H. right. exact Hy.
Qed.

Lemma filter_len_le {A} (f : A -> bool) l : (length (filter f l) <= length l)%nat.
Proof. induction l as [|x r IH]; simpl; [lia|]. destruct (f x); simpl; lia. Qed.

Lemma somes_app {A} (a b : list (option A)) : somes (a ++ b) = somes a ++ somes b.
Proof. induction a as [|[x|] r IH]; simpl; [reflexivity|rewrite IH; reflexivity|exact IH]. Qed.

Lemma In_somes {A} (d : A) l : In d (somes l) <-> In (Some d) l.
Proof.
  induction l as [|[x|] r IH]; simpl; [tauto| |].
  - rewrite IH. split; intros [H|H]; auto; [left; congruence|inversion H; left; reflexivity].
  - rewrite IH. split; [auto|intros [H|H]; [discriminate|exact H]].
Qed.

Lemma detect1_firsts_lookup cfg res d l x :
  In x (fst (detect1 cfg res d l)) -> lookup d res = None /\ In x l /\ (length (fst (detect1 cfg res d l)) <= 1)%nat.
Proof.
  unfold detect1. destruct l as [|first rest]; [intros []|].
  destruct (lookup d res) as [[i pa]|].
  - destruct (prev_all cfg).
    + destruct (offenders pa (first :: rest)); intros [].
    + destruct (conflicting (apath pa) (apath (snd first))); destruct (offenders (snd first) rest); intros [].
  - destruct (offenders (snd first) rest); simpl; intros [<-|[]]; (split; [reflexivity|split; [left; reflexivity|lia]]).
Qed.

Lemma detect1_firsts_len cfg res d l : (length (fst (detect1 cfg res d l)) <= 1)%nat.
Proof.
  destruct (fst (detect1 cfg res d l)) as [|x r] eqn:E; [simpl; lia|].
  assert (In x (fst (detect1 cfg res d l))) as H by (rewrite E; left; reflexivity).
  apply detect1_firsts_lookup in H. rewrite E in H. tauto.
Qed.

Lemma detect_firsts_one cfg res d : forall us,
  NoDup (map fst us) -> ukeyed us ->
  (length (filter (hdx d) (fst (detect cfg res us))) <= 1)%nat.
Proof.
  induction us as [|[d0 l] r IH]; intros Hnd Hk; [simpl; lia|].
  simpl in Hnd. inversion Hnd as [|? ? Hn Hd]; subst.
  assert (Hk' : ukeyed r) by (intros d' l' H; apply (Hk d' l'); right; exact H).
  specialize (IH Hd Hk'). pose proof (detect1_firsts_len cfg res d0 l) as L0.
  assert (K0 : forall y, In y (fst (detect1 cfg res d0 l)) -> Dx y = Some d0).
  { intros y Hy. apply detect1_firsts_lookup in Hy. destruct Hy as [_ [Hy _]].
    pose proof (Hk d0 l (or_introl eq_refl)) as F. rewrite Forall_forall in F. apply F. exact Hy. }
  assert (Kr : forall y, In y (fst (detect cfg res r)) -> exists d', In d' (map fst r) /\ Dx y = Some d').
  { intros y Hy. apply detect_firsts_in in Hy. destruct Hy as [d' [l' [Hin Hy]]]. apply detect1_firsts_lookup in Hy.
    destruct Hy as [_ [Hy _]]. exists d'. split; [apply in_map_iff; exists (d', l'); split; [reflexivity|exact Hin]|].
    pose proof (Hk' d' l' Hin) as F. rewrite Forall_forall in F. apply F. exact Hy. }
  simpl. destruct (detect1 cfg res d0 l) as [o1 c1]. destruct (detect cfg res r) as [o2 c2]. simpl in *.
  rewrite filter_app, app_length. destruct (N.eqb d d0) eqn:E.
  - apply N.eqb_eq in E. subst d0. rewrite (filter_nil_all (hdx d) o2).
    + pose proof (filter_len_le (hdx d) o1). simpl. lia.
    + intros y Hy. destruct (Kr y Hy) as [d' [Hd' Hy']]. unfold hdx. rewrite Hy'.
      destruct (N.eqb d d') eqn:E'; [|reflexivity]. apply N.eqb_eq in E'. subst d'. contradiction.
  - rewrite (filter_nil_all (hdx d) o1); [simpl; exact IH|].
    intros y Hy. unfold hdx. rewrite (K0 y Hy). exact E.
Qed.

(* the output of one group: fresh discriminators only, one action each *)
Lemma output_one cfg res fg :
  let O := none_output fg ++ fst (detect cfg res (sort_unique_lists (build_unique fg))) in
  (forall x d, In x O -> Dx x = Some d -> lookup d res = None) /\
  (forall d, (length (filter (hdx d) O) <= 1)%nat).
Proof.
  intros O. set (us := sort_unique_lists (build_unique fg)).
  assert (Hk : ukeyed us).
  { intros d l H. unfold us, sort_unique_lists in H. apply in_map_iff in H. destruct H as [[d' l0] [E H]]. simpl in E. inversion E; subst.
    pose proof (build_unique_keyed fg d l0 H) as F. rewrite Forall_forall in *. intros y Hy. apply F. apply sort_In in Hy. exact Hy. }
  assert (Hn : NoDup (map fst us)).
  { unfold us, sort_unique_lists. rewrite map_map. simpl. change (map (fun x : N * list ainfo => fst x) (build_unique fg)) with (map fst (build_unique fg)).
    rewrite build_unique_keys. apply dedupN_NoDup. }
  split.
  - intros x d Hx Hd. unfold O in Hx. apply in_app_or in Hx. destruct Hx as [Hx|Hx].
    + unfold none_output in Hx. apply filter_In in Hx. destruct Hx as [_ Hx]. unfold Dx in Hd. rewrite Hd in Hx. discriminate.
    + apply detect_firsts_in in Hx. destruct Hx as [d' [l [Hin Hx]]]. apply detect1_firsts_lookup in Hx. destruct Hx as [Hl [Hx _]].
      pose proof (Hk d' l Hin) as F. rewrite Forall_forall in F. specialize (F x Hx). assert (d' = d) by congruence. subst d'. exact Hl.
  - intros d. unfold O. rewrite filter_app, app_length. rewrite (filter_nil_all (hdx d) (none_output fg)).
    + simpl. apply detect_firsts_one; assumption.
    + intros y Hy. unfold none_output in Hy. apply filter_In in Hy. destruct Hy as [_ Hy]. unfold hdx, Dx. destruct (D (snd y)); [discriminate|reflexivity].
Qed.

Definition H56 (res : list (option N * ainfo)) (out : list ainfo) : Prop :=
  (forall x d, In x out -> Dx x = Some d -> lookup d res = None) /\
  (forall d, (length (filter (hdx d) out) <= 1)%nat).

Definition OnePost (st : cstate) (a : action) (st2 : cstate) (g2 : gen) : Prop :=
  (exists x, resolved st2 = (D a, x) :: resolved st) /\
  (forall d, D a = Some d -> lookup d (resolved st) = None) /\
  H56 (resolved st2) (g_out g2).

Lemma yield_first_one st x rest gs evs a st2 g2 e :
  H56 (resolved st) (x :: rest) ->
  yield_first st x rest gs evs = SYield a st2 g2 e -> OnePost st a st2 g2.
Proof.
  intros [H5 H6] H. unfold yield_first in H. destruct (remove_aid (aid (snd x)) (remaining st)); [|discriminate].
  inversion H; subst. clear H. unfold OnePost. cbn [resolved g_out].
  split; [exists x; reflexivity|]. split; [intros d Hd; apply (H5 x d (or_introl eq_refl) Hd)|].
  split.
  - intros y d Hy Hd. simpl. pose proof (H5 y d (or_intror Hy) Hd) as Hl.
    destruct (D (snd x)) as [dx|] eqn:Edx; [|exact Hl].
    destruct (N.eqb d dx) eqn:E; [|exact Hl]. exfalso. apply N.eqb_eq in E. subst dx.
    specialize (H6 d). simpl in H6. assert (hdx d x = true) as Hx by (apply hdx_true; exact Edx). rewrite Hx in H6. simpl in H6.
    assert (In y (filter (hdx d) rest)) as Hf by (apply filter_In; split; [exact Hy|apply hdx_true; exact Hd]).
    destruct (filter (hdx d) rest); [destruct Hf|simpl in H6; lia].
  - intros d. specialize (H6 d). simpl in H6. destruct (hdx d x); simpl in H6; lia.
Qed.

Lemma next_group_one cfg : forall gs st evs a st2 g2 e,
  next_group cfg st gs evs = SYield a st2 g2 e -> OnePost st a st2 g2.
Proof.
  induction gs as [|[k grp] gs IH]; intros st evs a st2 g2 e H; [discriminate|].
  cbn [next_group] in H. destruct (late (min_order st) k); [discriminate|].
  pose proof (output_one cfg (resolved st) (forced_group grp)) as HO. cbv zeta in HO.
  destruct (detect cfg (resolved st) (sort_unique_lists (build_unique (forced_group grp)))) as [firsts K]. cbn [fst] in HO.
  destruct K; [|discriminate].
  match type of H with context [match ?X with Some _ => _ | None => _ end] => destruct X as [rem2|]; [|discriminate] end.
  set (st' := {| resolved := resolved st; remaining := rem2; min_order := min_order st; start := start st |}) in *.
  destruct (sort (leb_by output_key) (none_output (forced_group grp) ++ firsts)) as [|x rest] eqn:ES.
  - apply (IH st' _ a st2 g2 e H).
  - assert (H56 (resolved st') (x :: rest)) as HH.
    { destruct HO as [O5 O6]. rewrite <- ES. split.
      - intros y d Hy Hd. apply sort_In in Hy. apply (O5 y d Hy Hd).
      - intros d. rewrite (Permutation_length (Permutation_filter' (hdx d) _ _ (sort_perm (leb_by output_key) _))). apply O6. }
    apply (yield_first_one st' x rest gs _ a st2 g2 e HH H).
Qed.

Lemma gen_next_one cfg st g a st2 g2 e :
  H56 (resolved st) (g_out g) -> gen_next cfg st g = SYield a st2 g2 e -> OnePost st a st2 g2.
Proof.
  intros HH H. unfold gen_next in H. destruct (g_out g) as [|x rest].
  - eapply next_group_one; eauto.
  - eapply yield_first_one; eauto.
Qed.

Lemma exec_t_one cfg : forall fuel st g pending log tr,
  (pending = [] -> H56 (resolved st) (g_out g)) ->
  (forall b d, In b tr -> D b = Some d -> lookup d (resolved st) <> None) ->
  NoDup (somes (map D tr)) ->
  NoDup (somes (map D (snd (exec_t cfg fuel st g pending log tr)))).
Proof.
  induction fuel as [|f IH]; intros st g pending log tr HG HT HN; [exact HN|]. cbn [exec_t].
  assert (H1 : exists st1 g1, (match pending with [] => (st, g) | _ :: _ => restart st pending end) = (st1, g1) /\
               H56 (resolved st1) (g_out g1) /\ resolved st1 = resolved st).
  { destruct pending as [|p ps].
    - exists st, g. split; [reflexivity|]. split; [apply HG; reflexivity|reflexivity].
    - exists (fst (restart st (p :: ps))), (snd (restart st (p :: ps))). split; [reflexivity|]. unfold restart. cbn [fst snd resolved g_out].
      split; [|reflexivity]. split; [intros x d []|intros d; simpl; lia]. }
  destruct H1 as [st1 [g1 [-> [HG1 HR1]]]].
  destruct (gen_next cfg st1 g1) as [a st2 g2 e|o e st'] eqn:EG; [|exact HN].
  destruct (gen_next_one cfg st1 g1 a st2 g2 e HG1 EG) as [[x Hres] [Hfresh HG2]]. rewrite HR1 in Hres, Hfresh.
  apply IH.
  - intros _. exact HG2.
  - intros b d Hb Hd. rewrite Hres. simpl. apply in_app_or in Hb. destruct Hb as [Hb|[<-|[]]].
    + pose proof (HT b d Hb Hd) as Hl. destruct (D a) as [da|]; [|exact Hl]. destruct (N.eqb d da); [discriminate|exact Hl].
    + rewrite Hd, N.eqb_refl. discriminate.
  - rewrite map_app, somes_app. simpl. destruct (D a) as [da|] eqn:Eda; simpl; [|rewrite app_nil_r; exact HN].
    apply NoDup_app_iff. split; [exact HN|]. split; [repeat constructor; intros []|].
    intros z Hz [E|[]]. subst z. apply In_somes in Hz. apply in_map_iff in Hz. destruct Hz as [b [Hd Hb]].
    apply (HT b da Hb Hd). apply Hfresh. reflexivity.
Qed.

(* over the whole run -- callables that declare further actions included -- no discriminator is executed twice;
   no well-formedness assumption, any parameter setting *)
Theorem one_per_discriminator cfg acts : NoDup (somes (map D (commit_trace cfg acts))).
Proof.
  unfold commit_trace. apply exec_t_one.
  - intros _. split; [intros x d []|intros d; simpl; lia].
  - intros b d [].
  - constructor.
Qed.
