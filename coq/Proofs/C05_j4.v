(* C05 -- judge clause J4 ("never blocked otherwise") is SOUND at registration level: the executable clause, with the source of
   an HTTPForbidden read from the derived-view table D instead of the program text, accepts the trace of EVERY request of
   EVERY registry state.  Ingredients: router_split / good (Proofs/C05.v) and a new invariant -- the view-execution core never
   writes a [Raised] event (only the harness tween between the main handler and the exception-view tween does). *)
From Coq Require Import List NArith ZArith Bool Lia.
Import ListNotations.
Require Import Verif.Lib.Wire Verif.Gen.Facts_C03 Verif.Model.C03 Verif.Gen.Facts_C05 Verif.Model.C05.
Require Import Verif.Proofs.C05.
Local Close Scope N_scope.
Local Open Scope nat_scope.

(* ------------------------------------------------------------------ *)
(* no Raised event inside a view lookup / execution *)

Definition not_raised (e : event) : bool := match e with Raised _ => false | _ => true end.
Definition nr (tr : trace) : Prop := forallb not_raised tr = true.

Lemma nr_nil : nr []. Proof. reflexivity. Qed.
Lemma nr_app a b : nr a -> nr b -> nr (a ++ b).
Proof. unfold nr. intros Ha Hb. rewrite forallb_app, Ha, Hb. reflexivity. Qed.
Lemma nr_cons e tr : not_raised e = true -> nr tr -> nr (e :: tr).
Proof. unfold nr. intros He Ht. simpl. rewrite He, Ht. reflexivity. Qed.

Section NoRaised.
  Variable R : registry.
  Variable D : list (N * dview).
  Variable tb : grants.
  Variable q : rq5.

  Lemma run_body_nr b t c : nr (fst (run_body tb b t c)).
  Proof. destruct b as [bh|[p|] bh]; simpl; try reflexivity. destruct (granted tb p c); reflexivity. Qed.

  Section WithLookup.
    Variable lookup : text -> ctx -> trace * res.
    Hypothesis lookup_nr : forall n c, nr (fst (lookup n c)).

    Lemma run_ws_nr ws d t c : nr (fst (run_ws tb q lookup ws d t c)).
    Proof.
      induction ws as [|w r IH]; simpl; [apply run_body_nr|].
      destruct w as [|p|n| |].
      - destruct (qualifies (q_base q) (d_reg d)); [exact IH|apply nr_nil].
      - destruct (granted tb p c); [|reflexivity].
        destruct (run_ws tb q lookup r d t c) as [tr o]. simpl in *. apply nr_cons; [reflexivity|exact IH].
      - destruct (run_ws tb q lookup r d t c) as [tr o]. simpl in IH.
        destruct o as [t'|e| |]; simpl; try exact IH.
        pose proof (lookup_nr n c) as L. destruct (lookup n c) as [tr2 o2]. simpl in *. apply nr_app; assumption.
      - destruct (run_ws tb q lookup r d t c) as [tr o]. simpl in *. apply nr_cons; [reflexivity|exact IH].
      - destruct (q_csrf_ok q); [exact IH|apply nr_nil].
    Qed.

    Lemma call_reg_nr v c : nr (fst (call_reg D tb q lookup v c)).
    Proof. unfold call_reg. destruct (assocN (r_tag v) D); [apply run_ws_nr|apply nr_nil]. Qed.

    Lemma mv_call5_nr l c : nr (fst (mv_call5 D tb q lookup l c)).
    Proof.
      induction l as [|e r IH]; simpl; [apply nr_nil|].
      pose proof (call_reg_nr (e_view e) c) as H.
      destruct (call_reg D tb q lookup (e_view e) c) as [tr o]. simpl in H.
      destruct o as [t|x| |]; try exact H. destruct x; try exact H.
      destruct (mv_call5 D tb q lookup r c) as [tr2 o2]. simpl in *. apply nr_app; assumption.
    Qed.

    Lemma call_component5_nr cmp c : nr (fst (call_component5 D tb q lookup cmp c)).
    Proof. destruct cmp; simpl; [apply call_reg_nr|apply mv_call5_nr]. Qed.

    Lemma call_loop5_nr l c : forall pme, nr (fst (call_loop5 D tb q lookup l c pme)).
    Proof.
      induction l as [|cmp r IH]; intros pme; simpl; [apply nr_nil|].
      pose proof (call_component5_nr cmp c) as H.
      destruct (call_component5 D tb q lookup cmp c) as [tr o]. simpl in H.
      destruct o as [t|x| |]; try exact H. destruct x; try exact H.
      specialize (IH true). destruct (call_loop5 D tb q lookup r c true) as [tr2 o2]. simpl in *. apply nr_app; assumption.
    Qed.
  End WithLookup.

  Lemma call_view5_nr fuel : forall cls req_sro name c, nr (fst (call_view5 R D tb q fuel cls req_sro name c)).
  Proof.
    induction fuel as [|f IH]; intros cls req_sro name c; simpl; [apply nr_nil|].
    apply call_loop5_nr. intros n c'. apply IH.
  Qed.

  (* ------------------------------------------------------------------ *)
  (* the clause, with the source of an HTTPForbidden read from the table of derived views *)

  Definition forbid_source_D (prev : option event) : bool :=
    match prev with
    | Some (Permits _ _ false) => true
    | Some (Body t _) =>
        match assocN t D with
        | Some d => match body_behave (d_body d) with BRaise EForbidden => true | _ => false end
        | None => false
        end
    | _ => false
    end.

  Fixpoint j4D (fin : final) (prev : option event) (orig : bool) (tr : trace) : bool :=
    match tr with
    | [] => match fin with
            | Propagated EForbidden => forbid_source_D prev || orig
            | _ => true
            end
    | Raised EForbidden :: r => forbid_source_D prev && j4D fin (Some (Raised EForbidden)) true r
    | e :: r => j4D fin (Some e) orig r
    end.

  Fixpoint lastp (prev : option event) (tr : trace) : option event :=
    match tr with [] => prev | e :: r => lastp (Some e) r end.

  Lemma lastp_last tr : forall prev e, last_opt tr = Some e -> lastp prev tr = Some e.
  Proof.
    induction tr as [|x r IH]; intros prev e H; [discriminate|].
    destruct r as [|y r']; [simpl in *; exact H|]. change (lastp (Some x) (y :: r') = Some e). apply IH. exact H.
  Qed.

  Lemma j4D_skip fin orig tr : forall prev rest,
    nr tr -> j4D fin prev orig (tr ++ rest) = j4D fin (lastp prev tr) orig rest.
  Proof.
    induction tr as [|e r IH]; intros prev rest H; [reflexivity|].
    unfold nr in H. simpl in H. apply andb_true_iff in H. destruct H as [He Hr].
    destruct e as [p c b|t c|t c|x]; try discriminate He; simpl; apply IH; exact Hr.
  Qed.

  Lemma forbidding_source e : forbidding D e -> forbid_source_D (Some e) = true.
  Proof.
    destruct e as [p c [|]|t c|t c|x]; simpl; try contradiction; [reflexivity|].
    intros (d & Hd & Hb). rewrite Hd, Hb. reflexivity.
  Qed.

  (* J4, registration level: every HTTPForbidden that reaches the exception-view tween, and an HTTPForbidden that leaves the
     application, directly follows a refused check or the callable of a view whose body raises it (or is the main
     handler's own HTTPForbidden re-raised) -- as the EXECUTABLE clause, on the whole trace of the request *)
  Theorem j4D_sound :
    j4D (snd (router_call R D tb q)) None false (fst (router_call R D tb q)) = true.
  Proof.
    destruct (router_split R D tb q) as (tr1 & o1 & Hh & G1 & Hr).
    assert (N1 : nr tr1).
    { pose proof (call_view5_nr fuel0 view_classifier (q_main_sro q) (q_view_name (q_base q)) (q_ctx q)) as H.
      unfold handle_request in Hh.
      destruct (call_view5 R D tb q fuel0 view_classifier (q_main_sro q) (q_view_name (q_base q)) (q_ctx q)) as [tr o].
      inversion Hh; subst. exact H. }
    destruct o1 as [t|e| |].
    - rewrite Hr. simpl fst; simpl snd. rewrite <- (app_nil_r tr1), j4D_skip by exact N1. reflexivity.
    - destruct Hr as (tr2 & o2 & Hc & G2 & Ht & Hf1 & Hf2).
      assert (N2 : nr tr2).
      { pose proof (call_view5_nr fuel0 exc_classifier (q_comb_sro q) [] (CExc e)) as H. rewrite Hc in H. exact H. }
      rewrite Ht, j4D_skip by exact N1.
      destruct G1 as [_ (_ & F1 & _)]. destruct G2 as [_ (_ & F2 & _)]. simpl in F1, F2.
      assert (Hskip2 : forall prev orig, j4D (snd (router_call R D tb q)) prev orig tr2
                                         = j4D (snd (router_call R D tb q)) (lastp prev tr2) orig []).
      { intros prev orig. rewrite <- (app_nil_r tr2) at 1. apply j4D_skip. exact N2. }
      destruct e.
      + (* the main handler raised HTTPForbidden *)
        destruct (F1 eq_refl) as (e' & Hl & Hfb).
        cbn [j4D]. rewrite (lastp_last _ None _ Hl), (forbidding_source _ Hfb). cbn [andb].
        rewrite Hskip2. cbn [j4D]. destruct (snd (router_call R D tb q)) as [x|x|]; try reflexivity.
        destruct x; try reflexivity. apply orb_true_r.
      + cbn [j4D]. rewrite Hskip2. cbn [j4D].
        destruct (snd (router_call R D tb q)) as [x|x|] eqn:Hfin; try reflexivity. destruct x; try reflexivity.
        destruct (Hf2 eq_refl) as [Ho|Ho]; [|discriminate Ho].
        destruct (F2 Ho) as (e' & Hl & Hfb). rewrite (lastp_last _ _ _ Hl), (forbidding_source _ Hfb). reflexivity.
      + cbn [j4D]. rewrite Hskip2. cbn [j4D].
        destruct (snd (router_call R D tb q)) as [x|x|] eqn:Hfin; try reflexivity. destruct x; try reflexivity.
        destruct (Hf2 eq_refl) as [Ho|Ho]; [|discriminate Ho].
        destruct (F2 Ho) as (e' & Hl & Hfb). rewrite (lastp_last _ _ _ Hl), (forbidding_source _ Hfb). reflexivity.
      + cbn [j4D]. rewrite Hskip2. cbn [j4D].
        destruct (snd (router_call R D tb q)) as [x|x|] eqn:Hfin; try reflexivity. destruct x; try reflexivity.
        destruct (Hf2 eq_refl) as [Ho|Ho]; [|discriminate Ho].
        destruct (F2 Ho) as (e' & Hl & Hfb). rewrite (lastp_last _ _ _ Hl), (forbidding_source _ Hfb). reflexivity.
      + cbn [j4D]. rewrite Hskip2. cbn [j4D].
        destruct (snd (router_call R D tb q)) as [x|x|] eqn:Hfin; try reflexivity. destruct x; try reflexivity.
        destruct (Hf2 eq_refl) as [Ho|Ho]; [|discriminate Ho].
        destruct (F2 Ho) as (e' & Hl & Hfb). rewrite (lastp_last _ _ _ Hl), (forbidding_source _ Hfb). reflexivity.
      + cbn [j4D]. rewrite Hskip2. cbn [j4D].
        destruct (snd (router_call R D tb q)) as [x|x|] eqn:Hfin; try reflexivity. destruct x; try reflexivity.
        destruct (Hf2 eq_refl) as [Ho|Ho]; [|discriminate Ho].
        destruct (F2 Ho) as (e' & Hl & Hfb). rewrite (lastp_last _ _ _ Hl), (forbidding_source _ Hfb). reflexivity.
    - rewrite Hr. simpl fst; simpl snd. rewrite <- (app_nil_r tr1), j4D_skip by exact N1. reflexivity.
    - rewrite Hr. simpl fst; simpl snd. rewrite <- (app_nil_r tr1), j4D_skip by exact N1. reflexivity.
  Qed.

  (* the view-execution core never writes a Raised event: the only one in a request's log is the harness tween's *)
  Theorem raised_only_between :
    forall i e, nth_error (fst (router_call R D tb q)) i = Some (Raised e) ->
    exists tr1 tr2, fst (router_call R D tb q) = tr1 ++ Raised e :: tr2 /\ i = length tr1 /\ nr tr1 /\ nr tr2
                    /\ handle_request R D tb q = (tr1, Raise e).
  Proof.
    intros i e Hn.
    destruct (router_split R D tb q) as (tr1 & o1 & Hh & G1 & Hr).
    assert (N1 : nr tr1).
    { pose proof (call_view5_nr fuel0 view_classifier (q_main_sro q) (q_view_name (q_base q)) (q_ctx q)) as H.
      unfold handle_request in Hh.
      destruct (call_view5 R D tb q fuel0 view_classifier (q_main_sro q) (q_view_name (q_base q)) (q_ctx q)) as [tr o].
      inversion Hh; subst. exact H. }
    assert (Hno : forall tr, nr tr -> forall j x, nth_error tr j <> Some (Raised x)).
    { intros tr Ht j x Hj. apply nth_error_In in Hj. unfold nr in Ht. rewrite forallb_forall in Ht.
      specialize (Ht _ Hj). discriminate Ht. }
    destruct o1 as [t|e1| |]; try (rewrite Hr in Hn; simpl in Hn; exfalso; exact (Hno tr1 N1 _ _ Hn)).
    destruct Hr as (tr2 & o2 & Hc & G2 & Ht & _).
    assert (N2 : nr tr2).
    { pose proof (call_view5_nr fuel0 exc_classifier (q_comb_sro q) [] (CExc e1)) as H. rewrite Hc in H. exact H. }
    rewrite Ht in Hn.
    destruct (Nat.lt_ge_cases i (length tr1)) as [Hlt|Hge].
    - rewrite nth_error_app1 in Hn by exact Hlt. exfalso. exact (Hno tr1 N1 _ _ Hn).
    - rewrite nth_error_app2 in Hn by exact Hge.
      destruct (i - length tr1) as [|k] eqn:Ek.
      + simpl in Hn. inversion Hn; subst. exists tr1, tr2. split; [exact Ht|]. split; [lia|]. split; [exact N1|]. split; [exact N2|exact Hh].
      + simpl in Hn. exfalso. exact (Hno tr2 N2 _ _ Hn).
  Qed.
End NoRaised.
