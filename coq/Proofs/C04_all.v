(* C04 proofs, part 10 (clause a, re-entrant runs): when the commit completes, every declared action without a
   discriminator -- declared initially or by an executed action -- has run, and no action runs twice. *)
From Coq Require Import List NArith ZArith Bool Lia Permutation Sorted.
Import ListNotations.
Require Import Verif.Lib.Wire Verif.Lib.C04Sort Verif.Gen.Facts_C04 Verif.Model.C04.
Require Import Verif.Proofs.C04_flat Verif.Proofs.C04_decide Verif.Proofs.C04_safe Verif.Proofs.C04_groups
               Verif.Proofs.C04_spec Verif.Proofs.C04_mono.

Definition dsig (b : action) : N * option N := (aid b, D b).
Definition dsigs (l : list action) := map dsig l.
Definition dsig_i (x : ainfo) := dsig (snd x).

Lemma dsigs_mark_forced id l : dsigs (mark_forced id l) = dsigs l.
Proof. unfold dsigs, mark_forced. rewrite map_map. apply map_ext. intros b. destruct (N.eqb (aid b) id); reflexivity. Qed.
Lemma dsigs_mark_group grp : forall l, dsigs (mark_group grp l) = dsigs l.
Proof. unfold mark_group. induction grp as [|x r IH]; intros l; simpl; [reflexivity|]. rewrite IH. apply dsigs_mark_forced. Qed.
Lemma dsigs_fst l : map fst (dsigs l) = map aid l.
Proof. unfold dsigs. rewrite map_map. reflexivity. Qed.
Lemma sigs_fst l : map fst (sigs l) = map aid l.
Proof. unfold sigs. rewrite map_map. reflexivity. Qed.

Lemma remove_aid_split id : forall l l', remove_aid id l = Some l' ->
  exists l1 b l2, l = l1 ++ b :: l2 /\ l' = l1 ++ l2 /\ aid b = id.
Proof.
  induction l as [|b r IH]; intros l' H; simpl in H; [discriminate|].
  destruct (N.eqb (aid b) id) eqn:E.
  - injection H as H. subst l'. exists [], b, r. apply N.eqb_eq in E. split; [reflexivity|]. split; [reflexivity|exact E].
  - destruct (remove_aid id r) as [r'|] eqn:Er; [|discriminate]. injection H as H. subst l'.
    destruct (IH r' eq_refl) as [l1 [b0 [l2 [E1 [E2 E3]]]]]. exists (b :: l1), b0, l2. rewrite E1, E2.
    split; [reflexivity|]. split; [reflexivity|exact E3].
Qed.

(* removal of one / of several identities: what stays *)
Lemma remove_aid_keeps id l l' : remove_aid id l = Some l' ->
  incl l' l /\ (forall b, In b l -> aid b <> id -> In b l') /\ (NoDup (map aid l) -> ~ In id (map aid l')).
Proof.
  intros H. destruct (remove_aid_split id l l' H) as [l1 [b0 [l2 [-> [-> E]]]]]. split; [|split].
  - intros b Hb. apply in_app_or in Hb. apply in_or_app. destruct Hb; [left|right; right]; assumption.
  - intros b Hb Hne. apply in_app_or in Hb. apply in_or_app. destruct Hb as [Hb|[->|Hb]]; [left; exact Hb|congruence|right; exact Hb].
  - intros Hnd Hin. rewrite map_app in Hnd. simpl in Hnd. apply NoDup_remove_2 in Hnd. apply Hnd. rewrite E, <- map_app. exact Hin.
Qed.

Lemma remove_all_keeps : forall ds l l', remove_all ds l = Some l' ->
  incl l' l /\ (forall b, In b l -> ~ In (aid b) (map aidx ds) -> In b l') /\
  (NoDup (map aid l) -> forall y, In y ds -> ~ In (aidx y) (map aid l')).
Proof.
  induction ds as [|x r IH]; intros l l' H.
  - inversion H; subst. split; [intros b Hb; exact Hb|]. split; [intros b Hb _; exact Hb|intros _ y []].
  - rewrite remove_all_cons in H. destruct (remove_aid (aid (snd x)) l) as [l1|] eqn:E1; [|discriminate].
    destruct (remove_aid_keeps _ _ _ E1) as [A1 [A2 A3]]. destruct (IH l1 l' H) as [B1 [B2 B3]]. split; [|split].
    + intros b Hb. apply A1. apply B1. exact Hb.
    + intros b Hb Hn. apply B2; [apply A2; [exact Hb|intros E; apply Hn; left; unfold aidx; congruence]|intros Hin; apply Hn; right; exact Hin].
    + intros Hnd y [<-|Hy].
      * intros Hin. apply (A3 Hnd). apply in_map_iff in Hin. destruct Hin as [b [Eb Hb]]. apply in_map_iff. exists b. split; [exact Eb|apply B1; exact Hb].
      * apply B3; [|exact Hy]. destruct (remove_aid_split _ _ _ E1) as [l1' [b0 [l2 [-> [-> _]]]]].
        rewrite map_app in *. simpl in Hnd. apply NoDup_remove_1 in Hnd. exact Hnd.
Qed.

(* ---------- the strengthened invariant of a suspended generator (repaired code) *)
Definition Q (rem : list action) (items : list ainfo) : Prop :=
  J rem items /\ incl (map dsig_i items) (dsigs rem) /\ incl (map aid rem) (map aidx items).

Definition keepsNone (rem rem' : list action) (except : list N) : Prop :=
  forall id, In (id, None) (dsigs rem) -> In id except \/ In (id, None) (dsigs rem').

Lemma NoDup_raids rem items : J rem items -> NoDup (map aid rem).
Proof. intros [H _]. apply NoDup_fas_fst in H. rewrite sigs_fst in H. exact H. Qed.

Lemma dsig_unique rem s1 s2 : NoDup (map aid rem) -> In s1 (dsigs rem) -> In s2 (dsigs rem) -> fst s1 = fst s2 -> s1 = s2.
Proof. intros Hnd H1 H2 E. rewrite <- dsigs_fst in Hnd. apply (NoDup_map_inj_in fst (dsigs rem)); assumption. Qed.

Lemma dsig_i_forced_group grp : map dsig_i (forced_group grp) = map dsig_i grp.
Proof. unfold forced_group. rewrite map_map. apply map_ext. intros x. reflexivity. Qed.

Lemma fas_incl_perm a b : Permutation a b -> incl (fas b) (fas a).
Proof. intros P x Hx. apply (Permutation_in _ (Permutation_sym (fas_perm _ _ P))). exact Hx. Qed.

Lemma group_Q res grp rest rem :
  Q rem (grp ++ rest) ->
  let fg := forced_group grp in
  let us := sort_unique_lists (build_unique fg) in
  let output := none_output fg ++ fst (detect cfg_fixed res us) in
  let discards := filter (fun x => negb (in_output output x)) (concat (map snd us)) in
  let rem1 := mark_group grp rem in
  exists rem2, remove_all discards rem1 = Some rem2 /\
               Q rem2 (sort (leb_by output_key) output ++ rest) /\
               keepsNone rem rem2 [] /\ incl (fas (sigs rem2)) (fas (sigs rem)).
Proof.
  intros [HJ [HD HK]] fg us output discards rem1.
  destruct (group_safe cfg_fixed res grp rest rem HJ) as [rem2 [Hr [HJ2 _]]]. cbv zeta in Hr. cbn [drop_discarded cfg_fixed] in Hr.
  fold fg us output discards rem1 in Hr, HJ2. exists rem2. split; [exact Hr|].
  pose proof (NoDup_raids _ _ HJ) as Nrem.
  destruct HJ as [H1 [H2 H3]]. rewrite map_app in H2. pose proof H2 as H2'. apply NoDup_app_iff in H2'. destruct H2' as [Ng [Nr Ngr]].
  assert (Nfg : NoDup (map aidx fg)) by (unfold fg; rewrite aidx_forced_group; exact Ng).
  assert (Pus : Permutation (concat (map snd us)) (filter someD fg)) by (unfold us; rewrite sort_unique_lists_perm; apply build_unique_perm).
  assert (Nus : NoDup (map aidx (concat (map snd us)))).
  { eapply Permutation_NoDup; [apply Permutation_map; symmetry; exact Pus|]. apply NoDup_map_filter. exact Nfg. }
  destruct (detect_firsts_sub cfg_fixed res us Nus) as [Sf _].
  assert (Ius : forall y, In y (concat (map snd us)) <-> In y fg /\ someD y = true).
  { intros y. split; intros Hy; [apply (Permutation_in _ Pus) in Hy; apply filter_In in Hy; exact Hy|].
    apply (Permutation_in _ (Permutation_sym Pus)). apply filter_In. exact Hy. }
  assert (Iout : forall y, In y output -> In y fg).
  { intros y Hy. unfold output in Hy. apply in_app_or in Hy. destruct Hy as [Hy|Hy]; [unfold none_output in Hy; apply filter_In in Hy; tauto|apply Ius; apply Sf; exact Hy]. }
  assert (Idis : forall y, In y discards -> In y fg /\ someD y = true /\ forall o, In o output -> aidx o <> aidx y).
  { intros y Hy. unfold discards in Hy. apply filter_In in Hy. destruct Hy as [Hy Hb]. destruct (proj1 (Ius y) Hy) as [A B].
    split; [exact A|]. split; [exact B|]. apply in_output_false. apply negb_true_iff. exact Hb. }
  assert (Cdis : forall y, In y fg -> In y output \/ In y discards).
  { intros y Hy. destruct (someD y) eqn:Es.
    - destruct (in_output output y) eqn:Eo.
      + left. unfold in_output in Eo. apply existsb_exists in Eo. destruct Eo as [o [Ho Eq]]. apply N.eqb_eq in Eq.
        assert (o = y) by (apply (NoDup_map_inj_in aidx fg); [exact Nfg|apply Iout; exact Ho|exact Hy|exact Eq]). subst o. exact Ho.
      + right. unfold discards. apply filter_In. split; [apply Ius; split; assumption|rewrite Eo; reflexivity].
    - left. unfold output. apply in_or_app. left. unfold none_output. apply filter_In. split; [exact Hy|].
      unfold someD in Es. destruct (D (snd y)); [discriminate|reflexivity]. }
  assert (Ed : dsigs rem1 = dsigs rem) by apply dsigs_mark_group.
  assert (Ea : map aid rem1 = map aid rem) by (rewrite <- !dsigs_fst, Ed; reflexivity).
  assert (Nrem1 : NoDup (map aid rem1)) by (rewrite Ea; exact Nrem).
  destruct (remove_all_keeps discards rem1 rem2 Hr) as [R1 [R2 R3]].
  assert (Hdg : forall y, In y discards -> In (aidx y) (map aidx grp)).
  { intros y Hy. rewrite <- aidx_forced_group. apply in_map. apply Idis. exact Hy. }
  (* a remaining entry whose identity is not discarded stays, with its signature *)
  assert (Keep : forall s, In s (dsigs rem) -> ~ In (fst s) (map aidx discards) -> In s (dsigs rem2)).
  { intros s Hs Hn. rewrite <- Ed in Hs. apply in_map_iff in Hs. destruct Hs as [b [<- Hb]]. apply in_map. apply R2; [exact Hb|exact Hn]. }
  split; [split; [exact HJ2|split]|split].
  - (* signatures of the pending items *)
    intros s Hs. apply in_map_iff in Hs. destruct Hs as [y [<- Hy]]. apply in_app_or in Hy. destruct Hy as [Hy|Hy].
    + apply sort_In in Hy. apply Keep.
      * apply HD. rewrite map_app. apply in_or_app. left. rewrite <- dsig_i_forced_group. apply in_map. apply Iout. exact Hy.
      * intros Hin. apply in_map_iff in Hin. destruct Hin as [y' [E Hy']]. destruct (Idis y' Hy') as [_ [_ Hno]]. apply (Hno y Hy). symmetry. exact E.
    + apply Keep.
      * apply HD. rewrite map_app. apply in_or_app. right. apply in_map. exact Hy.
      * intros Hin. apply in_map_iff in Hin. destruct Hin as [y' [E Hy']]. apply (Ngr (aidx y')); [apply Hdg; exact Hy'|].
        assert (aidx y' = aidx y) as -> by exact E. apply in_map. exact Hy.
  - (* every remaining action is pending in the generator *)
    intros id Hid. assert (In id (map aid rem)) as Hr0.
    { rewrite <- Ea. apply in_map_iff in Hid. destruct Hid as [b [<- Hb]]. apply in_map. apply R1. exact Hb. }
    apply HK in Hr0. rewrite !map_app in *. apply in_app_or in Hr0. apply in_or_app. destruct Hr0 as [Hg|Hg]; [|right; exact Hg].
    left. rewrite <- aidx_forced_group in Hg. apply in_map_iff in Hg. destruct Hg as [y [E Hy]]. destruct (Cdis y Hy) as [Ho|Hdsc].
    + subst id. apply in_map. apply sort_In. exact Ho.
    + exfalso. apply (R3 Nrem1 y Hdsc). rewrite E. exact Hid.
  - (* no None-discriminated action is discarded *)
    intros id Hs. right. apply Keep; [exact Hs|]. simpl. intros Hin. apply in_map_iff in Hin. destruct Hin as [y [E Hy]].
    destruct (Idis y Hy) as [Hyfg [Hsd _]].
    assert (In (dsig_i y) (dsigs rem)) as Hy2.
    { apply HD. rewrite map_app. apply in_or_app. left. rewrite <- dsig_i_forced_group. apply in_map. exact Hyfg. }
    assert (dsig_i y = (id, None)) as E2 by (apply (dsig_unique rem); [exact Nrem|exact Hy2|exact Hs|exact E]).
    unfold dsig_i, dsig in E2. inversion E2 as [[E3 E4]]. unfold someD in Hsd. rewrite E4 in Hsd. discriminate.
  - intros z Hz. unfold fas in *. apply in_flat_map in Hz. destruct Hz as [s [Hs Hz]]. apply in_flat_map. exists s. split; [|exact Hz].
    apply in_map_iff in Hs. destruct Hs as [b [<- Hb]]. apply R1 in Hb.
    rewrite <- (sigs_mark_group grp rem). apply in_map. exact Hb.
Qed.

Definition StepA (rem0 : list action) (a : action) (st2 : cstate) (g2 : gen) : Prop :=
  Q (remaining st2) (gitems g2) /\
  NoDup (fas (sigs (remaining st2)) ++ forest_aids (aadds a)) /\
  In (aid a) (fas (sigs rem0)) /\
  ~ In (aid a) (fas (sigs (remaining st2)) ++ forest_aids (aadds a)) /\
  incl (fas (sigs (remaining st2)) ++ forest_aids (aadds a)) (fas (sigs rem0)) /\
  keepsNone rem0 (remaining st2) [aid a].

Lemma yield_first_A st x rest gs evs :
  Q (remaining st) ((x :: rest) ++ concat (map snd gs)) ->
  exists st2 g2 e, yield_first st x rest gs evs = SYield (snd x) st2 g2 e /\ StepA (remaining st) (snd x) st2 g2.
Proof.
  intros [HJ [HD HK]]. pose proof (NoDup_raids _ _ HJ) as Nrem. pose proof HJ as [H1 [H2 H3]].
  assert (Hx : In (isig x) (sigs (remaining st))) by (apply H3; left; reflexivity).
  destruct (remove_aid_perm _ _ _ Hx (NoDup_fas_fst _ H1)) as [rem [Hr Hp]].
  pose proof (yield_first_safe st x rest gs evs HJ) as HY. unfold yield_first in *. rewrite Hr in *.
  destruct HY as [_ [P1 [P2 _]]]. cbn [remaining gitems g_out g_groups] in *.
  eexists. eexists. eexists. split; [reflexivity|]. unfold StepA. cbn [remaining gitems g_out g_groups].
  destruct (remove_aid_keeps _ _ _ Hr) as [A1 [A2 A3]].
  simpl in H2. inversion H2 as [|? ? Hn2 Hd2]; subst.
  pose proof (fas_perm _ _ Hp) as Hfp. simpl in Hfp. change (aid (snd x) :: forest_aids (aadds (snd x)) ++ fas (sigs rem)) with ((aid (snd x) :: forest_aids (aadds (snd x))) ++ fas (sigs rem)) in Hfp.
  pose proof (Permutation_NoDup Hfp H1) as Hnd. simpl in Hnd. inversion Hnd as [|? ? Hn Hd]; subst.
  assert (Sv : forall s, In s (dsigs (remaining st)) -> fst s <> aid (snd x) -> In s (dsigs rem)).
  { intros s Hs Hne. apply in_map_iff in Hs. destruct Hs as [b [<- Hb]]. apply in_map. apply A2; [exact Hb|exact Hne]. }
  split; [split; [exact P2|split]|split; [exact P1|split; [|split; [|split]]]].
  - intros s Hs. apply Sv; [apply HD; simpl; right; exact Hs|].
    apply in_map_iff in Hs. destruct Hs as [y [<- Hy]]. intros E. apply Hn2. apply in_map_iff. exists y. split; [exact E|exact Hy].
  - intros id Hid. assert (In id (map aid (remaining st))) as H0.
    { apply in_map_iff in Hid. destruct Hid as [b [<- Hb]]. apply in_map. apply A1. exact Hb. }
    apply HK in H0. simpl in H0. destruct H0 as [E|H0]; [|exact H0]. exfalso. apply (A3 Nrem). unfold aidx in E. rewrite E. exact Hid.
  - apply (Permutation_in _ (Permutation_sym Hfp)). left. reflexivity.
  - intros Hin. apply Hn. apply in_app_or in Hin. apply in_or_app. tauto.
  - intros z Hz. apply (Permutation_in _ (Permutation_sym Hfp)). right. apply in_app_or in Hz. apply in_or_app. tauto.
  - intros id Hs. destruct (N.eq_dec id (aid (snd x))) as [->|Hne]; [left; left; reflexivity|right; apply Sv; [exact Hs|exact Hne]].
Qed.

Definition StopA (rem0 : list action) (o : outcome) : Prop :=
  match o with Done => forall id, ~ In (id, None) (dsigs rem0) | _ => True end.

Lemma StepA_weaken rem0 rem1 a st2 g2 :
  keepsNone rem0 rem1 [] -> incl (fas (sigs rem1)) (fas (sigs rem0)) -> StepA rem1 a st2 g2 -> StepA rem0 a st2 g2.
Proof.
  intros HK HI [A [B [C [Dd [E F]]]]]. split; [exact A|]. split; [exact B|]. split; [apply HI; exact C|]. split; [exact Dd|].
  split; [intros z Hz; apply HI; apply E; exact Hz|]. intros id Hs. destruct (HK id Hs) as [[]|Hs']. apply F. exact Hs'.
Qed.

Lemma next_group_A : forall gs st evs,
  Q (remaining st) (concat (map snd gs)) ->
  match next_group cfg_fixed st gs evs with
  | SYield a st2 g2 _ => StepA (remaining st) a st2 g2
  | SStop o _ _ => StopA (remaining st) o
  end.
Proof.
  induction gs as [|[k grp] gs IH]; intros st evs HQ.
  - simpl. intros id Hin. destruct HQ as [_ [_ HK]]. simpl in HK.
    apply in_map_iff in Hin. destruct Hin as [b [_ Hb]]. apply (HK (aid b)). apply in_map. exact Hb.
  - cbn [next_group]. destruct (late (min_order st) k); [exact I|].
    simpl map in HQ. simpl concat in HQ.
    destruct (group_Q (resolved st) grp (concat (map snd gs)) (remaining st) HQ) as [rem2 [Hr [HQ2 [HN HI]]]]. cbv zeta in Hr, HQ2.
    destruct (detect cfg_fixed (resolved st) (sort_unique_lists (build_unique (forced_group grp)))) as [firsts K]. cbn [fst] in *.
    destruct K; [|exact I]. cbn [drop_discarded cfg_fixed]. rewrite Hr.
    set (st' := {| resolved := resolved st; remaining := rem2; min_order := min_order st; start := start st |}).
    destruct (sort (leb_by output_key) (none_output (forced_group grp) ++ firsts)) as [|x rest].
    + specialize (IH st' (evs ++ force_events grp) HQ2).
      destruct (next_group cfg_fixed st' gs (evs ++ force_events grp)) as [a st2 g2 e|o e st2].
      * apply (StepA_weaken _ rem2); assumption.
      * destruct o; try exact I. cbn [StopA st' remaining] in *. intros id Hs. destruct (HN id Hs) as [[]|Hs']. apply (IH id Hs').
    + destruct (yield_first_A st' x rest gs (evs ++ force_events grp) HQ2) as [st2 [g2 [e [-> HS]]]].
      apply (StepA_weaken _ rem2); assumption.
Qed.

Lemma gen_next_A st g :
  Q (remaining st) (gitems g) ->
  match gen_next cfg_fixed st g with
  | SYield a st2 g2 _ => StepA (remaining st) a st2 g2
  | SStop o _ _ => StopA (remaining st) o
  end.
Proof.
  intros HQ. unfold gen_next. destruct g as [out gs]. unfold gitems in HQ. cbn [g_out g_groups] in *. destruct out as [|x rest].
  - apply next_group_A. exact HQ.
  - destruct (yield_first_A st x rest gs [] HQ) as [st2 [g2 [e [-> HS]]]]. exact HS.
Qed.

Lemma dsig_i_enumerate l : forall s, map dsig_i (enumerate s l) = dsigs l.
Proof. induction l as [|a r IH]; intros s; simpl; [reflexivity|]. rewrite IH. reflexivity. Qed.

Lemma restart_Q st new :
  NoDup (fas (sigs (remaining st)) ++ forest_aids new) ->
  Q (remaining (fst (restart st new))) (gitems (snd (restart st new))).
Proof.
  intros H. split; [apply restart_J; exact H|]. unfold restart, gitems. cbn [fst snd remaining g_out g_groups app]. rewrite groupby_concat. split.
  - intros s Hs. apply in_map_iff in Hs. destruct Hs as [y [<- Hy]]. apply sort_In in Hy.
    rewrite <- (dsig_i_enumerate _ (start st)). apply in_map. exact Hy.
  - intros id Hid. rewrite <- (aidx_enumerate _ (start st)) in Hid. apply in_map_iff in Hid. destruct Hid as [y [<- Hy]].
    apply in_map. apply sort_In. exact Hy.
Qed.

Section Run.
Variable acts0 : list action.

Lemma exec_t_A : forall fuel st g pending log tr,
  NoDup (fas (sigs (remaining st)) ++ forest_aids pending) ->
  (pending = [] -> Q (remaining st) (gitems g)) ->
  NoDup (map aid tr) ->
  (forall t, In t tr -> ~ In (aid t) (fas (sigs (remaining st)) ++ forest_aids pending)) ->
  (forall b, In b (acts0 ++ flat_map aadds tr) -> D b = None ->
             In (aid b) (map aid tr) \/ In (aid b, None) (dsigs (remaining st ++ pending))) ->
  let r := exec_t cfg_fixed fuel st g pending log tr in
  fst (fst r) = Done ->
  NoDup (map aid (snd r)) /\
  forall b, In b (acts0 ++ flat_map aadds (snd r)) -> D b = None -> In (aid b) (map aid (snd r)).
Proof.
  induction fuel as [|f IH]; intros st g pending log tr E3 E4 E1 E2 E5 r; subst r; [discriminate|].
  cbn [exec_t].
  assert (HS : exists st1 g1, (match pending with [] => (st, g) | _ :: _ => restart st pending end) = (st1, g1) /\
             Q (remaining st1) (gitems g1) /\
             (forall z, In z (fas (sigs (remaining st1))) <-> In z (fas (sigs (remaining st)) ++ forest_aids pending)) /\
             (forall s, In s (dsigs (remaining st ++ pending)) -> In s (dsigs (remaining st1)))).
  { destruct pending as [|p ps].
    - exists st, g. split; [reflexivity|]. split; [apply E4; reflexivity|]. split; [intros z; rewrite app_nil_r; tauto|].
      intros s. rewrite app_nil_r. tauto.
    - exists (fst (restart st (p :: ps))), (snd (restart st (p :: ps))). split; [reflexivity|].
      split; [apply restart_Q; exact E3|]. unfold restart. cbn [fst remaining]. split; [|intros s Hs; exact Hs].
      intros z. unfold sigs. rewrite map_app. fold (sigs (remaining st)) (sigs (p :: ps)). rewrite fas_app, (forest_aids_sigs (p :: ps)). tauto. }
  destruct HS as [st1 [g1 [-> [HQ1 [Hfa Hds]]]]].
  pose proof (gen_next_A st1 g1 HQ1) as HG.
  destruct (gen_next cfg_fixed st1 g1) as [a st2 g2 e|o e st'].
  - destruct HG as [A [B [C [Dd [E F]]]]]. apply IH.
    + exact B.
    + intros _. exact A.
    + rewrite map_app. apply NoDup_app_iff. split; [exact E1|]. split; [repeat constructor; intros []|].
      intros z Hz [<-|[]]. apply in_map_iff in Hz. destruct Hz as [t [Et Ht]]. apply (E2 t Ht). apply Hfa. rewrite Et. exact C.
    + intros t Ht Hin. apply in_app_or in Ht. destruct Ht as [Ht|[<-|[]]].
      * apply (E2 t Ht). apply Hfa. apply E. exact Hin.
      * apply Dd. exact Hin.
    + intros b Hb Hd. rewrite flat_map_app in Hb. simpl in Hb. rewrite app_nil_r, app_assoc in Hb. apply in_app_or in Hb.
      destruct Hb as [Hb|Hb].
      * destruct (E5 b Hb Hd) as [H|H].
        -- left. rewrite map_app. apply in_or_app. left. exact H.
        -- apply Hds in H. destruct (F _ H) as [[<-|[]]|H'].
           ++ left. rewrite map_app. apply in_or_app. right. left. reflexivity.
           ++ right. unfold dsigs. rewrite map_app. apply in_or_app. left. exact H'.
      * right. unfold dsigs. rewrite map_app. apply in_or_app. right. apply in_map_iff. exists b. split; [unfold dsig; rewrite Hd; reflexivity|exact Hb].
  - cbn [fst snd]. intros ->. split; [exact E1|]. intros b Hb Hd. destruct (E5 b Hb Hd) as [H|H]; [exact H|].
    exfalso. apply Hds in H. apply (HG _ H).
Qed.
End Run.

(* CLAUSE (a), re-entrant programs included: when the commit completes, every action without a discriminator
   that was declared -- initially or by an executed action -- has run; and no action runs twice *)
Theorem none_actions_run_once acts :
  wf_ids acts = true -> fst (commit_with cfg_fixed acts) = Done ->
  let tr := commit_trace cfg_fixed acts in
  NoDup (map aid tr) /\
  forall b, In b (acts ++ flat_map aadds tr) -> D b = None -> In (aid b) (map aid tr).
Proof.
  intros Hw HD tr. subst tr. unfold commit_trace. apply (exec_t_A acts).
  - simpl. apply nodupN_NoDup. exact Hw.
  - intros ->. split; [split; [constructor|split; [constructor|intros ? []]]|split; intros ? []].
  - constructor.
  - intros t [].
  - intros b Hb Hd. right. simpl in Hb. rewrite app_nil_r in Hb. simpl. apply in_map_iff. exists b. split; [unfold dsig; rewrite Hd; reflexivity|exact Hb].
  - rewrite exec_t_exec. exact HD.
Qed.
