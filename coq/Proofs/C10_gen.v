(* C10 -- the program REGENERATED from src/pyramid/session.py on this run (Gen/Prog_C10.v) equals the
   hand-written reference model (Model/C10_base.v, Model/C10.v), for all inputs; the property theorems are
   then restated about the regenerated program.

   The scripts never mention the text of the generated terms: they unfold the generated constant, remove the
   lets, bring projections of updated records to normal form and case-split on whatever the two sides
   scrutinise (configuration options, the oracle answers, unpack3 / float_of results, comparisons, flags).
   Hence they are insensitive to the names of the source's locals, to nesting vs `and`, elif vs nested if,
   harmless reordering of independent statements; they fail as soon as some valuation leads the
   regenerated program to another result than the model. *)
From Coq Require Import List NArith ZArith Bool Lia.
Import ListNotations.
Require Import Verif.Lib.Wire Verif.Gen.Facts_C10 Verif.Model.C10 Verif.Proofs.C10.

Ltac norm :=
  cbv zeta;
  cbn [st created accessed renewed isnew dirty set_created set_accessed set_renewed set_new set_dirty
       with_accessed with_st mark register_cb blank_sess fst snd tval is_none rv].

(* split on every scrutinee that is not yet a constructor *)
Ltac split_all :=
  repeat (norm;
          match goal with
          | |- context [match ?x with _ => _ end] =>
              lazymatch x with
              | context [match _ with _ => _ end] => fail
              | _ => destruct x eqn:?
              end
          end);
  norm.

Lemma gen_changed_is_model s : gen_changed s = mark s.
Proof. destruct s as [d c a r n dy]. unfold gen_changed. split_all; try reflexivity; cbn in *; subst; reflexivity. Qed.

Lemma aw_st o now s k : st (apply_wrap o now s k) = st s.
Proof.
  unfold apply_wrap. destruct k as [|[p|p|]]; try reflexivity; try (destruct p; reflexivity).
  destruct (reissue o); [destruct (cmp_eval _ _ _)|]; reflexivity.
Qed.

Lemma gen_manage_accessed_is_model o now w s :
  gen_manage_accessed o now w s = w (apply_wrap o now s 1%N).
Proof.
  unfold gen_manage_accessed, apply_wrap, cmp_eval, reissue_cmp. norm.
  rewrite ?gen_changed_is_model. split_all; rewrite ?gen_changed_is_model; reflexivity.
Qed.

Lemma gen_manage_changed_is_model o now w s :
  gen_manage_changed o now w s = w (apply_wrap o now s 2%N).
Proof.
  unfold gen_manage_changed, apply_wrap. norm. rewrite ?gen_changed_is_model. reflexivity.
Qed.

Lemma gcall_is_model o now m body s : gcall o now m body s = body (apply_wrap o now s (wrapper_of m)).
Proof.
  unfold gcall, wrap_with.
  destruct (wrapper_of m) as [|[p|p|]]; try reflexivity.
  - destruct p; try reflexivity. apply gen_manage_changed_is_model.
  - apply gen_manage_accessed_is_model.
Qed.

(* ------------------------------------------------------------------ method bodies *)
(* what the reference model says happens INSIDE the wrapper of the method an operation enters *)
Definition body_of (o : opts) (p : op) (now : Z) (s : sess) : sess * res :=
  let s1 := fold_left (apply_wrap o now) (map wrapper_of (tl (calls p (st s)))) s in
  let s2 := match p with OChanged => mark s1 | _ => s1 end in
  (with_st s2 (fst (raw p (st s))), snd (raw p (st s))).

Lemma step_body o p now s : step o p now s = body_of o p now (apply_wrap o now s (wrapper_of (meth_of p))).
Proof.
  unfold step, body_of. rewrite aw_st.
  assert (C : exists l, calls p (st s) = meth_of p :: l).
  { destruct p; cbn [calls meth_of]; eauto. destruct (token_absent (st s)); eauto. }
  destruct C as [l C]. rewrite C. cbn [tl map fold_left]. reflexivity.
Qed.

Lemma d_get_app_absent k d x : d_get k d = None -> d_get k (d ++ [(k, x)]) = Some x.
Proof.
  induction d as [|[k' v'] d IH]; cbn [d_get app]; [rewrite text_eqb_refl; reflexivity|].
  destruct (text_eqb k k'); [discriminate|exact IH].
Qed.
Lemma d_set_app_absent k d x y : d_get k d = None -> d_set k y (d ++ [(k, x)]) = d ++ [(k, y)].
Proof.
  induction d as [|[k' v'] d IH]; cbn [d_get d_set app]; [rewrite text_eqb_refl; reflexivity|].
  destruct (text_eqb k k'); [discriminate|]. intros H. rewrite (IH H). reflexivity.
Qed.

Ltac enter := unfold body_of; rewrite ?gcall_is_model; unfold on_state; norm; rewrite ?aw_st; cbn [calls tl map fold_left raw].

Lemma gen_invalidate_is_model o now s : gen_invalidate o now s = body_of o OInvalidate now s.
Proof. unfold gen_invalidate. enter. reflexivity. Qed.

Lemma gen_pop_flash_is_model o now q s : gen_pop_flash o now q s = body_of o (OPopFlash q) now s.
Proof.
  unfold gen_pop_flash. enter. change ([95; 102; 95]%N ++ q) with (flash_key q) || unfold flash_key, flash_prefix.
  destruct (d_get _ (st s)); reflexivity.
Qed.

Lemma gen_peek_flash_is_model o now q s : gen_peek_flash o now q s = body_of o (OPeekFlash q) now s.
Proof.
  unfold gen_peek_flash. enter. unfold flash_key, flash_prefix.
  destruct (d_get _ (st s)); reflexivity.
Qed.

Lemma gen_new_csrf_is_model o now tok s : gen_new_csrf o now tok s = body_of o (ONewCsrf tok) now s.
Proof. unfold gen_new_csrf. enter. reflexivity. Qed.

Lemma gen_get_csrf_is_model o now tok s : gen_get_csrf o now tok s = body_of o (OGetCsrf tok) now s.
Proof.
  unfold gen_get_csrf. enter. rewrite gen_new_csrf_is_model. unfold body_of. norm. rewrite ?aw_st.
  unfold token_absent, csrf_key.
  destruct (d_get _ (st s)) as [v|] eqn:G; [destruct v|]; cbn [calls tl map fold_left raw is_none fst snd];
    unfold token_absent, csrf_key; rewrite ?G; reflexivity.
Qed.

Lemma gen_flash_is_model o now msg q dup s : gen_flash o now msg q dup s = body_of o (OFlash msg q dup) now s.
Proof.
  unfold gen_flash. enter. unfold flash_key, flash_prefix, append_at, py_in. norm.
  set (key := ([95; 102; 95]%N ++ q)).
  set (s1 := apply_wrap o now s (wrapper_of MSetDefault)).
  destruct (d_get key (st s)) as [v|] eqn:G; cbn [fst snd rv with_st st].
  - rewrite G. destruct v; destruct dup; cbn [orb negb]; try reflexivity.
    destruct (existsb _ l); reflexivity.
  - rewrite (d_get_app_absent key (st s) (JList []) G).
    rewrite (d_set_app_absent key (st s) (JList []) (JList ([] ++ [msg])) G).
    destruct dup; cbn [existsb app]; reflexivity.
Qed.

(* ------------------------------------------------------------------ one operation *)
Lemma gbody_is_model o now p s : gbody o now p s = body_of o p now s.
Proof.
  destruct p; cbn [gbody];
    first [ apply gen_flash_is_model | apply gen_pop_flash_is_model | apply gen_peek_flash_is_model
          | apply gen_new_csrf_is_model | apply gen_get_csrf_is_model | apply gen_invalidate_is_model
          | idtac ];
    try (unfold body_of, on_state; cbn [calls tl map fold_left]; reflexivity).
  (* changed() *)
  unfold body_of. cbn [calls tl map fold_left raw fst snd]. rewrite gen_changed_is_model.
  destruct s; reflexivity.
Qed.

Theorem gstep_is_model o p now s : gstep o p now s = step o p now s.
Proof. unfold gstep. rewrite gcall_is_model, gbody_is_model, step_body. reflexivity. Qed.

Theorem grun_ops_is_model o l : forall s, grun_ops o l s = run_ops o l s.
Proof.
  induction l as [|[p t] r IH]; intros s; [reflexivity|].
  cbn [grun_ops run_ops]. rewrite gstep_is_model. destruct (step o p t s) as [s1 x]. rewrite IH. reflexivity.
Qed.

(* ------------------------------------------------------------------ __init__ and _set_cookie *)
Theorem gen_init_is_model O o c now : gen_init O o c now = init O o c now.
Proof.
  unfold gen_init, init, init_dict, cmp_eval, timeout_cmp, empty_state.
  destruct c as [c|]; [destruct (loads O (key o) c) as [v|]; [destruct v|]|];
    repeat (norm;
            match goal with
            | |- context [unpack3 ?v] => destruct (unpack3 v) as [[[? ?] ?]|]
            | |- context [float_of ?v] => destruct (float_of v)
            | |- context [timeout ?x] => destruct (timeout x)
            | |- context [Z.gtb ?a ?b] => destruct (Z.gtb a b)
            | |- context [state_dict ?v] => destruct (state_dict v) as [[?|]|]
            end);
    norm; reflexivity.
Qed.

Theorem gen_set_cookie_is_model O o exc s : gen_set_cookie O o exc s = set_cookie O o s exc.
Proof.
  unfold gen_set_cookie, set_cookie, cookie_of, payload, signed_dumps, cmp_eval, limit_cmp. norm.
  change (Z.of_N cookie_limit) with 4064%Z.
  destruct (soe o), exc; cbn [negb andb]; try reflexivity;
    match goal with |- context [Z.gtb ?a ?b] => destruct (Z.gtb a b) end; reflexivity.
Qed.

Theorem gfinish_is_model O o s exc : gfinish O o s exc = finish O o s exc.
Proof. unfold gfinish, finish. rewrite gen_set_cookie_is_model. reflexivity. Qed.

(* ------------------------------------------------------------------ the request's callback queue *)
Lemma gen_add_cb_is_model q c : gen_add_cb q c = q ++ [c].
Proof. unfold gen_add_cb. reflexivity. Qed.

Lemma gen_process_cbs_is_model {A} (call : cb -> A -> A) q : forall a,
  gen_process_cbs call q a = fold_left (fun a c => call c a) q a.
Proof. induction q as [|c q IH]; intros a; [reflexivity|]. cbn [gen_process_cbs fold_left]. apply IH. Qed.

Lemma fold_add_others O o s exc n : forall q f,
  fold_left (fun a c => call_cb O o s exc c a) (add_others n q) f = fold_left (fun a c => call_cb O o s exc c a) q f.
Proof.
  induction n as [|n IH]; intros q f; [reflexivity|].
  cbn [add_others]. rewrite IH, gen_add_cb_is_model, fold_left_app. reflexivity.
Qed.

(* whatever else the application registered, before or after: the session's callback runs exactly once iff the
   session is dirty, and nothing else touches the cookie *)
Theorem gfinish_q_is_model O o s exc n : gfinish_q O o s exc n = finish O o s exc.
Proof.
  unfold gfinish_q, req_queue. rewrite gen_process_cbs_is_model, fold_add_others.
  unfold finish. destruct (dirty s).
  - rewrite gen_add_cb_is_model, fold_left_app. cbn [fold_left call_cb]. apply gen_set_cookie_is_model.
  - rewrite fold_add_others. reflexivity.
Qed.

(* the router runs the callbacks after the response exists; with an empty queue nothing happens either way *)
Theorem gfinish_r_is_model O o s exc n : gfinish_r O o s exc n = finish O o s exc.
Proof.
  rewrite <- gfinish_q_is_model with (n := n). unfold gfinish_r, gfinish_q, gen_invoke_request.
  destruct (req_queue s (fst n) (snd n)); rewrite ?gen_process_cbs_is_model; reflexivity.
Qed.

Lemma gen_request_session_is_model {A} (f : unit -> A) : gen_request_session (Some f) = Some (f tt).
Proof. reflexivity. Qed.
Lemma gen_request_session_none {A} : @gen_request_session A None = None.
Proof. reflexivity. Qed.

(* ------------------------------------------------------------------ requests and chains *)
Theorem grun_req_is_model O o last r : grun_req O o last r = run_req O o last r.
Proof.
  unfold grun_req, run_req. rewrite gen_request_session_is_model, gen_init_is_model.
  destruct (init O o _ _); try reflexivity.
  rewrite grun_ops_is_model. destruct (run_ops o (rops r) s) as [s1 rs]. rewrite gfinish_r_is_model. reflexivity.
Qed.

Theorem grun_chain_is_model O o : forall l last, grun_chain O o last l = run_chain O o last l.
Proof.
  induction l as [|r l IH]; intros last; [reflexivity|].
  cbn [grun_chain run_chain]. rewrite grun_req_is_model, IH. reflexivity.
Qed.
