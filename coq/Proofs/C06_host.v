(* C06 -- the scheme://netloc form of webob's host_url, which C06_route_url_way_back took as a hypothesis:
   proved for every environ whose HTTP_HOST / SERVER_NAME / SERVER_PORT are free of '/', '?', '#', '[', ']',
   space and controls; and route_url end to end without that hypothesis (no _scheme/_host/_port overrides). *)
From Coq Require Import List NArith ZArith Bool Lia.
Import ListNotations.
Require Import Verif.Lib.Wire Verif.Lib.Text Verif.Lib.PathNorm Verif.Lib.Utf8 Verif.Lib.Percent.
Require Verif.Gen.Facts_C01 Verif.Model.C01 Verif.Proofs.C01.
Require Import Verif.Gen.Facts_C17 Verif.Model.C17 Verif.Proofs.C17.
Require Import Verif.Gen.Facts_C06 Verif.Model.C06 Verif.Proofs.C06 Verif.Proofs.C06_ext.
Open Scope N_scope.

Lemma forallb_rev {A} (f : A -> bool) l : forallb f (rev l) = forallb f l.
Proof.
  induction l as [|x l IH]; [reflexivity|]. cbn [rev forallb]. rewrite forallb_app, IH. cbn [forallb].
  rewrite andb_true_r. apply andb_comm.
Qed.

Lemma cut_forall (P : N -> bool) c : forall s a b, cut c s = (a, b) -> forallb P s = true ->
  forallb P a = true /\ (forall r, b = Some r -> forallb P r = true).
Proof.
  induction s as [|x s IH]; intros a b H Hs; cbn [cut] in H.
  - inversion H. split; [reflexivity|discriminate].
  - cbn [forallb] in Hs. apply andb_true_iff in Hs. destruct Hs as [Hx Hs].
    destruct (x =? c).
    + inversion H; subst. split; [reflexivity|]. intros r Hr. inversion Hr; subst. exact Hs.
    + destruct (cut c s) as [a' b'] eqn:Ec. inversion H; subst.
      destruct (IH a' b eq_refl Hs) as [Ha Hb]. split; [|exact Hb]. cbn [forallb]. rewrite Hx, Ha. reflexivity.
Qed.

Lemma rcut_forall (P : N -> bool) c s a b : rcut c s = (a, b) -> forallb P s = true ->
  forallb P a = true /\ forallb P b = true.
Proof.
  unfold rcut. destruct (cut c (rev s)) as [x y] eqn:Ec. intros H Hs.
  assert (Hr : forallb P (rev s) = true) by (rewrite forallb_rev; exact Hs).
  destruct (cut_forall P c _ _ _ Ec Hr) as [Hx Hy].
  destruct y as [r|]; inversion H; subst.
  - rewrite !forallb_rev. split; [apply Hy; reflexivity|exact Hx].
  - split; [exact Hs|reflexivity].
Qed.

Lemma elide_forall (P : N -> bool) tbl sch port :
  (forall p, port = Some p -> forallb P p = true) -> forall p, elide tbl sch port = Some p -> forallb P p = true.
Proof.
  intros H p. unfold elide. destruct (lookup tbl sch) as [d|]; [|apply H].
  destruct port as [q|]; [|discriminate]. destruct (text_eqb q d); [discriminate|]. apply H.
Qed.

Lemma with_port_form url port : (forall p, port = Some p -> forallb netloc_char p = true) ->
  exists sfx, with_port url port = url ++ sfx /\ forallb netloc_char sfx = true.
Proof.
  intros H. unfold with_port. destruct port as [[|c r]|].
  - exists []. rewrite app_nil_r. split; reflexivity.
  - exists (port_sep ++ c :: r). split; [reflexivity|]. rewrite forallb_app. rewrite (H _ eq_refl). reflexivity.
  - exists []. rewrite app_nil_r. split; reflexivity.
Qed.

(* webob's host_url = scheme://netloc with a netloc free of '/', '?', '#', '[', ']', space and controls *)
Theorem webob_host_url_form e :
  match e_http_host e with Some h => forallb netloc_char h | None => true end = true ->
  forallb netloc_char (e_server_name e) = true -> forallb netloc_char (e_server_port e) = true ->
  exists netloc, webob_host_url e = e_scheme e ++ [58; 47; 47] ++ netloc /\ forallb netloc_char netloc = true.
Proof.
  intros Hh Hn Hp. unfold webob_host_url.
  set (hp := match e_http_host e with
             | Some h => if has_colon h && negb (N.eqb (last h 0) 93)
                         then let '(a, b) := rcut 58 h in (a, Some b) else (h, None)
             | None => (e_server_name e, Some (e_server_port e))
             end).
  assert (Hhp : forallb netloc_char (fst hp) = true /\ forall p, snd hp = Some p -> forallb netloc_char p = true).
  { unfold hp. destruct (e_http_host e) as [h|].
    - destruct (has_colon h && negb (N.eqb (last h 0) 93)).
      + destruct (rcut 58 h) as [a b] eqn:Er. destruct (rcut_forall netloc_char _ _ _ _ Er Hh) as [Ha Hb].
        split; [exact Ha|]. cbn [snd]. intros p Hp'. inversion Hp'; subst. exact Hb.
      + split; [exact Hh|]. cbn [snd]. discriminate.
    - split; [exact Hn|]. cbn [snd]. intros p Hp'. inversion Hp'; subst. exact Hp. }
  destruct hp as [host port]. cbn [fst snd] in Hhp. destruct Hhp as [Hhost Hport].
  match goal with |- context [with_port ?u ?pt] =>
    destruct (with_port_form u pt (elide_forall netloc_char _ _ _ Hport)) as (sfx & E & Hs) end.
  exists (host ++ sfx). rewrite E. split.
  - rewrite <- !app_assoc. reflexivity.
  - rewrite forallb_app, Hhost, Hs. reflexivity.
Qed.

(* route_url end to end, the host form no longer assumed: no _scheme / _host / _port / _app_url overrides, a
   syntactically valid wsgi.url_scheme, clean HTTP_HOST / SERVER_NAME / SERVER_PORT *)
Theorem route_url_way_back_env O dflt src p e rs n o kw U caps :
  C01.parse_core O dflt src = C01.Ok p ->
  Verif.Proofs.C17.wf_query (o_query o) -> Verif.Proofs.C17.wf_anchor (o_anchor o) ->
  o_app_url o = None -> o_scheme o = None -> o_host o = None -> o_port o = None ->
  scheme_ok (e_scheme e) = true ->
  match e_http_host e with Some h => forallb netloc_char h | None => true end = true ->
  forallb netloc_char (e_server_name e) = true -> forallb netloc_char (e_server_port e) = true ->
  (e_script e = [] \/ exists s, e_script e = 47 :: s) ->
  assoc n rs = Some (to_pattern p) -> route_url [] e rs n [] o kw = Ok U ->
  kw_caps p kw = Some caps ->
  C01.caps_ok O (C01.star p) (C01.items p) caps = true ->
  sep_val O (C01.star p) (C01.items p) caps = true ->
  exists s pi, url_split U = Ok s /\ u_scheme s = map lower (e_scheme e)
    /\ wsgi_path_info (e_script e) (u_path s) = Some pi
    /\ match_back O p pi = Some (C01.mk_dict (C01.items p) (C01.star p) caps).
Proof.
  intros Hp Hq Ha Hau Hos Hoh Hop Hsch Hh Hn Hpt Hsc Hasc Hu Hk Hc Hs.
  destruct (webob_host_url_form e Hh Hn Hpt) as (netloc & E & Hnl).
  assert (Ehp : host_part e o = e_scheme e ++ [58; 47; 47] ++ netloc).
  { unfold host_part. rewrite Hos, Hoh, Hop. exact E. }
  destruct (route_url_way_back O dflt src p e rs n o kw U caps (e_scheme e) netloc
              Hp Hq Ha Hau Ehp Hsch Hnl Hsc Hasc Hu Hk Hc Hs) as (s & pi & H1 & H2 & _ & H4 & H5).
  exists s, pi. repeat split; assumption.
Qed.

(* non-vacuity: wsgi.url_scheme 'http', no HTTP_HOST, SERVER_NAME 's', SERVER_PORT '80' -> 'http://s' *)
Example webob_host_url_form_example :
  scheme_ok (e_scheme empty_env) = true
  /\ match e_http_host empty_env with Some h => forallb netloc_char h | None => true end = true
  /\ forallb netloc_char (e_server_name empty_env) = true /\ forallb netloc_char (e_server_port empty_env) = true
  /\ webob_host_url empty_env = [104; 116; 116; 112; 58; 47; 47; 115].
Proof. repeat split; vm_compute; reflexivity. Qed.
