(* C15 -- a re-initialisation INTERLEAVED with lookups and registrations, under the safe order.
   C15_reinit_interleaved_refuted shows that with the order of Registry.__init__ (cache cleared first,
   registrations dropped afterwards) operations running between two steps of the re-initialisation leave a
   stale entry.  Here the positive counterpart: for EVERY init program whose LAST instruction is the cache
   clear (whatever comes before it, in whatever order), split at ANY point, with ANY trace of lookups and
   registrations running at the split point, starting after ANY history that ends idle with an empty
   current cache (e.g. right after a registration or a re-initialisation completed): once every thread has
   finished, every lookup that starts is fresh. *)
From Coq Require Import List NArith ZArith Bool Arith Lia.
Import ListNotations.
Require Import Verif.Lib.Wire Verif.Lib.C15Prog Verif.Lib.C15Init Verif.Gen.Facts_C15 Verif.Model.C15.
Require Import Verif.Proofs.C15 Verif.Proofs.C15_hist.

Lemma split_clear_last (pre post body : list init_instr) m :
  pre ++ post = body ++ [IClear m] -> post = [] \/ existsb is_clear post = true.
Proof.
  intros H. destruct post as [|a r]; [left; reflexivity|right].
  destruct (@exists_last _ (a :: r)) as (l' & z & E); [discriminate|].
  rewrite E in H |- *. rewrite app_assoc in H. apply app_inj_tail in H. destruct H as [_ ->].
  rewrite existsb_app. simpl. apply orb_true_r.
Qed.

Section Safe.
  Variable sro : N -> list N.
  Notation wbL := (std_wb Local).
  Notation InvW := (Inv sro wbL).

  Lemma interleaved_inv stH pre post body m trm :
    InvW stH -> idle stH -> Ec stH ->
    pre ++ post = body ++ [IClear m] ->
    let st0 := reinit pre stH in
    let st1 := reinit post (exec sro KeyFull (LPs wbL) RPs trm st0) in
    idleb st1 = true ->
    InvW st1 /\ quietb st1 = true.
  Proof.
    intros I Hi He Hs st0 st1 Hid.
    assert (W0 : Wk st0) by (apply Wk_reinit, (inv_idle_Wk sro wbL); auto).
    assert (E0 : Ec st0) by (apply Ec_reinit; left; exact He).
    assert (I0 : InvW st0) by (apply Wk_Ec_inv; auto).
    set (sT := exec sro KeyFull (LPs wbL) RPs trm st0) in *.
    assert (IT : InvW sT) by (apply (inv_run sro KeyFull HkmF wbL HwbL); exact I0).
    destruct (threads_reinit post sT) as [Th Nt].
    assert (HidT : idleb sT = true).
    { unfold idleb in *. fold st1 in Th, Nt. rewrite Nt in Hid.
      clear - Hid Th. revert Hid. generalize (ntid sT) as n.
      induction n as [|n IH]; simpl; [auto|]. fold st1. rewrite Th. intros H.
      apply andb_true_iff in H. destruct H as [H1 H2]. rewrite H1. simpl. apply IH. exact H2. }
    assert (IdT : idle sT) by (apply (idleb_idle sro wbL); auto).
    assert (I1 : InvW st1).
    { destruct (split_clear_last _ _ _ _ Hs) as [->|Hc]; [exact IT|].
      apply Wk_Ec_inv.
      - apply Wk_reinit, (inv_idle_Wk sro wbL); auto.
      - apply Ec_reinit. right. exact Hc. }
    split; [exact I1|].
    apply (quietb_quiet sro wbL); [exact I1|].
    intros i t Ht. fold st1 in Th. rewrite Th in Ht. unfold midway. rewrite (IdT _ _ Ht). simpl.
    destruct (tkind t); [reflexivity|apply andb_false_r].
  Qed.
End Safe.

Theorem reinit_interleaved_safe_order : forall body m sro R0 hs pre post trm k tr2,
  reinit_idle sro KeyFull lookup_prog register_prog init_prog hs (init R0) = true ->
  let stH := hexec sro KeyFull lookup_prog register_prog init_prog hs (init R0) in
  idleb stH = true -> heap stH (cur stH) = [] ->
  pre ++ post = body ++ [IClear m] ->
  let st0 := reinit pre stH in
  let st1 := reinit post (exec sro KeyFull lookup_prog register_prog trm st0) in
  idleb st1 = true ->
  let st2 := exec sro KeyFull lookup_prog register_prog (SpawnLookup k :: tr2) st1 in
  reg_free sro KeyFull lookup_prog register_prog st1 (SpawnLookup k :: tr2) = true ->
  exists t, threads st2 (ntid st1) = Some t /\ tkind t = KLookup /\ tkey t = k /\
            (cont t = [] -> tres t = Some (lookup_all sro (R st1) k)).
Proof.
  rewrite facts_lookup_prog, facts_register_prog.
  intros body m sro R0 hs pre post trm k tr2 Hh stH HidH HeH Hs st0 st1 Hid st2 Hf.
  assert (IH : Inv sro (std_wb Local) stH).
  { apply (inv_hexec sro KeyFull HkmF _ HwbL init_prog facts_init_prog); [apply inv_init|exact Hh]. }
  assert (IdH : idle stH) by (apply (idleb_idle sro (std_wb Local)); auto).
  destruct (interleaved_inv sro stH pre post body m trm IH IdH HeH Hs Hid) as [I1 Q1].
  exact (lookup_fresh_from sro KeyFull HkmF _ HwbL st1 k tr2 I1 Q1 Hf).
Qed.

(* non-vacuity: after a registration-free start, the registrations are dropped, a lookup runs to completion
   BEFORE the cache is cleared (it still sees nothing: R is already empty), the clear follows, the next lookup
   finds nothing; all hypotheses hold *)
Example reinit_interleaved_safe_order_nonvacuous :
  let stH := hexec sro1 KeyFull lookup_prog register_prog init_prog [] (init R1) in
  let pre := [INewLock; IResetAdapters] in let post := [IClear Swap] in
  let trm := SpawnLookup k1 :: steps 0 40 in
  let st1 := reinit post (exec sro1 KeyFull lookup_prog register_prog trm (reinit pre stH)) in
  idleb stH = true /\ heap stH (cur stH) = [] /\ pre ++ post = [INewLock; IResetAdapters] ++ [IClear Swap] /\
  idleb st1 = true /\
  reg_free sro1 KeyFull lookup_prog register_prog st1 (SpawnLookup k1 :: steps 1 40) = true /\
  lookup_all sro1 (R st1) k1 = [].
Proof. vm_compute. repeat split; reflexivity. Qed.

(* ---------------- composition: re-initialisation, then a commit that fails midway ----------------
   After ANY history, the registry is re-initialised (idle) and a commit follows whose view actions [acts] ran
   before another action raised: every lookup that starts afterwards sees exactly the registrations of the
   executed actions ON AN EMPTY registry -- nothing of what was registered or cached before the
   re-initialisation.  (C15_partial_commit_fresh composed with C15_reinit_forgets; no quietness hypothesis.) *)
Lemma reinit_idle_snoc sro km LP RP IP hs : forall st,
  reinit_idle sro km LP RP IP (hs ++ [HReinit]) st = true ->
  reinit_idle sro km LP RP IP hs st = true /\ idleb (hexec sro km LP RP IP hs st) = true.
Proof.
  induction hs as [|h r IH]; intros st H; simpl in *.
  - rewrite !andb_true_r in H. auto.
  - apply andb_true_iff in H. destruct H as [H1 H2]. destruct (IH _ H2) as [A B]. rewrite H1, A. auto.
Qed.

Theorem reinit_then_commit_fresh : forall sro R0 hs acts k tr2,
  reinit_idle sro KeyFull lookup_prog register_prog init_prog (hs ++ [HReinit]) (init R0) = true ->
  let st0 := hexec sro KeyFull lookup_prog register_prog init_prog (hs ++ [HReinit]) (init R0) in
  let st1 := exec sro KeyFull lookup_prog register_prog (commit_trace (ntid st0) acts) st0 in
  let st2 := exec sro KeyFull lookup_prog register_prog (SpawnLookup k :: tr2) st1 in
  reg_free sro KeyFull lookup_prog register_prog st1 (SpawnLookup k :: tr2) = true ->
  exists t, threads st2 (ntid st1) = Some t /\ tkind t = KLookup /\ tkey t = k /\
            (cont t = [] -> tres t = Some (lookup_all sro (commit_R acts []) k)).
Proof.
  intros sro R0 hs acts k tr2 Hid st0 st1 st2 Hf.
  destruct (reinit_forgets sro R0 hs k tr2 Hid) as (HR & _ & _).
  fold st0 in HR.
  assert (Hq : quietb st0 = true).
  { revert Hid. unfold st0. rewrite facts_lookup_prog, facts_register_prog. intros Hid.
    destruct (reinit_idle_snoc _ _ _ _ _ _ _ Hid) as [Hid0 Hidle].
    set (sH := hexec sro KeyFull (LPs (std_wb Local)) RPs init_prog hs (init R0)) in *.
    assert (I0 : Inv sro (std_wb Local) sH).
    { apply (inv_hexec sro KeyFull HkmF _ HwbL init_prog facts_init_prog); [apply inv_init|exact Hid0]. }
    assert (Id0 : idle sH) by (apply (idleb_idle sro (std_wb Local)); auto).
    destruct (inv_reinit sro (std_wb Local) init_prog facts_init_prog sH I0 Id0) as (I1 & _ & _ & Id1 & _ & _).
    unfold hexec. rewrite fold_left_app. simpl. fold (hexec sro KeyFull (LPs (std_wb Local)) RPs init_prog hs (init R0)).
    fold sH. apply (quietb_quiet sro (std_wb Local)); [exact I1|].
    intros i t Ht. unfold midway. rewrite (Id1 _ _ Ht). simpl. destruct (tkind t); [reflexivity|apply andb_false_r]. }
  destruct (partial_commit_fresh sro R0 (hs ++ [HReinit]) acts k tr2 Hid Hq Hf) as (t & A & B & C & D).
  exists t. repeat split; auto. intros Hc. rewrite (D Hc). fold st0. rewrite HR. reflexivity.
Qed.

Example reinit_then_commit_nonvacuous :
  let hs := [HTrace (SpawnLookup k1 :: steps 0 40)] in
  let acts := [[(sA, Some 2%N)]] in
  let st0 := hexec sro1 KeyFull lookup_prog register_prog init_prog (hs ++ [HReinit]) (init R1) in
  let st1 := exec sro1 KeyFull lookup_prog register_prog (commit_trace (ntid st0) acts) st0 in
  reinit_idle sro1 KeyFull lookup_prog register_prog init_prog (hs ++ [HReinit]) (init R1) = true /\
  reg_free sro1 KeyFull lookup_prog register_prog st1 (SpawnLookup k1 :: steps 2 40) = true /\
  lookup_all sro1 (commit_R acts []) k1 = [2%N].
Proof. vm_compute. repeat split; reflexivity. Qed.
