(* C18 -- view derivers: whatever add_view_deriver calls are made (any names, stock
   derivers replaced, hints as names, sentinels or iterables of alternatives), a
   successfully sorted pipeline has every other deriver OUTSIDE mapped_view: the user's
   callable is innermost. *)
From Coq Require Import List NArith ZArith Bool Lia Permutation.
Import ListNotations.
Require Import Verif.Lib.Wire Verif.Model.C18_base Verif.Gen.Facts_C18 Verif.Model.C18.
Require Import Verif.Proofs.C18_kahn Verif.Proofs.C18_build Verif.Proofs.C18 Verif.Proofs.C18_rep.

Definition t_mapped : node := dv_forced_over.

(* ---------- membership through as_sorted_tuple *)
Lemma In_insert_sorted y x l : In y (insert_sorted x l) <-> y = x \/ In y l.
Proof.
  induction l as [|z l IH]; simpl; [intuition congruence|].
  destruct (text_leb z x); simpl; [rewrite IH|]; intuition congruence.
Qed.

Lemma In_sort_texts y l : In y (sort_texts l) <-> In y l.
Proof.
  unfold sort_texts.
  enough (H : forall acc, In y (fold_left (fun acc x => insert_sorted x acc) l acc) <-> In y acc \/ In y l).
  { rewrite H. simpl. tauto. }
  induction l as [|x l IH]; intros acc; simpl; [tauto|].
  rewrite IH, In_insert_sorted. intuition congruence.
Qed.

(* ---------- the invariant of deriver declarations *)
Definition dv_inv_decl (d : decl) : bool :=
  text_eqb (dname d) t_mapped ||
  match dbefore d with
  | Some l => negb (mem_text dv_ingress l) && (negb (mem_text dv_view l) || mem_text t_mapped l)
  | None => false
  end.
Definition dv_inv (ds : list decl) : bool := forallb dv_inv_decl ds && mem_text t_mapped (dnames ds).

Lemma deriver_args_inv n v u o a b :
  deriver_hints n u o = inr (a, b) -> dv_inv_decl (mkDecl n v (Some a) (Some b)) = true.
Proof.
  unfold deriver_hints, dv_inv_decl, t_mapped. cbn [dname dbefore].
  assert (Eim : text_eqb dv_ingress dv_forced_over = false) by reflexivity.
  destruct (text_eqb n dv_ingress || text_eqb n dv_view); [discriminate|].
  set (over0 := as_sorted_tuple match o with HNone => HOne dv_default_over | _ => o end).
  set (under0 := as_sorted_tuple match u with HNone => HOne dv_default_under | _ => u end).
  destruct (mem_text dv_ingress over0) eqn:Ei; [discriminate|].
  destruct (mem_text dv_view under0); [discriminate|].
  destruct (mem_text dv_forced_over under0); [discriminate|].
  intros H. injection H as _ <-.
  destruct (text_eqb n dv_forced_over) eqn:En; [reflexivity|]. cbn [orb negb andb].
  destruct (mem_text dv_view over0) eqn:Ev; cbn [andb].
  - assert (H1 : mem_text dv_ingress (sort_texts (over0 ++ [dv_forced_over])) = false).
    { apply mem_text_false. rewrite In_sort_texts, in_app_iff. simpl.
      apply mem_text_false in Ei. apply text_eqb_neq in Eim. intuition congruence. }
    assert (H2 : mem_text dv_forced_over (sort_texts (over0 ++ [dv_forced_over])) = true).
    { apply mem_text_In. rewrite In_sort_texts, in_app_iff. simpl. auto. }
    rewrite H1, H2. cbn. rewrite orb_true_r. reflexivity.
  - rewrite Ei, Ev. reflexivity.
Qed.

Lemma forallb_spec_remove n ds : forallb dv_inv_decl ds = true -> forallb dv_inv_decl (spec_remove n ds) = true.
Proof.
  unfold spec_remove. rewrite !forallb_forall. intros H d Hd. apply filter_In in Hd. apply H. tauto.
Qed.

Lemma dv_inv_add n v a b ds :
  dv_inv ds = true -> dv_inv_decl (mkDecl n v (Some a) (Some b)) = true ->
  dv_inv (spec_add cfg_derivers n v (HMany a) (HMany b) ds) = true.
Proof.
  unfold dv_inv. rewrite !andb_true_iff. intros (Hall & Hm) Hd.
  assert (E : spec_add cfg_derivers n v (HMany a) (HMany b) ds = spec_remove n ds ++ [mkDecl n v (Some a) (Some b)]).
  { unfold spec_add, cfg_derivers, cfg_of_raw. destruct cfg_derivers_raw as [[[db da] f] l]. reflexivity. }
  rewrite E. split.
  - rewrite forallb_app. rewrite forallb_spec_remove by exact Hall. simpl. rewrite Hd. reflexivity.
  - apply mem_text_In. unfold dnames. rewrite map_app, in_app_iff. simpl.
    destruct (text_eqb_spec n t_mapped) as [->|Hne]; [auto|]. left.
    apply mem_text_In in Hm. unfold dnames in Hm. apply in_map_iff in Hm. destruct Hm as (d & Hdn & Hin).
    apply in_map_iff. exists d. split; [exact Hdn|]. unfold spec_remove. apply filter_In. split; [exact Hin|].
    apply negb_true_iff. apply text_eqb_neq. congruence.
Qed.

(* the declarations of a deriver scenario keep the invariant *)
Lemma dv_inv_ops l : forall ds, dv_inv ds = true ->
  dv_inv (fold_left (spec_op cfg_derivers) (flat_map deriver_op l) ds) = true.
Proof.
  induction l as [|[[[n f] u] o] l IH]; intros ds H; simpl; [exact H|].
  rewrite fold_left_app. apply IH. unfold deriver_op.
  destruct (deriver_hints n u o) as [c|[a b]] eqn:E; simpl; [exact H|].
  apply dv_inv_add; [exact H|]. eapply deriver_args_inv. exact E.
Qed.

Lemma dv_inv_scenario adds : dv_inv (decls_of cfg_derivers (deriver_ops adds)) = true.
Proof.
  unfold decls_of, deriver_ops. rewrite fold_left_app. apply dv_inv_ops.
  (* the stock declarations (regenerated facts) satisfy the invariant *)
  vm_compute. reflexivity.
Qed.

(* ---------- positions *)
Lemma precedes_after p n q b : ~ In n p -> In b q -> precedes (p ++ n :: q) n b = true.
Proof.
  induction p as [|x p IH]; intros Hn Hb; simpl.
  - rewrite text_eqb_refl. apply mem_text_In. exact Hb.
  - destruct (text_eqb_spec x n) as [->|Hne]; [exfalso; apply Hn; left; reflexivity|].
    apply IH; [|exact Hb]. intros H. apply Hn. right. exact H.
Qed.

Lemma precedes_split p n q x : NoDup (p ++ n :: q) -> precedes (p ++ n :: q) n x = true -> In x q.
Proof.
  induction p as [|y p IH]; simpl; intros Hnd H.
  - rewrite text_eqb_refl in H. apply mem_text_In. exact H.
  - inversion Hnd as [|? ? Hnot Hnd']; subst.
    destruct (text_eqb_spec y n) as [->|Hne].
    + exfalso. apply Hnot. apply in_or_app. right. left. reflexivity.
    + apply IH; assumption.
Qed.

(* ---------- the theorem on any state representing such declarations *)
Lemma mapped_innermost_rep s ds l :
  Rep cfg_derivers s ds -> dv_inv ds = true -> sorted s = Sorted l ->
  mapped_innermost (map fst l) = true.
Proof.
  intros R Hinv E.
  unfold dv_inv in Hinv. apply andb_true_iff in Hinv. destruct Hinv as (Hall & Hm).
  apply mem_text_In in Hm. rewrite forallb_forall in Hall.
  assert (Hnd : NoDup (names s)) by (rewrite (r_names _ _ _ R); apply (r_nodup _ _ _ R)).
  destruct (sorted_perm_state s l E Hnd) as (Hperm & _).
  set (ns := map fst l) in *.
  assert (Hns_nd : NoDup ns) by (eapply Permutation_NoDup; [apply Permutation_sym; exact Hperm|exact Hnd]).
  assert (Hns : forall x, In x ns <-> In x (dnames ds)).
  { intros x. rewrite <- (r_names _ _ _ R). split; apply Permutation_in; [|apply Permutation_sym]; exact Hperm. }
  destruct (sorted_respects_state s l E) as (_ & _ & _ & _ & _ & Hresp). fold ns in Hresp.
  pose proof (sorted_state s) as HS. rewrite E in HS. cbn [sorted_post] in HS. destruct HS as (Hmb & _).
  (* every non-mapped deriver has a present alternative in its `before`, and precedes it *)
  assert (Hstep : forall n, In n ns -> n <> t_mapped ->
            precedes ns n t_mapped = true \/ exists x, In x ns /\ x <> n /\ precedes ns n x = true).
  { intros n Hn Hne. apply Hns in Hn. unfold dnames in Hn. apply in_map_iff in Hn. destruct Hn as (d & Hdn & Hd).
    pose proof (Hall d Hd) as Hi. unfold dv_inv_decl in Hi. rewrite Hdn in Hi.
    apply text_eqb_neq in Hne as Hne'. rewrite Hne' in Hi. cbn [orb] in Hi.
    destruct (dbefore d) as [lb|] eqn:Eb; [|discriminate].
    apply andb_true_iff in Hi. destruct Hi as (Hni & Hvm). apply negb_true_iff, mem_text_false in Hni.
    (* not unsatisfied *)
    assert (Hsat : existsb (fun a => mem_text a (spec_nodes cfg_derivers ds)) lb = true).
    { destruct (existsb (fun a => mem_text a (spec_nodes cfg_derivers ds)) lb) eqn:Ex; [reflexivity|].
      exfalso. assert (Hu : In n (unsat_before cfg_derivers ds)).
      { unfold unsat_before, dnames. apply in_map_iff. exists d. split; [exact Hdn|]. apply filter_In.
        split; [exact Hd|]. rewrite Eb. unfold unsat. rewrite Ex. reflexivity. }
      apply (rep_miss_before _ _ _ R) in Hu. rewrite Hmb in Hu. exact Hu. }
    apply existsb_exists in Hsat. destruct Hsat as (x & Hx & Hpres). apply mem_text_In in Hpres.
    assert (Harc : forall y, In y lb -> In y (dnames ds) -> precedes ns n y = true).
    { intros y Hy Hyn. apply Hresp.
      - eapply Permutation_in; [apply Permutation_sym; apply (r_order _ _ _ R)|].
        apply in_flat_map. exists d. split; [exact Hd|]. unfold decl_arcs. apply in_or_app. right.
        rewrite Eb, Hdn. apply in_map_iff. exists y. split; [reflexivity|exact Hy].
      - rewrite (r_names _ _ _ R). unfold dnames. apply in_map_iff. exists d. split; assumption.
      - rewrite (r_names _ _ _ R). exact Hyn. }
    assert (Hnodes : spec_nodes cfg_derivers ds = dv_ingress :: dv_view :: dnames ds).
    { unfold spec_nodes, cfg_first, cfg_last, cfg_derivers, cfg_of_raw.
      assert (Ec : cfg_derivers_raw = (None, Some dv_ingress, dv_ingress, dv_view)) by reflexivity.
      rewrite Ec. reflexivity. }
    rewrite Hnodes in Hpres. destruct Hpres as [<-|[<-|Hxn]].
    - contradiction.
    - (* VIEW is the present alternative: mapped_view is one too *)
      left. apply Harc; [|exact Hm]. apply mem_text_In in Hx. rewrite Hx in Hvm. cbn in Hvm.
      apply mem_text_In. exact Hvm.
    - destruct (text_eqb_spec x t_mapped) as [->|Hxm]; [left; apply Harc; assumption|].
      right. exists x. split; [apply Hns; exact Hxn|]. split; [|apply Harc; assumption].
      intros ->. pose proof (Harc n Hx Hxn) as Hc. rewrite precedes_irrefl in Hc by exact Hns_nd. discriminate. }
  (* walk towards the end of the list *)
  assert (Hwalk : forall k q, (length q <= k)%nat -> forall p n, ns = p ++ n :: q -> n <> t_mapped -> In t_mapped q).
  { induction k as [|k IH]; intros q Hlen p n Hsplit Hne.
    - destruct q; [|simpl in Hlen; lia].
      assert (Hn : In n ns) by (rewrite Hsplit; apply in_or_app; right; left; reflexivity).
      destruct (Hstep n Hn Hne) as [Hp|(x & _ & _ & Hp)];
        rewrite Hsplit in Hp; apply precedes_split in Hp; try (rewrite <- Hsplit; exact Hns_nd); destruct Hp.
    - assert (Hn : In n ns) by (rewrite Hsplit; apply in_or_app; right; left; reflexivity).
      destruct (Hstep n Hn Hne) as [Hp|(x & Hx & Hxn & Hp)].
      + rewrite Hsplit in Hp. apply precedes_split in Hp; [exact Hp|rewrite <- Hsplit; exact Hns_nd].
      + rewrite Hsplit in Hp. apply precedes_split in Hp; [|rewrite <- Hsplit; exact Hns_nd].
        destruct (text_eqb_spec x t_mapped) as [->|Hxm]; [exact Hp|].
        apply in_split in Hp. destruct Hp as (q1 & q2 & ->).
        apply in_or_app. right. right.
        apply (IH q2) with (p := p ++ n :: q1) (n := x).
        * rewrite app_length in Hlen. simpl in Hlen. lia.
        * rewrite Hsplit. rewrite <- app_assoc. reflexivity.
        * exact Hxm. }
  unfold mapped_innermost. apply forallb_forall. intros n Hn.
  destruct (text_eqb_spec n dv_forced_over) as [->|Hne]; [reflexivity|]. cbn [orb].
  apply in_split in Hn. destruct Hn as (p & q & Hsplit).
  assert (Hq : In t_mapped q) by (apply (Hwalk (length q) q (le_n _) p n Hsplit Hne)).
  rewrite Hsplit. apply precedes_after; [|exact Hq].
  intros Hp. rewrite Hsplit in Hns_nd. apply NoDup_remove_2 in Hns_nd. apply Hns_nd. apply in_or_app. left. exact Hp.
Qed.

(* ---------- the sorter of a deriver scenario represents its declarations *)
Lemma deriver_add_op n f u o s :
  match deriver_add n f u o s with
  | inr s' => s' = final_state s (deriver_op (n, f, u, o))
  | inl _ => deriver_op (n, f, u, o) = []
  end.
Proof.
  (* the code's keyword mapping (regenerated fact) is the property's reading: after = under, before = over *)
  assert (Ef : dv_after_is_under = true) by reflexivity.
  unfold deriver_add, deriver_args, deriver_op. rewrite Ef. destruct (deriver_hints n u o) as [c|[a b]]; reflexivity.
Qed.

Lemma derivers_scenario_ops adds :
  fst (derivers_scenario adds) = final_state (new_sorter cfg_derivers) (deriver_ops adds).
Proof.
  unfold derivers_scenario, deriver_ops. rewrite final_state_app.
  assert (E0 : default_derivers = final_state (new_sorter cfg_derivers)
            (flat_map (fun d => let '(n, u, o) := d in deriver_op (n, 0%N, hint_of_fact u, hint_of_fact o)) dv_default_decls)).
  { unfold default_derivers. generalize (new_sorter cfg_derivers).
    induction dv_default_decls as [|[[n u] o] l IH]; intros s; cbn [fold_left flat_map]; [reflexivity|].
    rewrite final_state_app. pose proof (deriver_add_op n 0%N (hint_of_fact u) (hint_of_fact o) s) as H.
    destruct (deriver_add n 0%N (hint_of_fact u) (hint_of_fact o) s) as [c|s'].
    - rewrite H. apply IH.
    - rewrite H. apply IH. }
  rewrite <- E0. generalize default_derivers. generalize (@nil N).
  induction adds as [|[[[n f] u] o] adds IH]; intros codes s; cbn [fold_left flat_map]; [reflexivity|].
  rewrite final_state_app. pose proof (deriver_add_op n f u o s) as H.
  unfold deriver_step at 2. destruct (deriver_add n f u o s) as [c|s'].
  - rewrite H. apply IH.
  - rewrite H. apply IH.
Qed.

Theorem derivers_mapped_innermost adds l :
  sorted (fst (derivers_scenario adds)) = Sorted l -> mapped_innermost (map fst l) = true.
Proof.
  intros E. rewrite derivers_scenario_ops in E.
  eapply mapped_innermost_rep; [apply Rep_reachable|apply dv_inv_scenario|exact E].
Qed.
