(* C04 proofs, part 2: a commit in which no action declares further actions
   is the generator-free recursion [run_groups] over the order groups
   (or stops in Crash, which part 4 excludes). *)
From Coq Require Import List NArith ZArith Bool Lia Permutation.
Import ListNotations.
Require Import Verif.Lib.Wire Verif.Lib.C04Sort Verif.Gen.Facts_C04 Verif.Model.C04.

Definition flush_res (res : list (option N * ainfo)) (out : list ainfo) : list (option N * ainfo) :=
  fold_left (fun r x => (D (snd x), x) :: r) out res.
Definition flush_mo (mo : option Z) (out : list ainfo) : option Z :=
  fold_left (fun _ x => aord (snd x)) out mo.
Definition runs (out : list ainfo) : list event := map (fun x => Run (aid (snd x))) out.

Definition group_output (cfg : params) (res : list (option N * ainfo)) (grp : list ainfo) : list ainfo * list (N * list N) :=
  let fg := forced_group grp in
  let '(firsts, K) := detect cfg res (sort_unique_lists (build_unique fg)) in
  (sort (leb_by output_key) (none_output fg ++ firsts), K).

Fixpoint run_groups (cfg : params) (res : list (option N * ainfo)) (mo : option Z) (groups : list (Z * list ainfo))
  : outcome * list event :=
  match groups with
  | [] => (Done, [])
  | (order, grp) :: gs =>
      if late mo order then (Late order (match mo with Some m => m | None => 0%Z end), [])
      else
        let '(out, K) := group_output cfg res grp in
        match K with
        | _ :: _ => (Conflict K, force_events grp)
        | [] => let '(o, lg) := run_groups cfg (flush_res res out) (flush_mo mo out) gs in
                (o, force_events grp ++ runs out ++ lg)
        end
  end.

(* ---------- every element of the output of a group is a forced element of the group *)
Definition ulists_all (P : ainfo -> Prop) (u : list (N * list ainfo)) : Prop :=
  forall d l, In (d, l) u -> Forall P l.

Lemma uadd_all (P : ainfo -> Prop) d x u : P x -> ulists_all P u -> ulists_all P (uadd d x u).
Proof.
  intros Px. induction u as [|[d' l] r IH]; intros Hu d0 l0; simpl.
  - intros [E|[]]. inversion E; subst. repeat constructor. exact Px.
  - destruct (N.eqb d d').
    + intros [E|Hin].
      * inversion E; subst. apply Forall_app. split; [apply (Hu d0 l); left; reflexivity|repeat constructor; exact Px].
      * apply (Hu d0 l0). right. exact Hin.
    + intros [E|Hin].
      * inversion E; subst. apply (Hu d0 l0). left. reflexivity.
      * apply IH with (d := d0); [|exact Hin]. intros d1 l1 H1. apply (Hu d1 l1). right. exact H1.
Qed.

Lemma build_unique_all (P : ainfo -> Prop) fg : Forall P fg -> ulists_all P (build_unique fg).
Proof.
  unfold build_unique. intros H.
  assert (G : forall u, ulists_all P u ->
            ulists_all P (fold_left (fun u x => match D (snd x) with Some d => uadd d x u | None => u end) fg u)).
  { induction H as [|x r Px _ IH]; intros u Hu; simpl; [exact Hu|].
    apply IH. destruct (D (snd x)); [apply uadd_all; assumption|exact Hu]. }
  apply G. intros d l [].
Qed.

Lemma sort_unique_lists_all (P : ainfo -> Prop) u : ulists_all P u -> ulists_all P (sort_unique_lists u).
Proof.
  intros Hu d l Hin. unfold sort_unique_lists in Hin. apply in_map_iff in Hin.
  destruct Hin as [[d' l'] [E Hin]]. simpl in E. inversion E; subst.
  specialize (Hu _ _ Hin). rewrite Forall_forall in *. intros y Hy. apply Hu. apply sort_In in Hy. exact Hy.
Qed.

Lemma detect1_firsts_all (P : ainfo -> Prop) cfg res d l : Forall P l -> Forall P (fst (detect1 cfg res d l)).
Proof.
  intros H. unfold detect1. destruct l as [|first rest]; [constructor|].
  inversion H as [|? ? Pf _]; subst.
  destruct (lookup d res) as [[i pa]|].
  - destruct (prev_all cfg).
    + destruct (offenders pa (first :: rest)); constructor.
    + destruct (conflicting (apath pa) (apath (snd first))); destruct (offenders (snd first) rest); constructor.
  - destruct (offenders (snd first) rest); repeat constructor; exact Pf.
Qed.

Lemma detect_firsts_all (P : ainfo -> Prop) cfg res us : ulists_all P us -> Forall P (fst (detect cfg res us)).
Proof.
  induction us as [|[d l] r IH]; intros Hu; simpl; [constructor|].
  pose proof (detect1_firsts_all P cfg res d l (Hu d l (or_introl eq_refl))) as H1.
  destruct (detect1 cfg res d l) as [o1 c1]. destruct (detect cfg res r) as [o2 c2] eqn:E2. simpl in *.
  apply Forall_app. split; [exact H1|]. apply IH. intros d' l' H'. apply (Hu d' l'). right. exact H'.
Qed.

Lemma group_output_all (P : ainfo -> Prop) cfg res grp :
  Forall P (forced_group grp) -> Forall P (fst (group_output cfg res grp)).
Proof.
  intros H. unfold group_output.
  pose proof (detect_firsts_all P cfg res _ (sort_unique_lists_all P _ (build_unique_all P _ H))) as HF.
  destruct (detect cfg res (sort_unique_lists (build_unique (forced_group grp)))) as [firsts K]. simpl in *.
  rewrite Forall_forall in *. intros y Hy. apply sort_In in Hy. apply in_app_or in Hy. destruct Hy as [Hy|Hy].
  - apply H. unfold none_output in Hy. apply filter_In in Hy. tauto.
  - apply HF. exact Hy.
Qed.

Definition flat_info (x : ainfo) : Prop := aadds (snd x) = [].

Lemma forced_group_flat grp : Forall flat_info grp -> Forall flat_info (forced_group grp).
Proof.
  unfold forced_group. intros H. rewrite Forall_forall in *. intros y Hy. apply in_map_iff in Hy.
  destruct Hy as [x [<- Hx]]. unfold flat_info. simpl. apply (H x Hx).
Qed.

(* ---------- next_group against run_groups *)
Lemma run_groups_cons cfg res mo order grp gs :
  run_groups cfg res mo ((order, grp) :: gs) =
  if late mo order then (Late order (match mo with Some m => m | None => 0%Z end), [])
  else let out := fst (group_output cfg res grp) in
       match snd (group_output cfg res grp) with
       | _ :: _ => (Conflict (snd (group_output cfg res grp)), force_events grp)
       | [] => let R := run_groups cfg (flush_res res out) (flush_mo mo out) gs in
               (fst R, force_events grp ++ runs out ++ snd R)
       end.
Proof.
  cbn [run_groups]. destruct (late mo order); [reflexivity|].
  destruct (group_output cfg res grp) as [out K]. simpl. destruct K; [|reflexivity].
  destruct (run_groups cfg (flush_res res out) (flush_mo mo out) gs). reflexivity.
Qed.

Lemma flush_res_cons res x rest : flush_res res (x :: rest) = flush_res ((D (snd x), x) :: res) rest.
Proof. reflexivity. Qed.
Lemma flush_mo_cons mo x rest : flush_mo mo (x :: rest) = flush_mo (aord (snd x)) rest.
Proof. reflexivity. Qed.

Lemma next_group_run cfg : forall gs st evs,
  Forall flat_info (concat (map snd gs)) ->
  match next_group cfg st gs evs with
  | SStop o e _ => o = Crash \/ exists e', run_groups cfg (resolved st) (min_order st) gs = (o, e') /\ e = evs ++ e'
  | SYield a st' g' e =>
      exists x rest e',
        a = snd x /\ g_out g' = rest /\ resolved st' = (D (snd x), x) :: resolved st /\ min_order st' = aord (snd x)
        /\ e = evs ++ e' /\ Forall flat_info ((x :: rest) ++ concat (map snd (g_groups g')))
        /\ run_groups cfg (resolved st) (min_order st) gs =
           (let R := run_groups cfg (flush_res (resolved st) (x :: rest)) (flush_mo (min_order st) (x :: rest)) (g_groups g') in
            (fst R, e' ++ runs (x :: rest) ++ snd R))
  end.
Proof.
  induction gs as [|[order grp] gs IH]; intros st evs Hflat.
  - simpl. right. exists []. rewrite app_nil_r. split; reflexivity.
  - rewrite run_groups_cons. cbn [next_group].
    simpl map in Hflat. simpl concat in Hflat. apply Forall_app in Hflat. destruct Hflat as [Hg Hgs].
    destruct (late (min_order st) order) eqn:EL.
    { right. exists []. rewrite app_nil_r. split; reflexivity. }
    pose proof (group_output_all flat_info cfg (resolved st) grp (forced_group_flat _ Hg)) as Hout.
    unfold group_output in *.
    destruct (detect cfg (resolved st) (sort_unique_lists (build_unique (forced_group grp)))) as [firsts K].
    cbn [fst snd] in *.
    destruct K as [|k K'].
    2:{ right. exists (force_events grp). split; reflexivity. }
    match goal with |- context [match ?X with Some _ => _ | None => _ end] => destruct X as [rem2|] end.
    2:{ left. reflexivity. }
    set (st2 := {| resolved := resolved st; remaining := rem2; min_order := min_order st; start := start st |}).
    destruct (sort (leb_by output_key) (none_output (forced_group grp) ++ firsts)) as [|x rest] eqn:ES.
    + specialize (IH st2 (evs ++ force_events grp) Hgs).
      destruct (next_group cfg st2 gs (evs ++ force_events grp)) as [a st' g' e|o e st'].
      * destruct IH as (x & rest & e' & Ha & Hgo & Hres & Hmo & He & Hfl & Hrun).
        exists x, rest, (force_events grp ++ e'). cbn [st2 resolved min_order] in Hres, Hmo, Hrun.
        repeat split; try assumption.
        { rewrite He, app_assoc. reflexivity. }
        { cbv zeta. change (flush_res (resolved st) []) with (resolved st).
          change (flush_mo (min_order st) []) with (min_order st). rewrite Hrun. cbn [fst snd].
          change (runs []) with (@nil event). cbn [app]. rewrite <- app_assoc. reflexivity. }
      * destruct IH as [->|[e' [Hrun He]]]; [left; reflexivity|]. right.
        cbn [st2 resolved min_order] in Hrun. cbv zeta. change (flush_res (resolved st) []) with (resolved st).
        change (flush_mo (min_order st) []) with (min_order st). rewrite Hrun. cbn [fst snd]. change (runs []) with (@nil event). cbn [app].
        exists (force_events grp ++ e'). split; [reflexivity|]. rewrite He, app_assoc. reflexivity.
    + unfold yield_first. destruct (remove_aid (aid (snd x)) (remaining st2)) as [rem3|].
      2:{ left. reflexivity. }
      exists x, rest, (force_events grp). cbn [g_out g_groups resolved min_order st2].
      repeat split; try reflexivity.
      apply Forall_app. split; assumption.
Qed.

(* ---------- the loop of execute_actions when nothing is declared during execution *)
Lemma exec_flat cfg : forall fuel st out gs log,
  Forall flat_info (out ++ concat (map snd gs)) ->
  let r := exec cfg fuel st {| g_out := out; g_groups := gs |} [] log in
  fst r = Crash \/ fst r = OutOfFuel \/
  r = (let R := run_groups cfg (flush_res (resolved st) out) (flush_mo (min_order st) out) gs in
       (fst R, log ++ runs out ++ snd R)).
Proof.
  induction fuel as [|f IH]; intros st out gs log Hflat r; subst r.
  - right. left. reflexivity.
  - cbn [exec]. unfold gen_next. cbn [g_out g_groups].
    destruct out as [|x rest].
    + simpl in Hflat. pose proof (next_group_run cfg gs st [] Hflat) as H.
      destruct (next_group cfg st gs []) as [a st' g' e|o e st'].
      * destruct H as (x & rest & e' & -> & Hgo & Hres & Hmo & -> & Hfl & Hrun).
        destruct g' as [out' gs']. cbn [g_out g_groups] in *. subst out'.
        assert (Hx : aadds (snd x) = []) by (inversion Hfl; assumption).
        rewrite Hx. inversion Hfl as [|? ? _ Hfl']; subst.
        specialize (IH st' rest gs' (log ++ ([] ++ e') ++ [Run (aid (snd x))]) Hfl').
        cbv zeta in IH. destruct IH as [IH|[IH|IH]]; [left; exact IH|right; left; exact IH|].
        right. right. rewrite IH. cbv zeta. change (flush_res (resolved st) []) with (resolved st).
        change (flush_mo (min_order st) []) with (min_order st).
        rewrite Hrun, Hres, Hmo. rewrite flush_res_cons, flush_mo_cons. cbn [fst snd].
        change (runs []) with (@nil event). change (runs (x :: rest)) with (Run (aid (snd x)) :: runs rest).
        f_equal. cbn [app]. rewrite <- !app_assoc. reflexivity.
      * destruct H as [->|[e' [Hrun He]]]; [left; reflexivity|].
        right. right. cbv zeta. change (flush_res (resolved st) []) with (resolved st).
        change (flush_mo (min_order st) []) with (min_order st). rewrite Hrun. subst e. reflexivity.
    + unfold yield_first. destruct (remove_aid (aid (snd x)) (remaining st)) as [rem|]; [|left; reflexivity].
      inversion Hflat as [|? ? Hx Hfl']; subst. unfold flat_info in Hx. rewrite Hx.
      match goal with |- context [exec cfg f ?S ?G [] ?L] => specialize (IH S rest gs L Hfl') end.
      cbv zeta in IH. cbn [resolved min_order] in IH.
      destruct IH as [IH|[IH|IH]]; [left; exact IH|right; left; exact IH|].
      right. right. rewrite IH. cbv zeta. rewrite flush_res_cons, flush_mo_cons. cbn [fst snd].
      change (runs (x :: rest)) with (Run (aid (snd x)) :: runs rest).
      f_equal. cbn [app]. rewrite <- !app_assoc. reflexivity.
Qed.
