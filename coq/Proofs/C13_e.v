(* C13: one pass of a request object through invoke_request from ANY carried-over state (callback counters,
   response callbacks still pending) satisfies judge_pass; conservation of the response deque; the retried request
   satisfies judge_retry in full *)
From Coq Require Import List NArith ZArith Bool Arith Lia.
Import ListNotations.
Require Import Verif.Lib.Wire Verif.Lib.C13Bracket Verif.Gen.Facts_C13 Verif.Model.C13 Verif.Proofs.C13_b Verif.Proofs.C13_c Verif.Proofs.C13_d.
Local Open Scope N_scope.


Lemma registered_from_nofin b rs X : Forall (fun e => is_pt 18 e = false) X ->
  forall cr cf cf', registered_from b rs cr cf X = registered_from b rs cr cf' X.
Proof.
  induction 1 as [|e X H F IH]; intros cr cf cf'; simpl; [reflexivity|].
  rewrite H. rewrite (IH _ cf cf'). f_equal.
  destruct (N.eqb (e_pt e) P_VIEW && N.eqb (e_aux e) 1); [reflexivity|].
  destruct (is_pt 16 e) eqn:E16; [reflexivity|].
  assert (C : is_cb (e_pt e) = false) by (unfold is_cb; unfold is_pt in E16, H; rewrite E16, H; reflexivity).
  rewrite (regsfor_noncb b rs _ cf C), (regsfor_noncb b rs _ cf' C). reflexivity.
Qed.

Section Shape2.
Variable sc : scn.

Lemma judge_pass_shape (cr cf : N) (left : list N) (Lc Lr Ln Lf : list pev) (rest : list N) :
  Forall (fun e => e_cur e = true) (Lc ++ Lr ++ Ln ++ Lf) ->
  Forall (fun e => is_pt P_RESP_CB e = false /\ is_pt P_NEWRESP e = false /\ is_pt P_FIN_CB e = false) Lc ->
  Forall (fun e => e_pt e = P_RESP_CB) Lr -> Forall (fun e => e_pt e = P_NEWRESP) Ln ->
  Forall (fun e => e_pt e = P_FIN_CB) Lf ->
  left ++ reg0 0 (s_regs sc) Lc ++ registered_from 0 (s_regs sc) cr cf Lr = map e_aux Lr ++ rest ->
  (existsb (is_pt P_OVER_OUT) Lc && negb (has_fault sc P_OVER_OUT) = false -> Lr = [] /\ Ln = []) ->
  (length Ln <= 1)%nat ->
  (existsb (is_pt P_OVER_OUT) Lc && negb (has_fault sc P_OVER_OUT) = true -> has_fault sc P_RESP_CB = false ->
     rest = [] /\ length Ln = 1%nat) ->
  forall restf,
  registered_from 1 (s_regs sc) cr cf (Lc ++ Lr ++ Ln) ++ registered_from 1 (s_regs sc) 0 cf Lf = map e_aux Lf ++ restf ->
  (has_fault sc P_FIN_CB = false -> restf = []) ->
  (restf = [] \/ fin_last_raises sc cf (map e_aux Lf) = true) ->
  judge_pass sc cr cf left (Lc ++ Lr ++ Ln ++ Lf) = true.
Proof.
  intros Hcur Hc Hr Hn Hf Hreg Hno Hn1 Hyes restf Hfin Hfin2 Hfin3.
  assert (Hc16 : Forall (fun e => is_pt P_RESP_CB e = false) Lc) by (eapply Forall_impl; [|exact Hc]; intros e H; apply H).
  assert (Hc17 : Forall (fun e => is_pt P_NEWRESP e = false) Lc) by (eapply Forall_impl; [|exact Hc]; intros e H; apply H).
  assert (Hc18 : Forall (fun e => is_pt P_FIN_CB e = false) Lc) by (eapply Forall_impl; [|exact Hc]; intros e H; apply H).
  assert (F18 : filter (is_pt P_FIN_CB) (Lc ++ Lr ++ Ln ++ Lf) = Lf).
  { rewrite !filter_app, (filter_none _ Lc Hc18), (filter_none _ Lr (pt_is _ P_FIN_CB _ Hr eq_refl)),
      (filter_none _ Ln (pt_is _ P_FIN_CB _ Hn eq_refl)), (filter_all _ Lf (pt_is_t _ _ Hf)). reflexivity. }
  assert (F16 : filter (is_pt P_RESP_CB) (Lc ++ Lr ++ Ln ++ Lf) = Lr).
  { rewrite !filter_app, (filter_none _ Lc Hc16), (filter_all _ Lr (pt_is_t _ _ Hr)),
      (filter_none _ Ln (pt_is _ P_RESP_CB _ Hn eq_refl)), (filter_none _ Lf (pt_is _ P_RESP_CB _ Hf eq_refl)).
    rewrite app_nil_r. reflexivity. }
  assert (F17 : filter (is_pt P_NEWRESP) (Lc ++ Lr ++ Ln ++ Lf) = Ln).
  { rewrite !filter_app, (filter_none _ Lc Hc17), (filter_none _ Lr (pt_is _ P_NEWRESP _ Hr eq_refl)),
      (filter_all _ Ln (pt_is_t _ _ Hn)), (filter_none _ Lf (pt_is _ P_NEWRESP _ Hf eq_refl)).
    rewrite app_nil_r. reflexivity. }
  assert (EX : existsb (is_pt P_OVER_OUT) (Lc ++ Lr ++ Ln ++ Lf) = existsb (is_pt P_OVER_OUT) Lc).
  { rewrite !existsb_app, (existsb_none _ Lr (pt_is _ P_OVER_OUT _ Hr eq_refl)), (existsb_none _ Ln (pt_is _ P_OVER_OUT _ Hn eq_refl)),
      (existsb_none _ Lf (pt_is _ P_OVER_OUT _ Hf eq_refl)). rewrite !orb_false_r. reflexivity. }
  assert (Q78 : forall X, Forall (fun e => e_pt e = P_NEWRESP) X \/ Forall (fun e => e_pt e = P_FIN_CB) X ->
                Forall (fun e => is_pt P_NEWRESP e || is_pt P_FIN_CB e = true) X).
  { intros X [H|H]; eapply Forall_impl; try exact H; intros e E; unfold is_pt; rewrite E; reflexivity. }
  assert (Qnf : Forall (fun e => is_pt P_NEWRESP e || is_pt P_FIN_CB e = true) (Ln ++ Lf))
    by (apply Forall_app; split; apply Q78; auto).
  assert (Qcr : Forall (fun e => is_pt P_NEWRESP e || is_pt P_FIN_CB e = false) (Lc ++ Lr)).
  { apply Forall_app; split.
    - eapply Forall_impl; [|exact Hc]. intros e [_ [H1 H2]]. rewrite H1, H2. reflexivity.
    - eapply Forall_impl; [|exact Hr]. intros e E. unfold is_pt. rewrite E. reflexivity. }
  assert (BF : before_first (fun e => is_pt P_NEWRESP e || is_pt P_FIN_CB e) (Lc ++ Lr ++ Ln ++ Lf) = Lc ++ Lr).
  { rewrite (app_assoc Lc Lr), (before_first_app _ (Lc ++ Lr) (Ln ++ Lf) Qcr), (before_first_sat _ _ Qnf).
    apply app_nil_r. }
  destruct (nocb_of _ Hc) as [Ncb [Z16c Z18c]].
  assert (RR : left ++ registered_from 0 (s_regs sc) cr cf (Lc ++ Lr) = map e_aux Lr ++ rest).
  { rewrite registered_from_app, Z16c, Z18c, !N.add_0_r, (registered_from_nocb _ _ Lc Ncb). exact Hreg. }
  assert (Z18x : cnt 18 (Lc ++ Lr ++ Ln) = 0).
  { unfold cnt. change (is_pt 18) with (is_pt P_FIN_CB).
    rewrite !filter_app, (filter_none _ Lc Hc18), (filter_none _ Lr (pt_is _ P_FIN_CB _ Hr eq_refl)),
      (filter_none _ Ln (pt_is _ P_FIN_CB _ Hn eq_refl)). reflexivity. }
  assert (R1 : registered_from 1 (s_regs sc) cr cf (Lc ++ Lr ++ Ln ++ Lf) =
               registered_from 1 (s_regs sc) cr cf (Lc ++ Lr ++ Ln) ++ registered_from 1 (s_regs sc) 0 cf Lf).
  { rewrite (app_assoc Lr), (app_assoc Lc), registered_from_app, Z18x, N.add_0_r.
    f_equal. apply registered_from_fin. exact Hf. }
  assert (FF1 : from_first (is_pt P_FIN_CB) (is_pt P_FIN_CB) (Lc ++ Lr ++ Ln ++ Lf) = true).
  { rewrite (app_assoc Lr), (app_assoc Lc). rewrite from_first_app.
    - apply from_first_forall. apply pt_is_t. exact Hf.
    - repeat (apply Forall_app; split); auto.
      + apply (pt_is _ P_FIN_CB _ Hr eq_refl).
      + apply (pt_is _ P_FIN_CB _ Hn eq_refl). }
  assert (FF2 : from_first (is_pt P_NEWRESP) (fun e => is_pt P_NEWRESP e || is_pt P_FIN_CB e)
                           (Lc ++ Lr ++ Ln ++ Lf) = true).
  { rewrite (app_assoc Lc Lr). rewrite from_first_app.
    - apply from_first_forall. exact Qnf.
    - apply Forall_app; split; [exact Hc17|apply (pt_is _ P_NEWRESP _ Hr eq_refl)]. }
  unfold judge_pass, fin_clause. cbv zeta. rewrite F18, F16, F17, EX, BF, RR, R1, FF1, FF2.
  assert (C1 : cur_clause (Lc ++ Lr ++ Ln ++ Lf) = true).
  { apply forallb_forall. rewrite Forall_forall in Hcur. intros e I. rewrite (Hcur _ I). apply orb_true_r. }
  rewrite C1. cbn [andb].
  rewrite Hfin.
  assert (C2 : (if has_fault sc P_FIN_CB
                then is_prefix (map e_aux Lf) (map e_aux Lf ++ restf) &&
                     (list_eqb (map e_aux Lf) (map e_aux Lf ++ restf) || fin_last_raises sc cf (map e_aux Lf))
                else list_eqb (map e_aux Lf) (map e_aux Lf ++ restf)) = true).
  { destruct (has_fault sc P_FIN_CB) eqn:HF.
    - rewrite is_prefix_app. cbn [andb]. destruct Hfin3 as [-> | ->]; [rewrite app_nil_r, list_eqb_refl; reflexivity|apply orb_true_r].
    - rewrite (Hfin2 eq_refl), app_nil_r, list_eqb_refl. reflexivity. }
  rewrite C2. cbn [andb].
  destruct (existsb (is_pt P_OVER_OUT) Lc && negb (has_fault sc P_OVER_OUT)) eqn:CO.
  - destruct (has_fault sc P_RESP_CB) eqn:HR.
    + rewrite is_prefix_app. apply Nat.leb_le in Hn1. rewrite Hn1. reflexivity.
    + destruct (Hyes eq_refl eq_refl) as [-> HL]. rewrite app_nil_r, list_eqb_refl, HL. reflexivity.
  - destruct (Hno eq_refl) as [-> ->]. reflexivity.
Qed.
End Shape2.

Lemma existsb_ext_own p (X : list pev) : Forall (fun e => e_lvl e = 0) X ->
  existsb (ownp 0 p) X = existsb (is_pt p) X.
Proof.
  induction 1 as [|e X H F IH]; simpl; [reflexivity|]. rewrite IH. unfold ownp. rewrite H. reflexivity.
Qed.

Section Pass.
Variable sc : scn.
Hypothesis V : valid_level sc = true.

Lemma no_sub : forall sr, @None M = Some sr -> pres (Rsub 0 never) sr.
Proof. intros sr X; discriminate X. Qed.

(* one pass from ANY carried-over state whose finished deque is empty *)
Theorem pass_judged (ev : N) st st' r :
  fq st = [] ->
  invoke_request ev 0 sc true None st = (st', r) ->
  exists new, log st' = log st ++ new /\ Forall (fun e => e_lvl e = 0) new /\
    (Forall (fun e => e_cur e = true) new -> judge_pass sc (nr st) (nf st) (rq st) new = true).
Proof.
  intros Hfq E. unfold invoke_request, finally in E.
  destruct (invoke_body ev 0 sc true None st) as [st_m r_m] eqn:Eb.
  unfold invoke_body, bind in Eb.
  destruct (invoke_chain ev 0 sc true None st) as [st_c rc] eqn:Ec.
  destruct (pres_chain 0 sc never None no_sub ev true _ _ _ Ec) as [nc [Lc [Fc [Rq [Fq [NRc [NFc Sc]]]]]]].
  destruct (LP_chain 0 sc V never None no_sub ev true _ _ _ Ec) as [nc' [Lc' CO]].
  assert (nc' = nc) by (rewrite Lc in Lc'; apply app_inv_head in Lc'; auto). subst nc'.
  rewrite Hfq in Fq. simpl in Fq.
  assert (AC : match rc with
               | Ok v => seq (resp_loop 0 sc) (seq (hit0 0 sc P_NEWRESP) (ret v)) st_c = (st_m, r_m)
               | Ex k => (st_c, Ex k) = (st_m, r_m) end) by (destruct rc; exact Eb).
  destruct (after_chain 0 sc V rc st_c st_m r_m AC) as [Lr [Ln [rest [Lm [Fr [Fn [Hn1 [Qc [Fm [NFm [Hno Hyes]]]]]]]]]]].
  rewrite NRc in Qc, Fm. rewrite NFc in NFm.
  unfold fin_loop in E.
  match type of E with context [fin_cbs ?fu 0 sc st_m] => destruct (fin_cbs fu 0 sc st_m) as [st_f r_f] eqn:Ef end.
  destruct (fin_spec 0 sc V _ _ _ _ (Nat.lt_succ_diag_r _) Ef) as [Lf [restf [B1 [B2 [B3 B5]]]]].
  rewrite NFm in B1.
  assert (st' = st_f) as -> by (destruct r_f; injection E as <- _; reflexivity).
  assert (Or : Forall (fun e => e_lvl e = 0) Lr) by (eapply Forall_impl; [|exact Fr]; intros e H; apply H).
  assert (On : Forall (fun e => e_lvl e = 0) Ln) by (eapply Forall_impl; [|exact Fn]; intros e H; apply H).
  assert (Of : Forall (fun e => e_lvl e = 0) Lf) by (eapply Forall_impl; [|exact B3]; intros e H; apply H).
  assert (Oc : Forall (fun e => e_lvl e = 0) nc).
  { destruct Sc as [S|S]; [|contradiction].
    rewrite Forall_forall in *. intros e I. destruct (Fc _ I) as [[H _]|H]; [exact H|exfalso].
    assert (In e (ge_log (0 + 1) nc)) as X by (unfold ge_log; apply filter_In; split; [exact I|apply N.leb_le; exact H]).
    rewrite S in X. exact X. }
  destruct (own_all 0 nc Oc) as [Oc1 _].
  assert (HcL : Forall (fun e => is_pt P_RESP_CB e = false /\ is_pt P_NEWRESP e = false /\ is_pt P_FIN_CB e = false) nc).
  { rewrite Forall_forall in Fc |- *. intros e I. destruct (Fc _ I) as [[_ HA]|HL].
    - unfold A16 in HA. apply negb_true_iff in HA. unfold is_pt. simpl in HA.
      apply orb_false_iff in HA. destruct HA as [H1 HA]. apply orb_false_iff in HA. destruct HA as [H2 HA].
      apply orb_false_iff in HA. destruct HA as [H3 _]. auto.
    - rewrite Forall_forall in Oc. rewrite (Oc _ I) in HL. lia. }
  destruct (nocb_of _ HcL) as [Ncb [Z16 Z18]].
  assert (Nofin : Forall (fun e => is_pt 18 e = false) (Lr ++ Ln)).
  { apply Forall_app; split.
    - eapply Forall_impl; [|exact Fr]. intros e [H _]. unfold is_pt. rewrite H. reflexivity.
    - eapply Forall_impl; [|exact Fn]. intros e [H _]. unfold is_pt. rewrite H. reflexivity. }
  exists (nc ++ Lr ++ Ln ++ Lf). split; [|split].
  - rewrite B2, Lm, Lc, <- !app_assoc. reflexivity.
  - repeat (apply Forall_app; split); assumption.
  - intros Hcur.
    apply (judge_pass_shape sc (nr st) (nf st) (rq st) nc Lr Ln Lf rest) with (restf := restf).
    + exact Hcur.
    + exact HcL.
    + eapply Forall_impl; [|exact Fr]. intros e H; apply H.
    + eapply Forall_impl; [|exact Fn]. intros e H; apply H.
    + eapply Forall_impl; [|exact B3]. intros e H; apply H.
    + rewrite (registered_from_resp 0 (s_regs sc) Lr (Forall_impl _ (fun e H => proj1 H) Fr) (nr st) (nf st) 0).
      rewrite app_assoc. rewrite Oc1 in Rq. rewrite <- Rq. exact Qc.
    + intros X. apply Hno. rewrite <- CO. unfold cameb. rewrite <- X. f_equal.
      apply existsb_ext_own. exact Oc.
    + exact Hn1.
    + intros X. apply Hyes. rewrite <- CO. unfold cameb. rewrite <- X. f_equal.
      apply existsb_ext_own. exact Oc.
    + rewrite <- B1, Fm, Fq. rewrite Oc1. f_equal.
      rewrite registered_from_app, Z16, Z18, !N.add_0_r, (registered_from_nocb _ _ _ Ncb).
      f_equal. apply registered_from_nofin. exact Nofin.
    + intros HF. destruct B5 as [[_ ->]|[k [_ HF']]]; [reflexivity|congruence].
    + destruct B5 as [[_ ->]|[k [-> _]]]; [left; reflexivity|right].
      destruct (fin_spec_last 0 sc V _ _ _ _ (Nat.lt_succ_diag_r _) Ef) as [Lf' [B2' [NE FL]]].
      assert (Lf' = Lf) by (rewrite B2 in B2'; apply app_inv_head in B2'; auto). subst Lf'.
      unfold fin_last_raises. rewrite map_length. destruct Lf as [|e0 Lf0]; [contradiction NE; reflexivity|].
      cbn [map]. rewrite NFm in FL. apply negb_true_iff. apply N.eqb_neq. exact FL.
Qed.
End Pass.


Section Cons.
Variables (l : N) (sc : scn).
(* conservation of the response deque along a stretch [new] of one request's own events: what was pending plus
   what the events registered = what ran plus what is pending now; the counters count the callbacks run *)
Definition cons (st st' : state) (new : list pev) : Prop :=
  log st' = log st ++ new /\
  rq st ++ registered_from 0 (s_regs sc) (nr st) (nf st) new = map e_aux (filter (is_pt 16) new) ++ rq st' /\
  nr st' = nr st + cnt 16 new /\ nf st' = nf st + cnt 18 new.

Lemma cnt_app p X Y : cnt p (X ++ Y) = cnt p X + cnt p Y.
Proof. unfold cnt. rewrite filter_app, app_length. lia. Qed.

Lemma cons_refl st : cons st st [].
Proof. unfold cons, cnt. simpl. rewrite !app_nil_r, !N.add_0_r. auto. Qed.

Lemma cons_trans a b c X Y : cons a b X -> cons b c Y -> cons a c (X ++ Y).
Proof.
  intros [L1 [Q1 [R1 F1]]] [L2 [Q2 [R2 F2]]]. unfold cons.
  split; [rewrite L2, L1, app_assoc; reflexivity|].
  split; [|split; [rewrite R2, R1, cnt_app; lia|rewrite F2, F1, cnt_app; lia]].
  rewrite registered_from_app, filter_app, map_app, app_assoc, Q1, <- !app_assoc. f_equal.
  rewrite <- R1, <- F1. exact Q2.
Qed.

Lemma cons_resp : forall fuel st st' r, resp_cbs fuel l sc st = (st', r) ->
  exists new, cons st st' new /\ ((exists v, r = Ok v) -> rq st' = []).
Proof.
  induction fuel as [|fuel IH]; intros st st' r E; simpl in E.
  - injection E as <- <-. exists []. split; [apply cons_refl|]. intros [v X]; discriminate X.
  - destruct (rq st) as [|o rest0] eqn:Eq.
    + injection E as <- <-. exists []. split; [apply cons_refl|]. intros _. exact Eq.
    + set (st1 := mkSt (stk st) (log st) rest0 (fq st) (nr st + 1) (nf st)) in *.
      destruct (hit l sc P_RESP_CB o (nr st) false st1) as [st2 r2] eqn:Eh.
      pose proof (hit_state _ _ _ _ _ _ _ _ _ Eh) as S2.
      destruct (do_regs_spec (s_regs sc) P_RESP_CB (nr st) (log_ev l P_RESP_CB o st1)) as [_ [B [N1 [N2 [C D]]]]].
      set (e0 := mkEv P_RESP_CB l (N.of_nat (length (stk st1))) (top_is l (stk st1)) o).
      assert (C2 : cons st st2 [e0]).
      { unfold cons. rewrite S2, B, C, N1, N2. cbn [log rq nr nf log_ev st1]. unfold cnt. simpl.
        rewrite Eq, app_nil_r. repeat split; try lia. }
      destruct r2 as [v|k].
      * destruct (IH _ _ _ E) as [new [Cn Hq]]. exists ([e0] ++ new). split; [eapply cons_trans; eassumption|exact Hq].
      * injection E as <- <-. exists [e0]. split; [exact C2|]. intros [v X]; discriminate X.
Qed.

Lemma cons_fin : forall fuel st st' r, fin_cbs fuel l sc st = (st', r) ->
  exists new, cons st st' new /\ ((exists v, r = Ok v) -> fq st' = []).
Proof.
  induction fuel as [|fuel IH]; intros st st' r E; simpl in E.
  - injection E as <- <-. exists []. split; [apply cons_refl|]. intros [v X]; discriminate X.
  - destruct (fq st) as [|o rest0] eqn:Eq.
    + injection E as <- <-. exists []. split; [apply cons_refl|]. intros _. exact Eq.
    + set (st1 := mkSt (stk st) (log st) (rq st) rest0 (nr st) (nf st + 1)) in *.
      destruct (hit l sc P_FIN_CB o (nf st) false st1) as [st2 r2] eqn:Eh.
      pose proof (hit_state _ _ _ _ _ _ _ _ _ Eh) as S2.
      destruct (do_regs_spec (s_regs sc) P_FIN_CB (nf st) (log_ev l P_FIN_CB o st1)) as [_ [B [N1 [N2 [C D]]]]].
      set (e0 := mkEv P_FIN_CB l (N.of_nat (length (stk st1))) (top_is l (stk st1)) o).
      assert (C2 : cons st st2 [e0]).
      { unfold cons. rewrite S2, B, C, N1, N2. cbn [log rq nr nf log_ev st1]. unfold cnt. simpl.
        rewrite app_nil_r. repeat split; try lia. }
      destruct r2 as [v|k].
      * destruct (IH _ _ _ E) as [new [Cn Hq]]. exists ([e0] ++ new). split; [eapply cons_trans; eassumption|exact Hq].
      * injection E as <- <-. exists [e0]. split; [exact C2|]. intros [v X]; discriminate X.
Qed.

Lemma cons_newresp st st' r : hit0 l sc P_NEWRESP st = (st', r) -> exists e, cons st st' [e] /\ e_pt e = P_NEWRESP.
Proof.
  intros Eh. unfold hit0 in Eh. pose proof (hit_state _ _ _ _ _ _ _ _ _ Eh) as S2.
  destruct (do_regs_spec (s_regs sc) P_NEWRESP 0 (log_ev l P_NEWRESP 0 st)) as [_ [B [N1 [N2 [C D]]]]].
  exists (mkEv P_NEWRESP l (N.of_nat (length (stk st))) (top_is l (stk st)) 0). split; [|reflexivity]. unfold cons. rewrite S2, B, C, N1, N2. cbn [log rq nr nf log_ev]. unfold cnt. simpl.
  rewrite app_nil_r. repeat split; try lia.
Qed.
End Cons.


Definition Anr (q : N) : bool := negb (N.eqb q P_RETRY).

Section Pass2.
Variable sc : scn.
Hypothesis V : valid_level sc = true.

(* no event of the tween chain is the retry marker *)
Lemma chain_no_marker ev st st_c rc : invoke_chain ev 0 sc true None st = (st_c, rc) ->
  exists nc, log st_c = log st ++ nc /\ Forall (fun e => is_pt P_RETRY e = false) nc.
Proof.
  intros Ec.
  assert (PR : pres (Rs 0 sc never Anr) (invoke_chain ev 0 sc true None)).
  { unfold invoke_chain. apply (pres_chain_gen 0 sc never None no_sub Anr ev).
    intros q Hq; simpl in Hq; repeat (destruct Hq as [<-|Hq]; [reflexivity|]); destruct Hq. }
  destruct (PR _ _ _ Ec) as [nc [Lc [Fc [_ [_ [_ [_ Sc]]]]]]].
  exists nc. split; [exact Lc|]. destruct Sc as [S|S]; [|contradiction].
  rewrite Forall_forall in *. intros e I. destruct (Fc _ I) as [[_ HA]|H].
  - unfold Anr in HA. apply negb_true_iff in HA. unfold is_pt. exact HA.
  - exfalso. assert (In e (ge_log (0 + 1) nc)) as X by (unfold ge_log; apply filter_In; split; [exact I|apply N.leb_le; exact H]).
    rewrite S in X. exact X.
Qed.

Lemma cons_after_chain rc st_c st_m r_m :
  match rc with
  | Ok v => seq (resp_loop 0 sc) (seq (hit0 0 sc P_NEWRESP) (ret v)) st_c = (st_m, r_m)
  | Ex k => (st_c, Ex k) = (st_m, r_m)
  end -> exists X, cons sc st_c st_m X.
Proof.
  destruct rc as [v|k]; intros E.
  - unfold seq, bind, resp_loop in E.
    match type of E with context [resp_cbs ?fu 0 sc st_c] => destruct (resp_cbs fu 0 sc st_c) as [st_r r_r] eqn:Er end.
    destruct (cons_resp 0 sc _ _ _ _ Er) as [Xr [Cr _]].
    destruct r_r as [vr|kr].
    + destruct (hit0 0 sc P_NEWRESP st_r) as [st_n r_n] eqn:Eh.
      destruct (cons_newresp 0 sc _ _ _ Eh) as [e [Cn _]].
      assert (st_m = st_n) as -> by (destruct r_n; unfold ret in E; injection E as <- _; reflexivity).
      exists (Xr ++ [e]). eapply cons_trans; eassumption.
    + injection E as <- _. exists Xr. exact Cr.
  - injection E as <- _. exists []. apply cons_refl.
Qed.

Theorem pass_full (ev : N) st st' r :
  fq st = [] ->
  invoke_request ev 0 sc true None st = (st', r) ->
  exists new, log st' = log st ++ new /\ Forall (fun e => e_lvl e = 0) new /\
    (Forall (fun e => e_cur e = true) new -> judge_pass sc (nr st) (nf st) (rq st) new = true) /\
    Forall (fun e => is_pt P_RETRY e = false) new /\
    cons sc st st' new /\
    (has_fault sc P_FIN_CB = false -> fq st' = []).
Proof.
  intros Hfq E.
  destruct (pass_judged sc V ev st st' r Hfq E) as [new [L [F0 J]]].
  exists new. split; [exact L|]. split; [exact F0|]. split; [exact J|].
  unfold invoke_request, finally in E.
  destruct (invoke_body ev 0 sc true None st) as [st_m r_m] eqn:Eb.
  unfold invoke_body, bind in Eb.
  destruct (invoke_chain ev 0 sc true None st) as [st_c rc] eqn:Ec.
  destruct (chain_no_marker ev _ _ _ Ec) as [nc [Lc Mc]].
  destruct (pres_chain 0 sc never None no_sub ev true _ _ _ Ec) as [nc' [Lc' [Fc [Rq [Fq [NRc [NFc Sc]]]]]]].
  assert (nc' = nc) by (rewrite Lc in Lc'; apply app_inv_head in Lc'; auto). subst nc'.
  assert (AC : match rc with
               | Ok v => seq (resp_loop 0 sc) (seq (hit0 0 sc P_NEWRESP) (ret v)) st_c = (st_m, r_m)
               | Ex k => (st_c, Ex k) = (st_m, r_m) end) by (destruct rc; exact Eb).
  destruct (after_chain 0 sc V rc st_c st_m r_m AC) as [Lr [Ln [rest [Lm [Fr [Fn _]]]]]].
  destruct (cons_after_chain rc st_c st_m r_m AC) as [X CX].
  unfold fin_loop in E.
  match type of E with context [fin_cbs ?fu 0 sc st_m] => destruct (fin_cbs fu 0 sc st_m) as [st_f r_f] eqn:Ef end.
  destruct (fin_spec 0 sc V _ _ _ _ (Nat.lt_succ_diag_r _) Ef) as [Lf [restf [B1 [B2 [B3 B5]]]]].
  destruct (cons_fin 0 sc _ _ _ _ Ef) as [Y [CY HY]].
  assert (st' = st_f) as -> by (destruct r_f; injection E as <- _; reflexivity).
  (* the chain's stretch conserves too *)
  assert (Oc : Forall (fun e => e_lvl e = 0) nc).
  { destruct Sc as [S|S]; [|contradiction].
    rewrite Forall_forall in *. intros e I. destruct (Fc _ I) as [[H _]|H]; [exact H|exfalso].
    assert (In e (ge_log (0 + 1) nc)) as Z by (unfold ge_log; apply filter_In; split; [exact I|apply N.leb_le; exact H]).
    rewrite S in Z. exact Z. }
  destruct (own_all 0 nc Oc) as [Oc1 _].
  assert (HcL : Forall (fun e => is_pt P_RESP_CB e = false /\ is_pt P_NEWRESP e = false /\ is_pt P_FIN_CB e = false) nc).
  { rewrite Forall_forall in Fc |- *. intros e I. destruct (Fc _ I) as [[_ HA]|HL].
    - unfold A16 in HA. apply negb_true_iff in HA. unfold is_pt. simpl in HA.
      apply orb_false_iff in HA. destruct HA as [H1 HA]. apply orb_false_iff in HA. destruct HA as [H2 HA].
      apply orb_false_iff in HA. destruct HA as [H3 _]. auto.
    - rewrite Forall_forall in Oc. rewrite (Oc _ I) in HL. lia. }
  destruct (nocb_of _ HcL) as [Ncb [Z16 Z18]].
  assert (Cc : cons sc st st_c nc).
  { unfold cons. split; [exact Lc|]. rewrite Z16, Z18, !N.add_0_r.
    split; [|split; [exact NRc|exact NFc]].
    rewrite (registered_from_nocb _ _ _ Ncb), Rq, Oc1.
    rewrite filter_none; [reflexivity|]. eapply Forall_impl; [|exact HcL]. intros e H; apply H. }
  pose proof (cons_trans sc _ _ _ _ _ (cons_trans sc _ _ _ _ _ Cc CX) CY) as CT.
  assert (EN : new = (nc ++ X) ++ Y).
  { destruct CT as [LT _]. rewrite L in LT. apply app_inv_head in LT. exact LT. }
  assert (EX2 : X = Lr ++ Ln).
  { destruct CX as [LX _]. rewrite Lm in LX. apply app_inv_head in LX. symmetry. exact LX. }
  assert (EY : Y = Lf).
  { destruct CY as [LY _]. rewrite B2 in LY. apply app_inv_head in LY. symmetry. exact LY. }
  split; [|split].
  - rewrite EN, EX2, EY. repeat (apply Forall_app; split).
    + exact Mc.
    + eapply Forall_impl; [|exact Fr]. intros e [H _]. unfold is_pt. rewrite H. reflexivity.
    + eapply Forall_impl; [|exact Fn]. intros e [H _]. unfold is_pt. rewrite H. reflexivity.
    + eapply Forall_impl; [|exact B3]. intros e [H _]. unfold is_pt. rewrite H. reflexivity.
  - rewrite EN. exact CT.
  - intros HF. apply HY. destruct B5 as [[-> _]|[k [_ HF']]]; [eexists; reflexivity|congruence].
Qed.
End Pass2.


Lemma split_retry_app A B : Forall (fun e => is_pt P_RETRY e = false) A ->
  split_retry (A ++ B) = (A ++ fst (split_retry B), snd (split_retry B)).
Proof.
  induction 1 as [|e A H F IH]; simpl.
  - destruct (split_retry B); reflexivity.
  - rewrite H, IH. reflexivity.
Qed.
Lemma skipn_map_app {A B} (f : A -> B) (l : list A) (r : list B) : skipn (length l) (map f l ++ r) = r.
Proof. induction l; simpl; auto. Qed.

Theorem retry_judged : forall ev mode sc1 sc2 st r,
  valid_level sc1 = true -> valid_level sc2 = true ->
  run_retry ev mode sc1 sc2 [] = (st, r) ->
  judge_retry sc1 sc2 (N.of_nat (length (stk st))) (log st) = true.
Proof.
  intros ev mode sc1 sc2 st r V1 V2 E.
  destruct (retry_depth _ _ _ _ _ _ _ E) as [S C]. unfold judge_retry. rewrite S. cbn [length N.of_nat N.eqb andb].
  unfold run_retry, with_fresh_request, init_state in E. cbn [stk log rq fq nr nf] in E.
  set (s0 := mkSt [0] [] [] [] 0 0).
  unfold frame, seq, bind, push, upd_stk, finally, pop in E. cbn [stk log rq fq nr nf] in E. fold s0 in E.
  destruct (retry_body (invoke_request ev 0 sc1 true None) (invoke_request ev 0 sc2 true None) mode s0) as [sb rb] eqn:Eb.
  assert (Lst : log st = log sb) by (injection E as <- _; reflexivity).
  rewrite Lst in *. clear E Lst.
  unfold retry_body in Eb.
  destruct (invoke_request ev 0 sc1 true None s0) as [st1 r1] eqn:E1.
  destruct (pass_full sc1 V1 ev s0 st1 r1 eq_refl E1) as [new1 [L1 [_ [J1 [M1 [C1 F1]]]]]].
  cbn [log nr nf rq s0] in L1, J1. simpl in L1.
  assert (G1 : ext s0 st1).
  { eapply (good_invoke_request ev 0 sc1 true None); [intros sr X; discriminate X|exact E1|reflexivity]. }
  assert (Hsec : forall r', seq log_retry (invoke_request ev 0 sc2 true None) st1 = (sb, r') ->
            match split_retry (log sb) with
            | (L1', o) => judge_pass sc1 0 0 [] L1' &&
                match o with None => true | Some L2 =>
                  if has_fault sc1 P_FIN_CB || has_fault sc1 P_RESP_CB then cur_clause L2
                  else judge_pass sc2 (cntp P_RESP_CB L1') (cntp P_FIN_CB L1')
                         (skipn (length (filter (is_pt P_RESP_CB) L1')) (registered_from 0 (s_regs sc1) 0 0 L1')) L2 end
            end = true).
  { intros r' E2. unfold seq, bind, log_retry in E2.
    set (st2 := log_ev 0 P_RETRY 0 st1) in *.
    set (m := mkEv P_RETRY 0 (N.of_nat (length (stk st1))) (top_is 0 (stk st1)) 0).
    assert (L2a : log st2 = new1 ++ [m]) by (unfold st2, log_ev; cbn [log]; rewrite L1; reflexivity).
    assert (T1 : hd_error (stk st1) = Some 0) by (destruct G1 as [Sg _]; rewrite Sg; reflexivity).
    assert (G2 : ext st2 sb).
    { eapply (good_invoke_request ev 0 sc2 true None); [intros sr X; discriminate X|exact E2|exact T1]. }
    destruct G2 as [_ [new2 [L2 _]]].
    assert (LS : log sb = new1 ++ m :: new2) by (rewrite L2, L2a, <- app_assoc; reflexivity).
    rewrite LS in C |- *. rewrite (split_retry_app new1 (m :: new2) M1). cbn [split_retry is_pt e_pt m fst snd].
    change (N.eqb P_RETRY P_RETRY) with true. cbn iota. rewrite app_nil_r.
    apply Forall_app in C. destruct C as [Cn1 Cn2]. pose proof (Forall_inv_tail Cn2) as Cn2'.
    rewrite (J1 Cn1). cbn [andb].
    destruct (has_fault sc1 P_FIN_CB) eqn:HF1; cbn [orb].
    { apply forallb_forall. rewrite Forall_forall in Cn2'. intros e I. rewrite (Cn2' _ I). apply orb_true_r. }
    destruct (has_fault sc1 P_RESP_CB) eqn:HR1.
    { apply forallb_forall. rewrite Forall_forall in Cn2'. intros e I. rewrite (Cn2' _ I). apply orb_true_r. }
    assert (Fq2 : fq st2 = []) by (unfold st2, log_ev; cbn [fq]; apply F1; reflexivity).
    destruct (pass_full sc2 V2 ev st2 sb r' Fq2 E2) as [new2' [L2' [_ [J2 _]]]].
    assert (new2' = new2) by (rewrite L2 in L2'; apply app_inv_head in L2'; auto). subst new2'.
    destruct C1 as [_ [Q1 [NR1 NF1]]]. cbn [rq nr nf s0] in Q1, NR1, NF1. simpl in Q1.
    replace (nr st2) with (cntp P_RESP_CB new1) in J2 by (unfold st2, log_ev; cbn [nr]; rewrite NR1; reflexivity).
    replace (nf st2) with (cntp P_FIN_CB new1) in J2 by (unfold st2, log_ev; cbn [nf]; rewrite NF1; reflexivity).
    replace (rq st2) with (skipn (length (filter (is_pt P_RESP_CB) new1)) (registered_from 0 (s_regs sc1) 0 0 new1)) in J2.
    - apply J2. exact Cn2'.
    - unfold st2, log_ev. cbn [rq]. rewrite Q1. apply skipn_map_app. }
  destruct r1 as [v|k].
  - destruct mode; [eapply Hsec; exact Eb|].
    injection Eb as <- _. rewrite L1 in C |- *.
    rewrite <- (app_nil_r new1) at 1. rewrite (split_retry_app new1 [] M1). cbn [split_retry fst snd]. rewrite app_nil_r.
    rewrite (J1 C). reflexivity.
  - eapply Hsec; exact Eb.
Qed.

Theorem gen_retry_judged : forall ev mode sc1 sc2 st r,
  valid_level sc1 = true -> valid_level sc2 = true ->
  gen_run_retry ev mode sc1 sc2 [] = (st, r) ->
  judge_retry sc1 sc2 (N.of_nat (length (stk st))) (log st) = true.
Proof. intros ev mode sc1 sc2 st r V1 V2 E. rewrite gen_run_retry_is_model in E. eapply retry_judged; eassumption. Qed.

(* ---- what _process_finished_callbacks guarantees when a finished callback raises: the callbacks that ran are a
   prefix of the pending + registered ones (each once, in order), the LAST one that ran is one told to raise, the
   exception propagates and the rest stays pending *)
Theorem fin_loop_raising : forall l sc, valid_level sc = true -> forall st st' k,
  fin_loop l sc st = (st', Ex k) ->
  exists evs rest,
    log st' = log st ++ evs /\ Forall (fun e => e_pt e = P_FIN_CB /\ e_lvl e = l) evs /\
    fq st ++ registered_from 1 (s_regs sc) 0 (nf st) evs = map e_aux evs ++ rest /\
    evs <> [] /\ find_fault (s_faults sc) P_FIN_CB (nf st + N.of_nat (length evs) - 1) <> 0 /\
    has_fault sc P_FIN_CB = true.
Proof.
  intros l sc V st st' k E. unfold fin_loop in E.
  destruct (fin_spec l sc V _ _ _ _ (Nat.lt_succ_diag_r _) E) as [evs [rest [B1 [B2 [B3 B5]]]]].
  destruct (fin_spec_last l sc V _ _ _ _ (Nat.lt_succ_diag_r _) E) as [evs' [B2' [NE FL]]].
  assert (evs' = evs) by (rewrite B2 in B2'; apply app_inv_head in B2'; auto). subst evs'.
  exists evs, rest. repeat split; auto.
  destruct B5 as [[X _]|[k' [_ HF]]]; [discriminate X|exact HF].
Qed.

Example ex_fin_raises :
  let sc := Scn false [mkFault P_FIN_CB K_PLAIN 1] [mkReg P_NEWREQ 2 0; mkReg P_VIEW 2 0; mkReg P_RENDERER 2 0] NoSub in
  let '(st, r) := run_top 0 sc [] in
  r = Ex K_PLAIN /\ judge sc 0 (log st) = true /\
  map e_aux (filter (is_pt P_FIN_CB) (log st)) = [P_NEWREQ; P_VIEW] /\
  (* stopping after the first (non-raising) callback is rejected *)
  judge sc 0 (filter (fun e => negb (is_pt P_FIN_CB e && N.eqb (e_aux e) P_VIEW)) (log st)) = false.
Proof. vm_compute. repeat split; reflexivity. Qed.
