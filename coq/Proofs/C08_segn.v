(* C08 -- any number of intermediate commits.

   closed_segs_commit_equiv: a program issued as  s1 ; commit() ; s2 ; commit() ; ... ; sn ; commit()  (each commit
   executing its own statements sorted by phase) ends in the store of the single commit of s1 ++ ... ++ sn whenever every
   cut is CLOSED (no later segment writes a key a statement of an earlier segment reads) and the members of each ordered
   container share a phase.  Generalises closed_prefix_commit_equiv (Proofs/C08_seg.v) from one cut to any number, by
   induction over the list of segments, through trace_permutation_invariant. *)
From Coq Require Import List NArith ZArith Bool Lia Permutation Sorted.
Import ListNotations.
Require Import Verif.Lib.Wire Verif.Lib.C04Sort Verif.Gen.Facts_C08 Verif.Model.C04 Verif.Model.C08.
Require Import Verif.Proofs.C08 Verif.Proofs.C08_seg.

(* the trace of n commits, and the store it leaves *)
Definition trace_segs (segs : list (list stmt)) : list stmt := flat_map schedule segs.
Definition finalN (segs : list (list stmt)) : store := runl (trace_segs segs) empty.

(* every cut is closed: nothing declared after a commit writes what a statement committed before it read *)
Fixpoint closed_segs (segs : list (list stmt)) : Prop :=
  match segs with
  | [] => True
  | a :: r => closed_prefix a (concat r) /\ closed_segs r
  end.

Lemma trace_segs_perm segs : Permutation (trace_segs segs) (concat segs).
Proof.
  induction segs as [|a r IH]; [reflexivity|]. unfold trace_segs in *. cbn [flat_map concat].
  apply Permutation_app; [unfold schedule; apply sort_perm|exact IH].
Qed.

Lemma trace_segs_In segs x : In x (trace_segs segs) <-> In x (concat segs).
Proof.
  split; apply Permutation_in; [apply trace_segs_perm|symmetry; apply trace_segs_perm].
Qed.

Lemma trace_segs_okL segs : H2 (concat segs) -> closed_segs segs -> okL (trace_segs segs).
Proof.
  induction segs as [|a r IH]; intros h2 Hc; [exact I|].
  destruct Hc as [Hc Hr]. unfold trace_segs in *. cbn [flat_map]. cbn [concat] in h2.
  apply okL_app.
  - apply schedule_okL. eapply H2_incl; [|exact h2]. intros x Hx. apply in_or_app. left. exact Hx.
  - apply IH; [|exact Hr]. eapply H2_incl; [|exact h2]. intros x Hx. apply in_or_app. right. exact Hx.
  - intros s q s' Hs Hq Hs'. apply (Hc s q s').
    + apply (proj1 (schedule_In _ _)). exact Hs.
    + exact Hq.
    + apply (proj1 (trace_segs_In r s')). exact Hs'.
Qed.

Lemma trace_segs_seq L k segs : seq_same_phase L -> (forall x, In x (concat segs) -> In x L) ->
  filter (seq_writer k) (trace_segs segs) = filter (seq_writer k) (concat segs).
Proof.
  intros HL. induction segs as [|a r IH]; intros Hin; [reflexivity|].
  unfold trace_segs in *. cbn [flat_map concat] in *. rewrite !filter_app.
  rewrite IH by (intros x Hx; apply Hin; apply in_or_app; right; exact Hx).
  f_equal. rewrite schedule_filter. apply schedule_same_phase. intros x y Hx Hy.
  apply filter_In in Hx. apply filter_In in Hy. destruct Hx as [Hx Wx]. destruct Hy as [Hy Wy].
  apply (HL k x y); [apply Hin; apply in_or_app; left; exact Hx|apply Hin; apply in_or_app; left; exact Hy|exact Wx|exact Wy].
Qed.

Lemma schedule_seq_id L k m : seq_same_phase L -> (forall x, In x m -> In x L) ->
  filter (seq_writer k) (schedule m) = filter (seq_writer k) m.
Proof.
  intros HL Hin. rewrite schedule_filter. apply schedule_same_phase. intros x y Hx Hy.
  apply filter_In in Hx. apply filter_In in Hy. destruct Hx as [Hx Wx]. destruct Hy as [Hy Wy].
  apply (HL k x y); auto.
Qed.

Theorem closed_segs_commit_equiv : forall segs,
  NoDup (map sid (concat segs)) -> H1 (concat segs) -> H2 (concat segs) ->
  closed_segs segs -> seq_same_phase (concat segs) ->
  store_eq (finalN segs) (final (concat segs)).
Proof.
  intros segs Hnd h1 h2 Hc Hs. unfold finalN, final.
  assert (P : Permutation (trace_segs segs) (schedule (concat segs))).
  { rewrite trace_segs_perm. symmetry. unfold schedule. apply sort_perm. }
  assert (Hin : forall x, In x (trace_segs segs) -> In x (concat segs)) by (intros x; apply trace_segs_In).
  apply trace_permutation_invariant.
  - apply (Permutation_NoDup (l := map sid (concat segs))); [|exact Hnd].
    apply Permutation_map. symmetry. apply trace_segs_perm.
  - exact P.
  - intros k. rewrite (trace_segs_seq (concat segs) k segs Hs (fun x H => H)).
    symmetry. apply (schedule_seq_id (concat segs) k (concat segs) Hs). auto.
  - exact (H1_incl _ _ Hin h1).
  - exact (H2_incl _ _ Hin h2).
  - apply trace_segs_okL; assumption.
  - apply schedule_okL. exact h2.
Qed.

(* any number of commits with closed cuts vs ONE commit of any reordering that keeps the ordered containers *)
Theorem closed_segs_variants_agree : forall segs l',
  NoDup (map sid (concat segs)) -> H1 (concat segs) -> H2 (concat segs) ->
  closed_segs segs -> seq_same_phase (concat segs) ->
  Permutation (concat segs) l' -> Horder (concat segs) l' ->
  store_eq (finalN segs) (final l').
Proof.
  intros segs l' Hnd h1 h2 Hc Hs P Ho k.
  rewrite (closed_segs_commit_equiv segs Hnd h1 h2 Hc Hs k).
  apply (commit_permutation_invariant (concat segs) l' Hnd P Ho h1 h2).
Qed.

(* two differently cut issues of the same statements agree with each other *)
Theorem closed_segs_two_cuttings_agree : forall segs segs',
  NoDup (map sid (concat segs)) -> H1 (concat segs) -> H2 (concat segs) -> seq_same_phase (concat segs) ->
  closed_segs segs -> closed_segs segs' ->
  Permutation (concat segs) (concat segs') -> Horder (concat segs) (concat segs') ->
  store_eq (finalN segs) (finalN segs').
Proof.
  intros segs segs' Hnd h1 h2 Hs Hc Hc' P Ho k.
  assert (Hin : forall x, In x (concat segs') -> In x (concat segs))
    by (intros x; apply Permutation_in; symmetry; exact P).
  assert (Hnd' : NoDup (map sid (concat segs')))
    by (eapply Permutation_NoDup; [apply Permutation_map; exact P|exact Hnd]).
  assert (Hs' : seq_same_phase (concat segs')).
  { intros q s s' A B. apply (Hs q s s'); apply Hin; assumption. }
  rewrite (closed_segs_variants_agree segs (concat segs') Hnd h1 h2 Hc Hs P Ho k).
  symmetry. apply (closed_segs_commit_equiv segs' Hnd' (H1_incl _ _ Hin h1) (H2_incl _ _ Hin h2) Hc' Hs').
Qed.

(* programs made of rows of the regenerated table: H2 and the same-phase condition come from the table *)
Theorem table_programs_closed_segs : forall (segs : list (list (row * stmt))),
  (forall p, In p (concat segs) -> In (fst p) rows /\ conforms (fst p) (snd p) = true) ->
  NoDup (map sid (concat (map (map snd) segs))) -> H1 (concat (map (map snd) segs)) ->
  closed_segs (map (map snd) segs) ->
  store_eq (finalN (map (map snd) segs)) (final (concat (map (map snd) segs))).
Proof.
  intros segs Hl Hnd h1 Hc.
  assert (E : concat (map (map snd) segs) = map snd (concat segs)) by (symmetry; apply concat_map).
  apply closed_segs_commit_equiv; try assumption.
  - rewrite E. apply table_programs_H2. exact Hl.
  - rewrite E. apply (table_seq_same_phase table_seq_ok_holds). exact Hl.
Qed.

(* the two-commit theorem is the instance [a; b] *)
Lemma finalN_two a b : finalN [a; b] = final2 a b.
Proof. unfold finalN, trace_segs, final2. cbn [flat_map]. rewrite app_nil_r. apply runl_app. Qed.

(* ------------------------------------------------------------------ non-vacuity: THREE commits *)
Module SegNEx.
  Import SegEx.
  Definition rd2 : stmt := mkS 4 0 MAcc 6 [7%N] [9%N].           (* a second view of the slot, other predicate order *)
  Definition segs3 : list (list stmt) := [[wr]; [rd; other]; [rd2]].

  Example three_commits_closed : closed_segs segs3.
  Proof.
    cbn [closed_segs segs3].
    split; [apply closed_prefixb_sound; vm_compute; reflexivity|].
    split; [apply closed_prefixb_sound; vm_compute; reflexivity|].
    split; [apply closed_prefixb_sound; vm_compute; reflexivity|exact I].
  Qed.

  Example three_commits_hyps :
    h1b (concat segs3) = true /\ h2b (concat segs3) = true /\
    forallb (fun k => cell_eqb (finalN segs3 k) (final (concat segs3) k)) [7; 9; 11]%N = true /\
    finalN segs3 9%N <> [].
  Proof. repeat split; try (vm_compute; reflexivity). vm_compute. discriminate. Qed.

  (* an open cut among three commits: the view committed before the permission it reads exists *)
  Example three_commits_open_differs :
    ~ closed_segs [[rd]; [wr]; [other]] /\ finalN [[rd]; [wr]; [other]] 9%N <> final [rd; wr; other] 9%N.
  Proof.
    split.
    - intros [H _]. specialize (H rd 7%N wr (or_introl eq_refl) (or_introl eq_refl) (or_introl eq_refl)).
      vm_compute in H. discriminate.
    - vm_compute. discriminate.
  Qed.
End SegNEx.
