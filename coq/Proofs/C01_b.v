(* C01 proofs, second part: connect without the "every declaration compiles" assumption
   (generic in the parse function), multi-atom placeholders, the parser. *)
From Coq Require Import List NArith ZArith Bool Lia Arith.
Import ListNotations.
Require Import Verif.Lib.Wire Verif.Lib.Text Verif.Lib.PathNorm Verif.Lib.Utf8 Verif.Gen.Facts_C01 Verif.Model.C01
  Verif.Proofs.C01.
Local Close Scope N_scope.
Local Open Scope nat_scope.

Section Connect.
  Variable parse : text -> res pat.

  Definition parses_b (e : nat * decl) : bool := match parse (d_src (snd e)) with Ok _ => true | _ => false end.
  Definition good (e : nat * decl) : bool := nonstatic e && parses_b e.
  Definition mkr_w (e : nat * decl) : route :=
    mkRoute (fst e) (key e) (match parse (d_src (snd e)) with Ok p => p | _ => mkPat [] None end) (d_preds (snd e)).
  (* the last declaration of name k that compiled *)
  Definition last_ok (k : text) (pre : list (nat * decl)) : option (nat * decl) :=
    find (fun e => text_eqb k (key e) && parses_b e) (rev pre).

  Definition InvG (pre : list (nat * decl)) (m : mapper) : Prop :=
    routelist m = map mkr_w (filter good (last_wins pre))
    /\ forall k, assoc_get (routes m) k = option_map mkr_w (last_ok k pre).

  Lemma remove_id_absent_w i L : ~ In i (map fst L) -> remove_id i (map mkr_w L) = map mkr_w L.
  Proof.
    induction L as [|y L IH]; simpl; intros H; [reflexivity|].
    destruct (Nat.eqb_spec (fst y) i) as [E|NE]; [exfalso; auto|]. rewrite IH; auto.
  Qed.

  Lemma remove_old_w (f : nat * decl -> bool) x e : forall L,
    NoDup (map fst L) ->
    (forall a b, In a L -> In b L -> key a = key b -> a = b) ->
    find (fun e => text_eqb (key x) (key e)) L = Some e ->
    remove_id (fst e) (map mkr_w (filter f L)) = map mkr_w (filter f (filter (other_key x) L)).
  Proof.
    induction L as [|y L IH]; intros ND U F; simpl in *; [discriminate|].
    inversion ND as [|? ? Hny ND']; subst.
    assert (U' : forall a b, In a L -> In b L -> key a = key b -> a = b) by (intros a b Ha Hb Hk; apply U; [right; exact Ha|right; exact Hb|exact Hk]).
    unfold other_key at 1.
    destruct (text_eqb_spec (key x) (key y)) as [E|NE].
    - injection F as <-. rewrite <- E, text_eqb_refl. simpl.
      assert (HL : filter (other_key x) L = L).
      { apply filter_other_all. apply Forall_forall. intros z Hz Hk.
        assert (z = y) by (apply U; [right; exact Hz|left; reflexivity|congruence]). subst z.
        apply Hny. apply in_map. exact Hz. }
      rewrite HL. destruct (f y) eqn:Ny; simpl.
      + rewrite Nat.eqb_refl. reflexivity.
      + apply remove_id_absent_w. intros H. apply Hny. eapply In_filter_fst. exact H.
    - destruct (text_eqb_spec (key y) (key x)) as [E'|_]; [congruence|]. simpl.
      assert (He : In e L) by (apply find_some in F; tauto).
      destruct (f y) eqn:Ny; simpl.
      + destruct (Nat.eqb_spec (fst y) (fst e)) as [Eid|_].
        * exfalso. apply Hny. rewrite Eid. apply in_map. exact He.
        * rewrite IH; auto.
      + apply IH; auto.
  Qed.

  Lemma filter_drop_bad (f : nat * decl -> bool) x L :
    (forall e, In e L -> key e = key x -> f e = false) -> filter f (filter (other_key x) L) = filter f L.
  Proof.
    induction L as [|y L IH]; intros H; simpl; [reflexivity|]. unfold other_key at 1.
    destruct (text_eqb_spec (key y) (key x)) as [E|NE]; simpl.
    - rewrite (H y (or_introl eq_refl) E). apply IH. intros; apply H; auto.
    - rewrite IH; [reflexivity|]. intros; apply H; auto.
  Qed.

  Lemma last_wins_key_unique l : forall a b,
    In a (last_wins l) -> In b (last_wins l) -> key a = key b -> NoDup (map fst l) -> a = b.
  Proof.
    induction l as [|x l IH] using rev_ind; intros a b Ha Hb E ND; [destruct Ha|].
    rewrite last_wins_snoc in Ha, Hb. rewrite map_app in ND. apply NoDup_remove_1 in ND. rewrite app_nil_r in ND.
    apply in_app_or in Ha. apply in_app_or in Hb.
    destruct Ha as [Ha|[<-|[]]]; destruct Hb as [Hb|[<-|[]]]; auto.
    - apply filter_In in Ha. apply filter_In in Hb. apply IH; tauto.
    - apply filter_In in Ha. destruct Ha as [_ Ha]. unfold other_key in Ha. rewrite E, text_eqb_refl in Ha. discriminate.
    - apply filter_In in Hb. destruct Hb as [_ Hb]. unfold other_key in Hb. rewrite <- E, text_eqb_refl in Hb. discriminate.
  Qed.

  Lemma NoDup_fst_inj (l : list (nat * decl)) a b :
    NoDup (map fst l) -> In a l -> In b l -> fst a = fst b -> a = b.
  Proof.
    induction l as [|x l IH]; simpl; intros ND Ha Hb E; [destruct Ha|].
    inversion ND as [|? ? Hn ND']; subst.
    destruct Ha as [<-|Ha]; destruct Hb as [<-|Hb]; auto.
    - exfalso. apply Hn. rewrite E. apply in_map. exact Hb.
    - exfalso. apply Hn. rewrite <- E. apply in_map. exact Ha.
  Qed.

  Lemma last_ok_snoc k pre x :
    last_ok k (pre ++ [x]) = if text_eqb k (key x) && parses_b x then Some x else last_ok k pre.
  Proof. unfold last_ok. rewrite rev_app_distr. reflexivity. Qed.

  Lemma last_ok_In k pre e : last_ok k pre = Some e -> In e pre /\ key e = k /\ parses_b e = true.
  Proof.
    unfold last_ok. intros H. apply find_some in H. destruct H as [H1 H2].
    apply andb_true_iff in H2 as [H2 H3]. apply text_eqb_eq in H2. rewrite <- in_rev in H1. auto.
  Qed.

  (* the last declaration of a name vs. the last one that compiled *)
  Lemma link k : forall pre, NoDup (map fst pre) ->
    match find (fun e => text_eqb k (key e)) (last_wins pre) with
    | Some y => if parses_b y then last_ok k pre = Some y
                else forall e, last_ok k pre = Some e -> ~ In (fst e) (map fst (last_wins pre))
    | None => last_ok k pre = None
    end.
  Proof.
    induction pre as [|x pre IH] using rev_ind; intros ND; [reflexivity|].
    assert (ND' : NoDup (map fst pre)).
    { rewrite map_app in ND. apply NoDup_remove_1 in ND. rewrite app_nil_r in ND. exact ND. }
    assert (Hx : ~ In (fst x) (map fst pre)).
    { rewrite map_app in ND. apply NoDup_remove_2 in ND. rewrite app_nil_r in ND. exact ND. }
    specialize (IH ND').
    rewrite last_wins_snoc, find_app, last_ok_snoc.
    destruct (text_eqb_spec k (key x)) as [->|NE].
    - rewrite find_filter_same. simpl. rewrite text_eqb_refl. simpl.
      destruct (parses_b x) eqn:Px; [reflexivity|].
      intros e He. apply last_ok_In in He. destruct He as (He1 & He2 & _).
      rewrite map_app. intros Hin. apply in_app_or in Hin. destruct Hin as [Hin|[Hin|[]]].
      + apply in_map_iff in Hin. destruct Hin as (z & Ez & Hz). apply filter_In in Hz. destruct Hz as [Hz1 Hz2].
        apply last_wins_In in Hz1.
        assert (z = e) by (eapply NoDup_fst_inj; eauto). subst z.
        unfold other_key in Hz2. rewrite He2, text_eqb_refl in Hz2. discriminate.
      + apply Hx. simpl in Hin. rewrite Hin. apply in_map. exact He1.
    - rewrite (find_filter_other x k _ NE). simpl.
      destruct (find (fun e => text_eqb k (key e)) (last_wins pre)) as [y|].
      + destruct (parses_b y); [exact IH|].
        intros e He Hin. pose proof (last_ok_In _ _ _ He) as (He1 & _).
        rewrite map_app in Hin. apply in_app_or in Hin. destruct Hin as [Hin|[Hin|[]]].
        * apply (IH e He). eapply In_filter_fst. exact Hin.
        * apply Hx. simpl in Hin. rewrite Hin. apply in_map. exact He1.
      + simpl. destruct (text_eqb_spec k (key x)); [congruence|]. exact IH.
  Qed.

  Lemma connect_stepG pre m id d :
    InvG pre m -> NoDup (map fst (pre ++ [(id, d)])) ->
    exists m' st, connect_with parse m id d = (m', st)
                  /\ is_ok st = parses_b (id, d) /\ InvG (pre ++ [(id, d)]) m'.
  Proof.
    intros [Hrl Has] ND. set (x := (id, d)) in *.
    assert (ND' : NoDup (map fst pre)).
    { rewrite map_app in ND. apply NoDup_remove_1 in ND. rewrite app_nil_r in ND. exact ND. }
    assert (Hrl' : match assoc_get (routes m) (d_name d) with
                   | Some old => remove_id (r_id old) (routelist m)
                   | None => routelist m
                   end = map mkr_w (filter good (filter (other_key x) (last_wins pre)))).
    { rewrite (Has (d_name d)). change (d_name d) with (key x). rewrite Hrl.
      pose proof (link (key x) pre ND') as Lk.
      destruct (find (fun e => text_eqb (key x) (key e)) (last_wins pre)) as [y|] eqn:F.
      - assert (Uy : forall z, In z (last_wins pre) -> key z = key x -> z = y).
        { intros z Hz Hk. apply find_some in F. destruct F as [F1 F2]. apply text_eqb_eq in F2.
          eapply last_wins_key_unique; eauto. congruence. }
        destruct (parses_b y) eqn:Py.
        + rewrite Lk. simpl. apply remove_old_w; auto.
          * apply NoDup_sub_last_wins. exact ND'.
          * intros a b Ha Hb E. eapply last_wins_key_unique; eauto.
        + assert (Hbad : filter good (filter (other_key x) (last_wins pre)) = filter good (last_wins pre)).
          { apply filter_drop_bad. intros z Hz Hk. rewrite (Uy z Hz Hk). unfold good. rewrite Py. apply andb_false_r. }
          rewrite Hbad. destruct (last_ok (key x) pre) as [e|] eqn:Le; simpl; [|reflexivity].
          apply remove_id_absent_w. intros Hin. apply (Lk e eq_refl). eapply In_filter_fst. exact Hin.
      - rewrite Lk. simpl. rewrite (filter_other_none x _ F). reflexivity. }
    assert (Hsn : forall k, last_ok k (pre ++ [x]) = if text_eqb k (key x) && parses_b x then Some x else last_ok k pre)
      by (intros; apply last_ok_snoc).
    unfold connect_with. rewrite Hrl'.
    assert (Hg : filter good [x] = if nonstatic x && parses_b x then [x] else []) by reflexivity.
    assert (Hpx : parses_b x = match parse (d_src d) with Ok _ => true | _ => false end) by reflexivity.
    assert (Hmk : forall p, parse (d_src d) = Ok p -> mkRoute id (d_name d) p (d_preds d) = mkr_w x).
    { intros p Hp. unfold mkr_w, x, key. simpl. rewrite Hp. reflexivity. }
    assert (Hns : nonstatic x = negb (d_static d)) by reflexivity.
    destruct (parse (d_src d)) as [p| | |] eqn:Hp.
    - rewrite (Hmk p eq_refl).
      assert (Hassoc : forall k, assoc_get (assoc_set (routes m) (d_name d) (mkr_w x)) k
                                 = option_map mkr_w (last_ok k (pre ++ [x]))).
      { intros k. rewrite assoc_get_set, Hsn, Hpx, andb_true_r. change (d_name d) with (key x).
        destruct (text_eqb k (key x)); [reflexivity|apply Has]. }
      destruct (d_static d) eqn:St; do 2 eexists; (split; [reflexivity|]); (split; [symmetry; exact Hpx|]);
        (split; [|exact Hassoc]); cbn [routelist]; rewrite last_wins_snoc, filter_app, Hg, Hns, Hpx; simpl.
      + rewrite app_nil_r. reflexivity.
      + rewrite map_app. reflexivity.
    - do 2 eexists. split; [reflexivity|]. split; [symmetry; exact Hpx|]. split; cbn [routelist routes].
      + rewrite last_wins_snoc, filter_app, Hg, Hpx, andb_false_r, app_nil_r. reflexivity.
      + intros k. rewrite Hsn, Hpx, andb_false_r. apply Has.
    - do 2 eexists. split; [reflexivity|]. split; [symmetry; exact Hpx|]. split; cbn [routelist routes].
      + rewrite last_wins_snoc, filter_app, Hg, Hpx, andb_false_r, app_nil_r. reflexivity.
      + intros k. rewrite Hsn, Hpx, andb_false_r. apply Has.
    - do 2 eexists. split; [reflexivity|]. split; [symmetry; exact Hpx|]. split; cbn [routelist routes].
      + rewrite last_wins_snoc, filter_app, Hg, Hpx, andb_false_r, app_nil_r. reflexivity.
      + intros k. rewrite Hsn, Hpx, andb_false_r. apply Has.
  Qed.

  Lemma connect_all_invG : forall l pre m m' sts,
    InvG pre m -> map fst pre = seq 0 (length pre) ->
    connect_all_with parse m (length pre) l = (m', sts) ->
    map is_ok sts = map parses_b (number (length pre) l) /\ InvG (pre ++ number (length pre) l) m'.
  Proof.
    induction l as [|d l IH]; intros pre m m' sts HI Hids H; simpl in H.
    - injection H as <- <-. rewrite app_nil_r. auto.
    - assert (Hlen : length (pre ++ [(length pre, d)]) = S (length pre)) by (rewrite app_length; simpl; lia).
      assert (Hids' : map fst (pre ++ [(length pre, d)]) = seq 0 (length (pre ++ [(length pre, d)]))).
      { rewrite map_app, Hids, Hlen, seq_S. reflexivity. }
      destruct (connect_stepG pre m (length pre) d HI) as (m1 & st & E1 & Hst & HI1).
      { rewrite Hids'. apply seq_NoDup. }
      rewrite E1 in H.
      destruct (connect_all_with parse m1 (S (length pre)) l) as [m2 sts2] eqn:E2.
      injection H as <- <-.
      destruct (IH (pre ++ [(length pre, d)]) m1 m2 sts2 HI1 Hids') as [S2 I2].
      + rewrite Hlen. exact E2.
      + rewrite Hlen in S2, I2. split; [simpl; rewrite Hst, S2; reflexivity|].
        rewrite <- app_assoc in I2. exact I2.
  Qed.

  (* every connect call answers Ok exactly when its pattern compiles, and routelist holds, in
     order, the routes of those declarations that compile, are not static and are the LAST
     declaration of their name -- compiling or not *)
  Theorem connect_last_wins_general ds m sts :
    connect_all_with parse empty_mapper 0 ds = (m, sts) ->
    map is_ok sts = map parses_b (number 0 ds)
    /\ routelist m = map mkr_w (filter good (last_wins (number 0 ds))).
  Proof.
    intros H. destruct (connect_all_invG ds [] empty_mapper m sts) as [S [I _]]; auto.
    split; reflexivity.
  Qed.

  Lemma spec_routes_with_char L : spec_routes_with parse L = map mkr_w (filter good L).
  Proof.
    induction L as [|[i d] L IH]; simpl; [reflexivity|].
    unfold good at 1, parses_b, nonstatic. simpl.
    destruct (parse (d_src d)) as [p| | |] eqn:Hp; rewrite ?andb_false_r; auto.
    destruct (d_static d); simpl; [exact IH|]. rewrite IH. unfold mkr_w at 2, key. simpl. rewrite Hp. reflexivity.
  Qed.
End Connect.

Lemma connect_all_with_ext parse1 parse2 : (forall s, parse1 s = parse2 s) ->
  forall ds m id, connect_all_with parse1 m id ds = connect_all_with parse2 m id ds.
Proof.
  intros H. induction ds as [|d ds IH]; intros m id; simpl; [reflexivity|].
  unfold connect_with. rewrite H. destruct (parse2 (d_src d)); rewrite IH; reflexivity.
Qed.

Lemma spec_dispatch_with_find mt sm method rs path : (forall p s, mt p s = sm p s) ->
  fst (dispatch_with mt method rs path) = spec_dispatch_with sm method rs path.
Proof.
  intros H. unfold spec_dispatch_with. rewrite dispatch_with_find.
  rewrite (find_ext (qual mt method path) (qualifies_with sm method path)).
  - destruct (find (qualifies_with sm method path) rs); [|reflexivity]. rewrite H. reflexivity.
  - intros r. unfold qual, qualifies_with. rewrite H. reflexivity.
Qed.

(* end to end, no assumption that the declarations compile (only that none is outside the
   modelled sublanguage): the mapper's answer is the declarative specification's *)
Theorem request_spec_with pm ps mt sm ds method raw m sts :
  (forall s, pm s = ps s) -> (forall p s, mt p s = sm p s) ->
  sup_with ps ds = true -> connect_all_with pm empty_mapper 0 ds = (m, sts) ->
  spec_request_with ps sm ds method raw =
  match fst (dispatch_request_with mt m method raw) with
  | ODecodeError => SDecodeError
  | OMatch r d => SMatch r d
  | ONone => SNone
  | OConfigError => SNothing
  end.
Proof.
  intros Hp Hm Hs H. rewrite (connect_all_with_ext pm ps Hp) in H.
  destruct (connect_last_wins_general ps ds m sts H) as [_ Hrl].
  unfold spec_request_with. rewrite Hs. simpl. rewrite spec_routes_with_char, <- Hrl.
  unfold dispatch_request_with. destruct (request_path raw) as [|path]; [reflexivity|].
  rewrite <- (spec_dispatch_with_find mt sm method (routelist m) path Hm).
  destruct (dispatch_with mt method (routelist m) path) as [[[r d]|] tr]; reflexivity.
Qed.

(* ---------- instances for the facts of the current source *)
Lemma connect_all_is_with O ds : forall m id, connect_all O m id ds = connect_all_with (parse_pattern O) m id ds.
Proof. induction ds as [|d ds IH]; intros m id; simpl; [reflexivity|]. rewrite IH. reflexivity. Qed.

Lemma dispatch_request_is_with O m method raw :
  dispatch_request O m method raw = dispatch_request_with (match_pat O) m method raw.
Proof. reflexivity. Qed.

Theorem request_spec_general O ds method raw m sts :
  sup_with (parse_core O (Some spec_default_hole)) ds = true ->
  connect_all O empty_mapper 0 ds = (m, sts) ->
  spec_request_g O ds method raw =
  match fst (dispatch_request O m method raw) with
  | ODecodeError => SDecodeError
  | OMatch r d => SMatch r d
  | ONone => SNone
  | OConfigError => SNothing
  end.
Proof.
  intros Hs H. rewrite connect_all_is_with in H. rewrite dispatch_request_is_with.
  eapply request_spec_with; eauto.
  - apply parse_pattern_core.
  - apply match_spec.
Qed.

(* ---------- multi-atom placeholders *)
Theorem match_spec_m O p s : match_pat_m O p s = spec_match_m O p s.
Proof. unfold match_pat_m, spec_match_m. rewrite match_spec. reflexivity. Qed.

Lemma default_hole_is_segment_m : parse_reg_m default_hole_regex = Some [spec_default_hole].
Proof. vm_compute. reflexivity. Qed.

Lemma parse_pattern_m_core O src : parse_pattern_m O src = spec_parse_m O src.
Proof.
  unfold parse_pattern_m, spec_parse_m. rewrite regex_sources_ok_true, default_hole_is_segment_m. reflexivity.
Qed.

Theorem request_spec_m O ds method raw m sts :
  sup_with (spec_parse_m O) ds = true ->
  connect_all_with (parse_pattern_m O) empty_mapper 0 ds = (m, sts) ->
  spec_request_m O ds method raw =
  match fst (dispatch_request_with (match_pat_m O) m method raw) with
  | ODecodeError => SDecodeError
  | OMatch r d => SMatch r d
  | ONone => SNone
  | OConfigError => SNothing
  end.
Proof.
  intros Hs H. unfold spec_request_m. eapply request_spec_with; eauto.
  - apply parse_pattern_m_core.
  - apply match_spec_m.
Qed.
