(* C01 proofs, second part: connect without the "every declaration compiles" assumption
   (generic in the parse function), multi-atom placeholders, the parser. *)
From Coq Require Import List NArith ZArith Bool Lia Arith ZifyBool ZifyN.
Import ListNotations.
Require Import Verif.Lib.Wire Verif.Lib.Text Verif.Lib.PathNorm Verif.Lib.Utf8 Verif.Gen.Facts_C01 Verif.Model.C01
  Verif.Proofs.C01.
Local Close Scope N_scope.
Local Open Scope nat_scope.

Section Connect.
  Variable parse : text -> res pat.

  Definition parses_b (e : nat * decl) : bool := match parse (d_src (snd e)) with Ok _ => true | _ => false end.
  Definition good (e : nat * decl) : bool := nonstatic e && parses_b e.
  Definition mkr_w (e : nat * decl) : route :=
    mkRoute (fst e) (key e) (match parse (d_src (snd e)) with Ok p => p | _ => mkPat [] None end) (d_preds (snd e)).
  (* the last declaration of name k that compiled *)
  Definition last_ok (k : text) (pre : list (nat * decl)) : option (nat * decl) :=
    find (fun e => text_eqb k (key e) && parses_b e) (rev pre).

  Definition InvG (pre : list (nat * decl)) (m : mapper) : Prop :=
    routelist m = map mkr_w (filter good (last_wins pre))
    /\ forall k, assoc_get (routes m) k = option_map mkr_w (last_ok k pre).

  Lemma remove_id_absent_w i L : ~ In i (map fst L) -> remove_id i (map mkr_w L) = map mkr_w L.
  Proof.
    induction L as [|y L IH]; simpl; intros H; [reflexivity|].
    destruct (Nat.eqb_spec (fst y) i) as [E|NE]; [exfalso; auto|]. rewrite IH; auto.
  Qed.

  Lemma remove_old_w (f : nat * decl -> bool) x e : forall L,
    NoDup (map fst L) ->
    (forall a b, In a L -> In b L -> key a = key b -> a = b) ->
    find (fun e => text_eqb (key x) (key e)) L = Some e ->
    remove_id (fst e) (map mkr_w (filter f L)) = map mkr_w (filter f (filter (other_key x) L)).
  Proof.
    induction L as [|y L IH]; intros ND U F; simpl in *; [discriminate|].
    inversion ND as [|? ? Hny ND']; subst.
    assert (U' : forall a b, In a L -> In b L -> key a = key b -> a = b) by (intros a b Ha Hb Hk; apply U; [right; exact Ha|right; exact Hb|exact Hk]).
    unfold other_key at 1.
    destruct (text_eqb_spec (key x) (key y)) as [E|NE].
    - injection F as <-. rewrite <- E, text_eqb_refl. simpl.
      assert (HL : filter (other_key x) L = L).
      { apply filter_other_all. apply Forall_forall. intros z Hz Hk.
        assert (z = y) by (apply U; [right; exact Hz|left; reflexivity|congruence]). subst z.
        apply Hny. apply in_map. exact Hz. }
      rewrite HL. destruct (f y) eqn:Ny; simpl.
      + rewrite Nat.eqb_refl. reflexivity.
      + apply remove_id_absent_w. intros H. apply Hny. eapply In_filter_fst. exact H.
    - destruct (text_eqb_spec (key y) (key x)) as [E'|_]; [congruence|]. simpl.
      assert (He : In e L) by (apply find_some in F; tauto).
      destruct (f y) eqn:Ny; simpl.
      + destruct (Nat.eqb_spec (fst y) (fst e)) as [Eid|_].
        * exfalso. apply Hny. rewrite Eid. apply in_map. exact He.
        * rewrite IH; auto.
      + apply IH; auto.
  Qed.

  Lemma filter_drop_bad (f : nat * decl -> bool) x L :
    (forall e, In e L -> key e = key x -> f e = false) -> filter f (filter (other_key x) L) = filter f L.
  Proof.
    induction L as [|y L IH]; intros H; simpl; [reflexivity|]. unfold other_key at 1.
    destruct (text_eqb_spec (key y) (key x)) as [E|NE]; simpl.
    - rewrite (H y (or_introl eq_refl) E). apply IH. intros e He Hk; apply H; [right; exact He|exact Hk].
    - rewrite IH; [reflexivity|]. intros e He Hk; apply H; [right; exact He|exact Hk].
  Qed.

  Lemma last_wins_key_unique l : forall a b,
    In a (last_wins l) -> In b (last_wins l) -> key a = key b -> NoDup (map fst l) -> a = b.
  Proof.
    induction l as [|x l IH] using rev_ind; intros a b Ha Hb E ND; [destruct Ha|].
    rewrite last_wins_snoc in Ha, Hb. rewrite map_app in ND. apply NoDup_remove_1 in ND. rewrite app_nil_r in ND.
    apply in_app_or in Ha. apply in_app_or in Hb.
    destruct Ha as [Ha|[<-|[]]]; destruct Hb as [Hb|[<-|[]]]; auto.
    - apply filter_In in Ha. apply filter_In in Hb. apply IH; tauto.
    - apply filter_In in Ha. destruct Ha as [_ Ha]. unfold other_key in Ha. rewrite E, text_eqb_refl in Ha. discriminate.
    - apply filter_In in Hb. destruct Hb as [_ Hb]. unfold other_key in Hb. rewrite <- E, text_eqb_refl in Hb. discriminate.
  Qed.

  Lemma NoDup_fst_inj (l : list (nat * decl)) a b :
    NoDup (map fst l) -> In a l -> In b l -> fst a = fst b -> a = b.
  Proof.
    induction l as [|x l IH]; simpl; intros ND Ha Hb E; [destruct Ha|].
    inversion ND as [|? ? Hn ND']; subst.
    destruct Ha as [<-|Ha]; destruct Hb as [<-|Hb]; auto.
    - exfalso. apply Hn. rewrite E. apply in_map. exact Hb.
    - exfalso. apply Hn. rewrite <- E. apply in_map. exact Ha.
  Qed.

  Lemma last_ok_snoc k pre x :
    last_ok k (pre ++ [x]) = if text_eqb k (key x) && parses_b x then Some x else last_ok k pre.
  Proof. unfold last_ok. rewrite rev_app_distr. reflexivity. Qed.

  Lemma last_ok_In k pre e : last_ok k pre = Some e -> In e pre /\ key e = k /\ parses_b e = true.
  Proof.
    unfold last_ok. intros H. apply find_some in H. destruct H as [H1 H2].
    apply andb_true_iff in H2 as [H2 H3]. apply text_eqb_eq in H2. rewrite <- in_rev in H1. auto.
  Qed.

  (* the last declaration of a name vs. the last one that compiled *)
  Lemma link k : forall pre, NoDup (map fst pre) ->
    match find (fun e => text_eqb k (key e)) (last_wins pre) with
    | Some y => if parses_b y then last_ok k pre = Some y
                else forall e, last_ok k pre = Some e -> ~ In (fst e) (map fst (last_wins pre))
    | None => last_ok k pre = None
    end.
  Proof.
    induction pre as [|x pre IH] using rev_ind; intros ND; [reflexivity|].
    assert (ND' : NoDup (map fst pre)).
    { rewrite map_app in ND. apply NoDup_remove_1 in ND. rewrite app_nil_r in ND. exact ND. }
    assert (Hx : ~ In (fst x) (map fst pre)).
    { rewrite map_app in ND. apply NoDup_remove_2 in ND. rewrite app_nil_r in ND. exact ND. }
    specialize (IH ND').
    rewrite last_wins_snoc, find_app, last_ok_snoc.
    destruct (text_eqb_spec k (key x)) as [->|NE].
    - rewrite find_filter_same. simpl. rewrite text_eqb_refl. simpl.
      destruct (parses_b x) eqn:Px; [reflexivity|].
      intros e He. apply last_ok_In in He. destruct He as (He1 & He2 & _).
      rewrite map_app. intros Hin. apply in_app_or in Hin. destruct Hin as [Hin|[Hin|[]]].
      + apply in_map_iff in Hin. destruct Hin as (z & Ez & Hz). apply filter_In in Hz. destruct Hz as [Hz1 Hz2].
        apply last_wins_In in Hz1.
        assert (z = e) by (eapply NoDup_fst_inj; eauto). subst z.
        unfold other_key in Hz2. rewrite He2, text_eqb_refl in Hz2. discriminate.
      + apply Hx. simpl in Hin. rewrite Hin. apply in_map. exact He1.
    - rewrite (find_filter_other x k _ NE). simpl.
      destruct (find (fun e => text_eqb k (key e)) (last_wins pre)) as [y|].
      + destruct (parses_b y); [exact IH|].
        intros e He Hin. pose proof (last_ok_In _ _ _ He) as (He1 & _).
        rewrite map_app in Hin. apply in_app_or in Hin. destruct Hin as [Hin|[Hin|[]]].
        * apply (IH e He). eapply In_filter_fst. exact Hin.
        * apply Hx. simpl in Hin. rewrite Hin. apply in_map. exact He1.
      + simpl. destruct (text_eqb_spec k (key x)); [congruence|]. exact IH.
  Qed.

  Lemma connect_stepG pre m id d :
    InvG pre m -> NoDup (map fst (pre ++ [(id, d)])) ->
    exists m' st, connect_with parse m id d = (m', st)
                  /\ is_ok st = parses_b (id, d) /\ InvG (pre ++ [(id, d)]) m'.
  Proof.
    intros [Hrl Has] ND. set (x := (id, d)) in *.
    assert (ND' : NoDup (map fst pre)).
    { rewrite map_app in ND. apply NoDup_remove_1 in ND. rewrite app_nil_r in ND. exact ND. }
    assert (Hrl' : match assoc_get (routes m) (d_name d) with
                   | Some old => remove_id (r_id old) (routelist m)
                   | None => routelist m
                   end = map mkr_w (filter good (filter (other_key x) (last_wins pre)))).
    { rewrite (Has (d_name d)). change (d_name d) with (key x). rewrite Hrl.
      pose proof (link (key x) pre ND') as Lk.
      destruct (find (fun e => text_eqb (key x) (key e)) (last_wins pre)) as [y|] eqn:F.
      - assert (Uy : forall z, In z (last_wins pre) -> key z = key x -> z = y).
        { intros z Hz Hk. apply find_some in F. destruct F as [F1 F2]. apply text_eqb_eq in F2.
          eapply last_wins_key_unique; eauto. congruence. }
        destruct (parses_b y) eqn:Py.
        + rewrite Lk. simpl. apply remove_old_w; auto.
          * apply NoDup_sub_last_wins. exact ND'.
          * intros a b Ha Hb E. eapply last_wins_key_unique; eauto.
        + assert (Hbad : filter good (filter (other_key x) (last_wins pre)) = filter good (last_wins pre)).
          { apply filter_drop_bad. intros z Hz Hk. rewrite (Uy z Hz Hk). unfold good. rewrite Py. apply andb_false_r. }
          rewrite Hbad. destruct (last_ok (key x) pre) as [e|] eqn:Le; simpl; [|reflexivity].
          apply remove_id_absent_w. intros Hin. apply (Lk e eq_refl). eapply In_filter_fst. exact Hin.
      - rewrite Lk. simpl. rewrite (filter_other_none x _ F). reflexivity. }
    assert (Hsn : forall k, last_ok k (pre ++ [x]) = if text_eqb k (key x) && parses_b x then Some x else last_ok k pre)
      by (intros; apply last_ok_snoc).
    unfold connect_with. rewrite Hrl'.
    assert (Hg : filter good [x] = if nonstatic x && parses_b x then [x] else []) by reflexivity.
    assert (Hpx : parses_b x = match parse (d_src d) with Ok _ => true | _ => false end) by reflexivity.
    assert (Hmk : forall p, parse (d_src d) = Ok p -> mkRoute id (d_name d) p (d_preds d) = mkr_w x).
    { intros p Hp. unfold mkr_w, x, key. simpl. rewrite Hp. reflexivity. }
    assert (Hns : nonstatic x = negb (d_static d)) by reflexivity.
    destruct (parse (d_src d)) as [p| | |] eqn:Hp.
    - rewrite (Hmk p eq_refl).
      assert (Hassoc : forall k, assoc_get (assoc_set (routes m) (d_name d) (mkr_w x)) k
                                 = option_map mkr_w (last_ok k (pre ++ [x]))).
      { intros k. rewrite assoc_get_set, Hsn, Hpx, andb_true_r. change (d_name d) with (key x).
        destruct (text_eqb k (key x)); [reflexivity|apply Has]. }
      destruct (d_static d) eqn:St; do 2 eexists; (split; [reflexivity|]); (split; [symmetry; exact Hpx|]);
        (split; [|exact Hassoc]); cbn [routelist]; rewrite last_wins_snoc, filter_app, Hg, Hns, Hpx; simpl.
      + rewrite app_nil_r. reflexivity.
      + rewrite map_app. reflexivity.
    - do 2 eexists. split; [reflexivity|]. split; [symmetry; exact Hpx|]. split; cbn [routelist routes].
      + rewrite last_wins_snoc, filter_app, Hg, Hpx, andb_false_r, app_nil_r. reflexivity.
      + intros k. rewrite Hsn, Hpx, andb_false_r. apply Has.
    - do 2 eexists. split; [reflexivity|]. split; [symmetry; exact Hpx|]. split; cbn [routelist routes].
      + rewrite last_wins_snoc, filter_app, Hg, Hpx, andb_false_r, app_nil_r. reflexivity.
      + intros k. rewrite Hsn, Hpx, andb_false_r. apply Has.
    - do 2 eexists. split; [reflexivity|]. split; [symmetry; exact Hpx|]. split; cbn [routelist routes].
      + rewrite last_wins_snoc, filter_app, Hg, Hpx, andb_false_r, app_nil_r. reflexivity.
      + intros k. rewrite Hsn, Hpx, andb_false_r. apply Has.
  Qed.

  Lemma connect_all_invG : forall l pre m m' sts,
    InvG pre m -> map fst pre = seq 0 (length pre) ->
    connect_all_with parse m (length pre) l = (m', sts) ->
    map is_ok sts = map parses_b (number (length pre) l) /\ InvG (pre ++ number (length pre) l) m'.
  Proof.
    induction l as [|d l IH]; intros pre m m' sts HI Hids H; simpl in H.
    - injection H as <- <-. rewrite app_nil_r. auto.
    - assert (Hlen : length (pre ++ [(length pre, d)]) = S (length pre)) by (rewrite app_length; simpl; lia).
      assert (Hids' : map fst (pre ++ [(length pre, d)]) = seq 0 (length (pre ++ [(length pre, d)]))).
      { rewrite map_app, Hids, Hlen, seq_S. reflexivity. }
      destruct (connect_stepG pre m (length pre) d HI) as (m1 & st & E1 & Hst & HI1).
      { rewrite Hids'. apply seq_NoDup. }
      rewrite E1 in H.
      destruct (connect_all_with parse m1 (S (length pre)) l) as [m2 sts2] eqn:E2.
      injection H as <- <-.
      destruct (IH (pre ++ [(length pre, d)]) m1 m2 sts2 HI1 Hids') as [S2 I2].
      + rewrite Hlen. exact E2.
      + rewrite Hlen in S2, I2. split; [simpl; rewrite Hst, S2; reflexivity|].
        rewrite <- app_assoc in I2. exact I2.
  Qed.

  (* every connect call answers Ok exactly when its pattern compiles, and routelist holds, in
     order, the routes of those declarations that compile, are not static and are the LAST
     declaration of their name -- compiling or not *)
  Theorem connect_last_wins_general ds m sts :
    connect_all_with parse empty_mapper 0 ds = (m, sts) ->
    map is_ok sts = map parses_b (number 0 ds)
    /\ routelist m = map mkr_w (filter good (last_wins (number 0 ds))).
  Proof.
    intros H. destruct (connect_all_invG ds [] empty_mapper m sts) as [S [I _]]; auto.
    split; reflexivity.
  Qed.

  Lemma spec_routes_with_char L : spec_routes_with parse L = map mkr_w (filter good L).
  Proof.
    induction L as [|[i d] L IH]; simpl; [reflexivity|].
    unfold good at 1, parses_b, nonstatic. simpl.
    destruct (parse (d_src d)) as [p| | |] eqn:Hp; rewrite ?andb_false_r; auto.
    destruct (d_static d); simpl; [exact IH|]. rewrite IH. unfold mkr_w at 2, key. simpl. rewrite Hp. reflexivity.
  Qed.
End Connect.

Lemma connect_all_with_ext parse1 parse2 : (forall s, parse1 s = parse2 s) ->
  forall ds m id, connect_all_with parse1 m id ds = connect_all_with parse2 m id ds.
Proof.
  intros H. induction ds as [|d ds IH]; intros m id; simpl; [reflexivity|].
  unfold connect_with. rewrite H. destruct (parse2 (d_src d)); rewrite IH; reflexivity.
Qed.

Lemma spec_dispatch_with_find mt sm method rs path : (forall p s, mt p s = sm p s) ->
  fst (dispatch_with mt method rs path) = spec_dispatch_with sm method rs path.
Proof.
  intros H. unfold spec_dispatch_with. rewrite dispatch_with_find.
  rewrite (find_ext (qual mt method path) (qualifies_with sm method path)).
  - destruct (find (qualifies_with sm method path) rs); [|reflexivity]. rewrite H. reflexivity.
  - intros r. unfold qual, qualifies_with. rewrite H. reflexivity.
Qed.

(* end to end, no assumption that the declarations compile (only that none is outside the
   modelled sublanguage): the mapper's answer is the declarative specification's *)
Theorem request_spec_with pm ps mt sm ds method raw m sts :
  (forall s, pm s = ps s) -> (forall p s, mt p s = sm p s) ->
  sup_with ps ds = true -> connect_all_with pm empty_mapper 0 ds = (m, sts) ->
  spec_request_with ps sm ds method raw =
  match fst (dispatch_request_with mt m method raw) with
  | ODecodeError => SDecodeError
  | OMatch r d => SMatch r d
  | ONone => SNone
  | OConfigError => SNothing
  end.
Proof.
  intros Hp Hm Hs H. rewrite (connect_all_with_ext pm ps Hp) in H.
  destruct (connect_last_wins_general ps ds m sts H) as [_ Hrl].
  unfold spec_request_with. rewrite Hs. simpl. rewrite spec_routes_with_char, <- Hrl.
  unfold dispatch_request_with. destruct (request_path raw) as [|path]; [reflexivity|].
  rewrite <- (spec_dispatch_with_find mt sm method (routelist m) path Hm).
  destruct (dispatch_with mt method (routelist m) path) as [[[r d]|] tr]; reflexivity.
Qed.

(* ---------- instances for the facts of the current source *)
Lemma connect_all_is_with O ds : forall m id, connect_all O m id ds = connect_all_with (parse_pattern O) m id ds.
Proof.
  induction ds as [|d ds IH]; intros m id; [reflexivity|]. cbn [connect_all connect_all_with].
  change (connect O m id d) with (connect_with (parse_pattern O) m id d).
  destruct (connect_with (parse_pattern O) m id d) as [m1 st]. rewrite IH. reflexivity.
Qed.

Lemma dispatch_request_is_with O m method raw :
  dispatch_request O m method raw = dispatch_request_with (match_pat O) m method raw.
Proof. reflexivity. Qed.

Theorem request_spec_general O ds method raw m sts :
  sup_with (parse_core O (Some spec_default_hole)) ds = true ->
  connect_all O empty_mapper 0 ds = (m, sts) ->
  spec_request_g O ds method raw =
  match fst (dispatch_request O m method raw) with
  | ODecodeError => SDecodeError
  | OMatch r d => SMatch r d
  | ONone => SNone
  | OConfigError => SNothing
  end.
Proof.
  intros Hs H. rewrite connect_all_is_with in H. rewrite dispatch_request_is_with.
  exact (request_spec_with (parse_pattern O) (parse_core O (Some spec_default_hole)) (match_pat O) (spec_match O)
           ds method raw m sts (parse_pattern_core O) (match_spec O) Hs H).
Qed.

(* ---------- multi-atom placeholders *)
Theorem match_spec_m O p s : match_pat_m O p s = spec_match_m O p s.
Proof. unfold match_pat_m, spec_match_m. rewrite match_spec. reflexivity. Qed.

Lemma default_hole_is_segment_m : parse_reg_m default_hole_regex = Some [spec_default_hole].
Proof. vm_compute. reflexivity. Qed.

Lemma parse_pattern_m_core O src : parse_pattern_m O src = spec_parse_m O src.
Proof.
  unfold parse_pattern_m, spec_parse_m. rewrite regex_sources_ok_true, default_hole_is_segment_m. reflexivity.
Qed.

Theorem request_spec_m O ds method raw m sts :
  sup_with (spec_parse_m O) ds = true ->
  connect_all_with (parse_pattern_m O) empty_mapper 0 ds = (m, sts) ->
  spec_request_m O ds method raw =
  match fst (dispatch_request_with (match_pat_m O) m method raw) with
  | ODecodeError => SDecodeError
  | OMatch r d => SMatch r d
  | ONone => SNone
  | OConfigError => SNothing
  end.
Proof.
  intros Hs H.
  exact (request_spec_with (parse_pattern_m O) (spec_parse_m O) (match_pat_m O) (spec_match_m O)
           ds method raw m sts (parse_pattern_m_core O) (match_spec_m O) Hs H).
Qed.

(* ====================================================================== the parser *)
(* the source text of a piece, and the grammar of a placeholder body
   [_a-zA-Z][^{}]*(\{[^{}]*\}[^{}]* )* as a two-state checker *)
Definition piece_src (p : piece) : text :=
  match p with PLit t => t | PHole b => c_lbrace :: b ++ [c_rbrace] end.

Fixpoint body_chk (inner : bool) (s : text) : bool :=
  match s with
  | [] => negb inner
  | c :: r => if (c =? c_lbrace)%N then (if inner then false else body_chk true r)
              else if (c =? c_rbrace)%N then (if inner then body_chk false r else false)
              else body_chk inner r
  end.
Definition body_ok (b : text) : bool :=
  match b with c :: r => name_start c && body_chk false r | [] => false end.

Lemma brace_scan_sound : forall s inner acc body rest,
  brace_scan s inner acc = Some (body, rest) ->
  exists mid, body = rev acc ++ mid /\ s = mid ++ c_rbrace :: rest /\ body_chk inner mid = true.
Proof.
  induction s as [|c s IH]; intros inner acc body rest H; simpl in H; [discriminate|].
  destruct (N.eqb_spec c c_lbrace) as [->|NL].
  - destruct inner; [discriminate|]. destruct (IH _ _ _ _ H) as (mid & -> & -> & Hc).
    exists (c_lbrace :: mid). simpl. rewrite <- app_assoc. auto.
  - destruct (N.eqb_spec c c_rbrace) as [->|NR].
    + destruct inner.
      * destruct (IH _ _ _ _ H) as (mid & -> & -> & Hc).
        exists (c_rbrace :: mid). simpl. rewrite <- app_assoc. auto.
      * injection H as <- <-. exists []. rewrite app_nil_r. auto.
    + destruct (IH _ _ _ _ H) as (mid & -> & -> & Hc).
      exists (c :: mid). simpl. rewrite <- app_assoc.
      destruct (N.eqb_spec c c_lbrace); [contradiction|]. destruct (N.eqb_spec c c_rbrace); [contradiction|]. auto.
Qed.

Lemma brace_scan_complete : forall mid inner acc rest,
  body_chk inner mid = true -> brace_scan (mid ++ c_rbrace :: rest) inner acc = Some (rev acc ++ mid, rest).
Proof.
  induction mid as [|c mid IH]; intros inner acc rest H; simpl in *.
  - destruct inner; [discriminate|]. rewrite app_nil_r. reflexivity.
  - destruct (N.eqb_spec c c_lbrace) as [->|NL].
    + destruct inner; [discriminate|]. rewrite (IH _ _ _ H). simpl. rewrite <- app_assoc. reflexivity.
    + destruct (N.eqb_spec c c_rbrace) as [->|NR].
      * destruct inner; [|discriminate]. rewrite (IH _ _ _ H). simpl. rewrite <- app_assoc. reflexivity.
      * rewrite (IH _ _ _ H). simpl. rewrite <- app_assoc. reflexivity.
Qed.

Lemma brace_body_sound s body rest :
  brace_body s = Some (body, rest) -> s = body ++ c_rbrace :: rest /\ body_ok body = true.
Proof.
  destruct s as [|c s]; simpl; [discriminate|]. destruct (name_start c) eqn:Nc; [|discriminate].
  intros H. apply brace_scan_sound in H. destruct H as (mid & -> & -> & Hc). simpl. rewrite Nc. auto.
Qed.

Lemma brace_body_complete body rest :
  body_ok body = true -> brace_body (body ++ c_rbrace :: rest) = Some (body, rest).
Proof.
  destruct body as [|c b]; simpl; [discriminate|]. intros H. apply andb_true_iff in H as [-> H].
  rewrite (brace_scan_complete b false [c] rest H). reflexivity.
Qed.

(* route_re.search finds something exactly when the text contains a well-formed placeholder *)
Theorem has_brace_iff s :
  has_brace s = true <->
  exists pre body rest, s = pre ++ c_lbrace :: body ++ c_rbrace :: rest /\ body_ok body = true.
Proof.
  split.
  - induction s as [|c s IH]; simpl; [discriminate|]. intros H. apply orb_true_iff in H as [H|H].
    + apply andb_true_iff in H as [Hc Hb]. apply N.eqb_eq in Hc. subst c.
      destruct (brace_body s) as [[body rest]|] eqn:E; [|discriminate].
      apply brace_body_sound in E. destruct E as [-> Hok]. exists [], body, rest. auto.
    + destruct (IH H) as (pre & body & rest & -> & Hok). exists (c :: pre), body, rest. auto.
  - intros (pre & body & rest & -> & Hok). induction pre as [|c pre IH]; simpl.
    + rewrite (brace_body_complete body rest Hok). reflexivity.
    + rewrite IH. apply orb_true_r.
Qed.

(* route_re.split loses nothing and invents nothing, and every placeholder piece is well formed *)
Lemma split_route_src : forall s skip acc,
  skip <= length s -> flat_map piece_src (split_route s skip acc) = rev acc ++ skipn skip s.
Proof.
  induction s as [|c s IH]; intros skip acc Hs; simpl in *.
  - replace skip with 0 by lia. simpl. reflexivity.
  - destruct skip as [|k].
    + destruct (N.eqb_spec c c_lbrace) as [->|NL].
      * destruct (brace_body s) as [[body rest]|] eqn:E.
        -- apply brace_body_sound in E. destruct E as [-> _]. cbn [flat_map piece_src].
           rewrite IH by (rewrite app_length; simpl; lia).
           replace (S (length body)) with (length (body ++ [c_rbrace])) by (rewrite app_length; simpl; lia).
           replace (body ++ c_rbrace :: rest) with ((body ++ [c_rbrace]) ++ rest) by (rewrite <- app_assoc; reflexivity).
           rewrite skipn_app, Nat.sub_diag, skipn_all. simpl. rewrite <- !app_assoc. reflexivity.
        -- rewrite IH by lia. simpl. rewrite <- app_assoc. reflexivity.
      * rewrite IH by lia. simpl. rewrite <- app_assoc. reflexivity.
    + rewrite IH by lia. reflexivity.
Qed.

Definition piece_wf (p : piece) : Prop := match p with PLit _ => True | PHole b => body_ok b = true end.

Lemma split_route_wf : forall s skip acc, Forall piece_wf (split_route s skip acc).
Proof.
  induction s as [|c s IH]; intros skip acc; simpl.
  - constructor; [exact I|constructor].
  - destruct skip; [|apply IH].
    destruct (c =? c_lbrace)%N; [|apply IH].
    destruct (brace_body s) as [[body rest]|] eqn:E; [|apply IH].
    apply brace_body_sound in E. destruct E as [_ Hok].
    constructor; [exact I|]. constructor; [exact Hok|apply IH].
Qed.

(* route.rsplit('*', 1) *)
Lemma rsplit_star_none s : rsplit_star s = None -> ~ In c_star s.
Proof.
  induction s as [|c s IH]; simpl; [auto|].
  destruct (rsplit_star s) as [[a b]|]; [discriminate|].
  destruct (N.eqb_spec c c_star); [discriminate|]. intros _ [H|H]; [congruence|]. apply IH; auto.
Qed.

Lemma rsplit_star_spec : forall s a b, rsplit_star s = Some (a, b) -> s = a ++ c_star :: b /\ ~ In c_star b.
Proof.
  induction s as [|c s IH]; intros a b H; simpl in H; [discriminate|].
  destruct (rsplit_star s) as [[a' b']|] eqn:E.
  - injection H as <- <-. destruct (IH _ _ eq_refl) as [-> Hn]. auto.
  - destruct (N.eqb_spec c c_star) as [->|]; [|discriminate]. injection H as <- <-.
    split; [reflexivity|]. apply rsplit_star_none. exact E.
Qed.

(* the remainder: the text after the LAST star, when it is only word characters (plus the
   newline oddity of the module regex); an empty name declares no remainder *)
Lemma split_star_spec O r2 r3 rem :
  split_star O r2 = (r3, rem) ->
  (r3 = r2 /\ rem = []) \/ (r2 = r3 ++ c_star :: rem /\ ~ In c_star rem /\ word_then_end O rem = true).
Proof.
  unfold split_star. destruct (rsplit_star r2) as [[a b]|] eqn:E.
  - destruct (word_then_end O b) eqn:W; intros H; injection H as <- <-; [|auto].
    apply rsplit_star_spec in E. destruct E as [-> Hn]. right. auto.
  - intros H; injection H as <- <-. auto.
Qed.

(* pieces <-> items *)
Inductive pieces_items (dflt : option hre) : list piece -> list item -> Prop :=
| PI_nil : pieces_items dflt [] []
| PI_empty ps its : pieces_items dflt ps its -> pieces_items dflt (PLit [] :: ps) its
| PI_lit c t ps its : pieces_items dflt ps its -> pieces_items dflt (PLit (c :: t) :: ps) (Lit (c :: t) :: its)
| PI_hole body ps its n reg h :
    split_colon body = (n, reg) ->
    match reg with Some r => parse_reg r = Some h | None => dflt = Some h end ->
    name_check n = Ok tt ->
    pieces_items dflt ps its -> pieces_items dflt (PHole body :: ps) (Hole n h :: its).

Lemma seq_items_sound dflt : forall ps its,
  seq_items (map (piece_item dflt) ps) = Ok its -> pieces_items dflt ps its.
Proof.
  induction ps as [|p ps IH]; intros its H; simpl in H.
  - injection H as <-. constructor.
  - destruct (piece_item dflt p) as [oi| | |] eqn:Ep;
      destruct (seq_items (map (piece_item dflt) ps)) as [l'| | |] eqn:Es; try discriminate;
      try (destruct oi; discriminate).
    destruct p as [t|body]; simpl in Ep.
    + destruct t as [|c t]; injection Ep as <-; injection H as <-; constructor; auto.
    + destruct (split_colon body) as [n reg] eqn:Ec.
      destruct (match reg with Some r => parse_reg r | None => dflt end) as [h|] eqn:Eh; [|discriminate].
      destruct (name_check n) as [[]| | |] eqn:En; try discriminate.
      injection Ep as <-. injection H as <-.
      eapply PI_hole; eauto. destruct reg; exact Eh.
Qed.

Lemma split_colon_spec : forall s n reg, split_colon s = (n, reg) ->
  ~ In c_colon n /\ match reg with Some r => s = n ++ c_colon :: r | None => s = n end.
Proof.
  induction s as [|c s IH]; intros n reg H; simpl in H.
  - injection H as <- <-. auto.
  - destruct (N.eqb_spec c c_colon) as [->|NE].
    + injection H as <- <-. auto.
    + destruct (split_colon s) as [a b] eqn:E. injection H as <- <-.
      destruct (IH _ _ eq_refl) as [Hn Hr]. split.
      * intros [X|X]; [congruence|auto].
      * destruct b; rewrite Hr; reflexivity.
Qed.

(* what a successfully parsed pattern denotes: the normalised pattern text is the
   concatenation of the source texts of its pieces followed by the remainder declaration;
   literal pieces are literal items, well-formed {..} pieces are placeholders whose name is
   the text before the first colon (an identifier) and whose language is the regex after it
   (the default without a colon); group names are pairwise different *)
Theorem parse_core_sound O dflt src p :
  parse_core O dflt src = Ok p ->
  exists r3 rem pieces,
    ((normalise O src = r3 /\ rem = [])
     \/ (normalise O src = r3 ++ c_star :: rem /\ ~ In c_star rem /\ word_then_end O rem = true))
    /\ star p = match rem with [] => None | _ => Some rem end
    /\ match rem with [] => True | _ => name_check rem = Ok tt end
    /\ flat_map piece_src pieces = r3 /\ Forall piece_wf pieces
    /\ pieces_items dflt pieces (items p)
    /\ has_dup (pat_names p) = false.
Proof.
  intros H.
  assert (E : parse_core O dflt src =
              let '(r3, rem) := split_star O (normalise O src) in
              match seq_items (map (piece_item dflt) (split_route r3 0 [])) with
              | Ok its =>
                  let st := match rem with [] => Ok None
                            | _ => match name_check rem with
                                   | Ok _ => Ok (Some rem) | CompileError => CompileError
                                   | Unsupported => Unsupported | FactsDrift => FactsDrift end
                            end in
                  match st with
                  | Ok st => let p := mkPat its st in if has_dup (pat_names p) then CompileError else Ok p
                  | CompileError => CompileError | Unsupported => Unsupported | FactsDrift => FactsDrift
                  end
              | CompileError => match rem with [] => CompileError
                                | _ => match name_check rem with Unsupported => Unsupported | _ => CompileError end end
              | Unsupported => Unsupported
              | FactsDrift => FactsDrift
              end) by reflexivity.
  rewrite E in H. clear E.
  destruct (split_star O (normalise O src)) as [r3 rem] eqn:Es.
  destruct (seq_items (map (piece_item dflt) (split_route r3 0 []))) as [its| | |] eqn:Ei;
    try discriminate; try (destruct rem; [discriminate|destruct (name_check (n :: rem)); discriminate]).
  exists r3, rem, (split_route r3 0 []).
  pose proof (split_star_spec O _ _ _ Es) as Hstar.
  pose proof (split_route_src r3 0 [] (Nat.le_0_l _)) as Hsrc. simpl in Hsrc.
  pose proof (split_route_wf r3 0 []) as Hwf.
  pose proof (seq_items_sound dflt _ _ Ei) as Hpi.
  destruct rem as [|c rem].
  - cbv beta iota zeta in H. destruct (has_dup (pat_names (mkPat its None))) eqn:Hd; [discriminate|].
    injection H as <-. simpl. repeat split; auto.
    destruct Hstar as [[-> _]|[Hx _]]; auto.
  - destruct (name_check (c :: rem)) as [[]| | |] eqn:En; try discriminate.
    cbv beta iota zeta in H. revert H. destruct (has_dup _) eqn:Hd; intros H; [discriminate H|].
    injection H as <-. simpl. repeat split; auto.
    destruct Hstar as [[_ X]|Hx]; [discriminate X|]. right. exact Hx.
Qed.

(* ---------- printing round trip for canonical patterns *)
Lemma ident_char_plain c : ident_char c = true ->
  (c <? 128)%N = true /\ c <> c_lbrace /\ c <> c_rbrace /\ c <> c_star /\ c <> c_colon.
Proof.
  unfold ident_char, name_start, is_lower, is_upper, is_digit_ascii, c_lbrace, c_rbrace, c_star, c_colon. lia.
Qed.

Definition lit_char_ok (c : N) : bool :=
  negb ((c =? c_lbrace)%N || (c =? c_rbrace)%N || (c =? c_star)%N || (c =? c_colon)%N).
Definition reg_char_ok (c : N) : bool := negb ((c =? c_lbrace)%N || (c =? c_rbrace)%N || (c =? c_star)%N).

Definition ident (n : text) : bool := match n with c :: r => name_start c && forallb ident_char r | [] => false end.
(* a printable placeholder: an identifier, and either the default language or a regex whose
   printed text has no brace/star and parses back to it *)
Definition hole_canon (n : text) (h : hre) : Prop :=
  ident n = true
  /\ (h = spec_default_hole
      \/ (hre_eqb_default h = false /\ forallb reg_char_ok (print_hre h) = true
          /\ parse_reg (print_hre h) = Some h)).
(* literals are non-empty, never adjacent, and free of { } * : *)
Inductive canon_items : bool -> list item -> Prop :=
| CI_nil b : canon_items b []
| CI_lit l r : l <> [] -> forallb lit_char_ok l = true -> canon_items true r -> canon_items false (Lit l :: r)
| CI_hole b n h r : hole_canon n h -> canon_items false r -> canon_items b (Hole n h :: r).

Definition body_of (n : text) (h : hre) : text :=
  if hre_eqb_default h then n else n ++ c_colon :: print_hre h.
Lemma print_hole n h : print_item (Hole n h) = c_lbrace :: body_of n h ++ [c_rbrace].
Proof. unfold print_item, body_of. destruct (hre_eqb_default h); [reflexivity|]. rewrite <- app_assoc. reflexivity. Qed.

Lemma ident_chars n : ident n = true -> n <> [] /\ forallb ident_char n = true /\ name_check n = Ok tt.
Proof.
  destruct n as [|c r]; simpl; [discriminate|]. intros H. apply andb_true_iff in H as [Hc Hr].
  assert (Hi : ident_char c = true) by (unfold ident_char; rewrite Hc; reflexivity).
  repeat split; [discriminate|rewrite Hi, Hr; reflexivity|].
  unfold name_check.
  assert (E : existsb (fun c0 => (128 <=? c0)%N || (c0 =? c_gt)%N) (c :: r) = false).
  { apply not_true_is_false. intros X. apply existsb_exists in X. destruct X as (x & Hx & Hb).
    assert (Hix : ident_char x = true).
    { destruct Hx as [<-|Hx]; [exact Hi|]. rewrite forallb_forall in Hr. auto. }
    revert Hix Hb. unfold ident_char, name_start, is_lower, is_upper, is_digit_ascii, c_gt. lia. }
  rewrite E, Hc, Hr. reflexivity.
Qed.

Lemma body_chk_nobrace s : forallb (fun c => negb ((c =? c_lbrace)%N || (c =? c_rbrace)%N)) s = true -> body_chk false s = true.
Proof.
  induction s as [|c s IH]; simpl; [reflexivity|]. intros H. apply andb_true_iff in H as [Hc Hs].
  apply negb_true_iff, orb_false_iff in Hc. destruct Hc as [-> ->]. auto.
Qed.

Lemma body_of_ok n h : hole_canon n h -> body_ok (body_of n h) = true.
Proof.
  intros [Hid Hh]. destruct (ident_chars n Hid) as (Hne & Hcs & _).
  assert (Hn : forallb (fun c => negb ((c =? c_lbrace)%N || (c =? c_rbrace)%N)) n = true).
  { apply forallb_forall. intros c Hc. rewrite forallb_forall in Hcs. specialize (Hcs c Hc).
    apply ident_char_plain in Hcs. destruct Hcs as (_ & H1 & H2 & _).
    apply negb_true_iff, orb_false_iff. split; apply N.eqb_neq; assumption. }
  assert (Hb : forallb (fun c => negb ((c =? c_lbrace)%N || (c =? c_rbrace)%N)) (body_of n h) = true).
  { unfold body_of. destruct Hh as [->|(Hd & Hr & _)].
    - exact Hn.
    - rewrite Hd, forallb_app. rewrite Hn. simpl. apply forallb_forall. intros c Hc.
      rewrite forallb_forall in Hr. specialize (Hr c Hc). unfold reg_char_ok in Hr.
      apply negb_true_iff, orb_false_iff in Hr. destruct Hr as [Hr _]. apply negb_true_iff. exact Hr. }
  destruct n as [|c r]; [congruence|]. simpl in Hid. apply andb_true_iff in Hid as [Hc _].
  assert (E : body_of (c :: r) h = c :: tl (body_of (c :: r) h)).
  { unfold body_of. destruct (hre_eqb_default h); reflexivity. }
  rewrite E in Hb |- *. simpl. rewrite Hc. simpl in Hb. apply andb_true_iff in Hb as [_ Hb].
  apply body_chk_nobrace. exact Hb.
Qed.

Lemma split_route_skip : forall a s acc, split_route (a ++ s) (length a) acc = split_route s 0 acc.
Proof. induction a as [|c a IH]; intros s acc; simpl; [reflexivity|apply IH]. Qed.

Lemma split_route_lit : forall l s acc,
  forallb lit_char_ok l = true -> split_route (l ++ s) 0 acc = split_route s 0 (rev l ++ acc).
Proof.
  induction l as [|c l IH]; intros s acc H; simpl in *; [reflexivity|].
  apply andb_true_iff in H as [Hc Hl]. unfold lit_char_ok in Hc.
  apply negb_true_iff in Hc. apply orb_false_iff in Hc as [Hc _]. apply orb_false_iff in Hc as [Hc _].
  apply orb_false_iff in Hc as [Hc _]. rewrite Hc, (IH _ _ Hl), <- app_assoc. reflexivity.
Qed.

Lemma split_route_hole body s acc : body_ok body = true ->
  split_route (c_lbrace :: body ++ c_rbrace :: s) 0 acc = PLit (rev acc) :: PHole body :: split_route s 0 [].
Proof.
  intros H. simpl. rewrite (brace_body_complete body s H). do 2 f_equal.
  replace (body ++ c_rbrace :: s) with ((body ++ [c_rbrace]) ++ s) by (rewrite <- app_assoc; reflexivity).
  replace (S (length body)) with (length (body ++ [c_rbrace])) by (rewrite app_length; simpl; lia).
  apply split_route_skip.
Qed.

Fixpoint exp_pieces (its : list item) (acc : text) : list piece :=
  match its with
  | [] => [PLit (rev acc)]
  | Lit l :: r => exp_pieces r (rev l ++ acc)
  | Hole n h :: r => PLit (rev acc) :: PHole (body_of n h) :: exp_pieces r []
  end.

Lemma split_print b its : canon_items b its ->
  forall acc, split_route (flat_map print_item its) 0 acc = exp_pieces its acc.
Proof.
  induction 1 as [b|l r Hne Hl Hr IH|b n h r Hh Hr IH]; intros acc.
  - reflexivity.
  - cbn [flat_map print_item exp_pieces]. rewrite (split_route_lit l _ acc Hl). apply IH.
  - cbn [flat_map exp_pieces]. rewrite print_hole. cbn [app]. rewrite <- app_assoc. cbn [app].
    rewrite (split_route_hole _ _ acc (body_of_ok n h Hh)), IH. reflexivity.
Qed.

Lemma split_colon_ident n r : forallb ident_char n = true ->
  split_colon n = (n, None) /\ split_colon (n ++ c_colon :: r) = (n, Some r).
Proof.
  induction n as [|c n IH]; simpl; intros H.
  - auto.
  - apply andb_true_iff in H as [Hc Hn]. apply ident_char_plain in Hc. destruct Hc as (_ & _ & _ & _ & Hc).
    destruct (N.eqb_spec c c_colon); [contradiction|]. destruct (IH Hn) as [-> ->]. auto.
Qed.

Lemma piece_item_hole n h : hole_canon n h ->
  piece_item (Some spec_default_hole) (PHole (body_of n h)) = Ok (Some (Hole n h)).
Proof.
  intros [Hid Hh]. destruct (ident_chars n Hid) as (_ & Hcs & Hnc). unfold piece_item, body_of.
  destruct Hh as [->|(Hd & _ & Hp)].
  - simpl. destruct (split_colon_ident n [] Hcs) as [-> _]. rewrite Hnc. reflexivity.
  - rewrite Hd. destruct (split_colon_ident n (print_hre h) Hcs) as [_ ->]. rewrite Hp, Hnc. reflexivity.
Qed.

Lemma seq_items_exp b its : canon_items b its -> forall acc,
  (b = true -> acc <> []) -> (b = false -> acc = []) ->
  seq_items (map (piece_item (Some spec_default_hole)) (exp_pieces its acc))
  = Ok (match acc with [] => its | _ => Lit (rev acc) :: its end).
Proof.
  assert (Hrev : forall acc : text, acc <> [] -> exists c t, rev acc = c :: t).
  { intros acc Ha. destruct (rev acc) as [|c t] eqn:E; [|eauto].
    apply (f_equal (@rev N)) in E. rewrite rev_involutive in E. simpl in E. congruence. }
  induction 1 as [b|l r Hne Hl Hr IH|b n h r Hh Hr IH]; intros acc Ht Hf.
  - simpl. destruct acc as [|c acc]; [reflexivity|].
    destruct (Hrev (c :: acc) ltac:(discriminate)) as (c' & t & E). rewrite E. reflexivity.
  - rewrite (Hf eq_refl). cbn [exp_pieces]. rewrite app_nil_r, IH.
    + destruct (rev l) as [|c t] eqn:E.
      * apply (f_equal (@rev N)) in E. rewrite rev_involutive in E. simpl in E. congruence.
      * rewrite <- E, rev_involutive. reflexivity.
    + intros _ E. apply (f_equal (@rev N)) in E. rewrite rev_involutive in E. simpl in E. congruence.
    + discriminate.
  - cbn [exp_pieces map seq_items]. rewrite (piece_item_hole n h Hh), (IH [] ltac:(discriminate) ltac:(reflexivity)).
    destruct acc as [|c acc]; [reflexivity|].
    destruct (Hrev (c :: acc) ltac:(discriminate)) as (c' & t & E). rewrite E. reflexivity.
Qed.

Lemma parse_core_unfold O dflt src :
  parse_core O dflt src =
  let '(r3, rem) := split_star O (normalise O src) in
  match seq_items (map (piece_item dflt) (split_route r3 0 [])) with
  | Ok its =>
      let st := match rem with [] => Ok None
                | _ => match name_check rem with
                       | Ok _ => Ok (Some rem) | CompileError => CompileError
                       | Unsupported => Unsupported | FactsDrift => FactsDrift end
                end in
      match st with
      | Ok st => let p := mkPat its st in if has_dup (pat_names p) then CompileError else Ok p
      | CompileError => CompileError | Unsupported => Unsupported | FactsDrift => FactsDrift
      end
  | CompileError => match rem with [] => CompileError
                    | _ => match name_check rem with Unsupported => Unsupported | _ => CompileError end end
  | Unsupported => Unsupported
  | FactsDrift => FactsDrift
  end.
Proof. reflexivity. Qed.

Lemma rsplit_star_nostar s : ~ In c_star s -> rsplit_star s = None.
Proof.
  induction s as [|c s IH]; simpl; intros H; [reflexivity|].
  rewrite IH by (intros X; apply H; right; exact X).
  destruct (N.eqb_spec c c_star); [exfalso; apply H; left; auto|reflexivity].
Qed.

Lemma rsplit_star_app a b : ~ In c_star b -> rsplit_star (a ++ c_star :: b) = Some (a, b).
Proof.
  intros H. induction a as [|c a IH]; simpl.
  - rewrite (rsplit_star_nostar b H). reflexivity.
  - rewrite IH. reflexivity.
Qed.

Lemma word_then_end_ident O n : n <> [] -> forallb ident_char n = true -> word_then_end O n = true.
Proof.
  induction n as [|c n IH]; [congruence|]. intros _ H. simpl in H. apply andb_true_iff in H as [Hc Hn].
  assert (Hw : word O c = true).
  { unfold word. destruct (ident_char_plain c Hc) as [-> _]. exact Hc. }
  destruct n as [|d n'].
  - simpl. rewrite Hw. apply orb_true_r.
  - change (word_then_end O (c :: d :: n')) with (word O c && word_then_end O (d :: n')).
    rewrite Hw, IH; [reflexivity|discriminate|exact Hn].
Qed.

Lemma has_old_colon s : has_old s = true -> In c_colon s.
Proof.
  induction s as [|c s IH]; simpl; [discriminate|]. intros H. apply orb_true_iff in H as [H|H].
  - apply andb_true_iff in H as [H _]. apply N.eqb_eq in H. auto.
  - auto.
Qed.

Lemma canon_hole_in b its n h : canon_items b its -> In (Hole n h) its -> hole_canon n h.
Proof.
  induction 1 as [b|l r Hne Hl Hr IH|b n' h' r Hh Hr IH]; simpl; intros Hin.
  - destruct Hin.
  - destruct Hin as [E|Hin]; [discriminate|auto].
  - destruct Hin as [E|Hin]; [injection E as <- <-; exact Hh|auto].
Qed.

(* where a star or a colon can occur in the printed items *)
Lemma hole_text_chars n h c : hole_canon n h -> In c (print_item (Hole n h)) -> c <> c_star.
Proof.
  intros [Hid Hh] Hin. destruct (ident_chars n Hid) as (_ & Hcs & _).
  rewrite print_hole in Hin. destruct Hin as [<-|Hin]; [discriminate|].
  apply in_app_or in Hin. destruct Hin as [Hin|[<-|[]]]; [|discriminate].
  assert (Hn : forall x, In x n -> x <> c_star).
  { intros x Hx. rewrite forallb_forall in Hcs. specialize (Hcs x Hx). apply ident_char_plain in Hcs. tauto. }
  unfold body_of in Hin. destruct Hh as [->|(Hd & Hr & _)].
  - simpl in Hin. auto.
  - rewrite Hd in Hin. apply in_app_or in Hin. destruct Hin as [Hin|[<-|Hin]]; [auto|discriminate|].
    rewrite forallb_forall in Hr. specialize (Hr c Hin). unfold reg_char_ok in Hr.
    apply negb_true_iff in Hr. apply orb_false_iff in Hr as [_ Hr]. apply N.eqb_neq. exact Hr.
Qed.

Lemma lit_chars l c : forallb lit_char_ok l = true -> In c l -> c <> c_star /\ c <> c_colon.
Proof.
  intros H Hin. rewrite forallb_forall in H. specialize (H c Hin). unfold lit_char_ok in H.
  apply negb_true_iff in H. apply orb_false_iff in H as [H Hcol]. apply orb_false_iff in H as [_ Hst].
  split; apply N.eqb_neq; assumption.
Qed.

Lemma no_star_in_items b its : canon_items b its -> ~ In c_star (flat_map print_item its).
Proof.
  induction 1 as [b|l r Hne Hl Hr IH|b n h r Hh Hr IH]; cbn [flat_map]; intros Hin.
  - destruct Hin.
  - apply in_app_or in Hin. destruct Hin as [Hin|Hin]; [|auto].
    destruct (lit_chars l c_star Hl Hin) as [X _]. congruence.
  - apply in_app_or in Hin. destruct Hin as [Hin|Hin]; [|auto].
    apply (hole_text_chars n h c_star Hh Hin). reflexivity.
Qed.

Lemma colon_needs_hole b its : canon_items b its -> In c_colon (flat_map print_item its) ->
  exists n h, In (Hole n h) its.
Proof.
  induction 1 as [b|l r Hne Hl Hr IH|b n h r Hh Hr IH]; cbn [flat_map]; intros Hin.
  - destruct Hin.
  - apply in_app_or in Hin. destruct Hin as [Hin|Hin].
    + destruct (lit_chars l c_colon Hl Hin) as [_ X]. congruence.
    + destruct (IH Hin) as (n & h & H). exists n, h. right. exact H.
  - exists n, h. left. reflexivity.
Qed.

Lemma has_brace_of_hole b its tail n h :
  canon_items b its -> In (Hole n h) its -> has_brace (flat_map print_item its ++ tail) = true.
Proof.
  intros Hc Hin. apply has_brace_iff. pose proof (canon_hole_in b its n h Hc Hin) as Hh.
  apply in_split in Hin. destruct Hin as (l1 & l2 & ->).
  exists (flat_map print_item l1), (body_of n h), (flat_map print_item l2 ++ tail).
  split; [|apply body_of_ok; exact Hh].
  rewrite flat_map_app. cbn [flat_map]. rewrite print_hole. cbn [app].
  rewrite <- !app_assoc. cbn [app]. rewrite <- app_assoc. reflexivity.
Qed.

(* canonical: begins with a literal starting with '/', literals non-empty, not adjacent and
   free of { } * :, placeholders printable, remainder name an identifier, names distinct *)
Definition canonical (p : pat) : Prop :=
  (exists l0 r, items p = Lit (47%N :: l0) :: r)
  /\ canon_items false (items p)
  /\ match star p with Some n => ident n = true | None => True end
  /\ has_dup (pat_names p) = false.

Theorem print_parse_roundtrip O p :
  canonical p -> parse_core O (Some spec_default_hole) (print_pat p) = Ok p.
Proof.
  intros ((l0 & r & Hi) & Hc & Hs & Hd).
  set (A := flat_map print_item (items p)).
  set (tail := match star p with Some n => c_star :: n | None => [] end).
  assert (Hsrc : print_pat p = A ++ tail) by reflexivity.
  assert (Htail_colon : ~ In c_colon tail).
  { unfold tail. destruct (star p) as [n|]; [|intros []]. destruct (ident_chars n Hs) as (_ & Hcs & _).
    intros [X|X]; [discriminate|]. rewrite forallb_forall in Hcs. specialize (Hcs _ X).
    apply ident_char_plain in Hcs. tauto. }
  assert (Hnorm : normalise O (print_pat p) = print_pat p).
  { unfold normalise.
    assert (Hob : has_old (print_pat p) && negb (has_brace (print_pat p)) = false).
    { destruct (has_old (print_pat p)) eqn:Ho; [|reflexivity]. apply has_old_colon in Ho.
      rewrite Hsrc in Ho. apply in_app_or in Ho. destruct Ho as [Ho|Ho]; [|contradiction].
      destruct (colon_needs_hole false _ Hc Ho) as (n & h & Hin).
      rewrite Hsrc. unfold A. rewrite (has_brace_of_hole false _ tail n h Hc Hin). reflexivity. }
    rewrite Hob. rewrite Hsrc. unfold A. rewrite Hi. reflexivity. }
  assert (Hsplit : split_star O (print_pat p) = (A, match star p with Some n => n | None => [] end)).
  { unfold split_star. rewrite Hsrc. unfold tail. destruct (star p) as [n|].
    - destruct (ident_chars n Hs) as (Hne & Hcs & _).
      assert (Hns : ~ In c_star n).
      { intros X. rewrite forallb_forall in Hcs. specialize (Hcs _ X). apply ident_char_plain in Hcs. tauto. }
      rewrite (rsplit_star_app A n Hns), (word_then_end_ident O n Hne Hcs). reflexivity.
    - rewrite app_nil_r, (rsplit_star_nostar A (no_star_in_items false _ Hc)). reflexivity. }
  rewrite parse_core_unfold, Hnorm, Hsplit. unfold A.
  rewrite (split_print false _ Hc []), (seq_items_exp false _ Hc [] ltac:(discriminate) ltac:(reflexivity)).
  destruct p as [its st]. simpl in *. destruct st as [n|].
  - destruct (ident_chars n Hs) as (Hne & _ & Hnc). destruct n as [|c n]; [congruence|].
    rewrite Hnc. cbv beta iota zeta. unfold pat_names in *. simpl in *. rewrite Hd. reflexivity.
  - cbv beta iota zeta. unfold pat_names in *. simpl in *. rewrite Hd. reflexivity.
Qed.

(* ---------- histories: a dispatch does not depend on earlier dispatches *)
Lemma matcher_fresh : matcher_pure_ok = true.
Proof. vm_compute. reflexivity. Qed.

Theorem hist_outcomes_pointwise mt m steps :
  hist_outcomes mt m steps = Some (map (fun s => fst (dispatch_request_with mt m (snd s) (fst s))) steps).
Proof. unfold hist_outcomes. rewrite matcher_fresh. reflexivity. Qed.

(* whatever was dispatched before (and whatever the callers did to the dictionaries they were
   handed), the outcome of a dispatch is the one of its own path *)
Theorem history_independent mt m pre1 pre2 s l1 l2 :
  hist_outcomes mt m (pre1 ++ [s]) = Some l1 -> hist_outcomes mt m (pre2 ++ [s]) = Some l2 ->
  last l1 ONone = last l2 ONone
  /\ last l1 ONone = fst (dispatch_request_with mt m (snd s) (fst s)).
Proof.
  rewrite !hist_outcomes_pointwise. intros H1 H2. injection H1 as <-. injection H2 as <-.
  rewrite !map_app. simpl. rewrite !last_last. auto.
Qed.

(* and, for declarations none of which is outside the sublanguage, every dispatch of a history is
   the declarative specification's answer for ITS path *)
Theorem history_spec_m O ds steps m sts l :
  sup_with (spec_parse_m O) ds = true ->
  connect_all_with (parse_pattern_m O) empty_mapper 0 ds = (m, sts) ->
  hist_outcomes (match_pat_m O) m steps = Some l ->
  spec_hist (spec_parse_m O) (spec_match_m O) ds steps =
  map (fun o => match o with
                | ODecodeError => SDecodeError | OMatch r d => SMatch r d
                | ONone => SNone | OConfigError => SNothing end) l.
Proof.
  intros Hs H. rewrite hist_outcomes_pointwise. intros E. injection E as <-.
  unfold spec_hist. rewrite map_map. apply map_ext. intros s.
  exact (request_spec_m O ds (snd s) (fst s) m sts Hs H).
Qed.

(* regexes of the non-set classes with the four printable quantifiers do print and parse back *)
Lemma parse_print_simple_hre c lo hi q :
  match c with CSet _ _ => False | _ => True end -> print_quant lo hi = Some q ->
  parse_reg (print_hre (mkHre c lo hi)) = Some (mkHre c lo hi).
Proof.
  intros Hc Hq. destruct c; try contradiction;
    destruct lo as [|[|lo]]; destruct hi as [[|[|hi]]|]; try discriminate; reflexivity.
Qed.

Require Import Coq.Strings.String.
Example roundtrip_nonvacuous :
  let p := mkPat [Lit (T "/f/"); Hole (T "a") spec_default_hole; Lit (T "."); Hole (T "b") (mkHre CDigit 1 None);
                  Lit (T "/")] (Some (T "rest")) in
  print_pat p = T "/f/{a}.{b:\d+}/*rest" /\ parse_core no_oracle (Some spec_default_hole) (print_pat p) = Ok p.
Proof. vm_compute. split; reflexivity. Qed.

(* multi-atom placeholders: parsing, grouping, greedy backtracking across atoms *)
Example multi_atom_nonvacuous :
  parse_reg_m (T "\d{4}-\d{2}")
    = Some [mkHre CDigit 4 (Some 4); mkHre (CSet false [CChar 45%N]) 1 (Some 1); mkHre CDigit 2 (Some 2)]
  /\ (exists p, parse_pattern_m no_oracle (T "/{d:\d{4}-\d{2}}/{x:a?a?aa}{y:[a-z]+\d*}") = Ok p
        /\ match_pat_m no_oracle p (T "/2024-09/aaab7") = Some [(T "d", MText (T "2024-09")); (T "x", MText (T "aaa"));
                                                               (T "y", MText (T "b7"))]
        /\ match_pat_m no_oracle p (T "/2024-9/aaab7") = None)
  /\ parse_pattern_m no_oracle (T "/{a:\d}{a:\d}") = CompileError
  /\ parse_pattern_m no_oracle (T "/{a:\d+?}") = Unsupported.
Proof. vm_compute. repeat split. eexists. repeat split. Qed.
