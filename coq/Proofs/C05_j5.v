(* C05 -- judge clause J5 ("no stray policy call") is SOUND at registration level: the executable clause, with "some view is
   protected by p" read from the derived-view table D (a registered view whose _secured_view closed over p, or an append-slash
   Not Found view whose inner view did), accepts the trace of EVERY request of EVERY registry state. *)
From Coq Require Import List NArith ZArith Bool Lia.
Import ListNotations.
Require Import Verif.Lib.Wire Verif.Gen.Facts_C03 Verif.Model.C03 Verif.Gen.Facts_C05 Verif.Model.C05.
Require Import Verif.Proofs.C05 Verif.Proofs.C05_cfg Verif.Proofs.C05_seq Verif.Proofs.C05_judge Verif.Proofs.C05_gen.
Local Close Scope N_scope.
Local Open Scope nat_scope.

Definition closes_over (p : text) (d : dview) : bool :=
  match d_perm d with Some p' => text_eqb p p' | None => false end
  || match d_body d with Slash (Some p') _ => text_eqb p p' | _ => false end.
Definition on_behalf_b (D : list (N * dview)) (p : text) : bool := existsb (fun kd => closes_over p (snd kd)) D.

Fixpoint j5D (D : list (N * dview)) (tr : trace) : bool :=
  match tr with
  | [] => true
  | Permits p _ _ :: r => on_behalf_b D p && j5D D r
  | _ :: r => j5D D r
  end.

Lemma assocN_In {B} t (d : B) l : assocN t l = Some d -> In (t, d) l.
Proof.
  induction l as [|[k v] r IH]; simpl; [discriminate|].
  destruct (N.eqb t k) eqn:E; [apply N.eqb_eq in E; intros H; inversion H; subst; left; reflexivity|right; auto].
Qed.

Lemma on_behalf_bool D p : on_behalf D p -> on_behalf_b D p = true.
Proof.
  intros (t & d & Hd & Hp). unfold on_behalf_b. apply existsb_exists. exists (t, d). split; [apply assocN_In; exact Hd|].
  unfold closes_over. cbn [snd]. destruct Hp as [Hp|(bh & Hb)].
  - rewrite Hp, text_eqb_refl. reflexivity.
  - rewrite Hb, text_eqb_refl. apply orb_true_r.
Qed.

Lemma j5D_of_src D tr : (forall p c b, In (Permits p c b) tr -> on_behalf D p) -> j5D D tr = true.
Proof.
  induction tr as [|e r IH]; intros H; [reflexivity|].
  assert (Hr : j5D D r = true) by (apply IH; intros p c b Hin; eapply H; right; exact Hin).
  destruct e as [p c b|t c|t c|x]; simpl; try exact Hr.
  rewrite Hr, (on_behalf_bool D p); [reflexivity|]. eapply H. left. reflexivity.
Qed.

(* J5, registration level *)
Theorem j5D_sound R D tb q : j5D D (fst (router_call R D tb q)) = true.
Proof. apply j5D_of_src. intros p c b. apply permits_on_behalf. Qed.

Theorem gen_j5D_sound R D tb q : j5D D (fst (gen_router R D tb q)) = true.
Proof. rewrite gen_router_is_model. apply j5D_sound. Qed.

(* the converse direction of the clause's reading: it holds of a trace exactly when every policy call in it is on behalf
   of a table entry *)
Lemma j5D_iff D tr :
  j5D D tr = true <-> forall p c b, In (Permits p c b) tr -> on_behalf_b D p = true.
Proof.
  induction tr as [|e r IH]; simpl; [split; [intros _ p c b []|reflexivity]|].
  destruct e as [p c b|t c|t c|x].
  - rewrite andb_true_iff, IH. split.
    + intros [H1 H2] p' c' b' [H|H]; [inversion H; subst; exact H1|eauto].
    + intros H. split; [eapply H; left; reflexivity|intros p' c' b' Hin; eapply H; right; exact Hin].
  - rewrite IH. split; intros H p' c' b' Hin; [destruct Hin as [Hx|Hx]; [discriminate Hx|eauto]|eapply H; right; exact Hin].
  - rewrite IH. split; intros H p' c' b' Hin; [destruct Hin as [Hx|Hx]; [discriminate Hx|eauto]|eapply H; right; exact Hin].
  - rewrite IH. split; intros H p' c' b' Hin; [destruct Hin as [Hx|Hx]; [discriminate Hx|eauto]|eapply H; right; exact Hin].
Qed.

Definition closes_over_any (d : dview) : bool :=
  match d_perm d with Some _ => true | None => match d_body d with Slash (Some _) _ => true | _ => false end end.

(* with a table in which no view closed over anything the clause forbids every policy call: the policy is never asked *)
Theorem j5D_unprotected D tr :
  (forall kd, In kd D -> closes_over_any (snd kd) = false) -> j5D D tr = true ->
  forall p c b, ~ In (Permits p c b) tr.
Proof.
  intros HD Hj p c b Hin. rewrite j5D_iff in Hj. specialize (Hj _ _ _ Hin).
  unfold on_behalf_b in Hj. apply existsb_exists in Hj. destruct Hj as (kd & Hkd & Hc).
  specialize (HD _ Hkd). unfold closes_over_any in HD. unfold closes_over in Hc.
  destruct (d_perm (snd kd)); [discriminate HD|]. destruct (d_body (snd kd)) as [|[p'|] bh]; try discriminate. 
Qed.

(* non-vacuity: a policy call about a permission no table entry closed over is rejected *)
Example ex_j5D_rejects :
  j5D [] [Permits [118%N] (CRes 0%N) true] = false
  /\ j5D [(2%N, mkD (mkReg (mkSlot 0%N 0%N 0%N []) 2%N [] 0%Z [] None true) (Some [118%N]) [] false (Plain BReturn) false)]
         [Permits [118%N] (CRes 0%N) true; Body 2%N (CRes 0%N)] = true
  /\ j5D [(2%N, mkD (mkReg (mkSlot 0%N 0%N 0%N []) 2%N [] 0%Z [] None true) (Some [118%N]) [] false (Plain BReturn) false)]
         [Permits [101%N] (CRes 0%N) false] = false.
Proof. repeat split; vm_compute; reflexivity. Qed.
