(* C09 -- fifth round: end-to-end compositions.
   (1) the ticket attached by the automatic reissue is VALID: presented later to the same helper it yields the identity the
       request was identified as (user-id type preserved), stamped by the later clock reading, inside the timeout window;
   (2) the whole chain for tickets this helper issued: remember -> present (old enough) -> reissued ticket -> present again. *)
From Coq Require Import List NArith ZArith Bool Lia.
Import ListNotations.
Require Import Verif.Lib.Wire Verif.Lib.Text Verif.Lib.Percent Verif.Lib.Utf8 Verif.Lib.C09Base Verif.Lib.C09BaseP.
Require Import Verif.Gen.Facts_C09 Verif.Model.C09 Verif.Proofs.C09 Verif.Proofs.C09_rt Verif.Proofs.C09_more.

(* what identify() reports as the token list of a ticket issued with [toks]: ''.split(',') is [''] *)
Definition shown_tokens (toks : list text) : list text := match toks with [] => [[]] | _ => toks end.

Lemma filter_nonempty_valid toks :
  forallb valid_token toks = true -> filter nonempty toks = toks.
Proof.
  induction toks as [|x l IH]; [reflexivity|]. cbn [forallb filter]. intros E.
  apply andb_true_iff in E as [E1 E2]. pose proof (valid_token_nonempty x E1) as NE.
  destruct x as [|c x]; [contradiction|]. cbn [nonempty]. rewrite (IH E2). reflexivity.
Qed.

Lemma filter_shown toks :
  forallb valid_token toks = true -> filter nonempty (shown_tokens toks) = toks.
Proof.
  destruct toks as [|x l]; [reflexivity|]. cbn [shown_tokens]. apply filter_nonempty_valid.
Qed.

Section W5.
Variable H : text -> list N -> text.
Variable dsz : text -> nat.
Variable uni : N -> N.

(* "one fresh, VALID ticket": whatever cookie made identify() reissue, the attached ticket identifies as that identity *)
Theorem reissued_ticket_valid c r r2 hs k v :
  H_len H dsz -> H_head H ->
  spec_reissue_ticket H dsz uni c r = Some hs -> In k hs -> ck_value k = Some v ->
  (0 <= now (later r) < 4294967296)%Z ->
  cookie r2 = Some v -> eff_ip c r2 = eff_ip c r ->
  exists ts u tk ud,
    identify_pre H dsz uni c r = ISome ts u tk ud /\
    (uval_ok u ->
     identify_pre H dsz uni c r2 =
     match spec_issued_identity c (Z.to_N (now (later r))) u (shown_tokens (filter nonempty tk)) (now2 r2) with
     | Some (ts', u', tk') => ISome ts' u' tk' (userid_typename ++ tag_of u)
     | None => INone
     end).
Proof.
  intros HL HH Hs Hin Hv Hn Hck Hip.
  destruct (reissued_ticket_is_fresh H dsz uni c r hs Hs) as (ts & u & tk & ud & rt & E1 & E2 & E3 & E4).
  exists ts, u, tk, ud. split; [exact E1|]. intros Hok.
  apply (identify_roundtrip H dsz uni c (later r) r2 u (max_age c) (filter nonempty tk) hs k v); auto.
  rewrite eff_ip_later. exact Hip.
Qed.

(* the chain for a ticket this helper issued: type and tokens survive the reissue, the timestamp is the later reading *)
Theorem issued_reissue_chain c r0 u ma toks hs0 k0 v0 r1 hs1 k1 v1 r2 :
  H_len H dsz -> H_head H ->
  (0 <= now r0 < 4294967296)%Z -> wf_uval u ->
  remember H c r0 u ma toks = Some hs0 -> In k0 hs0 -> ck_value k0 = Some v0 ->
  cookie r1 = Some v0 -> eff_ip c r1 = eff_ip c r0 ->
  spec_reissue_ticket H dsz uni c r1 = Some hs1 -> In k1 hs1 -> ck_value k1 = Some v1 ->
  (0 <= now (later r1) < 4294967296)%Z ->
  cookie r2 = Some v1 -> eff_ip c r2 = eff_ip c r1 ->
  identify_pre H dsz uni c r2 =
  match spec_issued_identity c (Z.to_N (now (later r1))) u (shown_tokens toks) (now2 r2) with
  | Some (ts', u', tk') => ISome ts' u' tk' (userid_typename ++ tag_of u)
  | None => INone
  end.
Proof.
  intros HL HH Hn0 Hwf Hrem Hin0 Hv0 Hck1 Hip1 Hs Hin1 Hv1 Hn1 Hck2 Hip2.
  destruct (remember_some _ _ _ _ _ _ _ Hrem) as (R1 & R2 & R3).
  pose proof (encode_userid_uval_ok u Hwf R2) as Hok.
  pose proof (identify_roundtrip H dsz uni c r0 r1 u ma toks hs0 k0 v0 HL HH Hn0 Hok Hrem Hin0 Hv0 Hck1 Hip1) as P.
  destruct (reissued_ticket_valid c r1 r2 hs1 k1 v1 HL HH Hs Hin1 Hv1 Hn1 Hck2 Hip2) as (ts & u' & tk & ud & E & V).
  rewrite P in E. fold (shown_tokens toks) in E.
  assert (Eu : u' = u /\ tk = shown_tokens toks).
  { unfold spec_issued_identity in E. destruct (timeout c) as [t|].
    - destruct (negb (t =? 0)%Z && negb (now2 r1 <=? 2 * (Z.of_N (Z.to_N (now r0)) + t))%Z); inversion E; auto.
    - inversion E; auto. }
  destruct Eu as [-> ->]. rewrite (filter_shown toks R3) in V. exact (V Hok).
Qed.

End W5.

(* non-vacuity: with the toy hash of Proofs/C09.v, bob's ticket of second 1000 is reissued at 1005 and the attached
   ticket identifies bob (text, token a) with timestamp 1005 at 1015, and nothing at 1016 (timeout 10) *)
Definition ex_reissued : text :=
  match spec_reissue_ticket ex_H (fun _ => 2%nat) (fun _ => 63%N) ex_cfg (ex_req (Some ex_cookie) 1005) with
  | Some [k] => match ck_value k with Some v => v | None => [] end
  | _ => []
  end.
Example reissue_chain_nonvacuous :
  ex_reissued <> [] /\ ex_reissued <> ex_cookie
  /\ identify_pre ex_H (fun _ => 2%nat) (fun _ => 63%N) ex_cfg (ex_req (Some ex_reissued) 1015)
     = ISome 1005 (VStr [98; 111; 98]%N) [[97]%N] (userid_typename ++ fst enc_str)
  /\ identify_pre ex_H (fun _ => 2%nat) (fun _ => 63%N) ex_cfg (ex_req (Some ex_reissued) 1016) = INone.
Proof. vm_compute. repeat split; discriminate. Qed.
