(* C07 -- proofs about Model/C07.v *)
From Coq Require Import List NArith ZArith Bool Lia ZifyBool ZifyN Arith.
Import ListNotations.
Require Import Verif.Lib.Wire Verif.Lib.Text Verif.Lib.PathNorm Verif.Lib.C02PathNorm Verif.Lib.Utf8
               Verif.Lib.Percent Verif.Lib.C07Types Verif.Gen.Facts_C02 Verif.Gen.Facts_C07
               Verif.Model.C02 Verif.Proofs.C02 Verif.Model.C07 Verif.Proofs.C07_rt.
Close Scope N_scope.

(* ------------------------------------------------------------------ facts *)
Lemma facts_ok7 :
  url_vroot_mode = UrlTupleCompare /\ c07_name_default = [] /\ c07_root_tuple = [[]] /\
  c07_trail_elt = [] /\ c07_trail_sep = [slash] /\ c07_vtuple_head = [[]] /\
  c07_elements_sep = [slash] /\ c07_script_quoted = true.
Proof. vm_compute. repeat split; reflexivity. Qed.

Lemma f_mode7 : url_vroot_mode = UrlTupleCompare. Proof. apply facts_ok7. Qed.
Lemma f_default : c07_name_default = []. Proof. apply facts_ok7. Qed.
Lemma f_root_tuple : c07_root_tuple = [[]]. Proof. apply facts_ok7. Qed.
Lemma f_trail_elt : c07_trail_elt = []. Proof. apply facts_ok7. Qed.
Lemma f_trail_sep : c07_trail_sep = [slash]. Proof. apply facts_ok7. Qed.
Lemma f_head : c07_vtuple_head = [[]]. Proof. apply facts_ok7. Qed.

(* ------------------------------------------------------------------ trees *)
Lemma assoc_idx_nth k l : forall i0 i c, assoc_idx k l i0 = Some (i, c) ->
  exists j, i = i0 + j /\ nth_error l j = Some (k, c).
Proof.
  induction l as [|[n x] l IH]; intros i0 i c; simpl; [discriminate|].
  destruct (text_eqb_spec k n) as [->|Hne].
  - intros H. injection H as <- <-. exists 0. split; [lia|reflexivity].
  - intros H. destruct (IH _ _ _ H) as (j & -> & Hj). exists (S j). split; [lia|exact Hj].
Qed.

Lemma child_spec ob s n : child ob s = Some n ->
  exists l j, snd ob = Node (Some l) /\ nth_error l j = Some (s, snd n) /\ fst n = fst ob ++ [j].
Proof.
  unfold child, getitem. destruct (snd ob) as [[l|]]; [|discriminate].
  destruct (assoc_idx s l 0) as [[i c]|] eqn:E; [|discriminate].
  intros H. injection H as <-. destruct (assoc_idx_nth _ _ _ _ _ E) as (j & -> & Hj).
  exists l, j. simpl. auto.
Qed.

Lemma node_at_app : forall p r q, node_at r (p ++ q) = match node_at r p with Some x => node_at x q | None => None end.
Proof.
  induction p as [|i p IH]; intros r q; simpl; [reflexivity|].
  destruct r as [[l|]]; [|reflexivity]. destruct (nth_error l i) as [[n c]|]; [apply IH|reflexivity].
Qed.

Lemma names_at_app : forall p r q,
  names_at r (p ++ q) = match names_at r p, node_at r p with
                        | Some a, Some x => option_map (app a) (names_at x q)
                        | _, _ => None
                        end.
Proof.
  induction p as [|i p IH]; intros r q; simpl.
  - destruct (names_at r q); reflexivity.
  - destruct r as [[l|]]; [|reflexivity]. destruct (nth_error l i) as [[n c]|]; [|reflexivity].
    rewrite IH. destruct (names_at c p); simpl; [|reflexivity].
    destruct (node_at c p); [|reflexivity]. destruct (names_at _ q); reflexivity.
Qed.

Lemma names_node : forall p r ns, names_at r p = Some ns -> exists x, node_at r p = Some x.
Proof.
  induction p as [|i p IH]; intros r ns; simpl; [eauto|].
  destruct r as [[l|]]; [|discriminate]. destruct (nth_error l i) as [[n c]|]; [|discriminate].
  destruct (names_at c p) eqn:E; [|discriminate]. intros _. eapply IH. eassumption.
Qed.

Lemma names_length : forall p r ns, names_at r p = Some ns -> length ns = length p.
Proof.
  induction p as [|i p IH]; intros r ns; simpl; [intros H; injection H as <-; reflexivity|].
  destruct r as [[l|]]; [|discriminate]. destruct (nth_error l i) as [[n c]|]; [|discriminate].
  destruct (names_at c p) eqn:E; [|discriminate]. intros H. injection H as <-. simpl. f_equal. eapply IH. eassumption.
Qed.

(* item lookup moves through the tree: the node reached is the node at the
   position reached, and its lineage names are the segments looked up *)
Lemma descend_tree root : forall segs ob n ns,
  node_at root (fst ob) = Some (snd ob) -> names_at root (fst ob) = Some ns ->
  descend ob segs = Some n ->
  node_at root (fst n) = Some (snd n) /\ names_at root (fst n) = Some (ns ++ segs).
Proof.
  induction segs as [|s segs IH]; intros ob n ns Hn Hns; simpl.
  - intros H. injection H as <-. rewrite app_nil_r. auto.
  - destruct (child ob s) as [m|] eqn:Hc; [|discriminate]. intros Hd.
    destruct (child_spec _ _ _ Hc) as (l & j & Hl & Hj & Hp).
    assert (H1 : node_at root (fst m) = Some (snd m)).
    { rewrite Hp, node_at_app, Hn, Hl. simpl. rewrite Hj. reflexivity. }
    assert (H2 : names_at root (fst m) = Some (ns ++ [s])).
    { rewrite Hp, names_at_app, Hns, Hn, Hl. simpl. rewrite Hj. reflexivity. }
    destruct (IH m n (ns ++ [s]) H1 H2 Hd) as (R1 & R2). split; [exact R1|].
    rewrite R2, <- app_assoc. reflexivity.
Qed.

Lemma descend_root_tree root segs n :
  descend ([], root) segs = Some n ->
  node_at root (fst n) = Some (snd n) /\ names_at root (fst n) = Some segs.
Proof. intros H. exact (descend_tree root segs ([], root) n [] eq_refl eq_refl H). Qed.

Lemma pos_eqb_eq a b : pos_eqb a b = true <-> a = b.
Proof.
  revert b. induction a as [|x a IH]; destruct b as [|y b]; simpl; try (split; congruence).
  rewrite andb_true_iff, Nat.eqb_eq, IH. split; [intros [-> ->]; reflexivity|intros H; injection H; auto].
Qed.

Lemma pos_prefixb_spec a b : pos_prefixb a b = true <-> exists s, b = a ++ s.
Proof.
  revert b. induction a as [|x a IH]; intros b; simpl.
  - split; eauto.
  - destruct b as [|y b]; [split; [discriminate|intros [s H]; discriminate]|].
    rewrite andb_true_iff, Nat.eqb_eq, IH. split.
    + intros [-> [s ->]]. eauto.
    + intros [s H]. injection H as -> ->. eauto.
Qed.

(* ------------------------------------------------------------------ admissible names *)
Lemma admissible_spec s : admissible s = true ->
  normal_seg s /\ spec_is_selector s = false /\ forallb valid_scalar s = true.
Proof.
  unfold admissible. rewrite !andb_true_iff, negb_true_iff. intros [[H1 H2] H3].
  apply normal_segb_spec in H1. auto.
Qed.

Definition plain (segs : list text) : Prop := forallb admissible segs = true.

Lemma plain_normal segs : plain segs -> Forall normal_seg segs.
Proof.
  unfold plain. rewrite forallb_forall. intros H. apply Forall_forall. intros s Hs.
  apply (admissible_spec s (H s Hs)).
Qed.
Lemma plain_valid segs : plain segs -> Forall (fun s => forallb valid_scalar s = true) segs.
Proof.
  unfold plain. rewrite forallb_forall. intros H. apply Forall_forall. intros s Hs.
  apply (admissible_spec s (H s Hs)).
Qed.
Lemma plain_no_selector segs : plain segs -> no_selector segs = true.
Proof.
  unfold plain, no_selector. rewrite !forallb_forall. intros H s Hs.
  destruct (admissible_spec s (H s Hs)) as (_ & -> & _). reflexivity.
Qed.
Lemma plain_app a b : plain (a ++ b) <-> plain a /\ plain b.
Proof. unfold plain. rewrite forallb_app, andb_true_iff. tauto. Qed.
Lemma plain_firstn n l : plain l -> plain (firstn n l).
Proof. intros H. rewrite <- (firstn_skipn n l) in H. apply plain_app in H. tauto. Qed.
Lemma plain_skipn n l : plain l -> plain (skipn n l).
Proof. intros H. rewrite <- (firstn_skipn n l) in H. apply plain_app in H. tauto. Qed.

(* ------------------------------------------------------------------ the traverser on a decoded path *)
Lemma traverser_on_path ob pi p vr vt :
  decode_path_info pi = Ok p -> vroot_tuple_of (mkReq (Some pi) None vr) = Ok vt ->
  traverser_call ob (mkReq (Some pi) None vr) = Ok (model_outcome ob vt (split_path_info p) []).
Proof.
  intros Hd Hv. rewrite traverser_call_outcome. unfold traverser_gen.
  fold (vroot_tuple_of (mkReq (Some pi) None vr)). rewrite Hv.
  unfold path_and_subpath. cbn [q_matchdict q_path_info]. rewrite Hd. cbn [as_url_decode_error rbind].
  destruct p; reflexivity.
Qed.

Lemma outcome_found ob vt ps sub n :
  descend ob (vt ++ ps) = Some n -> no_selector (vt ++ ps) = true ->
  t_context (model_outcome ob vt ps sub) = fst n /\ t_view_name (model_outcome ob vt ps sub) = [].
Proof.
  intros Hd Hs.
  assert (Ho : walk_outcome ob (vt ++ ps) n (vt ++ ps) []).
  { repeat split; auto. rewrite app_nil_r. reflexivity. }
  destruct (spec_outcome_walk ob vt ps sub) as (ctx & c & r & Ho' & Hf). cbv zeta in Hf.
  destruct Hf as (F1 & _ & F3 & _).
  pose proof (walk_outcome_unique _ _ _ _ _ _ _ _ Ho Ho') as E. injection E as <- <- <-.
  destruct (model_outcome_fields ob vt ps sub) as (M1 & M2 & _). cbv zeta in M1, M2.
  rewrite M1, M2, F1, F3. auto.
Qed.

Lemma outcome_missing ob ps sub :
  descend ob ps = None -> no_selector ps = true -> Forall (fun s => s <> []) ps ->
  t_view_name (model_outcome ob [] ps sub) <> [].
Proof.
  intros Hd Hs Hne.
  destruct (spec_outcome_walk ob [] ps sub) as (ctx & c & r & Ho & Hf). cbv zeta in Hf.
  destruct Hf as (_ & _ & F3 & _).
  destruct (model_outcome_fields ob [] ps sub) as (_ & M2 & _). cbv zeta in M2. rewrite M2, F3.
  destruct Ho as (H1 & H2 & _ & _). simpl in H1.
  destruct r as [|s r'].
  - rewrite app_nil_r in H1. subst c. congruence.
  - unfold view_name_of.
    assert (Hin : In s ps) by (rewrite H1; apply in_or_app; right; left; reflexivity).
    unfold no_selector in Hs. rewrite forallb_forall in Hs. specialize (Hs s Hin).
    apply negb_true_iff in Hs. rewrite Hs. rewrite Forall_forall in Hne. exact (Hne s Hin).
Qed.

Lemma plain_nonempty segs : plain segs -> Forall (fun s => s <> []) segs.
Proof. intros H. eapply Forall_impl; [|apply plain_normal; exact H]. intros a (Ha & _). exact Ha. Qed.

(* the answer of find_resource once PATH_INFO decodes to plain segments *)
Definition lookup_result (ob : rnode) (segs : list text) : found :=
  match descend ob segs with Some n => FoundAt (fst n) | None => KeyErr end.

Lemma find_on_path ob pi p segs :
  decode_path_info pi = Ok p -> split_path_info p = segs -> plain segs ->
  xbind (lift (traverser_call ob (mkReq (Some pi) None None)))
        (fun d => Val (match t_view_name d with [] => FoundAt (t_context d) | _ => KeyErr end))
  = Val (lookup_result ob segs).
Proof.
  intros Hd Hs Hp. rewrite (traverser_on_path ob pi p None []) by (assumption || reflexivity).
  rewrite Hs. cbn [lift xbind]. unfold lookup_result. f_equal.
  destruct (descend ob segs) as [n|] eqn:E.
  - destruct (outcome_found ob [] segs [] n E (plain_no_selector _ Hp)) as (-> & ->). reflexivity.
  - pose proof (outcome_missing ob segs [] E (plain_no_selector _ Hp) (plain_nonempty _ Hp)) as H.
    destruct (t_view_name _); [contradiction|reflexivity].
Qed.

(* ------------------------------------------------------------------ _join_path_tuple *)
Lemma rmap_quote segs : Forall (fun s => forallb valid_scalar s = true) segs ->
  rmap quote_path_segment segs = Ok (map q segs).
Proof.
  intros Hf. induction Hf as [|x r Hx _ IH]; [reflexivity|].
  simpl. unfold quote_path_segment at 1. rewrite Hx. cbn [rbind]. rewrite IH. reflexivity.
Qed.

Lemma q_nonempty s : s <> [] -> q s <> [].
Proof.
  destruct s as [|c s]; [congruence|]. intros _. unfold q, Utf8.encode, Percent.quote. simpl flat_map.
  unfold encode1. destruct (c <? 128)%N; [|destruct (c <? 2048)%N; [|destruct (c <? 65536)%N]];
    simpl; unfold quote1; match goal with |- context [is_safe ?a ?b] => destruct (is_safe a b) end; discriminate.
Qed.

Lemma qpath_cons_nonempty s r : s <> [] -> qpath (s :: r) <> [].
Proof.
  intros H. unfold qpath. simpl map. pose proof (q_nonempty s H) as Hq.
  destruct r; simpl; destruct (q s); try congruence; discriminate.
Qed.

(* an absolute tuple ('', n1, ..., nk) *)
Lemma jpt_abs segs : Forall (fun s => forallb valid_scalar s = true) segs ->
  join_path_tuple ([] :: segs) = Ok (slash :: qpath segs).
Proof.
  intros Hf. unfold join_path_tuple. simpl rmap. unfold quote_path_segment at 1. simpl forallb. cbn [rbind].
  rewrite rmap_quote by assumption. cbn [rbind]. unfold qpath.
  destruct segs as [|x r]; [reflexivity|]. reflexivity.
Qed.

(* a relative tuple (n1, ..., nk), k >= 1, first name non-empty *)
Lemma jpt_rel s r : Forall (fun s => forallb valid_scalar s = true) (s :: r) -> s <> [] ->
  join_path_tuple (s :: r) = Ok (qpath (s :: r)).
Proof.
  intros Hf Hs. unfold join_path_tuple. rewrite rmap_quote by assumption. cbn [rbind].
  change (join slash_text (map q (s :: r))) with (qpath (s :: r)). pose proof (qpath_cons_nonempty s r Hs) as H.
  destruct (qpath (s :: r)); [congruence|reflexivity].
Qed.

Lemma is_ascii_qpath segs : Forall (fun s => forallb valid_scalar s = true) segs -> is_ascii (qpath segs) = true.
Proof. intros H. unfold is_ascii. apply (qpath_ascii segs H). Qed.

Lemma qpath_head s r : forallb valid_scalar s = true -> s <> [] ->
  exists c t, qpath (s :: r) = c :: t /\ c <> slash.
Proof.
  intros Hv Hs. pose proof (q_nonempty s Hs) as Hq. destruct (q s) as [|c t] eqn:E; [congruence|].
  assert (Hc : c <> slash).
  { intros ->. apply (q_no slash s Hv); [apply safe_facts|discriminate|reflexivity|rewrite E; left; reflexivity]. }
  unfold qpath. simpl map. rewrite E. destruct r; simpl; eauto.
Qed.

(* ------------------------------------------------------------------ traverse / find_resource *)
Lemma blank_plain path : has_scheme path = false -> ~ In question path ->
  blank_path_info path = Val (webob_unquote path).
Proof.
  intros H1 H2. unfold blank_path_info. rewrite H1. rewrite split_on_nosep_id by assumption. reflexivity.
Qed.

Lemma has_scheme_slash t : has_scheme (slash :: t) = false.
Proof. reflexivity. Qed.

(* absolute lookup of plain segments: the start resource is irrelevant *)
Theorem find_abs_tuple root start segs : plain segs ->
  find7 root start (PTuple ([] :: segs)) = Val (lookup_result ([], root) segs).
Proof.
  intros Hp. pose proof (plain_valid _ Hp) as Hv.
  unfold find7, traverse7. rewrite jpt_abs by assumption. cbn [lift xbind].
  assert (Ha : is_ascii (slash :: qpath segs) = true) by (simpl; rewrite is_ascii_qpath by assumption; reflexivity).
  rewrite Ha. cbn [negb]. rewrite N.eqb_refl. cbn [xbind].
  rewrite blank_plain.
  2:{ apply has_scheme_slash. }
  2:{ intros [H|H]; [discriminate|]. exact (qpath_no_question segs Hv H). }
  cbn [xbind]. rewrite wu_cons by (unfold slash; lia).
  rewrite <- (app_nil_r (qpath segs)), wu_qpath by (auto). rewrite wu_nil, app_nil_r.
  change (slash :: join [slash] (map encode segs)) with (slash :: join [slash] (map encode segs)).
  pose proof (wire_path_decode segs false Hv) as Hd. unfold wire_path in Hd. rewrite app_nil_r in Hd.
  apply (find_on_path ([], root) _ _ segs Hd); [|assumption].
  apply text_path_split. apply plain_normal. assumption.
Qed.

Lemma decode_join segs : Forall (fun s => forallb valid_scalar s = true) segs ->
  decode_path_info (join [slash] (map encode segs)) = Ok (join [slash] segs).
Proof. intros H. rewrite join_encode. apply decode_path_info_encode. apply join_valid. assumption. Qed.

(* relative lookup of plain segments from the resource at [a] -- as long as
   webob does not take the text for a URL *)
Theorem find_rel_tuple root a na segs : plain segs -> node_at root a = Some na ->
  has_scheme (qpath segs) = false ->
  find7 root a (PTuple segs) = Val (lookup_result (a, na) segs).
Proof.
  intros Hp Hn Hs. pose proof (plain_valid _ Hp) as Hv.
  destruct segs as [|s r].
  - unfold find7, traverse7. cbn [xbind is_ascii forallb negb]. rewrite Hn. cbn [xbind].
    unfold blank_path_info. cbn [has_scheme has_scheme_from split_on hd]. cbn [xbind].
    apply (find_on_path (a, na) [] [] []); reflexivity.
  - assert (Hne : s <> []).
    { pose proof (plain_nonempty _ Hp) as H. inversion H. assumption. }
    unfold find7, traverse7. rewrite jpt_rel by assumption. cbn [lift xbind].
    rewrite is_ascii_qpath by assumption. cbn [negb].
    assert (Hsv : forallb valid_scalar s = true) by (inversion Hv; assumption).
    destruct (qpath_head s r Hsv Hne) as (c & t & Hq & Hc).
    rewrite Hq. destruct (N.eqb_spec c slash) as [->|_]; [congruence|]. rewrite <- Hq.
    rewrite Hn. cbn [xbind].
    rewrite blank_plain by (assumption || apply qpath_no_question; assumption). cbn [xbind].
    rewrite <- (app_nil_r (qpath (s :: r))) at 1. rewrite wu_qpath by auto. rewrite wu_nil, app_nil_r.
    apply (find_on_path (a, na) _ _ (s :: r) (decode_join _ Hv)); [|assumption].
    apply spi_normal_id. apply plain_normal. assumption.
Qed.

(* the string forms: traverse joins a tuple and then treats it like a string *)
Lemma find_str_of_tuple root a l s : l <> [] -> join_path_tuple l = Ok s ->
  find7 root a (PStr s) = find7 root a (PTuple l).
Proof.
  intros Hl Hj. unfold find7, traverse7. destruct l as [|x l]; [congruence|]. rewrite Hj. reflexivity.
Qed.

(* ------------------------------------------------------------------ the property's lookups *)
Lemma good_resource_spec root r names : good_resource root r = Some names ->
  names_at root r = Some names /\ plain names /\
  exists x, descend ([], root) names = Some (r, x) /\ node_at root r = Some x.
Proof.
  unfold good_resource. destruct (names_at root r) as [ns|] eqn:E; [|discriminate].
  destruct (forallb admissible ns) eqn:Ha; [|discriminate]. unfold reachable.
  destruct (descend ([], root) ns) as [[p x]|] eqn:Hd; [|discriminate]. simpl.
  destruct (pos_eqb p r) eqn:Hp; [|discriminate]. apply pos_eqb_eq in Hp. subst p.
  intros H. injection H as <-. repeat split; auto. exists x. split; [exact Hd|].
  exact (proj1 (descend_root_tree root ns (r, x) Hd)).
Qed.

Lemma name_or_default_id n : name_or_default n = n.
Proof. unfold name_or_default. rewrite f_default. destruct n; reflexivity. Qed.

Lemma path_list_eq names els : resource_path_list names els = ([] :: names) ++ els.
Proof.
  unfold resource_path_list. rewrite name_or_default_id. f_equal. f_equal.
  induction names as [|n l IH]; [reflexivity|]. simpl. rewrite name_or_default_id, IH. reflexivity.
Qed.

(* find_path_tuple: the path tuple of a resource resolves back to it, from any start *)
Theorem find_path_tuple root r a names : good_resource root r = Some names ->
  xbind (resource_path_tuple root r []) (fun t => find7 root a (PTuple t)) = Val (FoundAt r).
Proof.
  intros Hg. destruct (good_resource_spec _ _ _ Hg) as (Hn & Hp & x & Hd & _).
  unfold resource_path_tuple, names_of. rewrite Hn. cbn [xbind]. rewrite path_list_eq, app_nil_r.
  rewrite find_abs_tuple by assumption. unfold lookup_result. rewrite Hd. reflexivity.
Qed.

(* find_path_string: so does the path string *)
Theorem find_path_string root r a names : good_resource root r = Some names ->
  xbind (resource_path root r []) (fun s => find7 root a (PStr s)) = Val (FoundAt r).
Proof.
  intros Hg. pose proof (find_path_tuple root r a names Hg) as H.
  destruct (good_resource_spec _ _ _ Hg) as (Hn & Hp & _).
  unfold resource_path. unfold resource_path_tuple, names_of in *. rewrite Hn in *. cbn [xbind] in *.
  rewrite path_list_eq, app_nil_r in *. rewrite jpt_abs by (apply plain_valid; assumption). cbn [lift xbind].
  rewrite (find_str_of_tuple root a ([] :: names)); [exact H|discriminate|].
  apply jpt_abs. apply plain_valid. assumption.
Qed.

(* relative and absolute lookups agree and are the item lookup from [a]: a
   missing name (or a resource without items) is a KeyError *)
Theorem relative_absolute_agree_partial root a r names_a rel :
  good_resource root a = Some names_a -> plain rel -> has_scheme (qpath rel) = false ->
  exists f, spec_lookup root a rel = Some f /\
    find7 root a (PTuple rel) = Val f /\
    xbind (resource_path_tuple root a rel) (fun t => find7 root r (PTuple t)) = Val f.
Proof.
  intros Hg Hp Hs. destruct (good_resource_spec _ _ _ Hg) as (Hn & Hpa & x & Hd & Hx).
  unfold spec_lookup. rewrite Hx. eexists. split; [reflexivity|]. split.
  - rewrite (find_rel_tuple root a x rel Hp Hx Hs). reflexivity.
  - unfold resource_path_tuple, names_of. rewrite Hn. cbn [xbind]. rewrite path_list_eq.
    change (([] :: names_a) ++ rel) with ([] :: (names_a ++ rel)).
    rewrite find_abs_tuple by (apply plain_app; auto).
    unfold lookup_result. rewrite descend_app, Hd. reflexivity.
Qed.

(* the absolute form needs no side condition *)
Theorem absolute_lookup root a r names_a rel :
  good_resource root a = Some names_a -> plain rel ->
  exists f, spec_lookup root a rel = Some f /\
    xbind (resource_path_tuple root a rel) (fun t => find7 root r (PTuple t)) = Val f.
Proof.
  intros Hg Hp. destruct (good_resource_spec _ _ _ Hg) as (Hn & Hpa & x & Hd & Hx).
  unfold spec_lookup. rewrite Hx. eexists. split; [reflexivity|].
  unfold resource_path_tuple, names_of. rewrite Hn. cbn [xbind]. rewrite path_list_eq.
  change (([] :: names_a) ++ rel) with ([] :: (names_a ++ rel)).
  rewrite find_abs_tuple by (apply plain_app; auto).
  unfold lookup_result. rewrite descend_app, Hd. reflexivity.
Qed.

(* find_missing *)
Theorem find_missing root a names_a rel x :
  good_resource root a = Some names_a -> plain rel -> has_scheme (qpath rel) = false ->
  node_at root a = Some x -> descend (a, x) rel = None ->
  find7 root a (PTuple rel) = Val KeyErr /\
  xbind (resource_path_tuple root a rel) (fun t => find7 root a (PTuple t)) = Val KeyErr.
Proof.
  intros Hg Hp Hs Hx Hd.
  destruct (relative_absolute_agree_partial root a a names_a rel Hg Hp Hs) as (f & Hf & H1 & H2).
  unfold spec_lookup in Hf. rewrite Hx, Hd in Hf. injection Hf as <-. auto.
Qed.
