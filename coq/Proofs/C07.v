(* C07 -- proofs about Model/C07.v *)
From Coq Require Import List NArith ZArith Bool Lia ZifyBool ZifyN Arith.
Import ListNotations.
Require Import Verif.Lib.Wire Verif.Lib.Text Verif.Lib.PathNorm Verif.Lib.C02PathNorm Verif.Lib.Utf8
               Verif.Lib.Percent Verif.Lib.C07Types Verif.Gen.Facts_C02 Verif.Gen.Facts_C07
               Verif.Model.C02 Verif.Proofs.C02 Verif.Model.C07.
Close Scope N_scope.

Lemma facts_ok7 :
  url_vroot_mode = UrlTupleCompare /\ c07_name_default = [] /\ c07_root_tuple = [[]] /\
  c07_trail_elt = [] /\ c07_trail_sep = [slash] /\ c07_vtuple_head = [[]] /\
  c07_elements_sep = [slash] /\ c07_script_quoted = true.
Proof. vm_compute. repeat split; reflexivity. Qed.
