(* C07 -- proofs about Model/C07.v *)
From Coq Require Import List NArith ZArith Bool Lia ZifyBool ZifyN Arith.
Import ListNotations.
Require Import Verif.Lib.Wire Verif.Lib.Text Verif.Lib.PathNorm Verif.Lib.C02PathNorm Verif.Lib.Utf8
               Verif.Lib.Percent Verif.Lib.C07Types Verif.Gen.Facts_C02 Verif.Gen.Facts_C07
               Verif.Model.C02 Verif.Proofs.C02 Verif.Model.C07 Verif.Proofs.C07_rt.
Close Scope N_scope.

(* ------------------------------------------------------------------ facts *)
Lemma facts_ok7 :
  url_vroot_mode = UrlTupleCompare /\ c07_name_default = [] /\ c07_root_tuple = [[]] /\
  c07_trail_elt = [] /\ c07_trail_sep = [slash] /\ c07_vtuple_head = [[]] /\
  c07_elements_sep = [slash] /\ c07_script_quoted = true /\
  c07_elements_safe = path_segment_safe /\ c07_script_safe = path_segment_safe ++ [slash].
Proof. vm_compute. repeat split; reflexivity. Qed.

Lemma f_mode7 : url_vroot_mode = UrlTupleCompare. Proof. apply facts_ok7. Qed.
Lemma f_default : c07_name_default = []. Proof. apply facts_ok7. Qed.
Lemma f_root_tuple : c07_root_tuple = [[]]. Proof. apply facts_ok7. Qed.
Lemma f_trail_elt : c07_trail_elt = []. Proof. apply facts_ok7. Qed.
Lemma f_trail_sep : c07_trail_sep = [slash]. Proof. apply facts_ok7. Qed.
Lemma f_head : c07_vtuple_head = [[]]. Proof. apply facts_ok7. Qed.

(* ------------------------------------------------------------------ trees *)
Lemma assoc_idx_nth k l : forall i0 i c, assoc_idx k l i0 = Some (i, c) ->
  exists j, i = i0 + j /\ nth_error l j = Some (k, c).
Proof.
  induction l as [|[n x] l IH]; intros i0 i c; simpl; [discriminate|].
  destruct (text_eqb_spec k n) as [->|Hne].
  - intros H. injection H as <- <-. exists 0. split; [lia|reflexivity].
  - intros H. destruct (IH _ _ _ H) as (j & -> & Hj). exists (S j). split; [lia|exact Hj].
Qed.

Lemma child_spec ob s n : child ob s = Some n ->
  exists l j, snd ob = Node (Some l) /\ nth_error l j = Some (s, snd n) /\ fst n = fst ob ++ [j].
Proof.
  unfold child, getitem. destruct (snd ob) as [[l|]]; [|discriminate].
  destruct (assoc_idx s l 0) as [[i c]|] eqn:E; [|discriminate].
  intros H. injection H as <-. destruct (assoc_idx_nth _ _ _ _ _ E) as (j & -> & Hj).
  exists l, j. simpl. auto.
Qed.

Lemma node_at_app : forall p r q, node_at r (p ++ q) = match node_at r p with Some x => node_at x q | None => None end.
Proof.
  induction p as [|i p IH]; intros r q; simpl; [reflexivity|].
  destruct r as [[l|]]; [|reflexivity]. destruct (nth_error l i) as [[n c]|]; [apply IH|reflexivity].
Qed.

Lemma names_at_app : forall p r q,
  names_at r (p ++ q) = match names_at r p, node_at r p with
                        | Some a, Some x => option_map (app a) (names_at x q)
                        | _, _ => None
                        end.
Proof.
  induction p as [|i p IH]; intros r q; simpl.
  - destruct (names_at r q); reflexivity.
  - destruct r as [[l|]]; [|reflexivity]. destruct (nth_error l i) as [[n c]|]; [|reflexivity].
    rewrite IH. destruct (names_at c p); simpl; [|reflexivity].
    destruct (node_at c p); [|reflexivity]. destruct (names_at _ q); reflexivity.
Qed.

Lemma names_node : forall p r ns, names_at r p = Some ns -> exists x, node_at r p = Some x.
Proof.
  induction p as [|i p IH]; intros r ns; simpl; [eauto|].
  destruct r as [[l|]]; [|discriminate]. destruct (nth_error l i) as [[n c]|]; [|discriminate].
  destruct (names_at c p) eqn:E; [|discriminate]. intros _. eapply IH. eassumption.
Qed.

Lemma names_length : forall p r ns, names_at r p = Some ns -> length ns = length p.
Proof.
  induction p as [|i p IH]; intros r ns; simpl; [intros H; injection H as <-; reflexivity|].
  destruct r as [[l|]]; [|discriminate]. destruct (nth_error l i) as [[n c]|]; [|discriminate].
  destruct (names_at c p) eqn:E; [|discriminate]. intros H. injection H as <-. simpl. f_equal. eapply IH. eassumption.
Qed.

(* item lookup moves through the tree: the node reached is the node at the
   position reached, and its lineage names are the segments looked up *)
Lemma descend_tree root : forall segs ob n ns,
  node_at root (fst ob) = Some (snd ob) -> names_at root (fst ob) = Some ns ->
  descend ob segs = Some n ->
  node_at root (fst n) = Some (snd n) /\ names_at root (fst n) = Some (ns ++ segs).
Proof.
  induction segs as [|s segs IH]; intros ob n ns Hn Hns; simpl.
  - intros H. injection H as <-. rewrite app_nil_r. auto.
  - destruct (child ob s) as [m|] eqn:Hc; [|discriminate]. intros Hd.
    destruct (child_spec _ _ _ Hc) as (l & j & Hl & Hj & Hp).
    assert (H1 : node_at root (fst m) = Some (snd m)).
    { rewrite Hp, node_at_app, Hn, Hl. simpl. rewrite Hj. reflexivity. }
    assert (H2 : names_at root (fst m) = Some (ns ++ [s])).
    { rewrite Hp, names_at_app, Hns, Hn, Hl. simpl. rewrite Hj. reflexivity. }
    destruct (IH m n (ns ++ [s]) H1 H2 Hd) as (R1 & R2). split; [exact R1|].
    rewrite R2, <- app_assoc. reflexivity.
Qed.

Lemma descend_root_tree root segs n :
  descend ([], root) segs = Some n ->
  node_at root (fst n) = Some (snd n) /\ names_at root (fst n) = Some segs.
Proof. intros H. exact (descend_tree root segs ([], root) n [] eq_refl eq_refl H). Qed.

Lemma pos_eqb_eq a b : pos_eqb a b = true <-> a = b.
Proof.
  revert b. induction a as [|x a IH]; destruct b as [|y b]; simpl; try (split; congruence).
  rewrite andb_true_iff, Nat.eqb_eq, IH. split; [intros [-> ->]; reflexivity|intros H; injection H; auto].
Qed.

Lemma pos_prefixb_spec a b : pos_prefixb a b = true <-> exists s, b = a ++ s.
Proof.
  revert b. induction a as [|x a IH]; intros b; simpl.
  - split; eauto.
  - destruct b as [|y b]; [split; [discriminate|intros [s H]; discriminate]|].
    rewrite andb_true_iff, Nat.eqb_eq, IH. split.
    + intros [-> [s ->]]. eauto.
    + intros [s H]. injection H as -> ->. eauto.
Qed.

(* ------------------------------------------------------------------ admissible names *)
Lemma admissible_spec s : admissible s = true ->
  normal_seg s /\ spec_is_selector s = false /\ forallb valid_scalar s = true.
Proof.
  unfold admissible. rewrite !andb_true_iff, negb_true_iff. intros [[H1 H2] H3].
  apply normal_segb_spec in H1. auto.
Qed.

Definition plain (segs : list text) : Prop := forallb admissible segs = true.

Lemma plain_normal segs : plain segs -> Forall normal_seg segs.
Proof.
  unfold plain. rewrite forallb_forall. intros H. apply Forall_forall. intros s Hs.
  apply (admissible_spec s (H s Hs)).
Qed.
Lemma plain_valid segs : plain segs -> Forall (fun s => forallb valid_scalar s = true) segs.
Proof.
  unfold plain. rewrite forallb_forall. intros H. apply Forall_forall. intros s Hs.
  apply (admissible_spec s (H s Hs)).
Qed.
Lemma plain_no_selector segs : plain segs -> no_selector segs = true.
Proof.
  unfold plain, no_selector. rewrite !forallb_forall. intros H s Hs.
  destruct (admissible_spec s (H s Hs)) as (_ & -> & _). reflexivity.
Qed.
Lemma plain_app a b : plain (a ++ b) <-> plain a /\ plain b.
Proof. unfold plain. rewrite forallb_app, andb_true_iff. tauto. Qed.
Lemma plain_firstn n l : plain l -> plain (firstn n l).
Proof. intros H. rewrite <- (firstn_skipn n l) in H. apply plain_app in H. tauto. Qed.
Lemma plain_skipn n l : plain l -> plain (skipn n l).
Proof. intros H. rewrite <- (firstn_skipn n l) in H. apply plain_app in H. tauto. Qed.

(* ------------------------------------------------------------------ the traverser on a decoded path *)
Lemma traverser_on_path ob pi p vr vt :
  decode_path_info pi = Ok p -> vroot_tuple_of (mkReq (Some pi) None vr) = Ok vt ->
  traverser_call ob (mkReq (Some pi) None vr) = Ok (model_outcome ob vt (split_path_info p) []).
Proof.
  intros Hd Hv. rewrite traverser_call_outcome. unfold traverser_gen.
  fold (vroot_tuple_of (mkReq (Some pi) None vr)). rewrite Hv.
  unfold path_and_subpath. cbn [q_matchdict q_path_info]. rewrite Hd. cbn [as_url_decode_error rbind].
  destruct p; reflexivity.
Qed.

Lemma outcome_found ob vt ps sub n :
  descend ob (vt ++ ps) = Some n -> no_selector (vt ++ ps) = true ->
  t_context (model_outcome ob vt ps sub) = fst n /\ t_view_name (model_outcome ob vt ps sub) = [].
Proof.
  intros Hd Hs.
  assert (Ho : walk_outcome ob (vt ++ ps) n (vt ++ ps) []).
  { repeat split; auto. rewrite app_nil_r. reflexivity. }
  destruct (spec_outcome_walk ob vt ps sub) as (ctx & c & r & Ho' & Hf). cbv zeta in Hf.
  destruct Hf as (F1 & _ & F3 & _).
  pose proof (walk_outcome_unique _ _ _ _ _ _ _ _ Ho Ho') as E. injection E as <- <- <-.
  destruct (model_outcome_fields ob vt ps sub) as (M1 & M2 & _). cbv zeta in M1, M2.
  rewrite M1, M2, F1, F3. auto.
Qed.

Lemma outcome_missing ob ps sub :
  descend ob ps = None -> no_selector ps = true -> Forall (fun s => s <> []) ps ->
  t_view_name (model_outcome ob [] ps sub) <> [].
Proof.
  intros Hd Hs Hne.
  destruct (spec_outcome_walk ob [] ps sub) as (ctx & c & r & Ho & Hf). cbv zeta in Hf.
  destruct Hf as (_ & _ & F3 & _).
  destruct (model_outcome_fields ob [] ps sub) as (_ & M2 & _). cbv zeta in M2. rewrite M2, F3.
  destruct Ho as (H1 & H2 & _ & _). simpl in H1.
  destruct r as [|s r'].
  - rewrite app_nil_r in H1. subst c. congruence.
  - unfold view_name_of.
    assert (Hin : In s ps) by (rewrite H1; apply in_or_app; right; left; reflexivity).
    unfold no_selector in Hs. rewrite forallb_forall in Hs. specialize (Hs s Hin).
    apply negb_true_iff in Hs. rewrite Hs. rewrite Forall_forall in Hne. exact (Hne s Hin).
Qed.

Lemma plain_nonempty segs : plain segs -> Forall (fun s => s <> []) segs.
Proof. intros H. eapply Forall_impl; [|apply plain_normal; exact H]. intros a (Ha & _). exact Ha. Qed.

(* the answer of find_resource once PATH_INFO decodes to plain segments *)
Definition lookup_result (ob : rnode) (segs : list text) : found :=
  match descend ob segs with Some n => FoundAt (fst n) | None => KeyErr end.

Lemma find_on_path ob pi p segs :
  decode_path_info pi = Ok p -> split_path_info p = segs -> plain segs ->
  xbind (lift (traverser_call ob (mkReq (Some pi) None None)))
        (fun d => Val (match t_view_name d with [] => FoundAt (t_context d) | _ => KeyErr end))
  = Val (lookup_result ob segs).
Proof.
  intros Hd Hs Hp. rewrite (traverser_on_path ob pi p None []) by (assumption || reflexivity).
  rewrite Hs. cbn [lift xbind]. unfold lookup_result. f_equal.
  destruct (descend ob segs) as [n|] eqn:E.
  - destruct (outcome_found ob [] segs [] n E (plain_no_selector _ Hp)) as (-> & ->). reflexivity.
  - pose proof (outcome_missing ob segs [] E (plain_no_selector _ Hp) (plain_nonempty _ Hp)) as H.
    destruct (t_view_name _); [contradiction|reflexivity].
Qed.

(* ------------------------------------------------------------------ _join_path_tuple *)
Lemma rmap_quote segs : Forall (fun s => forallb valid_scalar s = true) segs ->
  rmap quote_path_segment segs = Ok (map q segs).
Proof.
  intros Hf. induction Hf as [|x r Hx _ IH]; [reflexivity|].
  simpl. unfold quote_path_segment at 1. rewrite Hx. cbn [rbind]. rewrite IH. reflexivity.
Qed.

Lemma q_nonempty s : s <> [] -> q s <> [].
Proof.
  destruct s as [|c s]; [congruence|]. intros _. unfold q, Utf8.encode, Percent.quote. simpl flat_map.
  unfold encode1. destruct (c <? 128)%N; [|destruct (c <? 2048)%N; [|destruct (c <? 65536)%N]];
    simpl; unfold quote1; match goal with |- context [is_safe ?a ?b] => destruct (is_safe a b) end; discriminate.
Qed.

Lemma qpath_cons_nonempty s r : s <> [] -> qpath (s :: r) <> [].
Proof.
  intros H. unfold qpath. simpl map. pose proof (q_nonempty s H) as Hq.
  destruct r; simpl; destruct (q s); try congruence; discriminate.
Qed.

(* an absolute tuple ('', n1, ..., nk) *)
Lemma jpt_abs segs : Forall (fun s => forallb valid_scalar s = true) segs ->
  join_path_tuple ([] :: segs) = Ok (slash :: qpath segs).
Proof.
  intros Hf. unfold join_path_tuple. simpl rmap. unfold quote_path_segment at 1. simpl forallb. cbn [rbind].
  rewrite rmap_quote by assumption. cbn [rbind]. unfold qpath.
  destruct segs as [|x r]; [reflexivity|]. reflexivity.
Qed.

(* a relative tuple (n1, ..., nk), k >= 1, first name non-empty *)
Lemma jpt_rel s r : Forall (fun s => forallb valid_scalar s = true) (s :: r) -> s <> [] ->
  join_path_tuple (s :: r) = Ok (qpath (s :: r)).
Proof.
  intros Hf Hs. unfold join_path_tuple. rewrite rmap_quote by assumption. cbn [rbind].
  change (join slash_text (map q (s :: r))) with (qpath (s :: r)). pose proof (qpath_cons_nonempty s r Hs) as H.
  destruct (qpath (s :: r)); [congruence|reflexivity].
Qed.

Lemma is_ascii_qpath segs : Forall (fun s => forallb valid_scalar s = true) segs -> is_ascii (qpath segs) = true.
Proof. intros H. unfold is_ascii. apply (qpath_ascii segs H). Qed.

Lemma qpath_head s r : forallb valid_scalar s = true -> s <> [] ->
  exists c t, qpath (s :: r) = c :: t /\ c <> slash.
Proof.
  intros Hv Hs. pose proof (q_nonempty s Hs) as Hq. destruct (q s) as [|c t] eqn:E; [congruence|].
  assert (Hc : c <> slash).
  { intros ->. apply (q_no slash s Hv); [apply safe_facts|discriminate|reflexivity|rewrite E; left; reflexivity]. }
  unfold qpath. simpl map. rewrite E. destruct r; simpl; eauto.
Qed.

(* ------------------------------------------------------------------ traverse / find_resource *)
Lemma blank_plain path : has_scheme path = false -> ~ In question path ->
  blank_path_info path = Val (webob_unquote path).
Proof.
  intros H1 H2. unfold blank_path_info. rewrite H1. rewrite split_on_nosep_id by assumption. reflexivity.
Qed.

Lemma has_scheme_slash t : has_scheme (slash :: t) = false.
Proof. reflexivity. Qed.

(* absolute lookup of plain segments: the start resource is irrelevant *)
Theorem find_abs_tuple root start segs : plain segs ->
  find7 root start (PTuple ([] :: segs)) = Val (lookup_result ([], root) segs).
Proof.
  intros Hp. pose proof (plain_valid _ Hp) as Hv.
  unfold find7, traverse7. rewrite jpt_abs by assumption. cbn [lift xbind].
  assert (Ha : is_ascii (slash :: qpath segs) = true) by (simpl; rewrite is_ascii_qpath by assumption; reflexivity).
  rewrite Ha. cbn [negb]. rewrite N.eqb_refl. cbn [xbind].
  rewrite blank_plain.
  2:{ apply has_scheme_slash. }
  2:{ intros [H|H]; [discriminate|]. exact (qpath_no_question segs Hv H). }
  cbn [xbind]. rewrite wu_cons by (unfold slash; lia).
  rewrite <- (app_nil_r (qpath segs)), wu_qpath by (auto). rewrite wu_nil, app_nil_r.
  change (slash :: join [slash] (map encode segs)) with (slash :: join [slash] (map encode segs)).
  pose proof (wire_path_decode segs false Hv) as Hd. unfold wire_path in Hd. rewrite app_nil_r in Hd.
  apply (find_on_path ([], root) _ _ segs Hd); [|assumption].
  apply text_path_split. apply plain_normal. assumption.
Qed.

Lemma decode_join segs : Forall (fun s => forallb valid_scalar s = true) segs ->
  decode_path_info (join [slash] (map encode segs)) = Ok (join [slash] segs).
Proof. intros H. rewrite join_encode. apply decode_path_info_encode. apply join_valid. assumption. Qed.

(* relative lookup of plain segments from the resource at [a] -- as long as
   webob does not take the text for a URL *)
Theorem find_rel_tuple root a na segs : plain segs -> node_at root a = Some na ->
  has_scheme (qpath segs) = false ->
  find7 root a (PTuple segs) = Val (lookup_result (a, na) segs).
Proof.
  intros Hp Hn Hs. pose proof (plain_valid _ Hp) as Hv.
  destruct segs as [|s r].
  - unfold find7, traverse7. cbn [xbind is_ascii forallb negb]. rewrite Hn. cbn [xbind].
    unfold blank_path_info. cbn [has_scheme has_scheme_from split_on hd]. cbn [xbind].
    apply (find_on_path (a, na) [] [] []); reflexivity.
  - assert (Hne : s <> []).
    { pose proof (plain_nonempty _ Hp) as H. inversion H. assumption. }
    unfold find7, traverse7. rewrite jpt_rel by assumption. cbn [lift xbind].
    rewrite is_ascii_qpath by assumption. cbn [negb].
    assert (Hsv : forallb valid_scalar s = true) by (inversion Hv; assumption).
    destruct (qpath_head s r Hsv Hne) as (c & t & Hq & Hc).
    rewrite Hq. destruct (N.eqb_spec c slash) as [->|_]; [congruence|]. rewrite <- Hq.
    rewrite Hn. cbn [xbind].
    rewrite blank_plain by (assumption || apply qpath_no_question; assumption). cbn [xbind].
    rewrite <- (app_nil_r (qpath (s :: r))) at 1. rewrite wu_qpath by auto. rewrite wu_nil, app_nil_r.
    apply (find_on_path (a, na) _ _ (s :: r) (decode_join _ Hv)); [|assumption].
    apply spi_normal_id. apply plain_normal. assumption.
Qed.

(* the string forms: traverse joins a tuple and then treats it like a string *)
Lemma find_str_of_tuple root a l s : l <> [] -> join_path_tuple l = Ok s ->
  find7 root a (PStr s) = find7 root a (PTuple l).
Proof.
  intros Hl Hj. unfold find7, traverse7. destruct l as [|x l]; [congruence|]. rewrite Hj. reflexivity.
Qed.

(* ------------------------------------------------------------------ the property's lookups *)
Lemma good_resource_spec root r names : good_resource root r = Some names ->
  names_at root r = Some names /\ plain names /\
  exists x, descend ([], root) names = Some (r, x) /\ node_at root r = Some x.
Proof.
  unfold good_resource. destruct (names_at root r) as [ns|] eqn:E; [|discriminate].
  destruct (forallb admissible ns) eqn:Ha; [|discriminate]. unfold reachable.
  destruct (descend ([], root) ns) as [[p x]|] eqn:Hd; [|discriminate]. simpl.
  destruct (pos_eqb p r) eqn:Hp; [|discriminate]. apply pos_eqb_eq in Hp. subst p.
  intros H. injection H as <-. repeat split; auto. exists x. split; [exact Hd|].
  exact (proj1 (descend_root_tree root ns (r, x) Hd)).
Qed.

Lemma name_or_default_id n : name_or_default n = n.
Proof. unfold name_or_default. rewrite f_default. destruct n; reflexivity. Qed.

Lemma path_list_eq names els : resource_path_list names els = ([] :: names) ++ els.
Proof.
  unfold resource_path_list. rewrite name_or_default_id. f_equal. f_equal.
  induction names as [|n l IH]; [reflexivity|]. simpl. rewrite name_or_default_id, IH. reflexivity.
Qed.

(* find_path_tuple: the path tuple of a resource resolves back to it, from any start *)
Theorem find_path_tuple root r a names : good_resource root r = Some names ->
  xbind (resource_path_tuple root r []) (fun t => find7 root a (PTuple t)) = Val (FoundAt r).
Proof.
  intros Hg. destruct (good_resource_spec _ _ _ Hg) as (Hn & Hp & x & Hd & _).
  unfold resource_path_tuple, names_of. rewrite Hn. cbn [xbind]. rewrite path_list_eq, app_nil_r.
  rewrite find_abs_tuple by assumption. unfold lookup_result. rewrite Hd. reflexivity.
Qed.

(* find_path_string: so does the path string *)
Theorem find_path_string root r a names : good_resource root r = Some names ->
  xbind (resource_path root r []) (fun s => find7 root a (PStr s)) = Val (FoundAt r).
Proof.
  intros Hg. pose proof (find_path_tuple root r a names Hg) as H.
  destruct (good_resource_spec _ _ _ Hg) as (Hn & Hp & _).
  unfold resource_path. unfold resource_path_tuple, names_of in *. rewrite Hn in *. cbn [xbind] in *.
  rewrite path_list_eq, app_nil_r in *. rewrite jpt_abs by (apply plain_valid; assumption). cbn [lift xbind].
  rewrite (find_str_of_tuple root a ([] :: names)); [exact H|discriminate|].
  apply jpt_abs. apply plain_valid. assumption.
Qed.

(* relative and absolute lookups agree and are the item lookup from [a]: a
   missing name (or a resource without items) is a KeyError *)
Theorem relative_absolute_agree_partial root a r names_a rel :
  good_resource root a = Some names_a -> plain rel -> has_scheme (qpath rel) = false ->
  exists f, spec_lookup root a rel = Some f /\
    find7 root a (PTuple rel) = Val f /\
    xbind (resource_path_tuple root a rel) (fun t => find7 root r (PTuple t)) = Val f.
Proof.
  intros Hg Hp Hs. destruct (good_resource_spec _ _ _ Hg) as (Hn & Hpa & x & Hd & Hx).
  unfold spec_lookup. rewrite Hx. eexists. split; [reflexivity|]. split.
  - rewrite (find_rel_tuple root a x rel Hp Hx Hs). reflexivity.
  - unfold resource_path_tuple, names_of. rewrite Hn. cbn [xbind]. rewrite path_list_eq.
    change (([] :: names_a) ++ rel) with ([] :: (names_a ++ rel)).
    rewrite find_abs_tuple by (apply plain_app; auto).
    unfold lookup_result. rewrite descend_app, Hd. reflexivity.
Qed.

(* the absolute form needs no side condition *)
Theorem absolute_lookup root a r names_a rel :
  good_resource root a = Some names_a -> plain rel ->
  exists f, spec_lookup root a rel = Some f /\
    xbind (resource_path_tuple root a rel) (fun t => find7 root r (PTuple t)) = Val f.
Proof.
  intros Hg Hp. destruct (good_resource_spec _ _ _ Hg) as (Hn & Hpa & x & Hd & Hx).
  unfold spec_lookup. rewrite Hx. eexists. split; [reflexivity|].
  unfold resource_path_tuple, names_of. rewrite Hn. cbn [xbind]. rewrite path_list_eq.
  change (([] :: names_a) ++ rel) with ([] :: (names_a ++ rel)).
  rewrite find_abs_tuple by (apply plain_app; auto).
  unfold lookup_result. rewrite descend_app, Hd. reflexivity.
Qed.

(* find_missing *)
Theorem find_missing root a names_a rel x :
  good_resource root a = Some names_a -> plain rel -> has_scheme (qpath rel) = false ->
  node_at root a = Some x -> descend (a, x) rel = None ->
  find7 root a (PTuple rel) = Val KeyErr /\
  xbind (resource_path_tuple root a rel) (fun t => find7 root a (PTuple t)) = Val KeyErr.
Proof.
  intros Hg Hp Hs Hx Hd.
  destruct (relative_absolute_agree_partial root a a names_a rel Hg Hp Hs) as (f & Hf & H1 & H2).
  unfold spec_lookup in Hf. rewrite Hx, Hd in Hf. injection Hf as <-. auto.
Qed.

(* ------------------------------------------------------------------ ResourceURL *)
Lemma texts_eqb_eq a b : texts_eqb a b = true <-> a = b.
Proof.
  revert b. induction a as [|x a IH]; destruct b as [|y b]; simpl; try (split; congruence).
  rewrite andb_true_iff, text_eqb_eq, IH. split; [intros [-> ->]; reflexivity|intros H; injection H; auto].
Qed.

Definition fm (names : list text) : text := flat_map (fun n => q n ++ [slash]) names.

Lemma slashed_fm names : slashed names = slash :: fm names.
Proof. reflexivity. Qed.

Lemma fm_qpath names : names <> [] -> fm names = qpath names ++ [slash].
Proof.
  induction names as [|x r IH]; [congruence|]. intros _. destruct r as [|y r]; [unfold fm, qpath; simpl; rewrite app_nil_r; reflexivity|].
  change (fm (x :: y :: r)) with ((q x ++ [slash]) ++ fm (y :: r)). rewrite IH by discriminate.
  change (qpath (x :: y :: r)) with (q x ++ [slash] ++ qpath (y :: r)). rewrite <- !app_assoc. reflexivity.
Qed.

Lemma fm_app a b : fm (a ++ b) = fm a ++ fm b.
Proof. unfold fm. apply flat_map_app. Qed.

(* the physical path splits at any depth into the quoted prefix and the slashed rest *)
Lemma slashed_app a b : a <> [] -> slashed (a ++ b) = (slash :: qpath a) ++ slashed b.
Proof.
  intros Ha. rewrite !slashed_fm, fm_app, fm_qpath by assumption. simpl. rewrite <- app_assoc. reflexivity.
Qed.

Lemma join_trail l : join [slash] (l ++ [[]]) = flat_map (fun s => s ++ [slash]) l.
Proof.
  induction l as [|x l IH]; [reflexivity|].
  simpl app. destruct (l ++ [[]]) as [|y r] eqn:E; [destruct l; discriminate|].
  change (join [slash] (x :: y :: r)) with (x ++ [slash] ++ join [slash] (y :: r)).
  rewrite IH. simpl. rewrite <- app_assoc. reflexivity.
Qed.

Lemma join_cons_nil (l : list text) : l <> [] -> join [slash] ([] :: l) = slash :: join [slash] l.
Proof. destruct l; [congruence|reflexivity]. Qed.

Lemma flat_map_map_q rest : flat_map (fun s => s ++ [slash]) (map q rest) = fm rest.
Proof. induction rest as [|x r IH]; [reflexivity|]. simpl. rewrite IH. reflexivity. Qed.

(* ('',) + rest + ('',) joins to the slashed form *)
Lemma jpt_trail rest : Forall (fun s => forallb valid_scalar s = true) rest ->
  join_path_tuple (([] :: rest) ++ [[]]) = Ok (slashed rest).
Proof.
  intros Hf. unfold join_path_tuple. simpl app.
  assert (Hv : Forall (fun s => forallb valid_scalar s = true) ([] :: rest ++ [[]])).
  { constructor; [reflexivity|]. apply Forall_app. split; [assumption|]. constructor; [reflexivity|constructor]. }
  rewrite rmap_quote by exact Hv. cbn [rbind]. simpl map. rewrite map_app. simpl map.
  change (q []) with (@nil N).
  match goal with |- context [join slash_text ?l] => assert (E : join slash_text l = slashed rest) end.
  { pose proof (join_trail (map q rest)) as Hj. rewrite flat_map_map_q in Hj.
    rewrite slashed_fm, <- Hj.
    apply join_cons_nil. destruct (map q rest); discriminate. }
  rewrite E. reflexivity.
Qed.

Definition prefix_of (vt names : list text) : bool := texts_eqb (firstn (length vt) names) vt.

Lemma prefix_of_spec vt names : prefix_of vt names = true <-> exists rest, names = vt ++ rest.
Proof.
  unfold prefix_of. rewrite texts_eqb_eq. split.
  - intros H. exists (skipn (length vt) names). rewrite <- H at 1. symmetry. apply firstn_skipn.
  - intros [rest ->]. rewrite firstn_app, Nat.sub_diag, firstn_all. simpl. apply app_nil_r.
Qed.

(* with the trailing '' of the physical tuple, the comparison of the code is the prefix test *)
Lemma trim_test (vt names : list (list N)) : Forall normal_seg vt ->
  texts_eqb (firstn (length vt) (names ++ [[]])) vt = prefix_of vt names.
Proof.
  intros Hn. unfold prefix_of. unfold text in *. destruct (Nat.le_gt_cases (length vt) (length names)) as [Hl|Hl].
  - rewrite firstn_app. replace (length vt - length names) with 0 by lia. simpl. rewrite app_nil_r. reflexivity.
  - rewrite (firstn_all2 names) by lia.
    assert (H1 : texts_eqb names vt = false).
    { apply not_true_is_false. intros E. apply texts_eqb_eq in E. subst. lia. }
    rewrite H1. apply not_true_is_false. intros E. apply texts_eqb_eq in E.
    rewrite firstn_all2 in E by (rewrite app_length; simpl; lia).
    rewrite Forall_forall in Hn.
    assert (Hin : In [] vt) by (rewrite <- E; apply in_or_app; right; left; reflexivity).
    destruct (Hn [] Hin) as (H & _). congruence.
Qed.

Lemma header_segments_some raw vt : header_segments (Some raw) = Some vt ->
  exists d, decode_path_info raw = Ok d /\ vt = split_path_info d.
Proof. simpl. destruct (decode_path_info raw) as [d| |]; try discriminate. intros H. injection H as <-. eauto. Qed.

Lemma header_normal vroot vt : header_segments vroot = Some vt -> Forall normal_seg vt.
Proof.
  destruct vroot as [raw|]; [|intros H; injection H as <-; constructor].
  intros H. destruct (header_segments_some _ _ H) as (d & _ & ->). apply spi_normal.
Qed.

(* what the repaired adapter computes for a resource with plain lineage names *)
Lemma adapter_paths root r names vroot vt :
  names_at root r = Some names -> plain names -> header_segments vroot = Some vt ->
  exists u, resource_url_adapter UrlTupleCompare root r vroot = Val u /\ ru_pp u = slashed names /\
            ru_vp u = if prefix_of vt names then slashed (skipn (length vt) names) else slashed names.
Proof.
  intros Hn Hp Hh. pose proof (plain_valid _ Hp) as Hv. pose proof (header_normal _ _ Hh) as Hnv.
  unfold resource_url_adapter, resource_path_tuple, names_of. rewrite Hn. cbn [xbind].
  rewrite path_list_eq, app_nil_r, jpt_abs by assumption. cbn [lift xbind].
  rewrite f_root_tuple, f_trail_elt, f_trail_sep, f_head. unfold text in *.
  destruct names as [|x l].
  - (* the root *)
    cbn [texts_eqb text_eqb andb]. change (slash :: qpath []) with (slashed []).
    destruct vroot as [raw|].
    + destruct (header_segments_some _ _ Hh) as (d & Hd & ->). rewrite Hd. cbn [lift xbind].
      cbn [skipn firstn]. rewrite firstn_nil.
      destruct (split_path_info d) as [|s vt'] eqn:E.
      * simpl. eexists. repeat split.
      * simpl. eexists. repeat split.
    + injection Hh as <-. simpl. eexists. repeat split.
  - assert (Hne : texts_eqb ([] :: x :: l) [[]] = false) by reflexivity. rewrite Hne.
    assert (Hpp : (slash :: qpath (x :: l)) ++ [slash] = slashed (x :: l)).
    { rewrite slashed_fm, fm_qpath by discriminate. reflexivity. }
    rewrite Hpp.
    destruct vroot as [raw|].
    + destruct (header_segments_some _ _ Hh) as (d & Hd & Evt). rewrite Hd. cbn [lift xbind]. rewrite <- Evt.
      change (skipn 1 (([] :: x :: l) ++ [[]])) with ((x :: l) ++ [[]]).
      rewrite trim_test by assumption.
      destruct vt as [|s vt'].
      * simpl. eexists. repeat split.
      * cbn [length Nat.eqb negb andb].
        destruct (prefix_of (s :: vt') (x :: l)) eqn:Ept.
        -- apply prefix_of_spec in Ept as [rest Er].
           assert (Hsk : skipn (S (S (length vt'))) (([] :: x :: l) ++ [[]]) = rest ++ [[]]).
           { change (skipn (S (S (length vt'))) (([] :: x :: l) ++ [[]])) with (skipn (S (length vt')) ((x :: l) ++ [[]])).
             rewrite Er, <- app_assoc. change (S (length vt')) with (length (s :: vt')).
             rewrite skipn_app, Nat.sub_diag, skipn_all. reflexivity. }
           rewrite Hsk. change ([[]] ++ rest ++ [[]]) with (([] :: rest) ++ [[]]).
           assert (Hrv : Forall (fun s => forallb valid_scalar s = true) rest).
           { rewrite Er in Hv. apply Forall_app in Hv. tauto. }
           rewrite jpt_trail by assumption. cbn [lift xbind]. eexists. split; [reflexivity|]. split; [reflexivity|].
           cbn [ru_vp]. rewrite Er. change (S (length vt')) with (length (s :: vt')).
           rewrite skipn_app, Nat.sub_diag, skipn_all. reflexivity.
        -- eexists. repeat split.
    + injection Hh as <-. simpl. eexists. repeat split.
Qed.

(* "inside the virtual root" (resource identity) = "the virtual-root segments
   are a prefix of the lineage names", for a location-consistent tree *)
Lemma inside_prefix root r names x vt :
  names_at root r = Some names -> descend ([], root) names = Some (r, x) ->
  (forall v, inside root vt r = Some v ->
     prefix_of vt names = true /\ exists y, descend ([], root) vt = Some (v, y)) /\
  (prefix_of vt names = true -> exists v, inside root vt r = Some v).
Proof.
  intros Hn Hd. split.
  - intros v. unfold inside. destruct (descend ([], root) vt) as [[p y]|] eqn:E; [|discriminate]. simpl.
    destruct (pos_prefixb p r) eqn:Ep; [|discriminate]. intros H. injection H as <-.
    split; [|eauto]. apply pos_prefixb_spec in Ep as [suf ->].
    destruct (descend_root_tree root vt (p, y) E) as (N1 & N2). simpl in N1, N2.
    rewrite names_at_app, N2, N1 in Hn. destruct (names_at y suf) as [ns|]; [|discriminate].
    simpl in Hn. injection Hn as <-. apply prefix_of_spec. eauto.
  - intros Hp. apply prefix_of_spec in Hp as [rest ->]. rewrite descend_app in Hd.
    unfold inside. destruct (descend ([], root) vt) as [v|] eqn:E; [|discriminate].
    destruct (descend_pos _ _ _ Hd) as (suf & Hs & _). simpl in Hs.
    assert (Hpre : pos_prefixb (fst v) r = true) by (apply pos_prefixb_spec; eauto).
    rewrite Hpre. eauto.
Qed.

(* vroot_trim_iff_inside, first half: the virtual path is the one the property demands *)
Theorem url_virtual_path root r names vroot vt :
  good_resource root r = Some names -> header_segments vroot = Some vt ->
  exists u, resource_url_adapter UrlTupleCompare root r vroot = Val u /\
            ru_vp u = spec_virtual_path root r names vt /\ ru_pp u = slashed names.
Proof.
  intros Hg Hh. destruct (good_resource_spec _ _ _ Hg) as (Hn & Hp & x & Hd & _).
  destruct (adapter_paths root r names vroot vt Hn Hp Hh) as (u & Hu & Hpp & Hvp).
  exists u. split; [exact Hu|]. split; [|exact Hpp]. rewrite Hvp. unfold spec_virtual_path.
  destruct (inside_prefix root r names x vt Hn Hd) as (I1 & I2).
  destruct (inside root vt r) as [v|] eqn:Ei.
  - destruct (I1 v eq_refl) as (-> & _). reflexivity.
  - destruct (prefix_of vt names) eqn:Ep; [|reflexivity]. destruct (I2 eq_refl) as (v & Hv). discriminate.
Qed.

Lemma slashed_length_app a b : a <> [] -> length (slashed b) < length (slashed (a ++ b)).
Proof. intros Ha. rewrite slashed_app by assumption. rewrite app_length. simpl. lia. Qed.

(* vroot_trim_iff_inside: under a non-trivial virtual root the prefix is omitted
   exactly when the resource lies inside the virtual root *)
Theorem vroot_trim_iff_inside root r names vroot vt u :
  good_resource root r = Some names -> header_segments vroot = Some vt -> vt <> [] ->
  resource_url_adapter UrlTupleCompare root r vroot = Val u ->
  (ru_vp u <> ru_pp u <-> exists v, inside root vt r = Some v) /\
  (forall v, inside root vt r = Some v ->
     ru_pp u = (slash :: qpath vt) ++ ru_vp u /\ ru_vp u = slashed (skipn (length vt) names)).
Proof.
  intros Hg Hh Hne Hu. destruct (url_virtual_path root r names vroot vt Hg Hh) as (u' & Hu' & Hvp & Hpp).
  rewrite Hu in Hu'. injection Hu' as <-.
  destruct (good_resource_spec _ _ _ Hg) as (Hn & Hp & x & Hd & _).
  destruct (inside_prefix root r names x vt Hn Hd) as (I1 & I2).
  rewrite Hvp, Hpp. unfold spec_virtual_path.
  destruct (inside root vt r) as [v|] eqn:Ei.
  - destruct (I1 v eq_refl) as (Hpre & _). apply prefix_of_spec in Hpre as [rest ->].
    rewrite skipn_app, Nat.sub_diag, skipn_all. simpl app.
    split.
    + split; [eauto|]. intros _ E. pose proof (slashed_length_app vt rest Hne) as Hl. rewrite E in Hl. lia.
    + intros v' _. split; [apply slashed_app; assumption|reflexivity].
  - split; [|discriminate]. split; [congruence|intros [v Hv]; discriminate].
Qed.

(* ------------------------------------------------------------------ requesting the URL again *)
Lemma unquote_slashed rest : Forall (fun s => forallb valid_scalar s = true) rest ->
  exists trail, Percent.unquote (slashed rest) = wire_path rest trail.
Proof.
  intros Hv. destruct rest as [|x l].
  - exists false. reflexivity.
  - exists true. rewrite slashed_fm, fm_qpath by discriminate.
    rewrite pu_cons by (unfold slash; lia). rewrite pu_qpath by eauto.
    unfold wire_path. reflexivity.
Qed.

Lemma header_vroot_tuple pi vroot vt : header_segments vroot = Some vt ->
  vroot_tuple_of (mkReq (Some pi) None vroot) = Ok vt.
Proof.
  unfold vroot_tuple_of, header_segments. simpl. destruct vroot as [raw|]; [|intros H; injection H as <-; reflexivity].
  destruct (decode_path_info raw); try discriminate. intros H. injection H as <-. reflexivity.
Qed.

(* the URL path, requested with the same header, traverses back to the
   resource with an empty view name (so the view registered for it runs) *)
Theorem url_traverses_back root r names vroot vt v :
  good_resource root r = Some names -> header_segments vroot = Some vt -> inside root vt r = Some v ->
  request_back UrlTupleCompare root r vroot = Val (r, [], Some r).
Proof.
  intros Hg Hh Hi. destruct (good_resource_spec _ _ _ Hg) as (Hn & Hp & x & Hd & _).
  destruct (url_virtual_path root r names vroot vt Hg Hh) as (u & Hu & Hvp & _).
  destruct (inside_prefix root r names x vt Hn Hd) as (I1 & _). destruct (I1 v Hi) as (Hpre & _).
  unfold spec_virtual_path in Hvp. rewrite Hi in Hvp.
  apply prefix_of_spec in Hpre as [rest Er].
  assert (Hrest : skipn (length vt) names = rest) by (rewrite Er, skipn_app, Nat.sub_diag, skipn_all; reflexivity).
  rewrite Hrest in Hvp.
  assert (Hpr : plain rest) by (rewrite Er in Hp; apply plain_app in Hp; tauto).
  unfold request_back. rewrite Hu. cbn [xbind]. rewrite Hvp.
  destruct (unquote_slashed rest (plain_valid _ Hpr)) as (trail & ->).
  match goal with |- context [lift ?t] =>
    replace t with (Ok (model_outcome ([], root) vt (split_path_info (text_path rest trail)) [])) end.
  2:{ symmetry. apply traverser_on_path; [apply wire_path_decode; apply plain_valid; assumption|].
      apply header_vroot_tuple. assumption. }
  rewrite text_path_split by (apply plain_normal; assumption). cbn [lift xbind].
  assert (Hd' : descend ([], root) (vt ++ rest) = Some (r, x)) by (rewrite <- Er; exact Hd).
  assert (Hs : no_selector (vt ++ rest) = true) by (rewrite <- Er; apply plain_no_selector; assumption).
  destruct (outcome_found ([], root) vt rest [] (r, x) Hd' Hs) as (-> & ->). reflexivity.
Qed.

(* ------------------------------------------------------------------ virtual_root() *)
Lemma endswith_app a b : endswith b (a ++ b) = true.
Proof. unfold endswith. rewrite rev_app_distr. apply startswith_spec. eauto. Qed.

Theorem virtual_root_inverts root r names vroot vt v :
  good_resource root r = Some names -> header_segments vroot = Some vt -> inside root vt r = Some v ->
  virtual_root UrlTupleCompare root r vroot = Val (FoundAt v).
Proof.
  intros Hg Hh Hi. destruct (good_resource_spec _ _ _ Hg) as (Hn & Hp & x & Hd & _).
  destruct (url_virtual_path root r names vroot vt Hg Hh) as (u & Hu & Hvp & Hpp).
  destruct (inside_prefix root r names x vt Hn Hd) as (I1 & _). destruct (I1 v Hi) as (Hpre & y & Hy).
  unfold spec_virtual_path in Hvp. rewrite Hi in Hvp.
  apply prefix_of_spec in Hpre as [rest Er].
  assert (Hrest : skipn (length vt) names = rest) by (rewrite Er, skipn_app, Nat.sub_diag, skipn_all; reflexivity).
  rewrite Hrest in Hvp.
  unfold virtual_root. rewrite Hu. cbn [xbind]. rewrite Hvp, Hpp.
  destruct vt as [|s vt'].
  - simpl in Er. subst rest. rewrite text_eqb_refl. simpl. simpl in Hy. injection Hy as <- _. reflexivity.
  - rewrite Er. rewrite slashed_app by discriminate.
    assert (Hneq : text_eqb ((slash :: qpath (s :: vt')) ++ slashed rest) (slashed rest) = false).
    { apply text_eqb_neq. intros E. apply (f_equal (@length N)) in E. rewrite app_length in E. simpl in E. lia. }
    rewrite Hneq, endswith_app. cbn [negb andb].
    replace (length ((slash :: qpath (s :: vt')) ++ slashed rest) - length (slashed rest))
      with (length (slash :: qpath (s :: vt'))) by (rewrite app_length; lia).
    rewrite firstn_app, Nat.sub_diag, firstn_all. cbn [firstn]. rewrite app_nil_r.
    assert (Hpv : plain (s :: vt')) by (rewrite Er in Hp; apply plain_app in Hp; tauto).
    rewrite (find_str_of_tuple root r ([] :: s :: vt')); [|discriminate|apply jpt_abs; apply plain_valid; assumption].
    rewrite find_abs_tuple by assumption. unfold lookup_result. rewrite Hy. reflexivity.
Qed.

(* ------------------------------------------------------------------ the URL *)
Lemma f_elements_safe : c07_elements_safe = path_segment_safe. Proof. apply facts_ok7. Qed.
Lemma f_elements_sep : c07_elements_sep = [slash]. Proof. apply facts_ok7. Qed.
Lemma f_script_quoted : c07_script_quoted = true. Proof. apply facts_ok7. Qed.

Lemma suffix_q els : forallb (forallb valid_scalar) els = true ->
  match els with [] => Val [] | _ => join_elements els end = Val (join [slash] (map q els)).
Proof.
  intros H. destruct els as [|e l]; [reflexivity|]. unfold join_elements. rewrite f_elements_safe, f_elements_sep.
  assert (E : rmap (fun e => quote_path_segment_safe e path_segment_safe) (e :: l) = Ok (map q (e :: l))).
  { revert H. generalize (e :: l). intros els H. induction els as [|x r IH]; [reflexivity|].
    simpl in H. apply andb_true_iff in H as [Hx Hr]. simpl. unfold quote_path_segment_safe at 1. rewrite Hx.
    cbn [rbind]. rewrite IH by assumption. reflexivity. }
  rewrite E. reflexivity.
Qed.

(* webob quotes SCRIPT_NAME with the same set of safe characters as pyramid (in another order) *)
Lemma memN_subset l1 l2 b : forallb (fun x => memN x l2) l1 = true -> memN b l1 = true -> memN b l2 = true.
Proof. intros H Hb. apply memN_In in Hb. rewrite forallb_forall in H. exact (H b Hb). Qed.

Lemma webob_safe_same b : is_safe webob_path_safe b = is_safe c07_script_safe b.
Proof.
  unfold is_safe. f_equal.
  assert (H1 : forallb (fun x => memN x c07_script_safe) webob_path_safe = true) by (vm_compute; reflexivity).
  assert (H2 : forallb (fun x => memN x webob_path_safe) c07_script_safe = true) by (vm_compute; reflexivity).
  destruct (memN b webob_path_safe) eqn:E1; destruct (memN b c07_script_safe) eqn:E2; try reflexivity.
  - rewrite (memN_subset _ _ b H1 E1) in E2. discriminate.
  - rewrite (memN_subset _ _ b H2 E2) in E1. discriminate.
Qed.

Lemma webob_quote_same bs : Percent.quote webob_path_safe bs = Percent.quote c07_script_safe bs.
Proof.
  unfold Percent.quote. induction bs as [|b r IH]; [reflexivity|]. simpl. rewrite IH. f_equal.
  unfold quote1. rewrite webob_safe_same. reflexivity.
Qed.

(* resource_url_shape: application URL (host part + quoted SCRIPT_NAME), then the
   (virtual) path with its trailing slash, then the quoted elements *)
Theorem resource_url_shape root r names els vroot vt sn d host :
  good_resource root r = Some names -> header_segments vroot = Some vt ->
  forallb (forallb valid_scalar) els = true -> decode_path_info sn = Ok d ->
  application_url host sn = Val (host ++ Percent.quote c07_script_safe (Utf8.encode d)) /\
  resource_url UrlTupleCompare root r els vroot sn (Some host)
    = Val ((host ++ Percent.quote c07_script_safe (Utf8.encode d)) ++ spec_virtual_path root r names vt
           ++ join [slash] (map q els)) /\
  request_resource_path UrlTupleCompare root r els vroot sn
    = Val (Percent.quote c07_script_safe (Utf8.encode d) ++ spec_virtual_path root r names vt
           ++ join [slash] (map q els)).
Proof.
  intros Hg Hh He Hd. destruct (url_virtual_path root r names vroot vt Hg Hh) as (u & Hu & Hvp & _).
  unfold resource_url, request_resource_path, quoted_script_name, application_url. rewrite f_script_quoted, Hu, Hd.
  cbn [lift xbind]. rewrite suffix_q by assumption. cbn [xbind]. rewrite Hvp, webob_quote_same. auto.
Qed.

Lemma inside_no_header root r : inside root [] r = Some [].
Proof. reflexivity. Qed.

(* resource_url_roundtrip: without a virtual root the URL is the application URL
   plus the slashed quoted names, and its path traverses back to the resource *)
Theorem resource_url_roundtrip root r names sn d host :
  good_resource root r = Some names -> decode_path_info sn = Ok d ->
  resource_url UrlTupleCompare root r [] None sn (Some host)
    = Val ((host ++ Percent.quote c07_script_safe (Utf8.encode d)) ++ slashed names) /\
  request_back UrlTupleCompare root r None = Val (r, [], Some r).
Proof.
  intros Hg Hd. split.
  - destruct (resource_url_shape root r names [] None [] sn d host Hg eq_refl eq_refl Hd) as (_ & H & _).
    unfold spec_virtual_path in H. rewrite inside_no_header in H. cbn [length skipn map join] in H.
    rewrite app_nil_r in H. exact H.
  - apply (url_traverses_back root r names None [] [] Hg eq_refl (inside_no_header root r)).
Qed.

(* ------------------------------------------------------------------ which relative paths webob takes for URLs *)
Lemma hs_tail seen tail : (tail = [] \/ exists t, tail = slash :: t) -> has_scheme_from seen tail = false.
Proof. intros [->|[t ->]]; reflexivity. Qed.

Lemma alpha_safe c : is_alpha c = true -> (c < 128)%N /\ is_safe path_segment_safe c = true.
Proof.
  unfold is_alpha. intros H. split; [lia|]. unfold is_safe, always_safe, is_alnum.
  apply orb_true_iff. left. lia.
Qed.

Lemma q_cons c s : q (c :: s) = Percent.quote path_segment_safe (encode1 c) ++ q s.
Proof. unfold q, Utf8.encode. simpl flat_map. apply quote_app. Qed.

Lemma encode1_head c : (128 <= c)%N -> valid_scalar c = true ->
  exists b bs, encode1 c = b :: bs /\ (128 <= b)%N.
Proof.
  unfold valid_scalar, encode1. intros H Hv.
  assert (E : (c <? 128)%N = false) by lia. rewrite E.
  destruct (c <? 2048)%N eqn:H2; [eexists; eexists; split; [reflexivity|lia]|].
  destruct (c <? 65536)%N eqn:H3; eexists; eexists; (split; [reflexivity|lia]).
Qed.

Lemma hs_q : forall s seen tail, forallb valid_scalar s = true ->
  (tail = [] \/ exists t, tail = slash :: t) ->
  has_scheme_from seen (q s ++ tail) = has_scheme_from seen s.
Proof.
  induction s as [|c s IH]; intros seen tail Hv Ht.
  - change (q []) with (@nil N). simpl app. rewrite hs_tail by assumption. reflexivity.
  - simpl in Hv. apply andb_true_iff in Hv as [Hc Hs]. rewrite q_cons, <- app_assoc.
    destruct (is_alpha c) eqn:Ea.
    + destruct (alpha_safe c Ea) as (Hlt & Hsafe).
      unfold encode1. assert (E : (c <? 128)%N = true) by lia. rewrite E.
      unfold Percent.quote. simpl flat_map. unfold quote1. rewrite Hsafe. simpl app.
      simpl has_scheme_from. rewrite Ea. apply IH; assumption.
    + simpl has_scheme_from at 2. rewrite Ea.
      destruct (c <? 128)%N eqn:E.
      * unfold encode1. rewrite E. unfold Percent.quote. simpl flat_map. unfold quote1.
        destruct (is_safe path_segment_safe c) eqn:Hsafe.
        -- simpl app. simpl has_scheme_from. rewrite Ea. reflexivity.
        -- simpl app. simpl has_scheme_from.
           assert (Hne : (c =? 58)%N = false).
           { destruct (N.eqb_spec c 58) as [->|]; [|reflexivity].
             destruct safe_facts as (_ & _ & _ & _ & H58 & _). congruence. }
           rewrite Hne. reflexivity.
      * destruct (encode1_head c ltac:(lia) Hc) as (b & bs & -> & Hb).
        unfold Percent.quote. simpl flat_map. unfold quote1 at 1.
        assert (Hns : is_safe path_segment_safe b = false).
        { destruct (is_safe path_segment_safe b) eqn:X; [|reflexivity]. apply is_safe_ascii in X. lia. }
        rewrite Hns. simpl app. simpl has_scheme_from.
        assert (Hne : (c =? 58)%N = false) by lia. rewrite Hne. reflexivity.
Qed.

(* the joined relative path looks like a URL with a scheme exactly when its
   FIRST SEGMENT, as given, starts with letters followed by a colon *)
Theorem scheme_like_first_segment s r : forallb valid_scalar s = true ->
  has_scheme (qpath (s :: r)) = has_scheme s.
Proof.
  intros Hv. unfold has_scheme, qpath. destruct r as [|y r].
  - simpl map. simpl join. rewrite <- (app_nil_r (q s)). apply hs_q; auto.
  - change (join [slash] (map q (s :: y :: r))) with (q s ++ slash :: join [slash] (map q (y :: r))).
    apply hs_q; eauto.
Qed.

Definition scheme_like (rel : list text) : bool :=
  match rel with [] => false | s :: _ => has_scheme s end.

Lemma scheme_like_qpath rel : plain rel -> has_scheme (qpath rel) = scheme_like rel.
Proof.
  intros Hp. destruct rel as [|s r]; [reflexivity|]. apply scheme_like_first_segment.
  pose proof (plain_valid _ Hp) as Hv. inversion Hv. assumption.
Qed.

(* relative_absolute_agree_partial in terms of the segments themselves *)
Theorem relative_absolute_agree root a r names_a rel :
  good_resource root a = Some names_a -> plain rel -> scheme_like rel = false ->
  exists f, spec_lookup root a rel = Some f /\
    find7 root a (PTuple rel) = Val f /\
    xbind (resource_path_tuple root a rel) (fun t => find7 root r (PTuple t)) = Val f.
Proof.
  intros Hg Hp Hs. apply (relative_absolute_agree_partial root a r names_a rel Hg Hp).
  rewrite scheme_like_qpath by assumption. exact Hs.
Qed.

Lemma find_abs_str root start t p segs :
  is_ascii (slash :: t) = true -> ~ In question t ->
  decode_path_info (webob_unquote (slash :: t)) = Ok p -> split_path_info p = segs -> plain segs ->
  find7 root start (PStr (slash :: t)) = Val (lookup_result ([], root) segs).
Proof.
  intros Ha Hq Hd Hs Hp. unfold find7, traverse7. cbn [xbind]. rewrite Ha. cbn [negb]. rewrite N.eqb_refl. cbn [xbind].
  rewrite blank_plain; [|apply has_scheme_slash|intros [H|H]; [discriminate|auto]]. cbn [xbind].
  apply (find_on_path ([], root) _ p segs Hd Hs Hp).
Qed.

(* the string forms of the same lookups *)
Theorem relative_absolute_agree_str root a r names_a rel s_abs :
  good_resource root a = Some names_a -> plain rel -> scheme_like rel = false ->
  abs_string root a (qpath rel) = Val s_abs ->
  exists f, spec_lookup root a rel = Some f /\
    find7 root a (PStr (qpath rel)) = Val f /\ find7 root r (PStr s_abs) = Val f.
Proof.
  intros Hg Hp Hs Ha.
  destruct (relative_absolute_agree root a r names_a rel Hg Hp Hs) as (f & Hf & H1 & H2).
  destruct (good_resource_spec _ _ _ Hg) as (Hn & Hpa & x & Hd & Hx).
  pose proof (plain_valid _ Hp) as Hv. pose proof (plain_valid _ Hpa) as Hva.
  exists f. split; [exact Hf|]. split.
  - destruct rel as [|s l].
    + (* '' and () are the same request *)
      rewrite <- H1. reflexivity.
    + rewrite (find_str_of_tuple root a (s :: l)); [exact H1|discriminate|].
      apply jpt_rel; [assumption|]. pose proof (plain_nonempty _ Hp) as Hne. inversion Hne. assumption.
  - unfold abs_string, resource_path, resource_path_tuple, names_of in Ha. rewrite Hn in Ha. cbn [xbind] in Ha.
    rewrite path_list_eq, app_nil_r, jpt_abs in Ha by assumption. cbn [lift xbind] in Ha.
    unfold resource_path_tuple, names_of in H2. rewrite Hn in H2. cbn [xbind] in H2. rewrite path_list_eq in H2.
    change (([] :: names_a) ++ rel) with ([] :: (names_a ++ rel)) in H2.
    destruct rel as [|s l].
    + simpl in Ha. injection Ha as <-. rewrite app_nil_r in H2.
      rewrite (find_str_of_tuple root r ([] :: names_a)); [exact H2|discriminate|apply jpt_abs; assumption].
    + assert (Hq : qpath (s :: l) <> []).
      { apply qpath_cons_nonempty. pose proof (plain_nonempty _ Hp) as Hne. inversion Hne. assumption. }
      destruct (qpath (s :: l)) as [|c t] eqn:Eq; [congruence|]. injection Ha as <-. rewrite <- Eq.
      (* "/" qpath(names_a) "/" qpath(rel): the same segments up to an empty one when a is the root *)
      rewrite find_abs_tuple in H2 by (apply plain_app; auto). injection H2 as <-.
      apply (find_abs_str root r _ (slash :: join [slash] names_a ++ slash :: join [slash] (s :: l))).
      * change (is_ascii (slash :: (qpath names_a ++ slash :: qpath (s :: l))) = true).
        unfold is_ascii. simpl. rewrite forallb_app. simpl. rewrite !qpath_ascii by assumption. reflexivity.
      * intros H. apply in_app_or in H as [H|[H|H]]; [exact (qpath_no_question _ Hva H)|discriminate|
          exact (qpath_no_question _ Hv H)].
      * change (decode_path_info (webob_unquote (slash :: (qpath names_a ++ slash :: qpath (s :: l))))
                = Ok (slash :: join [slash] names_a ++ slash :: join [slash] (s :: l))).
        rewrite wu_cons by (unfold slash; lia). rewrite wu_qpath by eauto.
        rewrite wu_cons by (unfold slash; lia).
        rewrite <- (app_nil_r (qpath (s :: l))) at 1. rewrite wu_qpath by auto. rewrite wu_nil, app_nil_r.
        rewrite !join_encode.
        replace (slash :: encode (join [slash] names_a) ++ slash :: encode (join [slash] (s :: l)))
          with (encode (slash :: join [slash] names_a ++ slash :: join [slash] (s :: l))).
        -- apply decode_path_info_encode. cbn [forallb]. rewrite forallb_app. cbn [forallb].
           rewrite !join_valid by assumption. reflexivity.
        -- rewrite encode_cons_ascii by (unfold slash; lia). rewrite encode_app.
           rewrite encode_cons_ascii by (unfold slash; lia). reflexivity.
      * change (slash :: join [slash] names_a ++ slash :: join [slash] (s :: l))
          with ((slash :: join [slash] names_a) ++ slash :: join [slash] (s :: l)).
        rewrite spi_app.
        pose proof (text_path_split names_a false (plain_normal _ Hpa)) as H. unfold text_path in H.
        rewrite app_nil_r in H. rewrite H.
        rewrite split_join by (discriminate || (eapply Forall_impl; [|apply plain_normal; exact Hp]; intros ? (_ & _ & _ & X); exact X)).
        rewrite resolve_normal_push by (apply plain_normal; assumption).
        rewrite rev_app_distr, !rev_involutive. reflexivity.
      * apply plain_app. auto.
Qed.

(* ------------------------------------------------------------------ refutations and examples *)
Definition n_one : text := [111; 110; 101]%N.
Definition n_two : text := [116; 119; 111]%N.
Definition n_onetwo : text := [111; 110; 101; 116; 119; 111]%N.
Definition n_x : text := [120]%N.
Definition n_ab : text := [97; 32; 98]%N.          (* "a b" *)
Definition n_c : text := [99]%N.
Definition n_http : text := [104; 116; 116; 112; 58]%N.   (* "http:" *)
Definition n_colon : text := [97; 58; 98]%N.       (* "a:b" *)
Definition leaf : res := Node None.
(*  /one/two   /onetwo/x   /a b/c   /http:/x   /x   /a:b/c  *)
Definition wit7 : res :=
  Node (Some [(n_one, Node (Some [(n_two, leaf)])); (n_onetwo, Node (Some [(n_x, leaf)]));
              (n_ab, Node (Some [(n_c, leaf)])); (n_http, Node (Some [(n_x, leaf)])); (n_x, leaf);
              (n_colon, Node (Some [(n_c, leaf)]))]).
Definition h_one : text := [47; 111; 110; 101]%N.  (* HTTP_X_VHM_ROOT=/one *)
Definition h_ab : text := [47; 97; 32; 98]%N.      (* HTTP_X_VHM_ROOT=/a b *)

(* unrepaired ResourceURL, sibling sharing a string prefix: vroot /one, resource
   /onetwo is NOT inside the virtual root, yet its prefix is cut: 'two/' *)
Lemma vroot_trim_refuted_sibling :
  good_resource wit7 [1] = Some [n_onetwo] /\ header_segments (Some h_one) = Some [n_one] /\
  inside wit7 [n_one] [1] = None /\
  spec_virtual_path wit7 [1] [n_onetwo] [n_one] = [47; 111; 110; 101; 116; 119; 111; 47]%N /\
  exists u, resource_url_adapter UrlStringPrefix wit7 [1] (Some h_one) = Val u /\
            ru_vp u = [116; 119; 111; 47]%N /\ ru_vp u <> ru_pp u.
Proof.
  repeat (split; [vm_compute; reflexivity|]). eexists. split; [vm_compute; reflexivity|].
  split; [reflexivity|discriminate].
Qed.

(* unrepaired ResourceURL, virtual root whose name needs quoting: vroot "/a b",
   resource "/a b/c" IS inside (the traverser resolves the header), the prefix
   is not cut, and the URL does not lead back under the same header *)
Lemma vroot_trim_refuted_quoting :
  good_resource wit7 [2; 0] = Some [n_ab; n_c] /\ header_segments (Some h_ab) = Some [n_ab] /\
  inside wit7 [n_ab] [2; 0] = Some [2] /\
  spec_virtual_path wit7 [2; 0] [n_ab; n_c] [n_ab] = [47; 99; 47]%N /\
  (exists u, resource_url_adapter UrlStringPrefix wit7 [2; 0] (Some h_ab) = Val u /\
             ru_vp u = [47; 97; 37; 50; 48; 98; 47; 99; 47]%N /\ ru_vp u = ru_pp u) /\
  request_back UrlStringPrefix wit7 [2; 0] (Some h_ab) = Val ([2], n_ab, None) /\
  virtual_root UrlStringPrefix wit7 [2; 0] (Some h_ab) = Val (FoundAt []).
Proof.
  repeat (split; [vm_compute; reflexivity|]). split.
  - eexists. split; [vm_compute; reflexivity|]. split; reflexivity.
  - split; vm_compute; reflexivity.
Qed.

(* the same two situations with the repaired adapter (instances of the theorems) *)
Example vroot_trim_repaired :
  (exists u, resource_url_adapter UrlTupleCompare wit7 [1] (Some h_one) = Val u /\ ru_vp u = ru_pp u) /\
  (exists u, resource_url_adapter UrlTupleCompare wit7 [2; 0] (Some h_ab) = Val u /\ ru_vp u = [47; 99; 47]%N) /\
  request_back UrlTupleCompare wit7 [2; 0] (Some h_ab) = Val ([2; 0], [], Some [2; 0]) /\
  virtual_root UrlTupleCompare wit7 [2; 0] (Some h_ab) = Val (FoundAt [2]).
Proof.
  split; [eexists; split; [vm_compute; reflexivity|reflexivity]|].
  split; [eexists; split; [vm_compute; reflexivity|reflexivity]|].
  split; vm_compute; reflexivity.
Qed.

(* relative_absolute_agree at full strength is false of the code: a first
   segment that reads "<letters>:" makes webob parse the joined path as a URL *)
Lemma relative_absolute_agree_refuted :
  good_resource wit7 [] = Some [] /\ plain [n_http; n_x] /\ plain [n_colon; n_c] /\
  scheme_like [n_http; n_x] = true /\ scheme_like [n_colon; n_c] = true /\
  spec_lookup wit7 [] [n_http; n_x] = Some (FoundAt [3; 0]) /\
  find7 wit7 [] (PTuple [n_http; n_x]) = Val (FoundAt [4]) /\
  find7 wit7 [] (PTuple ([] :: [n_http; n_x])) = Val (FoundAt [3; 0]) /\
  spec_lookup wit7 [] [n_colon; n_c] = Some (FoundAt [5; 0]) /\
  find7 wit7 [] (PTuple [n_colon; n_c]) = Err ETypeError /\
  find7 wit7 [] (PTuple ([] :: [n_colon; n_c])) = Val (FoundAt [5; 0]).
Proof. repeat split; vm_compute; reflexivity. Qed.

(* non-vacuity of the central theorems *)
Example find_path_nontrivial :
  good_resource wit7 [0; 0] = Some [n_one; n_two] /\
  resource_path wit7 [0; 0] [] = Val [47; 111; 110; 101; 47; 116; 119; 111]%N /\
  find7 wit7 [4] (PStr [47; 111; 110; 101; 47; 116; 119; 111]%N) = Val (FoundAt [0; 0]) /\
  find7 wit7 [0] (PTuple [n_two]) = Val (FoundAt [0; 0]) /\
  find7 wit7 [0] (PTuple [n_x]) = Val KeyErr /\
  find7 wit7 [4] (PTuple [n_x]) = Val KeyErr.
Proof. repeat split; vm_compute; reflexivity. Qed.

Example trim_nontrivial :
  inside wit7 [n_one] [0; 0] = Some [0] /\
  exists u, resource_url_adapter UrlTupleCompare wit7 [0; 0] (Some h_one) = Val u /\
            ru_vp u = [47; 116; 119; 111; 47]%N /\ ru_pp u = [47; 111; 110; 101; 47; 116; 119; 111; 47]%N.
Proof. split; [reflexivity|]. eexists. split; [vm_compute; reflexivity|]. split; reflexivity. Qed.

Lemma path_info_decodes segs trail :
  Forall (fun s => forallb valid_scalar s = true) segs -> Forall normal_seg segs ->
  decode_path_info (wire_path segs trail) = Ok (text_path segs trail) /\
  split_path_info (text_path segs trail) = segs.
Proof. intros H1 H2. split; [exact (wire_path_decode segs trail H1)|exact (text_path_split segs trail H2)]. Qed.

(* ------------------------------------------------------------------ the judged spec is what the theorems say *)
(* [spec_obs] (extracted, used by the harness to judge the implementation) never
   demands anything the model of the repaired code does not deliver -- outside
   the scheme-like class for the two relative lookups *)
Definition meets (i : nat) (mv sv : val) : Prop :=
  if Nat.eqb i 8 then exists u, mv = put_rurl u /\ sv = VL [VI 7; VT (ru_vp u)] else mv = sv.

Lemma resource_path_good root a names_a : good_resource root a = Some names_a ->
  resource_path root a [] = Val (slash :: qpath names_a).
Proof.
  intros Hg. destruct (good_resource_spec _ _ _ Hg) as (Hn & Hp & _).
  unfold resource_path, resource_path_tuple, names_of. rewrite Hn. cbn [xbind].
  rewrite path_list_eq, app_nil_r, jpt_abs by (apply plain_valid; assumption). reflexivity.
Qed.

(* the oracle is consulted only for texts webob takes for URLs *)
Lemma find7_str_o_plain ok root a path : has_scheme path = false ->
  find7_str_o ok root a path = find7 root a (PStr path).
Proof.
  intros H. unfold find7_str_o, find7, traverse7. cbn [xbind]. unfold blank_path_info_o, blank_path_info. rewrite H.
  destruct (negb (is_ascii path)); [reflexivity|].
  match goal with |- xbind ?x _ = _ => destruct x end; cbn [xbind]; [|reflexivity].
  match goal with |- context [lift ?t] => destruct t end; reflexivity.
Qed.

Theorem spec_obs_sound c i sv :
  nth_error (spec_obs c) i = Some sv -> sv <> none_val ->
  (i = 4 \/ i = 6 -> scheme_like (c_rel c) = false) ->
  exists mv, nth_error (model_obs UrlTupleCompare c) i = Some mv /\ meets i mv sv.
Proof.
  intros Hs Hne Hsch. unfold spec_obs in Hs.
  set (root := c_tree c) in *. set (r := c_r c) in *. set (a := c_a c) in *.
  destruct i as [|[|[|[|[|[|[|[|[|[|[|[|[|i]]]]]]]]]]]]]; cbn [nth_error app] in Hs.
  14: { (* the URLs of further resources asked of the same request *)
    unfold meets. cbn [Nat.eqb]. unfold model_obs. cbn [nth_error app].
    destruct (nth_error (c_more c) i) as [p|] eqn:Ep.
    2:{ rewrite nth_error_map, Ep in Hs. discriminate. }
    rewrite nth_error_map, Ep in Hs. cbn [option_map] in Hs. injection Hs as <-.
    rewrite nth_error_map, Ep. cbn [option_map]. eexists. split; [reflexivity|].
    fold root. destruct (good_resource root p) as [names|] eqn:Hg; [|congruence].
    destruct (header_segments (c_vroot c)) as [vt|] eqn:Hh; [|congruence].
    destruct (c_app c) as [host|] eqn:Ea; [|congruence].
    destruct (decode_path_info (c_script c)) as [d| |] eqn:Hd; try congruence.
    destruct (resource_url_shape root p names [] (c_vroot c) vt (c_script c) d host Hg Hh eq_refl Hd) as (_ & H1 & _).
    apply (f_equal (put_out put_text)) in H1. etransitivity; [exact H1|].
    cbn [put_out map join]. rewrite app_nil_r, <- app_assoc. reflexivity. }
  all: injection Hs as <-; unfold meets; cbn [Nat.eqb nth_error model_obs app];
    fold root r a; try congruence.
  - (* 2 *) destruct (good_resource root r) as [names|] eqn:Hg; [|congruence].
    eexists. split; [reflexivity|]. rewrite (find_path_tuple root r a names Hg). reflexivity.
  - (* 3 *) destruct (good_resource root r) as [names|] eqn:Hg; [|congruence].
    eexists. split; [reflexivity|]. rewrite (find_path_string root r a names Hg). reflexivity.
  - (* 4 *) destruct (good_resource root a) as [names_a|] eqn:Hg; [|congruence].
    destruct (forallb admissible (c_rel c)) eqn:Hp; [|congruence].
    destruct (relative_absolute_agree root a r names_a (c_rel c) Hg Hp (Hsch (or_introl eq_refl))) as (f & Hf & H1 & _).
    rewrite Hf. eexists. split; [reflexivity|]. rewrite H1. reflexivity.
  - (* 5 *) destruct (good_resource root a) as [names_a|] eqn:Hg; [|congruence].
    destruct (forallb admissible (c_rel c)) eqn:Hp; [|congruence].
    destruct (absolute_lookup root a r names_a (c_rel c) Hg Hp) as (f & Hf & H2).
    rewrite Hf. eexists. split; [reflexivity|]. rewrite H2. reflexivity.
  - (* 6 *) destruct (text_eqb (c_rel_str c) (join [slash] (map q (c_rel c)))) eqn:Hc; [|congruence].
    apply text_eqb_eq in Hc.
    destruct (good_resource root a) as [names_a|] eqn:Hg; [|congruence].
    destruct (forallb admissible (c_rel c)) eqn:Hp; [|congruence].
    pose proof (resource_path_good root a names_a Hg) as Hra.
    assert (Hab : exists s_abs, abs_string root a (qpath (c_rel c)) = Val s_abs).
    { unfold abs_string. rewrite Hra. cbn [xbind]. eauto. }
    destruct Hab as (s_abs & Hab).
    destruct (relative_absolute_agree_str root a r names_a (c_rel c) s_abs Hg Hp (Hsch (or_intror eq_refl)) Hab)
      as (f & Hf & H1 & _).
    rewrite Hf. eexists. split; [reflexivity|]. rewrite Hc. change (join [slash] (map q (c_rel c))) with (qpath (c_rel c)).
    rewrite find7_str_o_plain by (rewrite scheme_like_qpath by assumption; apply Hsch; auto).
    rewrite H1. reflexivity.
  - (* 7 *) destruct (text_eqb (c_rel_str c) (join [slash] (map q (c_rel c)))) eqn:Hc; [|congruence].
    apply text_eqb_eq in Hc.
    destruct (good_resource root a) as [names_a|] eqn:Hg; [|congruence].
    destruct (forallb admissible (c_rel c)) eqn:Hp; [|congruence].
    pose proof (resource_path_good root a names_a Hg) as Hra.
    assert (Hab : exists s_abs, abs_string root a (qpath (c_rel c)) = Val s_abs).
    { unfold abs_string. rewrite Hra. cbn [xbind]. eauto. }
    destruct Hab as (s_abs & Hab).
    destruct (absolute_lookup root a r names_a (c_rel c) Hg Hp) as (f & Hf & _).
    rewrite Hf. eexists. split; [reflexivity|]. rewrite Hc. change (join [slash] (map q (c_rel c))) with (qpath (c_rel c)).
    rewrite Hab. cbn [xbind].
    destruct (scheme_like (c_rel c)) eqn:Esl.
    + (* the absolute string needs no side condition: redo the argument through the tuple form *)
      destruct (c_rel c) as [|s l] eqn:Erel; [discriminate|].
      destruct (good_resource_spec _ _ _ Hg) as (Hn & Hpa & x & Hd & Hx).
      unfold abs_string in Hab. rewrite Hra in Hab. cbn [xbind] in Hab.
      assert (Hq : qpath (s :: l) <> []).
      { apply qpath_cons_nonempty. pose proof (plain_nonempty _ Hp) as Hn'. inversion Hn'. assumption. }
      destruct (qpath (s :: l)) as [|ch t] eqn:Eq; [congruence|]. injection Hab as <-. rewrite <- Eq.
      unfold spec_lookup in Hf. rewrite Hx in Hf. injection Hf as <-.
      pose proof (plain_valid _ Hp) as Hv. pose proof (plain_valid _ Hpa) as Hva.
      rewrite (find_abs_str root r (qpath names_a ++ slash :: qpath (s :: l))
                 (slash :: join [slash] names_a ++ slash :: join [slash] (s :: l)) (names_a ++ s :: l)).
      * unfold lookup_result. rewrite descend_app, Hd. reflexivity.
      * unfold is_ascii. simpl. rewrite forallb_app. simpl. rewrite !qpath_ascii by assumption. reflexivity.
      * intros H. apply in_app_or in H as [H|[H|H]]; [exact (qpath_no_question _ Hva H)|discriminate|
          exact (qpath_no_question _ Hv H)].
      * rewrite wu_cons by (unfold slash; lia). rewrite wu_qpath by eauto.
        rewrite wu_cons by (unfold slash; lia).
        rewrite <- (app_nil_r (qpath (s :: l))) at 1. rewrite wu_qpath by auto. rewrite wu_nil, app_nil_r.
        rewrite !join_encode.
        replace (slash :: encode (join [slash] names_a) ++ slash :: encode (join [slash] (s :: l)))
          with (encode (slash :: join [slash] names_a ++ slash :: join [slash] (s :: l))).
        -- apply decode_path_info_encode. cbn [forallb]. rewrite forallb_app. cbn [forallb].
           rewrite !join_valid by assumption. reflexivity.
        -- rewrite encode_cons_ascii by (unfold slash; lia). rewrite encode_app.
           rewrite encode_cons_ascii by (unfold slash; lia). reflexivity.
      * change (slash :: join [slash] names_a ++ slash :: join [slash] (s :: l))
          with ((slash :: join [slash] names_a) ++ slash :: join [slash] (s :: l)).
        rewrite spi_app.
        pose proof (text_path_split names_a false (plain_normal _ Hpa)) as H. unfold text_path in H.
        rewrite app_nil_r in H. rewrite H.
        rewrite split_join by (discriminate || (eapply Forall_impl; [|apply plain_normal; exact Hp]; intros ? (_ & _ & _ & X); exact X)).
        rewrite resolve_normal_push by (apply plain_normal; assumption).
        rewrite rev_app_distr, !rev_involutive. reflexivity.
      * apply plain_app. auto.
    + destruct (relative_absolute_agree_str root a r names_a (c_rel c) s_abs Hg Hp Esl) as (f' & Hf' & _ & H2).
      { unfold abs_string. rewrite Hra. cbn [xbind]. unfold abs_string in Hab. rewrite Hra in Hab. exact Hab. }
      rewrite Hf in Hf'. injection Hf' as <-. rewrite H2. reflexivity.
  - (* 8 *) destruct (good_resource root r) as [names|] eqn:Hg; [|cbn in Hne; congruence].
    destruct (header_segments (c_vroot c)) as [vt|] eqn:Hh; [|cbn in Hne; congruence].
    destruct (url_virtual_path root r names (c_vroot c) vt Hg Hh) as (u & Hu & Hvp & _).
    eexists. split; [reflexivity|]. rewrite Hu. exists u. cbn [put_out put_some]. rewrite Hvp. auto.
  - (* 9 *) destruct (good_resource root r) as [names|] eqn:Hg; [|cbn in Hne; congruence].
    destruct (header_segments (c_vroot c)) as [vt|] eqn:Hh; [|cbn in Hne; congruence].
    unfold spec_suffix in *. destruct (forallb (forallb valid_scalar) (c_els c)) eqn:He; [|cbn in Hne; congruence].
    destruct (c_app c) as [host|] eqn:Ea; [|cbn in Hne; congruence].
    destruct (decode_path_info (c_script c)) as [d| |] eqn:Hd; try (cbn in Hne; congruence).
    destruct (resource_url_shape root r names (c_els c) (c_vroot c) vt (c_script c) d host Hg Hh He Hd) as (_ & H1 & _).
    eexists. split; [reflexivity|]. rewrite H1, <- app_assoc. reflexivity.
  - (* 10 *) destruct (good_resource root r) as [names|] eqn:Hg; [|cbn in Hne; congruence].
    destruct (header_segments (c_vroot c)) as [vt|] eqn:Hh; [|cbn in Hne; congruence].
    unfold spec_suffix in *. destruct (forallb (forallb valid_scalar) (c_els c)) eqn:He; [|cbn in Hne; congruence].
    destruct (decode_path_info (c_script c)) as [d| |] eqn:Hd; try (cbn in Hne; congruence).
    destruct (resource_url_shape root r names (c_els c) (c_vroot c) vt (c_script c) d [] Hg Hh He Hd) as (_ & _ & H2).
    eexists. split; [reflexivity|]. rewrite H2. reflexivity.
  - (* 11 *) destruct (good_resource root r) as [names|] eqn:Hg; [|cbn in Hne; congruence].
    destruct (header_segments (c_vroot c)) as [vt|] eqn:Hh; [|cbn in Hne; congruence].
    destruct (inside root vt r) as [v|] eqn:Hi; [|cbn in Hne; congruence].
    eexists. split; [reflexivity|]. rewrite (virtual_root_inverts root r names (c_vroot c) vt v Hg Hh Hi). reflexivity.
  - (* 12 *) destruct (good_resource root r) as [names|] eqn:Hg; [|cbn in Hne; congruence].
    destruct (header_segments (c_vroot c)) as [vt|] eqn:Hh; [|cbn in Hne; congruence].
    destruct (inside root vt r) as [v|] eqn:Hi; [|cbn in Hne; congruence].
    eexists. split; [reflexivity|]. rewrite (url_traverses_back root r names (c_vroot c) vt v Hg Hh Hi). reflexivity.
Qed.

(* ================================================================== inadmissible names *)
(* What find_resource does with the path tuple of ANY resource whose names are
   text (Unicode scalar values), admissible or not: the quoted joined path is
   decoded back to "/" n1 "/" ... "/" nk, normalised by split_path_info, and walked. *)
Definition segments_of (names : list text) : list text := split_path_info (slash :: join [slash] names).

Definition walk_result (ob : rnode) (segs : list text) : found :=
  let '(ctx, _, rest) := walk ob segs in
  match view_name_of rest with [] => FoundAt (fst ctx) | _ => KeyErr end.

Lemma outcome_walk ob ps sub :
  let '(ctx, c, rest) := walk ob ps in
  t_context (model_outcome ob [] ps sub) = fst ctx /\ t_view_name (model_outcome ob [] ps sub) = view_name_of rest.
Proof.
  destruct (walk ob ps) as [[ctx c] rest] eqn:Hw.
  destruct (spec_outcome_walk ob [] ps sub) as (ctx' & c' & r' & Ho & Hf). cbv zeta in Hf.
  destruct Hf as (F1 & _ & F3 & _). apply walk_unique in Ho. simpl app in Ho. rewrite Hw in Ho. injection Ho as <- <- <-.
  destruct (model_outcome_fields ob [] ps sub) as (M1 & M2 & _). cbv zeta in M1, M2. rewrite M1, M2. auto.
Qed.

Theorem find_abs_general root start names :
  Forall (fun s => forallb valid_scalar s = true) names ->
  find7 root start (PTuple ([] :: names)) = Val (walk_result ([], root) (segments_of names)).
Proof.
  intros Hv. unfold find7, traverse7. rewrite jpt_abs by assumption. cbn [lift xbind].
  assert (Ha : is_ascii (slash :: qpath names) = true) by (simpl; rewrite is_ascii_qpath by assumption; reflexivity).
  rewrite Ha. cbn [negb]. rewrite N.eqb_refl. cbn [xbind].
  rewrite blank_plain.
  2:{ apply has_scheme_slash. }
  2:{ intros [H|H]; [discriminate|]. exact (qpath_no_question names Hv H). }
  cbn [xbind]. rewrite wu_cons by (unfold slash; lia).
  rewrite <- (app_nil_r (qpath names)), wu_qpath by (auto). rewrite wu_nil, app_nil_r.
  pose proof (wire_path_decode names false Hv) as Hd. unfold wire_path, text_path in Hd. rewrite !app_nil_r in Hd.
  match goal with |- context [lift ?t] =>
    replace t with (Ok (model_outcome ([], root) [] (segments_of names) [])) end.
  2:{ symmetry. apply (traverser_on_path ([], root) _ _ None [] Hd). reflexivity. }
  cbn [lift xbind]. unfold walk_result.
  pose proof (outcome_walk ([], root) (segments_of names) []) as H.
  destruct (walk ([], root) (segments_of names)) as [[ctx c] rest]. destruct H as (-> & ->). reflexivity.
Qed.

(* a lone surrogate (anything that is not a Unicode scalar value) cannot be encoded *)
Lemma rmap_quote_bad names : existsb (fun s => negb (forallb valid_scalar s)) names = true ->
  rmap quote_path_segment names = Exc UnicodeEncodeError.
Proof.
  induction names as [|x r IH]; simpl; [discriminate|].
  unfold quote_path_segment at 1. destruct (forallb valid_scalar x); simpl; [|reflexivity].
  intros H. rewrite IH by assumption. reflexivity.
Qed.

Theorem surrogate_name_unencodable root r names els :
  names_at root r = Some names -> existsb (fun s => negb (forallb valid_scalar s)) names = true ->
  resource_path root r els = Err (EExn UnicodeEncodeError) /\
  forall a, xbind (resource_path_tuple root r []) (fun t => find7 root a (PTuple t)) = Err (EExn UnicodeEncodeError).
Proof.
  intros Hn Hb.
  assert (Hr : forall l, rmap quote_path_segment (([] :: names) ++ l) = Exc UnicodeEncodeError).
  { intros l.
    assert (E : rmap quote_path_segment (names ++ l) = Exc UnicodeEncodeError).
    { apply rmap_quote_bad. rewrite existsb_app. apply orb_true_iff. left. exact Hb. }
    change (([] :: names) ++ l) with ([] :: (names ++ l)).
    change (rmap quote_path_segment ([] :: (names ++ l)))
      with (rbind (quote_path_segment []) (fun y => rbind (rmap quote_path_segment (names ++ l)) (fun ys => Ok (y :: ys)))).
    rewrite E. reflexivity. }
  split.
  - unfold resource_path, resource_path_tuple, names_of. rewrite Hn. cbn [xbind]. rewrite path_list_eq.
    unfold join_path_tuple. cbn [app].
    match goal with |- context [rmap quote_path_segment ?l] =>
      replace (rmap quote_path_segment l) with (@Exc (list text) UnicodeEncodeError) by (symmetry; exact (Hr els)) end.
    reflexivity.
  - intros a. unfold resource_path_tuple, names_of. rewrite Hn. cbn [xbind]. rewrite path_list_eq.
    unfold find7, traverse7, join_path_tuple. cbn [app].
    match goal with |- context [rmap quote_path_segment ?l] =>
      replace (rmap quote_path_segment l) with (@Exc (list text) UnicodeEncodeError) by (symmetry; exact (Hr [])) end.
    reflexivity.
Qed.

(* ---- how the normalisation treats one odd name among plain ones *)
Lemma rev_tl_rev {A} (l : list A) : rev (tl (rev l)) = removelast l.
Proof.
  destruct l as [|x l] using rev_ind; [reflexivity|].
  rewrite rev_app_distr. simpl. rewrite rev_involutive, removelast_last. reflexivity.
Qed.

Lemma segments_resolve names : names <> [] -> Forall (fun s => ~ In slash s) names ->
  segments_of names = rev (resolve [] names).
Proof.
  intros Hne Hf. unfold segments_of. rewrite spi_no_strip, split_on_cons_sep, resolve_empty_seg.
  rewrite split_join by assumption. reflexivity.
Qed.

Lemma plain_no_slash l : plain l -> Forall (fun s => ~ In slash s) l.
Proof. intros H. eapply Forall_impl; [|apply plain_normal; exact H]. intros a (_ & _ & _ & X). exact X. Qed.

(* '' and '.' are skipped, '..' removes the name before it *)
Theorem segments_skip pre n post : plain pre -> plain post ->
  (n = [] \/ n = [dot]) -> segments_of (pre ++ n :: post) = pre ++ post.
Proof.
  intros Hp Hq Hn. rewrite segments_resolve.
  - rewrite resolve_app, (resolve_normal_push [] pre) by (apply plain_normal; assumption). rewrite app_nil_r.
    rewrite resolve_cons. assert (E : spi_step (rev pre) n = rev pre) by (destruct Hn as [->| ->]; reflexivity).
    rewrite E, resolve_normal_push by (apply plain_normal; assumption).
    rewrite rev_app_distr, !rev_involutive. reflexivity.
  - destruct pre; discriminate.
  - apply Forall_app. split; [apply plain_no_slash; assumption|].
    constructor; [destruct Hn as [->| ->]; simpl; intuition discriminate|apply plain_no_slash; assumption].
Qed.

Theorem segments_dotdot pre post : plain pre -> plain post ->
  segments_of (pre ++ [dot; dot] :: post) = removelast pre ++ post.
Proof.
  intros Hp Hq. rewrite segments_resolve.
  - rewrite resolve_app, (resolve_normal_push [] pre) by (apply plain_normal; assumption). rewrite app_nil_r.
    rewrite resolve_cons. change (spi_step (rev pre) [dot; dot]) with (tl (rev pre)).
    rewrite resolve_normal_push by (apply plain_normal; assumption).
    rewrite rev_app_distr, rev_involutive, rev_tl_rev. reflexivity.
  - destruct pre; discriminate.
  - apply Forall_app. split; [apply plain_no_slash; assumption|].
    constructor; [simpl; intuition discriminate|apply plain_no_slash; assumption].
Qed.

Lemma join_split_name (pre post : list text) (x y : text) :
  join [slash] (pre ++ (x ++ slash :: y) :: post) = join [slash] (pre ++ x :: y :: post).
Proof.
  induction pre as [|p pre IH].
  - simpl app. destruct post as [|z post]; simpl; rewrite <- ?app_assoc; reflexivity.
  - simpl app. destruct (pre ++ (x ++ slash :: y) :: post) as [|a l] eqn:E1; [destruct pre; discriminate|].
    destruct (pre ++ x :: y :: post) as [|b m] eqn:E2; [destruct pre; discriminate|].
    change (join [slash] (p :: a :: l)) with (p ++ [slash] ++ join [slash] (a :: l)).
    change (join [slash] (p :: b :: m)) with (p ++ [slash] ++ join [slash] (b :: m)).
    rewrite IH. reflexivity.
Qed.

(* a '/' inside a name splits it in two *)
Theorem segments_slash pre x y post : plain pre -> plain post -> plain [x; y] ->
  segments_of (pre ++ (x ++ slash :: y) :: post) = pre ++ x :: y :: post.
Proof.
  intros Hp Hq Hxy. unfold segments_of. rewrite join_split_name.
  pose proof (text_path_split (pre ++ x :: y :: post) false) as H. unfold text_path in H. rewrite app_nil_r in H.
  apply H. apply plain_normal. apply plain_app. split; [assumption|].
  change (x :: y :: post) with ([x; y] ++ post). apply plain_app. auto.
Qed.

(* a name that starts with '@@' is a normal segment, but the walk stops there *)
Lemma walk_stops_at_selector ob pre n post p :
  plain pre -> descend ob pre = Some p -> spec_is_selector n = true ->
  walk ob (pre ++ n :: post) = (p, pre, n :: post).
Proof.
  intros Hp Hd Hs. apply walk_unique. repeat split; auto. apply plain_no_selector. assumption.
Qed.

Lemma walk_plain ob segs : plain segs ->
  walk_result ob segs = lookup_result ob segs.
Proof.
  intros Hp. unfold walk_result, lookup_result.
  destruct (descend ob segs) as [n|] eqn:E.
  - assert (Hw : walk ob segs = (n, segs, [])).
    { apply walk_unique. repeat split; auto; [rewrite app_nil_r; reflexivity|apply plain_no_selector; assumption]. }
    rewrite Hw. reflexivity.
  - destruct (walk ob segs) as [[ctx c] rest] eqn:Hw. destruct (walk_sound _ _ _ _ _ Hw) as (H1 & H2 & _ & _).
    destruct rest as [|s rest'].
    + rewrite app_nil_r in H1. subst c. congruence.
    + unfold view_name_of.
      assert (Hin : In s segs) by (rewrite H1; apply in_or_app; right; left; reflexivity).
      pose proof (plain_no_selector _ Hp) as Hs. unfold no_selector in Hs. rewrite forallb_forall in Hs.
      specialize (Hs s Hin). apply negb_true_iff in Hs. rewrite Hs.
      pose proof (plain_nonempty _ Hp) as Hne. rewrite Forall_forall in Hne. specialize (Hne s Hin).
      destruct s; [congruence|reflexivity].
Qed.

(* the five ways the round trip goes wrong, one odd name among admissible ones:
   ''  '.'   the name is skipped: the lookup continues from its PARENT
   '..'      the name and the one before it are dropped
   'x/y'     looked up as two names
   '@@v'     KeyError (v non-empty)        '@@'  the parent is returned *)
Theorem odd_name_outcomes root start pre post :
  plain pre -> plain post ->
  (forall n, n = [] \/ n = [dot] ->
     find7 root start (PTuple ([] :: pre ++ n :: post)) = Val (lookup_result ([], root) (pre ++ post))) /\
  find7 root start (PTuple ([] :: pre ++ [dot; dot] :: post)) = Val (lookup_result ([], root) (removelast pre ++ post)) /\
  (forall x y, plain [x; y] ->
     find7 root start (PTuple ([] :: pre ++ (x ++ slash :: y) :: post)) = Val (lookup_result ([], root) (pre ++ x :: y :: post))) /\
  (forall n p, normal_seg n -> forallb valid_scalar n = true -> spec_is_selector n = true ->
     descend ([], root) pre = Some p ->
     find7 root start (PTuple ([] :: pre ++ n :: post))
       = Val (match skipn 2 n with [] => FoundAt (fst p) | _ => KeyErr end)).
Proof.
  intros Hp Hq. pose proof (plain_valid _ Hp) as Hvp. pose proof (plain_valid _ Hq) as Hvq.
  split; [|split; [|split]].
  - intros n Hn. rewrite find_abs_general.
    + rewrite segments_skip by assumption. rewrite walk_plain by (apply plain_app; auto). reflexivity.
    + apply Forall_app. split; [assumption|]. constructor; [destruct Hn as [->| ->]; reflexivity|assumption].
  - rewrite find_abs_general.
    + rewrite segments_dotdot by assumption. rewrite walk_plain; [reflexivity|].
      apply plain_app. split; [|assumption]. rewrite removelast_firstn_len. apply plain_firstn. assumption.
    + apply Forall_app. split; [assumption|]. constructor; [reflexivity|assumption].
  - intros x y Hxy. rewrite find_abs_general.
    + rewrite segments_slash by assumption. rewrite walk_plain; [reflexivity|].
      apply plain_app. split; [assumption|]. change (x :: y :: post) with ([x; y] ++ post). apply plain_app. auto.
    + pose proof (plain_valid _ Hxy) as Hv. inversion Hv as [|? ? Hx Hy']. inversion Hy' as [|? ? Hy _]. subst.
      apply Forall_app. split; [assumption|]. constructor; [|assumption].
      rewrite forallb_app. simpl. rewrite Hx, Hy. reflexivity.
  - intros n p Hn Hv Hs Hd. rewrite find_abs_general.
    + unfold segments_of.
      pose proof (text_path_split (pre ++ n :: post) false) as H. unfold text_path in H. rewrite app_nil_r in H.
      rewrite H.
      * unfold walk_result. rewrite (walk_stops_at_selector ([], root) pre n post p Hp Hd Hs).
        unfold view_name_of. rewrite Hs. reflexivity.
      * apply Forall_app. split; [apply plain_normal; assumption|]. constructor; [assumption|apply plain_normal; assumption].
    + apply Forall_app. split; [assumption|]. constructor; assumption.
Qed.

(* whatever the names are: a resource with an inadmissible name in its lineage is never the answer *)
Lemma walk_consumed_plainish ob segs ctx c rest :
  Forall normal_seg segs -> walk ob segs = (ctx, c, rest) ->
  Forall (fun s => normal_seg s /\ spec_is_selector s = false) c.
Proof.
  intros Hn Hw. destruct (walk_sound _ _ _ _ _ Hw) as (H1 & _ & H3 & _). subst segs.
  apply Forall_app in Hn as [Hc _]. unfold no_selector in H3. rewrite forallb_forall in H3.
  rewrite Forall_forall in *. intros s Hs. split; [auto|]. specialize (H3 s Hs). apply negb_true_iff in H3. exact H3.
Qed.

Theorem inadmissible_never_found_back root r a names :
  names_at root r = Some names -> Forall (fun s => forallb valid_scalar s = true) names ->
  existsb (fun s => negb (normal_segb s && negb (spec_is_selector s))) names = true ->
  exists f, xbind (resource_path_tuple root r []) (fun t => find7 root a (PTuple t)) = Val f /\ f <> FoundAt r.
Proof.
  intros Hn Hv Hb. unfold resource_path_tuple, names_of. rewrite Hn. cbn [xbind]. rewrite path_list_eq, app_nil_r.
  rewrite find_abs_general by assumption. eexists. split; [reflexivity|].
  unfold walk_result. destruct (walk ([], root) (segments_of names)) as [[ctx c] rest] eqn:Hw.
  destruct (view_name_of rest); [|discriminate]. intros E. injection E as E.
  destruct (walk_sound _ _ _ _ _ Hw) as (_ & H2 & _ & _).
  pose proof (walk_consumed_plainish _ _ _ _ _ (spi_normal _) Hw) as Hc.
  destruct (descend_root_tree root c ctx H2) as (_ & N2). rewrite E, Hn in N2. injection N2 as ->.
  apply existsb_exists in Hb as (s & Hs & Hbad). rewrite Forall_forall in Hc. destruct (Hc s Hs) as (Hnorm & Hsel).
  apply normal_segb_spec in Hnorm. rewrite Hnorm, Hsel in Hbad. discriminate.
Qed.
