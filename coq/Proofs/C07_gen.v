(* C07 -- the functions REGENERATED from the source (Gen/Code_C07.v, written by harness/c07/translate.py on every
   run) equal the hand-written reference model (Model/C07.v).  The scripts below never mention the generated text:
   they unfold the generated definition and reason with the primitives of the table, by induction on the fuel /
   the lineage where the source loops.  The property theorems are then restated about the generated functions. *)
From Coq Require Import List NArith ZArith Bool Lia Arith.
Import ListNotations.
Require Import Verif.Lib.Wire Verif.Lib.Text Verif.Lib.PathNorm Verif.Lib.Utf8 Verif.Lib.Percent Verif.Lib.C02Expr
               Verif.Lib.C07Types Verif.Gen.Facts_C02 Verif.Gen.Facts_C07 Verif.Model.C02 Verif.Proofs.C02
               Verif.Proofs.C02_gen Verif.Model.C07 Verif.Proofs.C07_rt Verif.Proofs.C07 Verif.Gen.Code_C07.
Close Scope N_scope.

(* ------------------------------------------------------------ reference: the lineage of a position *)
(* a resource, its parent, ..., the root *)
Definition lineage_pos (p : pos) : list pos := map (fun k => firstn k p) (rev (seq 0 (S (length p)))).

Lemma lineage_pos_nil : lineage_pos [] = [[]].
Proof. reflexivity. Qed.

Lemma removelast_firstn_pos (p : pos) : removelast p = firstn (length p - 1) p.
Proof. destruct p as [|x p]; [reflexivity|]. rewrite removelast_firstn_len. f_equal. simpl. lia. Qed.

Lemma lineage_pos_step p : p <> [] -> lineage_pos p = p :: lineage_pos (removelast p).
Proof.
  intros Hp. unfold lineage_pos.
  assert (Hl : length p = S (length (removelast p))).
  { destruct p as [|x p] using rev_ind; [congruence|]. rewrite removelast_last, app_length. simpl. lia. }
  set (m := length (removelast p)) in *. rewrite Hl, (seq_S (S m)), rev_app_distr. cbn [rev app map plus].
  f_equal.
  - rewrite <- Hl. apply firstn_all.
  - apply map_ext_in. intros k Hk. apply in_rev in Hk. apply in_seq in Hk.
    rewrite removelast_firstn_pos, firstn_firstn. f_equal. lia.
Qed.

Lemma pos_parent_ind (P : pos -> Prop) :
  P [] -> (forall p, p <> [] -> P (removelast p) -> P p) -> forall p, P p.
Proof.
  intros H0 Hs p. induction p as [|x p IH] using rev_ind; [exact H0|].
  apply Hs; [destruct p; discriminate|]. rewrite removelast_last. exact IH.
Qed.

Lemma parent_of_spec p : parent_of p = match p with [] => None | _ => Some (removelast p) end.
Proof. reflexivity. Qed.

Lemma length_removelast (p : pos) : p <> [] -> S (length (removelast p)) = length p.
Proof. intros H. destruct p as [|x p] using rev_ind; [congruence|]. rewrite removelast_last, app_length. simpl. lia. Qed.

(* ------------------------------------------------------------ location.lineage *)
Theorem generated_lineage_is_model root p : gen_lineage root p = lineage_pos p.
Proof.
  unfold gen_lineage.
  remember (loop_fuel (Some p)) as f eqn:Ef. assert (Hf : S (length p) < f) by (subst f; unfold loop_fuel; simpl; lia). clear Ef.
  revert p Hf. induction f as [|f IH]; intros p Hf; [lia|].
  cbn -[lineage_pos]. unfold attr_parent. rewrite parent_of_spec.
  destruct p as [|x p'] eqn:Ep.
  - destruct f; reflexivity.
  - rewrite <- Ep in *. assert (Hne : p <> []) by (subst; discriminate).
    rewrite (lineage_pos_step p Hne). f_equal.
    replace (match p with [] => None | _ :: _ => Some (removelast p) end) with (Some (removelast p)) by (subst; reflexivity).
    apply IH. pose proof (length_removelast p Hne). lia.
Qed.

(* ------------------------------------------------------------ location.inside *)
Lemma prefix_step (a b : pos) :
  (exists s, b = a ++ s) <-> b = a \/ (b <> [] /\ exists s, removelast b = a ++ s).
Proof.
  split.
  - intros [s ->]. destruct s as [|x s] using rev_ind.
    + left. apply app_nil_r.
    + right. split; [destruct a; destruct s; discriminate|]. rewrite app_assoc, removelast_last. eauto.
  - intros [->|[Hb [s Hs]]]; [exists []; symmetry; apply app_nil_r|].
    destruct b as [|x b] using rev_ind; [congruence|]. rewrite removelast_last in Hs. subst b.
    exists (s ++ [x]). apply app_assoc_reverse.
Qed.

Lemma pos_prefixb_step (a b : pos) :
  pos_prefixb a b = pos_eqb b a || match b with [] => false | _ => pos_prefixb a (removelast b) end.
Proof.
  apply eq_true_iff_eq. rewrite orb_true_iff, pos_prefixb_spec, pos_eqb_eq, prefix_step.
  destruct b as [|x b]; [intuition congruence|].
  rewrite pos_prefixb_spec. intuition (auto; try discriminate).
Qed.

Theorem generated_inside_is_model root r1 r2 : gen_inside root r1 r2 = pos_prefixb r2 r1.
Proof.
  unfold gen_inside.
  remember (loop_fuel (Some r1)) as f eqn:Ef. assert (Hf : S (length r1) < f) by (subst f; unfold loop_fuel; simpl; lia). clear Ef.
  revert r1 Hf. induction f as [|f IH]; intros r1 Hf; [lia|].
  cbn -[pos_prefixb pos_eqb]. rewrite (pos_prefixb_step r2 r1).
  destruct (pos_eqb r1 r2); [reflexivity|]. cbn [orb]. rewrite parent_of_spec.
  destruct r1 as [|x r1'] eqn:E.
  - destruct f; reflexivity.
  - rewrite <- E in *. assert (Hne : r1 <> []) by (subst; discriminate).
    replace (match r1 with [] => None | _ :: _ => Some (removelast r1) end) with (Some (removelast r1)) by (subst; reflexivity).
    replace (match r1 with [] => false | _ :: _ => pos_prefixb r2 (removelast r1) end)
      with (pos_prefixb r2 (removelast r1)) by (subst; reflexivity).
    apply IH. pose proof (length_removelast r1 Hne). lia.
Qed.

(* ------------------------------------------------------------ _resource_path_list / resource_path_tuple *)
Lemma names_at_snoc root q i names : names_at root (q ++ [i]) = Some names ->
  exists nq n, names = nq ++ [n] /\ names_at root q = Some nq.
Proof.
  rewrite names_at_app. destruct (names_at root q) as [nq|]; [|discriminate].
  destruct (node_at root q) as [x|]; [|discriminate]. simpl.
  destruct x as [[l|]]; [|discriminate]. destruct (nth_error l i) as [[n c]|]; [|discriminate].
  simpl. intros H. injection H as <-. eauto.
Qed.

Lemma lineage_names root : forall r names d, d = [] -> names_at root r = Some names ->
  rev (map (fun loc => or_text (attr_name root loc) d) (lineage_pos r)) = [] :: names.
Proof.
  intros r names d ->. revert names. induction r as [|i q IH] using rev_ind; intros names Hn.
  - simpl in Hn. injection Hn as <-. reflexivity.
  - destruct (names_at_snoc root q i names Hn) as (nq & n & -> & Hq).
    rewrite lineage_pos_step by (destruct q; discriminate). rewrite removelast_last.
    cbn [map rev]. rewrite (IH nq Hq). simpl app. f_equal. f_equal.
    unfold attr_name. rewrite Hn. destruct (q ++ [i]) eqn:E; [destruct q; discriminate|].
    rewrite last_last. unfold or_text. destruct n; reflexivity.
Qed.

Theorem generated_resource_path_list_is_model root r names els : names_at root r = Some names ->
  gen_resource_path_list root r els = resource_path_list names els.
Proof.
  intros Hn. unfold gen_resource_path_list. rewrite generated_lineage_is_model.
  rewrite (lineage_names root r names _ eq_refl Hn). rewrite path_list_eq. reflexivity.
Qed.

Theorem generated_resource_path_tuple_is_model root r names els : names_at root r = Some names ->
  Val (gen_resource_path_tuple root r els) = resource_path_tuple root r els.
Proof.
  intros Hn. unfold gen_resource_path_tuple, resource_path_tuple, names_of. rewrite Hn. cbn [xbind].
  rewrite (generated_resource_path_list_is_model root r names els Hn). reflexivity.
Qed.

(* ------------------------------------------------------------ quote_path_segment / _join_path_tuple / resource_path *)
Theorem generated_quote_path_segment_is_model root seg safe :
  gen_quote_path_segment root seg safe = lift (quote_path_segment_safe seg safe).
Proof. reflexivity. Qed.

Lemma quote_default_safe seg : quote_path_segment_safe seg path_segment_safe = quote_path_segment seg.
Proof. reflexivity. Qed.

Lemma omap_ext {A B} (f g : A -> out B) l : (forall x, f x = g x) -> omap f l = omap g l.
Proof. intros H. induction l as [|x r IH]; [reflexivity|]. simpl. rewrite H, IH. reflexivity. Qed.

Lemma omap_lift {A B} (f : A -> result B) l : omap (fun x => lift (f x)) l = lift (rmap f l).
Proof.
  induction l as [|x r IH]; [reflexivity|]. simpl. destruct (f x); simpl; try reflexivity.
  rewrite IH. destruct (rmap f r); reflexivity.
Qed.

Theorem generated_join_path_tuple_is_model root l : gen_join_path_tuple root l = lift (join_path_tuple l).
Proof.
  unfold gen_join_path_tuple, join_path_tuple. destruct l as [|x l]; [reflexivity|].
  cbn [nonempty is_nil negb].
  erewrite omap_ext by (intros y; rewrite generated_quote_path_segment_is_model; apply (f_equal lift); apply quote_default_safe).
  rewrite omap_lift. destruct (rmap quote_path_segment (x :: l)) as [qs|e|]; cbn [lift xbind rbind]; try reflexivity.
  unfold nonempty, is_nil, slash_text, slash. destruct (join _ qs); reflexivity.
Qed.

Theorem generated_resource_path_is_model root r names els : names_at root r = Some names ->
  gen_resource_path root r els = resource_path root r els.
Proof.
  intros Hn. unfold gen_resource_path, resource_path. rewrite generated_join_path_tuple_is_model.
  rewrite <- (generated_resource_path_tuple_is_model root r names els Hn). reflexivity.
Qed.

(* ------------------------------------------------------------ find_root *)
Theorem generated_find_root_is_model root r : gen_find_root root r = [].
Proof.
  unfold gen_find_root. rewrite generated_lineage_is_model. generalize r at 2 as c.
  induction r as [|r Hne IH] using pos_parent_ind; intros c.
  - reflexivity.
  - rewrite (lineage_pos_step r Hne). cbn -[lineage_pos]. rewrite parent_of_spec.
    destruct r; [congruence|]. apply IH.
Qed.

(* ------------------------------------------------------------ traverse / find_resource *)
Lemma run_traverser_root root q : run_traverser root [] q = lift (traverser_call ([], root) q).
Proof. reflexivity. Qed.

Theorem generated_traverse_str_is_model root r n path : node_at root r = Some n ->
  gen_traverse_str root r path = traverse7 root r (PStr path).
Proof.
  intros Hn. unfold gen_traverse_str, traverse7, ascii_r. cbn [xbind].
  destruct (is_ascii path); cbn [negb xbind]; [|reflexivity].
  rewrite ?generated_find_root_is_model. unfold blank_request, run_traverser, nonempty, head_is. rewrite Hn.
  destruct path as [|c t]; cbn [is_nil negb xbind].
  - destruct (blank_path_info []); reflexivity.
  - unfold slash. destruct (N.eqb c 47); cbn [xbind node_at]; destruct (blank_path_info (c :: t)); reflexivity.
Qed.

(* the tuple form is the str form after _join_path_tuple, on both sides (by computation, whatever the text is) *)
Lemma gen_traverse_tuple_via_str root r l :
  gen_traverse_tuple root r l =
  match l with [] => gen_traverse_str root r [] | _ => xbind (gen_join_path_tuple root l) (fun p => gen_traverse_str root r p) end.
Proof. destruct l; reflexivity. Qed.

Lemma traverse7_tuple_via_str root r l :
  traverse7 root r (PTuple l) =
  match l with [] => traverse7 root r (PStr []) | _ => xbind (lift (join_path_tuple l)) (fun p => traverse7 root r (PStr p)) end.
Proof. destruct l; reflexivity. Qed.

Theorem generated_traverse_tuple_is_model root r n l : node_at root r = Some n ->
  gen_traverse_tuple root r l = traverse7 root r (PTuple l).
Proof.
  intros Hn. rewrite gen_traverse_tuple_via_str, traverse7_tuple_via_str.
  destruct l as [|x l]; [apply (generated_traverse_str_is_model root r n [] Hn)|].
  rewrite generated_join_path_tuple_is_model.
  destruct (lift (join_path_tuple (x :: l))) as [p|e]; cbn [xbind]; [|reflexivity].
  apply (generated_traverse_str_is_model root r n p Hn).
Qed.

Lemma found_of_view d :
  (if nonempty (t_view_name d) then Val KeyErr else Val (FoundAt (t_context d)))
  = Val (match t_view_name d with [] => FoundAt (t_context d) | _ => KeyErr end).
Proof. unfold nonempty, is_nil. destruct (t_view_name d); reflexivity. Qed.

Theorem generated_find_resource_str_is_model root r n path : node_at root r = Some n ->
  gen_find_resource_str root r path = find7 root r (PStr path).
Proof.
  intros Hn. unfold gen_find_resource_str, find7.
  rewrite <- (generated_traverse_str_is_model root r n path Hn).
  unfold ascii_r. destruct (is_ascii path) eqn:E; cbn [xbind].
  - destruct (gen_traverse_str root r path); cbn [xbind]; [apply found_of_view|reflexivity].
  - unfold gen_traverse_str, ascii_r. rewrite E. reflexivity.
Qed.

Theorem generated_find_resource_tuple_is_model root r n l : node_at root r = Some n ->
  gen_find_resource_tuple root r l = find7 root r (PTuple l).
Proof.
  intros Hn. unfold gen_find_resource_tuple, find7.
  rewrite (generated_traverse_tuple_is_model root r n l Hn).
  destruct (traverse7 root r (PTuple l)); cbn [xbind]; [apply found_of_view|reflexivity].
Qed.

(* ------------------------------------------------------------ virtual_root *)
Lemma py_to_neg_len (v l : text) :
  py_to_text (Z.opp (Z.of_nat (length v))) l = match v with [] => [] | _ => firstn (length l - length v) l end.
Proof.
  unfold py_to_text, py_to, norm_idx. destruct v as [|x v]; [reflexivity|].
  assert (E : (- Z.of_nat (length (x :: v)) <? 0)%Z = true) by (simpl length; lia). rewrite E. f_equal. lia.
Qed.

Theorem generated_virtual_root_is_model root r n vroot : node_at root r = Some n ->
  gen_virtual_root root r vroot = virtual_root url_vroot_mode root r vroot.
Proof.
  intros Hn. unfold gen_virtual_root, virtual_root, adapter_r.
  destruct (resource_url_adapter url_vroot_mode root r vroot) as [ru|e]; cbn [xbind]; [|reflexivity].
  rewrite ?generated_find_root_is_model, ?py_to_neg_len, ?(generated_find_resource_str_is_model root r n _ Hn).
  destruct (text_eqb (ru_pp ru) (ru_vp ru)); cbn [negb andb]; [reflexivity|].
  destruct (endswith (ru_vp ru) (ru_pp ru)); reflexivity.
Qed.

(* ------------------------------------------------------------ the property, about the generated functions *)
Theorem gen_find_path_tuple root r a na names : good_resource root r = Some names -> node_at root a = Some na ->
  gen_find_resource_tuple root a (gen_resource_path_tuple root r []) = Val (FoundAt r).
Proof.
  intros Hg Ha. destruct (good_resource_spec _ _ _ Hg) as (Hn & _).
  rewrite (generated_find_resource_tuple_is_model root a na _ Ha).
  pose proof (find_path_tuple root r a names Hg) as H.
  rewrite <- (generated_resource_path_tuple_is_model root r names [] Hn) in H. exact H.
Qed.

Theorem gen_find_path_string root r a na names : good_resource root r = Some names -> node_at root a = Some na ->
  xbind (gen_resource_path root r []) (fun s => gen_find_resource_str root a s) = Val (FoundAt r).
Proof.
  intros Hg Ha. destruct (good_resource_spec _ _ _ Hg) as (Hn & _).
  rewrite (generated_resource_path_is_model root r names [] Hn).
  pose proof (find_path_string root r a names Hg) as H.
  destruct (resource_path root r []) as [s|e]; cbn [xbind] in *; [|exact H].
  rewrite (generated_find_resource_str_is_model root a na s Ha). exact H.
Qed.

Theorem gen_relative_absolute_agree root a r nr names_a rel :
  good_resource root a = Some names_a -> node_at root r = Some nr -> plain rel -> scheme_like rel = false ->
  exists f, spec_lookup root a rel = Some f /\
    gen_find_resource_tuple root a rel = Val f /\
    gen_find_resource_tuple root r (gen_resource_path_tuple root a rel) = Val f.
Proof.
  intros Hg Hr Hp Hs. destruct (good_resource_spec _ _ _ Hg) as (Hn & _ & x & _ & Hx).
  destruct (relative_absolute_agree root a r names_a rel Hg Hp Hs) as (f & Hf & H1 & H2).
  exists f. split; [exact Hf|].
  rewrite (generated_find_resource_tuple_is_model root a x _ Hx), (generated_find_resource_tuple_is_model root r nr _ Hr).
  split; [exact H1|]. rewrite <- (generated_resource_path_tuple_is_model root a names_a rel Hn) in H2. exact H2.
Qed.

Theorem gen_virtual_root_inverts root r names vroot vt v :
  url_vroot_mode = UrlTupleCompare ->
  good_resource root r = Some names -> header_segments vroot = Some vt -> inside root vt r = Some v ->
  gen_virtual_root root r vroot = Val (FoundAt v).
Proof.
  intros Hm Hg Hh Hi. destruct (good_resource_spec _ _ _ Hg) as (_ & _ & x & _ & Hx).
  rewrite (generated_virtual_root_is_model root r x vroot Hx), Hm.
  exact (virtual_root_inverts root r names vroot vt v Hg Hh Hi).
Qed.
