(* C18 -- the program REGENERATED from the source on this run (Gen/Facts_C18.v:
   gen_remove, gen_add, gen_sorted (+ its closures and while loop), gen_tw_*,
   gen_apply_view_derivers) equals the hand-written reference model, for all inputs.

   The scripts never mention the generated text: they unfold the generated
   constants, remove the [let]s (the translation of assignments), case-split on the
   atoms of the primitive table (membership tests, dictionary lookups, the hint
   constructors, [norm_hint], counters reaching zero) and ask that both sides then
   compute to the same term; loops are matched by shape ([fold_left ?F l init]) and
   related to the model's loops by generic simulation lemmas whose side condition
   (one iteration of the generated body = one iteration of the model) is discharged
   by the same case-splitting.  Hence they are insensitive to the names of locals,
   to [if a: if b:] vs [if a and b:], [elif] vs nested [if], to the order of
   independent statements and of the components of loop states; they fail when some
   valuation of the atoms leads the regenerated program to another result. *)
From Coq Require Import List NArith ZArith Bool Lia.
Import ListNotations.
Require Import Verif.Lib.Wire Verif.Model.C18_base Verif.Gen.Facts_C18 Verif.Model.C18.
Require Import Verif.Proofs.C18_kahn Verif.Proofs.C18_build Verif.Proofs.C18.

(* ---------- generic list lemmas *)
Lemma fold_left_ext {A B} (f g : A -> B -> A) : (forall a b, f a b = g a b) ->
  forall l a, fold_left f l a = fold_left g l a.
Proof. intros H. induction l as [|x l IH]; intros a; simpl; [reflexivity|]. rewrite H. apply IH. Qed.

Lemma fold_left_sim {A B C} (f : A -> C -> A) (g : B -> C -> B) (R : A -> B) :
  (forall a c, R (f a c) = g (R a) c) -> forall l a, R (fold_left f l a) = fold_left g l (R a).
Proof. intros H. induction l as [|x l IH]; intros a; simpl; [reflexivity|]. rewrite IH, H. reflexivity. Qed.

Lemma fold_snoc {A B} (h : B -> A) l : forall init : list A,
  fold_left (fun o p => o ++ [h p]) l init = init ++ map h l.
Proof.
  induction l as [|x l IH]; intros init; simpl; [rewrite app_nil_r; reflexivity|].
  rewrite IH, <- app_assoc. reflexivity.
Qed.

Lemma fold_cond_append {A B} (c : B -> bool) (h : B -> A) l : forall init : list A,
  fold_left (fun r n => if c n then r ++ [h n] else r) l init = init ++ map h (filter c l).
Proof.
  induction l as [|x l IH]; intros init; simpl; [rewrite app_nil_r; reflexivity|].
  rewrite IH. destruct (c x); simpl; [rewrite <- app_assoc|]; reflexivity.
Qed.

Lemma remove_first_cond b l : (if mem_text b l then remove_first b l else l) = remove_first b l.
Proof.
  destruct (mem_text b l) eqn:E; [reflexivity|]. symmetry. apply remove_first_notin. apply mem_text_false. exact E.
Qed.

Lemma map_pair_id (l : list arc) : map (fun p => (fst p, snd p)) l = l.
Proof. induction l as [|[a b] l IH]; simpl; [reflexivity|]. rewrite IH. reflexivity. Qed.

Lemma aset_new {V} k (v : V) g : aget k g = None -> aset k v g = g ++ [(k, v)].
Proof.
  induction g as [|[k' v'] g IH]; simpl; [reflexivity|].
  destruct (text_eqb k k'); [discriminate|]. intros H. rewrite IH by exact H. reflexivity.
Qed.

Lemma let_pair_eta {A B} (p : A * B) : (let '(x, y) := p in (x, y)) = p.
Proof. destruct p; reflexivity. Qed.

(* ---------- remove / add *)
Theorem gen_remove_is_model s n : gen_remove s n = remove n s.
Proof.
  unfold gen_remove, remove. cbv zeta.
  destruct (mem_text n (names s)); [|reflexivity].
  destruct (aget n (name2after s)), (aget n (name2before s)); reflexivity.
Qed.

Theorem gen_add_is_model s n v a b : gen_add s n v a b = Some (add n v a b s).
Proof.
  unfold gen_add, add. cbv zeta. rewrite gen_remove_is_model.
  destruct (mem_text n (names s)) eqn:E.
  - unfold remove.
    cbn [upd names req_before req_after name2before name2after name2val order default_before default_after first last].
    rewrite E.
    destruct (aget n (name2after s)), (aget n (name2before s)); cbn;
      destruct a, b; cbn; repeat match goal with |- context [norm_hint ?h] => destruct h; cbn end;
      unfold add_core; cbn; rewrite ?app_nil_r; reflexivity.
  - destruct a, b; cbn; repeat match goal with |- context [norm_hint ?h] => destruct h; cbn end;
      unfold add_core; cbn; rewrite ?app_nil_r; reflexivity.
Qed.

(* ---------- sorted: closures *)
Lemma gen_add_node_is_model st n : gen_sorted_add_node st n = add_node st n.
Proof.
  destruct st as [g roots]. unfold gen_sorted_add_node, add_node, amem. cbv zeta.
  destruct (aget n g) eqn:E; cbn; [reflexivity|]. rewrite aset_new by exact E. reflexivity.
Qed.

Lemma gen_add_arc_is_model st a b : gen_sorted_add_arc st a b = add_arc st (a, b).
Proof.
  destruct st as [g roots]. unfold gen_sorted_add_arc, add_arc, gappend, gincr. cbv zeta.
  rewrite remove_first_cond. reflexivity.
Qed.

(* ---------- sorted: the while loop *)
Definition swap_st (st : option (list node * graph)) : option (graph * list node) :=
  match st with Some (r, g) => Some (g, r) | None => None end.

Lemma gen_while_is_loop fuel : forall g roots em,
  gen_sorted_while fuel g roots (rev em) =
  match loop fuel roots g em with Some (g', em') => Some (g', [], rev em') | None => None end.
Proof.
  induction fuel as [|f IH]; intros g roots em; destruct roots as [|r rs]; try reflexivity.
  cbn [gen_sorted_while loop]. cbv zeta. unfold gchildren.
  destruct (aget r g) as [[c ch]|]; [|reflexivity].
  match goal with
  | |- context [fold_left ?F ch (Some (g, rs))] =>
      assert (HF : fold_left F ch (Some (g, rs)) = swap_st (fold_left visit ch (Some (rs, g))))
  end.
  { symmetry. apply (fold_left_sim visit _ swap_st).
    intros [[rs0 g0]|] x; [|reflexivity]. unfold visit, gcount, gset_count. cbn.
    destruct (aget x g0) as [[k ch0]|]; cbn; [|reflexivity].
    destruct (Z.eqb (k - 1) 0); reflexivity. }
  rewrite HF. destruct (fold_left visit ch (Some (rs, g))) as [[rs' g']|]; cbn; [|reflexivity].
  change (rev em ++ [r]) with (rev (r :: em)). apply IH.
Qed.

(* ---------- sorted *)
Theorem gen_sorted_is_model s : gen_sorted s = sorted s.
Proof.
  unfold gen_sorted, sorted, build, all_names, all_order. cbv zeta.
  (* order = [(first, last)] ++ self.order *)
  rewrite (fold_snoc (fun p : arc => (fst p, snd p))), map_pair_id. cbn [app].
  (* for name in names: add_node(name) *)
  match goal with
  | |- ?LHS = _ => match LHS with context [fold_left ?F (first s :: last s :: names s) ([], [])] =>
      rewrite (fold_left_ext F add_node)
        by (intros [g0 r0] x; rewrite gen_add_node_is_model, ?let_pair_eta; reflexivity)
  end end.
  destruct (fold_left add_node (first s :: last s :: names s) ([], [])) as [gn rn].
  (* for a, b in order: if a in names and b in names: add_arc(a, b) *)
  match goal with
  | |- ?LHS = _ => match LHS with context [fold_left ?F ((first s, last s) :: order s) ?init] =>
      rewrite (fold_left_ext F (fun st e => if arc_present (first s :: last s :: names s) e then add_arc st e else st))
        by (intros [g0 r0] [a b]; unfold arc_present; cbn [fst snd]; rewrite ?gen_add_arc_is_model;
            destruct (mem_text a (first s :: last s :: names s)), (mem_text b (first s :: last s :: names s));
            cbn [andb]; rewrite ?let_pair_eta; reflexivity)
  end end.
  unfold has_dep.
  match goal with
  | |- _ = (let '(g, roots) := ?B in _) =>
      let E := fresh "EB" in
      destruct B as [g roots] eqn:E;
      match goal with |- (let '(_, _) := ?B' in _) = _ => change B' with B; rewrite E end
  end.
  destruct (nonempty (missing (req_before s) _)); [reflexivity|].
  destruct (nonempty (missing (req_after s) _)); [reflexivity|].
  match goal with
  | |- context [gen_sorted_while ?n ?gg ?rr []] =>
      change (gen_sorted_while n gg rr []) with (gen_sorted_while (length g) g roots (rev []));
      rewrite (gen_while_is_loop (length g) g roots [])
  end.
  destruct (loop (length g) roots g []) as [[g' em]|]; [|reflexivity].
  destruct (nonempty g'); [reflexivity|].
  match goal with
  | |- Sorted (fold_left ?F ?l []) = _ =>
      rewrite (fold_left_ext F (fun r n => if mem_text n (names s) then r ++ [(n, val_of s n)] else r))
        by (intros r0 x; destruct (mem_text x (names s)); reflexivity)
  end.
  rewrite (fold_cond_append (fun n => mem_text n (names s)) (fun n => (n, val_of s n))). reflexivity.
Qed.

(* ---------- tweens, derivers *)
Theorem gen_tw_add_explicit_is_model t n f : gen_tw_add_explicit t n f = add_explicit n f t.
Proof. reflexivity. Qed.

Theorem gen_tw_add_implicit_is_model t n f u o : gen_tw_add_implicit t n f u o = Some (add_implicit n f u o t).
Proof.
  unfold gen_tw_add_implicit, add_implicit. cbv zeta. rewrite gen_add_is_model.
  assert (E : tw_after_is_under = true) by reflexivity. rewrite E. reflexivity.
Qed.

Theorem gen_tw_implicit_is_model t : gen_tw_implicit t = implicit t.
Proof. unfold gen_tw_implicit, implicit. cbv zeta. apply gen_sorted_is_model. Qed.

Theorem gen_tw_call_is_model t h : gen_tw_call t h = tweens_call t h.
Proof.
  unfold gen_tw_call, tweens_call, wrap_all. cbv zeta.
  destruct (nonempty (tw_explicit t)); [reflexivity|].
  rewrite gen_tw_implicit_is_model. unfold implicit. cbn [tw_sorter].
  destruct (sorted (tw_sorter t)); reflexivity.
Qed.

Theorem gen_apply_view_derivers_is_model s v : gen_apply_view_derivers s v = apply_view_derivers s v.
Proof.
  unfold gen_apply_view_derivers, apply_view_derivers. cbv zeta. rewrite gen_sorted_is_model.
  destruct (sorted s); reflexivity.
Qed.

(* ---------- running the regenerated add / remove / sorted over operation sequences *)
Definition gen_apply_op (s : sorter) (o : op) : sorter * bool :=
  match o with
  | OAdd n v a b => match gen_add s n v a b with Some s' => (s', false) | None => (s, true) end
  | ORemove n => match gen_remove s n with Some s' => (s', false) | None => (s, true) end
  end.

Fixpoint gen_run_ops (s : sorter) (ops : list op) : list step_result :=
  match ops with
  | [] => []
  | o :: r => let '(s', ve) := gen_apply_op s o in
              (if ve then RValueError else RSorted (gen_sorted s')) :: gen_run_ops s' r
  end.

Lemma gen_apply_op_is_model s o : gen_apply_op s o = apply_op s o.
Proof.
  destruct o as [n v a b|n]; simpl; [rewrite gen_add_is_model|rewrite gen_remove_is_model]; reflexivity.
Qed.

Lemma gen_run_ops_is_model ops : forall s, gen_run_ops s ops = run_ops s ops.
Proof.
  induction ops as [|o ops IH]; intros s; simpl; [reflexivity|].
  rewrite gen_apply_op_is_model. destruct (apply_op s o) as [s' ve].
  rewrite gen_sorted_is_model, IH. reflexivity.
Qed.

(* ---------- the property theorems, about the regenerated program *)
Require Import Verif.Proofs.C18_rep.

Theorem gen_model_judged c ops : steps_ok c [] ops (gen_run_ops (new_sorter c) ops).
Proof. rewrite gen_run_ops_is_model. apply model_judged. Qed.

Theorem gen_sorted_total s : gen_sorted s <> Internal.
Proof. rewrite gen_sorted_is_model. apply sorted_never_internal. Qed.

Theorem gen_tweens_nesting t h :
  gen_tw_call t Base = inr h ->
  exists use,
    (tw_explicit t <> [] -> use = tw_explicit t) /\
    (tw_explicit t = [] -> gen_tw_implicit t = Sorted use) /\
    h = wrap_right use Base /\
    trace h = map (fun nf => Enter (fst nf)) use ++ [Call] ++ map (fun nf => Exit (fst nf)) (rev use).
Proof. rewrite gen_tw_call_is_model, gen_tw_implicit_is_model. apply tweens_nesting. Qed.

Theorem gen_derivers_nesting s h :
  gen_apply_view_derivers s Base = inr h ->
  exists ds, gen_sorted s = Sorted ds /\
    let all := map (fun n => (n, 0%N)) dv_outer ++ ds in
    h = wrap_right all Base /\
    trace h = map (fun nf => Enter (fst nf)) all ++ [Call] ++ map (fun nf => Exit (fst nf)) (rev all).
Proof. rewrite gen_apply_view_derivers_is_model, gen_sorted_is_model. apply derivers_nesting. Qed.

Theorem gen_tweens_are_model t n f u o h :
  gen_tw_add_explicit t n f = add_explicit n f t /\
  gen_tw_add_implicit t n f u o = Some (add_implicit n f u o t) /\
  gen_tw_implicit t = implicit t /\
  gen_tw_call t h = tweens_call t h.
Proof.
  split; [apply gen_tw_add_explicit_is_model|].
  split; [apply gen_tw_add_implicit_is_model|].
  split; [apply gen_tw_implicit_is_model|apply gen_tw_call_is_model].
Qed.
