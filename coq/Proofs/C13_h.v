(* C13 part (b): ANY list of subrequests started one after the other by one request (n-ary version of
   two_run_requests in Proofs/C13_g.v) *)
From Coq Require Import List NArith ZArith Bool Arith Lia.
Import ListNotations.
Require Import Verif.Lib.Wire Verif.Lib.C13Bracket Verif.Gen.Facts_C13 Verif.Model.C13 Verif.Proofs.C13_b Verif.Proofs.C13_c Verif.Proofs.C13_g.
Local Open Scope N_scope.

Definition sub_runs (ev l : N) (specs : list (scn * bool)) : list M :=
  map (fun p => run_request ev (l + 1) (fst p) (snd p)) specs.
Definition some_subP (l : N) (specs : list (scn * bool)) (seg : list pev) : Prop :=
  exists p, In p specs /\ subP (l + 1) (fst p) (snd p) seg.

Theorem many_run_requests ev l (specs : list (scn * bool)) st st' r :
  Forall (fun p => valid_tree (fst p) = true) specs ->
  seq_all (sub_runs ev l specs) st = (st', r) ->
  exists new, log st' = log st ++ new /\ stk st' = stk st /\
    rq st' = rq st /\ fq st' = fq st /\ nr st' = nr st /\ nf st' = nf st /\
    Forall (fun e => l + 1 <= e_lvl e) new /\
    star (some_subP l specs) new.
Proof.
  intros V E.
  set (P := some_subP l specs).
  assert (HP : Forall (fun sr => pres (Rsub l P) sr) (sub_runs ev l specs)).
  { unfold sub_runs. apply Forall_forall. intros sr I. apply in_map_iff in I. destruct I as [p [<- Ip]].
    rewrite Forall_forall in V. intros a b rr Er.
    destruct (run_request_judged (fst p) ev (l + 1) (snd p) a b rr (V p Ip) Er) as [n [A1 [A2 [A3 [A4 [A5 [A6 A7]]]]]]].
    exists n. repeat split; auto. exists p. split; [exact Ip|exact A7]. }
  destruct (many_subrequests_pres l (Scn false [] [] NoSub) (fun _ => false) P _ HP _ _ _ E)
    as [new [L [F [R [G [N1 [M S]]]]]]].
  assert (Fl : Forall (fun e => l + 1 <= e_lvl e) new).
  { eapply Forall_impl; [|exact F]. intros e [[_ X]|X]; [discriminate X|exact X]. }
  assert (X : lvl_log l new = []).
  { apply filter_none. eapply Forall_impl; [|exact Fl]. intros e H. simpl in H. apply N.eqb_neq. lia. }
  assert (Y : ge_log (l + 1) new = new).
  { apply filter_all. eapply Forall_impl; [|exact Fl]. intros e H. apply N.leb_le. exact H. }
  rewrite X in R, G. simpl in R, G. rewrite app_nil_r in R, G. rewrite Y in S.
  assert (Sk : stk st' = stk st).
  { clear -E. revert st st' r E. unfold sub_runs. induction specs as [|p ps IH]; intros st st' r E; cbn [map seq_all] in E.
    - injection E as <- _. reflexivity.
    - unfold seq, bind in E. destruct (run_request ev (l + 1) (fst p) (snd p) st) as [s1 [v|k]] eqn:E1.
      + rewrite (IH _ _ _ E). eapply subrequest_depth; exact E1.
      + injection E as <- _. eapply subrequest_depth; exact E1. }
  exists new. repeat split; auto.
  destruct S as [->|S]; [apply star_nil|exact S].
Qed.
