(* C12 proofs *)
From Coq Require Import List NArith ZArith Bool Lia.
Import ListNotations.
Require Import Verif.Lib.Wire Verif.Lib.Text Verif.Lib.Utf8 Verif.Gen.Facts_C12 Verif.Model.C12.
Open Scope N_scope.

Lemma bytes_eqb_eq a b : bytes_eqb a b = true <-> a = b.
Proof.
  revert b; induction a as [|x a IH]; destruct b as [|y b]; simpl; try (split; congruence).
  rewrite andb_true_iff, N.eqb_eq, IH.
  split; [intros [-> ->]; reflexivity | intros H; inversion H; auto].
Qed.

Lemma strings_differ_spec a b : strings_differ a b = false <-> a = b.
Proof.
  unfold strings_differ.
  destruct (Nat.eqb (length a) (length b)) eqn:E.
  - destruct (bytes_eqb a b) eqn:Eb; simpl.
    + apply bytes_eqb_eq in Eb. split; auto.
    + split; [discriminate|]. intros ->. rewrite (proj2 (bytes_eqb_eq b b) eq_refl) in Eb. discriminate.
  - assert (Hb : bytes_eqb b b = true) by (apply bytes_eqb_eq; reflexivity). rewrite Hb. simpl.
    split; [discriminate|]. intros ->. rewrite Nat.eqb_refl in E. discriminate.
Qed.

(* ------------------------------------------------------------------ facts the theorems rely on *)
Lemma Facts_ok_repairs :
  copies_trusted = true /\ catches_valueerror = true /\
  enc_utf8_legacy = true /\ enc_utf8_session = true /\ enc_utf8_cookie = true.
Proof. vm_compute. repeat split; reflexivity. Qed.

Lemma Facts_ok_dot : dot = [46].
Proof. vm_compute. reflexivity. Qed.

Lemma Facts_ok_strings :
  https_req = [104; 116; 116; 112; 115] /\ https_origin = [104; 116; 116; 112; 115] /\
  null_origin = [110; 117; 108; 108] /\ origin_pick_last = true /\ origin_sep = [32].
Proof. vm_compute. repeat split; reflexivity. Qed.

Lemma storage_utf8_true s : storage_utf8 s = true.
Proof. destruct Facts_ok_repairs as (_ & _ & H1 & H2 & H3). destruct s; assumption. Qed.

(* ------------------------------------------------------------------ text helpers *)
Lemma text_eqb_sym a b : text_eqb a b = text_eqb b a.
Proof.
  destruct (text_eqb_spec a b) as [->|H]; [symmetry; apply text_eqb_refl|].
  symmetry. apply text_eqb_neq. congruence.
Qed.

Lemma endswith_spec s p : endswith s p = true <-> exists pre, s = pre ++ p.
Proof.
  unfold endswith. rewrite startswith_spec. split.
  - intros [r H]. exists (rev r). apply (f_equal (@rev N)) in H.
    rewrite rev_involutive, rev_app_distr, rev_involutive in H. exact H.
  - intros [pre ->]. exists (rev pre). apply rev_app_distr.
Qed.

Lemma strip_suffix_spec s p : (exists x, strip_suffix s p = Some x) <-> exists pre, s = pre ++ p.
Proof.
  unfold strip_suffix. split.
  - intros [x H]. destruct (strip_prefix (rev p) (rev s)) as [r|] eqn:E; [|discriminate].
    apply strip_prefix_spec in E. exists (rev r). apply (f_equal (@rev N)) in E.
    rewrite rev_involutive, rev_app_distr, rev_involutive in E. exact E.
  - intros [pre ->]. rewrite rev_app_distr.
    assert (H : strip_prefix (rev p) (rev p ++ rev pre) = Some (rev pre)) by (apply strip_prefix_spec; reflexivity).
    rewrite H. eauto.
Qed.

Lemma endswith_strip_suffix s p :
  endswith s p = match strip_suffix s p with Some _ => true | None => false end.
Proof.
  destruct (endswith s p) eqn:E.
  - apply endswith_spec in E. apply strip_suffix_spec in E. destruct E as [x ->]. reflexivity.
  - destruct (strip_suffix s p) eqn:E2; [|reflexivity].
    assert (H : exists x, strip_suffix s p = Some x) by eauto.
    apply strip_suffix_spec in H. apply endswith_spec in H. congruence.
Qed.

(* ------------------------------------------------------------------ is_same_domain *)
Lemma same_domain_matches h p : is_same_domain h p = domain_matches h p.
Proof.
  unfold is_same_domain, domain_matches.
  destruct p as [|c p]; [reflexivity|].
  cbn [is_empty negb andb].
  remember (lower (c :: p)) as lp eqn:Hlp.
  assert (Hne : lp <> []) by (subst lp; discriminate).
  destruct lp as [|d rest]; [contradiction|].
  cbn [firstn tl].
  rewrite (text_eqb_sym (d :: rest) h).
  rewrite endswith_strip_suffix.
  rewrite orb_comm. f_equal. f_equal. apply orb_comm.
Qed.

Theorem same_domain_spec_lemma h p :
  is_same_domain h p = true <->
  p <> [] /\ (h = lower p \/
              exists rest, lower p = 46 :: rest /\ ((exists pre, h = pre ++ lower p) \/ h = rest)).
Proof.
  unfold is_same_domain. destruct p as [|c p].
  - split; [discriminate|intros [H _]; contradiction].
  - remember (lower (c :: p)) as lp eqn:Hlp.
    assert (Hne : lp <> []) by (subst lp; discriminate).
    destruct lp as [|d rest]; [contradiction|].
    cbn [firstn tl]. rewrite Facts_ok_dot.
    rewrite orb_true_iff, andb_true_iff, orb_true_iff, !text_eqb_eq, endswith_spec.
    split.
    + intros [[Hd [Hs|He]]|He].
      * split; [discriminate|]. right. injection Hd as ->. exists rest. split; [reflexivity|]. left. exact Hs.
      * split; [discriminate|]. right. injection Hd as ->. exists rest. split; [reflexivity|]. right. exact He.
      * split; [discriminate|]. left. congruence.
    + intros [_ [He|[rest' [Hr [Hs|He]]]]].
      * right. congruence.
      * left. injection Hr as -> ->. split; [reflexivity|]. left. exact Hs.
      * left. injection Hr as -> ->. split; [reflexivity|]. right. exact He.
Qed.

(* ------------------------------------------------------------------ token comparison *)
Lemma encode_inj a b :
  forallb valid_scalar a = true -> forallb valid_scalar b = true -> encode a = encode b -> a = b.
Proof.
  intros Ha Hb E. pose proof (decode_encode a Ha) as Da. pose proof (decode_encode b Hb) as Db.
  rewrite E in Da. congruence.
Qed.

(* a passing comparison means equal tokens -- for either encoding *)
Lemma policy_check_pass utf8 s r sup :
  policy_check utf8 s r sup = TPass -> sup = expected_token s r.
Proof.
  unfold policy_check, encode_tok. destruct utf8.
  - destruct (forallb valid_scalar (expected_token s r)) eqn:E1; [|discriminate].
    destruct (forallb valid_scalar sup) eqn:E2; [|discriminate].
    destruct (strings_differ (encode (expected_token s r)) (encode sup)) eqn:D; [discriminate|].
    intros _. apply strings_differ_spec in D. symmetry. apply encode_inj; assumption.
  - destruct (forallb (fun c => c <? 256) (expected_token s r)); [|discriminate].
    destruct (forallb (fun c => c <? 256) sup); [|discriminate].
    destruct (strings_differ (expected_token s r) sup) eqn:D; [discriminate|].
    intros _. apply strings_differ_spec in D. congruence.
Qed.

(* with UTF-8 and well-formed tokens the comparison is exactly text equality and never raises *)
Lemma policy_check_utf8 s r sup :
  forallb valid_scalar (expected_token s r) = true -> forallb valid_scalar sup = true ->
  policy_check true s r sup = if text_eqb sup (expected_token s r) then TPass else TFail.
Proof.
  intros E1 E2. unfold policy_check, encode_tok. rewrite E1, E2.
  destruct (text_eqb_spec sup (expected_token s r)) as [->|Hne].
  - assert (D : strings_differ (encode (expected_token s r)) (encode (expected_token s r)) = false)
      by (apply strings_differ_spec; reflexivity).
    rewrite D. reflexivity.
  - destruct (strings_differ (encode (expected_token s r)) (encode sup)) eqn:D; [reflexivity|].
    apply strings_differ_spec in D. exfalso. apply Hne. symmetry. apply encode_inj; assumption.
Qed.

Lemma supplied_is_spec token header r : supplied_token token header r = spec_supplied token header r.
Proof.
  unfold supplied_token, spec_supplied.
  destruct header as [h|]; [|destruct token; reflexivity].
  destruct (header_get h r) as [[|c v]|]; cbn [or_empty is_empty]; destruct token; reflexivity.
Qed.

Lemma token_pass_spec pr s token header r :
  check_csrf_token_p pr s token header r = TPass -> spec_token_ok s token header r = true.
Proof.
  unfold check_csrf_token_p, spec_token_ok. intros H. apply policy_check_pass in H.
  rewrite <- supplied_is_spec, H. apply text_eqb_refl.
Qed.

Lemma token_verdict_utf8 pr s token header r :
  p_utf8 pr = true ->
  forallb valid_scalar (expected_token s r) = true ->
  forallb valid_scalar (supplied_token token header r) = true ->
  check_csrf_token_p pr s token header r = if spec_token_ok s token header r then TPass else TFail.
Proof.
  intros Hu E1 E2. unfold check_csrf_token_p, spec_token_ok. rewrite Hu, <- supplied_is_spec.
  apply policy_check_utf8; assumption.
Qed.

(* the form field is read exactly when the header is not configured, absent or empty *)
Lemma empty_header_falls_back t h r :
  header_get h r = Some [] \/ header_get h r = None ->
  supplied_token (Some t) (Some h) r = or_empty (lookup_last t (r_post r)).
Proof. intros [H|H]; unfold supplied_token; rewrite H; reflexivity. Qed.

Lemma nonempty_header_wins token h r c v :
  header_get h r = Some (c :: v) -> supplied_token token (Some h) r = c :: v.
Proof. intros H. unfold supplied_token. rewrite H. reflexivity. Qed.

(* ------------------------------------------------------------------ origin check *)
Lemma mem_text_snoc x l y : mem_text x (l ++ [y]) = mem_text x (y :: l).
Proof.
  induction l as [|a l IH]; simpl; [reflexivity|].
  rewrite IH. simpl. destruct (text_eqb x a), (text_eqb x y); reflexivity.
Qed.

Lemma existsb_snoc {A} (f : A -> bool) l y : existsb f (l ++ [y]) = existsb f (y :: l).
Proof. rewrite existsb_app. simpl. rewrite orb_false_r. apply orb_comm. Qed.

Lemma existsb_same_domain n l : existsb (is_same_domain n) l = existsb (domain_matches n) l.
Proof. induction l as [|a l IH]; simpl; [reflexivity|]. rewrite IH, same_domain_matches. reflexivity. Qed.

(* what the code does once it holds a non-empty claimed origin *)
Definition decide_origin (pr : params) (trusted : list text) (v6 : list (text * bool)) (is_ref : bool) (origin : text)
  : overdict :=
  if negb is_ref && text_eqb origin null_origin then (if mem_text origin trusted then OPass else OFail RNull)
  else match urlparse_m v6 origin with
       | PValueError => if p_catch pr then OFail RParse else ORaise EValue
       | PUnmodelled => ORaise EUnmodelled
       | PUrl scheme netloc =>
           if negb (text_eqb scheme https_origin) then OFail RInsecure
           else if existsb (is_same_domain netloc) trusted then OPass else OFail RNoMatch
       end.

Lemma check_origin_unfold pr settings caller allow r :
  fst (check_csrf_origin_p pr settings caller allow r) =
  if negb (text_eqb (req_scheme r) https_req) then OPass
  else if is_empty (or_empty (fst (claimed_origin r))) then (if allow then OPass else OFail RMissing)
  else decide_origin pr (match caller with None => aslist settings | Some l => l end ++ [own_host r])
                     (r_v6 r) (snd (claimed_origin r)) (or_empty (fst (claimed_origin r))).
Proof.
  unfold check_csrf_origin_p, decide_origin.
  destruct (negb (text_eqb (req_scheme r) https_req)); [reflexivity|].
  destruct (claimed_origin r) as [origin is_ref]. cbn [fst snd].
  destruct (is_empty (or_empty origin)); [reflexivity|].
  destruct (negb is_ref && text_eqb (or_empty origin) null_origin); [reflexivity|].
  destruct (urlparse_m (r_v6 r) (or_empty origin)) as [sc nl| |]; try reflexivity.
  destruct (negb (text_eqb sc https_origin)); [reflexivity|].
  destruct (existsb (is_same_domain nl) _); reflexivity.
Qed.

Lemma origin_pass_iff pr settings caller allow r :
  fst (check_csrf_origin_p pr settings caller allow r) = OPass <-> spec_origin_ok settings caller allow r = true.
Proof.
  rewrite check_origin_unfold. unfold spec_origin_ok, spec_trusted.
  destruct (text_eqb (req_scheme r) https_req); cbn [negb]; [|tauto].
  set (base := match caller with Some l => l | None => aslist settings end).
  replace (match caller with None => aslist settings | Some l => l end) with base by (destruct caller; reflexivity).
  unfold claimed_origin, spec_claim.
  destruct (header_get origin_header r) as [o|]; cbn [fst snd or_empty].
  - set (item := if origin_pick_last then last (split_on (hd 32 origin_sep) o) [] else hd [] (split_on (hd 32 origin_sep) o)).
    destruct (is_empty item) eqn:Ei.
    + destruct allow; split; congruence.
    + unfold decide_origin. cbn [negb andb].
      destruct (text_eqb item null_origin) eqn:En.
      * apply text_eqb_eq in En. rewrite En, mem_text_snoc.
        destruct (mem_text null_origin (own_host r :: base)); split; congruence.
      * destruct (urlparse_m (r_v6 r) item) as [sc nl| |].
        -- destruct (text_eqb sc https_origin); cbn [negb andb]; [|split; congruence].
           rewrite existsb_snoc, existsb_same_domain.
           destruct (existsb (domain_matches nl) (own_host r :: base)); split; congruence.
        -- destruct (p_catch pr); split; congruence.
        -- split; congruence.
  - destruct (env_get lit_HTTP_REFERER r) as [[|c o]|]; cbn [or_empty is_empty].
    + destruct allow; split; congruence.
    + unfold decide_origin. cbn [negb andb].
      destruct (urlparse_m (r_v6 r) (c :: o)) as [sc nl| |].
      * destruct (text_eqb sc https_origin); cbn [negb andb]; [|split; congruence].
        rewrite existsb_snoc, existsb_same_domain.
        destruct (existsb (domain_matches nl) (own_host r :: base)); split; congruence.
      * destruct (p_catch pr); split; congruence.
      * split; congruence.
    + destruct allow; split; congruence.
Qed.

(* with the ValueError handler in place, and urllib answering for the origin, the check never raises *)
Lemma origin_no_raise pr settings caller allow r e :
  p_catch pr = true -> parse_defined r = true ->
  fst (check_csrf_origin_p pr settings caller allow r) <> ORaise e.
Proof.
  intros Hc Hp. rewrite check_origin_unfold. unfold parse_defined in Hp.
  destruct (negb (text_eqb (req_scheme r) https_req)); [discriminate|].
  revert Hp. unfold claimed_origin, spec_claim.
  destruct (header_get origin_header r) as [o|]; cbn [fst snd or_empty].
  - set (item := if origin_pick_last then last (split_on (hd 32 origin_sep) o) [] else hd [] (split_on (hd 32 origin_sep) o)).
    destruct (is_empty item) eqn:Ei; [destruct allow; discriminate|].
    unfold decide_origin. cbn [negb andb].
    destruct (text_eqb item null_origin) eqn:En.
    + intros _. destruct (mem_text item _); discriminate.
    + destruct (urlparse_m (r_v6 r) item) as [sc nl| |]; intros Hp.
      * destruct (negb (text_eqb sc https_origin)); [discriminate|]. destruct (existsb _ _); discriminate.
      * rewrite Hc. discriminate.
      * discriminate.
  - destruct (env_get lit_HTTP_REFERER r) as [[|c o]|]; cbn [or_empty is_empty]; try (destruct allow; discriminate).
    unfold decide_origin. cbn [negb andb].
    destruct (urlparse_m (r_v6 r) (c :: o)) as [sc nl| |]; intros Hp.
    + destruct (negb (text_eqb sc https_origin)); [discriminate|]. destruct (existsb _ _); discriminate.
    + rewrite Hc. discriminate.
    + discriminate.
Qed.

(* ------------------------------------------------------------------ the wrapper *)
Lemma enabled_is_in_force c : csrf_enabled c = spec_in_force c.
Proof.
  unfold csrf_enabled, spec_in_force.
  destruct (c_explicit c) as [[|]|]; cbn [is_true is_false negb orb andb].
  - reflexivity.
  - reflexivity.
  - rewrite <- andb_assoc. reflexivity.
Qed.

Lemma checks_apply_is_checked c r : checks_apply c r = spec_checked c r.
Proof.
  unfold checks_apply, spec_checked. rewrite enabled_is_in_force.
  destruct (o_callback (effective c)); cbn [negb orb]; reflexivity.
Qed.

(* for ANY value of the repair parameters: if the body ran, the declarative conditions held *)
Lemma body_never_runs_on_failure pr c r : view_outcome_p pr c r = Ran -> spec_runs c r = true.
Proof.
  unfold view_outcome_p, spec_runs. rewrite checks_apply_is_checked.
  destruct (spec_checked c r); [|reflexivity].
  destruct (o_check_origin (effective c)).
  - destruct (fst (check_csrf_origin_p pr (c_settings c) None (o_allow_no_origin (effective c)) r)) eqn:Eo;
      try discriminate.
    apply origin_pass_iff in Eo. rewrite Eo.
    destruct (check_csrf_token_p pr (c_storage c) (o_token (effective c)) (o_header (effective c)) r) eqn:Et;
      try discriminate.
    apply token_pass_spec in Et. rewrite Et. reflexivity.
  - destruct (check_csrf_token_p pr (c_storage c) (o_token (effective c)) (o_header (effective c)) r) eqn:Et;
      try discriminate.
    apply token_pass_spec in Et. rewrite Et. reflexivity.
Qed.

Lemma wf_tokens_split c r :
  wf_tokens c r = true ->
  forallb valid_scalar (expected_token (c_storage c) r) = true /\
  forallb valid_scalar (supplied_token (o_token (effective c)) (o_header (effective c)) r) = true.
Proof. unfold wf_tokens. intros H. apply andb_true_iff in H. exact H. Qed.

(* with UTF-8 comparison: the body runs exactly when the declarative conditions hold *)
Lemma gate_p pr c r :
  p_utf8 pr = true -> wf_tokens c r = true ->
  (view_outcome_p pr c r = Ran <-> spec_runs c r = true).
Proof.
  intros Hu Hwf. split; [apply body_never_runs_on_failure|].
  destruct (wf_tokens_split c r Hwf) as [W1 W2].
  unfold view_outcome_p, spec_runs. rewrite checks_apply_is_checked.
  destruct (spec_checked c r); [|reflexivity].
  rewrite (token_verdict_utf8 pr _ _ _ r Hu W1 W2).
  destruct (o_check_origin (effective c)).
  - intros H. apply andb_true_iff in H as [Ho Ht].
    apply origin_pass_iff with (pr := pr) in Ho. rewrite Ho, Ht. reflexivity.
  - cbn [andb]. intros Ht. rewrite Ht. reflexivity.
Qed.

Lemma no_raise_p pr c r e :
  p_utf8 pr = true -> p_catch pr = true -> wf_tokens c r = true -> parse_defined r = true ->
  view_outcome_p pr c r <> Raised e.
Proof.
  intros Hu Hc Hwf Hp. destruct (wf_tokens_split c r Hwf) as [W1 W2].
  unfold view_outcome_p. destruct (checks_apply c r); [|discriminate].
  rewrite (token_verdict_utf8 pr _ _ _ r Hu W1 W2).
  destruct (o_check_origin (effective c)).
  - pose proof (origin_no_raise pr (c_settings c) None (o_allow_no_origin (effective c)) r) as Hn.
    destruct (fst (check_csrf_origin_p pr (c_settings c) None (o_allow_no_origin (effective c)) r)) as [|w|e'].
    + destruct (spec_token_ok _ _ _ r); discriminate.
    + discriminate.
    + exfalso. apply (Hn e'); auto.
  - destruct (spec_token_ok _ _ _ r); discriminate.
Qed.

Lemma the_params_ok s : p_copies (the_params s) = true /\ p_utf8 (the_params s) = true /\ p_catch (the_params s) = true.
Proof.
  destruct Facts_ok_repairs as (H1 & H2 & _). unfold the_params. cbn [p_copies p_utf8 p_catch].
  rewrite H1, H2, storage_utf8_true. auto.
Qed.

Lemma csrf_gate c r : wf_tokens c r = true -> (view_outcome c r = Ran <-> spec_runs c r = true).
Proof. intros H. apply gate_p; [apply the_params_ok|exact H]. Qed.

Lemma rejection_is_400 c r :
  wf_tokens c r = true -> parse_defined r = true ->
  view_outcome c r = Ran \/ view_outcome c r = BadToken \/ exists w, view_outcome c r = BadOrigin w.
Proof.
  intros Hwf Hp. destruct (the_params_ok (c_storage c)) as (_ & Hu & Hc).
  pose proof (fun e => no_raise_p _ c r e Hu Hc Hwf Hp) as Hn. unfold view_outcome.
  destruct (view_outcome_p (the_params (c_storage c)) c r) as [|w| |e]; eauto.
  exfalso. apply (Hn e). reflexivity.
Qed.

(* which check rejected: origin first, then token *)
Lemma rejection_kind c r :
  wf_tokens c r = true -> parse_defined r = true -> spec_checked c r = true ->
  let o := effective c in
  let origin_ok := if o_check_origin o then spec_origin_ok (c_settings c) None (o_allow_no_origin o) r else true in
  (origin_ok = false -> exists w, view_outcome c r = BadOrigin w) /\
  (origin_ok = true -> spec_token_ok (c_storage c) (o_token o) (o_header o) r = false -> view_outcome c r = BadToken).
Proof.
  intros Hwf Hp Hck. destruct (the_params_ok (c_storage c)) as (_ & Hu & Hc).
  destruct (wf_tokens_split c r Hwf) as [W1 W2]. cbv zeta.
  unfold view_outcome, view_outcome_p. rewrite checks_apply_is_checked, Hck.
  rewrite (token_verdict_utf8 _ _ _ _ r Hu W1 W2).
  destruct (o_check_origin (effective c)).
  - pose proof (origin_pass_iff (the_params (c_storage c)) (c_settings c) None (o_allow_no_origin (effective c)) r) as Hi.
    pose proof (origin_no_raise (the_params (c_storage c)) (c_settings c) None (o_allow_no_origin (effective c)) r) as Hn.
    destruct (fst (check_csrf_origin_p (the_params (c_storage c)) (c_settings c) None (o_allow_no_origin (effective c)) r)) as [|w|e'].
    + split.
      * intros Hf. destruct Hi as [Hi _]. rewrite Hi in Hf by reflexivity. discriminate.
      * intros _ Ht. rewrite Ht. reflexivity.
    + split; [eauto|]. intros Ht. destruct Hi as [_ Hi]. specialize (Hi Ht). discriminate.
    + exfalso. apply (Hn e'); auto.
  - split; [discriminate|]. intros _ Ht. rewrite Ht. reflexivity.
Qed.

(* unchecked requests *)
Lemma safe_method_unchecked pr c r :
  mem_text (req_method r) (o_safe (effective c)) = true -> view_outcome_p pr c r = Ran.
Proof. intros H. unfold view_outcome_p, checks_apply. rewrite H. cbn [negb]. rewrite andb_false_r. reflexivity. Qed.

Lemma opted_out_unchecked pr c r : c_explicit c = Some false -> view_outcome_p pr c r = Ran.
Proof. intros H. unfold view_outcome_p, checks_apply, csrf_enabled. rewrite H. reflexivity. Qed.

Lemma exception_view_default_unchecked pr c r :
  c_exception_only c = true -> c_explicit c <> Some true -> view_outcome_p pr c r = Ran.
Proof.
  intros He Hx. unfold view_outcome_p, checks_apply, csrf_enabled. rewrite He.
  destruct (c_explicit c) as [[|]|]; [contradiction| |]; cbn [is_true is_false negb orb andb];
    rewrite ?andb_false_r; reflexivity.
Qed.

Lemma callback_false_unchecked pr c r :
  o_callback (effective c) = true -> r_cb r = false -> view_outcome_p pr c r = Ran.
Proof. intros H1 H2. unfold view_outcome_p, checks_apply. rewrite H1, H2. cbn [negb orb]. rewrite andb_false_r. reflexivity. Qed.

Lemma no_token_no_header_unchecked pr c r :
  truthy (o_token (effective c)) = false -> truthy (o_header (effective c)) = false -> view_outcome_p pr c r = Ran.
Proof. intros H1 H2. unfold view_outcome_p, checks_apply, csrf_enabled. rewrite H1, H2. cbn [orb]. rewrite andb_false_r. reflexivity. Qed.

(* the query string is never read *)
Lemma query_token_ignored pr c r q : view_outcome_p pr c (with_query r q) = view_outcome_p pr c r.
Proof. reflexivity. Qed.

(* ------------------------------------------------------------------ histories *)
Lemma caller_list_unchanged pr settings caller allow r :
  p_copies pr = true \/ caller = None ->
  snd (check_csrf_origin_p pr settings caller allow r) = caller.
Proof.
  intros H. unfold check_csrf_origin_p.
  destruct (negb (text_eqb (req_scheme r) https_req)); [reflexivity|].
  destruct (claimed_origin r) as [origin is_ref].
  destruct (is_empty (or_empty origin)); [reflexivity|].
  assert (E : match caller with
              | Some l => if p_copies pr then Some l else Some (match caller with None => aslist settings | Some l0 => l0 end ++ [own_host r])
              | None => None end = caller).
  { destruct H as [H| ->]; [rewrite H; destruct caller; reflexivity|reflexivity]. }
  destruct (negb is_ref && text_eqb (or_empty origin) null_origin); [cbn [snd]; exact E|].
  destruct (urlparse_m (r_v6 r) (or_empty origin)) as [sc nl| |]; cbn [snd]; try exact E.
  destruct (negb (text_eqb sc https_origin)); [exact E|].
  destruct (existsb (is_same_domain nl) _); exact E.
Qed.

Lemma history_independent_p pr settings caller allow rs :
  p_copies pr = true \/ caller = None ->
  origin_history pr settings caller allow rs =
  (map (fun r => fst (check_csrf_origin_p pr settings caller allow r)) rs, caller).
Proof.
  intros H. induction rs as [|r rs IH]; [reflexivity|].
  cbn [origin_history map].
  pose proof (caller_list_unchanged pr settings caller allow r H) as Hs.
  destruct (check_csrf_origin_p pr settings caller allow r) as [v c']. cbn [fst snd] in *. subst c'.
  rewrite IH. reflexivity.
Qed.

Lemma history_independent s settings caller allow rs :
  origin_history (the_params s) settings caller allow rs =
  (map (fun r => fst (check_csrf_origin_p (the_params s) settings caller allow r)) rs, caller).
Proof. apply history_independent_p. left. apply the_params_ok. Qed.

Lemma history_independent_settings pr settings allow rs :
  origin_history pr settings None allow rs =
  (map (fun r => fst (check_csrf_origin_p pr settings None allow r)) rs, None).
Proof. apply history_independent_p. right. reflexivity. Qed.

(* ------------------------------------------------------------------ readable forms *)
Lemma token_pass_iff_equal s token header r :
  forallb valid_scalar (expected_token s r) = true ->
  forallb valid_scalar (supplied_token token header r) = true ->
  (check_csrf_token_p (the_params s) s token header r = TPass <-> supplied_token token header r = expected_token s r) /\
  (check_csrf_token_p (the_params s) s token header r = TFail <-> supplied_token token header r <> expected_token s r).
Proof.
  intros W1 W2. destruct (the_params_ok s) as (_ & Hu & _).
  rewrite (token_verdict_utf8 _ _ _ _ r Hu W1 W2). unfold spec_token_ok. rewrite <- supplied_is_spec.
  destruct (text_eqb_spec (supplied_token token header r) (expected_token s r)) as [E|E]; split; split;
    try congruence; try discriminate; intros; reflexivity.
Qed.

(* the documented origin rule, spelled out *)
Definition same_domain_P (h p : text) : Prop :=
  p <> [] /\ (h = lower p \/
              exists rest, lower p = 46 :: rest /\ ((exists pre, h = pre ++ lower p) \/ h = rest)).

Lemma origin_ok_meaning settings caller allow r :
  spec_origin_ok settings caller allow r = true <->
  req_scheme r <> https_req \/
  (spec_claim r = NoOrigin /\ allow = true) \/
  (spec_claim r = NullOrigin /\ In null_origin (spec_trusted settings caller r)) \/
  (exists o netloc, spec_claim r = Claims o /\ urlparse_m (r_v6 r) o = PUrl https_origin netloc /\
                    exists p, In p (spec_trusted settings caller r) /\ same_domain_P netloc p).
Proof.
  unfold spec_origin_ok.
  destruct (text_eqb_spec (req_scheme r) https_req) as [Es|Es]; [|split; auto].
  destruct (spec_claim r) as [| |o] eqn:Ec.
  - split.
    + intros ->. right. left. auto.
    + intros [H|[[_ H]|[[H _]|(o & nl & H & _)]]]; try congruence; try contradiction.
  - rewrite mem_text_In. split.
    + intros H. right. right. left. auto.
    + intros [H|[[H _]|[[_ H]|(o & nl & H & _)]]]; try congruence; try contradiction.
  - split.
    + intros H. right. right. right.
      destruct (urlparse_m (r_v6 r) o) as [sc nl| |]; try discriminate.
      apply andb_true_iff in H as [H1 H2]. apply text_eqb_eq in H1. subst sc.
      apply existsb_exists in H2 as (p & Hin & Hp).
      rewrite <- same_domain_matches in Hp. apply same_domain_spec_lemma in Hp.
      exists o, nl. repeat split; auto. exists p. split; assumption.
    + intros [H|[[H _]|[[H _]|(o' & nl & H & Hu & p & Hin & Hp)]]]; try congruence; try contradiction.
      injection H as <-. rewrite Hu. rewrite text_eqb_refl. cbn [andb].
      apply existsb_exists. exists p. split; [assumption|].
      rewrite <- same_domain_matches. apply same_domain_spec_lemma. exact Hp.
Qed.

(* defaults *)
Lemma Facts_ok_defaults :
  builtin_require = false /\ builtin_check_origin = true /\ builtin_allow_no_origin = false /\
  sdc_require = true /\ sdc_check_origin = true /\ sdc_allow_no_origin = false /\
  builtin_safe = sdc_safe /\
  sdc_safe = [[71; 69; 84]; [72; 69; 65; 68]; [79; 80; 84; 73; 79; 78; 83]; [84; 82; 65; 67; 69]] /\
  builtin_token = sdc_token /\ builtin_header = sdc_header /\ builtin_token = token_arg_default /\
  builtin_header = header_arg_default.
Proof. vm_compute. repeat split; reflexivity. Qed.

Lemma nothing_configured_unchecked pr c r :
  c_defaults c = None -> c_explicit c <> Some true -> view_outcome_p pr c r = Ran.
Proof.
  intros Hd Hx. unfold view_outcome_p, checks_apply, csrf_enabled, effective. rewrite Hd.
  destruct Facts_ok_defaults as (Hr & _). cbn [o_require]. rewrite Hr.
  destruct (c_explicit c) as [[|]|]; [contradiction| |]; reflexivity.
Qed.
