(* C12 proofs *)
From Coq Require Import List NArith ZArith Bool Lia.
Import ListNotations.
Require Import Verif.Lib.Wire Verif.Lib.Text Verif.Lib.Utf8 Verif.Gen.Facts_C12 Verif.Model.C12.
Open Scope N_scope.

Lemma bytes_eqb_eq a b : bytes_eqb a b = true <-> a = b.
Proof.
  revert b; induction a as [|x a IH]; destruct b as [|y b]; simpl; try (split; congruence).
  rewrite andb_true_iff, N.eqb_eq, IH.
  split; [intros [-> ->]; reflexivity | intros H; inversion H; auto].
Qed.

Lemma strings_differ_spec a b : strings_differ a b = false <-> a = b.
Proof.
  unfold strings_differ.
  destruct (Nat.eqb (length a) (length b)) eqn:E.
  - destruct (bytes_eqb a b) eqn:Eb; simpl.
    + apply bytes_eqb_eq in Eb. split; auto.
    + split; [discriminate|]. intros ->. rewrite (proj2 (bytes_eqb_eq b b) eq_refl) in Eb. discriminate.
  - assert (Hb : bytes_eqb b b = true) by (apply bytes_eqb_eq; reflexivity). rewrite Hb. simpl.
    split; [discriminate|]. intros ->. rewrite Nat.eqb_refl in E. discriminate.
Qed.

(* ------------------------------------------------------------------ facts the theorems rely on *)
Lemma Facts_ok_repairs :
  copies_trusted = true /\ catches_valueerror = true /\
  enc_utf8_legacy = true /\ enc_utf8_session = true /\ enc_utf8_cookie = true.
Proof. vm_compute. repeat split; reflexivity. Qed.

Lemma Facts_ok_dot : dot = [46].
Proof. vm_compute. reflexivity. Qed.

Lemma Facts_ok_strings :
  https_req = [104; 116; 116; 112; 115] /\ https_origin = [104; 116; 116; 112; 115] /\
  null_origin = [110; 117; 108; 108] /\ origin_pick_last = true /\ origin_sep = [32].
Proof. vm_compute. repeat split; reflexivity. Qed.

Lemma storage_utf8_true s : storage_utf8 s = true.
Proof. destruct Facts_ok_repairs as (_ & _ & H1 & H2 & H3). destruct s; assumption. Qed.

(* ------------------------------------------------------------------ text helpers *)
Lemma text_eqb_sym a b : text_eqb a b = text_eqb b a.
Proof.
  destruct (text_eqb_spec a b) as [->|H]; [symmetry; apply text_eqb_refl|].
  symmetry. apply text_eqb_neq. congruence.
Qed.

Lemma endswith_spec s p : endswith s p = true <-> exists pre, s = pre ++ p.
Proof.
  unfold endswith. rewrite startswith_spec. split.
  - intros [r H]. exists (rev r). apply (f_equal (@rev N)) in H.
    rewrite rev_involutive, rev_app_distr, rev_involutive in H. exact H.
  - intros [pre ->]. exists (rev pre). apply rev_app_distr.
Qed.

Lemma strip_suffix_spec s p : (exists x, strip_suffix s p = Some x) <-> exists pre, s = pre ++ p.
Proof.
  unfold strip_suffix. split.
  - intros [x H]. destruct (strip_prefix (rev p) (rev s)) as [r|] eqn:E; [|discriminate].
    apply strip_prefix_spec in E. exists (rev r). apply (f_equal (@rev N)) in E.
    rewrite rev_involutive, rev_app_distr, rev_involutive in E. exact E.
  - intros [pre ->]. rewrite rev_app_distr.
    assert (H : strip_prefix (rev p) (rev p ++ rev pre) = Some (rev pre)) by (apply strip_prefix_spec; reflexivity).
    rewrite H. eauto.
Qed.

Lemma endswith_strip_suffix s p :
  endswith s p = match strip_suffix s p with Some _ => true | None => false end.
Proof.
  destruct (endswith s p) eqn:E.
  - apply endswith_spec in E. apply strip_suffix_spec in E. destruct E as [x ->]. reflexivity.
  - destruct (strip_suffix s p) eqn:E2; [|reflexivity].
    assert (H : exists x, strip_suffix s p = Some x) by eauto.
    apply strip_suffix_spec in H. apply endswith_spec in H. congruence.
Qed.

(* ------------------------------------------------------------------ is_same_domain *)
Lemma same_domain_matches h p : is_same_domain h p = domain_matches h p.
Proof.
  unfold is_same_domain, domain_matches.
  destruct p as [|c p]; [reflexivity|].
  cbn [is_empty negb andb].
  remember (lower (c :: p)) as lp eqn:Hlp.
  assert (Hne : lp <> []) by (subst lp; discriminate).
  destruct lp as [|d rest]; [contradiction|].
  cbn [firstn tl].
  rewrite (text_eqb_sym (d :: rest) h).
  rewrite endswith_strip_suffix, Facts_ok_dot.
  cbn [text_eqb]. rewrite andb_true_r.
  rewrite orb_comm. f_equal. f_equal. apply orb_comm.
Qed.

Theorem same_domain_spec_lemma h p :
  is_same_domain h p = true <->
  p <> [] /\ (h = lower p \/
              exists rest, lower p = 46 :: rest /\ ((exists pre, h = pre ++ lower p) \/ h = rest)).
Proof.
  unfold is_same_domain. destruct p as [|c p].
  - split; [discriminate|intros [H _]; contradiction].
  - remember (lower (c :: p)) as lp eqn:Hlp.
    assert (Hne : lp <> []) by (subst lp; discriminate).
    destruct lp as [|d rest]; [contradiction|].
    cbn [firstn tl]. rewrite Facts_ok_dot.
    rewrite orb_true_iff, andb_true_iff, orb_true_iff, !text_eqb_eq, endswith_spec.
    split.
    + intros [[Hd [Hs|He]]|He].
      * split; [discriminate|]. right. injection Hd as ->. exists rest. split; [reflexivity|]. left. exact Hs.
      * split; [discriminate|]. right. injection Hd as ->. exists rest. split; [reflexivity|]. right. exact He.
      * split; [discriminate|]. left. congruence.
    + intros [_ [He|[rest' [Hr [Hs|He]]]]].
      * right. congruence.
      * left. injection Hr as -> ->. split; [reflexivity|]. left. exact Hs.
      * left. injection Hr as -> ->. split; [reflexivity|]. right. exact He.
Qed.

(* ------------------------------------------------------------------ token comparison *)
Lemma encode_inj a b :
  forallb valid_scalar a = true -> forallb valid_scalar b = true -> encode a = encode b -> a = b.
Proof.
  intros Ha Hb E. pose proof (decode_encode a Ha) as Da. pose proof (decode_encode b Hb) as Db.
  rewrite E in Da. congruence.
Qed.

(* a passing comparison means equal tokens -- for either encoding *)
Lemma policy_check_pass utf8 s r sup :
  policy_check utf8 s r sup = TPass -> sup = expected_token s r.
Proof.
  unfold policy_check, encode_tok. destruct utf8.
  - destruct (forallb valid_scalar (expected_token s r)) eqn:E1; [|discriminate].
    destruct (forallb valid_scalar sup) eqn:E2; [|discriminate].
    destruct (strings_differ (encode (expected_token s r)) (encode sup)) eqn:D; [discriminate|].
    intros _. apply strings_differ_spec in D. symmetry. apply encode_inj; assumption.
  - destruct (forallb (fun c => c <? 256) (expected_token s r)); [|discriminate].
    destruct (forallb (fun c => c <? 256) sup); [|discriminate].
    destruct (strings_differ (expected_token s r) sup) eqn:D; [discriminate|].
    intros _. apply strings_differ_spec in D. congruence.
Qed.

(* with UTF-8 and well-formed tokens the comparison is exactly text equality and never raises *)
Lemma policy_check_utf8 s r sup :
  forallb valid_scalar (expected_token s r) = true -> forallb valid_scalar sup = true ->
  policy_check true s r sup = if text_eqb sup (expected_token s r) then TPass else TFail.
Proof.
  intros E1 E2. unfold policy_check, encode_tok. rewrite E1, E2.
  destruct (text_eqb_spec sup (expected_token s r)) as [->|Hne].
  - assert (D : strings_differ (encode (expected_token s r)) (encode (expected_token s r)) = false)
      by (apply strings_differ_spec; reflexivity).
    rewrite D. reflexivity.
  - destruct (strings_differ (encode (expected_token s r)) (encode sup)) eqn:D; [reflexivity|].
    apply strings_differ_spec in D. exfalso. apply Hne. symmetry. apply encode_inj; assumption.
Qed.

Lemma supplied_is_spec token header r : supplied_token token header r = spec_supplied token header r.
Proof.
  unfold supplied_token, spec_supplied.
  destruct header as [h|]; [|destruct token; reflexivity].
  destruct (header_get h r) as [[|c v]|]; cbn [or_empty is_empty]; destruct token; reflexivity.
Qed.

Lemma token_pass_spec pr s token header r :
  check_csrf_token_p pr s token header r = TPass -> spec_token_ok s token header r = true.
Proof.
  unfold check_csrf_token_p, spec_token_ok. intros H. apply policy_check_pass in H.
  rewrite <- supplied_is_spec, H. apply text_eqb_refl.
Qed.

Lemma token_verdict_utf8 pr s token header r :
  p_utf8 pr = true ->
  forallb valid_scalar (expected_token s r) = true ->
  forallb valid_scalar (supplied_token token header r) = true ->
  check_csrf_token_p pr s token header r = if spec_token_ok s token header r then TPass else TFail.
Proof.
  intros Hu E1 E2. unfold check_csrf_token_p, spec_token_ok. rewrite Hu, <- supplied_is_spec.
  apply policy_check_utf8; assumption.
Qed.

(* the form field is read exactly when the header is not configured, absent or empty *)
Lemma empty_header_falls_back t h r :
  header_get h r = Some [] \/ header_get h r = None ->
  supplied_token (Some t) (Some h) r = or_empty (lookup_last t (r_post r)).
Proof. intros [H|H]; unfold supplied_token; rewrite H; reflexivity. Qed.

Lemma nonempty_header_wins token h r c v :
  header_get h r = Some (c :: v) -> supplied_token token (Some h) r = c :: v.
Proof. intros H. unfold supplied_token. rewrite H. reflexivity. Qed.

(* ------------------------------------------------------------------ origin check *)
Lemma mem_text_snoc x l y : mem_text x (l ++ [y]) = mem_text x (y :: l).
Proof.
  induction l as [|a l IH]; simpl; [reflexivity|].
  rewrite IH. simpl. destruct (text_eqb x a), (text_eqb x y); reflexivity.
Qed.

Lemma existsb_snoc {A} (f : A -> bool) l y : existsb f (l ++ [y]) = existsb f (y :: l).
Proof. rewrite existsb_app. simpl. rewrite orb_false_r. apply orb_comm. Qed.

Lemma existsb_same_domain n l : existsb (is_same_domain n) l = existsb (domain_matches n) l.
Proof. induction l as [|a l IH]; simpl; [reflexivity|]. rewrite IH, same_domain_matches. reflexivity. Qed.

(* what the code does once it holds a non-empty claimed origin *)
Definition decide_origin (pr : params) (trusted : list text) (v6 : list (text * bool)) (is_ref : bool) (origin : text)
  : overdict :=
  if negb is_ref && text_eqb origin null_origin then (if mem_text origin trusted then OPass else OFail RNull)
  else match urlparse_m v6 origin with
       | PValueError => if p_catch pr then OFail RParse else ORaise EValue
       | PUnmodelled => ORaise EUnmodelled
       | PUrl scheme netloc =>
           if negb (text_eqb scheme https_origin) then OFail RInsecure
           else if existsb (is_same_domain netloc) trusted then OPass else OFail RNoMatch
       end.

Lemma check_origin_unfold pr settings caller allow r :
  fst (check_csrf_origin_p pr settings caller allow r) =
  if negb (text_eqb (req_scheme r) https_req) then OPass
  else if is_empty (or_empty (fst (claimed_origin r))) then (if allow then OPass else OFail RMissing)
  else decide_origin pr (match caller with None => aslist settings | Some l => l end ++ [own_host r])
                     (r_v6 r) (snd (claimed_origin r)) (or_empty (fst (claimed_origin r))).
Proof.
  unfold check_csrf_origin_p, decide_origin.
  destruct (negb (text_eqb (req_scheme r) https_req)); [reflexivity|].
  destruct (claimed_origin r) as [origin is_ref]. cbn [fst snd].
  destruct (is_empty (or_empty origin)); [reflexivity|].
  destruct (negb is_ref && text_eqb (or_empty origin) null_origin); [reflexivity|].
  destruct (urlparse_m (r_v6 r) (or_empty origin)) as [sc nl| |]; try reflexivity.
  destruct (negb (text_eqb sc https_origin)); [reflexivity|].
  destruct (existsb (is_same_domain nl) _); reflexivity.
Qed.

(* the regenerated constants are the documented ones *)
Lemma own_host_is_spec r : own_host r = spec_own_host r.
Proof.
  unfold own_host, spec_own_host.
  change std_ports with [s_443; s_80]. change own_format with [(1, @nil N); (0, [58]); (2, @nil N)].
  cbn [mem_text flat_map fst snd]. rewrite orb_false_r, (orb_comm (text_eqb _ s_443)), !app_nil_r.
  reflexivity.
Qed.

Lemma claimed_origin_doc r :
  claimed_origin r =
  match header_get s_origin_hdr r with
  | None => (env_get lit_HTTP_REFERER r, true)
  | Some o => (Some (last (split_on 32 o) []), false)
  end.
Proof.
  unfold claimed_origin. change origin_header with s_origin_hdr. change origin_pick_last with true.
  change origin_sep with [32]. reflexivity.
Qed.

Lemma origin_pass_iff pr settings caller allow r :
  fst (check_csrf_origin_p pr settings caller allow r) = OPass <-> spec_origin_ok settings caller allow r = true.
Proof.
  rewrite check_origin_unfold. unfold spec_origin_ok, spec_trusted.
  change https_req with s_https. rewrite own_host_is_spec, claimed_origin_doc.
  destruct (text_eqb (req_scheme r) s_https); cbn [negb]; [|tauto].
  set (base := match caller with Some l => l | None => aslist settings end).
  replace (match caller with None => aslist settings | Some l => l end) with base by (destruct caller; reflexivity).
  unfold spec_claim.
  destruct (header_get s_origin_hdr r) as [o|]; cbn [fst snd or_empty].
  - set (item := last (split_on 32 o) []).
    destruct (is_empty item) eqn:Ei.
    + destruct allow; split; congruence.
    + unfold decide_origin. cbn [negb andb]. change null_origin with s_null. change https_origin with s_https.
      destruct (text_eqb item s_null) eqn:En.
      * apply text_eqb_eq in En. rewrite En, mem_text_snoc.
        destruct (mem_text s_null (spec_own_host r :: base)); split; congruence.
      * destruct (urlparse_m (r_v6 r) item) as [sc nl| |].
        -- destruct (text_eqb sc s_https); cbn [negb andb]; [|split; congruence].
           rewrite existsb_snoc, existsb_same_domain.
           destruct (existsb (domain_matches nl) (spec_own_host r :: base)); split; congruence.
        -- destruct (p_catch pr); split; congruence.
        -- split; congruence.
  - destruct (env_get lit_HTTP_REFERER r) as [[|c o]|]; cbn [or_empty is_empty].
    + destruct allow; split; congruence.
    + unfold decide_origin. cbn [negb andb]. change https_origin with s_https.
      destruct (urlparse_m (r_v6 r) (c :: o)) as [sc nl| |].
      * destruct (text_eqb sc s_https); cbn [negb andb]; [|split; congruence].
        rewrite existsb_snoc, existsb_same_domain.
        destruct (existsb (domain_matches nl) (spec_own_host r :: base)); split; congruence.
      * destruct (p_catch pr); split; congruence.
      * split; congruence.
    + destruct allow; split; congruence.
Qed.

(* with the ValueError handler in place, and urllib answering for the origin, the check never raises *)
Lemma origin_no_raise pr settings caller allow r e :
  p_catch pr = true -> parse_defined r = true ->
  fst (check_csrf_origin_p pr settings caller allow r) <> ORaise e.
Proof.
  intros Hc Hp. rewrite check_origin_unfold, claimed_origin_doc. unfold parse_defined in Hp.
  destruct (negb (text_eqb (req_scheme r) https_req)); [discriminate|].
  revert Hp. unfold spec_claim.
  destruct (header_get s_origin_hdr r) as [o|]; cbn [fst snd or_empty].
  - set (item := last (split_on 32 o) []).
    destruct (is_empty item) eqn:Ei; [destruct allow; discriminate|].
    unfold decide_origin. cbn [negb andb]. change null_origin with s_null.
    destruct (text_eqb item s_null) eqn:En.
    + intros _. destruct (mem_text item _); discriminate.
    + destruct (urlparse_m (r_v6 r) item) as [sc nl| |]; intros Hp.
      * destruct (negb (text_eqb sc https_origin)); [discriminate|]. destruct (existsb _ _); discriminate.
      * rewrite Hc. discriminate.
      * discriminate.
  - destruct (env_get lit_HTTP_REFERER r) as [[|c o]|]; cbn [or_empty is_empty]; try (destruct allow; discriminate).
    unfold decide_origin. cbn [negb andb].
    destruct (urlparse_m (r_v6 r) (c :: o)) as [sc nl| |]; intros Hp.
    + destruct (negb (text_eqb sc https_origin)); [discriminate|]. destruct (existsb _ _); discriminate.
    + rewrite Hc. discriminate.
    + discriminate.
Qed.

(* ------------------------------------------------------------------ the wrapper *)
(* set_default_csrf_options' action runs strictly before add_view's, whatever the statement order *)
Lemma Facts_ok_order : (sdc_order <? view_order)%Z = true.
Proof. vm_compute. reflexivity. Qed.

Lemma defaults_always_visible b : defaults_visible b = true.
Proof. unfold defaults_visible. rewrite Facts_ok_order. reflexivity. Qed.

Lemma effective_is_spec c : effective c = spec_effective c.
Proof.
  unfold effective, spec_effective. rewrite defaults_always_visible. cbn [negb].
  destruct (c_defaults c); reflexivity.
Qed.

(* the verdict does not depend on where set_default_csrf_options is stated *)
Lemma effective_order_irrelevant c b : effective (with_defaults_first c b) = effective c.
Proof. rewrite !effective_is_spec. reflexivity. Qed.

Lemma enabled_is_in_force c : csrf_enabled c = spec_in_force c.
Proof.
  unfold csrf_enabled, spec_in_force. rewrite effective_is_spec.
  destruct (c_explicit c) as [[|]|]; cbn [is_true is_false negb orb andb].
  - reflexivity.
  - reflexivity.
  - rewrite <- andb_assoc. reflexivity.
Qed.

Lemma checks_apply_is_checked c r : checks_apply c r = spec_checked c r.
Proof.
  unfold checks_apply, spec_checked. rewrite enabled_is_in_force, effective_is_spec.
  destruct (o_callback (spec_effective c)); cbn [negb orb]; reflexivity.
Qed.

(* for ANY value of the repair parameters: if the body ran, the declarative conditions held *)
Lemma body_never_runs_on_failure pr c r : view_outcome_p pr c r = Ran -> spec_runs c r = true.
Proof.
  unfold view_outcome_p, spec_runs. cbv zeta. rewrite checks_apply_is_checked. change (effective c) with (spec_effective c).
  destruct (spec_checked c r); [|reflexivity].
  destruct (o_check_origin (spec_effective c)).
  - destruct (fst (check_csrf_origin_p pr (c_settings c) None (o_allow_no_origin (spec_effective c)) r)) eqn:Eo;
      try discriminate.
    apply origin_pass_iff in Eo. rewrite Eo.
    destruct (check_csrf_token_p pr (c_storage c) (o_token (spec_effective c)) (o_header (spec_effective c)) r) eqn:Et;
      try discriminate.
    apply token_pass_spec in Et. rewrite Et. reflexivity.
  - destruct (check_csrf_token_p pr (c_storage c) (o_token (spec_effective c)) (o_header (spec_effective c)) r) eqn:Et;
      try discriminate.
    apply token_pass_spec in Et. rewrite Et. reflexivity.
Qed.

Lemma wf_tokens_split c r :
  wf_tokens c r = true ->
  forallb valid_scalar (expected_token (c_storage c) r) = true /\
  forallb valid_scalar (supplied_token (o_token (spec_effective c)) (o_header (spec_effective c)) r) = true.
Proof. unfold wf_tokens. rewrite <- supplied_is_spec. intros H. apply andb_true_iff in H. exact H. Qed.

(* with UTF-8 comparison: the body runs exactly when the declarative conditions hold *)
Lemma gate_p pr c r :
  p_utf8 pr = true -> wf_tokens c r = true ->
  (view_outcome_p pr c r = Ran <-> spec_runs c r = true).
Proof.
  intros Hu Hwf. split; [apply body_never_runs_on_failure|].
  destruct (wf_tokens_split c r Hwf) as [W1 W2].
  unfold view_outcome_p, spec_runs. cbv zeta. rewrite checks_apply_is_checked. change (effective c) with (spec_effective c).
  destruct (spec_checked c r); [|reflexivity].
  rewrite (token_verdict_utf8 pr _ _ _ r Hu W1 W2).
  destruct (o_check_origin (spec_effective c)).
  - intros H. apply andb_true_iff in H as [Ho Ht].
    apply origin_pass_iff with (pr := pr) in Ho. rewrite Ho, Ht. reflexivity.
  - cbn [andb]. intros Ht. rewrite Ht. reflexivity.
Qed.

Lemma no_raise_p pr c r e :
  p_utf8 pr = true -> p_catch pr = true -> wf_tokens c r = true -> parse_defined r = true ->
  view_outcome_p pr c r <> Raised e.
Proof.
  intros Hu Hc Hwf Hp. destruct (wf_tokens_split c r Hwf) as [W1 W2].
  unfold view_outcome_p. cbv zeta. change (effective c) with (spec_effective c). destruct (checks_apply c r); [|discriminate].
  rewrite (token_verdict_utf8 pr _ _ _ r Hu W1 W2).
  destruct (o_check_origin (spec_effective c)).
  - pose proof (origin_no_raise pr (c_settings c) None (o_allow_no_origin (spec_effective c)) r) as Hn.
    destruct (fst (check_csrf_origin_p pr (c_settings c) None (o_allow_no_origin (spec_effective c)) r)) as [|w|e'].
    + destruct (spec_token_ok _ _ _ r); discriminate.
    + discriminate.
    + exfalso. apply (Hn e'); auto.
  - destruct (spec_token_ok _ _ _ r); discriminate.
Qed.

Lemma the_params_ok s : p_copies (the_params s) = true /\ p_utf8 (the_params s) = true /\ p_catch (the_params s) = true.
Proof.
  destruct Facts_ok_repairs as (H1 & H2 & _). unfold the_params. cbn [p_copies p_utf8 p_catch].
  rewrite H1, H2, storage_utf8_true. auto.
Qed.

Lemma csrf_gate c r : wf_tokens c r = true -> (view_outcome c r = Ran <-> spec_runs c r = true).
Proof. intros H. apply gate_p; [apply the_params_ok|exact H]. Qed.

Lemma rejection_is_400 c r :
  wf_tokens c r = true -> parse_defined r = true ->
  view_outcome c r = Ran \/ view_outcome c r = BadToken \/ exists w, view_outcome c r = BadOrigin w.
Proof.
  intros Hwf Hp. destruct (the_params_ok (c_storage c)) as (_ & Hu & Hc).
  pose proof (fun e => no_raise_p _ c r e Hu Hc Hwf Hp) as Hn. unfold view_outcome.
  destruct (view_outcome_p (the_params (c_storage c)) c r) as [|w| |e]; eauto.
  exfalso. apply (Hn e). reflexivity.
Qed.

(* which check rejected: origin first, then token *)
Lemma rejection_kind c r :
  wf_tokens c r = true -> parse_defined r = true -> spec_checked c r = true ->
  let o := spec_effective c in
  let origin_ok := if o_check_origin o then spec_origin_ok (c_settings c) None (o_allow_no_origin o) r else true in
  (origin_ok = false -> exists w, view_outcome c r = BadOrigin w) /\
  (origin_ok = true -> spec_token_ok (c_storage c) (o_token o) (o_header o) r = false -> view_outcome c r = BadToken).
Proof.
  intros Hwf Hp Hck. destruct (the_params_ok (c_storage c)) as (_ & Hu & Hc).
  destruct (wf_tokens_split c r Hwf) as [W1 W2]. cbv zeta.
  unfold view_outcome, view_outcome_p. cbv zeta. rewrite checks_apply_is_checked, Hck. change (effective c) with (spec_effective c).
  rewrite (token_verdict_utf8 _ _ _ _ r Hu W1 W2).
  destruct (o_check_origin (spec_effective c)).
  - pose proof (origin_pass_iff (the_params (c_storage c)) (c_settings c) None (o_allow_no_origin (spec_effective c)) r) as Hi.
    pose proof (origin_no_raise (the_params (c_storage c)) (c_settings c) None (o_allow_no_origin (spec_effective c)) r) as Hn.
    destruct (fst (check_csrf_origin_p (the_params (c_storage c)) (c_settings c) None (o_allow_no_origin (spec_effective c)) r)) as [|w|e'].
    + split.
      * intros Hf. destruct Hi as [Hi _]. rewrite Hi in Hf by reflexivity. discriminate.
      * intros _ Ht. rewrite Ht. reflexivity.
    + split; [eauto|]. intros Ht. destruct Hi as [_ Hi]. specialize (Hi Ht). discriminate.
    + exfalso. apply (Hn e'); auto.
  - split; [discriminate|]. intros _ Ht. rewrite Ht. reflexivity.
Qed.

(* unchecked requests *)
Lemma safe_method_unchecked pr c r :
  mem_text (req_method r) (o_safe (effective c)) = true -> view_outcome_p pr c r = Ran.
Proof. intros H. unfold view_outcome_p, checks_apply. rewrite H. cbn [negb]. rewrite andb_false_r. reflexivity. Qed.

Lemma opted_out_unchecked pr c r : c_explicit c = Some false -> view_outcome_p pr c r = Ran.
Proof. intros H. unfold view_outcome_p, checks_apply, csrf_enabled. rewrite H. reflexivity. Qed.

Lemma exception_view_default_unchecked pr c r :
  c_exception_only c = true -> c_explicit c <> Some true -> view_outcome_p pr c r = Ran.
Proof.
  intros He Hx. unfold view_outcome_p, checks_apply, csrf_enabled. rewrite He.
  destruct (c_explicit c) as [[|]|]; [contradiction| |]; cbn [is_true is_false negb orb andb];
    rewrite ?andb_false_r; reflexivity.
Qed.

Lemma callback_false_unchecked pr c r :
  o_callback (effective c) = true -> r_cb r = false -> view_outcome_p pr c r = Ran.
Proof. intros H1 H2. unfold view_outcome_p, checks_apply. rewrite H1, H2. cbn [negb orb]. rewrite andb_false_r. reflexivity. Qed.

Lemma no_token_no_header_unchecked pr c r :
  truthy (o_token (effective c)) = false -> truthy (o_header (effective c)) = false -> view_outcome_p pr c r = Ran.
Proof. intros H1 H2. unfold view_outcome_p, checks_apply, csrf_enabled. rewrite H1, H2. cbn [orb]. rewrite andb_false_r. reflexivity. Qed.

(* the query string is never read *)
Lemma query_token_ignored pr c r q : view_outcome_p pr c (with_query r q) = view_outcome_p pr c r.
Proof. reflexivity. Qed.

(* ------------------------------------------------------------------ histories *)
Lemma caller_list_unchanged pr settings caller allow r :
  p_copies pr = true \/ caller = None ->
  snd (check_csrf_origin_p pr settings caller allow r) = caller.
Proof.
  intros H. unfold check_csrf_origin_p.
  destruct (negb (text_eqb (req_scheme r) https_req)); [reflexivity|].
  destruct (claimed_origin r) as [origin is_ref].
  destruct (is_empty (or_empty origin)); [reflexivity|].
  assert (E : match caller with
              | Some l => if p_copies pr then Some l else Some (match caller with None => aslist settings | Some l0 => l0 end ++ [own_host r])
              | None => None end = caller).
  { destruct H as [H| ->]; [rewrite H; destruct caller; reflexivity|reflexivity]. }
  destruct (negb is_ref && text_eqb (or_empty origin) null_origin); [cbn [snd]; exact E|].
  destruct (urlparse_m (r_v6 r) (or_empty origin)) as [sc nl| |]; cbn [snd]; try exact E.
  destruct (negb (text_eqb sc https_origin)); [exact E|].
  destruct (existsb (is_same_domain nl) _); exact E.
Qed.

Lemma history_independent_p pr settings caller allow rs :
  p_copies pr = true \/ caller = None ->
  origin_history pr settings caller allow rs =
  (map (fun r => fst (check_csrf_origin_p pr settings caller allow r)) rs, caller).
Proof.
  intros H. induction rs as [|r rs IH]; [reflexivity|].
  cbn [origin_history map].
  pose proof (caller_list_unchanged pr settings caller allow r H) as Hs.
  destruct (check_csrf_origin_p pr settings caller allow r) as [v c']. cbn [fst snd] in *. subst c'.
  rewrite IH. reflexivity.
Qed.

Lemma history_independent s settings caller allow rs :
  origin_history (the_params s) settings caller allow rs =
  (map (fun r => fst (check_csrf_origin_p (the_params s) settings caller allow r)) rs, caller).
Proof. apply history_independent_p. left. apply the_params_ok. Qed.

Lemma history_independent_settings pr settings allow rs :
  origin_history pr settings None allow rs =
  (map (fun r => fst (check_csrf_origin_p pr settings None allow r)) rs, None).
Proof. apply history_independent_p. right. reflexivity. Qed.

(* ------------------------------------------------------------------ readable forms *)
Lemma token_pass_iff_equal s token header r :
  forallb valid_scalar (expected_token s r) = true ->
  forallb valid_scalar (supplied_token token header r) = true ->
  (check_csrf_token_p (the_params s) s token header r = TPass <-> supplied_token token header r = expected_token s r) /\
  (check_csrf_token_p (the_params s) s token header r = TFail <-> supplied_token token header r <> expected_token s r).
Proof.
  intros W1 W2. destruct (the_params_ok s) as (_ & Hu & _).
  rewrite (token_verdict_utf8 _ _ _ _ r Hu W1 W2). unfold spec_token_ok. rewrite <- supplied_is_spec.
  destruct (text_eqb_spec (supplied_token token header r) (expected_token s r)) as [E|E]; split; split;
    try congruence; try discriminate; intros; reflexivity.
Qed.

(* the documented origin rule, spelled out *)
Definition same_domain_P (h p : text) : Prop :=
  p <> [] /\ (h = lower p \/
              exists rest, lower p = 46 :: rest /\ ((exists pre, h = pre ++ lower p) \/ h = rest)).

Lemma origin_ok_meaning settings caller allow r :
  spec_origin_ok settings caller allow r = true <->
  req_scheme r <> s_https \/
  (spec_claim r = NoOrigin /\ allow = true) \/
  (spec_claim r = NullOrigin /\ In s_null (spec_trusted settings caller r)) \/
  (exists o netloc, spec_claim r = Claims o /\ urlparse_m (r_v6 r) o = PUrl s_https netloc /\
                    exists p, In p (spec_trusted settings caller r) /\ same_domain_P netloc p).
Proof.
  unfold spec_origin_ok.
  destruct (text_eqb_spec (req_scheme r) s_https) as [Es|Es]; [|split; auto].
  destruct (spec_claim r) as [| |o] eqn:Ec.
  - split.
    + intros ->. right. left. auto.
    + intros [H|[[_ H]|[[H _]|(o & nl & H & _)]]]; try congruence; try contradiction.
  - rewrite mem_text_In. split.
    + intros H. right. right. left. auto.
    + intros [H|[[H _]|[[_ H]|(o & nl & H & _)]]]; try congruence; try contradiction.
  - split.
    + intros H. right. right. right.
      destruct (urlparse_m (r_v6 r) o) as [sc nl| |] eqn:Eu; try discriminate.
      apply andb_true_iff in H as [H1 H2]. apply text_eqb_eq in H1. subst sc.
      apply existsb_exists in H2 as (p & Hin & Hp).
      rewrite <- same_domain_matches in Hp. apply same_domain_spec_lemma in Hp.
      exists o, nl. split; [reflexivity|]. split; [exact Eu|]. exists p. split; assumption.
    + intros [H|[[H _]|[[H _]|(o' & nl & H & Hu & p & Hin & Hp)]]]; try congruence; try contradiction.
      injection H as <-. rewrite Hu. rewrite text_eqb_refl. cbn [andb].
      apply existsb_exists. exists p. split; [assumption|].
      rewrite <- same_domain_matches. apply same_domain_spec_lemma. exact Hp.
Qed.

(* defaults *)
Lemma Facts_ok_defaults :
  builtin_require = false /\ builtin_check_origin = true /\ builtin_allow_no_origin = false /\
  sdc_require = true /\ sdc_check_origin = true /\ sdc_allow_no_origin = false /\
  builtin_safe = sdc_safe /\
  sdc_safe = [[71; 69; 84]; [72; 69; 65; 68]; [79; 80; 84; 73; 79; 78; 83]; [84; 82; 65; 67; 69]] /\
  builtin_token = sdc_token /\ builtin_header = sdc_header /\ builtin_token = token_arg_default /\
  builtin_header = header_arg_default.
Proof. vm_compute. repeat split; reflexivity. Qed.

Lemma nothing_configured_unchecked pr c r :
  c_defaults c = None -> c_explicit c <> Some true -> view_outcome_p pr c r = Ran.
Proof.
  intros Hd Hx. unfold view_outcome_p, checks_apply, csrf_enabled, effective, builtin_options. rewrite Hd.
  destruct Facts_ok_defaults as (Hr & _). cbn [o_require]. rewrite Hr.
  destruct (c_explicit c) as [[|]|]; [contradiction| |]; reflexivity.
Qed.

(* ------------------------------------------------------------------ a same-origin request passes *)
(* the request's own host, written as browsers write it: lower case, no URL delimiters,
   brackets, blanks or control characters, latin-1 *)
Definition clean_char (c : N) : bool :=
  (32 <? c) && (c <? 256) && negb (memN c [47; 63; 35; 91; 93]).
Definition clean_host (h : text) : bool :=
  forallb clean_char h && text_eqb (lower h) h && negb (is_empty h).

Lemma filter_all {A} (f : A -> bool) l : forallb f l = true -> filter f l = l.
Proof.
  induction l as [|x l IH]; simpl; [reflexivity|]. intros H. apply andb_true_iff in H as [H1 H2].
  rewrite H1, IH by assumption. reflexivity.
Qed.

Lemma take_while_all f l : forallb f l = true -> take_while f l = l.
Proof.
  induction l as [|x l IH]; simpl; [reflexivity|]. intros H. apply andb_true_iff in H as [H1 H2].
  rewrite H1, IH by assumption. reflexivity.
Qed.

Lemma forallb_impl {A} (f g : A -> bool) l :
  (forall x, f x = true -> g x = true) -> forallb f l = true -> forallb g l = true.
Proof.
  intros Hi. induction l as [|x l IH]; simpl; [reflexivity|]. intros H. apply andb_true_iff in H as [H1 H2].
  rewrite (Hi x H1), IH by assumption. reflexivity.
Qed.

Lemma memN_false_forallb c l : forallb (fun x => negb (x =? c)) l = true -> memN c l = false.
Proof.
  induction l as [|x l IH]; simpl; [reflexivity|]. intros H. apply andb_true_iff in H as [H1 H2].
  rewrite IH by assumption. rewrite N.eqb_sym. apply negb_true_iff in H1. rewrite H1. reflexivity.
Qed.

Lemma clean_char_facts c :
  clean_char c = true ->
  negb (memN c url_unsafe) = true /\ negb (memN c netloc_delims) = true /\ negb (c =? 91) = true /\
  negb (c =? 93) = true /\ negb (c =? 32) = true /\ (c <? 256) = true.
Proof.
  unfold clean_char. intros H. apply andb_true_iff in H as [H H3]. apply andb_true_iff in H as [H1 H2].
  change url_unsafe with [9; 10; 13]. unfold netloc_delims. cbn [memN] in *.
  repeat split; lia.
Qed.

Lemma urlparse_own_origin v6 h :
  forallb clean_char h = true ->
  urlparse_m v6 (s_https ++ [58; 47; 47] ++ h) = PUrl s_https h.
Proof.
  intros Hc.
  assert (H1 : forallb (fun c => negb (memN c url_unsafe)) h = true)
    by (eapply forallb_impl; [|exact Hc]; intros x Hx; apply clean_char_facts in Hx; tauto).
  assert (H2 : forallb (fun c => negb (memN c netloc_delims)) h = true)
    by (eapply forallb_impl; [|exact Hc]; intros x Hx; apply clean_char_facts in Hx; tauto).
  assert (H3 : memN 91 h = false)
    by (apply memN_false_forallb; eapply forallb_impl; [|exact Hc]; intros x Hx; apply clean_char_facts in Hx; tauto).
  assert (H4 : memN 93 h = false)
    by (apply memN_false_forallb; eapply forallb_impl; [|exact Hc]; intros x Hx; apply clean_char_facts in Hx; tauto).
  assert (H5 : forallb (fun c => c <? 256) h = true)
    by (eapply forallb_impl; [|exact Hc]; intros x Hx; apply clean_char_facts in Hx; tauto).
  unfold urlparse_m.
  change (s_https ++ [58; 47; 47] ++ h) with (104 :: ([116; 116; 112; 115; 58; 47; 47] ++ h)).
  cbn [drop_while].
  assert (E0 : memN 104 url_c0 = false) by (vm_compute; reflexivity). rewrite E0.
  change (104 :: [116; 116; 112; 115; 58; 47; 47] ++ h) with ([104; 116; 116; 112; 115; 58; 47; 47] ++ h).
  rewrite filter_app, (filter_all _ h H1).
  assert (E1 : filter (fun c => negb (memN c url_unsafe)) [104; 116; 116; 112; 115; 58; 47; 47]
               = [104; 116; 116; 112; 115; 58; 47; 47]) by (vm_compute; reflexivity).
  rewrite E1.
  assert (E2 : split_scheme ([104; 116; 116; 112; 115; 58; 47; 47] ++ h) = (s_https, 47 :: 47 :: h)).
  { unfold split_scheme. cbn [app cut_at N.eqb Pos.eqb].
    assert (E3 : is_ascii_alpha 104 && forallb (fun c => memN c url_scheme_chars) [104; 116; 116; 112; 115] = true)
      by (vm_compute; reflexivity).
    rewrite E3. reflexivity. }
  rewrite E2.
  rewrite (take_while_all _ h H2), H3, H4. cbn [xorb andb].
  unfold checknetloc. rewrite H5. reflexivity.
Qed.

Lemma clean_no_space h : forallb clean_char h = true -> ~ In 32 h.
Proof.
  intros Hc Hin. rewrite forallb_forall in Hc. specialize (Hc 32 Hin). vm_compute in Hc. discriminate.
Qed.

(* on https, `Origin: https://<own host>` passes the origin check whatever else is configured *)
Lemma own_origin_accepted pr settings caller allow r :
  req_scheme r = s_https ->
  header_get s_origin_hdr r = Some (s_https ++ [58; 47; 47] ++ spec_own_host r) ->
  clean_host (spec_own_host r) = true ->
  fst (check_csrf_origin_p pr settings caller allow r) = OPass.
Proof.
  intros Hs Ho Hc. apply origin_pass_iff.
  unfold clean_host in Hc. apply andb_true_iff in Hc as [Hc Hne]. apply andb_true_iff in Hc as [Hc Hl].
  apply text_eqb_eq in Hl.
  unfold spec_origin_ok. rewrite Hs, text_eqb_refl.
  unfold spec_claim. rewrite Ho.
  set (own := spec_own_host r) in *.
  assert (Hnosp : ~ In 32 (s_https ++ [58; 47; 47] ++ own)).
  { intros Hin. apply in_app_or in Hin as [Hin|Hin]; [vm_compute in Hin; intuition discriminate|].
    apply in_app_or in Hin as [Hin|Hin]; [vm_compute in Hin; intuition discriminate|].
    exact (clean_no_space own Hc Hin). }
  rewrite (split_on_nosep_id 32 _ Hnosp). cbn [last].
  change (s_https ++ [58; 47; 47] ++ own) with (104 :: ([116; 116; 112; 115; 58; 47; 47] ++ own)).
  cbn [is_empty]. 
  assert (En : text_eqb (104 :: [116; 116; 112; 115; 58; 47; 47] ++ own) s_null = false) by reflexivity.
  rewrite En.
  change (104 :: [116; 116; 112; 115; 58; 47; 47] ++ own) with (s_https ++ [58; 47; 47] ++ own).
  rewrite (urlparse_own_origin _ own Hc), text_eqb_refl. cbn [andb].
  unfold spec_trusted. fold own. cbn [existsb].
  assert (Hd : domain_matches own own = true).
  { unfold domain_matches. rewrite Hl, Hne, text_eqb_refl. reflexivity. }
  rewrite Hd. reflexivity.
Qed.

(* ... and with the stored token it reaches the body *)
Lemma same_origin_request_runs c r :
  wf_tokens c r = true ->
  req_scheme r = s_https ->
  header_get s_origin_hdr r = Some (s_https ++ [58; 47; 47] ++ spec_own_host r) ->
  clean_host (spec_own_host r) = true ->
  spec_token_ok (c_storage c) (o_token (spec_effective c)) (o_header (spec_effective c)) r = true ->
  view_outcome c r = Ran.
Proof.
  intros Hwf Hs Ho Hc Ht. apply csrf_gate; [exact Hwf|].
  unfold spec_runs. destruct (spec_checked c r); [|reflexivity].
  rewrite Ht, andb_true_r.
  destruct (o_check_origin (spec_effective c)); [|reflexivity].
  apply (origin_pass_iff (the_params (c_storage c))). apply own_origin_accepted; assumption.
Qed.

(* ------------------------------------------------------------------ the QUERY_STRING environ entry is never read *)
Lemma lookup_map_other k k0 v l :
  text_eqb k k0 = false ->
  lookup k (map (fun kv : text * text => if text_eqb (fst kv) k0 then (k0, v) else kv) l) = lookup k l.
Proof.
  intros Hk. induction l as [|[k' v'] l IH]; [reflexivity|]. cbn [map fst].
  destruct (text_eqb_spec k' k0) as [->|Hne].
  - cbn [lookup]. rewrite Hk. exact IH.
  - cbn [lookup]. rewrite IH. reflexivity.
Qed.

Lemma env_get_qs k r v :
  text_eqb k k_QUERY_STRING = false -> env_get k (with_query_string r v) = env_get k r.
Proof. intros H. unfold env_get, with_query_string. cbn [r_env]. apply lookup_map_other. exact H. Qed.

Lemma trans_name_not_qs h : text_eqb (trans_name h) k_QUERY_STRING = false.
Proof.
  unfold trans_name.
  destruct (text_eqb (upper h) lit_CONTENT_TYPE_hdr); [reflexivity|].
  destruct (text_eqb (upper h) lit_CONTENT_LENGTH_hdr); reflexivity.
Qed.

Lemma header_get_qs h r v : header_get h (with_query_string r v) = header_get h r.
Proof. unfold header_get. apply env_get_qs. apply trans_name_not_qs. Qed.

Lemma req_scheme_qs r v : req_scheme (with_query_string r v) = req_scheme r.
Proof. unfold req_scheme. rewrite env_get_qs by reflexivity. reflexivity. Qed.
Lemma req_method_qs r v : req_method (with_query_string r v) = req_method r.
Proof. unfold req_method. rewrite env_get_qs by reflexivity. reflexivity. Qed.
Lemma req_host_qs r v : req_host (with_query_string r v) = req_host r.
Proof. unfold req_host. rewrite !env_get_qs by reflexivity. reflexivity. Qed.
Lemma req_domain_qs r v : req_domain (with_query_string r v) = req_domain r.
Proof. unfold req_domain. rewrite req_host_qs. reflexivity. Qed.
Lemma req_host_port_qs r v : req_host_port (with_query_string r v) = req_host_port r.
Proof. unfold req_host_port. rewrite !env_get_qs by reflexivity. rewrite req_scheme_qs. reflexivity. Qed.
Lemma own_host_qs r v : own_host (with_query_string r v) = own_host r.
Proof. unfold own_host. rewrite req_host_port_qs, req_domain_qs. reflexivity. Qed.
Lemma claimed_origin_qs r v : claimed_origin (with_query_string r v) = claimed_origin r.
Proof. unfold claimed_origin. rewrite header_get_qs, env_get_qs by reflexivity. reflexivity. Qed.

Lemma check_origin_qs pr settings caller allow r v :
  check_csrf_origin_p pr settings caller allow (with_query_string r v) = check_csrf_origin_p pr settings caller allow r.
Proof.
  unfold check_csrf_origin_p. rewrite req_scheme_qs, claimed_origin_qs, own_host_qs. reflexivity.
Qed.

Lemma check_token_qs pr s token header r v :
  check_csrf_token_p pr s token header (with_query_string r v) = check_csrf_token_p pr s token header r.
Proof.
  unfold check_csrf_token_p, policy_check, supplied_token, expected_token.
  destruct header as [h|]; [rewrite header_get_qs|]; reflexivity.
Qed.

Lemma query_string_never_read pr c r v : view_outcome_p pr c (with_query_string r v) = view_outcome_p pr c r.
Proof.
  unfold view_outcome_p, checks_apply. rewrite req_method_qs, check_origin_qs, check_token_qs. reflexivity.
Qed.

Lemma declaration_order_irrelevant pr c b r :
  view_outcome_p pr (with_defaults_first c b) r = view_outcome_p pr c r.
Proof.
  unfold view_outcome_p, checks_apply, csrf_enabled. rewrite effective_order_irrelevant. reflexivity.
Qed.

(* ------------------------------------------------------------------ round 6: the view option at two levels; positional order *)
Lemma explicit_is_spec cls call : explicit_of cls call = spec_explicit cls call.
Proof. destruct cls, call; reflexivity. Qed.

(* whatever the call passes wins over the class default -- an explicit None included *)
Lemma call_level_wins cls v : explicit_of cls (Some v) = v.
Proof. reflexivity. Qed.

Lemma class_level_only_when_call_silent cls : explicit_of cls None = match cls with Some v => v | None => None end.
Proof. reflexivity. Qed.

(* a class-level opt-out (or opt-in) is void when the call passes require_csrf=None: the configured default decides,
   both in the code's `enabled` and in the documented rule *)
Lemma call_none_hands_over_to_default c cls :
  c_explicit c = explicit_of cls (Some None) ->
  csrf_enabled c = spec_in_force c /\
  spec_in_force c = (o_require (spec_effective c) && negb (c_exception_only c)
                     && (truthy (o_token (spec_effective c)) || truthy (o_header (spec_effective c)))).
Proof.
  intros H. split; [apply enabled_is_in_force|]. unfold spec_in_force. rewrite H. reflexivity.
Qed.

(* ... while a call that says nothing leaves a class-level False in charge: not checked *)
Lemma class_opt_out_stands_when_call_silent pr c r :
  c_explicit c = explicit_of (Some (Some false)) None -> view_outcome_p pr c r = Ran.
Proof. intros H. apply opted_out_unchecked. exact H. Qed.

Lemma Facts_ok_positional : sdc_positional_order_ok = true.
Proof. vm_compute. reflexivity. Qed.

Lemma Facts_ok_plumbing : view_option_plumbing_ok = true.
Proof. vm_compute. reflexivity. Qed.

(* ------------------------------------------------------------------ round 7: the setting is read when the request is checked *)
Lemma origin_history_s_const pr settings caller allow rs :
  origin_history_s pr caller allow (map (fun r => (settings, r)) rs) = origin_history pr settings caller allow rs.
Proof.
  revert caller. induction rs as [|r rs IH]; intros caller; [reflexivity|].
  cbn [map origin_history_s origin_history].
  destruct (check_csrf_origin_p pr settings caller allow r) as [v c']. rewrite IH. reflexivity.
Qed.

(* every verdict of a sequence is the single-check verdict for that request and the settings in force AT THAT CHECK:
   neither earlier requests nor earlier values of the setting have any influence *)
Lemma settings_history_independent_p pr caller allow rs :
  p_copies pr = true \/ caller = None ->
  origin_history_s pr caller allow rs =
  (map (fun sr => fst (check_csrf_origin_p pr (fst sr) caller allow (snd sr))) rs, caller).
Proof.
  intros H. induction rs as [|[s r] rs IH]; [reflexivity|].
  cbn [origin_history_s map fst snd].
  pose proof (caller_list_unchanged pr s caller allow r H) as Hs.
  destruct (check_csrf_origin_p pr s caller allow r) as [v c']. cbn [fst snd] in *. subst c'.
  rewrite IH. reflexivity.
Qed.

Lemma settings_history_independent st caller allow rs :
  origin_history_s (the_params st) caller allow rs =
  (map (fun sr => fst (check_csrf_origin_p (the_params st) (fst sr) caller allow (snd sr))) rs, caller).
Proof. apply settings_history_independent_p. left. apply the_params_ok. Qed.

(* the wrapper's verdict under changed settings is the gate for the settings in force now *)
Lemma gate_under_current_settings c s r :
  wf_tokens (with_settings c s) r = true ->
  (view_outcome (with_settings c s) r = Ran <-> spec_runs (with_settings c s) r = true).
Proof. apply csrf_gate. Qed.

(* only the origin clause reads the setting: options, enabling, token comparison are untouched by it *)
Lemma settings_only_feed_origin_check c s r :
  effective (with_settings c s) = effective c /\ checks_apply (with_settings c s) r = checks_apply c r /\
  wf_tokens (with_settings c s) r = wf_tokens c r.
Proof. repeat split. Qed.

(* a trusted origin that has been revoked is refused from the next request on (and one that was added is accepted) *)
Lemma revoked_origin_refused pr c s r :
  checks_apply c r = true -> o_check_origin (effective c) = true ->
  spec_origin_ok s None (o_allow_no_origin (effective c)) r = false ->
  view_outcome_p pr (with_settings c s) r <> Ran.
Proof.
  intros Hck Hco Hno Hr. apply body_never_runs_on_failure in Hr.
  unfold spec_runs in Hr. rewrite <- checks_apply_is_checked in Hr.
  change (checks_apply (with_settings c s) r) with (checks_apply c r) in Hr. rewrite Hck in Hr.
  rewrite <- !effective_is_spec in Hr. change (effective (with_settings c s)) with (effective c) in Hr.
  rewrite Hco in Hr. cbn [c_settings with_settings] in Hr. rewrite Hno in Hr. discriminate.
Qed.

(* ------------------------------------------------------------------ last round: exception / Not Found / Forbidden views *)
Lemma Facts_ok_special : special_views_opt_out = true.
Proof. vm_compute. reflexivity. Qed.

(* a view registered through add_exception_view / add_notfound_view / add_forbidden_view is never checked: whatever the
   default options, the method, the origin, the token *)
Lemma special_views_never_checked pr c r : c_explicit c = special_explicit -> view_outcome_p pr c r = Ran.
Proof. apply opted_out_unchecked. Qed.

(* ... and in general an exception view is checked only when told to: require_csrf=True on its own registration *)
Lemma exception_view_checked_only_when_told pr c r :
  c_exception_only c = true -> view_outcome_p pr c r <> Ran -> c_explicit c = Some true.
Proof.
  intros He Hn. destruct (c_explicit c) as [[|]|] eqn:Ex; [reflexivity| |];
    exfalso; apply Hn; apply exception_view_default_unchecked; try exact He; rewrite Ex; discriminate.
Qed.

(* the converse is not vacuous: told to, an exception view does reject (spec and code agree on the gate) *)
Lemma exception_view_told_is_gated c r :
  c_exception_only c = true -> c_explicit c = Some true -> wf_tokens c r = true ->
  (view_outcome c r = Ran <-> spec_runs c r = true).
Proof. intros _ _. apply csrf_gate. Qed.
