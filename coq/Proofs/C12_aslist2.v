(* C12 -- the aslist model splits exactly at whitespace (proof-only round 3): the items are the MAXIMAL whitespace-free
   runs of each input string.  Stated as an exact inverse: a string laid out as
       pre  t0  sep1 t1  sep2 t2 ... post      (pre/post/sep_i whitespace, sep_i non-empty, t_i non-empty whitespace-free)
   splits into exactly [t0; t1; t2; ...]. *)
From Coq Require Import List NArith ZArith Bool.
Import ListNotations.
Require Import Verif.Lib.Wire Verif.Lib.Text Verif.Gen.Facts_C12 Verif.Model.C12 Verif.Proofs.C12_aslist.
Open Scope N_scope.

Definition isws (c : N) : bool := memN c py_whitespace.

(* splitting distributes over a whitespace character *)
Lemma split_at_ws w b : isws w = true -> forall a cur, py_split (a ++ w :: b) cur = py_split a cur ++ py_split b [].
Proof.
  intros Hw. unfold isws in Hw. induction a as [|c a IH]; intros cur.
  - cbn [app py_split]. rewrite Hw. destruct cur; reflexivity.
  - cbn [app py_split]. destruct (memN c py_whitespace).
    + destruct cur as [|x cur]; cbn [is_empty]; rewrite IH; reflexivity.
    + apply IH.
Qed.

Lemma leading_ws pre b : forallb isws pre = true -> py_split (pre ++ b) [] = py_split b [].
Proof.
  induction pre as [|c pre IH]; intros H; [reflexivity|]. cbn [forallb] in H. apply andb_prop in H as [H1 H2].
  cbn [app py_split]. unfold isws in H1. rewrite H1. cbn [is_empty]. apply IH. exact H2.
Qed.

(* a whitespace-free string is one item (none when empty) *)
Lemma token_general t : forallb nonws t = true -> forall cur,
  py_split t cur = match rev cur ++ t with [] => [] | x => [x] end.
Proof.
  induction t as [|c t IH]; intros H cur.
  - cbn [py_split]. rewrite app_nil_r. destruct cur as [|x cur]; cbn [is_empty]; [reflexivity|].
    destruct (rev (x :: cur)) eqn:E; [|reflexivity].
    apply (f_equal (@length N)) in E. rewrite rev_length in E. discriminate.
  - cbn [forallb] in H. apply andb_prop in H as [H1 H2]. cbn [py_split].
    unfold nonws in H1. destruct (memN c py_whitespace); [discriminate|].
    rewrite (IH H2). cbn [rev]. rewrite <- app_assoc. reflexivity.
Qed.

Lemma token_alone t : t <> [] -> forallb nonws t = true -> py_split t [] = [t].
Proof. intros Hne H. rewrite (token_general t H). cbn [rev app]. destruct t; [contradiction|reflexivity]. Qed.

Lemma trailing_ws a post : forallb isws post = true -> py_split (a ++ post) [] = py_split a [].
Proof.
  intros H. destruct post as [|w post]; [rewrite app_nil_r; reflexivity|].
  cbn [forallb] in H. apply andb_prop in H as [H1 H2].
  rewrite (split_at_ws w post H1). rewrite <- (app_nil_r post), (leading_ws post [] H2). cbn [py_split is_empty].
  apply app_nil_r.
Qed.

(* the layout after the first token: (separator, token) pairs *)
Definition tail_layout (rest : list (text * text)) : text := concat (map (fun p => fst p ++ snd p) rest).
Definition good_token (t : text) : Prop := t <> [] /\ forallb nonws t = true.
Definition good_sep (s : text) : Prop := s <> [] /\ forallb isws s = true.

Theorem split_is_inverse_of_layout : forall rest pre t0 post,
  forallb isws pre = true -> forallb isws post = true -> good_token t0 ->
  Forall (fun p => good_sep (fst p) /\ good_token (snd p)) rest ->
  py_split (pre ++ t0 ++ tail_layout rest ++ post) [] = t0 :: map snd rest.
Proof.
  induction rest as [|[sep t1] rest IH]; intros pre t0 post Hpre Hpost [Hne Ht] Hr.
  - rewrite (leading_ws pre _ Hpre). cbn [tail_layout map concat app].
    rewrite (trailing_ws t0 post Hpost). apply token_alone; assumption.
  - inversion Hr as [|? ? [[Hsne Hs] Ht1] Hr']; subst. cbn [fst snd] in *.
    rewrite (leading_ws pre _ Hpre). unfold tail_layout. cbn [map concat fst snd].
    destruct sep as [|w sep]; [contradiction|]. cbn [forallb] in Hs. apply andb_prop in Hs as [Hw Hs].
    rewrite <- ?app_assoc. cbn [app].
    change (concat (map (fun p : text * text => fst p ++ snd p) rest)) with (tail_layout rest).
    rewrite (split_at_ws w _ Hw). rewrite (token_alone t0 Hne Ht). cbn [app map snd]. f_equal.
    apply IH; assumption.
Qed.

(* only whitespace: nothing *)
Lemma split_blank s : forallb isws s = true -> py_split s [] = [].
Proof. intros H. rewrite <- (app_nil_r s), (leading_ws s [] H). reflexivity. Qed.

(* non-vacuity: "\n a.b \t .c" = pre "\n " t0 "a.b" sep " \t " t1 ".c" post "" *)
Example ex_layout :
  py_split ([10; 32] ++ [97; 46; 98] ++ tail_layout [([32; 9; 32], [46; 99])] ++ []) [] = [[97; 46; 98]; [46; 99]].
Proof. vm_compute. reflexivity. Qed.
