(* C16 -- end to end for the REGENERATED program: what the application wrote -> gen_init (with gen_resolve_asset_spec, and for
   add_static_view gen_make_spec + gen_static_add_spec) -> gen_call: every file-system access lies at or below the designated
   directory.  And, made explicit: containment also holds when an X-VHM-ROOT header starting with the bare view selector
   '@@' replaces request.subpath by the rest of the virtual root. *)
From Coq Require Import List NArith ZArith PeanoNat Bool Lia.
Import ListNotations.
Require Import Verif.Lib.Wire Verif.Lib.Text Verif.Lib.PathNorm Verif.Lib.Utf8 Verif.Lib.Percent Verif.Lib.C16Posix
               Verif.Gen.Facts_C16 Verif.Model.C16 Verif.Model.C16_prims Verif.Gen.Facts_C16_gen
               Verif.Proofs.C16 Verif.Proofs.C16_b Verif.Proofs.C16_gen Verif.Proofs.C16_c.
Open Scope N_scope.

(* the view instance the regenerated code creates for a setup: directly (static_view(root_dir, package_name=..) called by
   the module of package s_caller), or through add_static_view (Configurator._make_spec, StaticURLInfo.add, then
   static_view(spec, use_subpath=True, ..) called by pyramid.config) *)
Definition created_view (s : setup) (encmap : list (text * text)) (use_subpath : bool) : view_inst :=
  let b := s_base s in
  match c_mount b with
  | 0 => gen_init encmap pyramid_config_pkg (gen_static_add_spec (gen_make_spec (s_caller s) (s_root s))) None true
                  default_index (c_reload b) (c_encs b)
  | _ => gen_init encmap (s_caller s) (s_root s) (s_pname s) use_subpath (c_index b) (c_reload b) (c_encs b)
  end.

(* the configuration the request functions see, read off the instance attributes (`if self.package_name:` is truthiness) *)
Definition view_config (s : setup) (v : view_inst) : config :=
  match v_package_name v with
  | Some (x :: p) => with_root (s_base s) true (v_docroot v) (mod_lookup (s_mods s) (x :: p))
  | _ => with_root (s_base s) false (v_docroot v) []
  end.

Lemma created_view_root s encmap us :
  (v_package_name (created_view s encmap us), v_docroot (created_view s encmap us)) = view_root s.
Proof.
  unfold created_view, view_root. destruct (c_mount (s_base s)).
  - rewrite gen_make_spec_is_model, gen_static_add_spec_is_model.
    exact (proj1 (gen_init_spec _ _ _ _ _ _ _ _)).
  - exact (proj1 (gen_init_spec _ _ _ _ _ _ _ _)).
Qed.

Theorem created_view_config s encmap us : view_config s (created_view s encmap us) = configure s.
Proof.
  unfold view_config, configure. pose proof (created_view_root s encmap us) as E.
  destruct (view_root s) as [pn d]. injection E as -> ->. reflexivity.
Qed.

(* END TO END, regenerated program: one call of the regenerated __call__ on the instance the regenerated constructor
   built from what was written, any request, any filemap history that respects the root: every os.stat / open is at or
   below the designated directory, and the filemap keeps respecting it *)
Theorem gen_end_to_end_contained s fs encmap us rq pi b sub fm :
  wf_setup s -> is_dir (walk fs [] (os_resolve (designated_dir s))) = true ->
  let c := view_config s (created_view s encmap us) in
  fm_ok c fm ->
  forallb (fun e => beneath (os_resolve (designated_dir s)) (snd e)) (snd (gen_call c rq pi fs b sub fm)) = true /\
  fm_ok c (snd (fst (gen_call c rq pi fs b sub fm))).
Proof.
  intros Hwf Hdir c Hfm. subst c. rewrite created_view_config in *.
  pose proof (configured_root s (proj1 Hwf)) as ER.
  assert (Hroot : root_is_dir (configure s) fs) by (unfold root_is_dir; rewrite ER; exact Hdir).
  destruct (gen_call_contained (configure s) rq pi fs b sub fm (configured_wf s Hwf) Hroot Hfm) as [Hc Hf].
  split; [|exact Hf]. unfold contained in Hc. rewrite ER in Hc. exact Hc.
Qed.

(* X-VHM-ROOT beginning with the bare selector '@@' on a route mounting: request.subpath is the rest of the virtual root
   (GOverride) -- the specification is silent about WHICH file that designates, but the access stays inside the root *)
Theorem vroot_override_contained c fs fm rq t :
  wf c -> root_is_dir c fs -> fm_ok c fm -> vroot_gate c = Datatypes.inr (GOverride t) ->
  contained c (snd (run_request c fs fm rq)) = true /\ fm_ok c (snd (fst (run_request c fs fm rq))).
Proof.
  intros Hwf Hroot Hfm _. destruct (run_request c fs fm rq) as [[r fm'] log] eqn:E.
  exact (run_request_contained_g c fs fm rq r fm' log Hwf Hroot Hfm E).
Qed.

(* ... and what is served there is the answer to the rest of the virtual root, for every URL of the route *)
Theorem vroot_override_serves c fs fm rq t p0 :
  routed_by_route (c_mount c) = true -> decode (unquote (r_raw rq)) = Some p0 ->
  vroot_gate c = Datatypes.inr (GOverride t) -> route_matches c p0 = true ->
  run_request c fs fm rq = serve c rq (unquote (r_raw rq)) fs fm t.
Proof. intros Hr Hd Hg Hm. unfold run_request. rewrite Hr, Hd, Hg, Hm. reflexivity. Qed.

(* non-vacuity: add_static_view(path="s") by package "q" (-> /n/s); the regenerated constructor + __call__ probe /n/s/f *)
Example gen_end_to_end_nonvacuous :
  let s := ex_setup 0 [115] None in
  let c := view_config s (created_view s [] true) in
  c = configure s /\ c_docroot c = [115; 47] /\
  snd (gen_call c (mkReq [] [] [] false []) [47; 115; 47; 102] [] true [[102]] []) <> [] /\
  forallb (fun e => beneath [[110]; [115]] (snd e))
          (snd (gen_call c (mkReq [] [] [] false []) [47; 115; 47; 102] [] true [[102]] [])) = true.
Proof. cbv zeta. split; [apply created_view_config|]. split; [vm_compute; reflexivity|]. split; [vm_compute; discriminate|vm_compute; reflexivity]. Qed.

(* non-vacuity of the override: catch-all route, X-VHM-ROOT "/@@/x" *)
Example vroot_override_nonvacuous :
  let c := mkConfig 1 [115] false [47; 114] [] [105] [[103]] [([46; 103], [103])] [104] [47] false (Some [47; 64; 64; 47; 120]) in
  wf c /\ root_is_dir c ex_fs /\ vroot_gate c = Datatypes.inr (GOverride [[120]]).
Proof.
  cbv zeta. split; [|split; vm_compute; reflexivity].
  left. refine (conj eq_refl (conj eq_refl (conj _ (conj _ (conj _ _))))).
  - apply notin_b; vm_compute; reflexivity.
  - apply normal_segb_spec; vm_compute; reflexivity.
  - apply notin_b; vm_compute; reflexivity.
  - constructor; [|constructor]. split; apply notin_b; vm_compute; reflexivity.
Qed.

(* ------------------------------------------------------------ end to end, conformance of the regenerated program *)
Lemma spec_tail_with_root c b1 d1 m1 b2 d2 m2 rq fs dec segs :
  spec_root (with_root c b1 d1 m1) = spec_root (with_root c b2 d2 m2) ->
  spec_tail (with_root c b1 d1 m1) rq fs dec segs = spec_tail (with_root c b2 d2 m2) rq fs dec segs.
Proof. intros E. unfold spec_tail, spec_serve. rewrite E. reflexivity. Qed.

Lemma spec_tail_configured s rq fs dec segs :
  setup_ok s -> spec_tail (configure s) rq fs dec segs = spec_tail (spec_config s) rq fs dec segs.
Proof.
  intros Hok. pose proof (configured_root s Hok) as ER. unfold configure, spec_config in *.
  destruct (view_root s) as [[[|x p]|] d]; apply spec_tail_with_root; rewrite ER; reflexivity.
Qed.

(* configuration as written -> gen_init -> gen_call: the answer (returned or raised) conforms to the specification whose
   root is the DESIGNATED directory -- the designated file, its index, the add-slash redirect, a smallest acceptable
   variant, or 404 --, for the path tuple the view obtains either way, and the filemap stays exact *)
Theorem gen_end_to_end_conform s fs encmap us rq pi b sub fm p t :
  wf_setup s -> is_dir (walk fs [] (os_resolve (designated_dir s))) = true -> host_ok (s_base s) ->
  let c := view_config s (created_view s encmap us) in
  fm_exact c fs fm -> decode pi = Some p -> gen_tuple b pi sub = Some t ->
  conforms (out_resp (fst (fst (gen_call c rq pi fs b sub fm))))
           (if forallb seg_ok t then spec_tail (spec_config s) rq fs (Some p) t else S404) = true /\
  fm_exact c fs (snd (fst (gen_call c rq pi fs b sub fm))).
Proof.
  intros Hwf Hdir Hhost c Hfm Hdec Ht. subst c. rewrite created_view_config in *.
  pose proof (configured_root s (proj1 Hwf)) as ER.
  destruct (configure_fields s) as (_ & Eh & Es).
  assert (Hroot : root_is_dir (configure s) fs) by (unfold root_is_dir; rewrite ER; exact Hdir).
  assert (Hh : host_ok (configure s)) by (unfold host_ok in *; rewrite Eh, Es; exact Hhost).
  destruct (gen_call_conform (configure s) rq pi fs sub fm p t b (configured_wf s Hwf) Hroot Hh Hfm Hdec Ht) as [Hc Hf].
  split; [|exact Hf]. rewrite <- (spec_tail_configured s rq fs (Some p) t (proj1 Hwf)). exact Hc.
Qed.
