(* C02 -- end-to-end statement for a str-valued `traverse` entry (a {traverse} placeholder of the route pattern):
   the regenerated traverser walks the normalised captured text, whatever the traverse= option says. *)
From Coq Require Import List NArith ZArith Bool Lia.
Import ListNotations.
Require Import Verif.Lib.Wire Verif.Lib.Text Verif.Lib.PathNorm Verif.Lib.C02PathNorm Verif.Lib.Utf8
               Verif.Lib.C02Expr Verif.Gen.Facts_C02 Verif.Model.C02 Verif.Proofs.C02 Verif.Proofs.C02_memo
               Verif.Proofs.C02_gen Verif.Proofs.C02_e2e.
Close Scope N_scope.

Lemma path_of_md_str s pi sp :
  exists path sub, path_and_subpath (mkReq pi (Some (mkMd (Some (MStr s)) sp)) None) = Ok (path, sub) /\
                   gen_split_path_info path = gen_split_path_info s.
Proof.
  unfold path_and_subpath. cbn [q_matchdict md_traverse md_subpath].
  destruct s as [|c r]; cbn [mval_falsy]; eexists; eexists; (split; [reflexivity|]); reflexivity.
Qed.

Theorem md_str_resolves root s pi sp d :
  gen_call root (mkReq pi (Some (mkMd (Some (MStr s)) sp)) None) = Ok d ->
  exists ctx consumed rest,
    walk_outcome root (gen_split_path_info s) ctx consumed rest /\
    t_context d = fst ctx /\ t_view_name d = view_name_of rest /\ t_traversed d = consumed /\
    t_virtual_root d = fst root /\ t_virtual_root_path d = [] /\ t_root d = fst root.
Proof.
  intros H.
  destruct (gen_call_no_vroot_full root (mkReq pi (Some (mkMd (Some (MStr s)) sp)) None) d eq_refl H)
    as (path & sub & ctx & c & r & Hps & Hw & Hc & Hvn & _ & Htr & Hvr & Hvp & Hr).
  destruct (path_of_md_str s pi sp) as (path' & sub' & Hps' & Hs).
  rewrite Hps' in Hps. inversion Hps; subst path' sub'. rewrite Hs in Hw.
  exists ctx, c, r. repeat (split; [assumption|]). assumption.
Qed.

(* route match ({traverse} placeholder = the k-th '/'-piece of the decoded PATH_INFO) -> match dictionary -> traversal *)
Theorem route_str_to_resolution root decoded k opt pi sp d :
  gen_call root (mkReq pi (Some (mkMd (traverse_entry (Some (MStr (route_piece decoded k))) opt) sp)) None) = Ok d ->
  ~ In slash (route_piece decoded k) /\
  exists ctx consumed rest,
    walk_outcome root (gen_split_path_info (route_piece decoded k)) ctx consumed rest /\
    t_context d = fst ctx /\ t_view_name d = view_name_of rest /\ t_traversed d = consumed /\
    t_virtual_root d = fst root /\ t_virtual_root_path d = [] /\ t_root d = fst root.
Proof.
  intros H. split.
  - unfold route_piece. pose proof (split_on_no_sep slash decoded) as F.
    destruct (nth_in_or_default k (split_on slash decoded) []) as [Hin|E].
    + rewrite Forall_forall in F. exact (F _ Hin).
    + rewrite E. intros [].
  - rewrite traverse_entry_capture_wins in H. exact (md_str_resolves root _ pi sp d H).
Qed.

Example route_str_nonvacuous :
  route_piece [47; 121; 47; 97; 47; 98]%N 2 = ta /\
  gen_call ([], wit_tree)
    (mkReq None (Some (mkMd (traverse_entry (Some (MStr (route_piece [47; 121; 47; 97; 47; 98]%N 2))) (Some [tb])) None)) None)
  = Ok (mkT [0] [] [] [ta] [] [] []).
Proof. split; vm_compute; reflexivity. Qed.
