(* C06 -- extra elements without a remainder: when no placeholder's class contains '/', every path the
   pattern matches has exactly the slashes of its literals; appending anything that contains a '/' (the
   suffix route_url adds for extra elements after a path not ending in '/') makes the route NOT match
   its own URL. *)
From Coq Require Import List NArith ZArith Bool Lia.
Import ListNotations.
Require Import Verif.Lib.Wire Verif.Lib.Text Verif.Lib.PathNorm Verif.Lib.Utf8 Verif.Lib.Percent.
Require Verif.Gen.Facts_C01 Verif.Model.C01 Verif.Proofs.C01.
Require Import Verif.Gen.Facts_C17 Verif.Model.C17 Verif.Proofs.C17.
Require Import Verif.Gen.Facts_C06 Verif.Model.C06 Verif.Proofs.C06.
Open Scope N_scope.

Definition slashes (s : text) : nat := count_occ N.eq_dec s 47.

Definition slash_free (O : C01.oracle) (its : list C01.item) : bool :=
  forallb (fun i => match i with
                    | C01.Hole _ h => negb (C01.cls_mem O (C01.h_cls h) 47)
                    | C01.Lit _ => true
                    end) its.

Fixpoint lit_slashes (its : list C01.item) : nat :=
  match its with
  | [] => 0%nat
  | C01.Lit l :: r => (slashes l + lit_slashes r)%nat
  | C01.Hole _ _ :: r => lit_slashes r
  end.

(* whatever admissible values stand in the placeholders, the text has the slashes of the literals *)
Lemma render_slashes O its : forall caps,
  slash_free O its = true -> C01.caps_ok O None its caps = true ->
  slashes (C01.render its caps) = lit_slashes its.
Proof.
  induction its as [|[l|n h] r IH]; intros caps Hf Hc.
  - cbn [C01.caps_ok] in Hc. destruct caps; [reflexivity|discriminate].
  - cbn [slash_free forallb] in Hf. cbn [C01.caps_ok C01.render lit_slashes] in *.
    unfold slashes in *. rewrite count_occ_app. rewrite (IH caps Hf Hc). reflexivity.
  - cbn [slash_free forallb] in Hf. apply andb_true_iff in Hf. destruct Hf as [Hh Hf].
    cbn [C01.caps_ok C01.render lit_slashes] in *. destruct caps as [|v c]; [discriminate|].
    apply andb_true_iff in Hc. destruct Hc as [Hv Hc].
    unfold slashes in *. rewrite count_occ_app. rewrite (IH c Hf Hc).
    assert (E : count_occ N.eq_dec v 47 = 0%nat).
    { apply count_occ_not_In. intros Hin. unfold C01.hole_ok in Hv. apply andb_true_iff in Hv. destruct Hv as [_ Hall].
      rewrite forallb_forall in Hall. rewrite (Hall _ Hin) in Hh. discriminate. }
    rewrite E. reflexivity.
Qed.

(* the route does not match the path its own values give, followed by anything that contains a '/' *)
Theorem no_match_with_slash_suffix O its caps sfx :
  slash_free O its = true -> C01.caps_ok O None its caps = true -> In 47 sfx ->
  C01.match_pat O (C01.mkPat its None) (C01.render its caps ++ sfx) = None.
Proof.
  intros Hf Hc Hin. rewrite C01.match_spec. unfold C01.spec_match. cbn [C01.star C01.items].
  destruct (C01.all_decs O None its (C01.render its caps ++ sfx)) as [|c' rest] eqn:Ed; [reflexivity|].
  exfalso.
  assert (Hi : In c' (C01.all_decs O None its (C01.render its caps ++ sfx))) by (rewrite Ed; left; reflexivity).
  apply C01.all_decs_char in Hi. destruct Hi as [Er Hc'].
  pose proof (render_slashes O its c' Hf Hc') as H1. pose proof (render_slashes O its caps Hf Hc) as H2.
  rewrite <- Er in H1. unfold slashes in *. rewrite count_occ_app, H2 in H1.
  apply (count_occ_In N.eq_dec) in Hin. lia.
Qed.

Lemma endswith_false_suffix_slash body ets : ets <> [] -> endswith_char 47 body = false ->
  In 47 (elements_suffix body ets).
Proof.
  intros Hn He. unfold elements_suffix. destruct ets; [contradiction|]. rewrite He. left. reflexivity.
Qed.

(* the form the TODO asked for: no remainder, '/'-free placeholder classes, a rendered path that does not end
   in '/', at least one extra element: the decoded path of route_url / route_path is not matched by the route *)
Theorem elements_without_remainder_no_match O its caps ets :
  slash_free O its = true -> C01.caps_ok O None its caps = true -> ets <> [] ->
  endswith_char 47 (C01.render its caps) = false ->
  C01.match_pat O (C01.mkPat its None)
    (C01.render its caps ++ elements_suffix (C01.render its caps) ets) = None.
Proof.
  intros Hf Hc Hn He. apply no_match_with_slash_suffix; try assumption.
  apply endswith_false_suffix_slash; assumption.
Qed.

(* non-vacuity: `/a/{x}` (default placeholder), x = 'v', one element 'e': /a/v/e is not matched;
   and the boundary: with a class that contains '/' ({x:.+}) the same path IS matched (x = 'v/e') *)
Definition nm_items : list C01.item := [C01.Lit [47; 97; 47]; C01.Hole [120] C01.spec_default_hole].
Definition nm_items_dot : list C01.item := [C01.Lit [47; 97; 47]; C01.Hole [120] (C01.mkHre C01.CDot 1 None)].
Definition nm_O : C01.oracle := C01.mkOracle (fun _ => false) (fun _ => false).

Example elements_no_match_example :
  slash_free nm_O nm_items = true /\ C01.caps_ok nm_O None nm_items [[118]] = true
  /\ endswith_char 47 (C01.render nm_items [[118]]) = false
  /\ C01.render nm_items [[118]] ++ elements_suffix (C01.render nm_items [[118]]) [[101]] = [47; 97; 47; 118; 47; 101]
  /\ slash_free nm_O nm_items_dot = false
  /\ C01.match_pat nm_O (C01.mkPat nm_items_dot None) [47; 97; 47; 118; 47; 101]
     = Some [([120], C01.MText [118; 47; 101])].
Proof. repeat split; vm_compute; reflexivity. Qed.
