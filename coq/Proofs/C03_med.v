(* C03: the registry invariant WITH accept= and the accept-aware winner theorem: per slot in
   specificity order, the acceptable media subsets by non-increasing quality, each sorted by order,
   then the plain views. *)
From Coq Require Import List NArith ZArith Bool Lia Sorting.Sorted Sorting.Permutation.
Import ListNotations.
Require Import Verif.Lib.Wire Verif.Lib.Text Verif.Gen.Facts_C03 Verif.Model.C03 Verif.Proofs.C03.

Definition plain (v : reg) : bool := match r_accept v with None => true | Some _ => false end.
Definition has_offer (k : text) (v : reg) : bool :=
  match r_accept v with Some o => text_eqb (o_full o) k | None => false end.

Definition list_ok2 (es : list entry) (l : list reg) : Prop :=
  Permutation (map e_view es) l /\ entries_sorted es /\ Forall entry_ok es.

Definition mv_ok2 (m : mview) (l : list reg) : Prop :=
  list_ok2 (mv_views m) (filter plain l)
  /\ NoDup (map fst (mv_media m))
  /\ (forall k s, In (k, s) (mv_media m) -> list_ok2 s (filter (has_offer k) l))
  /\ NoDup (map o_full (mv_accepts m))
  /\ (forall k, In k (map o_full (mv_accepts m)) <-> In k (map fst (mv_media m)))
  /\ (forall v o, In v l -> r_accept v = Some o -> In (o_full o) (map fst (mv_media m))).

Lemma list_ok2_snoc es l v :
  list_ok2 es l -> list_ok2 (isort entry_leb (es ++ [entry_of v])) (l ++ [v]).
Proof.
  intros (Hp & Hs & Hf). repeat split.
  - rewrite (Permutation_map e_view (isort_perm entry_leb (es ++ [entry_of v]))).
    rewrite map_app. simpl. apply Permutation_app; [assumption|reflexivity].
  - apply isort_sorted; [apply entry_leb_total|apply entry_leb_trans].
  - eapply Permutation_Forall; [apply Permutation_sym, isort_perm|].
    apply Forall_app. split; [assumption|]. constructor; [reflexivity|constructor].
Qed.

Lemma list_ok2_phash es l e : list_ok2 es l -> In e es -> In (e_view e) l /\ e_phash e = r_phash (e_view e).
Proof.
  intros (Hp & _ & Hf) He. split.
  - eapply Permutation_in; [exact Hp|]. apply in_map. assumption.
  - rewrite Forall_forall in Hf. pose proof (Hf e He) as Hok. unfold entry_ok in Hok.
    rewrite Hok at 1. reflexivity.
Qed.

Lemma assoc_some_in {B} k (m : list (text * B)) s : assoc k m = Some s -> In (k, s) m.
Proof.
  induction m as [|[k0 v0] m IH]; simpl; [discriminate|].
  destruct (text_eqb_spec k k0) as [->|]; [intros H; inversion H; auto|auto].
Qed.
Lemma assoc_none_keys {B} k (m : list (text * B)) : assoc k m = None -> ~ In k (map fst m).
Proof.
  induction m as [|[k0 v0] m IH]; simpl; [auto|].
  destruct (text_eqb_spec k k0) as [->|Hne]; [discriminate|]. intros H [E|Hin]; [congruence|]. exact (IH H Hin).
Qed.
Lemma assoc_in_nodup {B} k (m : list (text * B)) s : NoDup (map fst m) -> In (k, s) m -> assoc k m = Some s.
Proof.
  induction m as [|[k0 v0] m IH]; simpl; intros Hnd Hin; [destruct Hin|]. inversion Hnd; subst.
  destruct Hin as [E|Hin].
  - inversion E; subst. rewrite text_eqb_refl. reflexivity.
  - destruct (text_eqb_spec k k0) as [->|]; [|auto]. exfalso. apply H1. apply in_map_iff. exists (k0, s). auto.
Qed.

Lemma media_set_keys k v m k' : In k' (map fst (media_set k v m)) <-> k' = k \/ In k' (map fst m).
Proof.
  induction m as [|[k0 v0] m IH]; simpl; [intuition|].
  destruct (text_eqb_spec k k0) as [->|Hne]; simpl; [intuition|]. rewrite IH. intuition.
Qed.

Lemma media_set_nodup k v m : NoDup (map fst m) -> NoDup (map fst (media_set k v m)).
Proof.
  induction m as [|[k0 v0] m IH]; simpl; intros H; [repeat constructor; intros []|].
  inversion H; subst. destruct (text_eqb_spec k k0) as [->|Hne]; simpl; [constructor; assumption|].
  constructor; [|auto]. rewrite media_set_keys. intros [E|Hin]; [congruence|contradiction].
Qed.

Lemma media_set_spec k v m k' s' :
  NoDup (map fst m) -> In (k', s') (media_set k v m) ->
  (k' = k /\ s' = v) \/ (k' <> k /\ In (k', s') m).
Proof.
  induction m as [|[k0 v0] m IH]; simpl; intros Hnd.
  - intros [H|[]]. inversion H; auto.
  - inversion Hnd; subst. destruct (text_eqb_spec k k0) as [->|Hne]; simpl.
    + intros [H|H]; [inversion H; auto|]. right. split; [|auto].
      intros ->. apply H1. apply in_map_iff. exists (k0, s'). auto.
    + intros [H|H]; [inversion H; subst; right; split; auto|].
      destruct (IH H2 H) as [?|[? ?]]; auto.
Qed.

Lemma media_set_has k v m : In (k, v) (media_set k v m).
Proof.
  induction m as [|[k0 v0] m IH]; simpl; [auto|].
  destruct (text_eqb_spec k k0); simpl; auto.
Qed.

Lemma offer_mem_iff a l : offer_mem a l = true <-> In (o_full a) (map o_full l).
Proof.
  unfold offer_mem. rewrite existsb_exists, in_map_iff. split.
  - intros (x & Hx & E). apply text_eqb_eq in E. eauto.
  - intros (x & E & Hx). exists x. split; [assumption|]. apply text_eqb_eq. assumption.
Qed.

Lemma sort_accept_perm offers order : Permutation (sort_accept_offers offers order) offers.
Proof. unfold sort_accept_offers. apply isort_perm. Qed.

Lemma Permutation_in_iff {A} (x : A) l l' : Permutation l l' -> (In x l <-> In x l').
Proof. intros H. split; apply Permutation_in; [assumption|apply Permutation_sym; assumption]. Qed.

Lemma filter_snoc {A} (f : A -> bool) l x : filter f (l ++ [x]) = filter f l ++ (if f x then [x] else []).
Proof. rewrite filter_app. simpl. destruct (f x); reflexivity. Qed.

Lemma mv_ok2_empty : mv_ok2 mv_empty [].
Proof.
  unfold mv_ok2, list_ok2; simpl. repeat split; try constructor; try tauto; intros; contradiction.
Qed.

(* adding a registration whose phash occurs nowhere in the MultiView *)
Lemma mv_add_ok2 m l v ao :
  mv_ok2 m l -> (forall w, In w l -> r_phash w <> r_phash v) ->
  mv_ok2 (mv_add m v (r_order v) (r_phash v) (r_accept v) ao) (l ++ [v]).
Proof.
  intros (Hv & Hnd & Hsub & Hna & Hiff & Hall) Hne.
  assert (Hrep : forall es l', list_ok2 es l' -> (forall w, In w l' -> In w l) ->
                               replace_phash (r_phash v) (r_order v, v, r_phash v) es = None).
  { intros es l' Hok Hsubl. apply replace_phash_none. intros e He E.
    destruct (list_ok2_phash _ _ _ Hok He) as [Hin Hp]. apply (Hne (e_view e)); [auto|congruence]. }
  unfold mv_add. rewrite (Hrep _ _ Hv) by (intros w Hw; apply filter_In in Hw; tauto).
  destruct (r_accept v) as [a|] eqn:Ea.
  - (* a media view *)
    set (k0 := o_full a).
    set (subset := match assoc k0 (mv_media m) with Some s => s | None => [] end).
    assert (Hsubset : list_ok2 subset (filter (has_offer k0) l)).
    { unfold subset. destruct (assoc k0 (mv_media m)) as [s|] eqn:Eas.
      - apply Hsub. apply assoc_some_in. assumption.
      - assert (Hemp : filter (has_offer k0) l = []).
        { destruct (filter (has_offer k0) l) as [|w t] eqn:Ef; [reflexivity|exfalso].
          assert (Hw : In w (filter (has_offer k0) l)) by (rewrite Ef; simpl; auto).
          apply filter_In in Hw. destruct Hw as [Hw1 Hw2]. unfold has_offer in Hw2.
          destruct (r_accept w) as [o|] eqn:Eo; [|discriminate]. apply text_eqb_eq in Hw2.
          apply (assoc_none_keys _ _ Eas). rewrite <- Hw2. eapply Hall; eassumption. }
        rewrite Hemp. repeat split; constructor. }
    rewrite (Hrep _ _ Hsubset) by (intros w Hw; apply filter_In in Hw; tauto).
    assert (Hplainv : plain v = false) by (unfold plain; rewrite Ea; reflexivity).
    assert (Hofv : forall k, has_offer k v = text_eqb k0 k) by (intros k; unfold has_offer; rewrite Ea; reflexivity).
    unfold mv_ok2. cbn [mv_views mv_media mv_accepts].
    split; [|split; [|split; [|split; [|split]]]].
    + rewrite filter_snoc, Hplainv, app_nil_r. assumption.
    + apply media_set_nodup. assumption.
    + intros k s Hks. apply (media_set_spec _ _ _ _ _ Hnd) in Hks. rewrite filter_snoc, Hofv.
      destruct Hks as [[-> ->]|[Hk Hks]].
      * rewrite text_eqb_refl. apply list_ok2_snoc. assumption.
      * destruct (text_eqb_spec k0 k) as [E|_]; [congruence|]. rewrite app_nil_r. auto.
    + eapply Permutation_NoDup; [apply Permutation_map, Permutation_sym, sort_accept_perm|].
      destruct (offer_mem a (mv_accepts m)) eqn:Em; [assumption|].
      rewrite map_app. simpl. apply NoDup_app_snoc; [assumption|].
      intros Hin. apply offer_mem_iff in Hin. congruence.
    + intros k. rewrite media_set_keys.
      rewrite (Permutation_in_iff k _ _ (Permutation_map o_full (sort_accept_perm _ _))).
      destruct (offer_mem a (mv_accepts m)) eqn:Em.
      * rewrite Hiff. split; [auto|]. intros [->|H]; [|assumption].
        apply Hiff. apply offer_mem_iff. assumption.
      * rewrite map_app, in_app_iff, Hiff. simpl. fold k0. intuition.
    + intros w o Hw Ho. rewrite media_set_keys. apply in_app_or in Hw. destruct Hw as [Hw|[<-|[]]].
      * right. eapply Hall; eassumption.
      * left. rewrite Ea in Ho. injection Ho as Hao. unfold k0. rewrite Hao. reflexivity.
  - (* a plain view *)
    assert (Hplainv : plain v = true) by (unfold plain; rewrite Ea; reflexivity).
    assert (Hofv : forall k, has_offer k v = false) by (intros k; unfold has_offer; rewrite Ea; reflexivity).
    unfold mv_ok2. cbn [mv_views mv_media mv_accepts].
    split; [|split; [|split; [|split; [|split]]]]; try assumption.
    + rewrite filter_snoc, Hplainv. apply list_ok2_snoc. assumption.
    + intros k s Hks. rewrite filter_snoc, Hofv, app_nil_r. auto.
    + intros w o Hw Ho. apply in_app_or in Hw. destruct Hw as [Hw|[<-|[]]]; [eauto|congruence].
Qed.

(* ================================================================== *)
(* the registry invariant with accept= (distinct (slot, phash) keys) *)

Definition slot_inv2 (R : registry) (s : slot) (l : list reg) : Prop :=
  match l with
  | [] => R s IView = None /\ R s ISecuredView = None /\ R s IMultiView = None
  | [v] => R s (vt_of v) = Some (CView v) /\ forall vt, vt <> vt_of v -> R s vt = None
  | _ => R s IView = None /\ R s ISecuredView = None
         /\ exists m, R s IMultiView = Some (CMulti m) /\ mv_ok2 m l
  end.
Definition inv2 (regs : list reg) (R : registry) : Prop := forall s, slot_inv2 R s (slot_regs regs s).

Lemma attr_accept_eq v : attr_accept v = r_accept v.
Proof. unfold attr_accept, attr_wrapped. destruct (r_accept v); simpl; [reflexivity|]. destruct (_ && _); reflexivity. Qed.

Lemma register_view_second2 ao R v o vt :
  R (r_slot v) (vt_of o) = Some (CView o) ->
  (forall vt, vt <> vt_of o -> R (r_slot v) vt = None) ->
  r_phash o <> r_phash v ->
  register_view ao R v (r_slot v) vt =
  match vt with
  | IMultiView => Some (CMulti (mv_add (mv_add mv_empty o (r_order o) (r_phash o) (r_accept o) None)
                                       v (r_order v) (r_phash v) (r_accept v) (Some ao)))
  | _ => None
  end.
Proof.
  intros H1 H2 Hne. unfold register_view. cbv zeta. rewrite register_view_types_ok.
  assert (Hf : first_registered R (r_slot v) [IView; ISecuredView; IMultiView] = Some (CView o)).
  { simpl. unfold vt_of in *. destruct (r_secured o).
    - rewrite (H2 IView) by discriminate. rewrite H1. reflexivity.
    - rewrite H1. reflexivity. }
  rewrite Hf. rewrite attr_phash_eq, attr_order_eq, attr_accept_eq. cbv beta iota.
  destruct (text_eqb_spec (r_phash o) (r_phash v)) as [E|_]; [contradiction|]. cbn [negb orb andb].
  apply unregister_views_at.
Qed.

Lemma register_view_multi2 ao R v m vt :
  R (r_slot v) IView = None -> R (r_slot v) ISecuredView = None ->
  R (r_slot v) IMultiView = Some (CMulti m) ->
  register_view ao R v (r_slot v) vt =
  match vt with
  | IMultiView => Some (CMulti (mv_add m v (r_order v) (r_phash v) (r_accept v) (Some ao)))
  | _ => None
  end.
Proof.
  intros H1 H2 H3. unfold register_view. cbv zeta.
  rewrite register_view_types_ok. cbn [first_registered].
  rewrite H1, H2, H3. cbv beta iota. cbn [negb orb andb]. apply unregister_views_at.
Qed.

Lemma inv2_step ao regs R v :
  inv2 regs R ->
  (forall w, In w regs -> r_slot w = r_slot v -> r_phash w <> r_phash v) ->
  inv2 (regs ++ [v]) (register_view ao R v).
Proof.
  intros Hinv Hk s.
  destruct (slot_eqb (r_slot v) s) eqn:Es.
  2:{ apply slot_eqb_neq in Es. rewrite slot_regs_snoc_other by assumption.
      specialize (Hinv s). unfold slot_inv2 in *.
      destruct (slot_regs regs s) as [|a [|b t]]; rewrite !register_view_other by assumption; try assumption.
      destruct Hinv as [H1 H2]. split; [assumption|]. intros vt Hvt. rewrite register_view_other by assumption. auto. }
  apply slot_eqb_eq in Es. subst s. rewrite slot_regs_snoc_same.
  specialize (Hinv (r_slot v)). unfold slot_inv2 in Hinv.
  assert (Hne : forall w, In w (slot_regs regs (r_slot v)) -> r_phash w <> r_phash v).
  { intros w Hw. apply slot_regs_in in Hw. destruct Hw. apply Hk; assumption. }
  destruct (slot_regs regs (r_slot v)) as [|o [|o2 t]] eqn:El.
  - destruct Hinv as (H1 & H2 & H3). exact (register_view_fresh ao R v H1 H2 H3).
  - destruct Hinv as (H1 & H2). change ([o] ++ [v]) with [o; v]. unfold slot_inv2.
    rewrite !(register_view_second2 ao R v o _ H1 H2 (Hne o (or_introl eq_refl))).
    split; [reflexivity|]. split; [reflexivity|]. eexists. split; [reflexivity|].
    apply (mv_add_ok2 _ [o] v); [|exact Hne].
    apply (mv_add_ok2 mv_empty [] o None mv_ok2_empty). intros w [].
  - destruct Hinv as (H1 & H2 & m & H3 & Hm).
    change ((o :: o2 :: t) ++ [v]) with (o :: o2 :: (t ++ [v])). unfold slot_inv2.
    rewrite !(register_view_multi2 ao R v m _ H1 H2 H3).
    split; [reflexivity|]. split; [reflexivity|]. eexists. split; [reflexivity|].
    change (o :: o2 :: t ++ [v]) with ((o :: o2 :: t) ++ [v]). apply mv_add_ok2; assumption.
Qed.

Lemma register_all_inv2 ao regs : NoDup (map key regs) -> inv2 regs (register_all ao regs).
Proof.
  induction regs as [|v regs IH] using rev_ind; intros Hnd; [intros s; simpl; auto|].
  unfold register_all. rewrite fold_left_app. simpl.
  rewrite map_app in Hnd. simpl in Hnd. apply NoDup_snoc in Hnd. destruct Hnd as [Hnd Hni].
  apply inv2_step; [apply IH; assumption|].
  intros w Hw Hs Hp. apply Hni. apply in_map_iff. exists w. split; [|assumption]. unfold key. congruence.
Qed.

(* ================================================================== *)
(* the order inside a slot, and the accept-aware winner theorem *)
Require Import Verif.Proofs.C03_acc.

(* w is tried strictly before x inside their common slot *)
Definition media_before (rq : request) (w x : reg) : bool :=
  match r_accept w, r_accept x with
  | Some ow, Some ox => if text_eqb (o_full ow) (o_full ox) then Z.ltb (r_order w) (r_order x)
                        else N.ltb (offer_q rq (o_full ox)) (offer_q rq (o_full ow))
  | Some ow, None => N.ltb 0 (offer_q rq (o_full ow))
  | None, Some _ => false
  | None, None => Z.ltb (r_order w) (r_order x)
  end.

Definition strictly_before (rq : request) (w x : reg) : bool :=
  precedes (q_req_sro rq) (s_req (r_slot w)) (s_req (r_slot x))
  || (N.eqb (s_req (r_slot w)) (s_req (r_slot x))
      && precedes (q_ctx_sro rq) (s_ctx (r_slot w)) (s_ctx (r_slot x)))
  || (slot_eqb (r_slot w) (r_slot x) && media_before rq w x).

(* accept= also adds the accept predicate (args_kw) *)
Definition accept_wf (v : reg) : Prop :=
  forall o, r_accept v = Some o -> In (PAccept [o_full o]) (r_preds v).

Lemma get_views_eq m rq :
  get_views m rq = flat_map (subset_of m) (acceptable_offers rq (mv_accepts m)) ++ mv_views m.
Proof. unfold get_views. destruct (mv_accepts m); reflexivity. Qed.

Lemma SSorted_with_nodup {A B} (R : A -> A -> Prop) (f : A -> B) l :
  StronglySorted R l -> NoDup (map f l) -> StronglySorted (fun a b => R a b /\ f a <> f b) l.
Proof.
  induction 1 as [|x l Hl IH Hx]; intros Hnd; simpl in *; constructor; inversion Hnd; subst.
  - auto.
  - rewrite Forall_forall in *. intros b Hb. split; [auto|]. intros E. apply H1. rewrite E. apply in_map. assumption.
Qed.

Lemma SSorted_FOP {A} (R : A -> A -> Prop) l : StronglySorted R l -> ForallOrdPairs R l.
Proof. induction 1; constructor; assumption. Qed.

Lemma flat_map_map {A B C} (g : B -> C) (f : A -> list B) l :
  map g (flat_map f l) = flat_map (fun x => map g (f x)) l.
Proof. induction l as [|x l IH]; simpl; [reflexivity|]. rewrite map_app, IH. reflexivity. Qed.

Lemma NoDup_map_filter_local {A B} (g : A -> B) (f : A -> bool) l : NoDup (map g l) -> NoDup (map g (filter f l)).
Proof.
  induction l as [|x l IH]; simpl; intros H; [constructor|]. inversion H; subst.
  destruct (f x); simpl; [|auto]. constructor; [|auto].
  intros Hin. apply in_map_iff in Hin. destruct Hin as (y & E & Hy). apply filter_In in Hy.
  apply H2. apply in_map_iff. exists y. tauto.
Qed.

Lemma mv_block m l rq :
  mv_ok2 m l ->
  let b := map e_view (get_views m rq) in
  (forall x, In x b -> In x l)
  /\ (forall x, In x l -> (plain x = true \/ exists o, r_accept x = Some o /\ (0 < offer_q rq (o_full o))%N) -> In x b)
  /\ StronglySorted (fun a b => media_before rq b a = false) b.
Proof.
  intros (Hv & Hnd & Hsub & Hna & Hiff & Hall) b. subst b. rewrite get_views_eq, map_app, flat_map_map.
  set (AO := acceptable_offers rq (mv_accepts m)).
  destruct (acceptable_offers_spec rq (mv_accepts m)) as [HAOin HAOs]. fold AO in HAOin, HAOs.
  assert (Hsubo : forall o, In o AO -> exists s, In (o_full o, s) (mv_media m) /\ subset_of m o = s).
  { intros o Ho. apply HAOin in Ho. destruct Ho as [Ho _].
    assert (Hk : In (o_full o) (map fst (mv_media m))) by (apply Hiff; apply in_map; assumption).
    apply in_map_iff in Hk. destruct Hk as ([k s] & Ek & Hks). simpl in Ek. subst k.
    exists s. split; [assumption|]. unfold subset_of. rewrite (assoc_in_nodup _ _ _ Hnd Hks). reflexivity. }
  assert (Hmem : forall o x, In o AO -> In x (map e_view (subset_of m o)) ->
                 In x l /\ exists ox, r_accept x = Some ox /\ o_full ox = o_full o).
  { intros o x Ho Hx. destruct (Hsubo o Ho) as (s & Hks & Es). rewrite Es in Hx.
    destruct (Hsub _ _ Hks) as (Hp & _ & _). apply (Permutation_in _ Hp) in Hx. apply filter_In in Hx.
    destruct Hx as [Hx1 Hx2]. split; [assumption|]. unfold has_offer in Hx2.
    destruct (r_accept x) as [ox|]; [|discriminate]. apply text_eqb_eq in Hx2. eauto. }
  destruct Hv as (Hvp & Hvs & Hvf).
  assert (Hplain : forall x, In x (map e_view (mv_views m)) -> In x l /\ r_accept x = None).
  { intros x Hx. apply (Permutation_in _ Hvp) in Hx. apply filter_In in Hx. destruct Hx as [Hx1 Hx2].
    split; [assumption|]. unfold plain in Hx2. destruct (r_accept x); [discriminate|reflexivity]. }
  split; [|split].
  - intros x Hx. apply in_app_or in Hx. destruct Hx as [Hx|Hx]; [|apply Hplain; assumption].
    apply in_flat_map in Hx. destruct Hx as (o & Ho & Hx). apply (Hmem o x Ho Hx).
  - intros x Hx [Hpl|(o & Ho & Hq)]; apply in_or_app.
    + right. apply (Permutation_in _ (Permutation_sym Hvp)). apply filter_In. auto.
    + left. assert (Hk : In (o_full o) (map o_full (mv_accepts m))) by (apply Hiff; eapply Hall; eassumption).
      apply in_map_iff in Hk. destruct Hk as (o' & Eo' & Ho').
      assert (HoAO : In o' AO) by (apply HAOin; split; [assumption|rewrite Eo'; assumption]).
      apply in_flat_map. exists o'. split; [assumption|].
      destruct (Hsubo o' HoAO) as (s & Hks & Es). rewrite Es.
      destruct (Hsub _ _ Hks) as (Hp & _ & _). apply (Permutation_in _ (Permutation_sym Hp)).
      apply filter_In. split; [assumption|]. unfold has_offer. rewrite Ho. apply text_eqb_eq. congruence.
  - apply SSorted_app.
    + apply SSorted_flat_map.
      * intros o Ho. destruct (Hsubo o Ho) as (s & Hks & Es). rewrite Es.
        destruct (Hsub _ _ Hks) as (Hp & Hs & Hf).
        eapply SSorted_weaken_in; [apply entries_sorted_by_order; eassumption|].
        intros a b Ha Hb Hab. rewrite <- Es in Ha, Hb.
        destruct (Hmem o a Ho Ha) as (_ & oa & Ea & Eoa). destruct (Hmem o b Ho Hb) as (_ & ob & Eb & Eob).
        unfold media_before. rewrite Ea, Eb.
        assert (E : text_eqb (o_full ob) (o_full oa) = true) by (apply text_eqb_eq; congruence).
        rewrite E. apply Z.ltb_ge. exact Hab.
      * assert (HndAO : NoDup (map o_full AO)).
        { unfold AO, acceptable_offers. eapply Permutation_NoDup; [apply Permutation_map, Permutation_sym, isort_perm|].
          apply NoDup_map_filter_local. assumption. }
        eapply FOP_weaken; [exact (SSorted_FOP _ _ (SSorted_with_nodup _ o_full _ HAOs HndAO))|].
        intros o1 o2 Ho1 Ho2 [Hq Hne] a b Ha Hb.
        destruct (Hmem o1 a Ho1 Ha) as (_ & oa & Ea & Eoa). destruct (Hmem o2 b Ho2 Hb) as (_ & ob & Eb & Eob).
        unfold media_before. rewrite Ea, Eb.
        assert (E : text_eqb (o_full ob) (o_full oa) = false) by (apply text_eqb_neq; congruence).
        rewrite E, Eoa, Eob. apply N.ltb_ge. exact Hq.
    + eapply SSorted_weaken_in; [apply entries_sorted_by_order; eassumption|].
      intros a b Ha Hb Hab. destruct (Hplain a Ha) as [_ Ea]. destruct (Hplain b Hb) as [_ Eb].
      unfold media_before. rewrite Ea, Eb. apply Z.ltb_ge. exact Hab.
    + intros a b Ha Hb. apply in_flat_map in Ha. destruct Ha as (o & Ho & Ha).
      destruct (Hmem o a Ho Ha) as (_ & oa & Ea & _). destruct (Hplain b Hb) as [_ Eb].
      unfold media_before. rewrite Ea, Eb. reflexivity.
Qed.

Definition reachable (rq : request) (x : reg) : Prop :=
  plain x = true \/ exists o, r_accept x = Some o /\ (0 < offer_q rq (o_full o))%N.

Lemma block_spec2 R s l rq :
  slot_inv2 R s l ->
  (forall x, In x (block R s rq) -> In x l)
  /\ (forall x, In x l -> reachable rq x -> In x (block R s rq))
  /\ StronglySorted (fun a b => media_before rq b a = false) (block R s rq).
Proof.
  unfold block. rewrite find_view_types_ok. cbn [flat_map]. unfold slot_inv2.
  destruct l as [|v [|v2 t]].
  - intros (H1 & H2 & H3). rewrite H1, H2, H3. simpl. repeat split; try constructor; intros x [].
  - intros (H1 & H2). unfold vt_of in *. destruct (r_secured v).
    + rewrite H1, (H2 IView), (H2 IMultiView) by discriminate. simpl. repeat split; auto; repeat constructor.
    + rewrite H1, (H2 ISecuredView), (H2 IMultiView) by discriminate. simpl. repeat split; auto; repeat constructor.
  - intros (H1 & H2 & m & H3 & Hm). rewrite H1, H2, H3. cbn [comp_regs app]. rewrite app_nil_r.
    exact (mv_block m _ rq Hm).
Qed.

Lemma strictly_before_irrefl rq x : strictly_before rq x x = false.
Proof.
  unfold strictly_before. rewrite !precedes_irrefl, andb_false_r. simpl. rewrite slot_eqb_refl. simpl.
  unfold media_before. destruct (r_accept x); [rewrite text_eqb_refl|]; apply Z.ltb_irrefl.
Qed.

Lemma tried_sorted2 regs R cls rq :
  inv2 regs R -> NoDup (q_req_sro rq) -> NoDup (q_ctx_sro rq) ->
  StronglySorted (fun a b => strictly_before rq b a = false) (tried R cls rq).
Proof.
  intros Hinv Hr Hc. rewrite tried_blocks. apply SSorted_flat_map.
  - intros [r c] _. simpl.
    destruct (block_spec2 R _ _ rq (Hinv (mkSlot cls r c (q_view_name rq)))) as (Hin & _ & Hs).
    eapply SSorted_weaken_in; [exact Hs|]. intros a b Ha Hb Hab.
    apply Hin, slot_regs_in in Ha. apply Hin, slot_regs_in in Hb.
    destruct Ha as [_ Ha2], Hb as [_ Hb2]. unfold strictly_before. rewrite Ha2, Hb2.
    rewrite !precedes_irrefl, andb_false_r. simpl. rewrite slot_eqb_refl. simpl. exact Hab.
  - eapply FOP_weaken; [exact (prod_order _ _ _ _ (precedes_order _ Hr) (precedes_order _ Hc))|].
    intros [r1 c1] [r2 c2] _ _ H a b Ha Hb. simpl in *.
    destruct (block_spec2 R _ _ rq (Hinv (mkSlot cls r1 c1 (q_view_name rq)))) as (Hin1 & _ & _).
    destruct (block_spec2 R _ _ rq (Hinv (mkSlot cls r2 c2 (q_view_name rq)))) as (Hin2 & _ & _).
    apply Hin1, slot_regs_in in Ha. apply Hin2, slot_regs_in in Hb.
    destruct Ha as [_ Ha], Hb as [_ Hb]. unfold strictly_before. rewrite Ha, Hb. simpl.
    destruct H as [[H1 H2]|[-> [H1 H2]]].
    + rewrite H1. simpl. assert (E : N.eqb r2 r1 = false) by (apply N.eqb_neq; congruence).
      rewrite E. simpl. unfold slot_eqb. simpl. rewrite E, !andb_false_r. reflexivity.
    + rewrite precedes_irrefl, N.eqb_refl, H1. simpl.
      assert (E : N.eqb c2 c1 = false) by (apply N.eqb_neq; congruence).
      unfold slot_eqb. simpl. rewrite E, !andb_false_r. reflexivity.
Qed.

(* the full-strength lookup theorem for the code as it is (accept= included, distinct keys):
   the body that runs belongs to a qualifying candidate before which no qualifying candidate is
   tried -- per slot in specificity order; inside a slot the acceptable media subsets by
   non-increasing quality, each by order, then the plain views by order.  Not Found exactly when no
   candidate qualifies. *)
Theorem lookup_winner_media ao regs cls rq :
  NoDup (map key regs) -> Forall accept_wf regs ->
  NoDup (q_req_sro rq) -> NoDup (q_ctx_sro rq) ->
  match call_view (register_all ao regs) cls rq with
  | Ran t => exists x, In x regs /\ r_tag x = t /\ candidate cls rq x = true
                       /\ forall w, In w regs -> candidate cls rq w = true -> strictly_before rq w x = false
  | _ => forall w, In w regs -> candidate cls rq w = false
  end.
Proof.
  intros Hnd Hwf Hr Hc.
  pose proof (register_all_inv2 ao regs Hnd) as Hinv. set (R := register_all ao regs) in *.
  pose proof (tried_sorted2 regs R cls rq Hinv Hr Hc) as Hsorted.
  pose proof (call_view_find R cls rq) as Hf.
  assert (Htin : forall x, In x (tried R cls rq) ->
            In x regs /\ s_cls (r_slot x) = cls /\ s_name (r_slot x) = q_view_name rq
            /\ In (s_req (r_slot x)) (q_req_sro rq) /\ In (s_ctx (r_slot x)) (q_ctx_sro rq)).
  { intros x Hx. rewrite tried_blocks in Hx. apply in_flat_map in Hx.
    destruct Hx as ([r c] & Hrc & Hx). simpl in Hx. apply in_prod_iff in Hrc.
    destruct (block_spec2 R _ _ rq (Hinv (mkSlot cls r c (q_view_name rq)))) as (Hin & _ & _).
    apply Hin, slot_regs_in in Hx. destruct Hx as [H1 H2]. rewrite H2. simpl. tauto. }
  assert (Hint : forall w, In w regs -> candidate cls rq w = true -> In w (tried R cls rq)).
  { intros w Hw Hcw. apply candidate_iff in Hcw. destruct Hcw as (W1 & W2 & W3 & W4 & W5).
    rewrite tried_blocks. apply in_flat_map.
    exists (s_req (r_slot w), s_ctx (r_slot w)). split; [apply in_prod; assumption|]. simpl.
    assert (Es : mkSlot cls (s_req (r_slot w)) (s_ctx (r_slot w)) (q_view_name rq) = r_slot w).
    { destruct (r_slot w); simpl in *; subst; reflexivity. }
    rewrite Es. destruct (block_spec2 R _ _ rq (Hinv (r_slot w))) as (_ & Hcomp & _).
    apply Hcomp; [apply slot_regs_in; auto|].
    unfold reachable, plain. destruct (r_accept w) as [o|] eqn:Eo; [right|left; reflexivity].
    exists o. split; [reflexivity|]. rewrite Forall_forall in Hwf. pose proof (Hwf w Hw o Eo) as Hacc.
    unfold qualifies in W5. rewrite forallb_forall in W5. specialize (W5 _ Hacc). simpl in W5.
    rewrite orb_false_r in W5. apply N.ltb_lt. exact W5. }
  destruct (find (qualifies rq) (tried R cls rq)) as [x|] eqn:Ef.
  - rewrite Hf. apply find_split in Ef. destruct Ef as (l1 & l2 & El & Hq & Hl1).
    assert (Hx : In x (tried R cls rq)) by (rewrite El; apply in_or_app; simpl; auto).
    destruct (Htin x Hx) as (Hx1 & Hx2 & Hx3 & Hx4 & Hx5).
    exists x. split; [assumption|]. split; [reflexivity|]. split; [apply candidate_iff; tauto|].
    intros w Hw1 Hw2. pose proof (Hint w Hw1 Hw2) as Hwt. rewrite El in Hwt.
    apply candidate_iff in Hw2. destruct Hw2 as (_ & _ & _ & _ & W5).
    apply in_app_or in Hwt. destruct Hwt as [Hwt|[<-|Hwt]].
    + rewrite (Hl1 w Hwt) in W5. discriminate.
    + apply strictly_before_irrefl.
    + rewrite El in Hsorted. exact (SSorted_split _ _ _ _ Hsorted w Hwt).
  - assert (G : forall w, In w regs -> candidate cls rq w = false).
    { intros w Hw1. destruct (candidate cls rq w) eqn:Hw2; [exfalso|reflexivity].
      pose proof (Hint w Hw1 Hw2) as Hwt. apply candidate_iff in Hw2. destruct Hw2 as (_ & _ & _ & _ & W5).
      rewrite (proj1 (find_none_iff _ _) Ef w Hwt) in W5. discriminate. }
    destruct Hf as [-> | ->]; exact G.
Qed.

(* registrations built by add_view satisfy accept_wf *)
Lemma assoc_app_last {B} k (l : list (text * B)) v : ~ In k (map fst l) -> assoc k (l ++ [(k, v)]) = Some v.
Proof.
  induction l as [|[k0 v0] l IH]; simpl; intros H; [rewrite text_eqb_refl; reflexivity|].
  destruct (text_eqb_spec k k0) as [->|]; [exfalso; auto|]. apply IH. auto.
Qed.

(* non-vacuity, on the witness of C03-accept-first: the hypotheses hold, the accept view (tag 9) is
   strictly before the two-predicate view (tag 8) in the code's order, and it is the one that runs *)
Require Import Verif.Proofs.C03_w.
Example lookup_winner_media_nonvacuous :
  NoDup (map key ex_regs_accept) /\ Forall accept_wf ex_regs_accept
  /\ NoDup (q_req_sro ex_rq) /\ NoDup (q_ctx_sro ex_rq)
  /\ call_view (register_all accept_order_default ex_regs_accept) view_classifier ex_rq = Ran 9
  /\ map (fun w => map (strictly_before ex_rq w) ex_regs_accept) ex_regs_accept = [[false; false]; [true; false]].
Proof.
  split. { unfold ex_regs_accept. nodup_tac. }
  split. { unfold ex_regs_accept. constructor; [|constructor; [|constructor]]; intros o H; simpl in H; inversion H; subst; simpl; auto. }
  split. { simpl. nodup_tac. }
  split. { simpl. nodup_tac. }
  vm_compute. split; reflexivity.
Qed.

(* ================================================================== *)
(* accept_wf is true of registrations as add_view makes them: accept= is handed to make as the
   accept predicate (args_kw), so the made predicate list contains PAccept [offer] -- provided the
   other keyword arguments do not themselves carry an accept key and accept is a registered name *)
Lemma make_vals_incl name n vals acc acc' p :
  make_vals name n vals acc = Some acc' -> In p (fst acc) -> In p (fst acc').
Proof.
  revert acc. induction vals as [|[nt v] vals IH]; intros acc H Hin; simpl in H.
  - inversion H; subst; assumption.
  - destruct (factory name v) as [q|]; simpl in H; [|discriminate].
    apply IH in H; [assumption|]. simpl. apply in_or_app. left; assumption.
Qed.

Lemma make_loop_incl names n kw acc acc' p :
  make_loop names n kw acc = Some acc' -> In p (fst acc) -> In p (fst acc').
Proof.
  revert n acc. induction names as [|name names IH]; intros n acc H Hin; simpl in H.
  - inversion H; subst; assumption.
  - destruct (assoc name kw) as [vals|].
    + destruct (make_vals name n vals acc) as [acc1|] eqn:E; simpl in H; [|discriminate].
      eapply IH; [exact H|]. eapply make_vals_incl; eassumption.
    + eapply IH; eassumption.
Qed.

Lemma make_loop_accept names n kw acc acc' o :
  In nm_accept names -> assoc nm_accept kw = Some [(false, VText o)] ->
  make_loop names n kw acc = Some acc' -> In (PAccept [o]) (fst acc').
Proof.
  revert n acc. induction names as [|name names IH]; intros n acc Hin Hk H; [contradiction|].
  simpl in H. destruct (text_eqb_spec name nm_accept) as [->|Hne].
  - rewrite Hk in H.
    assert (E : make_vals nm_accept n [(false, VText o)] acc
                = Some (fst acc ++ [PAccept [o]], snd acc ++ [weight n])) by reflexivity.
    rewrite E in H. simpl in H. eapply make_loop_incl; [exact H|]. simpl.
    apply in_or_app. right. left. reflexivity.
  - destruct Hin as [->|Hin]; [contradiction|].
    destruct (assoc name kw) as [vals|].
    + destruct (make_vals name n vals acc) as [acc1|]; simpl in H; [|discriminate]. eapply IH; eassumption.
    + eapply IH; eassumption.
Qed.

Lemma assoc_app_none {B} k (l1 l2 : list (text * B)) : assoc k l1 = None -> assoc k (l1 ++ l2) = assoc k l2.
Proof.
  induction l1 as [|[k' v] l1 IH]; simpl; intros H; [reflexivity|].
  destruct (text_eqb k k'); [discriminate|]. apply IH; assumption.
Qed.

Definition made_by_plain (names : list text) (v : reg) : Prop :=
  exists cls a, assoc nm_accept (a_kw a) = None /\ reg_of_args names cls a = Some v.

Lemma made_by_plain_made_by names v : made_by_plain names v -> made_by names v.
Proof. intros (cls & a & _ & H). exists cls, a. exact H. Qed.

Theorem made_by_accept_wf names v : In nm_accept names -> made_by_plain names v -> accept_wf v.
Proof.
  intros Hin (cls & a & Hk & H) o Ho. unfold reg_of_args in H.
  destruct (make names (args_kw a)) as [m|] eqn:E; simpl in H; [|discriminate].
  inversion H; subst v; clear H. simpl in Ho |- *.
  unfold make in E. destruct (forallb _ (args_kw a)); [|discriminate].
  destruct (make_loop names 0 (args_kw a) ([], [])) as [[preds ws]|] eqn:L; simpl in E; [|discriminate].
  inversion E; subst m; simpl.
  apply (make_loop_accept names 0%Z (args_kw a) ([], []) (preds, ws) (o_full o) Hin); [|exact L].
  unfold args_kw. rewrite Ho. rewrite (assoc_app_none _ _ _ Hk). simpl.
  try rewrite text_eqb_refl; reflexivity.
Qed.

(* the accept-aware lookup theorem for registrations as add_view makes them: the premise accept_wf is discharged *)
Theorem lookup_winner_media_made ao names regs cls rq :
  In nm_accept names -> Forall (made_by_plain names) regs ->
  NoDup (map key regs) -> NoDup (q_req_sro rq) -> NoDup (q_ctx_sro rq) ->
  match call_view (register_all ao regs) cls rq with
  | Ran t => exists x, In x regs /\ r_tag x = t /\ candidate cls rq x = true
                       /\ forall w, In w regs -> candidate cls rq w = true -> strictly_before rq w x = false
  | _ => forall w, In w regs -> candidate cls rq w = false
  end.
Proof.
  intros Hin Hm Hnd Hr Hc. apply lookup_winner_media; try assumption.
  eapply Forall_impl; [|exact Hm]. intros v. apply made_by_accept_wf; assumption.
Qed.

Example made_by_accept_wf_nonvacuous :
  In nm_accept pred_names /\
  exists v, made_by_plain pred_names v /\ r_accept v <> None.
Proof.
  split; [vm_compute; tauto|].
  set (o := mkOffer [116; 47; 104]%N [116; 47; 104]%N false).
  set (a := mkArgs 1%N 0%N [] [(nm_xhr, [(false, VBool true)])] (Some o) false 7%N).
  destruct (reg_of_args pred_names view_classifier a) as [v|] eqn:E; [|vm_compute in E; discriminate].
  exists v. split; [exists view_classifier, a; split; [reflexivity|exact E]|].
  vm_compute in E. inversion E; subst v. discriminate.
Qed.
