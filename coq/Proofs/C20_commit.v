(* C20 composed with the C04 commit model: which introspectables get
   registered is decided by which actions the commit EXECUTES. *)
From Coq Require Import List NArith ZArith Bool.
Import ListNotations.
Require Import Verif.Lib.Wire Verif.Lib.C20Types Verif.Gen.Facts_C20 Verif.Model.C20 Verif.Proofs.C20.
Require Verif.Model.C04.

Lemma in_run_ids a evs : In a (run_ids evs) <-> In (C04.Run a) evs.
Proof.
  unfold run_ids. rewrite in_flat_map. split.
  - intros ([b|b] & Hin & H); simpl in H; [destruct H as [<-|[]]; assumption|contradiction].
  - intros H. exists (C04.Run a). split; [assumption|left; reflexivity].
Qed.

(* an entry exists iff some EXECUTED action carried an introspectable with that
   key: a statement that was overridden through conflict resolution (no Run
   event: C04_commit_spec / C04_one_per_discriminator say which those are)
   leaves no entry of its own *)
Theorem entries_follow_executed_actions acts intrs_of s' c d :
  commit_and_register true acts intrs_of = Ok s' ->
  (lookup s' c d <> None <->
   exists a i rs, In (C04.Run a) (snd (C04.commit acts)) /\ In (i, rs) (intrs_of a)
                  /\ icat i = c /\ idisc i = d).
Proof.
  unfold commit_and_register. intros H.
  rewrite (only_executed_are_recorded _ _ c d H). split.
  - intros (i & rs & Hin & Hc & Hd). apply in_concat in Hin. destruct Hin as (l & Hl & Hi).
    apply in_map_iff in Hl. destruct Hl as (a & <- & Ha). apply in_run_ids in Ha.
    exists a, i, rs. auto.
  - intros (a & i & rs & Ha & Hi & Hc & Hd). exists i, rs. split; [|auto].
    apply in_concat. exists (intrs_of a). split; [|assumption].
    apply in_map. apply in_run_ids. assumption.
Qed.

Corollary overridden_statement_has_no_entry acts intrs_of s' a i rs :
  commit_and_register true acts intrs_of = Ok s' ->
  In (i, rs) (intrs_of a) ->
  (forall b j rs', In (C04.Run b) (snd (C04.commit acts)) -> In (j, rs') (intrs_of b) ->
                   (icat j, idisc j) <> (icat i, idisc i)) ->
  lookup s' (icat i) (idisc i) = None.
Proof.
  intros H Hi Hno. destruct (lookup s' (icat i) (idisc i)) eqn:E; [|reflexivity].
  exfalso. assert (Hn : lookup s' (icat i) (idisc i) <> None) by congruence.
  apply (entries_follow_executed_actions _ _ _ _ _ H) in Hn.
  destruct Hn as (b & j & rs' & Hb & Hj & Hc & Hd). apply (Hno b j rs' Hb Hj). congruence.
Qed.

Theorem disabled_commit_records_nothing acts intrs_of :
  commit_and_register false acts intrs_of = Ok init.
Proof. reflexivity. Qed.
