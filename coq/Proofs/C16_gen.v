(* C16 -- the program REGENERATED from src/pyramid/static.py on this run
   (Gen/Facts_C16_gen.v) equals the hand-written reference model (Model/C16.v), for
   all inputs; the property theorems are then restated about the regenerated program.

   The scripts never mention the text of the generated terms: straight-line
   methods are unfolded down to the monad and case-split on whatever [if] / option
   [match] they contain; loops are taken apart by pattern ([?F l acc]) and proved
   by one induction per loop.  They are insensitive to the names of locals, to
   nesting / order of tests, to temporaries; they fail when some valuation of the
   atoms leads the regenerated program to another result, trace or filemap. *)
From Coq Require Import List NArith ZArith PeanoNat Bool Lia.
Import ListNotations.
Require Import Verif.Lib.Wire Verif.Lib.Text Verif.Lib.PathNorm Verif.Lib.Utf8 Verif.Lib.C16Posix
               Verif.Gen.Facts_C16 Verif.Model.C16 Verif.Model.C16_prims Verif.Gen.Facts_C16_gen
               Verif.Proofs.C16 Verif.Proofs.C16_b.
Open Scope N_scope.

(* the regenerated literals and the literals the translator copied from the source are both closed terms:
   bring them to the same normal form *)
Ltac norm_facts :=
  unfold pkg_rstrip, pkg_fmt_sep, url_dir_suffix, redirect_append, redirect_qs_sep, secure_join_sep, char1 in *;
  cbn [hd app] in *.

Ltac monad0 :=
  norm_facts;
  unfold ebind, eret, eraise, lift, p_isdir, p_exists, p_path_url, p_view_tuple, p_sort_by_size, p_file_response,
         get_fm, set_fm, bind, ret, stat in *;
  cbn [fst snd app] in *.

(* ------------------------------------------------------------ add_slash_redirect *)
Definition asr_model (c : config) (rq : request) (pi : text) (fm : filemap) : M (outcome resp * filemap) :=
  match path_url c pi with
  | None => ((Raise (RExc 2), fm), [])
  | Some u => ((Val (redirect rq u), fm), [])
  end.

Theorem gen_add_slash_redirect_is_model c rq pi fm : gen_add_slash_redirect c rq pi fm = asr_model c rq pi fm.
Proof.
  unfold gen_add_slash_redirect, asr_model, redirect. monad0.
  destruct (path_url c pi) as [u|]; cbn [fst snd app]; [|reflexivity].
  destruct (r_qs rq) as [|q0 q]; cbn [nonempty_text fst snd app]; rewrite ?app_nil_r, <- ?app_assoc; reflexivity.
Qed.

(* calls of the regenerated add_slash_redirect are replaced by its model before the case analysis goes on *)
Ltac monad := monad0; rewrite ?gen_add_slash_redirect_is_model in *; unfold asr_model in *.

(* ------------------------------------------------------------ _compile_content_encodings *)
Theorem gen_compile_content_encodings_is_model encmap encs :
  gen_compile_content_encodings encmap encs = compile_encodings encs encmap.
Proof.
  unfold gen_compile_content_encodings, compile_encodings.
  match goal with
  | |- ?F encmap ?init = _ =>
      enough (H : forall l acc,
                F l acc = fold_left (fun res p => if mem_text (snd p) encs then compile_add res (snd p) (fst p) else res) l acc)
        by apply H
  end.
  induction l as [|x l IH]; intros acc; [reflexivity|]. cbn [fold_left].
  destruct (mem_text (snd x) encs); apply IH.
Qed.

(* ------------------------------------------------------------ asset.resolve_asset_spec, Configurator._make_spec,
   the spec normalisation of StaticURLInfo.add *)
Lemma split_once_none ch s : memN ch s = false -> split_once ch s = None.
Proof.
  induction s as [|x r IH]; [reflexivity|]. cbn [memN split_once]. rewrite N.eqb_sym.
  destruct (x =? ch); [discriminate|]. cbn [orb]. intros H. rewrite (IH H). reflexivity.
Qed.

Lemma split_once_some ch s : memN ch s = true -> exists p d, split_once ch s = Some (p, d).
Proof.
  induction s as [|x r IH]; [discriminate|]. cbn [memN split_once]. rewrite N.eqb_sym.
  destruct (x =? ch); [intros _; eexists; eexists; reflexivity|]. cbn [orb]. intros H.
  destruct (IH H) as (p & d & ->). eexists; eexists; reflexivity.
Qed.

Theorem gen_resolve_asset_spec_is_model spec pname :
  gen_resolve_asset_spec spec pname = resolve_asset_spec spec pname.
Proof.
  unfold gen_resolve_asset_spec, resolve_asset_spec, split1, colon, slash.
  repeat match goal with
         | |- context [if startswith ?a ?b then _ else _] => destruct (startswith a b)
         end; try reflexivity.
  destruct (memN 58 spec) eqn:E.
  - destruct (split_once_some _ _ E) as (p & d & ->). reflexivity.
  - rewrite (split_once_none _ _ E). destruct pname; reflexivity.
Qed.

Theorem gen_make_spec_is_model cfg_pkg path : gen_make_spec cfg_pkg path = make_spec path cfg_pkg.
Proof.
  unfold gen_make_spec, make_spec. rewrite !gen_resolve_asset_spec_is_model.
  destruct (resolve_asset_spec path (Some cfg_pkg)) as [[p|] f]; cbn [fst snd]; rewrite <- ?app_assoc; reflexivity.
Qed.

Theorem gen_static_add_spec_is_model spec : gen_static_add_spec spec = static_add_spec spec.
Proof.
  unfold gen_static_add_spec, static_add_spec. rewrite <- !endswith1. unfold slash, colon.
  repeat match goal with |- context [if endswith ?a ?b then _ else _] => destruct (endswith a b) end;
    cbn [orb negb]; reflexivity.
Qed.

(* ------------------------------------------------------------ __init__ *)
Theorem gen_init_is_model encmap caller root_dir package_name use_subpath index reload encs :
  gen_init encmap caller root_dir package_name use_subpath index reload encs =
  init_model encmap caller root_dir package_name use_subpath index reload encs.
Proof.
  unfold gen_init, init_model, init_root. rewrite ?gen_compile_content_encodings_is_model, ?gen_resolve_asset_spec_is_model.
  destruct package_name;
    repeat match goal with
           | |- context [match ?x with None => _ | Some _ => _ end] => destruct x
           | |- context [if ?b then _ else _] => destruct b
           end; reflexivity.
Qed.

(* what the regenerated __init__ binds: (package_name, docroot) are asset.resolve_asset_spec of what was written (the
   pair [configure] starts from), norm_docroot is normpath(docroot), index / reload / use_subpath are the arguments,
   content_encodings the compiled map, the filemap a fresh empty dict *)
Theorem gen_init_spec encmap caller root_dir package_name use_subpath index reload encs :
  let v := gen_init encmap caller root_dir package_name use_subpath index reload encs in
  (v_package_name v, v_docroot v) = init_root root_dir package_name caller /\
  v_norm_docroot v = normpath (v_docroot v) /\ v_use_subpath v = use_subpath /\ v_index v = index /\
  v_reload v = reload /\ v_encodings v = compile_encodings encs encmap /\ v_filemap v = [].
Proof.
  cbv zeta. rewrite gen_init_is_model. unfold init_model. cbn [v_package_name v_docroot v_norm_docroot v_use_subpath
    v_index v_reload v_encodings v_filemap].
  destruct (init_root root_dir package_name caller). repeat split.
Qed.

Ltac cases :=
  repeat (monad;
          match goal with
          | |- context [if ?b then _ else _] => destruct b eqn:?
          | |- context [match ?x with None => _ | Some _ => _ end] => destruct x eqn:?
          | |- context [match ?x with Datatypes.inl _ => _ | Datatypes.inr _ => _ end] => destruct x eqn:?
          end).

(* ------------------------------------------------------------ traversal.split_path_info *)
Lemma rev_removelast {A} (l : list A) : rev (removelast l) = tl (rev l).
Proof.
  destruct l as [|a l] using rev_ind; [reflexivity|].
  rewrite removelast_last, rev_unit. reflexivity.
Qed.

(* the regenerated loop keeps the clean list in order and appends; the reference model keeps it reversed *)
Theorem gen_split_path_info_is_model p : gen_split_path_info p = split_path_info_f p.
Proof.
  unfold gen_split_path_info, split_path_info_f.
  match goal with
  | |- ?F ?L (@nil text) = _ =>
      enough (H : forall l acc, F l acc = rev (fold_left spi_step_f l (rev acc))) by exact (H L [])
  end.
  induction l as [|x l IH]; intros acc; [cbn [fold_left]; symmetry; apply rev_involutive|].
  cbn [fold_left]. destruct x as [|ch x'].
  - cbn [nonempty_text spi_step_f text_eqb negb]. apply IH.
  - cbn [nonempty_text]. unfold spi_step_f at 2. unfold spi_skip, spi_pop.
    repeat match goal with
           | |- context [if text_eqb ?a ?b then _ else _] => let E := fresh "E" in destruct (text_eqb a b) eqn:E
           end;
    try (exfalso; repeat match goal with H : text_eqb _ _ = true |- _ => apply text_eqb_eq in H end; congruence);
    cbn [negb];
    first [ apply IH
          | rewrite IH, rev_unit; reflexivity
          | destruct acc as [|a acc _] using rev_ind;
            [ apply IH
            | replace (nonempty_list (acc ++ [a])) with true by (destruct acc; reflexivity);
              cbn [negb]; rewrite IH, rev_removelast; reflexivity ] ].
Qed.

Lemma gen_split_path_info_both p : gen_split_path_info p = split_path_info_f p /\ gen_split_path_info p = split_path_info p.
Proof. split; [apply gen_split_path_info_is_model|rewrite gen_split_path_info_is_model; reflexivity]. Qed.

(* the splitter the whole development reasons about (Lib/PathNorm.split_path_info) is the regenerated one *)
Corollary gen_split_path_info_is_lib p : gen_split_path_info p = split_path_info p.
Proof. rewrite gen_split_path_info_is_model. apply spi_f_is_spi. Qed.

(* ------------------------------------------------------------ _contains_invalid_element_char, _secure_path *)
Theorem gen_contains_invalid_is_model item : gen_contains_invalid item = contains_invalid_char item.
Proof.
  unfold gen_contains_invalid, contains_invalid_char.
  match goal with
  | |- ?F invalid_element_chars = _ =>
      enough (H : forall l, F l = existsb (fun ch => memN ch item) l) by apply H
  end.
  induction l as [|x l IH]; [reflexivity|]. cbn [existsb]. destruct (memN x item); [reflexivity|apply IH].
Qed.

Lemma existsb_pointwise {A} (f g : A -> bool) l : (forall x, f x = g x) -> existsb f l = existsb g l.
Proof. intros H. induction l as [|x l IH]; [reflexivity|]. cbn [existsb]. rewrite H, IH. reflexivity. Qed.

Theorem gen_secure_path_is_model t : gen_secure_path t = secure_path t.
Proof.
  unfold gen_secure_path, secure_path.
  repeat match goal with
         | |- context [existsb ?f t] =>
             lazymatch f with
             | contains_invalid_char => fail
             | _ => replace (existsb f t) with (existsb contains_invalid_char t)
                      by (symmetry; apply existsb_pointwise; intros; apply gen_contains_invalid_is_model)
             end
         end.
  repeat match goal with |- context [if ?b then _ else _] => destruct b end; reflexivity.
Qed.

(* ------------------------------------------------------------ find_resource_path *)
Definition frp_value (c : config) (fs : fsys) (n : text) : option text :=
  if exists_ (fs_stat fs (os_path c n)) then Some (os_path c n) else None.

Theorem gen_find_resource_path_is_model c fs n fm :
  gen_find_resource_path c fs n fm = ((Val (frp_value c fs n), fm), [(0, os_path c n)]).
Proof.
  unfold gen_find_resource_path, frp_value, os_path. cases; reflexivity.
Qed.

(* ------------------------------------------------------------ get_resource_name *)
Definition wrap_rn (x : M rn_result) (fm : filemap) : M (outcome text * filemap) :=
  ((match fst x with RNResp r => Raise r | RNName n => Val n end, fm), snd x).

Theorem gen_get_resource_name_subpath c rq pi fs sub fm :
  gen_get_resource_name c rq pi fs true sub fm = wrap_rn (get_resource_name c rq pi fs sub) fm.
Proof.
  unfold gen_get_resource_name, get_resource_name, wrap_rn. rewrite gen_secure_path_is_model.
  destruct (secure_path sub) as [path|]; unfold with_url, dir_or_redirect, redirect;
    cases; try reflexivity; try congruence;
    repeat match goal with H : Some _ = Some _ |- _ => injection H as <- end; reflexivity.
Qed.

Theorem gen_get_resource_name_path_info c rq pi fs sub fm :
  gen_get_resource_name c rq pi fs false sub fm =
  match view_tuple pi with
  | Datatypes.inl r => ((Raise r, fm), [])
  | Datatypes.inr t => wrap_rn (get_resource_name c rq pi fs t) fm
  end.
Proof.
  unfold gen_get_resource_name. unfold p_view_tuple, ebind at 1. 
  destruct (view_tuple pi) as [r|t]; [reflexivity|].
  unfold get_resource_name, wrap_rn. monad. rewrite gen_secure_path_is_model.
  destruct (secure_path t) as [path|]; unfold with_url, dir_or_redirect, redirect;
    cases; try reflexivity; try congruence;
    repeat match goal with H : Some _ = Some _ |- _ => injection H as <- end; reflexivity.
Qed.

(* ------------------------------------------------------------ find_best_match *)
Lemma file_encodings_in files p e : In (p, Some e) files -> In e (file_encodings files).
Proof.
  induction files as [|[p0 [e0|]] r IH]; cbn [file_encodings In]; [intros []| |].
  - intros [E|H]; [injection E as _ <-; left; reflexivity|right; auto].
  - intros [E|H]; [discriminate|auto].
Qed.

Lemma mem_text_false x l : ~ In x l -> mem_text x l = false.
Proof. intros H. destruct (mem_text x l) eqn:E; [apply mem_text_In in E; contradiction|reflexivity]. Qed.

Lemma acc_mem_ok rq files x :
  In x files -> acc_mem (snd x) (acc_add_none (acc_offers rq files)) = acceptable rq (snd x).
Proof.
  destruct x as [p [e|]]; intros Hin; cbn [snd acc_mem acc_add_none acc_offers fst acceptable]; [|reflexivity].
  destruct (mem_text e (r_ae_ok rq)) eqn:E.
  - apply mem_text_In. apply filter_In. split; [eapply file_encodings_in; eassumption|exact E].
  - apply mem_text_false. intros H. apply filter_In in H. destruct H as [_ H]. congruence.
Qed.

Definition bm_pair (o : option cand) : option text * option text :=
  match o with Some (p, e) => (Some p, e) | None => (None, None) end.

Theorem gen_find_best_match_is_model rq files :
  gen_find_best_match rq files = bm_pair (best_match rq files).
Proof.
  unfold gen_find_best_match, best_match. destruct (r_ae rq).
  - match goal with
    | |- ?F files = _ =>
        enough (H : forall l, incl l files -> F l = bm_pair (find (fun f => acceptable rq (snd f)) l))
          by (apply H; apply incl_refl)
    end.
    induction l as [|x l IH]; intros Hinc; [reflexivity|].
    assert (Hx : In x files) by (apply Hinc; left; reflexivity).
    assert (Hl : incl l files) by (intros y Hy; apply Hinc; right; assumption).
    cbn [find]. rewrite (acc_mem_ok rq files x Hx).
    destruct (acceptable rq (snd x)); [destruct x; reflexivity|apply IH; assumption].
  - induction files as [|[p [e|]] r IH];
      cbn [find is_identity is_none snd fst option_map bm_pair]; [reflexivity|exact IH|reflexivity].
Qed.

(* ------------------------------------------------------------ get_possible_files *)
Definition vcands (name : text) (L : list (text * list text)) : list cand :=
  flat_map (fun p => map (fun ext => (name ++ ext, Some (fst p))) (snd p)) L.
Definition pfound c fs l := fst (probe c fs l).
Definition plog c fs l := snd (probe c fs l).
Definition skeyed fs l := fst (sizes fs l).
Definition slog fs l := snd (sizes fs l).

Lemma probe_cons c fs n e r :
  pfound c fs ((n, e) :: r) =
    (if exists_ (fs_stat fs (os_path c n)) then [(os_path c n, e)] else []) ++ pfound c fs r /\
  plog c fs ((n, e) :: r) = (0, os_path c n) :: plog c fs r.
Proof.
  unfold pfound, plog. cbn [probe]. unfold bind, stat, ret. destruct (probe c fs r) as [f l]. cbn [fst snd].
  rewrite app_nil_r. destruct (exists_ (fs_stat fs (os_path c n))); split; reflexivity.
Qed.

Lemma probe_app c fs a b :
  pfound c fs (a ++ b) = pfound c fs a ++ pfound c fs b /\ plog c fs (a ++ b) = plog c fs a ++ plog c fs b.
Proof.
  unfold pfound, plog. induction a as [|[n e] a IH]; [split; reflexivity|].
  cbn [app probe]. unfold bind, stat, ret.
  destruct (probe c fs (a ++ b)) as [f l]. destruct (probe c fs a) as [fa la]. destruct (probe c fs b) as [fb lb].
  cbn [fst snd] in *. destruct IH as [-> ->].
  destruct (exists_ (fs_stat fs (os_path c n))); split; cbn [app]; rewrite ?app_nil_r; reflexivity.
Qed.

Lemma stat_nonempty fs p : exists_ (fs_stat fs p) = true -> nonempty_text p = true.
Proof. destruct p; [discriminate|reflexivity]. Qed.

(* what the function computes once the cache missed: [acc] are the files found so far *)
Definition gpf_rest (c : config) (fs : fsys) (name : text) (L : list (text * list text)) (acc : list cand)
           (fm : filemap) : M (outcome (list cand) * filemap) :=
  let all := acc ++ pfound c fs (vcands name L) in
  let files := map snd (sort_by (skeyed fs all)) in
  ((Val files, if c_reload c then fm else (name, files) :: fm), plog c fs (vcands name L) ++ slog fs all).

Definition xcands (name : text) (x : text * list text) (exts : list text) : list cand :=
  map (fun ext => (name ++ ext, Some (fst x))) exts.

Lemma vcands_cons name x LL : vcands name (x :: LL) = xcands name x (snd x) ++ vcands name LL.
Proof. reflexivity. Qed.

Lemma gpf_rest_cons c fs name x LL acc fm :
  gpf_rest c fs name (x :: LL) acc fm =
  ((fst (fst (gpf_rest c fs name LL (acc ++ pfound c fs (xcands name x (snd x))) fm)),
    snd (fst (gpf_rest c fs name LL (acc ++ pfound c fs (xcands name x (snd x))) fm))),
   plog c fs (xcands name x (snd x)) ++ snd (gpf_rest c fs name LL (acc ++ pfound c fs (xcands name x (snd x))) fm)).
Proof.
  unfold gpf_rest. rewrite vcands_cons.
  destruct (probe_app c fs (xcands name x (snd x)) (vcands name LL)) as [E1 E2].
  rewrite E1, E2, <- !app_assoc. reflexivity.
Qed.

Lemma xcands_cons name x e exts :
  xcands name x (e :: exts) = @cons cand (name ++ e, Some (fst x)) (xcands name x exts).
Proof. reflexivity. Qed.

Definition inner_spec c fs name (x : text * list text) LL (exts : list text) (acc : list cand) (fm : filemap)
  : M (outcome (list cand) * filemap) :=
  ((fst (fst (gpf_rest c fs name LL (acc ++ pfound c fs (xcands name x exts)) fm)),
    snd (fst (gpf_rest c fs name LL (acc ++ pfound c fs (xcands name x exts)) fm))),
   plog c fs (xcands name x exts) ++ snd (gpf_rest c fs name LL (acc ++ pfound c fs (xcands name x exts)) fm)).

Lemma inner_spec_nil c fs name x LL acc fm : inner_spec c fs name x LL [] acc fm = gpf_rest c fs name LL acc fm.
Proof.
  unfold inner_spec, xcands, pfound, plog. cbn [map probe ret fst snd app]. rewrite app_nil_r.
  destruct (gpf_rest c fs name LL acc fm) as [[o f] l]. reflexivity.
Qed.

Lemma inner_spec_cons c fs name x LL e exts acc fm :
  inner_spec c fs name x LL (e :: exts) acc fm =
  (fst (inner_spec c fs name x LL exts
          (if exists_ (fs_stat fs (os_path c (name ++ e))) then acc ++ [(os_path c (name ++ e), Some (fst x))] else acc) fm),
   (0, os_path c (name ++ e)) ::
   snd (inner_spec c fs name x LL exts
          (if exists_ (fs_stat fs (os_path c (name ++ e))) then acc ++ [(os_path c (name ++ e), Some (fst x))] else acc) fm)).
Proof.
  unfold inner_spec. rewrite xcands_cons.
  destruct (probe_cons c fs (name ++ e) (Some (fst x)) (xcands name x exts)) as [E1 E2].
  unfold cand, text in *. rewrite E1, E2.
  destruct (exists_ (fs_stat fs (os_path c (name ++ e)))); cbn [app fst snd]; rewrite <- ?app_assoc; reflexivity.
Qed.

Lemma gpf_rest_cons' c fs name x LL acc fm :
  gpf_rest c fs name (x :: LL) acc fm = inner_spec c fs name x LL (snd x) acc fm.
Proof. apply gpf_rest_cons. Qed.

Lemma sizes_pair fs l : sizes fs l = (skeyed fs l, slog fs l).
Proof. unfold skeyed, slog. destruct (sizes fs l); reflexivity. Qed.

Ltac gpf_loop c fs name :=
  let H := fresh "H" in let HI := fresh "HI" in let LL := fresh "LL" in let x := fresh "x" in
  let IH := fresh "IH" in let acc0 := fresh "acc" in let fm0 := fresh "fm" in let exts := fresh "exts" in
  let e := fresh "e" in let IHe := fresh "IHe" in let acc1 := fresh "acc" in let fm1 := fresh "fm" in
  let E1 := fresh "E" in let E2 := fresh "E" in let Ex := fresh "Ex" in
  match goal with
  | |- ?F ?L ?acc ?fm = _ =>
      enough (H : forall LL acc0 fm0, F LL acc0 fm0 = gpf_rest c fs name LL acc0 fm0) by apply H;
      intros LL; induction LL as [|x LL IH]; intros acc0 fm0;
      [ unfold gpf_rest, vcands, pfound, plog; cbn [flat_map probe ret fst snd app];
        monad; rewrite sizes_pair; cbn [fst snd]; rewrite ?app_nil_r;
        destruct (c_reload c); monad; rewrite ?app_nil_r; reflexivity
      | cbn beta iota;
        match goal with
        | |- ?G (snd x) acc0 fm0 = _ =>
            enough (HI : forall exts acc1 fm1, G exts acc1 fm1 = inner_spec c fs name x LL exts acc1 fm1);
            [ rewrite HI; symmetry; apply gpf_rest_cons'
            | intros exts; induction exts as [|e exts IHe]; intros acc1 fm1;
              [ cbn beta iota; rewrite IH; symmetry; apply inner_spec_nil
              | cbn beta iota; unfold ebind at 1; rewrite gen_find_resource_path_is_model;
                unfold bind; cbn [fst snd]; unfold frp_value; rewrite inner_spec_cons;
                destruct (exists_ (fs_stat fs (os_path c (name ++ e)))) eqn:Ex;
                [ rewrite (stat_nonempty _ _ Ex); rewrite IHe; cbn [app];
                  destruct (inner_spec c fs name x LL exts (acc1 ++ [(os_path c (name ++ e), Some (fst x))]) fm1);
                  reflexivity
                | rewrite IHe; cbn [app]; destruct (inner_spec c fs name x LL exts acc1 fm1); reflexivity ] ] ]
        end ]
  end.

Lemma let_shuffle {A} (X : A * logt) (e : N * text) :
  (let '(b, l2) := (let '(b, l2) := X in (b, [e] ++ l2)) in (b, l2)) = (let '(r, l) := X in (r, e :: l)).
Proof. destruct X; reflexivity. Qed.

Theorem gen_get_possible_files_is_model c fs name fm :
  gen_get_possible_files c fs name fm =
  ((Val (fst (fst (possible_files c fs fm name))), snd (fst (possible_files c fs fm name))),
   snd (possible_files c fs fm name)).
Proof.
  unfold gen_get_possible_files, possible_files.
  unfold ebind at 1, get_fm at 1. unfold bind at 1, ret at 1. cbn [fst snd app].
  destruct (fm_get fm name) as [files|]; [reflexivity|].
  unfold ebind at 1. rewrite gen_find_resource_path_is_model. unfold bind at 1. cbn [fst snd].
  assert (Hmodel : forall acc0,
            acc0 = (if exists_ (fs_stat fs (os_path c name)) then [(os_path c name, None)] else []) ->
            (let '(r, l) := gpf_rest c fs name (compile_encodings (c_encs c) (c_encmap c)) acc0 fm in
             (r, (0, os_path c name) :: l)) =
            ((Val (fst (fst (bind (compute_files c fs name)
                               (fun files => ret (files, if c_reload c then fm else (name, files) :: fm))))),
              snd (fst (bind (compute_files c fs name)
                               (fun files => ret (files, if c_reload c then fm else (name, files) :: fm))))),
             snd (bind (compute_files c fs name)
                       (fun files => ret (files, if c_reload c then fm else (name, files) :: fm))))).
  { intros acc0 ->. unfold gpf_rest, compute_files, candidates. fold (vcands name (compile_encodings (c_encs c) (c_encmap c))).
    unfold bind, ret.
    destruct (probe_cons c fs name None (vcands name (compile_encodings (c_encs c) (c_encmap c)))) as [E1 E2].
    unfold pfound, plog in E1, E2.
    destruct (probe c fs ((name, None) :: vcands name (compile_encodings (c_encs c) (c_encmap c)))) as [found lg].
    cbn [fst snd] in E1, E2. subst found lg. fold (pfound c fs (vcands name (compile_encodings (c_encs c) (c_encmap c)))).
    fold (plog c fs (vcands name (compile_encodings (c_encs c) (c_encmap c)))).
    rewrite sizes_pair. cbn [fst snd]. rewrite !app_nil_r. reflexivity. }
  unfold frp_value.
  destruct (exists_ (fs_stat fs (os_path c name))) eqn:Ex.
  - rewrite (stat_nonempty _ _ Ex). cbn [app].
    match goal with
    | |- context [?F (compile_encodings (c_encs c) (c_encmap c)) ?acc fm] =>
        replace (F (compile_encodings (c_encs c) (c_encmap c)) acc fm) with
          (gpf_rest c fs name (compile_encodings (c_encs c) (c_encmap c)) [(os_path c name, None)] fm)
          by (symmetry; gpf_loop c fs name)
    end.
    rewrite <- (Hmodel _ eq_refl).
    apply let_shuffle.
  - match goal with
    | |- context [?F (compile_encodings (c_encs c) (c_encmap c)) ?acc fm] =>
        replace (F (compile_encodings (c_encs c) (c_encmap c)) acc fm) with
          (gpf_rest c fs name (compile_encodings (c_encs c) (c_encmap c)) [] fm)
          by (symmetry; gpf_loop c fs name)
    end.
    rewrite <- (Hmodel _ eq_refl).
    apply let_shuffle.
Qed.

(* ------------------------------------------------------------ __call__ *)
Definition out_resp (o : outcome resp) : resp := match o with Val r => r | Raise r => r end.
Definition unwrap (x : M (outcome resp * filemap)) : M (resp * filemap) :=
  ((out_resp (fst (fst x)), snd (fst x)), snd x).

Definition to_out (b : bool) (r : resp) : outcome resp :=
  match r with R200 _ _ _ => Val (if b then set_vary r else r) | _ => Raise r end.

Lemma file_response_vary fs p enc b :
  (out_resp (to_out b (fst (file_response fs p enc false))), snd (file_response fs p enc false)) =
  file_response fs p enc b.
Proof.
  unfold file_response, bind, stat, ret. destruct (fs_stat fs p) as [[z body|z]|]; destruct b; reflexivity.
Qed.

Lemma serve_body c rq pi fs fm sub :
  serve c rq pi fs fm sub =
  (let '(rn, l1) := get_resource_name c rq pi fs sub in
   match rn with
   | RNResp r => ((r, fm), l1 ++ [])
   | RNName name =>
       let '(ff, l2) := possible_files c fs fm name in
       match best_match rq (fst ff) with
       | None => ((with_url c pi (R404 2), snd ff), l1 ++ l2 ++ [])
       | Some (p, enc) =>
           let '(r, l3) := file_response fs p enc (Nat.ltb 1 (length (fst ff))) in ((r, snd ff), l1 ++ l2 ++ l3 ++ [])
       end
   end).
Proof.
  unfold serve, bind, ret. destruct (get_resource_name c rq pi fs sub) as [[r|name] l1]; [reflexivity|].
  destruct (possible_files c fs fm name) as [ff l2]. destruct (best_match rq (fst ff)) as [[p enc]|]; [|reflexivity].
  destruct (file_response fs p enc _) as [r l3]. reflexivity.
Qed.

Definition res_out (r : resp) : outcome resp := match r with R200 _ _ _ => Val r | _ => Raise r end.
Definition rewrap (S : M (resp * filemap)) : M (outcome resp * filemap) :=
  ((res_out (fst (fst S)), snd (fst S)), snd S).

Lemma out_res_out r : out_resp (res_out r) = r.
Proof. destruct r; reflexivity. Qed.

Lemma grn_never_200 c rq pi fs t b e v l : get_resource_name c rq pi fs t <> (RNResp (R200 b e v), l).
Proof. apply grn_not_200. Qed.

Theorem gen_call_subpath_eq c rq pi fs sub fm :
  gen_call c rq pi fs true sub fm = rewrap (serve c rq pi fs fm sub).
Proof.
  unfold rewrap. rewrite serve_body. unfold gen_call.
  unfold ebind at 1. rewrite gen_get_resource_name_subpath. unfold wrap_rn, bind at 1.
  destruct (get_resource_name c rq pi fs sub) as [[r|name] l1] eqn:Eg; cbn [fst snd].
  - destruct r; try reflexivity. exfalso. eapply grn_never_200. exact Eg.
  - unfold ebind at 1. rewrite gen_get_possible_files_is_model. unfold bind at 1. cbn [fst snd].
    destruct (possible_files c fs fm name) as [[files fm1] l2]. cbn [fst snd].
    rewrite gen_find_best_match_is_model.
    destruct (best_match rq files) as [[p enc]|]; cbn [bm_pair fst snd].
    + pose proof (file_response_vary fs p enc (Nat.ltb 1 (length files))) as Hv.
      monad. destruct (file_response fs p enc false) as [r0 l0]. destruct (file_response fs p enc _) as [r1 l3].
      cbn [fst snd] in Hv. injection Hv as <- <-.
      destruct (Nat.ltb 1 (length files)); destruct r0;
        cbn [fst snd out_resp to_out res_out set_vary app]; rewrite ?app_nil_r; reflexivity.
    + unfold with_url. cases; cbn [fst snd res_out]; rewrite ?app_nil_r; reflexivity.
Qed.

Theorem gen_call_path_info_eq c rq pi fs sub fm :
  gen_call c rq pi fs false sub fm =
  match view_tuple pi with
  | Datatypes.inl r => ((Raise r, fm), [])
  | Datatypes.inr t => rewrap (serve c rq pi fs fm t)
  end.
Proof.
  destruct (view_tuple pi) as [r|t] eqn:Ev.
  - unfold gen_call, ebind. rewrite gen_get_resource_name_path_info, Ev. reflexivity.
  - rewrite <- (gen_call_subpath_eq c rq pi fs t fm). unfold gen_call, ebind.
    rewrite gen_get_resource_name_path_info, Ev, gen_get_resource_name_subpath. reflexivity.
Qed.

(* the response observed (returned or raised), the filemap afterwards and the trace are those of the model *)
Theorem gen_call_subpath c rq pi fs sub fm :
  unwrap (gen_call c rq pi fs true sub fm) = serve c rq pi fs fm sub.
Proof.
  rewrite gen_call_subpath_eq. unfold unwrap, rewrap. cbn [fst snd]. rewrite out_res_out.
  destruct (serve c rq pi fs fm sub) as [[r f] l]. reflexivity.
Qed.

(* ------------------------------------------------------------ the property theorems, about the regenerated program *)
Theorem gen_secure_path_spec t p :
  gen_secure_path t = Some p <->
  Forall (fun s => s <> [] /\ s <> [dot] /\ s <> [dot; dot] /\ ~ In slash s /\ ~ In 0 s) t /\ p = join [slash] t.
Proof. rewrite gen_secure_path_is_model. apply secure_path_spec. Qed.

Definition gen_tuple (use_subpath : bool) (pi : text) (sub : list text) : option (list text) :=
  if use_subpath then Some sub
  else match view_tuple pi with Datatypes.inl _ => None | Datatypes.inr t => Some t end.

Lemma gen_call_cases c rq pi fs b sub fm :
  match gen_tuple b pi sub with
  | Some t => gen_call c rq pi fs b sub fm = rewrap (serve c rq pi fs fm t)
  | None => exists r, gen_call c rq pi fs b sub fm = ((Raise r, fm), [])
  end.
Proof.
  unfold gen_tuple. destruct b.
  - apply gen_call_subpath_eq.
  - rewrite gen_call_path_info_eq. destruct (view_tuple pi) as [r|t]; [exists r; reflexivity|reflexivity].
Qed.

(* containment: whatever static_view.__call__ (as regenerated) hands to the file system lies at/below the root,
   and the filemap it leaves behind only holds such paths *)
Theorem gen_call_contained c rq pi fs b sub fm :
  wf c -> root_is_dir c fs -> fm_ok c fm ->
  contained c (snd (gen_call c rq pi fs b sub fm)) = true /\ fm_ok c (snd (fst (gen_call c rq pi fs b sub fm))).
Proof.
  intros Hwf Hroot Hfm. pose proof (gen_call_cases c rq pi fs b sub fm) as H.
  destruct (gen_tuple b pi sub) as [t|].
  - rewrite H. unfold rewrap. cbn [fst snd].
    destruct (serve c rq pi fs fm t) as [[r fm'] log] eqn:E. cbn [fst snd].
    exact (serve_contained_g c rq pi fs fm t r fm' log Hwf Hroot Hfm E).
  - destruct H as [r ->]. split; [reflexivity|assumption].
Qed.

(* conformance: the response returned or raised by the regenerated __call__ is one the specification allows *)
Theorem gen_call_conform c rq pi fs sub fm s t b :
  wf c -> root_is_dir c fs -> host_ok c -> fm_exact c fs fm -> decode pi = Some s ->
  gen_tuple b pi sub = Some t ->
  conforms (out_resp (fst (fst (gen_call c rq pi fs b sub fm))))
           (if forallb seg_ok t then spec_tail c rq fs (Some s) t else S404) = true /\
  fm_exact c fs (snd (fst (gen_call c rq pi fs b sub fm))).
Proof.
  intros Hwf Hroot Hhost Hfm Hdec Ht. pose proof (gen_call_cases c rq pi fs b sub fm) as H. rewrite Ht in H.
  rewrite H. unfold rewrap. cbn [fst snd]. rewrite out_res_out.
  destruct (serve c rq pi fs fm t) as [[r fm'] log] eqn:E. cbn [fst snd].
  destruct (serve_conform c rq pi fs fm t s r fm' log Hwf Hroot Hhost Hfm Hdec E) as [H1 H2]. split; assumption.
Qed.

(* filemap transparency of the regenerated __call__ *)
Theorem gen_call_transparent c rq pi fs b sub fm :
  fm_exact c fs fm ->
  out_resp (fst (fst (gen_call c rq pi fs b sub fm))) = out_resp (fst (fst (gen_call c rq pi fs b sub []))).
Proof.
  intros Hfm. destruct b.
  - rewrite !gen_call_subpath_eq. unfold rewrap. cbn [fst snd]. rewrite !out_res_out.
    exact (proj1 (serve_indep c rq pi fs fm sub Hfm)).
  - rewrite !gen_call_path_info_eq. destruct (view_tuple pi) as [r|t]; [reflexivity|].
    unfold rewrap. cbn [fst snd]. rewrite !out_res_out. exact (proj1 (serve_indep c rq pi fs fm t Hfm)).
Qed.

(* non-vacuity, computed by the regenerated program itself *)
Example c16_gen_nonvacuous :
  let c := ex_cfg 1 [47; 114] in
  gen_secure_path [[46; 46]; [115]] = None /\
  fst (fst (gen_call c (mkReq [] [] [] true [[103]]) [47; 102] ex_fs true [[102]] [])) = Val (R200 [9] (Some [103]) true) /\
  fst (fst (gen_call c (mkReq [] [] [] false []) [47; 46; 46; 47; 115] ex_fs true [[46; 46]; [115]] [])) = Raise (R404 1) /\
  fst (gen_find_best_match (mkReq [] [] [] false []) [([120], Some [103]); ([121], None)]) = Some [121].
Proof. vm_compute. repeat split. Qed.
