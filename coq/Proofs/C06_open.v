(* C06 -- the open specification: placeholders whose regular expression lies outside C01's
   sublanguage.  What the executable specification [spec_route_open] promises, that its reading of
   the pattern agrees with C01's where C01 reads the pattern, and that its hypothesis ("the supplied
   values are the only way of cutting the path along the pattern") is enough for the round trip
   through the MODELLED matcher: for modelled patterns the promise is a theorem. *)
From Coq Require Import List NArith ZArith Bool Lia.
Import ListNotations.
Require Import Verif.Lib.Wire Verif.Lib.Text Verif.Lib.PathNorm Verif.Lib.Utf8 Verif.Lib.Percent.
Require Verif.Gen.Facts_C01 Verif.Model.C01 Verif.Proofs.C01.
Require Import Verif.Gen.Facts_C17 Verif.Model.C17 Verif.Proofs.C17.
Require Import Verif.Gen.Facts_C06 Verif.Model.C06 Verif.Proofs.C06.
Open Scope N_scope.

(* the languages of a modelled pattern's placeholders, in order *)
Fixpoint hole_langs (O : C01.oracle) (its : list C01.item) : list (text -> bool) :=
  match its with
  | [] => []
  | C01.Lit _ :: r => hole_langs O r
  | C01.Hole _ h :: r => C01.hole_ok O h :: hole_langs O r
  end.

Definition same_lang (L L' : text -> bool) : Prop := forall v, L v = L' v.

(* with truthful languages the open enumeration is C01's *)
Lemma all_decs_open_faithful O st its : forall langs s,
  Forall2 same_lang langs (hole_langs O its) ->
  all_decs_open langs st its s = C01.all_decs O st its s.
Proof.
  induction its as [|[l|n h] r IH]; intros langs s HF; cbn [all_decs_open C01.all_decs hole_langs] in *.
  - reflexivity.
  - destruct (strip_prefix l s); auto.
  - inversion HF as [|L L' langs' ls' HL HF']; subst.
    apply flat_map_ext. intros k. cbv zeta. rewrite HL.
    destruct (C01.hole_ok O h (firstn k s)); [|reflexivity].
    f_equal. apply IH. exact HF'.
Qed.

Lemma same_lang_refl l : Forall2 same_lang l l.
Proof. induction l; constructor; auto. intros v. reflexivity. Qed.

Lemma caps_eqb_eq : forall a b, caps_eqb a b = true -> a = b.
Proof.
  unfold caps_eqb. induction a as [|x a IH]; intros [|y b] H; try reflexivity;
    apply andb_true_iff in H; destruct H as [Hl Hf]; cbn in Hl; try discriminate.
  cbn [combine forallb fst snd] in Hf. apply andb_true_iff in Hf. destruct Hf as [Hxy Hf].
  apply text_eqb_eq in Hxy. subst y. f_equal. apply IH. apply andb_true_iff. split; assumption.
Qed.

Lemma only_way_decs langs st its caps : only_way langs st its caps = true ->
  all_decs_open langs st its (C01.render its caps) = [caps].
Proof.
  unfold only_way. destruct (all_decs_open langs st its (C01.render its caps)) as [|c [|]]; try discriminate.
  intros H. apply caps_eqb_eq in H. subst c. reflexivity.
Qed.

(* the only way of cutting the path is what the compiled pattern finds *)
Theorem only_way_match O p caps :
  only_way (hole_langs O (C01.items p)) (C01.star p) (C01.items p) caps = true ->
  C01.match_pat O p (C01.render (C01.items p) caps) = Some (C01.mk_dict (C01.items p) (C01.star p) caps)
  /\ C01.caps_ok O (C01.star p) (C01.items p) caps = true.
Proof.
  intros H. apply only_way_decs in H.
  rewrite (all_decs_open_faithful O _ _ _ _ (same_lang_refl _)) in H.
  split.
  - rewrite C01.match_spec. unfold C01.spec_match. rewrite H. reflexivity.
  - assert (Hin : In caps (C01.all_decs O (C01.star p) (C01.items p) (C01.render (C01.items p) caps)))
      by (rewrite H; left; reflexivity).
    apply C01.all_decs_char in Hin. tauto.
Qed.

(* round trip under the weakest hypothesis: no separability condition, only "no other way" *)
Theorem route_roundtrip_only_way O p kw u caps :
  generate (to_pattern p) kw = Ok u -> u <> [] -> kw_caps p kw = Some caps ->
  only_way (hole_langs O (C01.items p)) (C01.star p) (C01.items p) caps = true ->
  exists d, spec_dict p kw = Some d /\ roundtrip O p kw = Some d.
Proof.
  intros Hg Hne Hk Ho. exists (C01.mk_dict (C01.items p) (C01.star p) caps).
  split; [apply spec_dict_mk; assumption|]. unfold roundtrip. rewrite Hg.
  destruct (generate_decodes _ _ _ Hg) as (caps' & Hk' & Hv & Hq & Hu & Hd).
  rewrite Hk in Hk'. inversion Hk'; subst caps'. clear Hk'.
  unfold match_back, C01.request_path. rewrite Hd.
  destruct (C01.render (C01.items p) caps) as [|x s'] eqn:Er.
  { exfalso. apply Hne. apply unquote_nil. rewrite Hu. reflexivity. }
  rewrite <- Er. apply only_way_match. exact Ho.
Qed.

(* ------------------------------------------------------------ what the executable open specification says *)
Theorem spec_route_open_meaning O tbl ds target e els o kw path d sel :
  spec_route_open O tbl ds target e els o kw = SRoute path (Some d) sel ->
  exists src p regs caps,
    find_src target ds = Some src /\ parse_open O src = C01.Ok (p, regs) /\ kw_caps p kw = Some caps
    /\ path = C01.render (C01.items p) caps
    /\ caps_in (map (lang_must O tbl) regs) (C01.star p) (C01.items p) caps = true
    /\ all_decs_open (map (lang_may O tbl) regs) (C01.star p) (C01.items p) path = [caps]
    /\ d = C01.mk_dict (C01.items p) (C01.star p) caps.
Proof.
  unfold spec_route_open.
  destruct (negb (forallb (open_ok O) ds)); [discriminate|].
  destruct (negb _); [discriminate|].
  destruct (find_src target ds) as [src|]; [|discriminate].
  destruct (parse_open O src) as [[p regs]| | |] eqn:Ep; try discriminate.
  destruct (negb _); [discriminate|].
  destruct (spec_elements els) as [ets|]; [|discriminate].
  destruct (kw_caps p kw) as [caps|] eqn:Ek; [|discriminate].
  destruct ets as [|t ets]; [|discriminate].
  destruct (caps_in _ _ _ caps && only_way _ _ _ caps) eqn:Ec; [|discriminate].
  intros H. inversion H as [[Hp Hd Hs]]. clear H.
  apply andb_true_iff in Ec. destruct Ec as [Ec Eo].
  exists src, p, regs, caps. unfold elements_suffix. rewrite app_nil_r.
  rewrite (spec_dict_mk _ _ _ Ek) in Hd. inversion Hd.
  repeat split; try reflexivity; try assumption.
  apply only_way_decs. exact Eo.
Qed.

(* ------------------------------------------------------------ the open reading of a pattern agrees with C01's *)
Definition erase (i : C01.item) : C01.item :=
  match i with C01.Lit l => C01.Lit l | C01.Hole n _ => C01.Hole n C01.spec_default_hole end.

Lemma split_colon_fst : forall body name reg, C01.split_colon body = (name, reg) -> C01.split_colon name = (name, None).
Proof.
  induction body as [|c r IH]; intros name reg H; cbn [C01.split_colon] in H.
  - inversion H. reflexivity.
  - destruct (c =? C01.c_colon) eqn:Ec.
    + inversion H. reflexivity.
    + destruct (C01.split_colon r) as [a b] eqn:Er. inversion H; subst name reg.
      cbn [C01.split_colon]. rewrite Ec. rewrite (IH a b eq_refl). reflexivity.
Qed.

Lemma piece_item_strip d a i : C01.piece_item (Some d) a = C01.Ok i ->
  C01.piece_item (Some C01.spec_default_hole) (fst (strip_reg a)) = C01.Ok (option_map erase i).
Proof.
  destruct a as [t|body]; cbn [strip_reg fst C01.piece_item].
  - destruct t; intros H; inversion H; reflexivity.
  - destruct (C01.split_colon body) as [name reg] eqn:Es. cbn [fst C01.piece_item].
    rewrite (split_colon_fst _ _ _ Es).
    destruct (match reg with Some r => C01.parse_reg r | None => Some d end) as [h|]; [|discriminate].
    destruct (C01.name_check name); try discriminate. intros H. inversion H. reflexivity.
Qed.

Lemma seq_items_strip d ps : forall its,
  C01.seq_items (map (C01.piece_item (Some d)) ps) = C01.Ok its ->
  C01.seq_items (map (fun x => C01.piece_item (Some C01.spec_default_hole) (fst x)) (map strip_reg ps))
  = C01.Ok (map erase its).
Proof.
  induction ps as [|a r IH]; intros its H; cbn [map C01.seq_items] in *.
  - inversion H. reflexivity.
  - destruct (C01.piece_item (Some d) a) as [i| | |] eqn:Ea;
      destruct (C01.seq_items (map (C01.piece_item (Some d)) r)) as [l'| | |] eqn:Er; try discriminate;
      try (destruct i; discriminate).
    rewrite (piece_item_strip _ _ _ Ea). rewrite (IH l' eq_refl).
    destruct i as [i|]; inversion H; reflexivity.
Qed.

Lemma hole_names_erase its : C01.hole_names (map erase its) = C01.hole_names its.
Proof.
  unfold C01.hole_names. induction its as [|[l|n h] r IH]; cbn [map flat_map erase app]; congruence.
Qed.

Definition erase_pat (p : C01.pat) : C01.pat := C01.mkPat (map erase (C01.items p)) (C01.star p).

(* where C01 reads the pattern, the open reading has the same literals, names and remainder *)
Theorem parse_open_agrees O d src p : C01.parse_core O (Some d) src = C01.Ok p ->
  exists regs, parse_open O src = C01.Ok (erase_pat p, regs).
Proof.
  unfold C01.parse_core, parse_open.
  set (r1 := if C01.has_old src && negb (C01.has_brace src) then C01.old_sub O src false else src).
  set (r2 := if startswith [47] r1 then r1 else 47 :: r1).
  destruct (match C01.rsplit_star r2 with
            | Some (a, b) => if C01.word_then_end O b then (a, b) else (r2, [])
            | None => (r2, []) end) as [r3 rem].
  destruct (C01.seq_items (map (C01.piece_item (Some d)) (C01.split_route r3 0 []))) as [its| | |] eqn:Es.
  - rewrite (seq_items_strip _ _ _ Es).
    destruct rem as [|c rm].
    + unfold C01.pat_names. cbn [C01.items C01.star]. rewrite hole_names_erase.
      destruct (C01.has_dup _); [discriminate|]. intros H. inversion H. eexists. reflexivity.
    + destruct (C01.name_check (c :: rm)); try discriminate.
      unfold C01.pat_names. cbn [C01.items C01.star]. rewrite hole_names_erase.
      destruct (C01.has_dup _); [discriminate|]. intros H. inversion H. eexists. reflexivity.
  - destruct rem; [discriminate|]. destruct (C01.name_check _); discriminate.
  - discriminate.
  - discriminate.
Qed.

(* the erased pattern renders, names and builds dictionaries as the original *)
Lemma render_erase its : forall caps, C01.render (map erase its) caps = C01.render its caps.
Proof.
  induction its as [|[l|n h] r IH]; intros caps; cbn [map erase C01.render].
  - reflexivity.
  - rewrite IH. reflexivity.
  - destruct caps; rewrite IH; reflexivity.
Qed.

Lemma mk_dict_erase st its : forall caps, C01.mk_dict (map erase its) st caps = C01.mk_dict its st caps.
Proof.
  induction its as [|[l|n h] r IH]; intros caps; cbn [map erase C01.mk_dict].
  - reflexivity.
  - apply IH.
  - destruct caps; [reflexivity|]. rewrite IH. reflexivity.
Qed.

(* non-vacuity: "/{lang:(en|fr)}/docs/{page}" with lang='fr', page='intro'; the table answers for the
   group regex exactly what re.fullmatch answers on the substrings that matter *)
Definition ex_open_src : text :=
  [47; 123; 108; 97; 110; 103; 58; 40; 101; 110; 124; 102; 114; 41; 125; 47; 100; 111; 99; 115; 47; 123; 112; 97; 103; 101; 125].
Definition ex_open_reg : text := [40; 101; 110; 124; 102; 114; 41].
Definition ex_open_kw : list (text * kwval) :=
  [([108; 97; 110; 103], KScalar (PStr [102; 114])); ([112; 97; 103; 101], KScalar (PStr [105; 110; 116; 114; 111]))].
Definition ex_open_tbl : otable :=
  (ex_open_reg, [102; 114], true) :: (ex_open_reg, [101; 110], true)
  :: map (fun v => (ex_open_reg, v, false))
         [[]; [102]; [102; 114; 47]; [102; 114; 47; 100]; [102; 114; 47; 100; 111]; [102; 114; 47; 100; 111; 99];
          [102; 114; 47; 100; 111; 99; 115]; [102; 114; 47; 100; 111; 99; 115; 47];
          [102; 114; 47; 100; 111; 99; 115; 47; 105]; [102; 114; 47; 100; 111; 99; 115; 47; 105; 110];
          [102; 114; 47; 100; 111; 99; 115; 47; 105; 110; 116]; [102; 114; 47; 100; 111; 99; 115; 47; 105; 110; 116; 114];
          [102; 114; 47; 100; 111; 99; 115; 47; 105; 110; 116; 114; 111]].
Definition ex_open_O : C01.oracle := C01.mkOracle (fun _ => false) (fun _ => false).
Definition ex_open_T : text := [116].

Example open_spec_example :
  C01.parse_core ex_open_O (Some C01.spec_default_hole) ex_open_src = C01.Unsupported
  /\ spec_route_open ex_open_O ex_open_tbl [(ex_open_T, ex_open_src)] ex_open_T empty_env [] no_overrides ex_open_kw
     = SRoute [47; 102; 114; 47; 100; 111; 99; 115; 47; 105; 110; 116; 114; 111]
              (Some [([108; 97; 110; 103], C01.MText [102; 114]); ([112; 97; 103; 101], C01.MText [105; 110; 116; 114; 111])])
              C01.SNothing.
Proof. split; vm_compute; reflexivity. Qed.
