(* C11 -- exact description of principals_allowed_by_permission and well-formedness of its result.

   principals_allowed_exact:   q is reported  <->  the first entry that speaks about q (an Allow/Deny naming q or a
                               Deny of Everyone, with the permission in its permission set), context's ACL first,
                               then each ancestor's, is an Allow.   No hypothesis on the ACE actions.
   principals_allowed_nodup:   the reported collection has no duplicates (so comparing it with a Python set is sound).
   allowed_consistent_needs_wf: the hypothesis of allowed_consistent (every action is Allow or Deny) is necessary. *)
From Coq Require Import List NArith ZArith Bool Lia.
Import ListNotations.
Require Import Verif.Lib.Wire Verif.Gen.Facts_C11 Verif.Model.C11 Verif.Proofs.C11 Verif.Proofs.C11_gen.

(* ---------- no duplicates *)
Lemma NoDup_add x l : NoDup l -> NoDup (add x l).
Proof.
  intros H. unfold add. destruct (mem_text x l) eqn:E; [assumption|].
  constructor; [|assumption]. intros Hin. apply mem_text_In in Hin. congruence.
Qed.

Lemma NoDup_remove x l : NoDup l -> NoDup (remove x l).
Proof.
  induction 1 as [|y r Hy Hr IH]; simpl; [constructor|].
  destruct (text_eqb x y); [assumption|]. constructor; [|assumption].
  intros Hin. apply In_remove in Hin. tauto.
Qed.

Lemma NoDup_union a b : NoDup a -> NoDup (union a b).
Proof. intros H. unfold union. induction b as [|y r IH]; simpl; [assumption|]. apply NoDup_add, IH. Qed.

Lemma pa_scan_nodup p a : forall al ah dh,
  NoDup al -> NoDup (fst (pa_scan p a al ah dh)).
Proof.
  induction a as [|e r IH]; intros al ah dh Hal; simpl; [assumption|].
  destruct (act e); destruct (perm_in p (what e)); simpl; try (apply IH; assumption).
  - destruct (mem_text (who e) dh); simpl; apply IH; assumption.
  - destruct (text_eqb (who e) everyone); [constructor|]. apply IH, NoDup_remove, Hal.
Qed.

Lemma pa_step_nodup p al o : NoDup al -> NoDup (pa_step p al o).
Proof.
  intros H. destruct o as [a|]; simpl; [|assumption].
  pose proof (pa_scan_nodup p a al [] [] H) as N.
  destruct (pa_scan p a al [] []) as [al' ah']. simpl in N. apply NoDup_union, N.
Qed.

Theorem principals_allowed_nodup L p : NoDup (principals_allowed L p).
Proof.
  induction L as [|o L IH]; [constructor|].
  rewrite principals_allowed_cons. apply pa_step_nodup, IH.
Qed.

(* ---------- exact description *)
Definition scanx (q p : text) (a : acl) : option bool :=
  match find (explicit_for q p) a with Some e => Some (is_allow (act e)) | None => None end.

Lemma scanx_cons q p e r :
  scanx q p (e :: r) = if explicit_for q p e then Some (is_allow (act e)) else scanx q p r.
Proof. unfold scanx. simpl. destruct (explicit_for q p e); reflexivity. Qed.

(* what the three sets of the inner loop know about q after a prefix of the ACL whose first entry speaking about q
   was an Allow ([Some true]), a Deny ([Some false]) or absent ([None]) *)
Definition inv (q : text) (st : option bool) (al ah dh : list text) : Prop :=
  (In q ah <-> st = Some true) /\ (st = Some false -> In q dh /\ ~ In q al) /\ (st = None -> ~ In q dh).

Definition verdict (q : text) (st : option bool) (al : list text) : Prop :=
  match st with Some b => b = true | None => In q al end.

Lemma neq_sym_text (a b : text) : a <> b -> b <> a.
Proof. intros H E. apply H. symmetry. exact E. Qed.

Lemma pa_scan_exact q p a : forall al ah dh st,
  inv q st al ah dh ->
  In q (union (fst (pa_scan p a al ah dh)) (snd (pa_scan p a al ah dh)))
  <-> verdict q (st_then st (scanx q p a)) al.
Proof.
  induction a as [|e r IH]; intros al ah dh st (I1 & I2 & I3).
  - simpl. rewrite In_union. unfold scanx, verdict. simpl.
    destruct st as [[|]|]; simpl.
    + split; [reflexivity|]. intros _. right. apply I1. reflexivity.
    + destruct (I2 eq_refl) as [_ Hn]. split; [|discriminate].
      intros [H|H]; [contradiction|]. apply I1 in H. discriminate.
    + split; [intros [H|H]; [assumption|apply I1 in H; discriminate]|auto].
  - rewrite scanx_cons. unfold explicit_for. simpl pa_scan. rewrite perm_in_spec.
    destruct (act e) eqn:Ea; simpl is_allow; simpl is_deny; simpl orb; simpl andb.
    + (* Allow *)
      rewrite ?andb_false_r, ?orb_false_r.
      destruct (perm_has p (what e)) eqn:Ep; simpl andb.
      2:{ apply IH. repeat split; tauto. }
      destruct (mem_text (who e) dh) eqn:Ed; simpl negb; simpl andb.
      * (* already denied here: skipped *)
        destruct (text_eqb_spec (who e) q) as [Eq|Eq].
        -- assert (Hs : st_then st (Some true) = st).
           { destruct st as [b|]; [reflexivity|]. apply mem_text_In in Ed. subst. destruct (I3 eq_refl Ed). }
           rewrite (IH al ah dh st) by (repeat split; tauto).
           destruct st as [b|]; [reflexivity|discriminate].
        -- apply IH. repeat split; tauto.
      * destruct (text_eqb_spec (who e) q) as [Eq|Eq].
        -- assert (Hs : st_then st (Some true) = Some true).
           { destruct st as [[|]|]; try reflexivity. destruct (I2 eq_refl) as [Hd _].
             apply mem_text_In in Hd. subst. congruence. }
           rewrite (IH al (add (who e) ah) dh (Some true)).
           ++ destruct st as [[|]|]; simpl in *; try reflexivity; discriminate.
           ++ repeat split; try discriminate; auto.
              intros _. apply In_add. left. symmetry. exact Eq.
        -- apply IH. repeat split; try tauto.
           ++ intros H. apply In_add in H. destruct H as [H|H]; [congruence|]. apply I1, H.
           ++ intros H. apply In_add. right. apply I1, H.
    + (* Deny *)
      destruct (perm_has p (what e)) eqn:Ep; simpl andb.
      2:{ apply IH. repeat split; tauto. }
      destruct (text_eqb_spec (who e) everyone) as [Ee|Ee].
      * (* Deny Everyone: inherited set cleared, loop left *)
        rewrite ?orb_true_r. simpl fst. simpl snd. rewrite In_union. unfold verdict.
        destruct st as [[|]|]; simpl.
        -- split; [reflexivity|]. intros _. right. apply I1. reflexivity.
        -- split; [|discriminate]. intros [[]|H]. apply I1 in H. discriminate.
        -- split; [|discriminate]. intros [[]|H]. apply I1 in H. discriminate.
      * rewrite ?orb_false_r.
        destruct (text_eqb_spec (who e) q) as [Eq|Eq].
        -- rewrite (IH (remove (who e) al) ah (add (who e) dh) (st_then st (Some false))).
           ++ destruct st as [[|]|]; simpl; reflexivity.
           ++ repeat split.
              ** intros H. apply I1 in H. subst st. reflexivity.
              ** intros H. apply I1. destruct st as [[|]|]; simpl in H; try discriminate. reflexivity.
              ** apply In_add. left. symmetry. exact Eq.
              ** intros Hx. apply In_remove in Hx. destruct Hx as [_ Hx]. apply Hx. symmetry. exact Eq.
              ** destruct st as [[|]|]; discriminate.
        -- assert (Hal : In q (remove (who e) al) <-> In q al).
           { rewrite In_remove. split; [tauto|]. intros H. split; [assumption|]. apply neq_sym_text, Eq. }
           rewrite (IH (remove (who e) al) ah (add (who e) dh) st).
           ++ unfold verdict. destruct (st_then st (scanx q p r)); [reflexivity|exact Hal].
           ++ repeat split; try tauto.
              ** destruct (I2 H) as [H1 H2]. apply In_add. right. exact H1.
              ** intros H Hin. apply In_add in Hin. destruct Hin as [Hin|Hin]; [congruence|]. exact (I3 H Hin).
    + (* neither Allow nor Deny: ignored *)
      rewrite ?andb_false_r. apply IH. repeat split; tauto.
Qed.

Lemma explicitly_allowed_cons_some a L p q :
  explicitly_allowed (Some a :: L) p q =
  match scanx q p a with Some b => b | None => explicitly_allowed L p q end.
Proof.
  unfold explicitly_allowed, scanx, flatten. simpl. rewrite find_app.
  destruct (find (explicit_for q p) a); reflexivity.
Qed.

Theorem principals_allowed_exact L p q :
  In q (principals_allowed L p) <-> explicitly_allowed L p q = true.
Proof.
  induction L as [|[a|] L IH].
  - simpl. split; [intros []|discriminate].
  - rewrite principals_allowed_cons, explicitly_allowed_cons_some. unfold pa_step.
    pose proof (pa_scan_exact q p a (principals_allowed L p) [] [] None) as H.
    destruct (pa_scan p a (principals_allowed L p) [] []) as [al ah]. simpl fst in H. simpl snd in H.
    rewrite H.
    + simpl st_then. unfold verdict. destruct (scanx q p a) as [b|]; [reflexivity|exact IH].
    + repeat split; try discriminate; intros []; auto.
  - rewrite principals_allowed_cons. simpl. exact IH.
Qed.

(* a reported principal is named by an Allow entry of the lineage whose permission set contains the permission *)
Corollary reported_has_allow_entry L p q :
  In q (principals_allowed L p) ->
  exists e, In e (flatten L) /\ act e = Allow /\ who e = q /\ perm_has p (what e) = true.
Proof.
  rewrite principals_allowed_exact. unfold explicitly_allowed.
  destruct (find (explicit_for q p) (flatten L)) as [e|] eqn:F; [|discriminate].
  intros Ha. apply find_some in F. destruct F as [Hin He]. exists e.
  unfold explicit_for in He. destruct (act e); try discriminate.
  simpl in He. rewrite ?andb_false_r, ?orb_false_r in He.
  apply andb_true_iff in He. destruct He as [Hp Hq]. apply text_eqb_eq in Hq. auto.
Qed.

(* the hypothesis of allowed_consistent is necessary: an entry whose action is neither constant is a refusal for
   permits() but is ignored by principals_allowed_by_permission *)
Theorem allowed_consistent_needs_wf :
  exists L p q, wf_lineage L = false /\ In q (principals_allowed L p) /\ granted (permits L [q; everyone] p) = false.
Proof.
  exists [Some [mkAce Other [97]%N (PStr [118]%N); mkAce Allow [97]%N (PStr [118]%N)]], [118]%N, [97]%N.
  vm_compute. repeat split. left. reflexivity.
Qed.

(* ---------- the same, about the regenerated program *)
Theorem gen_principals_allowed_exact L p q :
  In q (gen_principals_allowed L p) <-> explicitly_allowed L p q = true.
Proof. rewrite gen_principals_allowed_is_model. apply principals_allowed_exact. Qed.

Theorem gen_principals_allowed_nodup L p : NoDup (gen_principals_allowed L p).
Proof. rewrite gen_principals_allowed_is_model. apply principals_allowed_nodup. Qed.

(* ---------- the public routes of pyramid/security.py: regenerated = reference.  The scripts split on every
   scrutinee (the optional context, the registry's flags, the view found) and then compute. *)
Ltac entry_cases :=
  repeat match goal with
  | |- context [match ?x with _ => _ end] => is_var x; destruct x
  | |- context [if ?b then _ else _] => destruct b eqn:?
  | |- context [match ?f ?R with _ => _ end] => is_var R; destruct (f R) eqn:?
  end.

Theorem gen_legacy_permits_is_model L ps p : gen_legacy_permits L ps p = legacy_permits L ps p.
Proof. unfold gen_legacy_permits, legacy_permits. apply gen_policy_permits_is_model. Qed.

Theorem gen_has_permission_is_model R given ctx ps p :
  gen_has_permission R given ctx ps p = has_permission R given ctx ps p.
Proof.
  unfold gen_has_permission, has_permission. entry_cases; rewrite ?gen_legacy_permits_is_model; reflexivity.
Qed.

Theorem gen_sec_principals_allowed_is_model R L p :
  gen_sec_principals_allowed R L p = sec_principals_allowed R L p.
Proof.
  unfold gen_sec_principals_allowed, sec_principals_allowed.
  entry_cases; rewrite ?gen_policy_principals_allowed_is_model; reflexivity.
Qed.

Lemma view_permitted_ext f g v : (forall q, f q = g q) -> view_permitted f v = view_permitted g v.
Proof.
  intros H. destruct v as [q|subs]; simpl; [rewrite H; reflexivity|].
  destruct (find (fun s : bool * option text => fst s) subs) as [[b [q|]]|]; try reflexivity. rewrite H. reflexivity.
Qed.

Theorem gen_view_execution_permitted_is_model R L ps :
  gen_view_execution_permitted R L ps = view_execution_permitted R L ps.
Proof.
  unfold gen_view_execution_permitted, view_execution_permitted.
  entry_cases; try reflexivity; apply view_permitted_ext; intros q; apply gen_legacy_permits_is_model.
Qed.

(* request.has_permission: with a security policy the answer is the first-match decision for the principals the
   authentication policy reports, over the context given or else the request's own; without one, Allowed *)
Theorem has_permission_first_match R given ctx ps p :
  has_policy R = true ->
  hp_granted (gen_has_permission R given ctx ps p)
  = spec_granted (match given with None => ctx | Some L => L end) ps p.
Proof.
  intros HR. rewrite gen_has_permission_is_model. unfold has_permission, hp_granted, legacy_permits. rewrite HR.
  apply permits_first_match.
Qed.

Theorem has_permission_default_context R ctx ps p :
  gen_has_permission R None ctx ps p = gen_has_permission R (Some ctx) ctx ps p.
Proof. rewrite !gen_has_permission_is_model. reflexivity. Qed.

Theorem has_permission_without_policy R given ctx ps p :
  has_policy R = false -> gen_has_permission R given ctx ps p = NoPolicyAllowed.
Proof. intros HR. rewrite gen_has_permission_is_model. unfold has_permission. rewrite HR. reflexivity. Qed.

(* "granted iff the first matching ACE ... is an Allow" *)
Lemma spec_granted_iff_first_allow L ps p :
  spec_granted L ps p = true <-> exists e, first_match L ps p = Some e /\ act e = Allow.
Proof.
  unfold spec_granted. destruct (first_match L ps p) as [e|].
  - destruct (act e) eqn:E; split; try discriminate; eauto; intros (e' & H & H'); inversion H; subst; congruence.
  - split; [discriminate|]. intros (e & H & _). discriminate.
Qed.

Theorem sec_principals_allowed_consistent R L p q :
  has_policy R = true -> has_authz R = true -> wf_lineage L = true ->
  In q (gen_sec_principals_allowed R L p) ->
  hp_granted (gen_has_permission R None L [q; everyone] p) = true.
Proof.
  intros HR HA Hwf Hq. rewrite (has_permission_first_match R None L _ p HR). rewrite <- permits_first_match.
  rewrite gen_sec_principals_allowed_is_model in Hq. unfold sec_principals_allowed in Hq. rewrite HA in Hq.
  apply allowed_consistent; assumption.
Qed.

Theorem sec_principals_allowed_without_policy R L p :
  has_authz R = false -> gen_sec_principals_allowed R L p = [everyone].
Proof. intros HA. rewrite gen_sec_principals_allowed_is_model. unfold sec_principals_allowed. rewrite HA. reflexivity. Qed.

(* view_execution_permitted: whenever it takes an ACL decision, it is the first-match decision for the permission of
   the view that would run (the single secured view, or the MultiView's first sub-view whose predicates hold); a view
   without permission is permitted; no view / no matching sub-view raises *)
Theorem view_execution_permitted_spec R L ps :
  match vep_permission R with
  | Some q => vep_granted (gen_view_execution_permitted R L ps) = Some (spec_granted L ps q)
  | None => forall d, gen_view_execution_permitted R L ps <> VDecision d
  end.
Proof.
  rewrite gen_view_execution_permitted_is_model. unfold view_execution_permitted, vep_permission.
  destruct (secured_view R) as [[q|subs]|]; simpl.
  - unfold legacy_permits. rewrite permits_first_match. reflexivity.
  - destruct (find (fun s : bool * option text => fst s) subs) as [[b [q|]]|]; simpl; try discriminate.
    unfold legacy_permits. rewrite permits_first_match. reflexivity.
  - destruct (plain_view R); discriminate.
Qed.

(* ---------- malformed inputs: permits() decides by the first match over the well-formed part before the first malformed
   item; if nothing there matches and there is a malformed item it RAISES -- it never grants (or refuses) past it *)
Lemma xscan_acl_trunc ps p a : forall i,
  xscan_acl ps p a i =
  match scan_acl ps p (fst (trunc_acl a)) i with
  | Some (b, j) => XHit b j
  | None => if snd (trunc_acl a) then XRaise else XNoMatch
  end.
Proof.
  induction a as [|[e|] r IH]; intros i; simpl; try reflexivity.
  destruct (trunc_acl r) as [t b] eqn:E. simpl in *. destruct (ace_matches ps p e); [reflexivity|]. apply IH.
Qed.

Theorem permits_x_trunc L ps p : forall d,
  permits_x_from d L ps p =
  match permits_from d (fst (trunc L)) ps p with
  | DefaultDeny => if snd (trunc L) then XRaised else XDec DefaultDeny
  | dd => XDec dd
  end.
Proof.
  induction L as [|[| |a] r IH]; intros d; simpl; try reflexivity.
  - rewrite IH. destruct (trunc r) as [t b]. reflexivity.
  - rewrite xscan_acl_trunc. destruct (trunc_acl a) as [ta ba] eqn:Ea. simpl.
    destruct ba; simpl.
    + destruct (scan_acl ps p ta 0) as [[[|] j]|]; reflexivity.
    + destruct (trunc r) as [t b] eqn:Er. simpl in *.
      destruct (scan_acl ps p ta 0) as [[[|] j]|]; try reflexivity. apply IH.
Qed.

(* on well-formed input the extension is the model *)
Fixpoint embed (L : lineage) : list xloc :=
  match L with [] => [] | None :: r => XNoAttr :: embed r | Some a :: r => XAcl (map XGood a) :: embed r end.

Lemma trunc_acl_embed a : trunc_acl (map XGood a) = (a, false).
Proof. induction a as [|e r IH]; simpl; [reflexivity|]. rewrite IH. reflexivity. Qed.

Lemma trunc_embed L : trunc (embed L) = (L, false).
Proof.
  induction L as [|[a|] r IH]; simpl; [reflexivity| |rewrite IH; reflexivity].
  rewrite trunc_acl_embed, IH. reflexivity.
Qed.

Theorem permits_x_conservative L ps p : permits_x (embed L) ps p = XDec (permits L ps p).
Proof.
  unfold permits_x, permits. rewrite permits_x_trunc, trunc_embed. simpl.
  destruct (permits_from 0 L ps p); reflexivity.
Qed.

(* a grant is always the first-match grant over the well-formed part: a malformed item never produces access *)
Theorem permits_x_grant_is_first_match L ps p d :
  permits_x L ps p = XDec d -> granted d = true -> spec_granted (fst (trunc L)) ps p = true.
Proof.
  unfold permits_x. rewrite permits_x_trunc. intros H G.
  rewrite <- permits_first_match. unfold permits.
  destruct (permits_from 0 (fst (trunc L)) ps p) as [d' i|d' i|]; try (inversion H; subst; exact G).
  destruct (snd (trunc L)); inversion H; subst; discriminate.
Qed.

(* ---------- principals_allowed_by_permission on malformed input *)
Lemma pa_scan_x_some p a : forall al ah dh r,
  pa_scan_x p a al ah dh = Some r -> pa_scan p (fst (trunc_acl a)) al ah dh = r.
Proof.
  induction a as [|[e|] t IH]; intros al ah dh r H; simpl in *; try (inversion H; reflexivity); try discriminate.
  destruct (trunc_acl t) as [g b] eqn:E. simpl in *.
  destruct (act e); destruct (perm_in p (what e)); simpl in *; try (apply IH; exact H).
  - destruct (negb (mem_text (who e) dh)); apply IH; exact H.
  - destruct (text_eqb (who e) everyone); [inversion H; reflexivity|apply IH; exact H].
Qed.

Lemma fold_pa_step_x_none p l : fold_left (pa_step_x p) l None = None.
Proof. induction l as [|x l IH]; simpl; [reflexivity|exact IH]. Qed.

Lemma pa_x_fold p l : forall acc A,
  fold_left (pa_step_x p) l (Some acc) = Some A ->
  fold_left (pa_step p) (map (fun l => match l with XAcl a => Some (fst (trunc_acl a)) | _ => None end) l) acc = A
  /\ ~ In XAclNone l.
Proof.
  induction l as [|x l IH]; intros acc A H; simpl in *.
  - inversion H. auto.
  - destruct x as [| |a]; simpl in H.
    + destruct (IH _ _ H) as [H1 H2]. split; [exact H1|]. intros [E|E]; [discriminate|auto].
    + rewrite fold_pa_step_x_none in H. discriminate.
    + destruct (pa_scan_x p a acc [] []) as [[al ah]|] eqn:E; [|rewrite fold_pa_step_x_none in H; discriminate].
      apply pa_scan_x_some in E. destruct (IH _ _ H) as [H1 H2]. split.
      * unfold pa_step at 2. rewrite E. exact H1.
      * intros [E'|E']; [discriminate|auto].
Qed.

(* whenever a set is returned it is the set of the lineage with every ACL cut before its first malformed ACE (so the
   exact description and the consistency theorem apply to it), and no location had __acl__ = None *)
Theorem principals_allowed_x_some L p A :
  principals_allowed_x L p = Some A -> A = principals_allowed (strip L) p /\ ~ In XAclNone L.
Proof.
  unfold principals_allowed_x, principals_allowed, strip. intros H.
  apply pa_x_fold in H. destruct H as [H1 H2]. rewrite <- map_rev. split; [symmetry; exact H1|].
  intros Hin. apply H2. apply in_rev in Hin. exact Hin.
Qed.

Lemma pa_scan_x_embed p a : forall al ah dh, pa_scan_x p (map XGood a) al ah dh = Some (pa_scan p a al ah dh).
Proof.
  induction a as [|e t IH]; intros al ah dh; simpl; [reflexivity|].
  destruct (act e); destruct (perm_in p (what e)); simpl; try apply IH.
  - destruct (negb (mem_text (who e) dh)); apply IH.
  - destruct (text_eqb (who e) everyone); [reflexivity|apply IH].
Qed.

Theorem principals_allowed_x_conservative L p : principals_allowed_x (embed L) p = Some (principals_allowed L p).
Proof.
  unfold principals_allowed_x, principals_allowed.
  assert (H : forall l acc, fold_left (pa_step_x p) (rev (embed l)) (Some acc)
                            = Some (fold_left (pa_step p) (rev l) acc)).
  { induction l as [|[a|] l IH]; intros acc; simpl; [reflexivity| |].
    - rewrite !fold_left_app, IH. simpl. rewrite pa_scan_x_embed.
      destruct (pa_scan p a (fold_left (pa_step p) (rev l) acc) [] []); reflexivity.
    - rewrite !fold_left_app, IH. reflexivity. }
  apply H.
Qed.

(* the same, against the REGENERATED programs: what permits() / principals_allowed_by_permission answer on malformed input
   is what the regenerated loops answer on the well-formed part, or an exception *)
Theorem permits_x_generated L ps p :
  permits_x L ps p =
  match gen_permits (fst (trunc L)) ps p with
  | DefaultDeny => if snd (trunc L) then XRaised else XDec DefaultDeny
  | dd => XDec dd
  end.
Proof. rewrite gen_permits_is_model. unfold permits_x, permits. apply permits_x_trunc. Qed.

Theorem principals_allowed_x_generated L p A :
  principals_allowed_x L p = Some A -> A = gen_principals_allowed (strip L) p.
Proof. intros H. rewrite gen_principals_allowed_is_model. apply (principals_allowed_x_some L p A H). Qed.

Example principals_allowed_x_nonvacuous :
  let a := [97]%N in let v := [118]%N in
  principals_allowed_x [XAcl [XGood (mkAce Allow a (PStr v))]; XAclNone] v = None
  /\ principals_allowed_x [XAcl [XGood (mkAce Deny everyone PAll); XBad]; XAcl [XGood (mkAce Allow a (PStr v))]] v = Some []
  /\ principals_allowed_x [XAcl [XGood (mkAce Allow a (PStr v)); XBad]] v = None.
Proof. vm_compute. repeat split. Qed.

Example permits_x_nonvacuous :
  let a := [97]%N in let v := [118]%N in
  permits_x [XAcl [XGood (mkAce Allow a (PStr v)); XBad]; XAclNone] [a] v = XDec (Allowed 0 0)
  /\ permits_x [XAcl [XBad; XGood (mkAce Allow a (PStr v))]] [a] v = XRaised
  /\ permits_x [XNoAttr; XAclNone; XAcl [XGood (mkAce Allow a (PStr v))]] [a] v = XRaised.
Proof. vm_compute. repeat split. Qed.

Example c11_exact_nonvacuous :
  let alice := [97; 108]%N in let view := [118]%N in
  let L := [Some [mkAce Allow alice (PStr view); mkAce Deny everyone PAll]; Some [mkAce Deny alice PAll]] in
  explicitly_allowed L view alice = true /\ principals_allowed L view = [alice]
  /\ explicitly_allowed [Some [mkAce Deny alice (PNames [view])]; Some [mkAce Allow alice PAll]] view alice = false.
Proof. vm_compute. repeat split. Qed.
