(* C13 part (a): the theorems about the regenerated skeletons, by reflection:
   vm_compute of a boolean check on every path summary + analyse_sound. *)
From Coq Require Import List NArith ZArith Bool Arith Lia.
Import ListNotations.
Require Import Verif.Lib.Wire Verif.Lib.C13Bracket Verif.Gen.Facts_C13 Verif.Model.C13.

Lemma conc_parts s su k s' tr : conc s su = (k, s', tr) ->
  k = kind_of su /\ s' = app_eff (eff_of su) s /\ map fst tr = marks su.
Proof.
  destruct su as [[k0 e] atr]. simpl. intros H. injection H as <- <- <-.
  repeat split. unfold marks. simpl. rewrite map_map. reflexivity.
Qed.

Lemma conc_event s su k s' tr m st : conc s su = (k, s', tr) -> In (m, st) tr ->
  exists e, In (m, e) (snd su) /\ st = app_eff e s.
Proof.
  destruct su as [[k0 e] atr]. simpl. intros H. injection H as <- <- <-. intros HI.
  apply in_map_iff in HI. destruct HI as [[m' e'] [E I]]. unfold conc_ev in E. simpl in E.
  injection E as <- <-. exists e'. split; [exact I|reflexivity].
Qed.

Lemma balanced_c_ok s su k s' tr : balanced_c su = true -> conc s su = (k, s', tr) -> s' = s.
Proof.
  intros H C. apply conc_parts in C. destruct C as [_ [-> _]].
  apply eff_eqb_eq in H. rewrite H. reflexivity.
Qed.

Lemma within_frame_ok t s su k s' tr : within_frame_c t su = true -> conc s su = (k, s', tr) ->
  forall m st, In (m, st) tr -> st = t :: s.
Proof.
  intros H C m st HI. destruct (conc_event _ _ _ _ _ _ _ C HI) as [e [Ie ->]].
  unfold within_frame_c in H. rewrite forallb_forall in H. specialize (H _ Ie). simpl in H.
  apply eff_eqb_eq in H. rewrite H. reflexivity.
Qed.

Lemma mark_top_ok m t s su k s' tr : mark_top_c m t su = true -> conc s su = (k, s', tr) ->
  forall st, In (m, st) tr -> exists r, st = t :: r.
Proof.
  intros H C st HI. destruct (conc_event _ _ _ _ _ _ _ C HI) as [e [Ie ->]].
  unfold mark_top_c in H. rewrite forallb_forall in H. specialize (H _ Ie). cbn [fst snd] in H.
  rewrite N.eqb_refl in H. cbn [negb orb] in H. destruct e as [[|n] [|x l]]; try discriminate.
  apply N.eqb_eq in H. subst x. eexists. unfold app_eff. simpl. reflexivity.
Qed.

(* ---- wsgi call / subrequest *)
Definition wsgi_stmt (s : stack) (k : kind) (s' : stack) (tr : list event) : Prop :=
  s' = s /\ forall m st, In (m, st) tr -> st = tag_request_context :: s.

Lemma wsgi_from_check p : all_paths wsgi_c p = true ->
  forall s k s' tr, exec p s k s' tr -> wsgi_stmt s k s' tr.
Proof.
  intros H s k s' tr HE. destruct (all_paths_sound _ _ H _ _ _ _ HE) as [su [Hc C]].
  unfold wsgi_c in Hc. apply andb_true_iff in Hc. destruct Hc as [H1 H2]. split.
  - eapply balanced_c_ok; eassumption.
  - eapply within_frame_ok; eassumption.
Qed.

Lemma wsgi_call_balanced : forall s k s' tr, exec prog_wsgi_call s k s' tr -> wsgi_stmt s k s' tr.
Proof. apply wsgi_from_check. vm_compute. reflexivity. Qed.

Lemma subrequest_balanced : forall s k s' tr, exec prog_subrequest s k s' tr -> wsgi_stmt s k s' tr.
Proof. apply wsgi_from_check. vm_compute. reflexivity. Qed.

Lemma request_context_manual_balanced :
  forall s k s' tr, exec prog_request_context_manual s k s' tr -> wsgi_stmt s k s' tr.
Proof. apply wsgi_from_check. vm_compute. reflexivity. Qed.

(* non-vacuity: the program has a returning path on which invoke_request and handle_request happen *)
Example wsgi_call_has_returning_path :
  some_path (fun su => kind_eqb (kind_of su) KN && memN mk_invoke (marks su) && memN mk_handle_ret (marks su))
            prog_wsgi_call = true.
Proof. vm_compute. reflexivity. Qed.

(* ---- exception view *)
Definition excview_stmt (s : stack) (k : kind) (s' : stack) (tr : list event) : Prop :=
  s' = s /\ forall st, In (mk_excview, st) tr -> st = tag_exception_view :: s.

Lemma excview_from_check p : all_paths excview_c p = true ->
  forall s k s' tr, exec p s k s' tr -> excview_stmt s k s' tr.
Proof.
  intros H s k s' tr HE. destruct (all_paths_sound _ _ H _ _ _ _ HE) as [su [Hc C]].
  unfold excview_c in Hc. apply andb_true_iff in Hc. destruct Hc as [H1 H2]. split.
  - eapply balanced_c_ok; eassumption.
  - intros st HI. destruct (conc_event _ _ _ _ _ _ _ C HI) as [e [Ie ->]].
    rewrite forallb_forall in H2. specialize (H2 _ Ie). cbn [fst snd] in H2.
    rewrite N.eqb_refl in H2. cbn [negb orb] in H2. apply eff_eqb_eq in H2. rewrite H2. reflexivity.
Qed.

Lemma exception_view_balanced :
  (forall s k s' tr, exec prog_exception_view s k s' tr -> excview_stmt s k s' tr) /\
  (forall s k s' tr, exec prog_excview_tween s k s' tr -> excview_stmt s k s' tr).
Proof. split; apply excview_from_check; vm_compute; reflexivity. Qed.

Example exception_view_has_both_exits :
  some_path (fun su => kind_eqb (kind_of su) KN && memN mk_excview (marks su)) prog_exception_view = true /\
  some_path (fun su => kind_eqb (kind_of su) KExc && memN mk_excview (marks su)) prog_exception_view = true.
Proof. split; vm_compute; reflexivity. Qed.

(* ---- configurator scopes *)
Definition cfg_stmt (s : stack) (k : kind) (s' : stack) (tr : list event) : Prop :=
  s' = s /\ forall st, In (mk_body, st) tr -> exists r, st = tag_configurator :: r.

Lemma configurator_scopes_balanced :
  (forall p, In p cfg_programs -> forall s k s' tr, exec p s k s' tr -> cfg_stmt s k s' tr) /\
  (forall s k s' tr, exec prog_cfg_begin s k s' tr ->
     (k = KExc -> s' = s) /\ (k <> KExc -> s' = tag_configurator :: s)) /\
  (forall s k s' tr, exec prog_cfg_end s k s' tr -> s' = tl s).
Proof.
  split; [|split].
  - assert (H : forallb (all_paths cfg_c) cfg_programs = true) by (vm_compute; reflexivity).
    rewrite forallb_forall in H. intros p Hp s k s' tr HE. specialize (H _ Hp).
    destruct (all_paths_sound _ _ H _ _ _ _ HE) as [su [Hc C]].
    unfold cfg_c in Hc. apply andb_true_iff in Hc. destruct Hc as [H1 H2]. split.
    + eapply balanced_c_ok; eassumption.
    + eapply mark_top_ok; eassumption.
  - assert (H : all_paths cfg_begin_c prog_cfg_begin = true) by (vm_compute; reflexivity).
    intros s k s' tr HE. destruct (all_paths_sound _ _ H _ _ _ _ HE) as [su [Hc C]].
    apply conc_parts in C. destruct C as [-> [-> _]]. unfold cfg_begin_c in Hc.
    destruct (kind_of su); apply eff_eqb_eq in Hc; rewrite Hc; split; intros; try congruence; reflexivity.
  - assert (H : all_paths pop1_c prog_cfg_end = true) by (vm_compute; reflexivity).
    intros s k s' tr HE. destruct (all_paths_sound _ _ H _ _ _ _ HE) as [su [Hc C]].
    apply conc_parts in C. destruct C as [_ [-> _]]. unfold pop1_c in Hc.
    apply eff_eqb_eq in Hc. rewrite Hc. unfold app_eff. simpl. destruct s; reflexivity.
Qed.

Example configurator_bodies_reached :
  forallb (some_path (fun su => memN mk_body (marks su)))
          [prog_cfg_action; prog_cfg_include; prog_cfg_route_prefix; prog_cfg_with] = true.
Proof. vm_compute. reflexivity. Qed.

(* ---- finish_request exactly once and last; response callbacks / NewResponse *)
Lemma finish_exactly_once : forall s k s' tr, exec prog_invoke_request s k s' tr ->
  countN mk_finish (map fst tr) = 1 /\ only_after mk_finish [mk_fincb] (map fst tr) = true /\ s' = s.
Proof.
  assert (H : all_paths finish_c prog_invoke_request = true) by (vm_compute; reflexivity).
  intros s k s' tr HE. destruct (all_paths_sound _ _ H _ _ _ _ HE) as [su [Hc C]].
  unfold finish_c in Hc. apply andb_true_iff in Hc. destruct Hc as [Hc H3].
  apply andb_true_iff in Hc. destruct Hc as [H1 H2].
  pose proof (balanced_c_ok _ _ _ _ _ H3 C) as Hs.
  apply conc_parts in C. destruct C as [_ [_ ->]].
  apply Nat.eqb_eq in H1. auto.
Qed.

Lemma response_callbacks_then_newresponse : forall s k s' tr, exec prog_invoke_request s k s' tr ->
  let ms := map fst tr in
  countN mk_handle ms = 1 /\ countN mk_respcb ms <= 1 /\ countN mk_newresp ms <= 1 /\
  preceded mk_handle_ret mk_respcb ms = true /\ preceded mk_handle_ret mk_newresp ms = true /\
  only_after mk_newresp [mk_finish; mk_fincb] ms = true /\
  (k <> KExc -> countN mk_handle_ret ms = 1).
Proof.
  assert (H : all_paths respnew_c prog_invoke_request = true) by (vm_compute; reflexivity).
  intros s k s' tr HE. destruct (all_paths_sound _ _ H _ _ _ _ HE) as [su [Hc C]].
  apply conc_parts in C. destruct C as [-> [_ E]]. cbv zeta. rewrite E.
  unfold respnew_c in Hc. cbv zeta in Hc.
  repeat (apply andb_true_iff in Hc; let H' := fresh "Hx" in destruct Hc as [Hc H']).
  apply Nat.eqb_eq in Hc. apply Nat.leb_le in Hx4, Hx3.
  repeat split; auto.
  intros Hk. destruct (kind_of su); [apply Nat.eqb_eq; exact Hx|apply Nat.eqb_eq; exact Hx|congruence].
Qed.

Example invoke_request_full_path :
  some_path (fun su => match marks su with
                       | [a; b; c; d; e; f] => N.eqb a mk_handle && N.eqb b mk_handle_ret && N.eqb c mk_respcb
                                               && N.eqb d mk_newresp && N.eqb e mk_finish && N.eqb f mk_fincb
                       | _ => false end && kind_eqb (kind_of su) KN) prog_invoke_request = true.
Proof. vm_compute. reflexivity. Qed.

(* ---- scripting *)
Definition acquire_stmt (s : stack) (k : kind) (s' : stack) (tr : list event) : Prop :=
  (k = KExc -> s' = s) /\ (k <> KExc -> s' = tag_request_context :: s) /\
  (forall st, In (mk_rootfactory, st) tr -> exists r, st = tag_request_context :: r).

Lemma acquire_from_check p : all_paths acquire_c p = true ->
  forall s k s' tr, exec p s k s' tr -> acquire_stmt s k s' tr.
Proof.
  intros H s k s' tr HE. destruct (all_paths_sound _ _ H _ _ _ _ HE) as [su [Hc C]].
  unfold acquire_c in Hc. apply andb_true_iff in Hc. destruct Hc as [H1 H2].
  pose proof (mark_top_ok _ _ _ _ _ _ _ H2 C) as HT.
  apply conc_parts in C. destruct C as [-> [-> _]].
  split; [|split]; [| |exact HT];
    destruct (kind_of su); apply eff_eqb_eq in H1; rewrite H1; intros; try congruence; reflexivity.
Qed.

Lemma pop1_from_check p : all_paths pop1_c p = true ->
  forall s k s' tr, exec p s k s' tr -> s' = tl s.
Proof.
  intros H s k s' tr HE. destruct (all_paths_sound _ _ H _ _ _ _ HE) as [su [Hc C]].
  apply conc_parts in C. destruct C as [_ [-> _]]. unfold pop1_c in Hc.
  apply eff_eqb_eq in Hc. rewrite Hc. unfold app_eff. simpl. destruct s; reflexivity.
Qed.

Lemma scripting_balanced :
  (forall s k s' tr, exec prog_get_root s k s' tr -> acquire_stmt s k s' tr) /\
  (forall s k s' tr, exec prog_prepare s k s' tr -> acquire_stmt s k s' tr) /\
  (forall s k s' tr, exec prog_get_root_closer s k s' tr -> s' = tl s) /\
  (forall s k s' tr, exec prog_prepare_closer s k s' tr -> s' = tl s) /\
  (forall s k s' tr, exec prog_prepare_with s k s' tr -> s' = s).
Proof.
  split; [|split; [|split; [|split]]].
  - apply acquire_from_check. vm_compute. reflexivity.
  - apply acquire_from_check. vm_compute. reflexivity.
  - apply pop1_from_check. vm_compute. reflexivity.
  - apply pop1_from_check. vm_compute. reflexivity.
  - assert (H : all_paths balanced_c prog_prepare_with = true) by (vm_compute; reflexivity).
    intros s k s' tr HE. destruct (all_paths_sound _ _ H _ _ _ _ HE) as [su [Hc C]].
    eapply balanced_c_ok; eassumption.
Qed.

(* pyramid.paster.bootstrap (get_app, then scripting.prepare): acquires like prepare; the with-form is balanced *)
Lemma bootstrap_balanced :
  (forall s k s' tr, exec prog_bootstrap s k s' tr -> acquire_stmt s k s' tr) /\
  (forall s k s' tr, exec prog_bootstrap_with s k s' tr -> s' = s).
Proof.
  split.
  - apply acquire_from_check. vm_compute. reflexivity.
  - assert (H : all_paths balanced_c prog_bootstrap_with = true) by (vm_compute; reflexivity).
    intros s k s' tr HE. destruct (all_paths_sound _ _ H _ _ _ _ HE) as [su [Hc C]].
    eapply balanced_c_ok; eassumption.
Qed.

Example scripting_has_both_exits :
  some_path (fun su => kind_eqb (kind_of su) KExc && memN mk_rootfactory (marks su)) prog_prepare = true /\
  some_path (fun su => kind_eqb (kind_of su) KN && memN mk_rootfactory (marks su)) prog_prepare = true /\
  some_path (fun su => kind_eqb (kind_of su) KExc && memN mk_rootfactory (marks su)) prog_get_root = true.
Proof. repeat split; vm_compute; reflexivity. Qed.

(* the skeleton that leaks (scripting.get_root before the repair: push; call; return) is rejected *)
Example leaky_get_root_rejected :
  all_paths acquire_c (Scope (Seq (Scope (Seq (Push tag_request_context) Return))
                                  (Seq (Mark mk_rootfactory) (Seq Call Return)))) = false.
Proof. vm_compute. reflexivity. Qed.
