(* C04 proofs, part 5a: groupby(sorted(enumerate(actions))) = one group per phase,
   in increasing phase order, each holding that phase's actions in declaration order. *)
From Coq Require Import List NArith ZArith Bool Lia Permutation Sorted.
Import ListNotations.
Require Import Verif.Lib.Wire Verif.Lib.C04Sort Verif.Gen.Facts_C04 Verif.Model.C04.
Require Import Verif.Proofs.C04_decide Verif.Proofs.C04_safe.

Definition okey (x : ainfo) : Z := ordkey (snd x).

Lemma group_key_okey : group_key = okey.
Proof. reflexivity. Qed.

Lemma leb12_spec x y :
  leb_by orderandpos_key x y = true <-> (okey x < okey y \/ (okey x = okey y /\ (fst x <= fst y)%N))%Z.
Proof.
  unfold leb_by. replace orderandpos_key with [1; 2]%N by reflexivity. cbn [lex_cmp key_cmp]. unfold okey.
  destruct (Z.compare_spec (ordkey (snd x)) (ordkey (snd y))) as [E|E|E].
  - destruct (N.compare_spec (fst x) (fst y)) as [F|F|F]; split; intros H; try reflexivity; try discriminate; try lia.
  - split; [lia|reflexivity].
  - split; [discriminate|lia].
Qed.

Lemma leb12_total x y : leb_by orderandpos_key x y = true \/ leb_by orderandpos_key y x = true.
Proof. rewrite !leb12_spec. lia. Qed.

Lemma leb12_trans x y z :
  leb_by orderandpos_key x y = true -> leb_by orderandpos_key y z = true -> leb_by orderandpos_key x z = true.
Proof. rewrite !leb12_spec. lia. Qed.

Lemma SS_filter_impl {A} (R R' : A -> A -> Prop) (p : A -> bool) l :
  StronglySorted R l -> (forall x y, p x = true -> p y = true -> R x y -> R' x y) ->
  StronglySorted R' (filter p l).
Proof.
  intros H HR. induction H as [|x r Hs IH Hall]; simpl; [constructor|].
  destruct (p x) eqn:Px; [|exact IH]. constructor; [exact IH|].
  rewrite Forall_forall in *. intros y Hy. apply filter_In in Hy. destruct Hy as [Hy Py]. apply HR; auto.
Qed.

Lemma SS_impl {A} (R R' : A -> A -> Prop) l :
  StronglySorted R l -> (forall x y, R x y -> R' x y) -> StronglySorted R' l.
Proof.
  intros H HR. induction H as [|x r Hs IH Hall]; constructor; [exact IH|].
  eapply Forall_impl; [|exact Hall]. intros; apply HR; assumption.
Qed.

Lemma Permutation_filter' {A} (p : A -> bool) l1 l2 : Permutation l1 l2 -> Permutation (filter p l1) (filter p l2).
Proof.
  induction 1; simpl.
  - reflexivity.
  - destruct (p x); [constructor|]; assumption.
  - destruct (p x), (p y); try reflexivity. apply perm_swap.
  - etransitivity; eassumption.
Qed.

(* ---------- enumerate *)
Lemma enumerate_ge l : forall s, Forall (fun x => (s <= fst x)%N) (enumerate s l).
Proof.
  induction l as [|a r IH]; intros s; simpl; constructor; [simpl; lia|].
  eapply Forall_impl; [|apply IH]. simpl. intros; lia.
Qed.

Lemma enumerate_sorted l : forall s, StronglySorted (fun x y => (fst x < fst y)%N) (enumerate s l).
Proof.
  induction l as [|a r IH]; intros s; simpl; constructor; [apply IH|].
  eapply Forall_impl; [|apply enumerate_ge]. simpl. intros; lia.
Qed.

Lemma enumerate_NoDup_fst l s : NoDup (map fst (enumerate s l)).
Proof.
  revert s. induction l as [|a r IH]; intros s; simpl; constructor; [|apply IH].
  intros H. apply in_map_iff in H. destruct H as [y [E Hy]].
  pose proof (enumerate_ge r (N.succ s)) as G. rewrite Forall_forall in G. specialize (G y Hy). lia.
Qed.

Lemma enumerate_snd l : forall s, map snd (enumerate s l) = l.
Proof. induction l as [|a r IH]; intros s; simpl; [reflexivity|]. rewrite IH. reflexivity. Qed.

Lemma filter_snd_enumerate (f : action -> bool) l : forall s,
  map snd (filter (fun x => f (snd x)) (enumerate s l)) = filter f l.
Proof.
  induction l as [|a r IH]; intros s; simpl; [reflexivity|]. destruct (f a); simpl; rewrite IH; reflexivity.
Qed.

(* ---------- groups with strictly increasing, homogeneous keys are filters of their concatenation *)
Lemma groups_are_filters (key : ainfo -> Z) : forall gs : list (Z * list ainfo),
  StronglySorted Z.lt (map fst gs) ->
  Forall (fun kg => Forall (fun x => key x = fst kg) (snd kg)) gs ->
  gs = map (fun k => (k, filter (fun x => Z.eqb (key x) k) (concat (map snd gs)))) (map fst gs).
Proof.
  induction gs as [|[k g] r IH]; intros Hs Hh; [reflexivity|].
  simpl in Hs. inversion Hs as [|? ? Hs' Hlt]; subst. inversion Hh as [|? ? Hg Hr]; subst. simpl in Hg.
  assert (Fg : forall k', filter (fun x => Z.eqb (key x) k') g = if Z.eqb k k' then g else []).
  { intros k'. destruct (Z.eqb k k') eqn:E.
    - apply Z.eqb_eq in E. subst k'. clear - Hg. induction g as [|x g IH]; [reflexivity|]. inversion Hg; subst. simpl.
      rewrite Z.eqb_refl. f_equal. apply IH. assumption.
    - apply Z.eqb_neq in E. clear - Hg E. induction g as [|x g IH]; [reflexivity|]. inversion Hg; subst. simpl.
      destruct (Z.eqb (key x) k') eqn:E'; [apply Z.eqb_eq in E'; congruence|]. apply IH. assumption. }
  assert (Fr : filter (fun x => Z.eqb (key x) k) (concat (map snd r)) = []).
  { clear - Hlt Hr. induction r as [|[k' g'] r IH]; [reflexivity|]. simpl. rewrite filter_app.
    inversion Hr as [|? ? Hg' Hr']; subst. simpl in Hlt. inversion Hlt as [|? ? Hk Hlt']; subst. simpl in Hg'.
    rewrite IH by assumption. rewrite app_nil_r. clear - Hg' Hk. induction g' as [|x g IH]; [reflexivity|].
    inversion Hg'; subst. simpl. destruct (Z.eqb (key x) k) eqn:E; [apply Z.eqb_eq in E; lia|]. apply IH. assumption. }
  simpl. f_equal.
  - f_equal. rewrite filter_app, Fg, Z.eqb_refl, Fr, app_nil_r. reflexivity.
  - rewrite (IH Hs' Hr) at 1. apply map_ext_in. intros k' Hk'. f_equal.
    rewrite filter_app, Fg. rewrite Forall_forall in Hlt. specialize (Hlt k' Hk').
    destruct (Z.eqb k k') eqn:E; [apply Z.eqb_eq in E; lia|]. reflexivity.
Qed.

(* ---------- phases = strictly increasing list of the orders in use *)
Lemma dedup_adjacent_spec l :
  StronglySorted Z.le l ->
  StronglySorted Z.lt (dedup_adjacent l) /\ forall x, In x (dedup_adjacent l) <-> In x l.
Proof.
  induction 1 as [|x r Hs IH Hall]; [split; [constructor|tauto]|].
  destruct IH as [IH1 IH2]. cbn [dedup_adjacent]. destruct r as [|y r'].
  - split; [repeat constructor|tauto].
  - destruct (Z.eqb x y) eqn:E.
    + apply Z.eqb_eq in E. subst y. split; [exact IH1|]. intros z. rewrite IH2. simpl. tauto.
    + apply Z.eqb_neq in E. split.
      * constructor; [exact IH1|]. rewrite Forall_forall in *. intros z Hz. apply IH2 in Hz.
        pose proof (Hall y (or_introl eq_refl)). pose proof (Hall z Hz).
        inversion Hs as [|? ? _ Hy]; subst. rewrite Forall_forall in Hy.
        destruct Hz as [<-|Hz]; [lia|]. specialize (Hy z Hz). lia.
      * intros z. simpl. rewrite IH2. simpl. tauto.
Qed.

Lemma lt_sorted_ext l1 : forall l2,
  StronglySorted Z.lt l1 -> StronglySorted Z.lt l2 -> (forall x, In x l1 <-> In x l2) -> l1 = l2.
Proof.
  induction l1 as [|h1 t1 IH]; intros l2 S1 S2 E.
  - destruct l2 as [|h2 t2]; [reflexivity|]. exfalso. apply (E h2). left. reflexivity.
  - destruct l2 as [|h2 t2]; [exfalso; apply (E h1); left; reflexivity|].
    inversion S1 as [|? ? S1' F1]; subst. inversion S2 as [|? ? S2' F2]; subst. rewrite Forall_forall in F1, F2.
    assert (h1 = h2) as ->.
    { destruct (proj1 (E h1) (or_introl eq_refl)) as [H|H]; [congruence|].
      destruct (proj2 (E h2) (or_introl eq_refl)) as [H'|H']; [congruence|].
      specialize (F1 _ H'). specialize (F2 _ H). lia. }
    f_equal. apply IH; [assumption|assumption|]. intros x. split; intros Hx.
    + destruct (proj1 (E x) (or_intror Hx)) as [H|H]; [|exact H]. specialize (F1 _ Hx). lia.
    + destruct (proj2 (E x) (or_intror Hx)) as [H|H]; [|exact H]. specialize (F2 _ Hx). lia.
Qed.

Lemma Zleb_total x y : Z.leb x y = true \/ Z.leb y x = true.
Proof. rewrite !Z.leb_le. lia. Qed.
Lemma Zleb_trans x y z : Z.leb x y = true -> Z.leb y z = true -> Z.leb x z = true.
Proof. rewrite !Z.leb_le. lia. Qed.

Lemma phases_spec acts :
  StronglySorted Z.lt (phases acts) /\ forall p, In p (phases acts) <-> exists a, In a acts /\ ordkey a = p.
Proof.
  unfold phases.
  assert (S : StronglySorted Z.le (sort Z.leb (map ordkey acts))).
  { eapply SS_impl; [apply (sort_sorted Z.leb Zleb_total Zleb_trans)|]. unfold le. intros x y H. apply Z.leb_le. exact H. }
  destruct (dedup_adjacent_spec _ S) as [H1 H2]. split; [exact H1|]. intros p. rewrite H2, sort_In, in_map_iff.
  split; intros [a [Ha Hb]]; exists a; tauto.
Qed.

(* ---------- the theorem of this part *)
Definition phase_group (acts : list action) (p : Z) : list ainfo :=
  filter (fun x => Z.eqb (okey x) p) (enumerate 0 acts).

Theorem groups_of_phases acts :
  groups_of acts = map (fun p => (p, phase_group acts p)) (phases acts).
Proof.
  unfold groups_of. rewrite group_key_okey.
  set (E := enumerate 0 acts). set (S := sort (leb_by orderandpos_key) E).
  assert (SS : StronglySorted (fun x y => leb_by orderandpos_key x y = true) S)
    by apply (sort_sorted _ leb12_total leb12_trans).
  assert (SK : StronglySorted (fun x y => (okey x <= okey y)%Z) S).
  { eapply SS_impl; [exact SS|]. intros x y H. cbv beta in *. apply leb12_spec in H. lia. }
  pose proof (groupby_sorted_keys okey S SK) as GK.
  pose proof (groupby_keys okey S) as GH. pose proof (groupby_concat okey S) as GC.
  rewrite (groups_are_filters okey (groupby okey S) GK) at 1.
  2:{ eapply Forall_impl; [|exact GH]. intros kg [_ H]. exact H. }
  rewrite GC.
  assert (EK : map fst (groupby okey S) = phases acts).
  { destruct (phases_spec acts) as [P1 P2]. apply lt_sorted_ext; [exact GK|exact P1|]. intros p. rewrite P2. split.
    - intros H. apply in_map_iff in H. destruct H as [[k g] [Ek Hkg]]. simpl in Ek. subst k.
      rewrite Forall_forall in GH. destruct (GH _ Hkg) as [Hne Hall]. simpl in *.
      destruct g as [|x g']; [congruence|]. inversion Hall as [|? ? Hx _]; subst.
      assert (In x S) as HxS. { rewrite <- GC. apply in_concat. exists (x :: g'). split; [|left; reflexivity].
        apply in_map_iff. exists (okey x, x :: g'). split; [reflexivity|exact Hkg]. }
      apply sort_In in HxS. exists (snd x). split; [|reflexivity].
      rewrite <- (enumerate_snd acts 0%N). apply in_map. exact HxS.
    - intros [a [Ha Ho]]. rewrite <- (enumerate_snd acts 0%N) in Ha. apply in_map_iff in Ha. destruct Ha as [x [Ex Hx]].
      assert (In x S) as HxS by (apply sort_In; exact Hx). rewrite <- GC in HxS. apply in_concat in HxS.
      destruct HxS as [g [Hg Hxg]]. apply in_map_iff in Hg. destruct Hg as [[k g0] [Eg Hkg]]. simpl in Eg. subst g0.
      rewrite Forall_forall in GH. destruct (GH _ Hkg) as [_ Hall]. simpl in Hall. rewrite Forall_forall in Hall.
      specialize (Hall x Hxg). apply in_map_iff. exists (k, g). split; [|exact Hkg]. simpl. unfold okey in Hall. congruence. }
  rewrite EK. apply map_ext. intros p. f_equal. unfold phase_group. fold E.
  apply (sorted_perm_unique (fun x : ainfo => fst x)).
  - apply NoDup_map_filter. eapply Permutation_NoDup; [apply Permutation_map; symmetry; apply sort_perm|]. apply enumerate_NoDup_fst.
  - eapply SS_filter_impl; [exact SS|]. intros x y Hx Hy H. cbv beta in *. apply leb12_spec in H. apply Z.eqb_eq in Hx, Hy. unfold key_le. lia.
  - eapply SS_filter_impl; [apply (enumerate_sorted acts 0%N)|]. intros x y _ _ H. cbv beta in *. unfold key_le. lia.
  - apply Permutation_filter'. apply sort_perm.
Qed.
