(* C09 -- the program REGENERATED from src/pyramid/authentication.py on this run (the gen_ definitions of Gen/Facts_C09.v)
   equals the hand-written reference model (Model/C09.v) for all inputs.

   The proof scripts never mention the text of the generated terms: they unfold both sides, inline the
   lets and join points, case-split on every scrutinee the primitive table can produce, and ask that both
   sides compute to the same result; loops are taken apart by pattern and need one induction each. *)
From Coq Require Import List NArith ZArith Bool Lia.
Import ListNotations.
Require Import Verif.Lib.Wire Verif.Lib.Text Verif.Lib.Percent Verif.Lib.Utf8 Verif.Lib.C09Base Verif.Lib.C09BaseP.
Require Import Verif.Gen.Facts_C09 Verif.Model.C09 Verif.Proofs.C09 Verif.Proofs.C09_rt Verif.Proofs.C09_more.

(* case-split on the innermost scrutinee of any match / if in the goal *)
Ltac split_one :=
  match goal with
  | |- context [match ?x with _ => _ end] =>
      lazymatch x with
      | context [match _ with _ => _ end] => fail
      | _ => destruct x eqn:?
      end
  end.
Ltac split_all := repeat (split_one; cbn beta iota zeta; try discriminate).

Lemma split1_mem c s : memN c s = true -> exists a b, split1 c s = Some (a, b).
Proof.
  induction s as [|x s IH]; simpl; [discriminate|].
  rewrite N.eqb_sym. destruct (N.eqb x c) eqn:E; simpl; [eauto|].
  intros Hm. destruct (IH Hm) as (a & b & ->). eauto.
Qed.

Lemma split1_mem_false c s : memN c s = false -> split1 c s = None.
Proof.
  induction s as [|x s IH]; simpl; [reflexivity|].
  rewrite N.eqb_sym. destruct (N.eqb x c) eqn:E; simpl; [discriminate|].
  intros Hm. rewrite (IH Hm). reflexivity.
Qed.

Lemma count_mem c s : Nat.ltb 1 (count_char c s) = true -> memN c s = true.
Proof.
  induction s as [|x s IH]; [discriminate|]. cbn [count_char memN].
  rewrite (N.eqb_sym c x). destruct (N.eqb x c); [reflexivity|]. cbn [orb Nat.add]. exact IH.
Qed.

(* the facts the regenerated text spells out as literals *)
Ltac facts_to_literals :=
  change strip_ch with 34%N in *; change digest_mult with 2%nat in *; change ts_base with 16%N in *;
  change ts_field with 8%nat in *; change bang with 33%N in *; change comma with 44%N in *;
  change pipe with 124%N in *; change ts_width with 8%nat in *.

Lemma default_ip_lit : classify_ip default_ip = Some (ip_lit default_ip).
Proof. vm_compute. reflexivity. Qed.

Lemma strip_prefix_startswith p s :
  strip_prefix p s = if startswith p s then Some (skipn (length p) s) else None.
Proof.
  revert s; induction p as [|x p IH]; intros s; [reflexivity|].
  destruct s as [|y s]; [reflexivity|]. cbn [strip_prefix startswith length skipn].
  destruct (N.eqb x y); cbn [andb]; [apply IH|reflexivity].
Qed.

Section G.
Variable H : text -> list N -> text.
Variable dsz : text -> nat.
Variable uni : N -> N.

Theorem gen_encode_ip_timestamp_is_model ip ts :
  gen_encode_ip_timestamp ip ts = ip4_parts ip ++ ts_bytes ts.
Proof. reflexivity. Qed.

Theorem gen_calculate_digest_is_model ip ts sec u tk ud alg :
  gen_calculate_digest H ip ts sec u tk ud alg = calculate_digest H alg ip ts sec u tk ud.
Proof.
  unfold gen_calculate_digest, calculate_digest, digest_msg, ip_timestamp.
  rewrite ?gen_encode_ip_timestamp_is_model. cbv zeta beta.
  destruct ip; cbn [is_ip6 ip6_text ip4_parts]; rewrite <- ?app_assoc; reflexivity.
Qed.

Theorem gen_ticket_digest_is_model alg ip t sec u toks ud :
  gen_ticket_digest H alg ip t sec u toks ud = calculate_digest H alg ip (Z.of_N t) sec u (join [comma] toks) ud.
Proof. unfold gen_ticket_digest. apply gen_calculate_digest_is_model. Qed.

Theorem gen_cookie_value_is_model alg ip t sec u toks ud :
  gen_ticket_cookie_value H alg ip t sec u toks ud = cookie_value H alg ip t sec u toks ud.
Proof.
  unfold gen_ticket_cookie_value, cookie_value. rewrite gen_ticket_digest_is_model, ?N2Z.id.
  cbv zeta beta. change ts_width with 8%nat. change quote_safe with [47]%N. change bang with 33%N.
  destruct (join [comma] toks); cbn [nonempty]; rewrite <- ?app_assoc; reflexivity.
Qed.

Theorem gen_parse_ticket_is_model sec ticket ip alg :
  gen_parse_ticket H dsz uni sec ticket ip alg = parse_ticket H dsz uni sec ticket ip alg.
Proof.
  unfold gen_parse_ticket, parse_ticket, parse_fields, digest_len, slice.
  cbv zeta beta. rewrite ?gen_calculate_digest_is_model. facts_to_literals.
  replace (dsz alg * 2 + 8 - dsz alg * 2)%nat with 8%nat by lia.
  repeat match goal with
  | _ => progress rewrite gen_calculate_digest_is_model
  | |- context [memN 33 ?d] =>
      let M := fresh "M" in destruct (memN 33 d) eqn:M;
      [ let a := fresh in let b := fresh in let E := fresh in
        destruct (split1_mem _ _ M) as (a & b & E); unfold split1_tot; rewrite ?E
      | rewrite ?(split1_mem_false _ _ M) ]
  | _ => split_one; cbn beta iota zeta; try discriminate
  end; try reflexivity; try congruence.
Qed.

Theorem gen_get_cookies_is_model c r value ma :
  gen_get_cookies c r value ma = get_cookies c r value ma.
Proof.
  unfold gen_get_cookies, get_cookies, pick_domain, truthy. cbv zeta beta.
  repeat match goal with
  | |- context [Nat.ltb 1 (count_char ?ch ?d)] =>
      let M := fresh "M" in destruct (Nat.ltb 1 (count_char ch d)) eqn:M;
      [ let a := fresh in let b := fresh in let E := fresh in
        destruct (split1_mem _ _ (count_mem _ _ M)) as (a & b & E); unfold split1_tot; rewrite ?E
      | ]
  | _ => split_one; cbn beta iota zeta; try discriminate
  end; cbn [nonempty andb snd]; try reflexivity; try congruence.
Qed.

Theorem gen_forget_is_model c r st :
  gen_forget c r st = (mkSt (reissued st) true (callbacks st), Some (get_cookies c r None None)).
Proof. unfold gen_forget. rewrite gen_get_cookies_is_model. reflexivity. Qed.

(* ---------------------------------------------------------------- remember *)
Definition remember_result (st : state) (o : option (list ck)) : state * option (list ck) :=
  match o with
  | Some hs => (mkSt (reissued st) true (callbacks st), Some hs)
  | None => (st, None)
  end.

Theorem gen_remember_is_model c r st a ma toks :
  gen_remember H c r st a ma toks = remember_result st (remember H c r (uarg_val a) ma toks).
Proof.
  unfold gen_remember, remember, eff_ip, encode_userid, enc_of. cbv zeta beta.
  rewrite default_ip_lit.
  assert (L : forall ip enc tag ma' l acc F,
    (forall l acc, F l acc =
       match l with
       | [] => (set_revoked st true, Some (get_cookies c r (Some (cookie_value H (hashalg c) ip (Z.to_N (now r)) (secret c) enc acc
                                                       (userid_typename ++ tag))) ma'))
       | x :: t => match ascii_opt x with
                   | Some x' => if regex_match tok_first tok_rest tok_dollar x' then F t (acc ++ [x']) else (st, None)
                   | None => (st, None)
                   end
       end) ->
    F l acc = remember_result st
      (if forallb valid_token l
       then Some (get_cookies c r (Some (cookie_value H (hashalg c) ip (Z.to_N (now r)) (secret c) enc (acc ++ l)
                                                      (userid_typename ++ tag))) ma')
       else None)).
  { intros ip enc tag ma' l. induction l as [|x l IH]; intros acc F HF; rewrite HF.
    - rewrite app_nil_r. reflexivity.
    - cbn [forallb]. unfold valid_token at 1, ascii_opt.
      destruct (is_ascii x); cbn [andb]; [|reflexivity].
      change (match x with c0 :: r0 => memN c0 tok_first && rest_ok r0 | [] => false end)
        with (regex_match tok_first tok_rest tok_dollar x).
      destruct (regex_match tok_first tok_rest tok_dollar x); [|reflexivity].
      rewrite (IH (acc ++ [x]) F HF), <- app_assoc. reflexivity. }
  (* the type lookup: an exact table type, or anything else (then the str entry and str(x)) *)
  destruct a as [u|s]; cbn [enc_of_arg uarg_val str_other]; unfold enc_of;
  repeat match goal with
  | |- ?F toks [] = _ =>
      is_fix F; eapply eq_trans; [apply L; intros l0 acc0; destruct l0; cbn beta iota;
                             rewrite ?gen_cookie_value_is_model, ?gen_get_cookies_is_model; reflexivity|]
  | _ => split_one; cbn beta iota zeta; try discriminate
  end; try reflexivity; try congruence.
Qed.

(* ---------------------------------------------------------------- identify *)
(* the part of the model's identify after the user id has been decoded *)
Definition id_tail (c : cfg) (r : req) (st : state) (ts : Z) (u : uval) (tokens : list text) (ud : text) : state * idres :=
  match reissue_time c with
  | Some rt =>
      if negb (reissued st) && cmp_eval reissue_cmp (now2 r - 2 * ts) (2 * rt) then
        match remember H c (later r) u (max_age c) (filter nonempty tokens) with
        | None => (st, IRaise)
        | Some hs => (mkSt true (revoked st) (callbacks st ++ [hs]), ISome ts u (filter nonempty tokens) ud)
        end
      else (st, ISome ts u tokens ud)
  | None => (st, ISome ts u tokens ud)
  end.

Lemma identify_unfold c r st :
  identify H dsz uni c r st =
  match cookie r with
  | None => (st, INone)
  | Some ck0 =>
      match eff_ip c r with
      | None => (st, IRaise)
      | Some ip =>
          match parse_ticket H dsz uni (secret c) ck0 ip (hashalg c) with
          | PBad => (st, INone)
          | POk ts userid tokens ud =>
              if timed_out c ts (now2 r) then (st, INone)
              else match decode_userid uni (split_on pipe ud) (VStr userid) with
                   | None => (st, IRaise)
                   | Some u => id_tail c r st ts u tokens ud
                   end
          end
      end
  end.
Proof.
  unfold identify, identify_pre, id_tail.
  destruct (cookie r); [|reflexivity]. destruct (eff_ip c r); [|reflexivity].
  destruct (parse_ticket H dsz uni (secret c) t i (hashalg c)); [|reflexivity].
  destruct (timed_out c ts (now2 r)); [reflexivity|].
  destruct (decode_userid uni (split_on pipe user_data) (VStr userid)); reflexivity.
Qed.

Theorem gen_identify_is_model c r st :
  gen_identify H dsz uni c r st = identify H dsz uni c r st.
Proof.
  rewrite identify_unfold. unfold gen_identify, eff_ip, timed_out. cbv zeta beta.
  rewrite default_ip_lit. facts_to_literals.
  repeat match goal with |- context [ip_lit ?x] => lazymatch x with default_ip => fail | _ => change x with default_ip end end.
  change (cmp_eval timeout_cmp) with Z.ltb.
  (* the datum loop, against decode_userid *)
  assert (L : forall ts tokens ud data u0 F,
    (forall l u1, F l u1 =
       match l with
       | [] => id_tail c r st ts u1 tokens ud
       | d :: t => if startswith userid_typename d then
                     match lookup_text (skipn (length userid_typename) d) decoders with
                     | Some k => match apply_dec uni k u1 with Some u2 => F t u2 | None => (st, IRaise) end
                     | None => F t u1
                     end
                   else F t u1
       end) ->
    F (filter nonempty data) u0 =
    match decode_userid uni data u0 with Some u => id_tail c r st ts u tokens ud | None => (st, IRaise) end).
  { intros ts tokens ud data. induction data as [|d data IH]; intros u0 F HF.
    - cbn [filter decode_userid]. rewrite HF. reflexivity.
    - cbn [filter decode_userid]. destruct d as [|x d]; cbn [nonempty]; [apply IH; exact HF|].
      rewrite HF. unfold starts_typename. rewrite strip_prefix_startswith.
      destruct (startswith userid_typename (x :: d)); [|apply IH; exact HF].
      destruct (lookup_text (skipn (length userid_typename) (x :: d)) decoders); [|apply IH; exact HF].
      destruct (apply_dec uni d0 u0); [apply IH; exact HF|reflexivity]. }
  repeat match goal with
  | _ => progress rewrite gen_parse_ticket_is_model
  | |- ?F (filter nonempty ?data) (VStr ?u0) = _ =>
      is_fix F; apply L; intros l0 u1; destruct l0; cbn beta iota; [|reflexivity];
        unfold id_tail; change (cmp_eval reissue_cmp) with (fun a b => Z.ltb b a); cbv beta;
        rewrite ?gen_remember_is_model; cbn [uarg_val]; unfold remember_result, set_revoked, set_reissued, push_callback;
        repeat (split_one; cbn beta iota zeta; cbn [negb andb reissued revoked callbacks] in *; try discriminate);
        try reflexivity; try congruence
  | _ => split_one; cbn beta iota zeta; try discriminate
  end; try reflexivity; try congruence.
Qed.

(* ---------------------------------------------------------------- whole operations and sequences *)
Theorem gen_step_is_model c r st o : gen_step H dsz uni c r st o = step H dsz uni c r st (op_of o).
Proof.
  destruct o as [|a ma toks|]; cbn [gen_step step op_of].
  - rewrite gen_identify_is_model. reflexivity.
  - rewrite gen_remember_is_model. destruct (remember H c r (uarg_val a) ma toks); reflexivity.
  - rewrite gen_forget_is_model. reflexivity.
Qed.

Theorem gen_run_ops_is_model c r ops : forall st,
  gen_run_ops H dsz uni c r st ops = run_ops H dsz uni c r st (map op_of ops).
Proof.
  induction ops as [|o ops IH]; intros st; [reflexivity|].
  cbn [gen_run_ops run_ops map]. rewrite gen_step_is_model.
  destruct (step H dsz uni c r st (op_of o)) as [st1 x]. rewrite IH. reflexivity.
Qed.

(* ---------------------------------------------------------------- the policy wrapper *)
Definition ures_of (x : idres) : ures :=
  match x with INone => UNone | ISome _ u _ _ => USome u | IRaise => URaise end.

Theorem gen_policy_userid_is_model c r st :
  gen_policy_userid H dsz uni c r st = (fst (identify H dsz uni c r st), ures_of (snd (identify H dsz uni c r st))).
Proof.
  unfold gen_policy_userid. rewrite gen_identify_is_model.
  destruct (identify H dsz uni c r st) as [st1 [|ts u tk ud|]]; reflexivity.
Qed.

Theorem gen_policy_remember_is_helper c r st a ma toks :
  gen_policy_remember H c r st a ma toks = gen_remember H c r st a ma toks.
Proof. reflexivity. Qed.

Theorem gen_policy_forget_is_helper c r st : gen_policy_forget c r st = gen_forget c r st.
Proof. reflexivity. Qed.

Theorem gen_pstep_is_step c r st o : gen_pstep H dsz uni c r st o = gen_step H dsz uni c r st o.
Proof. destruct o; reflexivity. Qed.

Theorem gen_run_ops2_is_model pol c0 r0 c1 r1 ops : forall st,
  gen_run_ops2 H dsz uni pol c0 r0 c1 r1 st ops = run_ops2 H dsz uni c0 r0 c1 r1 st (map op2_of ops).
Proof.
  induction ops as [|[b o] ops IH]; intros st; [reflexivity|].
  cbn [gen_run_ops2 run_ops2 map]. unfold op2_of at 1. cbn [fst snd].
  replace (if b then gen_step H dsz uni c1 r1 st o
           else if pol then gen_pstep H dsz uni c0 r0 st o else gen_step H dsz uni c0 r0 st o)
    with (if b then step H dsz uni c1 r1 st (op_of o) else step H dsz uni c0 r0 st (op_of o))
    by (destruct b, pol; rewrite ?gen_pstep_is_step, ?gen_step_is_model; reflexivity).
  destruct (if b then step H dsz uni c1 r1 st (op_of o) else step H dsz uni c0 r0 st (op_of o)) as [st1 x].
  rewrite IH. reflexivity.
Qed.

End G.

(* ================================================================== construction: constructor arguments -> configuration *)
(* every keyword reaches the attribute of the same name (timeout / reissue_time / max_age through int(), the identity on
   ints), the CookieProfile gets name, secure, max_age, httponly, path, samesite; the policy hands every keyword on *)
Theorem gen_helper_init_is_model s n se ii to ri ma ho pa wd al pd dm ss :
  gen_helper_init s n se ii to ri ma ho pa wd al pd dm ss
  = (helper_cfg s n se ii to ri ma ho pa wd al pd dm ss, profile_of (helper_cfg s n se ii to ri ma ho pa wd al pd dm ss)).
Proof. unfold gen_helper_init, helper_cfg, profile_of. destruct to, ri, ma; reflexivity. Qed.

Theorem gen_policy_init_is_model s n se ii to ri ma pa ho wd al pd dm ss :
  gen_policy_init s n se ii to ri ma pa ho wd al pd dm ss
  = (helper_cfg s n se ii to ri ma ho pa wd al pd dm ss, profile_of (helper_cfg s n se ii to ri ma ho pa wd al pd dm ss)).
Proof. unfold gen_policy_init. apply gen_helper_init_is_model. Qed.

Theorem gen_defaults_are_documented s :
  gen_helper_defaults s = (default_cfg s, profile_of (default_cfg s))
  /\ gen_policy_defaults s = (default_cfg s, profile_of (default_cfg s)).
Proof.
  unfold gen_helper_defaults, gen_policy_defaults. rewrite gen_policy_init_is_model, gen_helper_init_is_model.
  split; reflexivity.
Qed.

Lemma helper_args_id c : helper_args c = (c, profile_of c).
Proof. unfold helper_args. rewrite gen_helper_init_is_model. destruct c; reflexivity. Qed.
Lemma policy_args_id c : policy_args c = (c, profile_of c).
Proof. unfold policy_args. rewrite gen_policy_init_is_model. destruct c; reflexivity. Qed.

(* the constructed helper has exactly the configuration asked for, omitted keywords taking the documented defaults *)
Theorem construct_is_model pol omit c :
  construct pol omit c = pick omit c (default_cfg (secret c)).
Proof.
  unfold construct. destruct (gen_defaults_are_documented (secret c)) as [-> ->].
  destruct pol; [rewrite policy_args_id|rewrite helper_args_id]; reflexivity.
Qed.

(* omitting a keyword whose value is the documented default changes nothing *)
Fixpoint mask_ok (m : list bool) (eqs : list bool) : bool :=
  match m, eqs with
  | [], [] => true
  | b :: m', e :: eqs' => (negb b || e) && mask_ok m' eqs'
  | _, _ => false
  end.
Definition opt_eqb {A} (f : A -> A -> bool) (a b : option A) : bool :=
  match a, b with Some x, Some y => f x y | None, None => true | _, _ => false end.
Definition default_eqs (c : cfg) : list bool :=
  let d := default_cfg (secret c) in
  [text_eqb (cookie_name c) (cookie_name d); Bool.eqb (secure c) (secure d); Bool.eqb (include_ip c) (include_ip d);
   opt_eqb Z.eqb (timeout c) (timeout d); opt_eqb Z.eqb (reissue_time c) (reissue_time d);
   opt_eqb Z.eqb (max_age c) (max_age d); Bool.eqb (http_only c) (http_only d); text_eqb (path c) (path d);
   Bool.eqb (wild_domain c) (wild_domain d); Bool.eqb (parent_domain c) (parent_domain d);
   opt_eqb text_eqb (domain c) (domain d); text_eqb (hashalg c) (hashalg d); opt_eqb text_eqb (samesite c) (samesite d)].

Lemma opt_eqb_Z a b : opt_eqb Z.eqb a b = true -> a = b.
Proof. destruct a, b; simpl; try discriminate; auto. intros E. apply Z.eqb_eq in E. congruence. Qed.
Lemma opt_eqb_text a b : opt_eqb text_eqb a b = true -> a = b.
Proof.
  destruct a, b; simpl; try discriminate; auto. intros E.
  destruct (text_eqb_spec t t0); [congruence|discriminate].
Qed.
Lemma text_eqb_true a b : text_eqb a b = true -> a = b.
Proof. destruct (text_eqb_spec a b); [auto|discriminate]. Qed.

Theorem construct_omitting_defaults pol omit c :
  mask_ok omit (default_eqs c) = true -> construct pol omit c = c.
Proof.
  rewrite construct_is_model. unfold default_eqs.
  do 13 (destruct omit as [|? omit];
         [cbn [mask_ok]; intros E; repeat (apply andb_true_iff in E; destruct E as [_ E]); discriminate|]).
  destruct omit; [|cbn [mask_ok]; intros E; repeat (apply andb_true_iff in E; destruct E as [_ E]); discriminate].
  cbn [mask_ok pick]. rewrite !andb_true_iff. intros E.
  repeat match type of E with _ /\ _ => let E1 := fresh "E" in destruct E as [E1 E] end.
  destruct c as [s n se ii to ri ma ho pa wd pd dm al ss].
  cbn [secret cookie_name secure include_ip timeout reissue_time max_age http_only path wild_domain parent_domain
       domain hashalg samesite default_cfg] in *.
  f_equal;
    match goal with
    | |- (if ?b then _ else _) = _ => destruct b; [|reflexivity]; cbn [negb orb] in *
    end;
    first [ symmetry; apply text_eqb_true; assumption
          | symmetry; apply eqb_prop; assumption
          | symmetry; apply opt_eqb_Z; assumption
          | symmetry; apply opt_eqb_text; assumption ].
Qed.

(* ================================================================== the property theorems, about the regenerated program *)
Section GenProps.
Variable H : text -> list N -> text.
Variable dsz : text -> nat.
Variable uni : N -> N.

Theorem gen_accept_implies_digest c r st ck0 ts u toks ud :
  (forall a x, forallb valid_scalar (H a x) = true) -> forallb valid_scalar ck0 = true ->
  cookie r = Some ck0 ->
  snd (gen_identify H dsz uni c r st) = ISome ts u toks ud ->
  digest_ok H dsz uni c r ck0 = true.
Proof.
  intros HS Hck Hc. rewrite gen_identify_is_model. intros E.
  destruct (digest_ok H dsz uni c r ck0) eqn:D; [reflexivity|].
  destruct (identify_total H dsz uni c r st ck0 HS Hck Hc D) as [E2 _]. congruence.
Qed.

Theorem gen_identify_total c r st ck0 :
  (forall a x, forallb valid_scalar (H a x) = true) -> forallb valid_scalar ck0 = true ->
  cookie r = Some ck0 -> digest_ok H dsz uni c r ck0 = false ->
  gen_identify H dsz uni c r st = (st, INone).
Proof.
  intros HS Hck Hc D. rewrite gen_identify_is_model.
  destruct (identify_total H dsz uni c r st ck0 HS Hck Hc D) as [E1 E2].
  destruct (identify H dsz uni c r st); simpl in *; congruence.
Qed.

Theorem gen_reissue_once c r ops :
  response_cookies (fst (gen_run_ops H dsz uni c r st0 ops)) = spec_response H dsz uni c r (map op_of ops).
Proof. rewrite gen_run_ops_is_model. apply reissue_once. Qed.

Theorem gen_ticket_roundtrip alg ip t sec enc toks ud :
  H_len H dsz -> H_head H -> (t < 4294967296)%N -> is_ascii enc = true ->
  Forall (fun tk => valid_token tk = true) toks ->
  ud <> [] -> ~ In bang ud -> last ud 0%N <> strip_ch ->
  gen_parse_ticket H dsz uni sec (gen_ticket_cookie_value H alg ip t sec enc toks ud) ip alg
  = POk (Z.of_N t) enc (match toks with [] => [[]] | _ => toks end) ud.
Proof. intros. rewrite gen_parse_ticket_is_model, gen_cookie_value_is_model. apply ticket_roundtrip; assumption. Qed.

Theorem gen_issued_ticket_never_raises c r r' a ma toks st1 st1' hs k v st :
  H_len H dsz -> H_head H -> (0 <= now r < 4294967296)%Z -> wf_uval (uarg_val a) ->
  gen_remember H c r st1 a ma toks = (st1', Some hs) -> In k hs -> ck_value k = Some v ->
  cookie r' = Some v -> eff_ip c r' = eff_ip c r ->
  snd (gen_identify H dsz uni c r' st) <> IRaise.
Proof.
  intros HL HH Hn Hw Hr Hin Hv Hck Hip. rewrite gen_identify_is_model.
  rewrite gen_remember_is_model in Hr. unfold remember_result in Hr.
  destruct (remember H c r (uarg_val a) ma toks) as [hs'|] eqn:R; [|discriminate].
  inversion Hr; subst. eapply issued_ticket_never_raises; eauto.
Qed.

Theorem gen_cookie_attributes c r st a ma toks st' hs k :
  gen_remember H c r st a ma toks = (st', Some hs) -> In k hs ->
  attrs_ok c r ma k = true /\ exists v, ck_value k = Some v.
Proof.
  rewrite gen_remember_is_model. unfold remember_result.
  destruct (remember H c r (uarg_val a) ma toks) as [hs'|] eqn:R; [|discriminate].
  intros E Hin. inversion E; subst. eapply cookie_attributes_remember; eauto.
Qed.

Theorem gen_two_helpers_accept_implies_digest pol c0 r0 c1 r1 ops st :
  (forall a x, forallb valid_scalar (H a x) = true) ->
  (forall ck0, cookie r0 = Some ck0 -> forallb valid_scalar ck0 = true) ->
  (forall ck0, cookie r1 = Some ck0 -> forallb valid_scalar ck0 = true) ->
  Forall2 (fun (bo : bool * op) x => if fst bo then answer_ok H dsz uni c1 r1 x else answer_ok H dsz uni c0 r0 x)
          (map op2_of ops) (snd (gen_run_ops2 H dsz uni pol c0 r0 c1 r1 st ops)).
Proof. rewrite gen_run_ops2_is_model. apply two_helpers_accept_implies_digest. Qed.

(* the policy wrapper answers with a user id only for a cookie carrying the keyed digest of its fields, never raises on
   anything else, and reports exactly the helper's user id *)
Theorem gen_policy_accept_implies_digest c r st ck0 u :
  (forall a x, forallb valid_scalar (H a x) = true) -> forallb valid_scalar ck0 = true ->
  cookie r = Some ck0 ->
  snd (gen_policy_userid H dsz uni c r st) = USome u ->
  digest_ok H dsz uni c r ck0 = true.
Proof.
  intros HS Hck Hc. rewrite gen_policy_userid_is_model. cbn [snd]. intros E.
  destruct (digest_ok H dsz uni c r ck0) eqn:D; [reflexivity|].
  destruct (identify_total H dsz uni c r st ck0 HS Hck Hc D) as [E2 _]. rewrite E2 in E. discriminate.
Qed.

Theorem gen_policy_total c r st ck0 :
  (forall a x, forallb valid_scalar (H a x) = true) -> forallb valid_scalar ck0 = true ->
  cookie r = Some ck0 -> digest_ok H dsz uni c r ck0 = false ->
  gen_policy_userid H dsz uni c r st = (st, UNone).
Proof.
  intros HS Hck Hc D. rewrite gen_policy_userid_is_model.
  destruct (identify_total H dsz uni c r st ck0 HS Hck Hc D) as [E1 E2]. rewrite E1, E2. reflexivity.
Qed.

End GenProps.

(* ------------------------------------------------------------------ non-vacuity of the fifth-round statements *)
Example policy_and_construction_nonvacuous :
  (* the policy reports bob for bob's ticket *)
  snd (gen_policy_userid ex_H (fun _ => 2%nat) (fun _ => 63%N) ex_cfg (ex_req (Some ex_cookie) 1001) st0)
    = USome (VStr [98; 111; 98]%N)
  (* every keyword of a default configuration may be omitted; ex_cfg's timeout (10) may not *)
  /\ mask_ok (repeat true 13) (default_eqs (default_cfg [115]%N)) = true
  /\ mask_ok [false; false; false; true; false; false; false; false; false; false; false; false; false] (default_eqs ex_cfg) = false
  /\ construct true (repeat true 13) (default_cfg [115]%N) = default_cfg [115]%N
  (* remember(True): stored as the text 'True' (b64unicode), exactly like remember('True') *)
  /\ gen_remember ex_H ex_cfg (ex_req None 1000) st0 (UOther [84; 114; 117; 101]%N) None []
     = gen_remember ex_H ex_cfg (ex_req None 1000) st0 (UKnown (VStr [84; 114; 117; 101]%N)) None []
  /\ snd (gen_remember ex_H ex_cfg (ex_req None 1000) st0 (UOther [84; 114; 117; 101]%N) None []) <> None.
Proof. vm_compute. repeat split; discriminate. Qed.
