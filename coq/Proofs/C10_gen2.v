(* C10 -- the property theorems restated about the program regenerated from the source *)
From Coq Require Import List NArith ZArith Bool Lia.
Import ListNotations.
Require Import Verif.Lib.Wire Verif.Gen.Facts_C10 Verif.Model.C10 Verif.Proofs.C10 Verif.Proofs.C10_on
        Verif.Proofs.C10_codec Verif.Proofs.C10_real Verif.Proofs.C10_gen.

Lemma generated_chain_refines_spec O o : rt_b64 O -> rt_ser O -> mac_len O ->
  forall l last sv, chain_ok O o l -> inv O o last sv ->
  Forall2 ok_at (grun_chain O o last l) (spec_chain O o sv true l).
Proof. intros. rewrite grun_chain_is_model. apply chain_refines_spec; assumption. Qed.

Lemma generated_chain_refines_spec_real macf n o l :
  (forall k m, length (macf k m) = n) -> (forall k m, Forall (fun b => (b < 256)%N) (macf k m)) -> wf_chain l ->
  chain_ok (real_O macf n) o l ->
  Forall2 ok_at (grun_chain (real_O macf n) o None l) (spec_chain (real_O macf n) o None true l).
Proof. intros. rewrite grun_chain_is_model. apply chain_refines_spec_real; assumption. Qed.

Lemma generated_mutation_implies_dirty o p t s :
  st (fst (gstep o p t s)) <> st s -> dirty (fst (gstep o p t s)) = true.
Proof. rewrite gstep_is_model. apply mutation_implies_dirty. Qed.

Lemma generated_persistence O o s exc c now : rt_b64 O -> rt_ser O -> mac_len O ->
  gfinish O o s exc = FCookie c ->
  expired o now (tval (accessed s)) = false ->
  exists s0, gen_init O o (Some c) now = IOk s0 /\ st s0 = st s /\ tval (created s0) = tval (created s)
             /\ isnew s0 = false /\ dirty s0 = false /\ tval (renewed s0) = tval (accessed s).
Proof. rewrite gfinish_is_model, gen_init_is_model. apply persistence. Qed.

Lemma generated_timeout_boundary O o s exc c t : rt_b64 O -> rt_ser O -> mac_len O ->
  gfinish O o s exc = FCookie c -> timeout o = Some t ->
  (exists s0, gen_init O o (Some c) (tval (accessed s) + t * tick) = IOk s0 /\ st s0 = st s /\ isnew s0 = false)
  /\ (exists s0, gen_init O o (Some c) (tval (accessed s) + t * tick + 1) = IOk s0 /\ st s0 = [] /\ isnew s0 = false
                 /\ tval (created s0) = tval (created s)).
Proof. rewrite gfinish_is_model, !gen_init_is_model. apply timeout_boundary. Qed.

Lemma generated_cookie_iff_dirty O o s exc :
  gfinish O o s exc <> FNone <-> (dirty s = true /\ (soe o = true \/ exc = false)).
Proof. rewrite gfinish_is_model. apply cookie_iff_dirty. Qed.

Lemma generated_tamper_new_empty O o c now :
  gen_init O o (Some c) now = IOk (fresh_sess now)
  \/ exists p, unb64 O c = Some (mac O (key o) p ++ p).
Proof. rewrite gen_init_is_model. apply tamper_new_empty. Qed.

Lemma generated_oversize_refused O o s exc :
  dirty s = true -> (soe o = true \/ exc = false) ->
  (Z.of_nat (length (cookie_of O o s)) > Z.of_N cookie_limit)%Z ->
  gfinish O o s exc = FOversize.
Proof. rewrite gfinish_is_model. apply oversize_refused. Qed.

Lemma generated_reissue_boundary o p t s r :
  op_cls p (st s) = CAcc -> reissue o = Some r ->
  dirty (fst (gstep o p t s)) = dirty s || Z.gtb (int_time t * tick - tval (renewed s)) (r * tick).
Proof. rewrite gstep_is_model. apply reissue_boundary. Qed.

Lemma generated_created_preserved o l s : created (fst (grun_ops o l s)) = created s.
Proof. rewrite grun_ops_is_model. apply created_preserved. Qed.
