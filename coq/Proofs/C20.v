(* C20 proofs *)
From Coq Require Import List NArith ZArith Bool Lia.
Import ListNotations.
Require Import Verif.Lib.Wire Verif.Lib.C20Types Verif.Gen.Facts_C20 Verif.Model.C20.

(* ---------- regenerated tables (finite facts about this source, re-checked every run) *)
Lemma tables_ok_true : tables_ok = true.
Proof. vm_compute. reflexivity. Qed.

Lemma documented_ok_true : documented_ok = true.
Proof. vm_compute. reflexivity. Qed.

(* lifted: for every introspectable site of every directive and every key it
   sets: if the key is named like an argument of the directive (and the
   documentation does not say otherwise) the recorded expression is that
   argument or a normalisation of it *)
Theorem keys_faithful s k f :
  In s sites -> In (k, f) (s_keys s) ->
  mem_text k (s_params s) = true ->
  pair_mem (s_func s ++ [46%N] ++ s_var s) k documented_otherwise = false ->
  root_arg f = Some k.
Proof.
  intros Hs Hk Hp Hx.
  pose proof tables_ok_true as T. unfold tables_ok in T.
  rewrite forallb_forall in T. specialize (T s Hs). unfold site_ok in T.
  rewrite forallb_forall in T. specialize (T (k, f) Hk). unfold key_ok in T.
  rewrite Hp, Hx in T. simpl in T.
  destruct (root_arg f) as [p|]; [|discriminate]. apply text_eqb_eq in T. subst. reflexivity.
Qed.

Theorem documented_keys_recorded c ks k :
  In (c, ks) documented -> In k ks ->
  exists s f, In s sites /\ s_category s = c /\ In (k, f) (s_keys s).
Proof.
  intros Hc Hk. pose proof documented_ok_true as T. unfold documented_ok in T.
  rewrite forallb_forall in T. specialize (T (c, ks) Hc). simpl in T.
  rewrite forallb_forall in T. specialize (T k Hk). unfold records in T.
  apply existsb_exists in T. destruct T as (s & Hs & T).
  apply andb_true_iff in T. destruct T as [T1 T2]. apply text_eqb_eq in T1.
  apply existsb_exists in T2. destruct T2 as ([k' f] & Hkf & T2). simpl in T2.
  apply text_eqb_eq in T2. subst k'. exists s, f. auto.
Qed.

(* every directive site hands its introspectable to an action and runs under an action method *)
Lemma wiring_ok_true : wiring_ok = true.
Proof. vm_compute. reflexivity. Qed.
Lemma wiring_covers_true : wiring_covers = true.
Proof. vm_compute. reflexivity. Qed.

Theorem sites_wired s :
  In s sites ->
  exists w, In w sites_wiring /\ fst w = s_func s ++ [46%N] ++ s_var s /\ snd w = (true, true).
Proof.
  intros Hs. pose proof wiring_covers_true as C. unfold wiring_covers in C. rewrite forallb_forall in C.
  specialize (C s Hs). apply existsb_exists in C. destruct C as (w & Hw & E). apply text_eqb_eq in E.
  pose proof wiring_ok_true as T. unfold wiring_ok in T. rewrite forallb_forall in T. specialize (T w Hw).
  apply andb_true_iff in T. destruct T as [T1 T2].
  exists w. split; [exact Hw|]. split; [exact E|]. destruct w as [k [r a]]. simpl in *. subst. reflexivity.
Qed.

(* the entry discriminator of every site depends on every parameter the action discriminator depends on *)
Lemma disc_ok_true : disc_ok = true.
Proof. vm_compute. reflexivity. Qed.
Lemma disc_covers_true : disc_covers = true.
Proof. vm_compute. reflexivity. Qed.

Theorem entry_key_determines_action_key s :
  In s sites ->
  exists r, In r sites_disc /\ fst r = s_func s ++ [46%N] ++ s_var s /\
            forall p, In p (fst (snd r)) -> mem_text p (snd (snd r)) = true.
Proof.
  intros Hs. pose proof disc_covers_true as C. unfold disc_covers in C. rewrite forallb_forall in C.
  specialize (C s Hs). apply existsb_exists in C. destruct C as (r & Hr & E). apply text_eqb_eq in E.
  pose proof disc_ok_true as T. unfold disc_ok in T. rewrite forallb_forall in T. specialize (T r Hr).
  unfold disc_row_ok in T. rewrite forallb_forall in T.
  exists r. split; [exact Hr|]. split; [exact E|]. exact T.
Qed.

(* ---------- association lists *)
Lemma assoc_set_same {B} k (v : B) l : assoc k (assoc_set k v l) = Some v.
Proof.
  induction l as [|[k' v'] r IH]; simpl.
  - rewrite text_eqb_refl. reflexivity.
  - destruct (text_eqb k k') eqn:E; simpl; [rewrite text_eqb_refl; reflexivity|rewrite E; exact IH].
Qed.

Lemma assoc_set_other {B} k k2 (v : B) l : k2 <> k -> assoc k2 (assoc_set k v l) = assoc k2 l.
Proof.
  intros Hne. induction l as [|[k' v'] r IH]; simpl.
  - destruct (text_eqb_spec k2 k); [contradiction|reflexivity].
  - destruct (text_eqb_spec k k') as [->|Hn]; simpl.
    + destruct (text_eqb_spec k2 k'); [contradiction|reflexivity].
    + destruct (text_eqb k2 k'); [reflexivity|exact IH].
Qed.

(* ---------- get after add *)
Lemma lookup_add_same s i : lookup (add s i) (icat i) (idisc i) = Some i.
Proof.
  unfold lookup, cat_of, add. simpl. rewrite assoc_set_same, assoc_set_same. reflexivity.
Qed.

Lemma lookup_add_other s i c d :
  (c, d) <> (icat i, idisc i) -> lookup (add s i) c d = lookup s c d.
Proof.
  intros Hne. unfold lookup, cat_of, add. simpl.
  destruct (text_eq_dec c (icat i)) as [->|Hc].
  - rewrite assoc_set_same. rewrite assoc_set_other by congruence. reflexivity.
  - rewrite assoc_set_other by assumption. reflexivity.
Qed.

(* relate / unrelate never touch the categories *)
Lemma relate_cats s ps s' : relate s ps = Ok s' -> cats s' = cats s.
Proof. unfold relate. destruct (intrs_by_pairs s ps); intros H; inversion H; reflexivity. Qed.
Lemma unrelate_cats s ps s' : unrelate s ps = Ok s' -> cats s' = cats s.
Proof. unfold unrelate. destruct (intrs_by_pairs s ps); intros H; inversion H; reflexivity. Qed.

Lemma lookup_cats s s' c d : cats s' = cats s -> lookup s' c d = lookup s c d.
Proof. intros H. unfold lookup, cat_of. rewrite H. reflexivity. Qed.

Lemma replay_cats rs : forall s i s' e, replay s i rs = (s', e) -> cats s' = cats s.
Proof.
  induction rs as [|[c d|c d] r IH]; intros s i s' e H; simpl in H.
  - inversion H; reflexivity.
  - destruct (relate s _) as [s1|] eqn:E; [|inversion H; reflexivity].
    rewrite (IH _ _ _ _ H). eapply relate_cats; eassumption.
  - destruct (unrelate s _) as [s1|] eqn:E; [|inversion H; reflexivity].
    rewrite (IH _ _ _ _ H). eapply unrelate_cats; eassumption.
Qed.

Lemma register_lookup_same s i rs s' :
  register s i rs = (s', None) -> lookup s' (icat i) (idisc i) = Some i.
Proof.
  unfold register. intros H. rewrite (lookup_cats _ _ _ _ (replay_cats _ _ _ _ _ H)).
  apply lookup_add_same.
Qed.

Lemma register_lookup_other s i rs s' c d :
  register s i rs = (s', None) -> (c, d) <> (icat i, idisc i) -> lookup s' c d = lookup s c d.
Proof.
  unfold register. intros H Hne. rewrite (lookup_cats _ _ _ _ (replay_cats _ _ _ _ _ H)).
  apply lookup_add_other; assumption.
Qed.

(* ---------- only executed actions are recorded; the entry is the latest one *)
Definition keyb (c d : text) (x : intr * list relop) : bool :=
  text_eqb (icat (fst x)) c && text_eqb (idisc (fst x)) d.

Fixpoint find_last {A} (f : A -> bool) (l : list A) : option A :=
  match l with
  | [] => None
  | x :: r => match find_last f r with Some y => Some y | None => if f x then Some x else None end
  end.

Lemma register_all_lookup l : forall s s' c d,
  register_all s l = Ok s' ->
  lookup s' c d = match find_last (keyb c d) l with
                  | Some x => Some (fst x)
                  | None => lookup s c d
                  end.
Proof.
  induction l as [|[i rs] r IH]; intros s s' c d H; simpl in H.
  - inversion H; reflexivity.
  - destruct (register s i rs) as [s1 [e|]] eqn:E; [discriminate|].
    rewrite (IH _ _ c d H). simpl.
    destruct (find_last (keyb c d) r) as [y|]; [reflexivity|].
    unfold keyb at 1. simpl.
    destruct (text_eqb_spec (icat i) c) as [<-|Hc]; simpl.
    + destruct (text_eqb_spec (idisc i) d) as [<-|Hd].
      * eapply register_lookup_same; eassumption.
      * eapply register_lookup_other; [eassumption|congruence].
    + eapply register_lookup_other; [eassumption|congruence].
Qed.

Lemma find_last_some {A} (f : A -> bool) l x : find_last f l = Some x -> In x l /\ f x = true.
Proof.
  induction l as [|y r IH]; simpl; [discriminate|].
  destruct (find_last f r) as [z|] eqn:E.
  - intros H; inversion H; subst. destruct (IH eq_refl); auto.
  - destruct (f y) eqn:Fy; [|discriminate]. intros H; inversion H; subst. auto.
Qed.

Lemma find_last_none {A} (f : A -> bool) l : find_last f l = None -> forall x, In x l -> f x = false.
Proof.
  induction l as [|y r IH]; simpl; [intros _ x []|].
  destruct (find_last f r) eqn:E; [discriminate|].
  destruct (f y) eqn:Fy; [discriminate|]. intros _ x [<-|Hx]; auto.
Qed.

Lemma lookup_init c d : lookup init c d = None.
Proof. reflexivity. Qed.

(* after a commit that started from an empty introspector: an entry exists for
   (category, discriminator) iff an EXECUTED action carried an introspectable
   with that key -- statements that were overridden (not executed) leave no
   entry of their own -- and the entry is the one of the last such action *)
Theorem only_executed_are_recorded executed s' c d :
  commit_register true init executed = Ok s' ->
  (lookup s' c d <> None <->
   exists i rs, In (i, rs) (concat executed) /\ icat i = c /\ idisc i = d).
Proof.
  unfold commit_register. intros H.
  rewrite (register_all_lookup _ _ _ c d H), lookup_init. split.
  - destruct (find_last (keyb c d) (concat executed)) as [[i rs]|] eqn:E; [|congruence].
    intros _. apply find_last_some in E. destruct E as [Hin Hk]. unfold keyb in Hk. simpl in Hk.
    apply andb_true_iff in Hk. destruct Hk as [H1 H2]. apply text_eqb_eq in H1, H2. eauto.
  - intros (i & rs & Hin & <- & <-).
    destruct (find_last (keyb (icat i) (idisc i)) (concat executed)) as [y|] eqn:E; [discriminate|].
    pose proof (find_last_none _ _ E _ Hin) as Hf. unfold keyb in Hf. simpl in Hf.
    rewrite !text_eqb_refl in Hf. discriminate.
Qed.

Theorem recorded_entry_is_latest executed s' c d :
  commit_register true init executed = Ok s' ->
  lookup s' c d = option_map fst (find_last (keyb c d) (concat executed)).
Proof.
  unfold commit_register. intros H. rewrite (register_all_lookup _ _ _ c d H), lookup_init.
  destruct (find_last _ _); reflexivity.
Qed.

(* no displacement: an executed action's entry whose key no OTHER executed entry shares is the one the introspector
   returns after the commit.  With the discriminator table (entry_key_determines_action_key: the entry key fixes the
   conflict key) this is why two statements that do not conflict both keep their entries. *)
Lemma find_last_unique {A} (f : A -> bool) l x :
  In x l -> f x = true -> (forall y, In y l -> f y = true -> y = x) -> find_last f l = Some x.
Proof.
  induction l as [|z r IH]; simpl; [intros []|].
  intros Hin Fx U.
  destruct (find_last f r) as [w|] eqn:E.
  - apply find_last_some in E. destruct E as [Hw Fw]. rewrite (U w (or_intror Hw) Fw). reflexivity.
  - destruct Hin as [->|Hin].
    + rewrite Fx. reflexivity.
    + pose proof (find_last_none _ _ E _ Hin) as C. congruence.
Qed.

Theorem entry_not_displaced executed s' i rs :
  commit_register true init executed = Ok s' ->
  In (i, rs) (concat executed) ->
  (forall j rs', In (j, rs') (concat executed) -> icat j = icat i -> idisc j = idisc i -> (j, rs') = (i, rs)) ->
  lookup s' (icat i) (idisc i) = Some i.
Proof.
  intros H Hin U. rewrite (recorded_entry_is_latest _ _ _ _ H).
  rewrite (find_last_unique (keyb (icat i) (idisc i)) (concat executed) (i, rs)); [reflexivity|exact Hin| |].
  - unfold keyb. simpl. rewrite !text_eqb_refl. reflexivity.
  - intros [j rs'] Hj K. unfold keyb in K. simpl in K. apply andb_true_iff in K. destruct K as [K1 K2].
    apply text_eqb_eq in K1, K2. apply U; auto.
Qed.

(* the same with the entry key an injective function of the conflict key: executed actions with pairwise distinct
   conflict keys (what conflict resolution leaves) all keep their entries *)
Theorem injective_keys_keep_entries (acts : list (text * (intr * list relop))) (f : text -> text) s' :
  (forall a b, f a = f b -> a = b) ->
  NoDup (map fst acts) ->
  (forall a i rs, In (a, (i, rs)) acts -> idisc i = f a) ->
  commit_register true init (map (fun x => [snd x]) acts) = Ok s' ->
  forall a i rs, In (a, (i, rs)) acts -> lookup s' (icat i) (idisc i) = Some i.
Proof.
  intros Inj ND K H a i rs Hin.
  assert (C : concat (map (fun x : text * (intr * list relop) => [snd x]) acts) = map snd acts).
  { clear. induction acts as [|x r IH]; simpl; [reflexivity|]. rewrite IH. reflexivity. }
  apply (entry_not_displaced _ _ i rs H).
  - rewrite C. apply in_map_iff. exists (a, (i, rs)). auto.
  - intros j rs' Hj _ Hd. rewrite C in Hj. apply in_map_iff in Hj. destruct Hj as ([b [j' rs'']] & E & Hb).
    simpl in E. inversion E; subst j' rs''. clear E.
    assert (b = a).
    { apply Inj. rewrite <- (K _ _ _ Hb), <- (K _ _ _ Hin). exact Hd. }
    subst b.
    assert (G : forall (l : list (text * (intr * list relop))) k v1 v2, NoDup (map fst l) -> In (k, v1) l -> In (k, v2) l -> v1 = v2).
    { clear. induction l as [|[k0 v0] r IH]; simpl; [intros ? ? ? _ []|].
      intros k v1 v2 ND [E1|H1] [E2|H2].
      - congruence.
      - inversion E1; subst. apply NoDup_cons_iff in ND. destruct ND as [N1 N2].
        exfalso. apply N1. apply in_map_iff. exists (k, v2). auto.
      - inversion E2; subst. apply NoDup_cons_iff in ND. destruct ND as [N1 N2].
        exfalso. apply N1. apply in_map_iff. exists (k, v1). auto.
      - apply NoDup_cons_iff in ND. destruct ND as [N1 N2]. eapply IH; eauto. }
    exact (G _ _ _ _ ND Hb Hin).
Qed.

(* with introspection disabled nothing is recorded *)
Theorem disabled_records_nothing s executed : commit_register false s executed = Ok s.
Proof. reflexivity. Qed.

(* get returns what add stored, and never invents entries *)
Theorem get_after_add s i : snd (get (add s i) (icat i) (idisc i)) = Some i.
Proof. unfold get. simpl. fold (lookup (add s i) (icat i) (idisc i)). apply lookup_add_same. Qed.

(* ---------- the relation graph is not symmetric in general: two distinct
   introspectables with equal dict content are conflated by `y not in L` *)
Example relations_symmetric_refuted :
  let a := mkIntr [97]%N [49]%N [120]%N 0 in       (* category a, content x *)
  let b := mkIntr [98]%N [49]%N [121]%N 1 in       (* category b, disc 1, content y *)
  let c := mkIntr [98]%N [50]%N [121]%N 2 in       (* category b, disc 2, SAME content y *)
  exists s, register_all init [(a, []); (b, [Rel [97]%N [49]%N]); (c, [Rel [97]%N [49]%N])] = Ok s
            /\ linked s c a = true /\ linked s a c = true /\ related s a = Ok [b].
Proof. vm_compute. eexists. repeat split. Qed.

Example c20_nonvacuous :
  let v := mkIntr [118]%N [49]%N [120]%N 0 in let p := mkIntr [112]%N [49]%N [121]%N 1 in
  exists s, commit_register true init [[(v, [])]; [(p, [Rel [118]%N [49]%N])]] = Ok s
            /\ related s v = Ok [p] /\ related s p = Ok [v] /\ lookup s [118]%N [49]%N = Some v.
Proof. vm_compute. eexists. repeat split. Qed.
