(* C07 -- the percent / UTF-8 round trip: what _join_path_tuple writes is read
   back, segment by segment, by webob's unquote (traverse / Request.blank), by
   urllib's unquote_to_bytes (a WSGI server) and by the latin-1/UTF-8 decoding
   of PATH_INFO followed by split_path_info. *)
From Coq Require Import List NArith ZArith Bool Lia ZifyBool ZifyN Arith.
Import ListNotations.
Require Import Verif.Lib.Wire Verif.Lib.Text Verif.Lib.PathNorm Verif.Lib.C02PathNorm Verif.Lib.Utf8
               Verif.Lib.Percent Verif.Gen.Facts_C02 Verif.Model.C02 Verif.Model.C07.
Ltac Zify.zify_post_hook ::= Z.div_mod_to_equations.
Open Scope N_scope.

(* ------------------------------------------------------------ UTF-8 bytes *)
Lemma encode1_bytes c : valid_scalar c = true -> Forall (fun b => b < 256) (encode1 c).
Proof.
  unfold valid_scalar, encode1. intros H.
  destruct (c <? 128) eqn:H1; [repeat constructor; lia|].
  destruct (c <? 2048) eqn:H2; [repeat constructor; lia|].
  destruct (c <? 65536) eqn:H3; repeat constructor; lia.
Qed.

Lemma encode_bytes cs : forallb valid_scalar cs = true -> Forall (fun b => b < 256) (encode cs).
Proof.
  induction cs as [|c cs IH]; simpl; intros H; [constructor|].
  apply andb_true_iff in H as [Hc Hcs]. apply Forall_app. split; [apply encode1_bytes; assumption|auto].
Qed.

Lemma encode_app a b : encode (a ++ b) = encode a ++ encode b.
Proof. unfold encode. apply flat_map_app. Qed.

Lemma encode_cons_ascii c s : c < 128 -> encode (c :: s) = c :: encode s.
Proof. intros H. unfold encode. simpl. unfold encode1. assert (E : (c <? 128) = true) by lia. rewrite E. reflexivity. Qed.

(* ------------------------------------------------------------ webob's unquote *)
Lemma split_on_cons_ne c x s : x <> c ->
  split_on c (x :: s) = match split_on c s with [] => [[x]] | h :: t => (x :: h) :: t end.
Proof. intros H. simpl. destruct (N.eqb_spec x c); [contradiction|reflexivity]. Qed.

Lemma wu_cons c s : c <> 37 -> webob_unquote (c :: s) = c :: webob_unquote s.
Proof.
  intros H. unfold webob_unquote. rewrite split_on_cons_ne by assumption.
  pose proof (split_on_nonempty 37 s) as Hn. destruct (split_on 37 s) as [|h t]; [contradiction|reflexivity].
Qed.

Definition hex_range : list N := map N.of_nat (seq 0 16).
Definition pyint_check : bool :=
  forallb (fun a => forallb (fun b =>
    match pyint16 [hexdigit a; hexdigit b] with Some v => N.eqb v (a * 16 + b) | None => false end
    && negb (N.eqb (hexdigit a) 37) && negb (N.eqb (hexdigit b) 37)) hex_range) hex_range.
Lemma pyint_check_ok : pyint_check = true.
Proof. vm_compute. reflexivity. Qed.

Lemma in_hex_range a : a < 16 -> In a hex_range.
Proof.
  intros H. unfold hex_range. replace a with (N.of_nat (N.to_nat a)) by lia.
  apply in_map. apply in_seq. lia.
Qed.

Lemma pyint16_hex a b : a < 16 -> b < 16 ->
  pyint16 [hexdigit a; hexdigit b] = Some (a * 16 + b) /\ hexdigit a <> 37 /\ hexdigit b <> 37.
Proof.
  intros Ha Hb. pose proof pyint_check_ok as H. unfold pyint_check in H.
  rewrite forallb_forall in H. specialize (H a (in_hex_range a Ha)).
  rewrite forallb_forall in H. specialize (H b (in_hex_range b Hb)).
  apply andb_true_iff in H as [H H3]. apply andb_true_iff in H as [H1 H2].
  destruct (pyint16 [hexdigit a; hexdigit b]) as [v|]; [|discriminate].
  apply N.eqb_eq in H1. subst v. repeat split.
  - intros E. rewrite E in H2. discriminate.
  - intros E. rewrite E in H3. discriminate.
Qed.

Lemma wu_pct a b s : a < 16 -> b < 16 ->
  webob_unquote (37 :: hexdigit a :: hexdigit b :: s) = (a * 16 + b) :: webob_unquote s.
Proof.
  intros Ha Hb. destruct (pyint16_hex a b Ha Hb) as (Hp & Na & Nb).
  unfold webob_unquote. rewrite split_on_cons_sep.
  rewrite (split_on_cons_ne 37 (hexdigit a)) by assumption.
  rewrite (split_on_cons_ne 37 (hexdigit b)) by assumption.
  pose proof (split_on_nonempty 37 s) as Hn. destruct (split_on 37 s) as [|h t]; [contradiction|].
  cbn [app flat_map]. unfold unq_item at 1. cbn [firstn skipn]. rewrite Hp. reflexivity.
Qed.

Lemma wu_quote1 safe b rest : b < 256 -> is_safe safe 37 = false ->
  webob_unquote (quote1 safe b ++ rest) = b :: webob_unquote rest.
Proof.
  intros Hb H37. unfold quote1. destruct (is_safe safe b) eqn:E.
  - simpl. apply wu_cons. intros ->. congruence.
  - cbn [app]. rewrite wu_pct by lia. f_equal. lia.
Qed.

Lemma wu_quote safe bs rest : Forall (fun b => b < 256) bs -> is_safe safe 37 = false ->
  webob_unquote (quote safe bs ++ rest) = bs ++ webob_unquote rest.
Proof.
  intros Hf H37. induction Hf as [|b r Hb _ IH]; [reflexivity|].
  unfold quote. simpl flat_map. rewrite <- app_assoc. rewrite wu_quote1 by assumption.
  fold (quote safe r). rewrite IH. reflexivity.
Qed.

Lemma wu_nil : webob_unquote [] = [].
Proof. reflexivity. Qed.

(* ------------------------------------------------------------ urllib's unquote_to_bytes *)
Lemma pu_cons c s : c <> 37 -> Percent.unquote (c :: s) = c :: Percent.unquote s.
Proof. intros H. simpl. destruct (N.eqb_spec c 37); [contradiction|reflexivity]. Qed.

Lemma pu_quote safe bs rest : Forall (fun b => b < 256) bs -> is_safe safe 37 = false ->
  Percent.unquote (quote safe bs ++ rest) = bs ++ Percent.unquote rest.
Proof.
  intros Hf H37. induction Hf as [|b r Hb _ IH]; [reflexivity|].
  unfold quote. simpl flat_map. rewrite <- app_assoc. rewrite unquote_quote1 by assumption.
  fold (quote safe r). rewrite IH. reflexivity.
Qed.

(* ------------------------------------------------------------ a quoted path *)
Definition qpath (segs : list text) : text := join [slash] (map q segs).

Lemma safe_facts :
  is_safe path_segment_safe 37 = false /\ is_safe path_segment_safe slash = false /\
  is_safe path_segment_safe 63 = false /\ is_safe path_segment_safe 35 = false /\
  is_safe path_segment_safe 58 = true /\
  forallb (fun c => c <? 128) path_segment_safe = true.
Proof. vm_compute. repeat split; reflexivity. Qed.

Lemma is_safe_ascii c : is_safe path_segment_safe c = true -> c < 128.
Proof.
  unfold is_safe. intros H. apply orb_true_iff in H as [H|H].
  - unfold always_safe, is_alnum in H. lia.
  - apply memN_In in H. destruct safe_facts as (_ & _ & _ & _ & _ & Hs).
    rewrite forallb_forall in Hs. specialize (Hs c H). lia.
Qed.

Section Unquoter.
(* any decoder that copies plain characters and inverts [quote] *)
Variable U : list N -> list N.
Hypothesis U_nil : U [] = [].
Hypothesis U_cons : forall c s, c <> 37 -> U (c :: s) = c :: U s.
Hypothesis U_quote : forall bs rest, Forall (fun b => b < 256) bs ->
  U (quote path_segment_safe bs ++ rest) = bs ++ U rest.

Lemma U_q s rest : forallb valid_scalar s = true -> U (q s ++ rest) = encode s ++ U rest.
Proof. intros H. unfold q. apply U_quote. apply encode_bytes. assumption. Qed.

Lemma U_qpath segs tail :
  Forall (fun s => forallb valid_scalar s = true) segs ->
  (tail = [] \/ exists t, tail = slash :: t) ->
  U (qpath segs ++ tail) = join [slash] (map encode segs) ++ U tail.
Proof.
  intros Hf Ht. induction Hf as [|x r Hx Hr IH]; [reflexivity|].
  unfold qpath in *. destruct r as [|y r].
  - simpl. apply U_q. assumption.
  - change (join [slash] (map q (x :: y :: r))) with (q x ++ [slash] ++ join [slash] (map q (y :: r))).
    change (join [slash] (map encode (x :: y :: r))) with (encode x ++ [slash] ++ join [slash] (map encode (y :: r))).
    rewrite <- !app_assoc. rewrite U_q by assumption. cbn [app].
    rewrite U_cons by (unfold slash; lia). rewrite IH. reflexivity.
Qed.
End Unquoter.

Lemma wu_qpath segs tail :
  Forall (fun s => forallb valid_scalar s = true) segs -> (tail = [] \/ exists t, tail = slash :: t) ->
  webob_unquote (qpath segs ++ tail) = join [slash] (map encode segs) ++ webob_unquote tail.
Proof.
  apply U_qpath; [exact wu_cons|]. intros bs rest H. apply wu_quote; [assumption|apply safe_facts].
Qed.

Lemma pu_qpath segs tail :
  Forall (fun s => forallb valid_scalar s = true) segs -> (tail = [] \/ exists t, tail = slash :: t) ->
  Percent.unquote (qpath segs ++ tail) = join [slash] (map encode segs) ++ Percent.unquote tail.
Proof.
  apply U_qpath; [exact pu_cons|]. intros bs rest H. apply pu_quote; [assumption|apply safe_facts].
Qed.

(* ------------------------------------------------------------ characters of a quoted path *)
Lemma q_chars s c : forallb valid_scalar s = true -> In c (q s) ->
  c = 37 \/ is_hex_upper c = true \/ is_safe path_segment_safe c = true.
Proof. intros H. unfold q. apply quote_charset. apply encode_bytes. assumption. Qed.

Lemma q_ascii s : forallb valid_scalar s = true -> forallb (fun c => c <? 128) (q s) = true.
Proof.
  intros H. apply forallb_forall. intros c Hc.
  destruct (q_chars s c H Hc) as [->|[Hh|Hs]]; [reflexivity| |].
  - unfold is_hex_upper in Hh. lia.
  - apply is_safe_ascii in Hs. lia.
Qed.

Lemma q_no c s : forallb valid_scalar s = true ->
  is_safe path_segment_safe c = false -> c <> 37 -> is_hex_upper c = false -> ~ In c (q s).
Proof. intros H. unfold q. apply quote_no_char. apply encode_bytes. assumption. Qed.

Lemma in_join c sep l : In c (join [sep] l) -> c = sep \/ exists s, In s l /\ In c s.
Proof.
  induction l as [|x r IH]; simpl; [tauto|]. destruct r as [|y r].
  - intros H. right. exists x. auto.
  - intros H. apply in_app_or in H as [H|H]; [right; exists x; auto|].
    simpl in H. destruct H as [<-|H]; [auto|].
    destruct (IH H) as [->|(s & Hs & Hc)]; [auto|]. right. exists s. split; [right; exact Hs|exact Hc].
Qed.

Lemma qpath_ascii segs : Forall (fun s => forallb valid_scalar s = true) segs ->
  forallb (fun c => c <? 128) (qpath segs) = true.
Proof.
  intros Hf. apply forallb_forall. intros c Hc. unfold qpath in Hc.
  apply in_join in Hc as [->|(s & Hs & Hc)]; [reflexivity|].
  apply in_map_iff in Hs as (x & <- & Hx). rewrite Forall_forall in Hf.
  pose proof (q_ascii x (Hf x Hx)) as H. rewrite forallb_forall in H. exact (H c Hc).
Qed.

Lemma qpath_no_question segs : Forall (fun s => forallb valid_scalar s = true) segs -> ~ In 63 (qpath segs).
Proof.
  intros Hf Hc. unfold qpath in Hc. apply in_join in Hc as [Hc|(s & Hs & Hc)]; [discriminate|].
  apply in_map_iff in Hs as (x & <- & Hx). rewrite Forall_forall in Hf.
  revert Hc. apply q_no; [auto|apply safe_facts|discriminate|reflexivity].
Qed.

(* ------------------------------------------------------------ decoding PATH_INFO *)
Lemma join_encode segs : join [slash] (map encode segs) = encode (join [slash] segs).
Proof.
  induction segs as [|x r IH]; [reflexivity|]. destruct r as [|y r]; [reflexivity|].
  change (join [slash] (map encode (x :: y :: r))) with (encode x ++ [slash] ++ join [slash] (map encode (y :: r))).
  change (join [slash] (x :: y :: r)) with (x ++ [slash] ++ join [slash] (y :: r)).
  rewrite IH, !encode_app. reflexivity.
Qed.

Lemma join_valid segs : Forall (fun s => forallb valid_scalar s = true) segs ->
  forallb valid_scalar (join [slash] segs) = true.
Proof.
  intros Hf. apply forallb_forall. intros c Hc. apply in_join in Hc as [->|(s & Hs & Hc)]; [reflexivity|].
  rewrite Forall_forall in Hf. pose proof (Hf s Hs) as H. rewrite forallb_forall in H. exact (H c Hc).
Qed.

Lemma decode_path_info_encode t : forallb valid_scalar t = true -> decode_path_info (encode t) = Ok t.
Proof.
  intros H. unfold decode_path_info.
  assert (Hb : forallb (fun c => c <? 256) (encode t) = true).
  { apply forallb_forall. intros c Hc. pose proof (encode_bytes t H) as Hf. rewrite Forall_forall in Hf.
    specialize (Hf c Hc). lia. }
  rewrite Hb, decode_encode by assumption. reflexivity.
Qed.

(* "/" seg "/" seg ... with an optional trailing "/" *)
Definition wire_path (segs : list text) (trail : bool) : text :=
  slash :: join [slash] (map encode segs) ++ (if trail then [slash] else []).
Definition text_path (segs : list text) (trail : bool) : text :=
  slash :: join [slash] segs ++ (if trail then [slash] else []).

Lemma wire_path_decode segs trail : Forall (fun s => forallb valid_scalar s = true) segs ->
  decode_path_info (wire_path segs trail) = Ok (text_path segs trail).
Proof.
  intros Hf. unfold wire_path, text_path. rewrite join_encode.
  replace (slash :: encode (join [slash] segs) ++ (if trail then [slash] else []))
    with (encode (slash :: join [slash] segs ++ (if trail then [slash] else []))).
  - apply decode_path_info_encode. simpl. rewrite forallb_app, join_valid by assumption.
    destruct trail; reflexivity.
  - rewrite encode_cons_ascii by (unfold slash; lia). rewrite encode_app. destruct trail; reflexivity.
Qed.

Lemma text_path_split segs trail : Forall normal_seg segs -> split_path_info (text_path segs trail) = segs.
Proof.
  intros Hf. unfold text_path. rewrite spi_no_strip, split_on_cons_sep, resolve_empty_seg.
  destruct trail.
  - rewrite split_on_snoc, resolve_app. cbn [resolve fold_left spi_step].
    rewrite <- spi_no_strip. apply spi_normal_id. assumption.
  - rewrite app_nil_r, <- spi_no_strip. apply spi_normal_id. assumption.
Qed.
