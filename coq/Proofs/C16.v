(* C16 -- lemmas and proofs. *)
From Coq Require Import List NArith ZArith PeanoNat Bool Lia Sorting.Sorted.
Import ListNotations.
Require Import Verif.Lib.Wire Verif.Lib.Text Verif.Lib.PathNorm Verif.Lib.Utf8 Verif.Lib.Percent
               Verif.Lib.C16Posix Verif.Gen.Facts_C16 Verif.Model.C16.
Open Scope N_scope.

(* ------------------------------------------------------------ _secure_path *)
Lemma text_eqb_sym a b : text_eqb a b = text_eqb b a.
Proof.
  destruct (text_eqb a b) eqn:E.
  - apply text_eqb_eq in E. subst. symmetry. apply text_eqb_refl.
  - apply text_eqb_neq in E. symmetry. apply text_eqb_neq. congruence.
Qed.

Definition insecure_one (s : text) : bool := existsb (fun e => text_eqb e s) insecure_elements.

Lemma existsb_orb {A} (f g : A -> bool) l :
  existsb (fun x => f x || g x) l = existsb f l || existsb g l.
Proof.
  induction l as [|x l IH]; simpl; [reflexivity|]. rewrite IH.
  destruct (f x), (g x), (existsb f l), (existsb g l); reflexivity.
Qed.

Lemma has_insecure_cons s r : has_insecure (s :: r) = insecure_one s || has_insecure r.
Proof. unfold has_insecure, insecure_one. cbn [mem_text]. apply existsb_orb. Qed.

(* the regenerated sets are exactly: '' '.' '..' and the characters '/' NUL *)
Lemma seg_one s : insecure_one s || contains_invalid_char s = negb (seg_ok s).
Proof.
  unfold insecure_one, contains_invalid_char, insecure_elements, invalid_element_chars,
         seg_ok, normal_segb, is_dot, is_dotdot, dot, slash.
  cbn [existsb].
  rewrite (text_eqb_sym [] s), (text_eqb_sym [46] s), (text_eqb_sym [46; 46] s).
  destruct (text_eqb s []), (text_eqb s [46]), (text_eqb s [46; 46]), (memN 47 s), (memN 0 s); reflexivity.
Qed.

Lemma secure_tests t :
  has_insecure t || existsb contains_invalid_char t = negb (forallb seg_ok t).
Proof.
  induction t as [|s r IH].
  - reflexivity.
  - rewrite has_insecure_cons. cbn [existsb forallb]. rewrite negb_andb, <- IH, <- seg_one.
    destruct (insecure_one s), (contains_invalid_char s), (has_insecure r), (existsb contains_invalid_char r); reflexivity.
Qed.

Theorem secure_path_is_spec t : secure_path t = spec_secure t.
Proof.
  unfold secure_path, spec_secure. pose proof (secure_tests t) as H.
  destruct (has_insecure t); destruct (existsb contains_invalid_char t); destruct (forallb seg_ok t);
    simpl in H; try discriminate; reflexivity.
Qed.

Lemma seg_ok_spec s : seg_ok s = true <-> normal_seg s /\ ~ In 0 s.
Proof.
  unfold seg_ok. rewrite andb_true_iff, normal_segb_spec, negb_true_iff. split.
  - intros [H1 H2]. split; [assumption|]. intros Hin. apply memN_In in Hin. congruence.
  - intros [H1 H2]. split; [assumption|]. destruct (memN 0 s) eqn:E; [apply memN_In in E; contradiction|reflexivity].
Qed.

(* the wording of the design: accepted iff no element is '', '.', '..' and none contains '/' or NUL; then p = join "/" t *)
Theorem secure_path_spec t p :
  secure_path t = Some p <->
  Forall (fun s => s <> [] /\ s <> [dot] /\ s <> [dot; dot] /\ ~ In slash s /\ ~ In 0 s) t /\ p = join [slash] t.
Proof.
  rewrite secure_path_is_spec. unfold spec_secure. split.
  - destruct (forallb seg_ok t) eqn:E; [|discriminate]. intros H. injection H as <-. split; [|reflexivity].
    rewrite forallb_forall in E. apply Forall_forall. intros s Hs. specialize (E s Hs).
    apply seg_ok_spec in E. destruct E as [(H1 & H2 & H3 & H4) H5]. tauto.
  - intros [Hf ->]. assert (E : forallb seg_ok t = true).
    { apply forallb_forall. intros s Hs. rewrite Forall_forall in Hf. specialize (Hf s Hs).
      apply seg_ok_spec. unfold normal_seg. tauto. }
    rewrite E. reflexivity.
Qed.

(* ------------------------------------------------------------ paths: normpath vs lexical resolution *)
Lemma np_step_spi init acc c :
  (0 < init)%nat -> Forall normal_seg acc -> np_step init acc c = spi_step acc c.
Proof.
  intros Hi Hacc. unfold np_step, spi_step. destruct c as [|x c]; [reflexivity|].
  destruct (is_dot (x :: c)); [reflexivity|].
  destruct (is_dotdot (x :: c)) eqn:Hdd; [|reflexivity].
  replace (Nat.eqb init 0) with false by (symmetry; apply Nat.eqb_neq; lia).
  cbn [negb andb orb]. destruct acc as [|h acc']; [reflexivity|].
  inversion Hacc as [|? ? Hh _]; subst. destruct (is_dotdot h) eqn:E; [|reflexivity].
  apply text_eqb_eq in E. destruct Hh as (_ & _ & Hx & _). congruence.
Qed.

Lemma np_fold_spi init segs acc :
  (0 < init)%nat -> Forall (fun s => ~ In slash s) segs -> Forall normal_seg acc ->
  fold_left (np_step init) segs acc = resolve acc segs.
Proof.
  intros Hi. unfold resolve. revert acc. induction segs as [|s segs IH]; intros acc Hs Hacc; [reflexivity|].
  inversion Hs; subst. cbn [fold_left]. rewrite np_step_spi by assumption.
  apply IH; [assumption|]. apply spi_step_normal; assumption.
Qed.

Lemma np_comps_os_resolve r :
  startswith [slash] r = true -> np_comps (initial_slashes r) r = os_resolve r.
Proof.
  intros Hr. unfold np_comps, os_resolve. f_equal. apply np_fold_spi.
  - destruct (initial_slashes_abs r Hr) as [-> | ->]; lia.
  - apply split_on_no_sep.
  - constructor.
Qed.

(* normpath of an absolute path renders its lexical resolution *)
Lemma normpath_abs_resolve r :
  startswith [slash] r = true ->
  exists init, (init = 1 \/ init = 2)%nat /\ Forall normal_seg (os_resolve r) /\
               normpath r = path_of init (os_resolve r).
Proof.
  intros Hr. exists (initial_slashes r). split; [apply initial_slashes_abs; assumption|]. split.
  - unfold os_resolve. apply Forall_rev. apply resolve_normal; [apply split_on_no_sep|constructor].
  - unfold normpath. destruct r as [|x t]; [discriminate|].
    rewrite np_comps_os_resolve by assumption. unfold path_of.
    destruct (initial_slashes_abs (x :: t) Hr) as [E|E]; rewrite E; reflexivity.
Qed.

(* characters of the pieces come from the text *)
Lemma split_on_chars c s : Forall (fun seg => forall x, In x seg -> In x s) (split_on c s).
Proof.
  induction s as [|y s IH]; simpl.
  - constructor; [intros x []|constructor].
  - destruct (N.eqb y c).
    + constructor; [intros x []|]. eapply Forall_impl; [|exact IH]. intros a H x Hx. right. auto.
    + destruct (split_on c s) as [|h t].
      * constructor; [|constructor]. intros x [<-|[]]. left; reflexivity.
      * inversion IH; subst. constructor.
        -- intros x [<-|Hx]; [left; reflexivity|right; auto].
        -- eapply Forall_impl; [|eassumption]. intros a H x Hx. right. auto.
Qed.

Lemma spi_step_Forall (P : text -> Prop) acc c : P c -> Forall P acc -> Forall P (spi_step acc c).
Proof.
  intros Hc Hacc. unfold spi_step. destruct c as [|x c]; [assumption|].
  destruct (is_dot (x :: c)); [assumption|]. destruct (is_dotdot (x :: c)).
  - destruct acc; simpl; [constructor|inversion Hacc; assumption].
  - constructor; assumption.
Qed.

Lemma resolve_Forall (P : text -> Prop) segs acc : Forall P segs -> Forall P acc -> Forall P (resolve acc segs).
Proof.
  unfold resolve. revert acc. induction segs as [|s segs IH]; intros acc Hs Hacc; simpl; [assumption|].
  inversion Hs; subst. apply IH; [assumption|apply spi_step_Forall; assumption].
Qed.

Lemma os_resolve_nonul r : ~ In 0 r -> Forall (fun s => ~ In 0 s) (os_resolve r).
Proof.
  intros H. unfold os_resolve. apply Forall_rev. apply resolve_Forall; [|constructor].
  eapply Forall_impl; [|apply (split_on_chars slash r)]. intros a Ha Hin. apply H. apply Ha. exact Hin.
Qed.

(* ------------------------------------------------------------ the abstract file system *)
Lemma walk_empties fs n L : walk fs [] (repeat [] n ++ L) = walk fs [] L.
Proof. induction n as [|n IH]; [reflexivity|]. cbn [repeat app walk fs_at spi_step]. exact IH. Qed.

Lemma in_join x sep L : In x (join sep L) -> In x sep \/ exists s, In s L /\ In x s.
Proof.
  induction L as [|a L IH]; [intros []|].
  destruct L as [|b L].
  - simpl. intros H. right. exists a. split; [left; reflexivity|assumption].
  - change (join sep (a :: b :: L)) with (a ++ sep ++ join sep (b :: L)).
    rewrite !in_app_iff. intros [H|[H|H]].
    + right. exists a. split; [left; reflexivity|assumption].
    + left. assumption.
    + destruct (IH H) as [H1|(s & Hs & Hx)]; [left; assumption|].
      right. exists s. split; [right; assumption|assumption].
Qed.

Definition nonul (s : text) : Prop := ~ In 0 s.

Lemma path_of_nonul init L : Forall nonul L -> ~ In 0 (path_of init L).
Proof.
  intros Hf. unfold path_of. rewrite in_app_iff. intros [H|H].
  - apply repeat_spec in H. discriminate.
  - apply in_join in H. destruct H as [[H|[]]|(s & Hs & Hx)]; [discriminate|].
    rewrite Forall_forall in Hf. exact (Hf s Hs Hx).
Qed.

Lemma memN_false x l : ~ In x l -> memN x l = false.
Proof. intros H. destruct (memN x l) eqn:E; [apply memN_In in E; contradiction|reflexivity]. Qed.

Lemma startswith_path_of init L : (init = 1 \/ init = 2)%nat -> startswith [slash] (path_of init L) = true.
Proof. intros [-> | ->]; reflexivity. Qed.

Lemma split_path_of init L :
  Forall normal_seg L ->
  split_on slash (path_of init L) = repeat [] init ++ match L with [] => [[]] | _ => L end.
Proof.
  intros Hf. unfold path_of. rewrite split_repeat_slash. f_equal.
  destruct L as [|a L]; [reflexivity|]. apply split_join_normal; [discriminate|assumption].
Qed.

Lemma fs_stat_path_of fs init L :
  (init = 1 \/ init = 2)%nat -> Forall normal_seg L -> Forall nonul L ->
  fs_stat fs (path_of init L) = walk fs [] L.
Proof.
  intros Hi Hn Hz. unfold fs_stat. rewrite memN_false by (apply path_of_nonul; assumption).
  rewrite startswith_path_of by assumption. rewrite split_path_of by assumption.
  rewrite walk_empties. destruct L; reflexivity.
Qed.

(* ------------------------------------------------------------ beneath *)
Lemma strip_prefix_comps_app a b : strip_prefix_comps a (a ++ b) = Some b.
Proof. induction a as [|x a IH]; [reflexivity|]. simpl. rewrite text_eqb_refl. exact IH. Qed.

Lemma plain_of_normal L : Forall normal_seg L -> forallb plain_comp L = true.
Proof.
  intros Hf. apply forallb_forall. intros s Hs. rewrite Forall_forall in Hf. specialize (Hf s Hs).
  unfold plain_comp. destruct s; [reflexivity|]. apply normal_segb_spec. assumption.
Qed.

Lemma forallb_repeat_nil n : forallb plain_comp (repeat [] n) = true.
Proof. induction n; [reflexivity|exact IHn]. Qed.

Lemma beneath_path_of init R t :
  (init = 1 \/ init = 2)%nat -> Forall normal_seg (R ++ t) -> Forall nonul (R ++ t) ->
  beneath R (path_of init (R ++ t)) = true.
Proof.
  intros Hi Hn Hz. unfold beneath.
  rewrite startswith_path_of by assumption.
  rewrite memN_false by (apply path_of_nonul; assumption).
  rewrite split_path_of by assumption. rewrite forallb_app, forallb_repeat_nil.
  rewrite os_resolve_path_of by assumption. rewrite strip_prefix_comps_app.
  pose proof (plain_of_normal _ Hn) as Hp. revert Hp.
  destruct (R ++ t); [reflexivity|]. intros Hp. cbv iota. cbn [andb negb]. rewrite andb_true_r. exact Hp.
Qed.

(* appending an extension to a rendered path changes its last component only *)
Lemma join_snoc_app sep X y e : join sep (X ++ [y]) ++ e = join sep (X ++ [y ++ e]).
Proof.
  induction X as [|a X IH]; [reflexivity|].
  destruct X as [|b X].
  - simpl. rewrite <- !app_assoc. reflexivity.
  - change (join sep ((a :: b :: X) ++ [y])) with (a ++ sep ++ join sep ((b :: X) ++ [y])).
    change (join sep ((a :: b :: X) ++ [y ++ e])) with (a ++ sep ++ join sep ((b :: X) ++ [y ++ e])).
    rewrite <- IH. rewrite <- !app_assoc. reflexivity.
Qed.

Lemma path_of_snoc_ext init X y e : path_of init (X ++ [y]) ++ e = path_of init (X ++ [y ++ e]).
Proof. unfold path_of. rewrite <- app_assoc. rewrite join_snoc_app. reflexivity. Qed.

Lemma normal_app_ext s e : normal_seg s -> ~ In slash e -> normal_seg (s ++ e).
Proof.
  intros (H1 & H2 & H3 & H4) He. repeat split.
  - destruct s; [congruence|discriminate].
  - destruct s as [|a [|b s]]; [congruence| |discriminate].
    destruct e; [rewrite app_nil_r; assumption|discriminate].
  - destruct s as [|a [|b [|c0 s]]]; [congruence| | |discriminate].
    + destruct e as [|e0 [|e1 e]]; [discriminate| |discriminate].
      simpl. intros E. injection E as -> ->. apply H2. reflexivity.
    + destruct e; [rewrite app_nil_r; assumption|discriminate].
  - rewrite in_app_iff. tauto.
Qed.

Lemma nonul_app s e : nonul s -> nonul e -> nonul (s ++ e).
Proof. unfold nonul. rewrite in_app_iff. tauto. Qed.

Lemma exists_last_ne {A} (l : list A) : l <> [] -> exists X y, l = X ++ [y].
Proof. intros H. destruct (exists_last H) as (X & y & E). eauto. Qed.

(* ------------------------------------------------------------ get_resource_name, file-system root *)
Definition wf_fs (c : config) : Prop :=
  c_pkg c = false /\ startswith [slash] (c_docroot c) = true /\ nonul (c_docroot c) /\
  normal_seg (eff_index c) /\ nonul (eff_index c) /\
  Forall (fun p => ~ In slash (fst p) /\ nonul (fst p)) (c_encmap c).

Definition root_is_dir (c : config) (fs : fsys) : Prop := is_dir (walk fs [] (spec_root c)) = true.

Lemma secure_some t path :
  secure_path t = Some path -> Forall normal_seg t /\ Forall nonul t /\ path = join [slash] t.
Proof.
  intros H. apply secure_path_spec in H. destruct H as [Hf ->]. repeat split.
  - eapply Forall_impl; [|exact Hf]. intros s (H1 & H2 & H3 & H4 & H5). repeat split; assumption.
  - eapply Forall_impl; [|exact Hf]. intros s (H1 & H2 & H3 & H4 & H5). exact H5.
Qed.

Lemma spec_root_fs c : c_pkg c = false -> spec_root c = os_resolve (c_docroot c).
Proof. intros H. unfold spec_root. rewrite H. reflexivity. Qed.

Lemma grn_fs c rq pi fs t path :
  wf_fs c -> secure_path t = Some path ->
  exists init, (init = 1 \/ init = 2)%nat /\
    get_resource_name c rq pi fs t =
      (if is_dir (walk fs [] (spec_root c ++ t))
       then dir_or_redirect c rq pi (path_of init (spec_root c ++ t ++ [eff_index c]))
       else RNName (path_of init (spec_root c ++ t)),
       [(0, path_of init (spec_root c ++ t))]).
Proof.
  intros (Hpkg & Habs & Hz & Hin & Hiz & _) Hsec.
  destruct (secure_some t path Hsec) as (Htn & Htz & ->).
  destruct (normpath_abs_resolve (c_docroot c) Habs) as (init & Hi & HRn & Enp).
  exists init. split; [assumption|].
  unfold get_resource_name. rewrite Hsec, Hpkg, Enp.
  rewrite normpath_join_path_of by assumption.
  rewrite spec_root_fs by assumption.
  assert (HLn : Forall normal_seg (os_resolve (c_docroot c) ++ t)) by (apply Forall_app; split; assumption).
  assert (HLz : Forall nonul (os_resolve (c_docroot c) ++ t)).
  { apply Forall_app; split; [apply os_resolve_nonul; assumption|assumption]. }
  unfold bind, stat. rewrite fs_stat_path_of by assumption.
  destruct (is_dir (walk fs [] (os_resolve (c_docroot c) ++ t))).
  - unfold ret. cbn [app]. f_equal. f_equal.
    replace (eff_index c) with (join [slash] [eff_index c]) at 1 by reflexivity.
    rewrite pjoin_path_of; try assumption.
    + rewrite <- app_assoc. reflexivity.
    + constructor; [assumption|constructor].
    + discriminate.
  - reflexivity.
Qed.

(* names the view may look for: a rendered path strictly below the root *)
Definition good_name (c : config) (init : nat) (name : text) : Prop :=
  exists X y, Forall normal_seg (spec_root c ++ X ++ [y]) /\ Forall nonul (spec_root c ++ X ++ [y]) /\
              name = path_of init (spec_root c ++ X ++ [y]).

Lemma good_name_beneath c init name :
  (init = 1 \/ init = 2)%nat -> good_name c init name -> beneath (spec_root c) name = true.
Proof. intros Hi (X & y & Hn & Hz & ->). apply beneath_path_of; assumption. Qed.

Lemma Forall_snoc_inv {A} (P : A -> Prop) l x : Forall P (l ++ [x]) -> Forall P l /\ P x.
Proof. intros H. apply Forall_app in H. destruct H as [H1 H2]. inversion H2; subst. auto. Qed.

Lemma good_name_ext c init name ext :
  (init = 1 \/ init = 2)%nat -> good_name c init name -> ~ In slash ext -> nonul ext ->
  good_name c init (name ++ ext).
Proof.
  intros Hi (X & y & Hn & Hz & ->) He Hez. exists X, (y ++ ext).
  rewrite !app_assoc in *. apply Forall_snoc_inv in Hn. apply Forall_snoc_inv in Hz.
  destruct Hn as [Hn1 Hn2]. destruct Hz as [Hz1 Hz2]. repeat split.
  - apply Forall_app. split; [assumption|]. constructor; [apply normal_app_ext; assumption|constructor].
  - apply Forall_app. split; [assumption|]. constructor; [apply nonul_app; assumption|constructor].
  - apply path_of_snoc_ext.
Qed.

Lemma grn_fs_name c rq pi fs t name log :
  wf_fs c -> root_is_dir c fs ->
  get_resource_name c rq pi fs t = (RNName name, log) ->
  exists init, (init = 1 \/ init = 2)%nat /\ good_name c init name /\ contained c log = true.
Proof.
  intros Hwf Hroot H. destruct (secure_path t) as [path|] eqn:Hsec.
  2:{ unfold get_resource_name in H. rewrite Hsec in H. unfold ret in H. injection H as H _. discriminate. }
  destruct (grn_fs c rq pi fs t path Hwf Hsec) as (init & Hi & E). rewrite E in H. clear E.
  destruct (secure_some t path Hsec) as (Htn & Htz & ->).
  destruct Hwf as (Hpkg & Habs & Hz & Hin & Hiz & _).
  assert (HRn : Forall normal_seg (spec_root c)).
  { rewrite spec_root_fs by assumption. unfold os_resolve. apply Forall_rev.
    apply resolve_normal; [apply split_on_no_sep|constructor]. }
  assert (HRz : Forall nonul (spec_root c)).
  { rewrite spec_root_fs by assumption. apply os_resolve_nonul. assumption. }
  exists init. split; [assumption|].
  injection H as Hname <-.
  assert (Hlog : contained c [(0, path_of init (spec_root c ++ t))] = true).
  { unfold contained. cbn [forallb snd]. rewrite andb_true_r.
    apply beneath_path_of; [assumption| |]; apply Forall_app; split; assumption. }
  split; [|exact Hlog].
  destruct (is_dir (walk fs [] (spec_root c ++ t))) eqn:Hd.
  - unfold dir_or_redirect in Hname. destruct (path_url c pi); [|discriminate].
    destruct (endswith url_dir_suffix t0); [|discriminate]. injection Hname as <-.
    exists t, (eff_index c). repeat split.
    + apply Forall_app; split; [assumption|]. apply Forall_app; split; [assumption|]. constructor; [assumption|constructor].
    + apply Forall_app; split; [assumption|]. apply Forall_app; split; [assumption|]. constructor; [assumption|constructor].
  - injection Hname as <-.
    destruct t as [|s t'].
    { rewrite app_nil_r in Hd. unfold root_is_dir in Hroot. congruence. }
    destruct (exists_last_ne (s :: t') ltac:(discriminate)) as (X & y & EX). rewrite EX in *.
    exists X, y. repeat split; try reflexivity; apply Forall_app; split; assumption.
Qed.

Lemma grn_fs_log c rq pi fs t rn log :
  wf_fs c -> get_resource_name c rq pi fs t = (rn, log) -> contained c log = true.
Proof.
  intros Hwf H. destruct (secure_path t) as [path|] eqn:Hsec.
  2:{ unfold get_resource_name in H. rewrite Hsec in H. unfold ret in H. injection H as _ <-. reflexivity. }
  destruct (grn_fs c rq pi fs t path Hwf Hsec) as (init & Hi & E). rewrite E in H. clear E.
  destruct (secure_some t path Hsec) as (Htn & Htz & ->).
  destruct Hwf as (Hpkg & Habs & Hz & Hin & Hiz & _).
  injection H as _ <-. unfold contained. cbn [forallb snd]. rewrite andb_true_r.
  apply beneath_path_of; [assumption| |]; apply Forall_app; split; try assumption.
  - rewrite spec_root_fs by assumption. unfold os_resolve. apply Forall_rev.
    apply resolve_normal; [apply split_on_no_sep|constructor].
  - rewrite spec_root_fs by assumption. apply os_resolve_nonul. assumption.
Qed.

(* ------------------------------------------------------------ get_possible_files *)
Lemma compile_add_exts res e ext e' exts' x :
  In (e', exts') (compile_add res e ext) -> In x exts' ->
  x = ext \/ exists exts0, In (e', exts0) res /\ In x exts0.
Proof.
  revert e' exts'. induction res as [|[e0 xs] r IH]; intros e' exts' Hin Hx.
  - simpl in Hin. destruct Hin as [E|[]]. injection E as <- <-. destruct Hx as [<-|[]]. left; reflexivity.
  - simpl in Hin. destruct (text_eqb e e0).
    + destruct Hin as [E|Hin].
      * injection E as <- <-. apply in_app_iff in Hx. destruct Hx as [Hx|[<-|[]]].
        -- right. exists xs. split; [left; reflexivity|assumption].
        -- left; reflexivity.
      * right. exists exts'. split; [right; assumption|assumption].
    + destruct Hin as [E|Hin].
      * injection E as <- <-. right. exists xs. split; [left; reflexivity|assumption].
      * destruct (IH _ _ Hin Hx) as [->|(exts0 & H1 & H2)]; [left; reflexivity|].
        right. exists exts0. split; [right; assumption|assumption].
Qed.

Lemma compile_fold_exts encs encmap res e' exts' x :
  In (e', exts') (fold_left (fun res p => if mem_text (snd p) encs then compile_add res (snd p) (fst p) else res) encmap res) ->
  In x exts' ->
  In x (map fst encmap) \/ exists exts0, In (e', exts0) res /\ In x exts0.
Proof.
  revert res. induction encmap as [|[ext e] r IH]; intros res Hin Hx.
  - simpl in Hin. right. exists exts'. split; assumption.
  - cbn [fold_left fst snd] in Hin. destruct (mem_text e encs).
    + destruct (IH _ Hin Hx) as [H|(exts0 & H1 & H2)].
      * left. right. assumption.
      * destruct (compile_add_exts _ _ _ _ _ _ H1 H2) as [->|H3].
        -- left. left. reflexivity.
        -- right. assumption.
    + destruct (IH _ Hin Hx) as [H|H]; [left; right; assumption|right; assumption].
Qed.

Lemma compile_exts c e exts x :
  In (e, exts) (compile_encodings (c_encs c) (c_encmap c)) -> In x exts -> In x (map fst (c_encmap c)).
Proof.
  intros Hin Hx. unfold compile_encodings in Hin.
  destruct (compile_fold_exts _ _ _ _ _ _ Hin Hx) as [H|(exts0 & [] & _)]. assumption.
Qed.

(* every candidate is the resource name, or the name followed by a configured extension *)
Lemma candidates_shape c name n e :
  In (n, e) (candidates c name) -> n = name \/ exists ext, In ext (map fst (c_encmap c)) /\ n = name ++ ext.
Proof.
  unfold candidates. intros [E|Hin].
  - injection E as <- <-. left; reflexivity.
  - apply in_flat_map in Hin. destruct Hin as ([e0 exts] & H1 & H2). cbn [fst snd] in H2.
    apply in_map_iff in H2. destruct H2 as (ext & E & Hext). injection E as <- <-.
    right. exists ext. split; [eapply compile_exts; eassumption|reflexivity].
Qed.

Definition paths_ok (c : config) (l : list cand) : Prop :=
  Forall (fun f => beneath (spec_root c) (fst f) = true) l.

Lemma contained_app c l1 l2 : contained c (l1 ++ l2) = contained c l1 && contained c l2.
Proof. unfold contained. apply forallb_app. Qed.

Lemma probe_ok c fs cands found log :
  c_pkg c = false ->
  Forall (fun ne => beneath (spec_root c) (fst ne) = true) cands ->
  probe c fs cands = (found, log) -> paths_ok c found /\ contained c log = true.
Proof.
  intros Hpkg. revert found log. induction cands as [|[n e] r IH]; intros found log Hc H.
  - simpl in H. injection H as <- <-. split; [constructor|reflexivity].
  - inversion Hc as [|? ? Hn Hr]; subst. cbn [fst] in Hn.
    cbn [probe] in H. unfold bind, stat, ret in H.
    destruct (probe c fs r) as [found' log'] eqn:E. specialize (IH _ _ Hr eq_refl). destruct IH as [IH1 IH2].
    assert (Hos : os_path c n = n) by (unfold os_path; rewrite Hpkg; reflexivity).
    rewrite Hos in H. injection H as <- <-. split.
    + destruct (exists_ (fs_stat fs n)); [constructor; assumption|assumption].
    + rewrite app_nil_r. cbn [app]. unfold contained in *. cbn [forallb snd]. rewrite Hn, IH2. reflexivity.
Qed.

Lemma sizes_ok c fs l keyed log :
  paths_ok c l -> sizes fs l = (keyed, log) -> paths_ok c (map snd keyed) /\ contained c log = true.
Proof.
  revert keyed log. induction l as [|f r IH]; intros keyed log Hl H.
  - simpl in H. injection H as <- <-. split; [constructor|reflexivity].
  - inversion Hl as [|? ? Hf Hr]; subst. cbn [sizes] in H. unfold bind, stat, ret in H.
    destruct (sizes fs r) as [ks log'] eqn:E. specialize (IH _ _ Hr eq_refl). destruct IH as [IH1 IH2].
    injection H as <- <-. split.
    + constructor; assumption.
    + rewrite app_nil_r. cbn [app]. unfold contained in *. cbn [forallb snd]. rewrite Hf, IH2. reflexivity.
Qed.

Lemma insert_by_In x l y : In y (insert_by x l) <-> y = x \/ In y l.
Proof.
  induction l as [|z r IH]; simpl.
  - split; [intros [<-|[]]; auto|intros [->|[]]; auto].
  - destruct (fst x <=? fst z); simpl.
    + split; [intros [<-|H]; auto|intros [->|H]; auto].
    + rewrite IH. split; [intros [<-|[->|H]]; auto|intros [->|[<-|H]]; auto].
Qed.

Lemma sort_by_In l y : In y (sort_by l) <-> In y l.
Proof.
  induction l as [|x r IH]; simpl; [tauto|]. rewrite insert_by_In, IH. split; intros [H|H]; auto.
Qed.

Lemma paths_ok_sort c keyed : paths_ok c (map snd keyed) -> paths_ok c (map snd (sort_by keyed)).
Proof.
  unfold paths_ok. rewrite !Forall_forall. intros H f Hf. apply in_map_iff in Hf.
  destruct Hf as (k & <- & Hk). apply (proj1 (sort_by_In _ _)) in Hk. apply H. apply (in_map snd). exact Hk.
Qed.

Lemma compute_files_ok c fs init name files log :
  wf_fs c -> (init = 1 \/ init = 2)%nat -> good_name c init name ->
  compute_files c fs name = (files, log) -> paths_ok c files /\ contained c log = true.
Proof.
  intros Hwf Hi Hg H. unfold compute_files, bind, ret in H.
  destruct (probe c fs (candidates c name)) as [found l1] eqn:E1.
  destruct (sizes fs found) as [keyed l2] eqn:E2. injection H as <- <-.
  destruct Hwf as (Hpkg & _ & _ & _ & _ & Hext).
  assert (Hc : Forall (fun ne => beneath (spec_root c) (fst ne) = true) (candidates c name)).
  { apply Forall_forall. intros [n e] Hin. cbn [fst]. apply candidates_shape in Hin.
    destruct Hin as [->|(ext & Hx & ->)].
    - eapply good_name_beneath; eassumption.
    - apply in_map_iff in Hx. destruct Hx as (p & <- & Hp). rewrite Forall_forall in Hext.
      destruct (Hext p Hp) as [H1 H2]. eapply good_name_beneath; [eassumption|].
      apply good_name_ext; assumption. }
  destruct (probe_ok c fs _ _ _ Hpkg Hc E1) as [Hf Hl1].
  destruct (sizes_ok c fs _ _ _ Hf E2) as [Hk Hl2]. split.
  - apply paths_ok_sort. assumption.
  - rewrite app_nil_r, contained_app, Hl1, Hl2. reflexivity.
Qed.

(* ------------------------------------------------------------ the filemap keeps paths below the root *)
Definition fm_ok (c : config) (fm : filemap) : Prop :=
  forall name files, fm_get fm name = Some files -> paths_ok c files.

Lemma fm_ok_nil c : fm_ok c [].
Proof. intros name files H. discriminate. Qed.

Lemma possible_files_ok c fs fm init name files fm' log :
  wf_fs c -> (init = 1 \/ init = 2)%nat -> good_name c init name -> fm_ok c fm ->
  possible_files c fs fm name = ((files, fm'), log) ->
  paths_ok c files /\ fm_ok c fm' /\ contained c log = true.
Proof.
  intros Hwf Hi Hg Hfm H. unfold possible_files in H. destruct (fm_get fm name) as [cached|] eqn:E.
  - unfold ret in H. injection H as <- <- <-. repeat split; [eapply Hfm; eassumption|assumption].
  - unfold bind, ret in H. destruct (compute_files c fs name) as [fl l1] eqn:E1.
    injection H as <- <- <-. destruct (compute_files_ok c fs init name _ _ Hwf Hi Hg E1) as [Hp Hl].
    repeat split; [assumption| |rewrite app_nil_r; assumption].
    destruct (c_reload c); [assumption|].
    intros n fl' Hget. cbn [fm_get] in Hget. destruct (text_eqb n name).
    + injection Hget as <-. assumption.
    + eapply Hfm; eassumption.
Qed.

Lemma best_match_in rq files p enc :
  best_match rq files = Some (p, enc) -> exists f, In f files /\ fst f = p.
Proof.
  unfold best_match. destruct (r_ae rq).
  - intros H. apply find_some in H. destruct H as [H _]. exists (p, enc). split; [assumption|reflexivity].
  - destruct (find is_identity files) as [f|] eqn:E; [|discriminate]. intros H. injection H as <- <-.
    apply find_some in E. destruct E as [E _]. exists f. split; [assumption|reflexivity].
Qed.

Lemma file_response_ok c fs p enc vary r log :
  beneath (spec_root c) p = true -> file_response fs p enc vary = (r, log) -> contained c log = true.
Proof.
  intros Hp H. unfold file_response, bind, stat, ret in H. destruct (fs_stat fs p).
  - injection H as _ <-. unfold contained. cbn [forallb app snd]. rewrite Hp. reflexivity.
  - injection H as _ <-. unfold contained. cbn [forallb app snd]. rewrite Hp. reflexivity.
Qed.

Lemma serve_contained_fs c rq pi fs fm t r fm' log :
  wf_fs c -> root_is_dir c fs -> fm_ok c fm ->
  serve c rq pi fs fm t = ((r, fm'), log) -> contained c log = true /\ fm_ok c fm'.
Proof.
  intros Hwf Hroot Hfm H. unfold serve, bind in H.
  destruct (get_resource_name c rq pi fs t) as [rn l1] eqn:E1.
  destruct rn as [r0|name].
  - unfold ret in H. injection H as <- <- <-. rewrite app_nil_r. split; [|assumption].
    eapply grn_fs_log; eassumption.
  - destruct (grn_fs_name c rq pi fs t name l1 Hwf Hroot E1) as (init & Hi & Hg & Hl1).
    destruct (possible_files c fs fm name) as [[files fm1] l2] eqn:E2.
    destruct (possible_files_ok c fs fm init name files fm1 l2 Hwf Hi Hg Hfm E2) as (Hp & Hfm1 & Hl2).
    cbn [fst snd] in H. destruct (best_match rq files) as [[p enc]|] eqn:E3.
    + destruct (file_response fs p enc (Nat.ltb 1 (length files))) as [r1 l3] eqn:E4.
      unfold ret in H. injection H as <- <- <-. split; [|assumption].
      destruct (best_match_in _ _ _ _ E3) as (f & Hf & <-).
      unfold paths_ok in Hp. rewrite Forall_forall in Hp.
      rewrite !contained_app, Hl1, Hl2. cbn [andb contained forallb].
      rewrite andb_true_r. eapply file_response_ok; [apply Hp; eassumption|eassumption].
    + unfold ret in H. injection H as <- <- <-. split; [|assumption].
      rewrite !contained_app, Hl1, Hl2. reflexivity.
Qed.

(* ------------------------------------------------------------ containment, file-system roots *)
Lemma serve_path_info_contained_fs c rq pi fs fm r fm' log :
  wf_fs c -> root_is_dir c fs -> fm_ok c fm ->
  serve_path_info c rq pi fs fm = ((r, fm'), log) -> contained c log = true /\ fm_ok c fm'.
Proof.
  intros Hwf Hroot Hfm H. unfold serve_path_info in H. destruct (view_tuple pi) as [r0|t].
  - unfold ret in H. injection H as <- <- <-. split; [reflexivity|assumption].
  - eapply serve_contained_fs; eassumption.
Qed.

Lemma run_request_core_contained_fs c fs fm rq r fm' log :
  wf_fs c -> root_is_dir c fs -> fm_ok c fm ->
  run_request_core c fs fm rq = ((r, fm'), log) -> contained c log = true /\ fm_ok c fm'.
Proof.
  intros Hwf Hroot Hfm H. unfold run_request_core in H.
  assert (Hret : forall r0, ret (r0, fm) = ((r, fm'), log) -> contained c log = true /\ fm_ok c fm').
  { intros r0 E. unfold ret in E. injection E as <- <- <-. split; [reflexivity|assumption]. }
  (* goals that remain after the default mounting (request.subpath given) is solved: 0, 5, 6, 4, 2, 1 *)
  destruct (c_mount c) as [|[[q|[q|q|]|]|[[q|q|]|[q|q|]|]|]]; try (eapply serve_contained_fs; eassumption).
  - destruct (decode (unquote (r_raw rq))) as [p0|]; [|eapply Hret; eassumption].
    destruct (route_match _ _) as [rest|]; [|eapply Hret; eassumption].
    destruct static_use_subpath; [eapply serve_contained_fs|eapply serve_path_info_contained_fs]; eassumption.
  - cbv iota in H. destruct (decode (unquote (r_raw rq))) as [p0|]; [|eapply Hret; eassumption].
    destruct (vroot_tuple c) as [r0|vt]; [eapply Hret; eassumption|].
    destruct (vt ++ split_path_info_f _) as [|seg rest]; [eapply Hret; eassumption|].
    destruct (text_eqb _ _); [eapply serve_contained_fs; eassumption|eapply Hret; eassumption].
  - cbv iota in H. destruct (decode (unquote (r_raw rq))) as [p0|]; [|eapply Hret; eassumption].
    destruct (route_match_seg _ _) as [rest|]; [|eapply Hret; eassumption].
    destruct (traverser_tuple rest) as [r0|t]; [eapply Hret; eassumption|eapply serve_contained_fs; eassumption].
  - cbv iota in H. destruct (decode (unquote (r_raw rq))) as [p0|]; [|eapply Hret; eassumption].
    destruct (route_match_ph _ _) as [rest|]; [|eapply Hret; eassumption].
    destruct (traverser_tuple rest) as [r0|t]; [eapply Hret; eassumption|eapply serve_contained_fs; eassumption].
  - eapply serve_path_info_contained_fs; eassumption.
  - destruct (decode (unquote (r_raw rq))) as [p0|]; [|eapply Hret; eassumption].
    destruct (route_match _ _) as [rest|]; [|eapply Hret; eassumption].
    eapply serve_contained_fs; eassumption.
Qed.

(* with HTTP_X_VHM_ROOT: the request is answered as without it, or not at all (a decoding error / 404, no file access) *)
Lemma run_request_cases c fs fm rq :
  run_request c fs fm rq = run_request_core c fs fm rq \/
  (exists r, run_request c fs fm rq = ret (r, fm) /\ (r = RExc 2 \/ r = R404 0)) \/
  (exists t, run_request c fs fm rq = serve c rq (unquote (r_raw rq)) fs fm t).
Proof.
  unfold run_request. destruct (routed_by_route _); [|left; reflexivity].
  destruct (decode _) as [p0|]; [|left; reflexivity].
  unfold vroot_gate, vroot_tuple. destruct (c_vroot c) as [v|]; [|left; reflexivity].
  destruct (decode v) as [u|]; [|right; left; eexists; split; [reflexivity|left; reflexivity]].
  destruct (split_path_info_f u) as [|seg rest]; [left; reflexivity|].
  destruct (empty_text _); [|right; left; eexists; split; [reflexivity|right; reflexivity]].
  destruct (route_matches c p0); [right; right; eexists; reflexivity|].
  right; left; eexists; split; [reflexivity|right; reflexivity].
Qed.

Lemma run_request_contained_fs c fs fm rq r fm' log :
  wf_fs c -> root_is_dir c fs -> fm_ok c fm ->
  run_request c fs fm rq = ((r, fm'), log) -> contained c log = true /\ fm_ok c fm'.
Proof.
  intros Hwf Hroot Hfm H. destruct (run_request_cases c fs fm rq) as [E|[(r0 & E & _)|(t & E)]]; rewrite E in H.
  - eapply run_request_core_contained_fs; eassumption.
  - unfold ret in H. injection H as <- <- <-. split; [reflexivity|assumption].
  - eapply serve_contained_fs; eassumption.
Qed.

Lemma run_requests_contained_fs c fs rqs fm :
  wf_fs c -> root_is_dir c fs -> fm_ok c fm ->
  Forall (fun rl => contained c (snd rl) = true) (run_requests c fs fm rqs).
Proof.
  intros Hwf Hroot. revert fm. induction rqs as [|rq rqs IH]; intros fm Hfm; [constructor|].
  cbn [run_requests]. destruct (run_request c fs fm rq) as [[r fm'] log] eqn:E.
  destruct (run_request_contained_fs c fs fm rq r fm' log Hwf Hroot Hfm E) as [Hl Hfm'].
  constructor; [exact Hl|apply IH; assumption].
Qed.

(* for every sequence of requests handled by one view instance, whatever the
   request strings, the mounting, the file system and the Accept-Encoding
   answers: every path handed to os.stat/open is absolute, NUL-free, made of
   plain names only, and lexically the root or a path below it *)
Theorem containment_fs c fs rqs :
  wf_fs c -> root_is_dir c fs ->
  Forall (fun rl => contained c (snd rl) = true) (run_model c fs rqs).
Proof. intros Hwf Hroot. apply run_requests_contained_fs; [assumption|assumption|apply fm_ok_nil]. Qed.

(* ------------------------------------------------------------ find_best_match *)
Lemma find_ext {A} (f g : A -> bool) l : (forall x, f x = g x) -> find f l = find g l.
Proof. intros H. induction l as [|x l IH]; simpl; [reflexivity|]. rewrite H, IH. reflexivity. Qed.

Definition sel (rq : request) (f : cand) : bool := spec_acceptable rq (snd f).

Lemma best_match_find rq files : best_match rq files = find (sel rq) files.
Proof.
  unfold best_match, sel, spec_acceptable. destruct (r_ae rq) eqn:E.
  - apply find_ext. intros [p [e|]]; reflexivity.
  - induction files as [|[p [e|]] r IH]; cbn [find is_identity fst snd andb]; [reflexivity|exact IH|reflexivity].
Qed.

Definition key_le (x y : N * cand) : Prop := fst x <= fst y.

Lemma insert_by_sorted x l :
  Sorted.StronglySorted key_le l -> Sorted.StronglySorted key_le (insert_by x l).
Proof.
  intros H. induction H as [|y r Hr IH Hy]; simpl.
  - constructor; [constructor|constructor].
  - destruct (fst x <=? fst y) eqn:E.
    + apply N.leb_le in E. constructor; [constructor; assumption|].
      constructor; [exact E|]. eapply Forall_impl; [|exact Hy]. intros a Ha. unfold key_le in *. lia.
    + apply N.leb_gt in E. constructor; [assumption|].
      apply Forall_forall. intros z Hz. apply insert_by_In in Hz. destruct Hz as [->|Hz].
      * unfold key_le. lia.
      * rewrite Forall_forall in Hy. apply Hy. assumption.
Qed.

Lemma sort_by_sorted l : Sorted.StronglySorted key_le (sort_by l).
Proof. induction l as [|x r IH]; simpl; [constructor|apply insert_by_sorted; assumption]. Qed.

Lemma find_sorted_min (P : N * cand -> bool) l x :
  Sorted.StronglySorted key_le l -> find P l = Some x ->
  forall y, In y l -> P y = true -> fst x <= fst y.
Proof.
  intros H. induction H as [|z r Hr IH Hz]; simpl; [discriminate|].
  destruct (P z) eqn:E.
  - intros F y Hy Py. injection F as <-. destruct Hy as [<-|Hy]; [lia|].
    rewrite Forall_forall in Hz. apply Hz. assumption.
  - intros F y Hy Py. destruct Hy as [<-|Hy]; [congruence|]. apply IH; assumption.
Qed.

Lemma find_map_snd (P : cand -> bool) (l : list (N * cand)) :
  find P (map snd l) = option_map snd (find (fun kf => P (snd kf)) l).
Proof. induction l as [|x l IH]; simpl; [reflexivity|]. destruct (P (snd x)); [reflexivity|exact IH]. Qed.

(* the file chosen among the size-sorted candidates is acceptable to the client
   (identity always is; an encoded variant only if an Accept-Encoding header is
   present and lists it), carries its own encoding label, and no acceptable
   candidate is strictly smaller *)
Theorem variant_choice rq keyed p enc :
  best_match rq (map snd (sort_by keyed)) = Some (p, enc) ->
  spec_acceptable rq enc = true /\
  exists k, In (k, (p, enc)) keyed /\
            forall k' f', In (k', f') keyed -> spec_acceptable rq (snd f') = true -> k <= k'.
Proof.
  rewrite best_match_find, find_map_snd. intros H.
  destruct (find (fun kf => sel rq (snd kf)) (sort_by keyed)) as [[k f]|] eqn:F; [|discriminate].
  cbn [option_map snd] in H. injection H as ->.
  pose proof (find_some _ _ F) as [Hin Hsel]. cbn [snd] in Hsel. split; [exact Hsel|].
  exists k. split; [apply sort_by_In; assumption|].
  intros k' f' Hin' Hacc.
  apply (find_sorted_min _ _ _ (sort_by_sorted keyed) F (k', f')); [apply sort_by_In; assumption|exact Hacc].
Qed.

(* the keys really are the sizes of the files, and the files are those that exist *)
Lemma sizes_keys fs l : map snd (fst (sizes fs l)) = l /\
  Forall (fun kf => fst kf = entry_size (fs_stat fs (fst (snd kf)))) (fst (sizes fs l)).
Proof.
  induction l as [|f r [IH1 IH2]]; [split; [reflexivity|constructor]|].
  cbn [sizes]. unfold bind, stat, ret. destruct (sizes fs r) as [ks lg]. cbn [fst snd map] in *.
  split; [f_equal; assumption|constructor; [reflexivity|assumption]].
Qed.

(* a 200 response of the view carries the content of the chosen file and its label *)
Lemma file_response_200 fs p enc vary body enc' vary' log :
  file_response fs p enc vary = (R200 body enc' vary', log) ->
  enc' = enc /\ exists sz, fs_stat fs p = Some (EFile sz body).
Proof.
  unfold file_response, bind, stat, ret. destruct (fs_stat fs p) as [[sz b|sz]|] eqn:E.
  - intros H. injection H as <- <- _ _. split; [reflexivity|]. exists sz. reflexivity.
  - intros H. discriminate.
  - intros H. discriminate.
Qed.

Lemma grn_not_200 c rq pi fs t body enc vary log :
  get_resource_name c rq pi fs t <> (RNResp (R200 body enc vary), log).
Proof.
  unfold get_resource_name. intros H.
  assert (Hd : forall idx l, (dir_or_redirect c rq pi idx, l) <> (RNResp (R200 body enc vary), log)).
  { intros idx l E. unfold dir_or_redirect in E. destruct (path_url c pi); [|discriminate].
    destruct (endswith url_dir_suffix t0); discriminate. }
  destruct (secure_path t) as [path|].
  - destruct (c_pkg c); unfold bind, stat, ret in H.
    + destruct (is_dir _); [eapply Hd; exact H|discriminate].
    + destruct (is_dir _); [eapply Hd; exact H|discriminate].
  - unfold ret, with_url in H. destruct (path_url c pi); discriminate.
Qed.

(* a 200 answer of a fresh view instance: the body is the content of a file
   that exists, the label is that file's encoding, the client accepts it, and
   no acceptable existing candidate (identity or configured variant) is smaller *)
Theorem variant_acceptable c rq pi fs t body enc vary fm' log :
  serve c rq pi fs [] t = ((R200 body enc vary, fm'), log) ->
  exists name p,
    let keyed := fst (sizes fs (fst (probe c fs (candidates c name)))) in
    spec_acceptable rq enc = true /\
    (exists sz, fs_stat fs p = Some (EFile sz body)) /\
    exists k, In (k, (p, enc)) keyed /\ k = entry_size (fs_stat fs p) /\
      forall k' f', In (k', f') keyed -> spec_acceptable rq (snd f') = true -> k <= k'.
Proof.
  unfold serve, bind. destruct (get_resource_name c rq pi fs t) as [[r0|name] l1] eqn:E1.
  { unfold ret. intros H. injection H as -> _ _. exfalso. eapply grn_not_200. exact E1. }
  unfold possible_files. cbn [fm_get]. unfold compute_files, bind, ret.
  destruct (probe c fs (candidates c name)) as [found l2] eqn:E2.
  destruct (sizes fs found) as [keyed l3] eqn:E3. cbn [fst snd].
  destruct (best_match rq (map snd (sort_by keyed))) as [[p e]|] eqn:E4.
  2:{ unfold with_url. intros H. injection H as H _ _. destruct (path_url c pi); discriminate. }
  destruct (file_response fs p e _) as [r1 l4] eqn:E5. intros H. injection H as -> _ _.
  apply file_response_200 in E5. destruct E5 as [-> Hbody].
  destruct (variant_choice rq keyed p e E4) as (Hacc & k & Hin & Hmin).
  exists name, p. cbn zeta. rewrite E2. cbn [fst]. rewrite E3. cbn [fst].
  split; [exact Hacc|]. split; [exact Hbody|].
  exists k. split; [exact Hin|]. split; [|exact Hmin].
  pose proof (sizes_keys fs found) as [_ Hk]. rewrite E3 in Hk. cbn [fst] in Hk.
  rewrite Forall_forall in Hk. apply (Hk (k, (p, e)) Hin).
Qed.

(* ------------------------------------------------------------ regenerated facts *)
Lemma facts_ok :
  view_decodes_again = false /\ route_remainder_dotall = true /\ route_anchor_abs = true /\ static_use_subpath = true /\ static_route_star = traverser_subpath_key.
Proof. repeat split; reflexivity. Qed.

Lemma facts_ok3 : traverser_str_decodes_again = false /\ traverser_view_selector = [at_sign; at_sign].
Proof. split; reflexivity. Qed.

Lemma spi_f_is_spi p : split_path_info_f p = split_path_info p.
Proof. reflexivity. Qed.

(* ------------------------------------------------------------ examples: non-vacuity and boundary *)
Lemma notin_b x s : memN x s = false -> ~ In x s.
Proof. intros H Hin. apply memN_In in Hin. congruence. Qed.

(* root "/r" holding f (3 bytes) and f.g (1 byte, encoding "g"); "/s" lies outside *)
Definition ex_cfg (mount : N) (docroot : text) : config :=
  mkConfig mount [115] false docroot [] [105] [[103]] [([46; 103], [103])] [104] [47] false None.
Definition ex_fs : fsys :=
  [ ([[114]], EDir 0); ([[114]; [102]], EFile 3 [1; 2; 3]); ([[114]; [102; 46; 103]], EFile 1 [9]);
    ([[115]], EFile 2 [7; 7]) ].

Lemma ex_wf mount docroot :
  mount <> 0 -> startswith [slash] docroot = true -> memN 0 docroot = false -> wf_fs (ex_cfg mount docroot).
Proof.
  intros Hm Hs Hz. unfold wf_fs. cbn [c_pkg c_docroot c_encmap ex_cfg].
  assert (Hi : eff_index (ex_cfg mount docroot) = [105]).
  { unfold eff_index. cbn [c_mount ex_cfg c_index]. destruct mount; [congruence|reflexivity]. }
  rewrite Hi. repeat split; try assumption; try discriminate.
  - apply notin_b. assumption.
  - apply notin_b. reflexivity.
  - apply notin_b. reflexivity.
  - constructor; [|constructor]. cbn [fst]. split; apply notin_b; reflexivity.
Qed.

(* "/../s" through the catch-all route: '..' is dropped, "/r/s" (isdir, exists) and "/r/s.g" are probed,
   nothing outside the root is touched *)
Example containment_nonvacuous :
  let c := ex_cfg 1 [47; 114] in
  wf_fs c /\ root_is_dir c ex_fs /\
  run_model c ex_fs [mkReq [47; 46; 46; 47; 115] [] [] false []] =
    [(R404 2, [(0, [47; 114; 47; 115]); (0, [47; 114; 47; 115]); (0, [47; 114; 47; 115; 46; 103])])].
Proof.
  split; [apply ex_wf; [discriminate|reflexivity|reflexivity]|]. split; vm_compute; reflexivity.
Qed.

(* "/f" with Accept-Encoding accepting "g": the smaller variant f.g is served, labelled "g", Vary set *)
Example variant_nonvacuous :
  let c := ex_cfg 1 [47; 114] in
  exists log, run_model c ex_fs [mkReq [47; 102] [] [] true [[103]]] = [(R200 [9] (Some [103]) true, log)]
              /\ contained c log = true.
Proof. eexists. split; vm_compute; reflexivity. Qed.

(* boundary: when the configured root is not a directory, "<root>.g" next to it is probed and served *)
Example containment_needs_root_dir :
  let c := ex_cfg 3 [47; 109] in
  let fs := [([[109; 46; 103]], EFile 1 [9])] in
  wf_fs c /\ ~ root_is_dir c fs /\
  exists log, run_model c fs [mkReq [47] [] [] true [[103]]] = [(R200 [9] (Some [103]) false, log)]
              /\ contained c log = false.
Proof.
  split; [apply ex_wf; [discriminate|reflexivity|reflexivity]|]. split.
  - unfold root_is_dir. vm_compute. discriminate.
  - eexists. split; vm_compute; reflexivity.
Qed.

(* the belt-and-braces sets matter once the tuple does not come from split_path_info *)
Example secure_path_rejects :
  secure_path [[46; 46]; [115]] = None /\ secure_path [[97; 47; 98]] = None /\ secure_path [[97; 0]] = None /\
  secure_path [[97]; [98]] = Some [97; 47; 98].
Proof. repeat split; reflexivity. Qed.
