(* C16 -- lemmas and proofs. *)
From Coq Require Import List NArith ZArith PeanoNat Bool Lia.
Import ListNotations.
Require Import Verif.Lib.Wire Verif.Lib.Text Verif.Lib.PathNorm Verif.Lib.Utf8 Verif.Lib.Percent
               Verif.Lib.C16Posix Verif.Gen.Facts_C16 Verif.Model.C16.
Open Scope N_scope.

(* ------------------------------------------------------------ _secure_path *)
Lemma text_eqb_sym a b : text_eqb a b = text_eqb b a.
Proof.
  destruct (text_eqb a b) eqn:E.
  - apply text_eqb_eq in E. subst. symmetry. apply text_eqb_refl.
  - apply text_eqb_neq in E. symmetry. apply text_eqb_neq. congruence.
Qed.

Definition insecure_one (s : text) : bool := existsb (fun e => text_eqb e s) insecure_elements.

Lemma existsb_orb {A} (f g : A -> bool) l :
  existsb (fun x => f x || g x) l = existsb f l || existsb g l.
Proof.
  induction l as [|x l IH]; simpl; [reflexivity|]. rewrite IH.
  destruct (f x), (g x), (existsb f l), (existsb g l); reflexivity.
Qed.

Lemma has_insecure_cons s r : has_insecure (s :: r) = insecure_one s || has_insecure r.
Proof. unfold has_insecure, insecure_one. cbn [mem_text]. apply existsb_orb. Qed.

(* the regenerated sets are exactly: '' '.' '..' and the characters '/' NUL *)
Lemma seg_one s : insecure_one s || contains_invalid_char s = negb (seg_ok s).
Proof.
  unfold insecure_one, contains_invalid_char, insecure_elements, invalid_element_chars,
         seg_ok, normal_segb, is_dot, is_dotdot, dot, slash.
  cbn [existsb].
  rewrite (text_eqb_sym [] s), (text_eqb_sym [46] s), (text_eqb_sym [46; 46] s).
  destruct (text_eqb s []), (text_eqb s [46]), (text_eqb s [46; 46]), (memN 47 s), (memN 0 s); reflexivity.
Qed.

Lemma secure_tests t :
  has_insecure t || existsb contains_invalid_char t = negb (forallb seg_ok t).
Proof.
  induction t as [|s r IH].
  - reflexivity.
  - rewrite has_insecure_cons. cbn [existsb forallb]. rewrite negb_andb, <- IH, <- seg_one.
    destruct (insecure_one s), (contains_invalid_char s), (has_insecure r), (existsb contains_invalid_char r); reflexivity.
Qed.

Theorem secure_path_is_spec t : secure_path t = spec_secure t.
Proof.
  unfold secure_path, spec_secure. pose proof (secure_tests t) as H.
  destruct (has_insecure t); destruct (existsb contains_invalid_char t); destruct (forallb seg_ok t);
    simpl in H; try discriminate; reflexivity.
Qed.

Lemma seg_ok_spec s : seg_ok s = true <-> normal_seg s /\ ~ In 0 s.
Proof.
  unfold seg_ok. rewrite andb_true_iff, normal_segb_spec, negb_true_iff. split.
  - intros [H1 H2]. split; [assumption|]. intros Hin. apply memN_In in Hin. congruence.
  - intros [H1 H2]. split; [assumption|]. destruct (memN 0 s) eqn:E; [apply memN_In in E; contradiction|reflexivity].
Qed.

(* the wording of the design: accepted iff no element is '', '.', '..' and none contains '/' or NUL; then p = join "/" t *)
Theorem secure_path_spec t p :
  secure_path t = Some p <->
  Forall (fun s => s <> [] /\ s <> [dot] /\ s <> [dot; dot] /\ ~ In slash s /\ ~ In 0 s) t /\ p = join [slash] t.
Proof.
  rewrite secure_path_is_spec. unfold spec_secure. split.
  - destruct (forallb seg_ok t) eqn:E; [|discriminate]. intros H. injection H as <-. split; [|reflexivity].
    rewrite forallb_forall in E. apply Forall_forall. intros s Hs. specialize (E s Hs).
    apply seg_ok_spec in E. destruct E as [(H1 & H2 & H3 & H4) H5]. tauto.
  - intros [Hf ->]. assert (E : forallb seg_ok t = true).
    { apply forallb_forall. intros s Hs. rewrite Forall_forall in Hf. specialize (Hf s Hs).
      apply seg_ok_spec. unfold normal_seg. tauto. }
    rewrite E. reflexivity.
Qed.
