(* C20: the relation graph links exactly the declared pairs, in both
   directions -- for every registration sequence in which distinct
   introspectables are distinguishable (the hypothesis under which Python's
   `y not in L` / dict-key equality coincide with object identity). *)
From Coq Require Import List NArith ZArith Bool Lia.
Import ListNotations.
Require Import Verif.Lib.Wire Verif.Lib.C20Types Verif.Gen.Facts_C20 Verif.Model.C20 Verif.Proofs.C20.

Definition R (rf : list (intr * list intr)) (x : intr) : list intr :=
  match refs_get x rf with Some l => l | None => [] end.

Lemma cont_eq_refl a : cont_eq a a = true.
Proof. unfold cont_eq. rewrite N.eqb_refl. reflexivity. Qed.

Lemma key_eq_refl a : key_eq a a = true.
Proof. unfold key_eq. rewrite !text_eqb_refl, cont_eq_refl. reflexivity. Qed.

Lemma R_set_same x v rf : R (refs_set x v rf) x = v.
Proof.
  unfold R. induction rf as [|[k v'] r IH]; simpl.
  - rewrite key_eq_refl. reflexivity.
  - destruct (key_eq x k) eqn:E; simpl; rewrite E; [reflexivity|exact IH].
Qed.

Section Distinguishable.
Variable U : intr -> Prop.
Hypothesis Hinj : forall a b, U a -> U b -> cont_eq a b = true -> a = b.

Lemma key_eq_iff a b : U a -> U b -> (key_eq a b = true <-> a = b).
Proof.
  intros Ha Hb. split.
  - unfold key_eq. intros H. apply andb_true_iff in H. destruct H as [_ H]. auto.
  - intros ->. apply key_eq_refl.
Qed.

Lemma iid_neq a b : U a -> U b -> (N.eqb (iid a) (iid b) = false <-> a <> b).
Proof.
  intros Ha Hb. split.
  - intros H E. subst. rewrite N.eqb_refl in H. discriminate.
  - intros H. destruct (N.eqb (iid a) (iid b)) eqn:E; [|reflexivity].
    exfalso. apply H. apply Hinj; auto. unfold cont_eq. rewrite E. reflexivity.
Qed.

Lemma mem_intr_In y L : U y -> Forall U L -> (mem_intr y L = true <-> In y L).
Proof.
  intros Hy HL. induction HL as [|e r He _ IH]; simpl; [split; [discriminate|tauto]|].
  rewrite orb_true_iff, IH. split.
  - intros [H|H]; [left; symmetry; auto|right; assumption].
  - intros [<-|H]; [left; apply cont_eq_refl|right; assumption].
Qed.

Definition refs_in (rf : list (intr * list intr)) : Prop :=
  Forall (fun kv => U (fst kv) /\ Forall U (snd kv)) rf.

Lemma R_in_U rf x : refs_in rf -> Forall U (R rf x).
Proof.
  unfold R. intros H. induction H as [|[k v] r [Hk Hv] _ IH]; simpl; [constructor|].
  destruct (key_eq x k); assumption.
Qed.

Lemma R_set_other x z v rf : U x -> U z -> refs_in rf -> z <> x -> R (refs_set x v rf) z = R rf z.
Proof.
  intros Hx Hz Hrf Hne. unfold R. induction Hrf as [|[k v'] r [Hk Hv] _ IH]; simpl in *.
  - destruct (key_eq z x) eqn:E; [apply key_eq_iff in E; auto; contradiction|reflexivity].
  - destruct (key_eq x k) eqn:E; simpl.
    + apply key_eq_iff in E; auto. subst k.
      destruct (key_eq z x) eqn:E2; [apply key_eq_iff in E2; auto; contradiction|reflexivity].
    + destruct (key_eq z k); [reflexivity|exact IH].
Qed.

Lemma refs_in_set x v rf : U x -> Forall U v -> refs_in rf -> refs_in (refs_set x v rf).
Proof.
  intros Hx Hv Hrf. induction Hrf as [|[k v'] r [Hk Hv'] Hr IH]; simpl.
  - constructor; [split; assumption|constructor].
  - destruct (key_eq x k); constructor; simpl; auto.
Qed.

Lemma relate1_spec rf x y : U x -> U y -> refs_in rf ->
  refs_in (relate1 rf (x, y)) /\
  forall a b, U a -> U b ->
    (In b (R (relate1 rf (x, y)) a) <-> In b (R rf a) \/ (a = x /\ b = y /\ x <> y)).
Proof.
  intros Hx Hy Hrf. unfold relate1. fold (R rf x).
  pose proof (R_in_U rf x Hrf) as HL.
  set (L := R rf x) in *.
  set (L' := if negb (N.eqb (iid x) (iid y)) && negb (mem_intr y L) then L ++ [y] else L).
  assert (HL' : Forall U L').
  { unfold L'. destruct (_ && _); [apply Forall_app; split; [assumption|constructor; [assumption|constructor]]|assumption]. }
  split; [apply refs_in_set; assumption|].
  intros a b Ha Hb. destruct (key_eq a x) eqn:Eax.
  - apply key_eq_iff in Eax; auto. subst a. rewrite R_set_same. unfold L'.
    destruct (negb (N.eqb (iid x) (iid y)) && negb (mem_intr y L)) eqn:C.
    + apply andb_true_iff in C. destruct C as [C1 C2]. apply negb_true_iff in C1, C2.
      apply iid_neq in C1; auto. rewrite in_app_iff. simpl. split.
      * intros [H|[<-|[]]]; auto.
      * intros [H|(_ & -> & _)]; auto.
    + split; [auto|]. intros [H|(_ & -> & Hne)]; [assumption|].
      apply andb_false_iff in C. destruct C as [C|C]; apply negb_false_iff in C.
      * exfalso. apply iid_neq in Hne; auto. congruence.
      * apply mem_intr_In in C; assumption.
  - assert (Hne : a <> x) by (intros ->; rewrite key_eq_refl in Eax; discriminate).
    rewrite R_set_other by assumption. split; [auto|]. intros [H|(-> & _)]; [assumption|contradiction].
Qed.

Lemma fold_relate1_spec ps : forall rf,
  Forall (fun p => U (fst p) /\ U (snd p)) ps -> refs_in rf ->
  refs_in (fold_left relate1 ps rf) /\
  forall a b, U a -> U b ->
    (In b (R (fold_left relate1 ps rf) a) <-> In b (R rf a) \/ (In (a, b) ps /\ a <> b)).
Proof.
  induction ps as [|[x y] ps IH]; intros rf Hps Hrf; simpl.
  - split; [assumption|]. intros a b _ _. tauto.
  - inversion Hps as [|? ? [Hx Hy] Hps']; subst. simpl in Hx, Hy.
    destruct (relate1_spec rf x y Hx Hy Hrf) as [Hrf1 H1].
    destruct (IH _ Hps' Hrf1) as [Hrf2 H2]. split; [assumption|].
    intros a b Ha Hb. rewrite (H2 a b Ha Hb), (H1 a b Ha Hb). split.
    + intros [[H|(-> & -> & Hne)]|[H Hne]]; auto.
    + intros [H|[[E|H] Hne]]; auto. inversion E; subst. left. right. auto.
Qed.

(* ---- unrelate: removes exactly the named pairs (relation lists hold no duplicates) *)
Definition lists_nodup (rf : list (intr * list intr)) : Prop := Forall (fun kv => NoDup (snd kv)) rf.

Lemma R_nodup rf x : lists_nodup rf -> NoDup (R rf x).
Proof.
  unfold R. intros H. induction H as [|[k v] r Hv _ IH]; simpl; [constructor|].
  destruct (key_eq x k); [exact Hv|exact IH].
Qed.

Lemma lists_nodup_set x v rf : NoDup v -> lists_nodup rf -> lists_nodup (refs_set x v rf).
Proof.
  intros Hv H. induction H as [|[k v'] r Hk Hr IH]; simpl.
  - constructor; [exact Hv|constructor].
  - destruct (key_eq x k); constructor; simpl; auto.
Qed.

Lemma nodup_snoc (l : list intr) y : NoDup l -> ~ In y l -> NoDup (l ++ [y]).
Proof.
  induction l as [|e r IH]; simpl; intros Hn Hy.
  - constructor; [intros []|constructor].
  - inversion Hn as [|? ? Hne Hnr]; subst. constructor.
    + intros Hin. apply in_app_iff in Hin. destruct Hin as [Hin|[E|[]]]; [contradiction|].
      subst. apply Hy. left. reflexivity.
    + apply IH; [assumption|]. intros Hin. apply Hy. right. exact Hin.
Qed.

Lemma relate1_nodup rf x y : U x -> U y -> refs_in rf -> lists_nodup rf -> lists_nodup (relate1 rf (x, y)).
Proof.
  intros Hx Hy Hrf Hnd. unfold relate1. fold (R rf x).
  pose proof (R_nodup rf x Hnd) as HN. pose proof (R_in_U rf x Hrf) as HU.
  apply lists_nodup_set; [|assumption].
  destruct (negb (N.eqb (iid x) (iid y)) && negb (mem_intr y (R rf x))) eqn:C; [|exact HN].
  apply andb_true_iff in C. destruct C as [_ C]. apply negb_true_iff in C.
  apply nodup_snoc; [exact HN|]. intros Hin. apply mem_intr_In in Hin; auto. congruence.
Qed.

Lemma remove_first_spec y L : forall L', U y -> Forall U L -> NoDup L -> remove_first y L = Some L' ->
  In y L /\ NoDup L' /\ Forall U L' /\ forall b, (In b L' <-> In b L /\ b <> y).
Proof.
  induction L as [|e r IH]; simpl; intros L' Hy HL Hn H; [discriminate|].
  inversion HL as [|? ? He Hr]; subst. inversion Hn as [|? ? Hne Hnr]; subst.
  destruct (cont_eq y e) eqn:E.
  - inversion H; subst L'. assert (Eq : y = e) by (apply Hinj; auto). subst e.
    split; [left; reflexivity|]. split; [exact Hnr|]. split; [exact Hr|].
    intros b. split.
    + intros Hb. split; [right; exact Hb|]. intros ->. contradiction.
    + intros [[Eb|Hb] Hneq]; [exfalso; apply Hneq; symmetry; exact Eb|exact Hb].
  - destruct (remove_first y r) as [r'|] eqn:Er; [|discriminate]. inversion H; subst L'.
    destruct (IH r' Hy Hr Hnr eq_refl) as (I1 & I2 & I3 & I4).
    assert (Hye : e <> y). { intros ->. rewrite cont_eq_refl in E. discriminate. }
    split; [right; exact I1|]. split.
    { constructor; [|exact I2]. intros Hin. apply I4 in Hin. destruct Hin as [Hin _]. contradiction. }
    split; [constructor; assumption|].
    intros b. simpl. rewrite I4. split.
    + intros [Eb|[Hb Hn']]; [subst b; split; [left; reflexivity|exact Hye]|split; [right; exact Hb|exact Hn']].
    + intros [[Eb|Hb] Hn']; [left; exact Eb|right; split; assumption].
Qed.

Lemma remove_first_none y L : U y -> Forall U L -> remove_first y L = None -> ~ In y L.
Proof.
  induction L as [|e r IH]; simpl; intros Hy HL H; [tauto|].
  inversion HL as [|? ? He Hr]; subst.
  destruct (cont_eq y e) eqn:E; [discriminate|].
  destruct (remove_first y r) eqn:Er; [discriminate|].
  intros [Eq|Hin]; [subst e; rewrite cont_eq_refl in E; discriminate|].
  exact (IH Hy Hr eq_refl Hin).
Qed.

Lemma unrelate1_spec rf x y : U x -> U y -> refs_in rf -> lists_nodup rf ->
  refs_in (unrelate1 rf (x, y)) /\ lists_nodup (unrelate1 rf (x, y)) /\
  forall a b, U a -> U b ->
    (In b (R (unrelate1 rf (x, y)) a) <-> In b (R rf a) /\ ~ (a = x /\ b = y)).
Proof.
  intros Hx Hy Hrf Hnd. unfold unrelate1.
  pose proof (R_in_U rf x Hrf) as HL. pose proof (R_nodup rf x Hnd) as HN. unfold R in HL, HN.
  destruct (refs_get x rf) as [L|] eqn:EL.
  2: { split; [assumption|]. split; [assumption|]. intros a b Ha Hb. split; [|tauto].
       intros H. split; [exact H|]. intros [Ea Eb]. subst a b. unfold R in H. rewrite EL in H. destruct H. }
  destruct (remove_first y L) as [L'|] eqn:ER.
  2: { split; [assumption|]. split; [assumption|]. intros a b Ha Hb. split; [|tauto].
       intros H. split; [exact H|]. intros [Ea Eb]. subst a b. unfold R in H. rewrite EL in H.
       exact (remove_first_none y L Hy HL ER H). }
  destruct (remove_first_spec y L L' Hy HL HN ER) as (S1 & S2 & S3 & S4).
  split; [apply refs_in_set; assumption|]. split; [apply lists_nodup_set; assumption|].
  intros a b Ha Hb. destruct (key_eq a x) eqn:Eax.
  - apply key_eq_iff in Eax; auto. subst a. rewrite R_set_same. rewrite S4. unfold R. rewrite EL. split.
    + intros [H Hn]. split; [exact H|]. intros [_ Eb]. apply Hn. exact Eb.
    + intros [H Hn]. split; [exact H|]. intros Eb. apply Hn. split; [reflexivity|exact Eb].
  - assert (Hne : a <> x) by (intros ->; rewrite key_eq_refl in Eax; discriminate).
    rewrite R_set_other by assumption. split; [|tauto].
    intros H. split; [exact H|]. intros [Ea _]. contradiction.
Qed.

Lemma fold_unrelate1_spec ps : forall rf,
  Forall (fun p => U (fst p) /\ U (snd p)) ps -> refs_in rf -> lists_nodup rf ->
  refs_in (fold_left unrelate1 ps rf) /\ lists_nodup (fold_left unrelate1 ps rf) /\
  forall a b, U a -> U b ->
    (In b (R (fold_left unrelate1 ps rf) a) <-> In b (R rf a) /\ ~ In (a, b) ps).
Proof.
  induction ps as [|[x y] ps IH]; intros rf Hps Hrf Hnd; simpl.
  - split; [assumption|]. split; [assumption|]. intros a b _ _. tauto.
  - inversion Hps as [|? ? [Hx Hy] Hps']; subst. simpl in Hx, Hy.
    destruct (unrelate1_spec rf x y Hx Hy Hrf Hnd) as (R1 & N1 & H1).
    destruct (IH _ Hps' R1 N1) as (R2 & N2 & H2). split; [assumption|]. split; [assumption|].
    intros a b Ha Hb. rewrite (H2 a b Ha Hb), (H1 a b Ha Hb). split.
    + intros [[H Hn1] Hn2]. split; [exact H|]. intros [E|Hin]; [|contradiction].
      inversion E; subst. apply Hn1. split; reflexivity.
    + intros [H Hn]. split; [split; [exact H|]|].
      * intros [Ea Eb]. subst a b. apply Hn. left. reflexivity.
      * intros Hin. apply Hn. right. exact Hin.
Qed.

Lemma fold_relate1_nodup ps : forall rf,
  Forall (fun p => U (fst p) /\ U (snd p)) ps -> refs_in rf -> lists_nodup rf ->
  lists_nodup (fold_left relate1 ps rf).
Proof.
  induction ps as [|[x y] ps IH]; intros rf Hps Hrf Hnd; simpl; [assumption|].
  inversion Hps as [|? ? [Hx Hy] Hps']; subst. simpl in Hx, Hy.
  apply IH; [assumption|exact (proj1 (relate1_spec rf x y Hx Hy Hrf))|apply relate1_nodup; assumption].
Qed.

(* ---- state level *)
Definition Lk (s : st) (a b : intr) : Prop := In b (R (refs s) a).
Definition lookups_in_U (s : st) : Prop := forall c d t, lookup s c d = Some t -> U t.

Lemma linked_Lk s a b : U b -> refs_in (refs s) -> (linked s a b = true <-> Lk s a b).
Proof.
  intros Hb Hrf. unfold linked, Lk, R. destruct (refs_get a (refs s)) as [l|] eqn:E.
  - apply mem_intr_In; [assumption|]. pose proof (R_in_U (refs s) a Hrf) as H. unfold R in H. rewrite E in H. exact H.
  - simpl. split; [discriminate|tauto].
Qed.

Lemma relate_pair_spec s c1 d1 c2 d2 s' :
  relate s [(c1, d1); (c2, d2)] = Ok s' -> lookups_in_U s -> refs_in (refs s) ->
  exists x y, lookup s c1 d1 = Some x /\ lookup s c2 d2 = Some y /\
    cats s' = cats s /\ refs_in (refs s') /\
    forall a b, U a -> U b ->
      (Lk s' a b <-> Lk s a b \/ (((a = x /\ b = y) \/ (a = y /\ b = x)) /\ a <> b)).
Proof.
  unfold relate. simpl. intros H HU Hrf.
  destruct (lookup s c1 d1) as [x|] eqn:E1; [|discriminate].
  destruct (lookup s c2 d2) as [y|] eqn:E2; [|discriminate].
  inversion H; subst s'; clear H. exists x, y. simpl.
  pose proof (HU _ _ _ E1) as Hx. pose proof (HU _ _ _ E2) as Hy.
  assert (Hps : Forall (fun p => U (fst p) /\ U (snd p)) (product [x; y])).
  { unfold product. simpl. repeat constructor; simpl; assumption. }
  destruct (fold_relate1_spec _ _ Hps Hrf) as [Hrf' Hspec].
  split; [reflexivity|]. split; [reflexivity|]. split; [reflexivity|]. split; [exact Hrf'|].
  intros a b Ha Hb. unfold Lk. simpl. rewrite (Hspec a b Ha Hb). split.
  - intros [H|[Hin Hne]]; [auto|]. right. split; [|assumption].
    unfold product in Hin. simpl in Hin.
    destruct Hin as [E|[E|[E|[E|[]]]]]; inversion E; subst; auto; contradiction.
  - intros [H|[[[-> ->]|[-> ->]] Hne]]; [auto| |]; right; split; auto;
      unfold product; simpl; auto.
Qed.

(* unrelate of a pair withdraws exactly the links between the two objects, in both directions, and nothing else *)
Lemma unrelate_pair_spec s c1 d1 c2 d2 s' :
  unrelate s [(c1, d1); (c2, d2)] = Ok s' -> lookups_in_U s -> refs_in (refs s) -> lists_nodup (refs s) ->
  exists x y, lookup s c1 d1 = Some x /\ lookup s c2 d2 = Some y /\
    cats s' = cats s /\ refs_in (refs s') /\ lists_nodup (refs s') /\
    forall a b, U a -> U b ->
      (Lk s' a b <-> Lk s a b /\ ~ ((a = x \/ a = y) /\ (b = x \/ b = y))).
Proof.
  unfold unrelate. simpl. intros H HU Hrf Hnd.
  destruct (lookup s c1 d1) as [x|] eqn:E1; [|discriminate].
  destruct (lookup s c2 d2) as [y|] eqn:E2; [|discriminate].
  inversion H; subst s'; clear H. exists x, y. simpl.
  pose proof (HU _ _ _ E1) as Hx. pose proof (HU _ _ _ E2) as Hy.
  assert (Hps : Forall (fun p => U (fst p) /\ U (snd p)) (product [x; y])).
  { unfold product. simpl. repeat constructor; simpl; assumption. }
  destruct (fold_unrelate1_spec _ _ Hps Hrf Hnd) as (Hrf' & Hnd' & Hspec).
  split; [reflexivity|]. split; [reflexivity|]. split; [reflexivity|]. split; [exact Hrf'|]. split; [exact Hnd'|].
  intros a b Ha Hb. unfold Lk. simpl. rewrite (Hspec a b Ha Hb).
  assert (P : In (a, b) (product [x; y]) <-> (a = x \/ a = y) /\ (b = x \/ b = y)).
  { unfold product. simpl. split.
    - intros [E|[E|[E|[E|[]]]]]; inversion E; subst; auto.
    - intros [[-> | ->] [-> | ->]]; auto. }
  rewrite P. tauto.
Qed.

(* hence a symmetric relation graph stays symmetric under unrelate, as it does under relate *)
Lemma unrelate_keeps_symmetry s c1 d1 c2 d2 s' :
  unrelate s [(c1, d1); (c2, d2)] = Ok s' -> lookups_in_U s -> refs_in (refs s) -> lists_nodup (refs s) ->
  (forall a b, U a -> U b -> (Lk s a b <-> Lk s b a)) ->
  forall a b, U a -> U b -> (Lk s' a b <-> Lk s' b a).
Proof.
  intros H HU Hrf Hnd Sym a b Ha Hb.
  destruct (unrelate_pair_spec _ _ _ _ _ _ H HU Hrf Hnd) as (x & y & _ & _ & _ & _ & _ & Sp).
  rewrite (Sp a b Ha Hb), (Sp b a Hb Ha), (Sym a b Ha Hb). tauto.
Qed.

Lemma relate_keeps_symmetry s c1 d1 c2 d2 s' :
  relate s [(c1, d1); (c2, d2)] = Ok s' -> lookups_in_U s -> refs_in (refs s) ->
  (forall a b, U a -> U b -> (Lk s a b <-> Lk s b a)) ->
  forall a b, U a -> U b -> (Lk s' a b <-> Lk s' b a).
Proof.
  intros H HU Hrf Sym a b Ha Hb.
  destruct (relate_pair_spec _ _ _ _ _ _ H HU Hrf) as (x & y & _ & _ & _ & _ & Sp).
  rewrite (Sp a b Ha Hb), (Sp b a Hb Ha), (Sym a b Ha Hb).
  split; intros [L|[[[E1 E2]|[E1 E2]] Hne]]; auto; right; split; auto.
Qed.

Definition is_rel (r : relop) : bool := match r with Rel _ _ => true | Unrel _ _ => false end.

Lemma replay_spec rs : forall s0 i s',
  forallb is_rel rs = true ->
  replay s0 i rs = (s', None) ->
  lookup s0 (icat i) (idisc i) = Some i -> lookups_in_U s0 -> refs_in (refs s0) ->
  cats s' = cats s0 /\ refs_in (refs s') /\
  (forall c d, In (Rel c d) rs -> lookup s0 c d <> None) /\
  forall a b, U a -> U b ->
    (Lk s' a b <-> Lk s0 a b \/
       (a <> b /\ exists c d t, In (Rel c d) rs /\ lookup s0 c d = Some t /\
                                ((a = i /\ b = t) \/ (a = t /\ b = i)))).
Proof.
  induction rs as [|[c d|c d] rs IH]; intros s0 i s' Hr H Hi HU Hrf; simpl in *.
  - inversion H; subst. split; [reflexivity|]. split; [assumption|]. split; [intros c d []|].
    intros a b _ _. split; [auto|]. intros [H1|(_ & c & d & t & [] & _)]. assumption.
  - destruct (relate s0 [(icat i, idisc i); (c, d)]) as [s1|e] eqn:E; [|discriminate].
    destruct (relate_pair_spec _ _ _ _ _ _ E HU Hrf) as (x & y & Ex & Ey & Hc & Hrf1 & Hl).
    rewrite Hi in Ex. inversion Ex; subst x; clear Ex.
    assert (Hi1 : lookup s1 (icat i) (idisc i) = Some i) by (rewrite (lookup_cats _ _ _ _ Hc); assumption).
    assert (HU1 : lookups_in_U s1) by (intros c' d' t' Ht; rewrite (lookup_cats _ _ _ _ Hc) in Ht; eauto).
    destruct (IH s1 i s' Hr H Hi1 HU1 Hrf1) as (Hc' & Hrf' & Hok & Hl').
    split; [congruence|]. split; [assumption|]. split.
    + intros c' d' [E'|Hin]; [inversion E'; subst; congruence|].
      specialize (Hok c' d' Hin). rewrite (lookup_cats _ _ _ _ Hc) in Hok. assumption.
    + intros a b Ha Hb. rewrite (Hl' a b Ha Hb), (Hl a b Ha Hb). split.
      * intros [[H1|[H1 Hne]]|(Hne & c' & d' & t & Hin & Ht & Hab)].
        -- auto.
        -- right. split; [assumption|]. exists c, d, y. auto.
        -- right. split; [assumption|]. exists c', d', t.
           rewrite (lookup_cats _ _ _ _ Hc) in Ht. auto.
      * intros [H1|(Hne & c' & d' & t & [E'|Hin] & Ht & Hab)].
        -- auto.
        -- inversion E'; subst c' d'. rewrite Ey in Ht. inversion Ht; subst t. left. right. auto.
        -- right. split; [assumption|]. exists c', d', t.
           rewrite (lookup_cats _ _ _ _ Hc). auto.
  - discriminate.
Qed.

End Distinguishable.

(* ---- whole registration sequences *)
Definition keyof (x : intr * list relop) : text * text := (icat (fst x), idisc (fst x)).

Lemma NoDup_key_inj l x y :
  NoDup (map keyof l) -> In x l -> In y l -> keyof x = keyof y -> x = y.
Proof.
  induction l as [|z l IH]; simpl; intros Hnd Hx Hy E; [contradiction|].
  inversion Hnd as [|? ? Hn Hnd']; subst.
  destruct Hx as [<-|Hx], Hy as [<-|Hy]; auto.
  - exfalso. apply Hn. rewrite E. apply in_map. assumption.
  - exfalso. apply Hn. rewrite <- E. apply in_map. assumption.
Qed.

Section Sequences.
Variable l : list (intr * list relop).
Let U : intr -> Prop := fun x => In x (map fst l).
Hypothesis Hinj : forall a b, U a -> U b -> cont_eq a b = true -> a = b.
Hypothesis Hrel : forallb (fun x => forallb is_rel (snd x)) l = true.
Hypothesis Hnd : NoDup (map keyof l).

(* declared links among a list of registrations *)
Definition declared (done : list (intr * list relop)) (a b : intr) : Prop :=
  exists i rs c d, In (i, rs) done /\ In (Rel c d) rs /\
    ((a = i /\ icat b = c /\ idisc b = d) \/ (b = i /\ icat a = c /\ idisc a = d)).

Lemma lookup_done done s c d t :
  (forall c d, lookup s c d = option_map fst (find_last (keyb c d) done)) ->
  lookup s c d = Some t -> exists rs, In (t, rs) done /\ icat t = c /\ idisc t = d.
Proof.
  intros H Ht. rewrite H in Ht. destruct (find_last (keyb c d) done) as [[t' rs]|] eqn:E; [|discriminate].
  simpl in Ht. inversion Ht; subst t'. apply find_last_some in E. destruct E as [Hin Hk].
  unfold keyb in Hk. simpl in Hk. apply andb_true_iff in Hk. destruct Hk as [H1 H2].
  apply text_eqb_eq in H1, H2. eauto.
Qed.

Lemma invariant_all : forall done rest s0 s,
  l = done ++ rest ->
  register_all s0 rest = Ok s ->
  (forall c d, lookup s0 c d = option_map fst (find_last (keyb c d) done)) ->
  refs_in U (refs s0) ->
  (forall a b, U a -> U b -> (Lk s0 a b <-> a <> b /\ declared done a b)) ->
  refs_in U (refs s) /\
  (forall a b, U a -> U b -> (Lk s a b <-> a <> b /\ declared l a b)).
Proof.
  intros done rest. revert done. induction rest as [|[i rs] rest IH]; intros done s0 s El H Hlk Hrf Hd.
  - simpl in H. inversion H; subst s. rewrite app_nil_r in El. subst done. auto.
  - simpl in H. destruct (register s0 i rs) as [s1 [e|]] eqn:E; [discriminate|].
    assert (Hil : In (i, rs) l) by (rewrite El; apply in_or_app; right; left; reflexivity).
    assert (Ui : U i) by (unfold U; apply in_map_iff; exists (i, rs); auto).
    assert (Hrs : forallb is_rel rs = true).
    { rewrite forallb_forall in Hrel. apply (Hrel (i, rs) Hil). }
    unfold register in E.
    (* state after add *)
    assert (Hlk1 : forall c d, lookup (add s0 i) c d = option_map fst (find_last (keyb c d) (done ++ [(i, rs)]))).
    { intros c d.
      assert (FL : forall (l1 : list (intr * list relop)) x,
                 find_last (keyb c d) (l1 ++ [x]) = if keyb c d x then Some x else find_last (keyb c d) l1).
      { induction l1 as [|y l1 IHl]; intros x; simpl; [reflexivity|].
        rewrite IHl. destruct (keyb c d x); [reflexivity|]. reflexivity. }
      rewrite FL. unfold keyb at 1. simpl.
      destruct (text_eqb_spec (icat i) c) as [<-|Hc]; simpl.
      - destruct (text_eqb_spec (idisc i) d) as [<-|Hd'].
        + simpl. apply lookup_add_same.
        + rewrite lookup_add_other by congruence. apply Hlk.
      - rewrite lookup_add_other by congruence. apply Hlk. }
    assert (HU1 : lookups_in_U U (add s0 i)).
    { intros c d t Ht. destruct (lookup_done _ _ _ _ _ Hlk1 Ht) as (rs' & Hin & _ & _).
      unfold U. apply in_map_iff. exists (t, rs'). split; [reflexivity|].
      rewrite El. apply in_app_or in Hin. apply in_or_app.
      destruct Hin as [Hin|[Hin|[]]]; [left; assumption|right; left; assumption]. }
    assert (Hi1 : lookup (add s0 i) (icat i) (idisc i) = Some i) by apply lookup_add_same.
    destruct (replay_spec U Hinj rs (add s0 i) i s1 Hrs E Hi1 HU1 Hrf) as (Hc & Hrf1 & Hok & Hl).
    apply (IH (done ++ [(i, rs)]) s1 s); auto.
    + rewrite <- app_assoc. exact El.
    + intros c d. rewrite (lookup_cats _ _ _ _ Hc). apply Hlk1.
    + intros a b Ha Hb. rewrite (Hl a b Ha Hb). unfold Lk in *. simpl. rewrite (Hd a b Ha Hb).
      split.
      * intros [[Hne (i' & rs' & c & d & Hin & Hr & Hab)]|(Hne & c & d & t & Hr & Ht & Hab)].
        -- split; [assumption|]. exists i', rs', c, d. split; [apply in_or_app; left; assumption|auto].
        -- split; [assumption|]. exists i, rs, c, d. split; [apply in_or_app; right; left; reflexivity|].
           split; [assumption|].
           destruct (lookup_done _ _ _ _ _ Hlk1 Ht) as (_ & _ & Hc1 & Hd1).
           destruct Hab as [[-> ->]|[-> ->]]; auto.
      * intros [Hne (i' & rs' & c & d & Hin & Hr & Hab)].
        apply in_app_or in Hin. destruct Hin as [Hin|[Hin|[]]].
        -- left. split; [assumption|]. exists i', rs', c, d. auto.
        -- inversion Hin; subst i' rs'. right. split; [assumption|].
           specialize (Hok c d Hr). destruct (lookup (add s0 i) c d) as [t|] eqn:Et; [|congruence].
           exists c, d, t. split; [assumption|]. split; [exact Et|].
           destruct (lookup_done _ _ _ _ _ Hlk1 Et) as (rs' & Hint & Hc1 & Hd1).
           assert (Htl : In (t, rs') l).
           { rewrite El. apply in_app_or in Hint. apply in_or_app.
             destruct Hint as [Hint|[Hint|[]]]; [left; assumption|right; left; assumption]. }
           (* the other end has the same key as t, hence is t *)
           assert (same : forall z, U z -> icat z = c -> idisc z = d -> z = t).
           { intros z Hz Hzc Hzd. unfold U in Hz. apply in_map_iff in Hz. destruct Hz as ([z' rz] & Ez & Hzl).
             simpl in Ez. subst z'.
             assert (EE : (z, rz) = (t, rs')).
             { apply (NoDup_key_inj l); auto. unfold keyof. simpl. congruence. }
             inversion EE. reflexivity. }
           destruct Hab as [(-> & Hbc & Hbd)|(-> & Hac & Had)].
           ++ left. split; [reflexivity|]. apply same; assumption.
           ++ right. split; [|reflexivity]. apply same; assumption.
Qed.

Theorem relations_exact_section s a b :
  register_all init l = Ok s -> U a -> U b ->
  (linked s a b = true <-> a <> b /\ declared l a b).
Proof.
  intros H Ha Hb.
  destruct (invariant_all [] l init s eq_refl H) as [Hrf Hl].
  - intros c d. reflexivity.
  - constructor.
  - intros x y _ _. unfold Lk. simpl. split; [intros []|].
    intros (_ & i & rs & c & d & [] & _).
  - rewrite (linked_Lk U Hinj s a b Hb Hrf). apply Hl; assumption.
Qed.

End Sequences.

(* the property's clause: after registering any sequence of introspectables
   (relations only added; one registration per (category, discriminator);
   distinct objects distinguishable), two registered entries are linked iff a
   declared relation names the pair -- and then in BOTH directions *)
Theorem relations_exact l s a b :
  register_all init l = Ok s ->
  forallb (fun x => forallb is_rel (snd x)) l = true ->
  NoDup (map keyof l) ->
  (forall x y, In x (map fst l) -> In y (map fst l) -> cont_eq x y = true -> x = y) ->
  In a (map fst l) -> In b (map fst l) ->
  (linked s a b = true <-> a <> b /\ declared l a b).
Proof. intros H Hr Hn Hi Ha Hb. apply (relations_exact_section l Hi Hr Hn s a b H Ha Hb). Qed.

Lemma declared_sym l a b : declared l a b -> declared l b a.
Proof. intros (i & rs & c & d & H1 & H2 & [H|H]); exists i, rs, c, d; auto. Qed.

Corollary relations_symmetric l s a b :
  register_all init l = Ok s ->
  forallb (fun x => forallb is_rel (snd x)) l = true ->
  NoDup (map keyof l) ->
  (forall x y, In x (map fst l) -> In y (map fst l) -> cont_eq x y = true -> x = y) ->
  In a (map fst l) -> In b (map fst l) ->
  linked s a b = linked s b a.
Proof.
  intros H Hr Hn Hi Ha Hb.
  pose proof (relations_exact l s a b H Hr Hn Hi Ha Hb) as E1.
  pose proof (relations_exact l s b a H Hr Hn Hi Hb Ha) as E2.
  destruct (linked s a b) eqn:A, (linked s b a) eqn:B; try reflexivity.
  - destruct E1 as [E1 _]. destruct (E1 eq_refl) as [Hne Hd].
    destruct E2 as [_ E2]. rewrite <- E2; [reflexivity|]. split; [auto|apply declared_sym; assumption].
  - destruct E2 as [E2 _]. destruct (E2 eq_refl) as [Hne Hd].
    destruct E1 as [_ E1]. rewrite <- E1; [reflexivity|]. split; [auto|apply declared_sym; assumption].
Qed.

(* ---- relations under unrelate: in a state whose relation lists hold registered, pairwise distinguishable objects
   without duplicates (true of the empty introspector and preserved by relate and unrelate: the second and third
   conjunct), unrelate of a pair withdraws exactly the links between the two objects, in both directions *)
Theorem unrelate_withdraws_exactly (pool : list intr) s c1 d1 c2 d2 s' :
  (forall x y, In x pool -> In y pool -> cont_eq x y = true -> x = y) ->
  (forall c d t, lookup s c d = Some t -> In t pool) ->
  refs_in (fun t => In t pool) (refs s) -> lists_nodup (refs s) ->
  unrelate s [(c1, d1); (c2, d2)] = Ok s' ->
  exists x y, lookup s c1 d1 = Some x /\ lookup s c2 d2 = Some y /\
    refs_in (fun t => In t pool) (refs s') /\ lists_nodup (refs s') /\
    forall a b, In a pool -> In b pool ->
      (linked s' a b = true <-> linked s a b = true /\ ~ ((a = x \/ a = y) /\ (b = x \/ b = y))).
Proof.
  intros Hinj HU Hrf Hnd H.
  destruct (unrelate_pair_spec _ Hinj _ _ _ _ _ _ H HU Hrf Hnd) as (x & y & L1 & L2 & _ & Hrf' & Hnd' & Sp).
  exists x, y. split; [exact L1|]. split; [exact L2|]. split; [exact Hrf'|]. split; [exact Hnd'|].
  intros a b Ha Hb.
  rewrite (linked_Lk _ Hinj s' a b Hb Hrf'), (linked_Lk _ Hinj s a b Hb Hrf). apply Sp; assumption.
Qed.

Theorem unrelate_keeps_relations_symmetric (pool : list intr) s c1 d1 c2 d2 s' :
  (forall x y, In x pool -> In y pool -> cont_eq x y = true -> x = y) ->
  (forall c d t, lookup s c d = Some t -> In t pool) ->
  refs_in (fun t => In t pool) (refs s) -> lists_nodup (refs s) ->
  unrelate s [(c1, d1); (c2, d2)] = Ok s' ->
  (forall a b, In a pool -> In b pool -> linked s a b = linked s b a) ->
  forall a b, In a pool -> In b pool -> linked s' a b = linked s' b a.
Proof.
  intros Hinj HU Hrf Hnd H Sym a b Ha Hb.
  destruct (unrelate_withdraws_exactly pool _ _ _ _ _ _ Hinj HU Hrf Hnd H) as (x & y & _ & _ & _ & _ & Sp).
  pose proof (Sp a b Ha Hb) as E1. pose proof (Sp b a Hb Ha) as E2. rewrite (Sym a b Ha Hb) in E1.
  apply Bool.eq_iff_eq_true. rewrite E1, E2. tauto.
Qed.

(* relate keeps the two state hypotheses, so they hold along any sequence of relate / unrelate from the empty state *)
Theorem relate_keeps_relation_lists (pool : list intr) s c1 d1 c2 d2 s' :
  (forall x y, In x pool -> In y pool -> cont_eq x y = true -> x = y) ->
  (forall c d t, lookup s c d = Some t -> In t pool) ->
  refs_in (fun t => In t pool) (refs s) -> lists_nodup (refs s) ->
  relate s [(c1, d1); (c2, d2)] = Ok s' ->
  refs_in (fun t => In t pool) (refs s') /\ lists_nodup (refs s').
Proof.
  intros Hinj HU Hrf Hnd H.
  destruct (relate_pair_spec _ Hinj _ _ _ _ _ _ H HU Hrf) as (x & y & L1 & L2 & _ & Hrf' & _).
  split; [exact Hrf'|].
  assert (E : refs s' = fold_left relate1 (product [x; y]) (refs s)).
  { unfold relate in H. cbn [intrs_by_pairs] in H. rewrite L1, L2 in H. injection H as E. rewrite <- E. reflexivity. }
  rewrite E.
  apply (fold_relate1_nodup _ Hinj); [|exact Hrf|exact Hnd].
  unfold product. cbn [flat_map map app]. pose proof (HU _ _ _ L1). pose proof (HU _ _ _ L2). repeat constructor; simpl; assumption.
Qed.

(* non-vacuity: two registered entries related, then unrelated: the link is gone in both directions *)
Example unrelate_example :
  let a := mkIntr [97]%N [49]%N [120]%N 0 in
  let b := mkIntr [98]%N [49]%N [121]%N 1 in
  match relate (add (add init a) b) [([97]%N, [49]%N); ([98]%N, [49]%N)] with
  | Ok s1 => match unrelate s1 [([97]%N, [49]%N); ([98]%N, [49]%N)] with
             | Ok s2 => (linked s1 a b, linked s1 b a, linked s2 a b, linked s2 b a) = (true, true, false, false)
             | Err _ => False
             end
  | Err _ => False
  end.
Proof. vm_compute. reflexivity. Qed.
