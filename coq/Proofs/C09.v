(* C09 proofs: digest law, totality, reissue bookkeeping, cookie attributes. *)
From Coq Require Import List NArith ZArith Bool Lia ZifyBool ZifyN.
Import ListNotations.
Require Import Verif.Lib.Wire Verif.Lib.Text Verif.Lib.Percent Verif.Lib.Utf8 Verif.Lib.C09Base.
Require Import Verif.Gen.Facts_C09 Verif.Model.C09.
Ltac Zify.zify_post_hook ::= Z.div_mod_to_equations.
Local Arguments cmp_eval : simpl never.
Local Arguments Z.mul : simpl never.
Local Arguments Z.sub : simpl never.
Local Arguments Z.add : simpl never.
Local Arguments now2 : simpl never.

(* ------------------------------------------------------------------ UTF-8 is injective on scalar values *)
Lemma encode_inj a b :
  forallb valid_scalar a = true -> forallb valid_scalar b = true -> encode a = encode b -> a = b.
Proof.
  intros Ha Hb E. pose proof (decode_encode a Ha) as Da. pose proof (decode_encode b Hb) as Db.
  rewrite E in Da. congruence.
Qed.

Lemma forallb_firstn {A} (f : A -> bool) n l : forallb f l = true -> forallb f (firstn n l) = true.
Proof.
  revert l; induction n as [|n IH]; intros [|x l]; simpl; auto.
  intros H. apply andb_true_iff in H as [H1 H2]. rewrite H1. simpl. auto.
Qed.

Lemma forallb_lstrip (f : N -> bool) c l : forallb f l = true -> forallb f (lstrip_char c l) = true.
Proof.
  induction l as [|x l IH]; simpl; auto. intros H.
  destruct (N.eqb x c); [apply andb_true_iff in H as [_ H]; auto|simpl; exact H].
Qed.

Lemma forallb_rev {A} (f : A -> bool) l : forallb f (rev l) = forallb f l.
Proof.
  induction l as [|x l IH]; simpl; auto. rewrite forallb_app, IH. simpl. rewrite andb_true_r. apply andb_comm.
Qed.

Lemma forallb_strip (f : N -> bool) c l : forallb f l = true -> forallb f (strip_char c l) = true.
Proof.
  intros H. unfold strip_char, rstrip_char. rewrite forallb_rev. apply forallb_lstrip.
  rewrite forallb_rev. apply forallb_lstrip. exact H.
Qed.

Section WithOracles.
Variable H : text -> list N -> text.
Variable dsz : text -> nat.
Variable uni : N -> N.

Notation parse_fields := (parse_fields dsz uni).
Notation parse_ticket := (parse_ticket H dsz uni).
Notation identify_pre := (identify_pre H dsz uni).
Notation identify := (identify H dsz uni).
Notation digest_ok := (digest_ok H dsz uni).
Notation step := (step H dsz uni).
Notation run_ops := (run_ops H dsz uni).
Notation spec_response := (spec_response H dsz uni).
Notation spec_reissue_ticket := (spec_reissue_ticket H dsz uni).
Notation remember := (remember H).

(* the digest field of a parsed cookie is a slice of the cookie *)
Lemma parse_fields_digest_scalar alg ck0 d ts u tk ud :
  forallb valid_scalar ck0 = true -> parse_fields alg ck0 = FOk d ts u tk ud -> forallb valid_scalar d = true.
Proof.
  intros Hs. unfold C09.parse_fields.
  destruct (py_int _ _ _); [|discriminate].
  destruct (split1 _ _) as [[uq data]|]; [|discriminate].
  destruct (split1 bang data) as [[a b]|]; intros E; inversion E; subst;
    apply forallb_firstn, forallb_strip; exact Hs.
Qed.

(* ------------------------------------------------------------------ accept => keyed digest of the other fields *)
Lemma parse_ok_digest sec ck0 ip alg ts u toks ud :
  parse_ticket sec ck0 ip alg = POk ts u toks ud ->
  exists d tk, parse_fields alg ck0 = FOk d ts u tk ud /\ toks = split_on comma tk
               /\ encode d = encode (calculate_digest H alg ip ts sec u tk ud).
Proof.
  unfold C09.parse_ticket. destruct (parse_fields alg ck0) as [d ts' u' tk ud'|]; [|discriminate].
  unfold strings_differ.
  destruct (text_eqb_spec (encode (calculate_digest H alg ip ts' sec u' tk ud')) (encode d)) as [E|E];
    simpl; [|discriminate].
  intros X; inversion X; subst. exists d, tk. auto.
Qed.

Definition scalar_oracle := forall a x, forallb valid_scalar (H a x) = true.

Theorem accept_implies_digest c r ck0 ts u toks ud :
  scalar_oracle -> forallb valid_scalar ck0 = true ->
  cookie r = Some ck0 ->
  identify_pre c r = ISome ts u toks ud ->
  digest_ok c r ck0 = true.
Proof.
  intros HS Hck Hc. unfold C09.identify_pre, C09.digest_ok. rewrite Hc.
  destruct (eff_ip c r) as [ip|]; [|discriminate].
  destruct (parse_ticket (secret c) ck0 ip (hashalg c)) as [ts' u' toks' ud'|] eqn:P; [|discriminate].
  destruct (parse_ok_digest _ _ _ _ _ _ _ _ P) as (d & tk & F & _ & E).
  intros _. rewrite F. apply text_eqb_eq. apply encode_inj; auto.
  - eapply parse_fields_digest_scalar; eauto.
  - apply HS.
Qed.

(* with the fields spelled out: the identity comes from the cookie's own fields *)
Theorem accept_fields c r ck0 ts u toks ud :
  cookie r = Some ck0 ->
  identify_pre c r = ISome ts u toks ud ->
  exists ip d uid tk,
    eff_ip c r = Some ip /\ parse_fields (hashalg c) ck0 = FOk d ts uid tk ud
    /\ toks = split_on comma tk
    /\ encode d = encode (calculate_digest H (hashalg c) ip ts (secret c) uid tk ud)
    /\ decode_userid uni (split_on pipe ud) (VStr uid) = Some u
    /\ timed_out c ts (now2 r) = false.
Proof.
  intros Hc. unfold C09.identify_pre. rewrite Hc.
  destruct (eff_ip c r) as [ip|]; [|discriminate].
  destruct (parse_ticket (secret c) ck0 ip (hashalg c)) as [ts' u' toks' ud'|] eqn:P; [|discriminate].
  destruct (parse_ok_digest _ _ _ _ _ _ _ _ P) as (d & tk & F & T & E).
  destruct (timed_out c ts' (now2 r)) eqn:TO; [discriminate|].
  destruct (decode_userid uni (split_on pipe ud') (VStr u')) as [u2|] eqn:D; [|discriminate].
  intros X; inversion X; subst. exists ip, d, u', tk. auto 10.
Qed.

(* ------------------------------------------------------------------ identification raises only for validly signed cookies *)
Lemma default_ip_ok : classify_ip default_ip <> None.
Proof. vm_compute. discriminate. Qed.

Lemma eff_ip_some c r : exists ip, eff_ip c r = Some ip.
Proof.
  unfold eff_ip. destruct (include_ip c); [eauto|].
  destruct (classify_ip default_ip) eqn:E; [eauto|]. exfalso. apply default_ip_ok. exact E.
Qed.

Theorem identify_pre_raise_signed c r ck0 :
  scalar_oracle -> forallb valid_scalar ck0 = true ->
  cookie r = Some ck0 ->
  identify_pre c r = IRaise -> digest_ok c r ck0 = true.
Proof.
  intros HS Hck Hc. unfold C09.identify_pre, C09.digest_ok. rewrite Hc.
  destruct (eff_ip_some c r) as (ip & Eip). rewrite Eip.
  destruct (parse_ticket (secret c) ck0 ip (hashalg c)) as [ts' u' toks' ud'|] eqn:P; [|discriminate].
  destruct (parse_ok_digest _ _ _ _ _ _ _ _ P) as (d & tk & F & _ & E).
  intros _. rewrite F. apply text_eqb_eq. apply encode_inj; auto.
  - eapply parse_fields_digest_scalar; eauto.
  - apply HS.
Qed.

Lemma identify_result c r st :
  snd (identify c r st) = identify_pre c r
  \/ (exists ts u tk ud, identify_pre c r = ISome ts u tk ud /\
        (snd (identify c r st) = IRaise \/ snd (identify c r st) = ISome ts u (filter nonempty tk) ud)).
Proof.
  unfold C09.identify. destruct (identify_pre c r) as [|ts u tk ud|] eqn:P; auto.
  destruct (reissue_time c) as [rt|]; auto.
  destruct (negb (reissued st) && cmp_eval reissue_cmp (now2 r - 2 * ts) (2 * rt)); auto.
  right. exists ts, u, tk, ud. split; auto.
  destruct (remember c (later r) u (max_age c) (filter nonempty tk)); simpl; auto.
Qed.

(* the full statement of "never raises": for every cookie text (scalar values) that is not validly
   signed under the helper's secret, whatever the state of the request *)
Theorem identify_total c r st ck0 :
  scalar_oracle -> forallb valid_scalar ck0 = true ->
  cookie r = Some ck0 -> digest_ok c r ck0 = false ->
  snd (identify c r st) = INone /\ fst (identify c r st) = st.
Proof.
  intros HS Hck Hc Hd.
  assert (P : identify_pre c r = INone).
  { destruct (identify_pre c r) as [|ts u tk ud|] eqn:P; auto.
    - rewrite (accept_implies_digest c r ck0 ts u tk ud HS Hck Hc P) in Hd. discriminate.
    - rewrite (identify_pre_raise_signed c r ck0 HS Hck Hc P) in Hd. discriminate. }
  unfold C09.identify. rewrite P. auto.
Qed.

Theorem identify_no_cookie c r st : cookie r = None -> identify c r st = (st, INone).
Proof. intros Hc. unfold C09.identify, C09.identify_pre. rewrite Hc. reflexivity. Qed.

(* ------------------------------------------------------------------ reissue bookkeeping *)
(* the code's reissue test is the property's "older than" *)
Lemma reissue_cmp_gt a b : cmp_eval reissue_cmp a b = Z.ltb b a.
Proof. reflexivity. Qed.

Definition inv (c : cfg) (r : req) (seenI seenE : bool) (st : state) : Prop :=
  revoked st = seenE /\
  match spec_reissue_ticket c r with
  | Some hs => reissued st = seenI /\ callbacks st = (if seenI then [hs] else [])
  | None => reissued st = false /\ callbacks st = []
  end.

Lemma identify_step c r st i e :
  inv c r i e st -> inv c r true e (fst (identify c r st)).
Proof.
  intros [Hr Hs]. unfold inv, C09.identify, C09.spec_reissue_ticket in *.
  destruct (identify_pre c r) as [|ts u tk ud|] eqn:P; simpl.
  - auto.
  - destruct (reissue_time c) as [rt|] eqn:RT; simpl; [|auto].
    rewrite reissue_cmp_gt. destruct (Z.ltb (2 * rt) (now2 r - 2 * ts)) eqn:CM.
    + destruct (remember c (later r) u (max_age c) (filter nonempty tk)) as [hs|] eqn:RM.
      * destruct Hs as [Hi Hc]. destruct (reissued st) eqn:RS; simpl.
        -- subst i. auto.
        -- subst i. simpl in Hc. rewrite Hc. simpl. auto.
      * destruct Hs as [Hi Hc]. rewrite Hi. simpl. auto.
    + rewrite andb_false_r. simpl. auto.
  - auto.
Qed.

Lemma step_inv c r st i e o :
  inv c r i e st ->
  inv c r (i || is_identify o) (e || is_explicit H c r o) (fst (step c r st o)).
Proof.
  intros I. destruct o as [|u ma toks|]; simpl.
  - rewrite orb_true_r, orb_false_r. destruct (identify c r st) as [st' res] eqn:E.
    simpl. change st' with (fst (st', res)). rewrite <- E. eapply identify_step; eauto.
  - rewrite orb_false_r. destruct (remember c r u ma toks) as [hs|]; simpl.
    + rewrite orb_true_r. destruct I as [Hr Hs]. split; auto.
    + rewrite orb_false_r. exact I.
  - rewrite orb_false_r, orb_true_r. destruct I as [Hr Hs]. split; auto.
Qed.

Lemma run_inv c r ops : forall st i e,
  inv c r i e st ->
  inv c r (i || existsb is_identify ops) (e || existsb (is_explicit H c r) ops) (fst (run_ops c r st ops)).
Proof.
  induction ops as [|o ops IH]; intros st i e I; simpl.
  - rewrite !orb_false_r. exact I.
  - destruct (step c r st o) as [st1 x] eqn:E1.
    destruct (run_ops c r st1 ops) as [st2 xs] eqn:E2. simpl.
    rewrite !orb_assoc. change st2 with (fst (st2, xs)). rewrite <- E2. apply IH.
    change st1 with (fst (st1, x)). rewrite <- E1. apply step_inv. exact I.
Qed.

Lemma inv_st0 c r : inv c r false false st0.
Proof. split; auto. simpl. destruct (spec_reissue_ticket c r); auto. Qed.

(* exactly one fresh ticket (that of the reissue) is attached, unless a forget or a successful
   remember happened anywhere in the request; nothing is attached otherwise *)
Theorem reissue_once c r ops :
  response_cookies (fst (run_ops c r st0 ops)) = spec_response c r ops.
Proof.
  pose proof (run_inv c r ops st0 false false (inv_st0 c r)) as [Hr Hs]. simpl in Hr, Hs.
  unfold response_cookies, C09.spec_response, has_identify. rewrite Hr.
  destruct (existsb (is_explicit H c r) ops); auto.
  destruct (spec_reissue_ticket c r) as [hs|]; destruct Hs as [_ ->].
  - destruct (existsb is_identify ops); simpl; auto. apply app_nil_r.
  - destruct (existsb is_identify ops); reflexivity.
Qed.

(* the attached ticket is the one remember() issues now for the identity of the request cookie *)
Theorem reissued_ticket_is_fresh c r hs :
  spec_reissue_ticket c r = Some hs ->
  exists ts u tk ud rt, identify_pre c r = ISome ts u tk ud /\ reissue_time c = Some rt
    /\ cmp_eval reissue_cmp (now2 r - 2 * ts) (2 * rt) = true
    /\ remember c (later r) u (max_age c) (filter nonempty tk) = Some hs.
Proof.
  unfold C09.spec_reissue_ticket. destruct (identify_pre c r) as [|ts u tk ud|]; try discriminate.
  destruct (reissue_time c) as [rt|]; try discriminate.
  destruct (Z.ltb (2 * rt) (now2 r - 2 * ts)) eqn:E; try discriminate.
  intros R. exists ts, u, tk, ud, rt. rewrite reissue_cmp_gt. auto.
Qed.

(* ------------------------------------------------------------------ cookie attributes *)
Lemma pick_domain_spec c r : pick_domain c r = spec_domain c r.
Proof.
  unfold pick_domain, spec_domain, truthy. destruct (domain c) as [[|x d]|]; simpl;
    destruct (parent_domain c && Nat.ltb 1 (count_char 46 (cur_domain r))); auto;
    destruct (split1 46 (cur_domain r)) as [[a b]|]; reflexivity.
Qed.

Lemma get_cookies_attrs c r v ma k :
  In k (get_cookies c r v ma) -> attrs_ok c r ma k = true /\ ck_value k = v.
Proof.
  intros [<-|[]]. split; [|reflexivity]. unfold attrs_ok. simpl.
  rewrite !text_eqb_refl, !eqb_reflx, pick_domain_spec. simpl.
  destruct (samesite c) as [ss|]; [rewrite text_eqb_refl|]; simpl;
    (destruct (spec_domain c r) as [dm|]; [rewrite text_eqb_refl|]; simpl;
     (destruct ma as [m|]; [apply Z.eqb_refl|]; destruct (max_age c); [apply Z.eqb_refl|reflexivity])).
Qed.

Theorem cookie_attributes_remember c r u ma toks hs k :
  remember c r u ma toks = Some hs -> In k hs ->
  attrs_ok c r ma k = true /\ exists v, ck_value k = Some v.
Proof.
  unfold C09.remember. destruct (eff_ip c r) as [ip|]; [|discriminate].
  destruct (encode_userid u) as [[tag enc]|]; [|discriminate].
  destruct (forallb valid_token toks); [|discriminate].
  intros X; inversion X; subst; clear X. intros Hin.
  apply get_cookies_attrs in Hin. destruct Hin as [A V]. split; [|eauto].
  unfold attrs_ok in *. destruct ma as [m|]; [exact A|]. destruct (max_age c); exact A.
Qed.

Theorem cookie_attributes_forget c r st k hs :
  snd (step c r st OForget) = OutHdr (Some hs) -> In k hs ->
  attrs_ok c r None k = true /\ ck_value k = None.
Proof. simpl. intros X; inversion X; subst. apply get_cookies_attrs. Qed.

End WithOracles.

(* ------------------------------------------------------------------ non-vacuity *)
Definition ex_H (a : text) (x : list N) : text :=      (* a toy "hash": 4 hex digits of a checksum *)
  hex_pad 4 (fold_left (fun acc b => (acc * 31 + b + 7) mod 65536)%N x 0%N).
Definition ex_cfg : cfg :=
  mkCfg [115; 101; 99]%N [116; 107]%N false false (Some 10%Z) (Some 3%Z) None false [47]%N true false None [109]%N (Some [76]%N).
Definition ex_req (ck0 : option text) (nw : Z) : req := mkReq ck0 (IP4 [127; 0; 0; 1]%N) [104]%N nw false false.
Definition ex_req_half (ck0 : option text) (nw : Z) : req := mkReq ck0 (IP4 [127; 0; 0; 1]%N) [104]%N nw true false.
Definition ex_cookie : text :=
  match remember ex_H ex_cfg (ex_req None 1000) (VStr [98; 111; 98]%N) None [[97]%N] with
  | Some [k] => match ck_value k with Some v => v | None => [] end
  | _ => []
  end.

Example c09_nonvacuous :
  (* an issued ticket is accepted at issue+timeout, rejected one second later *)
  identify_pre ex_H (fun _ => 2%nat) (fun _ => 63%N) ex_cfg (ex_req (Some ex_cookie) 1010)
    = ISome 1000 (VStr [98; 111; 98]%N) [[97]%N] (userid_typename ++ fst enc_str)
  /\ identify_pre ex_H (fun _ => 2%nat) (fun _ => 63%N) ex_cfg (ex_req (Some ex_cookie) 1011) = INone
  (* the digest law is not vacuous *)
  /\ digest_ok ex_H (fun _ => 2%nat) (fun _ => 63%N) ex_cfg (ex_req (Some ex_cookie) 1010) ex_cookie = true
  /\ digest_ok ex_H (fun _ => 2%nat) (fun _ => 63%N) ex_cfg (ex_req (Some ex_cookie) 1010) (48%N :: ex_cookie) = false
  (* an old ticket is reissued once; not after a remember *)
  /\ length (response_cookies (fst (run_ops ex_H (fun _ => 2%nat) (fun _ => 63%N) ex_cfg
                                   (ex_req (Some ex_cookie) 1005) st0 [OIdentify; OIdentify]))) = 1%nat
  /\ response_cookies (fst (run_ops ex_H (fun _ => 2%nat) (fun _ => 63%N) ex_cfg (ex_req (Some ex_cookie) 1005) st0
                             [ORemember (VInt 5) None []; OIdentify])) = [].
Proof. vm_compute. repeat split. Qed.

(* beyond eight hex digits the round trip is false: nine digits are written, eight are read back *)
Definition ex_cookie_late : text :=
  match remember ex_H ex_cfg (ex_req None 4294967296) (VStr [98; 111; 98]%N) None [] with
  | Some [k] => match ck_value k with Some v => v | None => [] end
  | _ => []
  end.
Example hex8_overflow_refuted :
  identify_pre ex_H (fun _ => 2%nat) (fun _ => 63%N) ex_cfg (ex_req (Some ex_cookie_late) 4294967296) = INone.
Proof. vm_compute. reflexivity. Qed.

(* fractional clocks: at issue + timeout + 0.5 the code's test (timestamp + timeout) < now already rejects,
   at issue + timeout - 0.5 it accepts; a ticket whose age is reissue_time + 0.5 is reissued *)
Example half_second_boundary :
  identify_pre ex_H (fun _ => 2%nat) (fun _ => 63%N) ex_cfg (ex_req_half (Some ex_cookie) 1010) = INone
  /\ identify_pre ex_H (fun _ => 2%nat) (fun _ => 63%N) ex_cfg (ex_req_half (Some ex_cookie) 1009) <> INone
  /\ length (response_cookies (fst (run_ops ex_H (fun _ => 2%nat) (fun _ => 63%N) ex_cfg
                                   (ex_req_half (Some ex_cookie) 1003) st0 [OIdentify]))) = 1%nat
  /\ response_cookies (fst (run_ops ex_H (fun _ => 2%nat) (fun _ => 63%N) ex_cfg
                                   (ex_req (Some ex_cookie) 1003) st0 [OIdentify])) = [].
Proof. vm_compute. repeat split; discriminate. Qed.

(* a running clock: the reissued ticket is stamped by the later reading, explicit remember by the first one *)
Definition ex_req_tick (ck0 : option text) (nw : Z) : req := mkReq ck0 (IP4 [127; 0; 0; 1]%N) [104]%N nw false true.
Example running_clock :
  match run_ops ex_H (fun _ => 2%nat) (fun _ => 63%N) ex_cfg (ex_req_tick (Some ex_cookie) 1005) st0 [OIdentify] with
  | (st, _) => map (fun k => match ck_value k with Some v => firstn 8 (skipn 4 v) | None => [] end) (response_cookies st)
               = [hex_pad 8 1006]
  end
  /\ match remember ex_H ex_cfg (ex_req_tick None 1005) (VInt 1) None [] with
     | Some [k] => match ck_value k with Some v => firstn 8 (skipn 4 v) | None => [] end = hex_pad 8 1005
     | _ => False
     end.
Proof. vm_compute. split; reflexivity. Qed.
