(* C09 proofs. *)
From Coq Require Import List NArith ZArith Bool Lia ZifyBool ZifyN.
Import ListNotations.
Require Import Verif.Lib.Wire Verif.Lib.Text Verif.Lib.Percent Verif.Lib.Utf8 Verif.Lib.C09Base.
Require Import Verif.Gen.Facts_C09 Verif.Model.C09.
Ltac Zify.zify_post_hook ::= Z.div_mod_to_equations.

Lemma forget_deletes c r st :
  step (fun _ _ => []) (fun _ => O) (fun _ => 63%N) c r st OForget
  = (mkSt (reissued st) true (callbacks st), OutHdr (Some (get_cookies c r None None))).
Proof. reflexivity. Qed.
