(* C08 -- the n-commit theorem with EXECUTABLE hypotheses: boolean checks for "every cut is closed" and "the members of each
   ordered container share a phase", their soundness, and the composition with h1b / h2b (the checks the extracted model
   evaluates on every run): when the checks say true, n commits leave the store of the single commit. *)
From Coq Require Import List NArith ZArith Bool Lia Permutation Sorted.
Import ListNotations.
Require Import Verif.Lib.Wire Verif.Lib.C04Sort Verif.Gen.Facts_C08 Verif.Model.C04 Verif.Model.C08.
Require Import Verif.Proofs.C08 Verif.Proofs.C08_seg Verif.Proofs.C08_segn.

Fixpoint closed_segsb (segs : list (list stmt)) : bool :=
  match segs with
  | [] => true
  | a :: r => closed_prefixb a (concat r) && closed_segsb r
  end.

Lemma closed_segsb_sound segs : closed_segsb segs = true -> closed_segs segs.
Proof.
  induction segs as [|a r IH]; intros H; [exact I|]. cbn [closed_segsb] in H.
  apply andb_prop in H. destruct H as [Ha Hr]. split; [apply closed_prefixb_sound; exact Ha|apply IH; exact Hr].
Qed.

Definition seq_pair_ok (s s' : stmt) : bool :=
  forallb (fun k => negb (seq_writer k s && seq_writer k s') || Z.eqb (sphase s) (sphase s')) (swrites s).
Definition seq_same_phaseb (l : list stmt) : bool := forallb (fun s => forallb (seq_pair_ok s) l) l.

Lemma seq_same_phaseb_sound l : seq_same_phaseb l = true -> seq_same_phase l.
Proof.
  intros H k s s' Hs Hs' W W'. unfold seq_same_phaseb in H.
  rewrite forallb_forall in H. specialize (H s Hs). rewrite forallb_forall in H. specialize (H s' Hs').
  unfold seq_pair_ok in H. rewrite forallb_forall in H.
  assert (Hk : In k (swrites s)).
  { unfold seq_writer in W. apply andb_prop in W. destruct W as [_ W]. unfold writes in W. apply memN_In. exact W. }
  specialize (H k Hk). rewrite W, W' in H. cbn in H. apply Z.eqb_eq. exact H.
Qed.

Theorem checked_segs_commit_equiv : forall segs,
  NoDup (map sid (concat segs)) -> h1b (concat segs) = true -> h2b (concat segs) = true ->
  closed_segsb segs = true -> seq_same_phaseb (concat segs) = true ->
  store_eq (finalN segs) (final (concat segs)).
Proof.
  intros segs Hnd h1 h2 Hc Hs. apply closed_segs_commit_equiv.
  - exact Hnd.
  - apply h1b_H1. exact h1.
  - apply h2b_H2. exact h2.
  - apply closed_segsb_sound. exact Hc.
  - apply seq_same_phaseb_sound. exact Hs.
Qed.

(* one cut: the check the extracted model returns as its 7th flag *)
Corollary checked_two_commits_equiv : forall a b,
  NoDup (map sid (a ++ b)) -> h1b (a ++ b) = true -> h2b (a ++ b) = true ->
  closed_prefixb a b = true -> seq_same_phaseb (a ++ b) = true ->
  store_eq (final2 a b) (final (a ++ b)).
Proof.
  intros a b Hnd h1 h2 Hc Hs. apply closed_prefix_commit_equiv.
  - exact Hnd.
  - apply h1b_H1. exact h1.
  - apply h2b_H2. exact h2.
  - apply closed_prefixb_sound. exact Hc.
  - apply seq_same_phaseb_sound. exact Hs.
Qed.

(* non-vacuity: every check is true on the three-commit example, false on the open cut *)
Example checks_on_three_commits :
  h1b (concat SegNEx.segs3) = true /\ h2b (concat SegNEx.segs3) = true /\
  closed_segsb SegNEx.segs3 = true /\ seq_same_phaseb (concat SegNEx.segs3) = true /\
  closed_segsb [[SegEx.rd]; [SegEx.wr]; [SegEx.other]] = false.
Proof. vm_compute. repeat split; reflexivity. Qed.
