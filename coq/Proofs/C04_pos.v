(* C04 proofs, part 15: DECLARATION ORDER WITHIN A PHASE, for re-entrant runs (repaired code).
   The indices the generator sorts by are positions in remaining_actions; so the action handed out at every step is
   the FIRST pending action of the SMALLEST pending phase: everything still pending afterwards belongs to the same or
   a later phase, and what belongs to the same phase stood behind it in remaining_actions (= was declared later). *)
From Coq Require Import List NArith ZArith Bool Lia Permutation Sorted.
Import ListNotations.
Require Import Verif.Lib.Wire Verif.Lib.C04Sort Verif.Gen.Facts_C04 Verif.Model.C04.
Require Import Verif.Proofs.C04_flat Verif.Proofs.C04_decide Verif.Proofs.C04_safe Verif.Proofs.C04_groups
               Verif.Proofs.C04_spec Verif.Proofs.C04_mono Verif.Proofs.C04_all Verif.Proofs.C04_order Verif.Proofs.C04_late.

(* ---------- subsequences and "stands before" *)
Inductive subseq {A} : list A -> list A -> Prop :=
| ss_nil : subseq [] []
| ss_skip a l' l : subseq l' l -> subseq l' (a :: l)
| ss_take a l' l : subseq l' l -> subseq (a :: l') (a :: l).

Lemma subseq_refl {A} (l : list A) : subseq l l.
Proof. induction l; constructor; assumption. Qed.

Lemma subseq_trans {A} (a b c : list A) : subseq a b -> subseq b c -> subseq a c.
Proof.
  intros H1 H2. revert a H1. induction H2 as [|x l' l H IH|x l' l H IH]; intros a H1.
  - exact H1.
  - constructor. apply IH. exact H1.
  - inversion H1; subst.
    + constructor. apply IH. assumption.
    + apply ss_take. apply IH. assumption.
Qed.

Lemma subseq_In {A} (a b : list A) x : subseq a b -> In x a -> In x b.
Proof. induction 1; simpl; intros Hx; [exact Hx|right; auto|destruct Hx; [left; assumption|right; auto]]. Qed.

Lemma subseq_map {A B} (f : A -> B) (a b : list A) : subseq a b -> subseq (map f a) (map f b).
Proof. induction 1; simpl; constructor; assumption. Qed.

Definition before {A} (i j : A) (l : list A) : Prop := exists p q, l = p ++ i :: q /\ In j q.

Lemma before_cons {A} (a i j : A) l : before i j l -> before i j (a :: l).
Proof. intros [p [q [-> H]]]. exists (a :: p), q. split; [reflexivity|exact H]. Qed.

Lemma before_subseq {A} (l' l : list A) i j :
  subseq l' l -> NoDup l -> In i l' -> In j l' -> before i j l -> before i j l'.
Proof.
  induction 1 as [|a l' l H IH|a l' l H IH]; intros Nd Hi Hj Hb.
  - destruct Hi.
  - inversion Nd as [|? ? Hn Nd']; subst. destruct Hb as [p [q [E Hq]]]. destruct p as [|b p]; simpl in E.
    + inversion E; subst. exfalso. apply Hn. apply (subseq_In _ _ _ H). exact Hi.
    + inversion E; subst. apply IH; try assumption. exists p, q. split; [reflexivity|exact Hq].
  - inversion Nd as [|? ? Hn Nd']; subst. destruct Hb as [p [q [E Hq]]]. destruct p as [|b p]; simpl in E.
    + inversion E; subst. exists [], l'. split; [reflexivity|].
      destruct Hj as [<-|Hj]; [exfalso; apply Hn; exact Hq|exact Hj].
    + inversion E; subst. apply before_cons. apply IH; try assumption.
      * destruct Hi as [<-|Hi]; [|exact Hi]. exfalso. apply Hn. apply in_or_app. right. left. reflexivity.
      * destruct Hj as [<-|Hj]; [|exact Hj]. exfalso. apply Hn. apply in_or_app. right. right. exact Hq.
      * exists p, q. split; [reflexivity|exact Hq].
Qed.

(* ---------- what the position bookkeeping looks at: identity and phase *)
Definition ak (b : action) : N * Z := (aid b, ordkey b).
Definition aki (x : ainfo) : N * Z := (aidx x, okey x).

Lemma ak_force b : ak (force b) = ak b.
Proof. destruct b. reflexivity. Qed.

Lemma map_ak_aid l : map fst (map ak l) = map aid l.
Proof. rewrite map_map. reflexivity. Qed.

Lemma ak_mark_forced id l : map ak (mark_forced id l) = map ak l.
Proof. unfold mark_forced. rewrite map_map. apply map_ext. intros b. destruct (N.eqb (aid b) id); [apply ak_force|reflexivity]. Qed.
Lemma ak_mark_group grp : forall l, map ak (mark_group grp l) = map ak l.
Proof. unfold mark_group. induction grp as [|x r IH]; intros l; simpl; [reflexivity|]. rewrite IH. apply ak_mark_forced. Qed.

Lemma remove_aid_subseq id : forall l l', remove_aid id l = Some l' -> subseq (map ak l') (map ak l).
Proof.
  induction l as [|b r IH]; intros l' E; simpl in E; [discriminate|].
  destruct (N.eqb (aid b) id).
  - inversion E; subst. simpl. constructor. apply subseq_refl.
  - destruct (remove_aid id r) as [r'|]; [|discriminate]. inversion E; subst. simpl. apply ss_take. apply IH. reflexivity.
Qed.

Lemma remove_all_subseq : forall ds l l', remove_all ds l = Some l' -> subseq (map ak l') (map ak l).
Proof.
  induction ds as [|x r IH]; intros l l' E; [inversion E; subst; apply subseq_refl|].
  rewrite remove_all_cons in E. destruct (remove_aid (aid (snd x)) l) as [l1|] eqn:E1; [|discriminate].
  eapply subseq_trans; [apply (IH l1 l' E)|apply (remove_aid_subseq _ _ _ E1)].
Qed.

Lemma remove_aid_gone id : forall l l', NoDup (map aid l) -> remove_aid id l = Some l' -> ~ In id (map aid l').
Proof.
  induction l as [|b r IH]; intros l' Nd E; simpl in E; [discriminate|]. simpl in Nd. inversion Nd as [|? ? Hn Nd']; subst.
  destruct (N.eqb (aid b) id) eqn:Eb.
  - inversion E; subst. apply N.eqb_eq in Eb. rewrite <- Eb. exact Hn.
  - destruct (remove_aid id r) as [r'|] eqn:Er; [|discriminate]. inversion E; subst. simpl. intros [H|H].
    + apply N.eqb_neq in Eb. contradiction.
    + apply (IH r' Nd' eq_refl). exact H.
Qed.

Lemma enumerate_before : forall l s x y,
  In x (enumerate s l) -> In y (enumerate s l) -> (fst x <= fst y)%N -> aidx x <> aidx y ->
  before (aidx x) (aidx y) (map aid l).
Proof.
  induction l as [|a r IH]; intros s x y Hx Hy Hle Hne; [destruct Hx|]. simpl in Hx, Hy.
  pose proof (enumerate_ge r (N.succ s)) as Hge. rewrite Forall_forall in Hge.
  destruct Hx as [<-|Hx]; destruct Hy as [<-|Hy].
  - exfalso. apply Hne. reflexivity.
  - exists [], (map aid r). split; [reflexivity|]. destruct y as [i b]. apply enumerate_In_snd' in Hy.
    unfold aidx. cbn [snd]. apply in_map. exact Hy.
  - exfalso. specialize (Hge _ Hx). cbn [fst] in Hle. lia.
  - simpl. apply before_cons. apply (IH (N.succ s)); assumption.
Qed.

(* ---------- the position invariant of a suspended generator *)
Definition RK (rem : list action) (items : list ainfo) : Prop :=
  (forall x y, In x items -> In y items -> aidx x <> aidx y -> (fst x <= fst y)%N ->
               before (aidx x) (aidx y) (map aid rem)) /\
  incl (map aki items) (map ak rem).

Definition counterparts (items1 items0 : list ainfo) : Prop :=
  forall z, In z items1 -> exists z0, In z0 items0 /\ fst z0 = fst z /\ aidx z0 = aidx z /\ okey z0 = okey z.

Lemma counterparts_refl l : counterparts l l.
Proof. intros z Hz. exists z. tauto. Qed.
Lemma counterparts_trans a b c : counterparts a b -> counterparts b c -> counterparts a c.
Proof.
  intros H1 H2 z Hz. destruct (H1 z Hz) as [z1 [A [B [C E]]]]. destruct (H2 z1 A) as [z2 [A' [B' [C' E']]]].
  exists z2. repeat split; congruence.
Qed.

Lemma RK_step rem items rem' items' :
  RK rem items -> NoDup (map aid rem) ->
  counterparts items' items -> subseq (map ak rem') (map ak rem) ->
  incl (map aidx items') (map aid rem') ->
  RK rem' items'.
Proof.
  intros [R1 R2] Nd HC HS HI.
  assert (HSa : subseq (map aid rem') (map aid rem)).
  { rewrite <- !map_ak_aid. apply subseq_map. exact HS. }
  split.
  - intros x y Hx Hy Hne Hle. destruct (HC x Hx) as [x0 [A [B [C _]]]]. destruct (HC y Hy) as [y0 [A' [B' [C' _]]]].
    apply (before_subseq _ (map aid rem)); [exact HSa|exact Nd|apply HI; apply in_map; exact Hx|apply HI; apply in_map; exact Hy|].
    rewrite <- C, <- C'. apply R1; try assumption; [congruence|lia].
  - intros p Hp. apply in_map_iff in Hp. destruct Hp as [z [<- Hz]]. destruct (HC z Hz) as [z0 [A [_ [C E]]]].
    assert (H0 : In (aki z) (map ak rem)).
    { replace (aki z) with (aki z0) by (unfold aki; congruence). apply R2. apply in_map. exact A. }
    assert (H1 : In (aidx z) (map aid rem')) by (apply HI; apply in_map; exact Hz).
    apply in_map_iff in H1. destruct H1 as [b [Eb Hb]].
    assert (H2 : In (ak b) (map ak rem)) by (apply (subseq_In _ _ _ HS); apply in_map; exact Hb).
    (* same identity in rem -> same pair *)
    apply in_map_iff in H0. destruct H0 as [b0 [E0 Hb0]]. apply in_map_iff in H2. destruct H2 as [b1 [E1 Hb1]].
    assert (b0 = b1).
    { apply (NoDup_map_inj_in aid rem); [exact Nd|exact Hb0|exact Hb1|].
      unfold ak, aki in *. inversion E0. inversion E1. congruence. }
    subst b1. rewrite <- E0, E1. apply in_map. exact Hb.
Qed.

(* ---------- one step of the generator *)
Definition PosPost (rem : list action) (items : list ainfo) (a : action) (st2 : cstate) (g2 : gen) : Prop :=
  counterparts (gitems g2) items /\
  subseq (map ak (remaining st2)) (map ak rem) /\
  (exists x0, In x0 items /\ aidx x0 = aid a /\ okey x0 = ordkey a /\ forall z, In z (g_out g2) -> (fst x0 <= fst z)%N) /\
  (forall z, In z (g_out g2) -> okey z = ordkey a) /\
  (forall z, In z (concat (map snd (g_groups g2))) -> (ordkey a < okey z)%Z) /\
  ~ In (aid a) (map aid (remaining st2)).

Lemma PosPost_weaken rem0 items0 rem1 items1 a st2 g2 :
  counterparts items1 items0 -> subseq (map ak rem1) (map ak rem0) ->
  PosPost rem1 items1 a st2 g2 -> PosPost rem0 items0 a st2 g2.
Proof.
  intros HC HS [P1 [P2 [[x0 [A [B [C E]]]] [P4 [P5 P6]]]]].
  split; [eapply counterparts_trans; eassumption|]. split; [eapply subseq_trans; eassumption|].
  split; [|tauto]. destruct (HC x0 A) as [x00 [A' [B' [C' E']]]]. exists x00.
  split; [exact A'|]. split; [congruence|]. split; [congruence|]. intros z Hz. rewrite B'. apply E. exact Hz.
Qed.

Lemma yield_first_pos st x rest gs evs a st2 g2 e k :
  NoDup (map aid (remaining st)) ->
  Forall (fun y => okey y = k) (x :: rest) ->
  StronglySorted idx_le (x :: rest) ->
  (forall z, In z (concat (map snd gs)) -> (k < okey z)%Z) ->
  yield_first st x rest gs evs = SYield a st2 g2 e ->
  PosPost (remaining st) ((x :: rest) ++ concat (map snd gs)) a st2 g2.
Proof.
  intros Nd HK HS HG H. unfold yield_first in H.
  destruct (remove_aid (aid (snd x)) (remaining st)) as [rem|] eqn:Er; [|discriminate]. inversion H; subst. clear H.
  inversion HK as [|? ? Kx Krest]; subst. inversion HS as [|? ? _ Hall]; subst.
  unfold PosPost. cbn [gitems g_out g_groups remaining].
  split; [intros z Hz; exists z; split; [simpl; right; exact Hz|tauto]|].
  split; [apply (remove_aid_subseq _ _ _ Er)|].
  split; [exists x; split; [left; reflexivity|]; split; [reflexivity|]; split; [reflexivity|];
          rewrite Forall_forall in Hall; intros z Hz; apply (Hall z Hz)|].
  split; [rewrite Forall_forall in Krest; intros z Hz; apply (Krest z Hz)|].
  split; [intros z Hz; apply (HG z Hz)|].
  apply (remove_aid_gone _ _ _ Nd Er).
Qed.

Lemma okey_forced_group grp k : Forall (fun x => okey x = k) grp -> Forall (fun y => okey y = k) (forced_group grp).
Proof.
  unfold forced_group. rewrite !Forall_forall. intros H y Hy. apply in_map_iff in Hy. destruct Hy as [z [<- Hz]].
  specialize (H z Hz). unfold okey in *. cbn [snd]. destruct (snd z). exact H.
Qed.

Lemma forced_group_counterparts grp l : (forall y, In y l -> In y (forced_group grp)) -> counterparts l grp.
Proof.
  intros H z Hz. specialize (H z Hz). unfold forced_group in H. apply in_map_iff in H. destruct H as [z0 [<- Hz0]].
  exists z0. split; [exact Hz0|]. split; [reflexivity|]. unfold aidx, okey. cbn [snd]. destruct (snd z0). split; reflexivity.
Qed.

Lemma next_group_pos : forall gs st evs a st2 g2 e,
  Q (remaining st) (concat (map snd gs)) ->
  StronglySorted Z.lt (map fst gs) ->
  Forall (fun kg => Forall (fun x => okey x = fst kg) (snd kg)) gs ->
  next_group cfg_fixed st gs evs = SYield a st2 g2 e ->
  PosPost (remaining st) (concat (map snd gs)) a st2 g2.
Proof.
  induction gs as [|[k grp] gs IH]; intros st evs a st2 g2 e HQ S1 S2 H; [discriminate|].
  cbn [next_group] in H. destruct (late (min_order st) k); [discriminate|].
  simpl map in HQ, S1. simpl concat in HQ. inversion S1 as [|? ? S1' Hlt]; subst. inversion S2 as [|? ? Hk S2']; subst. cbn [fst snd] in Hk.
  destruct (group_Q (resolved st) grp (concat (map snd gs)) (remaining st) HQ) as [rem2 [Hr [HQ2 _]]]. cbv zeta in Hr, HQ2.
  pose proof (group_output_all (fun y => In y (forced_group grp) /\ okey y = k) cfg_fixed (resolved st) grp) as Hout.
  unfold group_output in Hout.
  assert (Hfg : Forall (fun y => In y (forced_group grp) /\ okey y = k) (forced_group grp)).
  { pose proof (okey_forced_group grp k Hk) as HF. rewrite Forall_forall in *. intros y Hy. split; [exact Hy|apply HF; exact Hy]. }
  specialize (Hout Hfg).
  destruct (detect cfg_fixed (resolved st) (sort_unique_lists (build_unique (forced_group grp)))) as [firsts K]. cbn [fst] in *.
  destruct K; [|discriminate]. cbn [drop_discarded cfg_fixed] in H. rewrite Hr in H.
  assert (HSub : subseq (map ak rem2) (map ak (remaining st))).
  { rewrite <- (ak_mark_group grp (remaining st)). apply (remove_all_subseq _ _ _ Hr). }
  assert (HGK : forall z, In z (concat (map snd gs)) -> (k < okey z)%Z).
  { intros z Hz. destruct (In_concat_groups z gs Hz) as [kg [A B]]. rewrite Forall_forall in S2', Hlt.
    specialize (S2' kg A). rewrite Forall_forall in S2'. rewrite (S2' z B). apply Hlt. apply in_map. exact A. }
  pose proof (output_sorted (none_output (forced_group grp) ++ firsts)) as HS.
  set (st' := {| resolved := resolved st; remaining := rem2; min_order := min_order st; start := start st |}) in *.
  destruct (sort (leb_by output_key) (none_output (forced_group grp) ++ firsts)) as [|x rest] eqn:ES.
  - simpl in HQ2. specialize (IH st' _ a st2 g2 e HQ2 S1' S2' H).
    eapply PosPost_weaken; [| |exact IH].
    + intros z Hz. exists z. split; [apply in_or_app; right; exact Hz|tauto].
    + exact HSub.
  - assert (Nd2 : NoDup (map aid rem2)) by (destruct HQ2 as [HJ2 _]; apply (NoDup_raids _ _ HJ2)).
    assert (HK2 : Forall (fun y => okey y = k) (x :: rest)).
    { rewrite Forall_forall in *. intros y Hy. apply (Hout y Hy). }
    pose proof (yield_first_pos st' x rest gs _ a st2 g2 e k Nd2 HK2 HS HGK H) as HP.
    eapply PosPost_weaken; [| |exact HP].
    + intros z Hz. apply in_app_or in Hz. destruct Hz as [Hz|Hz].
      * destruct (forced_group_counterparts grp (x :: rest)) with (z := z) as [z0 [A B]]; [|exact Hz|].
        -- intros y Hy. rewrite Forall_forall in Hout. apply (Hout y Hy).
        -- exists z0. split; [apply in_or_app; left; exact A|exact B].
      * exists z. split; [apply in_or_app; right; exact Hz|tauto].
    + exact HSub.
Qed.

Lemma gen_next_pos st g a st2 g2 e :
  Q (remaining st) (gitems g) -> GI st g -> StronglySorted idx_le (g_out g) ->
  gen_next cfg_fixed st g = SYield a st2 g2 e ->
  PosPost (remaining st) (gitems g) a st2 g2.
Proof.
  intros HQ HG HS H. unfold gen_next in H. destruct g as [out gs]. unfold gitems in *. cbn [g_out g_groups] in *.
  destruct HG as [g1 g2' g3 g4 _]. cbn [g_out g_groups] in *.
  destruct out as [|x rest].
  - simpl in *. apply (next_group_pos gs st [] a st2 g2 e); assumption.
  - apply (yield_first_pos st x rest gs [] a st2 g2 e (okey x)).
    + destruct HQ as [HJ _]. apply (NoDup_raids _ _ HJ).
    + rewrite Forall_forall. intros y Hy. apply g4; [exact Hy|left; reflexivity].
    + exact HS.
    + intros z Hz. destruct (In_concat_groups z gs Hz) as [kg [A B]]. rewrite Forall_forall in g2'.
      specialize (g2' kg A). rewrite Forall_forall in g2'. rewrite (g2' z B).
      apply (g3 x (or_introl eq_refl)). apply in_map. exact A.
    + exact H.
Qed.

Lemma restart_RK st new : RK (remaining (fst (restart st new))) (gitems (snd (restart st new))).
Proof.
  unfold restart, gitems. cbn [fst snd remaining g_out g_groups app]. rewrite groupby_concat. split.
  - intros x y Hx Hy Hne Hle. apply sort_In in Hx. apply sort_In in Hy. apply (enumerate_before _ (start st)); assumption.
  - intros p Hp. apply in_map_iff in Hp. destruct Hp as [z [<- Hz]]. apply sort_In in Hz. destruct z as [i b].
    apply enumerate_In_snd' in Hz. change (aki (i, b)) with (ak b). apply in_map. exact Hz.
Qed.

(* ONE STEP: the action handed out is the first pending action of the smallest pending phase *)
Definition first_pending (pool : list action) (a : action) (rest : list action) : Prop :=
  subseq (map ak rest) (map ak pool) /\ In (ak a) (map ak pool) /\ ~ In (aid a) (map aid rest) /\
  forall b, In b rest -> (ordkey a <= ordkey b)%Z /\
                         (ordkey b = ordkey a -> before (aid a) (aid b) (map aid pool)).

Lemma J_items_in_rem rem items : J rem items -> incl (map aidx items) (map aid rem).
Proof.
  intros [_ [_ H3]] i Hi. apply in_map_iff in Hi. destruct Hi as [y [<- Hy]].
  assert (In (isig y) (sigs rem)) as H by (apply H3; apply in_map; exact Hy).
  apply in_map_iff in H. destruct H as [b [E Hb]]. apply in_map_iff. exists b. split; [|exact Hb].
  unfold isig, sig in E. unfold aidx. congruence.
Qed.

Theorem gen_next_first st g a st2 g2 e :
  Q (remaining st) (gitems g) -> GI st g -> StronglySorted idx_le (g_out g) -> RK (remaining st) (gitems g) ->
  gen_next cfg_fixed st g = SYield a st2 g2 e ->
  RK (remaining st2) (gitems g2) /\ first_pending (remaining st) a (remaining st2).
Proof.
  intros HQ HG HS HR H.
  pose proof (gen_next_pos st g a st2 g2 e HQ HG HS H) as [P1 [P2 [[x0 [X1 [X2 [X3 X4]]]] [P4 [P5 P6]]]]].
  pose proof (gen_next_A st g HQ) as HA. rewrite H in HA. destruct HA as [HQ2 _].
  assert (Nd : NoDup (map aid (remaining st))) by (destruct HQ as [HJ _]; apply (NoDup_raids _ _ HJ)).
  assert (Nd2 : NoDup (map aid (remaining st2))) by (destruct HQ2 as [HJ _]; apply (NoDup_raids _ _ HJ)).
  assert (HR2 : RK (remaining st2) (gitems g2)).
  { apply (RK_step (remaining st) (gitems g)); try assumption. destruct HQ2 as [HJ2 _]. apply J_items_in_rem. exact HJ2. }
  split; [exact HR2|]. split; [exact P2|]. split; [|split; [exact P6|]].
  - destruct HR as [_ R2]. replace (ak a) with (aki x0) by (unfold aki, ak; congruence). apply R2. apply in_map. exact X1.
  - intros b Hb. destruct HQ2 as [_ [_ HK2]].
    assert (Hy : In (aid b) (map aidx (gitems g2))) by (apply HK2; apply in_map; exact Hb).
    apply in_map_iff in Hy. destruct Hy as [y [Ey Hy]].
    assert (Eo : okey y = ordkey b).
    { destruct HR2 as [_ R2]. assert (In (aki y) (map ak (remaining st2))) as H0 by (apply R2; apply in_map; exact Hy).
      apply in_map_iff in H0. destruct H0 as [b' [E' Hb']].
      assert (b' = b).
      { apply (NoDup_map_inj_in aid (remaining st2)); [exact Nd2|exact Hb'|exact Hb|]. unfold ak, aki in E'. inversion E'. congruence. }
      subst b'. unfold ak, aki in E'. inversion E'. reflexivity. }
    unfold gitems in Hy. apply in_app_or in Hy. destruct Hy as [Hy|Hy].
    + split; [rewrite <- Eo, (P4 y Hy); lia|]. intros _.
      destruct (P1 y (in_or_app _ _ _ (or_introl Hy))) as [y0 [A [B [C _]]]].
      rewrite <- X2, <- Ey, <- C. destruct HR as [R1 _]. apply R1; try assumption.
      * rewrite X2, C, Ey. intros E. apply P6. rewrite E. apply in_map. exact Hb.
      * rewrite B. apply X4. exact Hy.
    + specialize (P5 y Hy). split; [lia|]. intros E. lia.
Qed.

(* ---------- the whole run, step by step *)
Fixpoint exec_s (cfg : params) (fuel : nat) (st : cstate) (g : gen) (pending : list action)
  : list (list action * action * list action) :=
  match fuel with
  | O => []
  | S f =>
      let '(st1, g1) := match pending with [] => (st, g) | _ => restart st pending end in
      match gen_next cfg st1 g1 with
      | SStop _ _ _ => []
      | SYield a st2 g2 _ => (remaining st1, a, remaining st2) :: exec_s cfg f st2 g2 (aadds a)
      end
  end.

Definition step_action (s : list action * action * list action) : action := snd (fst s).

Lemma exec_s_trace cfg : forall fuel st g pending log tr,
  snd (exec_t cfg fuel st g pending log tr) = tr ++ map step_action (exec_s cfg fuel st g pending).
Proof.
  induction fuel as [|f IH]; intros; [simpl; rewrite app_nil_r; reflexivity|]. cbn [exec_t exec_s].
  destruct (match pending with [] => (st, g) | _ :: _ => restart st pending end) as [st1 g1].
  destruct (gen_next cfg st1 g1) as [a st2 g2 e|o e st'].
  - rewrite IH. simpl. rewrite <- app_assoc. reflexivity.
  - simpl. rewrite app_nil_r. reflexivity.
Qed.

(* every step starts from what the previous one left pending, followed by what the executed action declared *)
Fixpoint chained (pool : list action) (steps : list (list action * action * list action)) : Prop :=
  match steps with
  | [] => True
  | (p, a, r) :: t => p = pool /\ chained (r ++ aadds a) t
  end.

Lemma exec_s_ok : forall fuel st g pending,
  NoDup (fas (sigs (remaining st)) ++ forest_aids pending) ->
  Forall Pact (remaining st) -> Forall Pact pending ->
  (pending = [] -> Q (remaining st) (gitems g) /\ GI st g /\ StronglySorted idx_le (g_out g) /\ RK (remaining st) (gitems g)) ->
  Forall (fun s => first_pending (fst (fst s)) (snd (fst s)) (snd s)) (exec_s cfg_fixed fuel st g pending)
  /\ chained (remaining st ++ pending) (exec_s cfg_fixed fuel st g pending).
Proof.
  induction fuel as [|f IH]; intros st g pending HN HR HP HI; [split; [constructor|exact I]|].
  cbn [exec_s].
  assert (H1 : exists st1 g1, (match pending with [] => (st, g) | _ :: _ => restart st pending end) = (st1, g1) /\
               Q (remaining st1) (gitems g1) /\ GI st1 g1 /\ StronglySorted idx_le (g_out g1) /\ RK (remaining st1) (gitems g1)
               /\ Forall Pact (remaining st1) /\ remaining st1 = remaining st ++ pending).
  { destruct pending as [|p ps].
    - destruct (HI eq_refl) as [A [B [C E]]]. exists st, g. rewrite app_nil_r. tauto.
    - exists (fst (restart st (p :: ps))), (snd (restart st (p :: ps))). split; [reflexivity|].
      destruct (restart_GI st (p :: ps) HR HP) as [A [B _]].
      split; [apply restart_Q; exact HN|]. split; [exact A|]. split; [constructor|]. split; [apply restart_RK|].
      split; [exact B|reflexivity]. }
  destruct H1 as [st1 [g1 [-> [HQ1 [HG1 [HS1 [HK1 [HR1 E1]]]]]]]].
  destruct (gen_next cfg_fixed st1 g1) as [a st2 g2 e|o e st'] eqn:EG; [|split; [constructor|exact I]].
  destruct (gen_next_first st1 g1 a st2 g2 e HQ1 HG1 HS1 HK1 EG) as [HK2 HF].
  pose proof (gen_next_A st1 g1 HQ1) as HA. rewrite EG in HA. destruct HA as [HQ2 [HN2 _]].
  destruct (gen_next_mono cfg_fixed st1 g1 a st2 g2 e HR1 HG1 EG) as [HG2 [_ [_ [Pa HR2]]]].
  destruct (gen_next_in_order cfg_fixed st1 g1 a st2 g2 e HS1 EG) as [x [_ HS2]].
  destruct (IH st2 g2 (aadds a) HN2 HR2 (Pact_adds _ Pa)) as [IH1 IH2].
  { intros _. split; [exact HQ2|]. split; [exact HG2|]. split; [inversion HS2; assumption|exact HK2]. }
  split.
  - constructor; [exact HF|exact IH1].
  - cbn [chained]. split; [exact E1|exact IH2].
Qed.

(* RUN LEVEL (re-entrant runs included): the steps of the run are exactly the executed actions, each step starts from
   what the previous step left pending followed by what the executed action declared, and at every step the action
   handed out is the first pending action of the smallest pending phase *)
Theorem run_first_pending acts :
  wf_ids acts = true -> wf_orders acts = true ->
  let steps := exec_s cfg_fixed (S (forest_size acts)) cstate0 gen0 acts in
  map step_action steps = commit_trace cfg_fixed acts /\
  chained acts steps /\
  Forall (fun s => first_pending (fst (fst s)) (snd (fst s)) (snd s)) steps.
Proof.
  intros Hid Hord steps. subst steps. split; [|].
  - unfold commit_trace. rewrite exec_s_trace. reflexivity.
  - assert (HP : Forall Pact acts).
    { unfold wf_orders in Hord. rewrite forallb_forall in Hord. rewrite Forall_forall. exact Hord. }
    destruct (exec_s_ok (S (forest_size acts)) cstate0 gen0 acts) as [A B].
    + simpl. apply nodupN_NoDup. exact Hid.
    + constructor.
    + exact HP.
    + intros ->. split; [split; [split; [constructor|split; [constructor|intros ? []]]|split; intros ? []]|].
      split.
      { constructor; cbn [gen0 g_out g_groups gitems map app concat];
          [constructor|constructor|intros x []|intros x y []|constructor]. }
      split; [constructor|]. split; [intros ? ? []|intros ? []].
    + split; [exact B|exact A].
Qed.

(* non-vacuity: a re-entrant run in which the order within the phase matters *)
Definition w_pos : list action :=
  [mkA 0 (Eager None) [] (Some 0%Z) [mkA 3 (Eager None) [] (Some 0%Z) []];
   mkA 1 (Eager None) [] (Some 5%Z) [];
   mkA 2 (Eager None) [] (Some 0%Z) []].
Example run_first_pending_witness :
  wf_ids w_pos = true /\ wf_orders w_pos = true /\
  map aid (commit_trace cfg_fixed w_pos) = [0; 2; 3; 1]%N /\
  map (fun s => (map aid (fst (fst s)), map aid (snd s))) (exec_s cfg_fixed (S (forest_size w_pos)) cstate0 gen0 w_pos)
  = [([0; 1; 2], [1; 2]); ([1; 2; 3], [1; 3]); ([1; 3], [1]); ([1], [])]%N.
Proof. vm_compute. repeat split; reflexivity. Qed.
