(* C07 -- third proof-only round: the URL form of generate-then-resolve for elements of any type.  For a resource r
   inside the virtual root and elements that name its descendant r', request.resource_url(r, *els) followed by "/"
   IS request.resource_url(r'), whose path traverses back to r' under the same header. *)
From Coq Require Import List NArith ZArith Bool Lia Arith.
Import ListNotations.
Require Import Verif.Lib.Wire Verif.Lib.Text Verif.Lib.PathNorm Verif.Lib.Utf8 Verif.Lib.Percent
               Verif.Lib.C07Types Verif.Gen.Facts_C02 Verif.Gen.Facts_C07 Verif.Model.C02 Verif.Proofs.C02
               Verif.Model.C07 Verif.Proofs.C07_rt Verif.Proofs.C07 Verif.Proofs.C07_elt.
Close Scope N_scope.

Lemma skip_prefix (vt rest ts : list text) : skipn (length vt) ((vt ++ rest) ++ ts) = rest ++ ts.
Proof. rewrite <- app_assoc, skipn_app, Nat.sub_diag, skipn_all. reflexivity. Qed.

Lemma virtual_path_extends root r r' names ts vt v v' :
  good_resource root r = Some names -> ts <> [] ->
  inside root vt r = Some v -> inside root vt r' = Some v' ->
  spec_virtual_path root r names vt ++ join [slash] (map q ts) ++ [slash] = spec_virtual_path root r' (names ++ ts) vt.
Proof.
  intros Hg Hts Hi Hi'. destruct (good_resource_spec _ _ _ Hg) as (Hn & Hp & x & Hd & _).
  destruct (inside_prefix root r names x vt Hn Hd) as (I1 & _). destruct (I1 v Hi) as (Hpre & _).
  apply prefix_of_spec in Hpre as [rest Er].
  unfold spec_virtual_path. rewrite Hi, Hi'. subst names.
  rewrite skip_prefix. pose proof (skip_prefix vt rest []) as E. rewrite !app_nil_r in E. rewrite E.
  rewrite !slashed_fm, fm_app, (fm_qpath ts Hts). unfold qpath. cbn [app]. try rewrite <- app_assoc. reflexivity.
Qed.

Theorem typed_url_is_descendant_url root r r' names els ts vroot vt v v' sn d host :
  good_resource root r = Some names -> good_resource root r' = Some (names ++ ts) ->
  elts_texts els = Some ts -> ts <> [] -> header_segments vroot = Some vt ->
  inside root vt r = Some v -> inside root vt r' = Some v' -> decode_path_info sn = Ok d ->
  xbind (resource_url_e UrlTupleCompare root r els vroot sn (Some host)) (fun u => Val (u ++ [slash]))
    = resource_url UrlTupleCompare root r' [] vroot sn (Some host) /\
  request_back UrlTupleCompare root r' vroot = Val (r', [], Some r').
Proof.
  intros Hg Hg' He Hts Hh Hi Hi' Hd. split.
  - destruct (resource_url_e_shape root r names els ts vroot vt sn d host Hg Hh He Hd) as (H1 & _).
    destruct (resource_url_shape root r' (names ++ ts) [] vroot vt sn d host Hg' Hh eq_refl Hd) as (_ & H2 & _).
    rewrite H1. cbn [xbind]. symmetry. etransitivity; [exact H2|]. symmetry. cbn [map join]. f_equal.
    rewrite <- (virtual_path_extends root r r' names ts vt v v' Hg Hts Hi Hi').
    rewrite app_nil_r, <- !app_assoc. reflexivity.
  - exact (url_traverses_back root r' (names ++ ts) vroot vt v' Hg' Hh Hi').
Qed.

(* non-vacuity: /one under the virtual root /one, the bytes element b'two' naming its child *)
Example typed_url_nontrivial :
  good_resource wit7 [0] = Some [n_one] /\ good_resource wit7 [0; 0] = Some ([n_one] ++ [n_two]) /\
  elts_texts [SBytes n_two] = Some [n_two] /\ header_segments (Some h_one) = Some [n_one] /\
  inside wit7 [n_one] [0] = Some [0] /\ inside wit7 [n_one] [0; 0] = Some [0].
Proof. vm_compute. repeat split; reflexivity. Qed.
