(* C12 -- characterisation of the settings.aslist model (proof-only round): the trusted-origin patterns read from
   pyramid.csrf_trusted_origins are non-empty, free of whitespace, and together are exactly the non-whitespace
   characters of the setting, in order (nothing is invented, nothing but whitespace is dropped). *)
From Coq Require Import List NArith ZArith Bool.
Import ListNotations.
Require Import Verif.Lib.Wire Verif.Lib.Text Verif.Gen.Facts_C12 Verif.Model.C12.
Open Scope N_scope.

Definition nonws (c : N) : bool := negb (memN c py_whitespace).

Lemma py_split_concat : forall s cur, concat (py_split s cur) = rev cur ++ filter nonws s.
Proof.
  induction s as [|c r IH]; intros cur.
  - cbn [py_split filter]. rewrite app_nil_r. destruct cur; cbn [is_empty concat]; [reflexivity|]. rewrite app_nil_r. reflexivity.
  - cbn [py_split filter]. unfold nonws at 1. destruct (memN c py_whitespace) eqn:W; cbn [negb].
    + destruct cur as [|x cur]; cbn [is_empty].
      * rewrite IH. reflexivity.
      * cbn [concat]. rewrite IH. reflexivity.
    + rewrite IH. cbn [rev]. rewrite <- app_assoc. reflexivity.
Qed.

Lemma py_split_items : forall s cur,
  forallb nonws cur = true ->
  Forall (fun t => t <> [] /\ forallb nonws t = true) (py_split s cur).
Proof.
  induction s as [|c r IH]; intros cur Hc.
  - cbn [py_split]. destruct cur as [|x cur]; cbn [is_empty]; constructor; [|constructor].
    split.
    + intros E. apply (f_equal (@length N)) in E. rewrite rev_length in E. discriminate.
    + rewrite forallb_forall in *. intros y Hy. apply Hc. apply in_rev. exact Hy.
  - cbn [py_split]. destruct (memN c py_whitespace) eqn:W.
    + destruct cur as [|x cur]; cbn [is_empty].
      * apply IH. reflexivity.
      * constructor; [|apply IH; reflexivity]. split.
        -- intros E. apply (f_equal (@length N)) in E. rewrite rev_length in E. discriminate.
        -- rewrite forallb_forall in *. intros y Hy. apply Hc. apply in_rev. exact Hy.
    + apply IH. cbn [forallb]. unfold nonws at 1. rewrite W. exact Hc.
Qed.

(* aslist(value): every pattern is non-empty and contains no whitespace ... *)
Theorem aslist_items v : Forall (fun t => t <> [] /\ forallb nonws t = true) (aslist v).
Proof.
  unfold aslist. induction v as [|s v IH]; [constructor|].
  cbn [flat_map]. apply Forall_app. split; [apply py_split_items; reflexivity|exact IH].
Qed.

(* ... and the patterns, one after the other, are exactly the non-whitespace characters of the setting, in order *)
Theorem aslist_concat v : concat (aslist v) = filter nonws (concat v).
Proof.
  unfold aslist. induction v as [|s v IH]; [reflexivity|].
  cbn [flat_map concat]. rewrite concat_app, py_split_concat, IH, filter_app. reflexivity.
Qed.

Lemma filter_all_ws l : forallb (fun c => memN c py_whitespace) l = true -> filter nonws l = [].
Proof.
  induction l as [|c l IHl]; intros H; [reflexivity|]. cbn [forallb] in H. apply andb_prop in H as [H1 H2].
  cbn [filter]. unfold nonws at 1. rewrite H1. cbn [negb]. apply IHl. exact H2.
Qed.

(* consequences for the origin check: a setting of only whitespace (or empty) trusts nothing besides the own host *)
Corollary aslist_blank v : forallb (fun c => memN c py_whitespace) (concat v) = true -> aslist v = [].
Proof.
  intros H. pose proof (aslist_concat v) as Hc. pose proof (aslist_items v) as Hi.
  rewrite (filter_all_ws _ H) in Hc. destruct (aslist v) as [|t l]; [reflexivity|].
  inversion Hi as [|? ? [Hne _] _]; subst. cbn [concat] in Hc. apply app_eq_nil in Hc as [Ht _]. contradiction.
Qed.

(* non-vacuity: "a.example.com\n  .b.org" (a str) and ["x y", "z"] (a list) *)
Example ex_aslist :
  aslist [[97; 46; 99; 10; 32; 32; 46; 98]] = [[97; 46; 99]; [46; 98]] /\
  aslist [[120; 32; 121]; [122]] = [[120]; [121]; [122]] /\ aslist [[32; 10; 9]] = [].
Proof. vm_compute. repeat split; reflexivity. Qed.
