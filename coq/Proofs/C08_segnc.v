(* C08 -- any number of intermediate commits over the REAL commit model of C04: [commit_segs] (C04's [commit] applied to
   each segment in turn) runs  schedule s1 ++ ... ++ schedule sn , and the store it leaves after closed cuts is the store
   ONE commit of any reordering / re-nesting of the same statements leaves.  Generalises Proofs/C08_segc.v. *)
From Coq Require Import List NArith ZArith Bool Lia Permutation Sorted.
Import ListNotations.
Require Import Verif.Lib.Wire Verif.Lib.C04Sort Verif.Gen.Facts_C04 Verif.Gen.Facts_C08 Verif.Model.C04 Verif.Model.C08.
Require Import Verif.Proofs.C08 Verif.Proofs.C08_commit Verif.Proofs.C08_seg Verif.Proofs.C08_segc Verif.Proofs.C08_segn.

Definition seg_ok (paths : list path) (d : list (wstmt * nat)) : Prop :=
  NoDup (map sid (stmts_of d)) /\ discs_nodup (acts_of paths d) = true.

Theorem commit_segs_runs_all : forall paths decls,
  (forall d, In d decls -> seg_ok paths d) ->
  fst (commit_segs (map (acts_of paths) decls)) = Done /\
  run_ids (snd (commit_segs (map (acts_of paths) decls))) = flat_map (fun d => sids (schedule (stmts_of d))) decls.
Proof.
  intros paths decls. induction decls as [|d r IH]; intros Hok; [split; reflexivity|].
  destruct (Hok d (or_introl eq_refl)) as [Hnd Hdn].
  pose proof (commit_runs_schedule paths d) as T. cbv zeta in T. destruct (T Hnd Hdn) as [O E].
  destruct (IH (fun x Hx => Hok x (or_intror Hx))) as [O' E'].
  cbn [map commit_segs flat_map]. unfold acts_of, stmts_of in *.
  destruct (commit (map (fun wp => to_action paths (fst wp) (snd wp)) d)) as [o lg] eqn:C.
  cbn [fst snd] in O, E. subst o.
  destruct (commit_segs (map (fun decl => map (fun wp => to_action paths (fst wp) (snd wp)) decl) r)) as [o2 lg2] eqn:C2.
  cbn [fst snd] in O', E' |- *. split; [exact O'|]. rewrite run_ids_app, E, E'. reflexivity.
Qed.

Definition exec_storeN (paths : list path) (decls : list (list (wstmt * nat))) : store :=
  runl (pick (map fst (concat decls)) (run_ids (snd (commit_segs (map (acts_of paths) decls))))) empty.

Lemma pick_segs ws decls :
  NoDup (map (fun x => sid (wst x)) ws) -> (forall d w, In d decls -> In w (map fst d) -> In w ws) ->
  pick ws (flat_map (fun d => sids (schedule (stmts_of d))) decls) = trace_segs (map stmts_of decls).
Proof.
  intros Hnd. induction decls as [|d r IH]; intros Hin; [reflexivity|].
  unfold trace_segs in *. cbn [flat_map map]. rewrite pick_app.
  rewrite IH by (intros d' w Hd Hw; apply (Hin d' w); [right; exact Hd|exact Hw]).
  f_equal. unfold stmts_of. rewrite <- (map_map fst wst).
  apply pick_schedule_sub; [exact Hnd|]. intros w Hw. apply (Hin d w); [left; reflexivity|exact Hw].
Qed.

Lemma concat_stmts_of decls : concat (map stmts_of decls) = stmts_of (concat decls).
Proof. unfold stmts_of. symmetry. apply concat_map. Qed.

Lemma exec_storeN_finalN paths decls :
  NoDup (map sid (stmts_of (concat decls))) -> (forall d, In d decls -> discs_nodup (acts_of paths d) = true) ->
  exec_storeN paths decls = finalN (map stmts_of decls).
Proof.
  intros Hnd Hd.
  assert (Hseg : forall d, In d decls -> seg_ok paths d).
  { intros d Hin. split; [|apply Hd; exact Hin].
    rewrite <- concat_stmts_of in Hnd. clear Hd. induction decls as [|x r IH]; [destruct Hin|].
    cbn [map concat] in Hnd. rewrite map_app in Hnd. destruct Hin as [<-|Hin].
    - eapply NoDup_app_l. exact Hnd.
    - apply IH; [eapply NoDup_app_r; exact Hnd|exact Hin]. }
  destruct (commit_segs_runs_all paths decls Hseg) as [_ E].
  unfold exec_storeN, finalN. rewrite E. f_equal. apply pick_segs.
  - unfold stmts_of in Hnd. rewrite map_map. rewrite map_map in Hnd. exact Hnd.
  - intros d w Hdin Hw. rewrite concat_map. apply in_concat. exists (map fst d). split; [apply in_map; exact Hdin|exact Hw].
Qed.

(* n commits (closed cuts) under the real commit model = one commit of any reordering / re-nesting *)
Theorem commit_model_closed_segs_invariant : forall paths paths' decls decl',
  let segs := map stmts_of decls in
  let dl' := stmts_of decl' in
  NoDup (map sid (concat segs)) -> Permutation (concat segs) dl' ->
  (forall d, In d decls -> discs_nodup (acts_of paths d) = true) ->
  discs_nodup (acts_of paths' decl') = true ->
  Horder (concat segs) dl' -> H1 (concat segs) -> H2 (concat segs) -> closed_segs segs -> seq_same_phase (concat segs) ->
  store_eq (exec_storeN paths decls) (exec_store paths' decl').
Proof.
  intros paths paths' decls decl' segs dl' Hnd P Hd D' Ho h1 h2 Hc Hs.
  assert (Hnd' : NoDup (map sid dl')).
  { eapply Permutation_NoDup; [apply Permutation_map; exact P|exact Hnd]. }
  assert (Hnd2 : NoDup (map sid (stmts_of (concat decls)))).
  { rewrite <- concat_stmts_of. exact Hnd. }
  rewrite (exec_storeN_finalN paths decls Hnd2 Hd).
  unfold dl', stmts_of in Hnd'. rewrite (exec_store_final paths' decl' Hnd' D').
  apply closed_segs_variants_agree; assumption.
Qed.

(* non-vacuity: the statements of C08_commit.ExC committed one by one in three commits (computed) *)
Module ExN.
  Import ExC.
  Definition decls3 : list (list (wstmt * nat)) := [[(w1, 1%nat)]; [(w2, 2%nat)]; [(w4, 2%nat); (w3, 0%nat)]].
  Example three_commits :
    fst (commit_segs (map (acts_of pathsA) decls3)) = Done /\
    run_ids (snd (commit_segs (map (acts_of pathsA) decls3))) = [1; 2; 4; 3]%N /\
    forallb (fun d => discs_nodup (acts_of pathsA d)) decls3 = true /\
    h1b (concat (map stmts_of decls3)) = true /\ h2b (concat (map stmts_of decls3)) = true /\
    forallb (fun k => cell_eqb (exec_storeN pathsA decls3 k) (exec_store pathsB declB k)) [1; 2; 3; 4; 5]%N = true /\
    exec_storeN pathsA decls3 4%N <> [].
  Proof. repeat split; try (vm_compute; reflexivity). vm_compute. discriminate. Qed.
  Example three_commits_closed : closed_segs (map stmts_of decls3).
  Proof.
    cbn [closed_segs map decls3].
    split; [apply closed_prefixb_sound; vm_compute; reflexivity|].
    split; [apply closed_prefixb_sound; vm_compute; reflexivity|].
    split; [apply closed_prefixb_sound; vm_compute; reflexivity|exact I].
  Qed.
End ExN.
