(* C18 -- the argument processing of add_view_deriver and _add_tween / add_tween, REGENERATED from the source on
   every run (harness/c18/translate_args.py -> Gen/Facts_C18.v), equals the hand-written reference model.  The
   scripts do not mention the generated text: they unfold the generated definitions and normalise. *)
From Coq Require Import List NArith ZArith Bool Lia Permutation.
Import ListNotations.
Require Import Verif.Lib.Wire Verif.Model.C18_base Verif.Gen.Facts_C18 Verif.Model.C18.
Require Import Verif.Proofs.C18_kahn Verif.Proofs.C18_build Verif.Proofs.C18 Verif.Proofs.C18_rep Verif.Proofs.C18_derivers.

Lemma hint_default h (d : node) : (if hint_is_none h then HOne d else h) = match h with HNone => HOne d | _ => h end.
Proof. destruct h; reflexivity. Qed.

Lemma hint_has_split u h : hint_has u h = hint_is_one u h || (hint_is_many h && hint_many_has u h).
Proof. destruct h; cbn [hint_has hint_is_one hint_is_many hint_many_has andb orb]; [reflexivity| |reflexivity].
  rewrite orb_false_r. reflexivity. Qed.

Lemma mem2 x a b : mem_text x [a; b] = text_eqb x a || text_eqb x b.
Proof. cbn [mem_text]. rewrite orb_false_r. reflexivity. Qed.

(* decide every atomic test (name comparison, membership) that contains no undecided conditional, innermost first *)
Ltac no_if t := lazymatch t with context [if _ then _ else _] => fail | _ => idtac end.
Ltac split_atoms :=
  repeat (first
    [ match goal with |- context [text_eqb ?a ?b] => no_if a; no_if b; destruct (text_eqb a b) eqn:? end
    | match goal with |- context [mem_text ?a ?b] => no_if a; no_if b; destruct (mem_text a b) eqn:? end ];
    cbn [orb andb negb]).

Ltac norm_gen :=
  cbv zeta;
  repeat rewrite hint_default;
  repeat rewrite mem2;
  repeat rewrite <- hint_has_split.

(* ---------- add_view_deriver *)
Theorem gen_deriver_args_is_model n u o : gen_deriver_args n u o = deriver_args n u o.
Proof.
  assert (Ef : dv_after_is_under = true) by reflexivity.
  unfold gen_deriver_args, deriver_args, deriver_hints. rewrite Ef. norm_gen.
  (* literals of the source and the regenerated constants of the model: one spelling *)
  unfold dv_default_under, dv_default_over, dv_forced_over, dv_ingress, dv_view.
  split_atoms; try reflexivity; try congruence.
Qed.

(* the processed hints handed to derivers.add are the property's reading: after = under, before = over *)
Corollary gen_deriver_args_hints n u o : gen_deriver_args n u o = deriver_hints n u o.
Proof.
  rewrite gen_deriver_args_is_model. unfold deriver_args.
  assert (Ef : dv_after_is_under = true) by reflexivity. rewrite Ef.
  destruct (deriver_hints n u o) as [c|[a b]]; reflexivity.
Qed.

(* ---------- _add_tween / add_tween *)
Lemma add_tween_model_unfold n f u o e :
  add_tween_model n f u o e =
  if text_eqb n tw_main || text_eqb n tw_ingress then inl 1%N
  else if hint_has tw_ingress o then inl 2%N
  else if hint_has tw_main u then inl 3%N
  else inr (if e then TRExplicit n f else TRImplicit n f u o).
Proof.
  unfold add_tween_model, add_tween_check.
  destruct (text_eqb n tw_main || text_eqb n tw_ingress); [reflexivity|].
  destruct (hint_has tw_ingress o); [reflexivity|].
  destruct (hint_has tw_main u); reflexivity.
Qed.

Ltac split_conds :=
  repeat match goal with
         | |- context [if ?c then _ else _] =>
             match c with
             | context [if _ then _ else _] => fail 1
             | _ => destruct c eqn:?
             end
         end.

Theorem gen_add_tween_is_model n f u o e : gen_add_tween n f u o e = add_tween_model n f u o e.
Proof.
  rewrite add_tween_model_unfold. unfold gen_add_tween. cbv zeta. repeat rewrite mem2.
  unfold tw_main, tw_ingress.
  (* by the form of the two hints: the identity test, is_nonstr_iter and the guarded membership reduce to one test *)
  destruct u as [|u1|ul], o as [|o1|ol];
    cbn [hint_has hint_is_one hint_is_many hint_many_has hint_is_none andb orb];
    rewrite ?orb_false_r, ?orb_false_l, ?andb_true_l, ?andb_true_r, ?andb_false_r, ?andb_false_l;
    split_atoms; try reflexivity; try congruence.
Qed.

Theorem gen_add_tween_directive_is_model n f u o :
  gen_add_tween_directive n f u o = add_tween_model n f u o false.
Proof. unfold gen_add_tween_directive. apply gen_add_tween_is_model. Qed.

Theorem gen_add_tween_both n f u o e :
  gen_add_tween n f u o e = add_tween_model n f u o e /\
  gen_add_tween_directive n f u o = add_tween_model n f u o false.
Proof. split; [apply gen_add_tween_is_model|apply gen_add_tween_directive_is_model]. Qed.

(* ---------- connection to the history model: one add_tween event of tweens_history IS the directive followed by
   the action it registered; the explicit list of the settings is _add_tween(.., explicit=True) per name *)
Lemma tweens_history_add n f u o t r :
  tweens_history t (TAdd (n, f, u, o) :: r) =
  match add_tween_model n f u o false with
  | inl c => vN c :: tweens_history t r
  | inr reg => vN 0 :: tweens_history (apply_reg reg t) r
  end.
Proof.
  cbn [tweens_history]. unfold add_tween_model.
  destruct (N.eqb (add_tween_check n u o) 0) eqn:E; reflexivity.
Qed.

Theorem gen_tweens_history_add n f u o t r :
  tweens_history t (TAdd (n, f, u, o) :: r) =
  match gen_add_tween_directive n f u o with
  | inl c => vN c :: tweens_history t r
  | inr reg => vN 0 :: tweens_history (apply_reg reg t) r
  end.
Proof. rewrite gen_add_tween_directive_is_model. apply tweens_history_add. Qed.

(* names of an explicit list that pass the reserved-name check are registered by add_explicit, in order *)
Lemma explicit_reg n f : text_eqb n tw_main || text_eqb n tw_ingress = false ->
  gen_add_tween n f HNone HNone true = inr (TRExplicit n f).
Proof.
  intros H. rewrite gen_add_tween_is_model, add_tween_model_unfold, H. reflexivity.
Qed.

Theorem tweens_init_by_directive ex :
  forallb (fun nf => negb (text_eqb (fst nf) tw_main || text_eqb (fst nf) tw_ingress)) ex = true ->
  forall t0,
  fold_left (fun t nf => add_explicit (fst nf) (snd nf) t) ex t0 =
  fold_left (fun t nf => match gen_add_tween (fst nf) (snd nf) HNone HNone true with
                         | inr reg => apply_reg reg t | inl _ => t end) ex t0.
Proof.
  induction ex as [|[n f] ex IH]; intros H t0; [reflexivity|].
  cbn [forallb fst snd] in H. apply andb_true_iff in H. destruct H as (H1 & H2).
  apply negb_true_iff in H1. cbn [fold_left fst snd]. rewrite (explicit_reg n f H1). cbn [apply_reg].
  apply IH. exact H2.
Qed.

(* ---------- the deriver scenario driven by the regenerated argument processing *)
Definition gen_deriver_step (st : sorter * list N) (x : node * N * hint * hint) : sorter * list N :=
  let '(s, codes) := st in
  let '(n, f, u, o) := x in
  match gen_deriver_args n u o with
  | inl c => (s, codes ++ [c])
  | inr (a, b) => (add n f (HMany a) (HMany b) s, codes ++ [0%N])
  end.

Lemma gen_deriver_step_is_model st x : gen_deriver_step st x = deriver_step st x.
Proof.
  destruct st as [s codes]. destruct x as [[[n f] u] o]. unfold gen_deriver_step, deriver_step, deriver_add.
  rewrite gen_deriver_args_is_model. destruct (deriver_args n u o) as [c|[a b]]; reflexivity.
Qed.

Theorem gen_derivers_scenario_judged adds :
  let s := fst (fold_left gen_deriver_step adds (default_derivers, [])) in
  judge cfg_derivers (decls_of cfg_derivers (deriver_ops adds)) (sorted s) = true /\
  forall l, sorted s = Sorted l -> mapped_innermost (map fst l) = true.
Proof.
  assert (E : fold_left gen_deriver_step adds (default_derivers, []) = derivers_scenario adds).
  { unfold derivers_scenario. generalize (default_derivers, @nil N).
    induction adds as [|x adds IH]; intros st; cbn [fold_left]; [reflexivity|].
    rewrite gen_deriver_step_is_model. apply IH. }
  cbv zeta. rewrite E. split.
  - rewrite derivers_scenario_ops. apply judge_sorted. apply Rep_reachable.
  - apply derivers_mapped_innermost.
Qed.

(* ---------- predicate directives: add_{view,route,subscriber}_predicate -> _add_predicate -> (register)
   get_predlist(type).add -> sorter.add, every hop regenerated; the composition hands the directive's arguments to the
   sorter of the list named after the directive's kind with  after = weighs_more_than, before = weighs_less_than *)
Definition gen_pred_directive (k : pkind) :=
  match k with
  | PView => gen_pred_directive_view | PRoute => gen_pred_directive_route | PSubscriber => gen_pred_directive_subscriber
  end.

Definition gen_pred_chain (k : pkind) (n : node) (v : N) (more less : hint) : node * (node * N * hint * hint) :=
  let '(t1, n1, v1, m1, l1) := gen_pred_directive k n v more less in
  let '(t2, n2, v2, m2, l2) := gen_add_predicate t1 n1 v1 m1 l1 in
  (t2, gen_pl_add n2 v2 m2 l2).

Theorem gen_pred_chain_is_spec k n v more less :
  gen_pred_chain k n v more less = (pkind_text k, (n, v, more, less)).
Proof. destruct k; reflexivity. Qed.

Theorem gen_pred_chain_is_model k n v more less s :
  let '(t, (n', v', a, b)) := gen_pred_chain k n v more less in
  t = pkind_text k /\ add n' v' a b s = pred_directive k n v more less s.
Proof. rewrite gen_pred_chain_is_spec. split; [reflexivity|]. symmetry. apply pred_directive_add. Qed.

(* end to end: any add_*_predicate calls pushed through the REGENERATED chain on top of the stock predicates give an
   order / error the judge accepts for  weighs_more_than = after, weighs_less_than = before *)
Definition gen_pred_step (k : pkind) (s : sorter) (x : node * N * hint * hint) : sorter :=
  let '(n, f, m, l) := x in
  let '(_, (n', v', a, b)) := gen_pred_chain k n f m l in add n' v' a b s.

Theorem gen_preds_scenario_judged k adds :
  let s0 := fold_left (fun s n => gen_pred_step k s (n, 0%N, HNone, HNone)) (pd_defaults k) (new_sorter cfg_plain) in
  judge cfg_plain (decls_of cfg_plain (pred_ops k adds)) (sorted (fold_left (gen_pred_step k) adds s0)) = true.
Proof.
  cbv zeta.
  assert (E : forall s x, gen_pred_step k s x = let '(n, f, m, l) := x in pred_directive k n f m l s).
  { intros s [[[n f] m] l]. unfold gen_pred_step. rewrite gen_pred_chain_is_spec. symmetry. apply pred_directive_add. }
  assert (E1 : forall l s, fold_left (fun s n => gen_pred_step k s (n, 0%N, HNone, HNone)) l s
                           = fold_left (fun s n => pred_directive k n 0%N HNone HNone s) l s).
  { induction l as [|x l IH]; intros s; cbn [fold_left]; [reflexivity|]. rewrite E. apply IH. }
  assert (E2 : forall l s, fold_left (gen_pred_step k) l s
                           = fold_left (fun s x => let '(n, f, m, l) := x in pred_directive k n f m l s) l s).
  { induction l as [|x l IH]; intros s; cbn [fold_left]; [reflexivity|]. rewrite E. apply IH. }
  rewrite E2, E1. apply preds_scenario_judged.
Qed.

Example ex_pred_chain :
  gen_pred_chain PRoute (tx 112) 7 (HOne (tx 97)) (HMany [tx 98]) = (pkind_text PRoute, (tx 112, 7%N, HOne (tx 97), HMany [tx 98])).
Proof. reflexivity. Qed.

(* ---------- non-vacuity: each refusal code and an accepted call are reachable *)
Example ex_deriver_codes :
  gen_deriver_args dv_view HNone HNone = inl 1%N /\
  gen_deriver_args (tx 100) HNone (HMany [dv_ingress]) = inl 2%N /\
  gen_deriver_args (tx 100) (HOne dv_view) HNone = inl 3%N /\
  gen_deriver_args (tx 100) (HMany [tx 97; dv_forced_over]) HNone = inl 4%N /\
  gen_deriver_args (tx 100) (HOne (tx 97)) (HMany [dv_view; tx 98]) = inr ([tx 97], [dv_view; tx 98; dv_forced_over]).
Proof. vm_compute. repeat split; reflexivity. Qed.

Example ex_tween_codes :
  gen_add_tween_directive tw_main 1 HNone HNone = inl 1%N /\
  gen_add_tween_directive (tx 100) 1 HNone (HOne tw_ingress) = inl 2%N /\
  gen_add_tween_directive (tx 100) 1 (HMany [tx 97; tw_main]) HNone = inl 3%N /\
  gen_add_tween_directive (tx 100) 1 (HOne (tx 97)) (HOne tw_main) = inr (TRImplicit (tx 100) 1 (HOne (tx 97)) (HOne tw_main)) /\
  gen_add_tween (tx 100) 1 HNone HNone true = inr (TRExplicit (tx 100) 1).
Proof. vm_compute. repeat split; reflexivity. Qed.
