(* C06 proofs: the generated path percent-decodes to the UTF-8 of the pattern text with the
   values in place (C17's generator through C01's pattern representation), and C01's matcher
   gives the values back when the decomposition is unique. *)
From Coq Require Import List NArith ZArith Bool Lia ZifyBool ZifyN.
Import ListNotations.
Require Import Verif.Lib.Wire Verif.Lib.Text Verif.Lib.PathNorm Verif.Lib.Utf8 Verif.Lib.Percent.
Require Verif.Gen.Facts_C01 Verif.Model.C01 Verif.Proofs.C01.
Require Import Verif.Gen.Facts_C17 Verif.Model.C17 Verif.Proofs.C17.
Require Import Verif.Gen.Facts_C06 Verif.Model.C06.
Ltac Zify.zify_post_hook ::= Z.div_mod_to_equations.
Open Scope N_scope.

(* ------------------------------------------------------------ facts *)
Lemma gen_sources_ok_true : gen_sources_ok = true.
Proof. vm_compute. reflexivity. Qed.

(* every safe set used by the generator lies inside the set used for values (PATH_SAFE), which
   is ASCII and contains neither '%' nor '?' nor '#' *)
Definition safe_sub (safe : text) : bool := forallb (fun c => memN c compile_value_safe) safe.

Lemma Facts_ok_safe_sets :
  safe_sub compile_prefix_safe && safe_sub compile_literal_safe && safe_sub [47]
  && good_safe [47] && forallb (fun c => c <? 128) compile_value_safe
  && negb (memN 37 compile_value_safe) && negb (memN 63 compile_value_safe) && negb (memN 35 compile_value_safe) = true.
Proof. vm_compute. reflexivity. Qed.

Lemma safe_sub_value : safe_sub compile_value_safe = true.
Proof. vm_compute. reflexivity. Qed.

(* ------------------------------------------------------------ generic *)
Lemma encode_app a b : encode (a ++ b) = encode a ++ encode b.
Proof. unfold encode. apply flat_map_app. Qed.

Lemma valid_app a b : forallb valid_scalar (a ++ b) = forallb valid_scalar a && forallb valid_scalar b.
Proof. apply forallb_app. Qed.

Lemma encode_join ts : encode (join [47] ts) = join [47] (map encode ts).
Proof.
  induction ts as [|x r IH]; [reflexivity|].
  destruct r as [|y r]; [reflexivity|].
  change (join [47] (x :: y :: r)) with (x ++ [47] ++ join [47] (y :: r)).
  change (join [47] (map encode (x :: y :: r))) with (encode x ++ [47] ++ join [47] (map encode (y :: r))).
  rewrite !encode_app, IH. reflexivity.
Qed.

Lemma valid_join ts : forallb (forallb valid_scalar) ts = true -> forallb valid_scalar (join [47] ts) = true.
Proof.
  induction ts as [|x r IH]; [reflexivity|]. intros H. simpl in H. apply andb_true_iff in H. destruct H as [Hx Hr].
  destruct r as [|y r]; [exact Hx|].
  change (join [47] (x :: y :: r)) with (x ++ [47] ++ join [47] (y :: r)).
  rewrite !valid_app, Hx, (IH Hr). reflexivity.
Qed.

Lemma map_opt_length {A B} (f : A -> option B) l ys : map_opt f l = Some ys -> length ys = length l.
Proof. intros H. apply map_opt_inv in H. induction H; simpl; congruence. Qed.

(* ------------------------------------------------------------ quoted forms *)
(* [qform u b]: u is a concatenation of urllib-quoted chunks (each under a safe set inside
   PATH_SAFE that does not contain '%') of the byte string b *)
Inductive qformP (P : text -> bool) : text -> text -> Prop :=
| qf_nil : qformP P [] []
| qf_quote safe bs u b :
    good_safe safe = true -> P safe = true -> Forall byte bs -> qformP P u b ->
    qformP P (quote safe bs ++ u) (bs ++ b).

(* [gsafe]: inside PATH_SAFE and containing '/', as every safe set of the generator does; [sform] is
   the quoted form the generator produces, [qform] the weaker one that also covers extra elements
   (PATH_SEGMENT_SAFE has no '/') *)
Definition gsafe (safe : text) : bool := safe_sub safe && memN 47 safe.
Notation qform := (qformP safe_sub).
Notation sform := (qformP gsafe).

Lemma qformP_weaken (P Q : text -> bool) u b : (forall s, P s = true -> Q s = true) -> qformP P u b -> qformP Q u b.
Proof. intros HPQ. induction 1; constructor; auto. Qed.

Lemma sform_qform u b : sform u b -> qform u b.
Proof. apply qformP_weaken. unfold gsafe. intros s H. apply andb_true_iff in H. tauto. Qed.

Lemma qform_one P safe bs : good_safe safe = true -> P safe = true -> Forall byte bs -> qformP P (quote safe bs) bs.
Proof.
  intros. rewrite <- (app_nil_r (quote safe bs)). rewrite <- (app_nil_r bs) at 2.
  apply qf_quote; auto. constructor.
Qed.

Lemma qform_app P u1 b1 u2 b2 : qformP P u1 b1 -> qformP P u2 b2 -> qformP P (u1 ++ u2) (b1 ++ b2).
Proof.
  intros H1 H2. induction H1; [exact H2|]. rewrite <- !app_assoc. apply qf_quote; auto.
Qed.

Lemma gsafe_facts : gsafe compile_prefix_safe && gsafe compile_literal_safe && gsafe compile_value_safe && gsafe [47] = true.
Proof. vm_compute. reflexivity. Qed.

Lemma qform_slash : sform [47] [47].
Proof.
  pose proof Facts_ok_safe_sets as HF. repeat (apply andb_true_iff in HF; destruct HF as [HF ?]).
  pose proof gsafe_facts as HG. repeat (apply andb_true_iff in HG; destruct HG as [HG ?]).
  change [47] with (quote [47] [47]) at 1.
  apply qform_one; auto. repeat constructor.
Qed.

Lemma unquote_quote_app safe bs rest :
  Forall byte bs -> is_safe safe 37 = false -> unquote (quote safe bs ++ rest) = bs ++ unquote rest.
Proof.
  intros Hb H37. induction Hb as [|b r Hb _ IH]; [reflexivity|].
  unfold quote. simpl flat_map. rewrite <- app_assoc. rewrite unquote_quote1 by assumption.
  fold (quote safe r). rewrite IH. reflexivity.
Qed.

Lemma qform_unquote P u b : qformP P u b -> unquote u = b.
Proof.
  induction 1 as [|safe bs u b Hg _ Hb _ IH]; [reflexivity|].
  apply good_safe_spec in Hg. destruct Hg as [_ H37].
  rewrite unquote_quote_app by assumption. rewrite IH. reflexivity.
Qed.

(* the characters a generated path is made of: '%', the always-safe (unreserved) characters --
   the hex digits are among them -- and PATH_SAFE *)
Definition gen_char (c : N) : Prop := c = 37 \/ always_safe c = true \/ In c compile_value_safe.

Lemma hex_always_safe c : is_hex_upper c = true -> always_safe c = true.
Proof. unfold is_hex_upper, always_safe, is_alnum. lia. Qed.

Lemma qform_chars u b : qform u b -> Forall gen_char u.
Proof.
  induction 1 as [|safe bs u b _ Hs Hb _ IH]; [constructor|].
  apply Forall_app. split; [|exact IH].
  apply Forall_forall. intros c Hc.
  destruct (quote_charset safe bs c Hb Hc) as [->|[H|H]]; [left; reflexivity|right; left; apply hex_always_safe; exact H|].
  unfold is_safe in H. apply orb_true_iff in H. destruct H as [H|H]; [right; left; exact H|].
  right; right. apply memN_In in H. unfold safe_sub in Hs. rewrite forallb_forall in Hs.
  apply memN_In. apply Hs. exact H.
Qed.

Lemma gen_char_ascii c : gen_char c -> ascii c.
Proof.
  pose proof Facts_ok_safe_sets as HF. repeat (apply andb_true_iff in HF; destruct HF as [HF ?]).
  intros [->|[H'|H']]; [unfold ascii; lia|apply always_safe_ascii; exact H'|].
  match goal with Hx : forallb (fun c => c <? 128) compile_value_safe = true |- _ => rewrite forallb_forall in Hx; specialize (Hx c H') end.
  unfold ascii. lia.
Qed.

(* no reserved delimiter is produced raw *)
Lemma gen_char_not_delim c : gen_char c -> c <> 63 /\ c <> 35.
Proof.
  pose proof Facts_ok_safe_sets as HF. repeat (apply andb_true_iff in HF; destruct HF as [HF ?]).
  intros [->|[H'|H']]; [split; discriminate| |].
  - split; intros ->; vm_compute in H'; discriminate.
  - split; intros ->; apply memN_In in H'; vm_compute in H'; discriminate.
Qed.

(* ------------------------------------------------------------ what the generator does with one value *)
Lemma gsafe_value : gsafe compile_value_safe = true.
Proof. vm_compute. reflexivity. Qed.

Lemma value_safe_good : good_safe compile_value_safe = true.
Proof. destruct compile_safe_parts as (_ & _ & S3). apply path_safe_ok_parts in S3. tauto. Qed.

Lemma q_value_q v q : q_value v = Ok q ->
  exists t, text_of v = Ok t /\ forallb valid_scalar t = true /\ sform q (encode t).
Proof.
  unfold q_value. intros H. apply qps_ok in H. destruct H as (t & Ht & Hv & ->). exists t.
  split; [assumption|]. split; [assumption|].
  apply qform_one; [apply value_safe_good|apply gsafe_value|apply encode_bytes; assumption].
Qed.

Lemma qform_join qs ts :
  Forall2 (fun q t => sform q (encode t)) qs ts -> sform (join [47] qs) (join [47] (map encode ts)).
Proof.
  induction 1 as [|q t qs' ts' Hq Hr IH]; [constructor|].
  inversion Hr as [|q2 t2 qs2 ts2 Hq2 Hr2]; subst.
  - exact Hq.
  - change (join [47] (q :: q2 :: qs2)) with (q ++ [47] ++ join [47] (q2 :: qs2)).
    change (join [47] (map encode (t :: t2 :: ts2))) with (encode t ++ [47] ++ join [47] (map encode (t2 :: ts2))).
    apply qform_app; [exact Hq|]. apply qform_app; [apply qform_slash|exact IH].
Qed.

(* the quoted text of a value decodes to the UTF-8 of the text the value stands for *)
Lemma gen_value_q b v q : gen_value b v = Ok q ->
  exists t, val_text b v = Some t /\ forallb valid_scalar t = true /\ sform q (encode t).
Proof.
  destruct v as [x|l shown].
  - assert (G : q_value x = Ok q -> exists t, val_text b (KScalar x) = Some t /\ forallb valid_scalar t = true /\ sform q (encode t)).
    { intros H. apply q_value_q in H. destruct H as (t & Ht & Hv & Hq). exists t.
      split; [apply text_of_spec; assumption|auto]. }
    (* bytes are decoded first and quoted as str: the same computation as quoting the bytes *)
    destruct x as [t0|bb|z|k s]; exact G.
  - cbn [gen_value val_text]. destruct b.
    + intros H. apply rbind_ok in H. destruct H as (qs & Hqs & H). inversion H; subst q. clear H. apply mapM_ok in Hqs.
      assert (HH : exists ts, map_opt spec_text l = Some ts /\ forallb (forallb valid_scalar) ts = true
                              /\ Forall2 (fun q t => sform q (encode t)) qs ts).
      { induction Hqs as [|v q l' qs' Hq _ IH].
        - exists []. repeat split; constructor.
        - destruct IH as (ts & I1 & I2 & I3). apply q_value_q in Hq. destruct Hq as (t & Ht & Hv & Hq).
          exists (t :: ts). cbn [map_opt]. rewrite (text_of_spec _ _ Ht Hv), I1.
          split; [reflexivity|]. split; [cbn [forallb]; rewrite Hv, I2; reflexivity|constructor; assumption]. }
      destruct HH as (ts & H1 & H2 & H3). exists (join [47] ts). rewrite H1. cbn [obind].
      split; [reflexivity|]. split; [apply valid_join; assumption|]. rewrite encode_join. apply qform_join. exact H3.
    + intros H. apply q_value_q in H. destruct H as (t & Ht & Hv & Hq). cbn [text_of] in Ht. inversion Ht; subst t.
      exists shown. rewrite Hv. auto.
Qed.

(* newdict has the keys of the supplied dictionary, each with its quoted value *)
Lemma newdict_assoc g kw : forall d, build_newdict g kw = Ok d -> forall n,
  match assoc n kw with
  | None => assoc n d = None
  | Some v => exists q, assoc n d = Some q /\ gen_value (is_star_key g n) v = Ok q
  end.
Proof.
  unfold build_newdict. induction kw as [|[k v] kw IH]; intros d H n.
  - cbn [mapM] in H. inversion H. reflexivity.
  - cbn [mapM] in H. apply rbind_ok in H. destruct H as (y & Hy & H).
    apply rbind_ok in H. destruct H as (ys & Hys & H). inversion H; subst d. clear H.
    cbn [fst snd] in Hy. apply rbind_ok in Hy. destruct Hy as (q & Hq & Hy). inversion Hy; subst y. clear Hy.
    cbn [assoc]. destruct (text_eqb n k) eqn:E.
    + apply text_eqb_eq in E. subst k. exists q. split; [reflexivity|exact Hq].
    + apply IH. exact Hys.
Qed.

Lemma slot_q g kw d n q : build_newdict g kw = Ok d -> assoc n d = Some q ->
  exists t, cap_of (p_star g) kw n = Some t /\ forallb valid_scalar t = true /\ sform q (encode t).
Proof.
  intros Hd Hq. pose proof (newdict_assoc _ _ _ Hd n) as H. unfold cap_of. destruct (assoc n kw) as [v|].
  - destruct H as (q' & H1 & H2). rewrite H1 in Hq. inversion Hq; subst q'. apply gen_value_q in H2. exact H2.
  - congruence.
Qed.

Lemma lit_part_q safe s tp d x : path_safe_ok safe = true -> gsafe safe = true ->
  lit_part safe s = Ok tp -> format_part d tp = Ok x -> forallb valid_scalar s = true /\ sform x (encode s).
Proof.
  intros Hs Hsub H Hf. unfold lit_part in H. apply rbind_ok in H. destruct H as (q & Hq & H). inversion H; subst tp.
  cbn [format_part] in Hf. rewrite undouble_double in Hf. inversion Hf; subst x.
  apply qps_ok in Hq. destruct Hq as (t & Ht & Hv & ->). cbn [text_of] in Ht. inversion Ht; subst t.
  split; [assumption|]. apply path_safe_ok_parts in Hs. destruct Hs as (Hg & _).
  apply qform_one; auto. apply encode_bytes; assumption.
Qed.

Lemma safe_subs : gsafe compile_prefix_safe = true /\ gsafe compile_literal_safe = true.
Proof.
  pose proof gsafe_facts as HF. repeat (apply andb_true_iff in HF; destruct HF as [HF ?]). auto.
Qed.

(* ------------------------------------------------------------ the text a pattern + values stand for (C17 side) *)
Fixpoint holes_text (cap : text -> option text) (hs : list (text * text)) : option text :=
  match hs with
  | [] => Some []
  | h :: r => olet v := cap (fst h) in olet t := holes_text cap r in Some (v ++ snd h ++ t)
  end.

Definition gtext (g : pattern) (kw : list (text * kwval)) : option text :=
  olet h := holes_text (cap_of (p_star g) kw) (p_holes g) in
  olet s := match star_slot g with Some r => cap_of (p_star g) kw r | None => Some [] end in
  Some (p_prefix g ++ h ++ s).

Lemma holes_q g kw d : build_newdict g kw = Ok d -> forall holes hs xs,
  mapM (fun h : text * text =>
          match snd h with
          | [] => Ok [TSlot (fst h)]
          | s => rlet l := lit_part compile_literal_safe s in Ok [TSlot (fst h); l]
          end) holes = Ok hs ->
  Forall2 (fun t x => format_part d t = Ok x) (concat hs) xs ->
  exists t, holes_text (cap_of (p_star g) kw) holes = Some t /\ forallb valid_scalar t = true
            /\ sform (concat xs) (encode t).
Proof.
  destruct compile_safe_parts as (_ & S2 & _). destruct safe_subs as (_ & B2).
  intros Hd. induction holes as [|[n l] holes IH]; intros hs xs Hm Hf.
  - cbn [mapM] in Hm. inversion Hm; subst hs. cbn [concat] in Hf. inversion Hf; subst xs.
    exists []. repeat split; constructor.
  - cbn [mapM] in Hm. apply rbind_ok in Hm. destruct Hm as (y & Hy & Hm).
    apply rbind_ok in Hm. destruct Hm as (ys & Hys & Hm). inversion Hm; subst hs. clear Hm.
    cbn [concat] in Hf. apply Forall2_app_inv_l in Hf. destruct Hf as (x1 & x2 & F1 & F2 & ->).
    destruct (IH _ _ Hys F2) as (t2 & T1 & T2 & T3).
    cbn [snd fst] in Hy. destruct l as [|c l].
    + inversion Hy; subst y. inversion F1 as [|? q ? ? Fq Fr]; subst. inversion Fr; subst.
      cbn [format_part] in Fq. destruct (assoc n d) as [q'|] eqn:Ea; [|discriminate]. inversion Fq; subst q'.
      destruct (slot_q _ _ _ _ _ Hd Ea) as (t & C1 & C2 & C3).
      exists (t ++ [] ++ t2). cbn [holes_text fst snd]. rewrite C1, T1. cbn [obind].
      split; [reflexivity|]. split; [rewrite !valid_app, C2, T2; reflexivity|].
      cbn [concat app]. rewrite encode_app. apply qform_app; assumption.
    + apply rbind_ok in Hy. destruct Hy as (lp & Hlp & Hy). inversion Hy; subst y.
      inversion F1 as [|? q ? ? Fq Fr]; subst. inversion Fr as [|? ql ? ? Fl Fr2]; subst. inversion Fr2; subst.
      cbn [format_part] in Fq. destruct (assoc n d) as [q'|] eqn:Ea; [|discriminate]. inversion Fq; subst q'.
      destruct (slot_q _ _ _ _ _ Hd Ea) as (t & C1 & C2 & C3).
      destruct (lit_part_q _ _ _ _ _ S2 B2 Hlp Fl) as (L1 & L2).
      exists (t ++ (c :: l) ++ t2). cbn [holes_text fst snd]. rewrite C1, T1. cbn [obind].
      split; [reflexivity|]. split; [rewrite !valid_app, C2, L1, T2; reflexivity|].
      cbn [concat]. rewrite !encode_app. apply qform_app; [assumption|]. apply qform_app; assumption.
Qed.

(* Route.generate: the produced path is a quoted form of the UTF-8 of the pattern text with the
   values in place *)
Theorem generate_q g kw u : generate g kw = Ok u ->
  exists t, gtext g kw = Some t /\ forallb valid_scalar t = true /\ sform u (encode t).
Proof.
  destruct compile_safe_parts as (S1 & _ & _). destruct safe_subs as (B1 & _).
  unfold generate. intros H. apply rbind_ok in H. destruct H as (tpl & Htpl & H).
  apply rbind_ok in H. destruct H as (d & Hd & H). apply rbind_ok in H. destruct H as (parts & Hparts & H).
  inversion H; subst u. clear H.
  unfold gen_template in Htpl. apply rbind_ok in Htpl. destruct Htpl as (pre & Hpre & Htpl).
  apply rbind_ok in Htpl. destruct Htpl as (hs & Hhs & Htpl). inversion Htpl; subst tpl. clear Htpl.
  apply mapM_ok in Hparts. inversion Hparts as [|? x0 ? rest F0 Fr]; subst.
  apply Forall2_app_inv_l in Fr. destruct Fr as (x1 & x2 & F1 & F2 & ->).
  destruct (lit_part_q _ _ _ _ _ S1 B1 Hpre F0) as (P1 & P2).
  destruct (holes_q _ _ _ Hd _ _ _ Hhs F1) as (th & H1 & H2 & H3).
  unfold gtext. rewrite H1. cbn [obind].
  destruct (star_slot g) as [r|] eqn:Es.
  - inversion F2 as [|? q ? ? Fq Fr]; subst. inversion Fr; subst.
    cbn [format_part] in Fq. destruct (assoc r d) as [q'|] eqn:Ea; [|discriminate]. inversion Fq; subst q'.
    destruct (slot_q _ _ _ _ _ Hd Ea) as (t & C1 & C2 & C3).
    exists (p_prefix g ++ th ++ t). rewrite C1. cbn [obind]. split; [reflexivity|].
    split; [rewrite !valid_app, P1, H2, C2; reflexivity|].
    cbn [concat]. rewrite concat_app. cbn [concat]. rewrite app_nil_r, !encode_app.
    apply qform_app; [assumption|]. apply qform_app; assumption.
  - inversion F2; subst. exists (p_prefix g ++ th ++ []). split; [reflexivity|].
    split; [rewrite !valid_app, P1, H2; reflexivity|].
    cbn [concat]. rewrite concat_app. cbn [concat]. rewrite !app_nil_r, encode_app.
    apply qform_app; assumption.
Qed.

(* ------------------------------------------------------------ translation C01.pat -> C17.pattern *)
Lemma names_lit l r : C01.hole_names (C01.Lit l :: r) = C01.hole_names r.
Proof. reflexivity. Qed.
Lemma names_hole n h r : C01.hole_names (C01.Hole n h :: r) = n :: C01.hole_names r.
Proof. reflexivity. Qed.

Lemma render_app its : forall hc sc, length hc = length (C01.hole_names its) ->
  C01.render its (hc ++ sc) = C01.render its hc ++ C01.render [] sc.
Proof.
  induction its as [|[l|n h] r IH]; intros hc sc Hl.
  - destruct hc; [reflexivity|discriminate].
  - rewrite names_lit in Hl. cbn [C01.render]. rewrite IH by exact Hl. apply app_assoc.
  - rewrite names_hole in Hl. destruct hc as [|v hc]; [discriminate|]. cbn [C01.render app].
    rewrite IH by (simpl in Hl; congruence). apply app_assoc.
Qed.

Lemma to_holes_text cap its : forall n lit,
  holes_text cap (to_holes n lit its) =
  olet v := cap n in olet hc := map_opt cap (C01.hole_names its) in Some (v ++ lit ++ C01.render its hc).
Proof.
  induction its as [|[l|m h] r IH]; intros n lit.
  - cbn. destruct (cap n); reflexivity.
  - cbn [to_holes]. rewrite IH, names_lit. cbn [C01.render].
    destruct (cap n); [|reflexivity]. cbn [obind]. destruct (map_opt cap (C01.hole_names r)); [|reflexivity].
    cbn [obind]. rewrite <- app_assoc. reflexivity.
  - cbn [to_holes holes_text fst snd]. rewrite IH, names_hole. cbn [map_opt].
    destruct (cap n); [|reflexivity]. cbn [obind]. destruct (cap m); [|reflexivity]. cbn [obind].
    destruct (map_opt cap (C01.hole_names r)); reflexivity.
Qed.

Lemma to_prefix_text cap its : forall pre,
  (let '(pre', hs) := to_prefix pre its in olet h := holes_text cap hs in Some (pre' ++ h)) =
  olet hc := map_opt cap (C01.hole_names its) in Some (pre ++ C01.render its hc).
Proof.
  induction its as [|[l|m h] r IH]; intros pre.
  - reflexivity.
  - cbn [to_prefix]. rewrite IH, names_lit. cbn [C01.render].
    destruct (map_opt cap (C01.hole_names r)); [|reflexivity]. cbn [obind]. rewrite <- app_assoc. reflexivity.
  - cbn [to_prefix]. rewrite to_holes_text, names_hole. cbn [map_opt].
    destruct (cap m); [|reflexivity]. cbn [obind]. destruct (map_opt cap (C01.hole_names r)); reflexivity.
Qed.

(* the text C17's pattern stands for is C01's rendering of the same pattern with the captures the
   values stand for: both halves of _compile_route describe the same set of paths *)
Theorem gtext_to_pattern p kw :
  gtext (to_pattern p) kw = olet caps := kw_caps p kw in Some (C01.render (C01.items p) caps).
Proof.
  unfold to_pattern, kw_caps.
  pose proof (to_prefix_text (cap_of (C01.star p) kw) (C01.items p) []) as Q.
  destruct (to_prefix [] (C01.items p)) as [pre hs]. unfold gtext. cbn [p_star p_holes p_prefix].
  destruct (map_opt (cap_of (C01.star p) kw) (C01.hole_names (C01.items p))) as [hc|] eqn:Eh;
    destruct (holes_text (cap_of (C01.star p) kw) hs) as [ht|]; cbn [obind] in *; try discriminate; [|reflexivity].
  inversion Q as [Q']. cbn [app] in Q'. apply map_opt_length in Eh.
  unfold star_slot. cbn [p_star].
  destruct (C01.star p) as [[|c r]|]; cbn [obind].
  - rewrite render_app by exact Eh. cbn [C01.render]. rewrite <- Q', <- app_assoc. reflexivity.
  - match goal with |- context [cap_of ?a kw ?b] => destruct (cap_of a kw b) end; cbn [obind]; [|reflexivity].
    rewrite render_app by exact Eh. cbn [C01.render]. rewrite <- Q', <- app_assoc. reflexivity.
  - rewrite render_app by exact Eh. cbn [C01.render]. rewrite <- Q', <- app_assoc. reflexivity.
Qed.

(* ------------------------------------------------------------ generate: decoding, characters, literals *)
Lemma unquote_nil u : unquote u = [] -> u = [].
Proof.
  destruct u as [|c r]; [reflexivity|]. cbn [unquote].
  destruct (c =? 37); [|discriminate].
  destruct r as [|h [|l r2]]; try discriminate. destruct (hexval h); destruct (hexval l); discriminate.
Qed.

Theorem generate_decodes p kw u : generate (to_pattern p) kw = Ok u ->
  exists caps, kw_caps p kw = Some caps
    /\ forallb valid_scalar (C01.render (C01.items p) caps) = true
    /\ qform u (encode (C01.render (C01.items p) caps))
    /\ unquote u = encode (C01.render (C01.items p) caps)
    /\ Utf8.decode (unquote u) = Some (C01.render (C01.items p) caps).
Proof.
  intros H. apply generate_q in H. destruct H as (t & Hg & Hv & Hq). apply sform_qform in Hq. rewrite gtext_to_pattern in Hg.
  destruct (kw_caps p kw) as [caps|]; [|discriminate]. cbn [obind] in Hg. inversion Hg; subst t. exists caps.
  pose proof (qform_unquote _ _ _ Hq) as Hu. repeat split; auto. rewrite Hu. apply decode_encode; assumption.
Qed.

Theorem generate_ascii g kw u : generate g kw = Ok u ->
  Forall gen_char u /\ Forall ascii u /\ ~ In 63 u /\ ~ In 35 u.
Proof.
  intros H. apply generate_q in H. destruct H as (t & _ & _ & Hq). apply sform_qform in Hq. apply qform_chars in Hq.
  split; [exact Hq|]. rewrite Forall_forall in Hq. split; [|split].
  - apply Forall_forall. intros c Hc. apply gen_char_ascii. auto.
  - intros Hc. destruct (gen_char_not_delim _ (Hq _ Hc)). congruence.
  - intros Hc. destruct (gen_char_not_delim _ (Hq _ Hc)). congruence.
Qed.

Inductive in_order : list text -> text -> Prop :=
| io_nil s : in_order [] s
| io_cons l ls a b : in_order ls b -> in_order (l :: ls) (a ++ l ++ b).

Definition lits (its : list C01.item) : list text :=
  flat_map (fun i => match i with C01.Lit l => [l] | C01.Hole _ _ => [] end) its.

Lemma in_order_prefix ls a b : in_order ls b -> in_order ls (a ++ b).
Proof.
  intros H. inversion H as [|l ls' a0 b0 H0]; subst; [constructor|].
  rewrite app_assoc. constructor. exact H0.
Qed.

Lemma render_in_order its : forall caps, in_order (map encode (lits its)) (encode (C01.render its caps)).
Proof.
  induction its as [|[l|n h] r IH]; intros caps.
  - constructor.
  - cbn [C01.render]. rewrite encode_app. change (lits (C01.Lit l :: r)) with (l :: lits r). cbn [map].
    apply (io_cons (encode l) (map encode (lits r)) [] _). apply IH.
  - change (lits (C01.Hole n h :: r)) with (lits r). cbn [C01.render]. destruct caps as [|v c]; [apply IH|].
    rewrite encode_app. apply in_order_prefix. apply IH.
Qed.

Theorem generate_keeps_literals p kw u : generate (to_pattern p) kw = Ok u ->
  in_order (map encode (lits (C01.items p))) (unquote u).
Proof.
  intros H. destruct (generate_decodes _ _ _ H) as (caps & _ & _ & _ & Hu & _). rewrite Hu. apply render_in_order.
Qed.

(* ------------------------------------------------------------ uniqueness of the decomposition *)
Theorem sep_val_unique O st its : forall caps caps',
  sep_val O st its caps = true -> C01.caps_ok O st its caps = true -> C01.caps_ok O st its caps' = true ->
  C01.render its caps = C01.render its caps' -> caps = caps'.
Proof.
  induction its as [|[l|n h] r IH]; intros caps caps' Hs H1 H2 Hr.
  - cbn [C01.caps_ok C01.render] in *.
    destruct st; destruct caps as [|v [|]]; destruct caps' as [|v' [|]]; try discriminate; congruence.
  - cbn [sep_val C01.caps_ok C01.render] in *. apply app_inv_head in Hr. eauto.
  - cbn [sep_val C01.caps_ok C01.render] in Hs, H1, H2, Hr.
    destruct caps as [|v c1]; [discriminate|]. destruct caps' as [|v' c1']; [discriminate|].
    apply andb_true_iff in Hs. destruct Hs as [Hc Hs]. apply andb_true_iff in H1. destruct H1 as [Hv H1].
    apply andb_true_iff in H2. destruct H2 as [Hv' H2].
    assert (E : v = v').
    { destruct r as [|[[|c l]|m h2] r']; try discriminate.
      - destruct st; [discriminate|]. cbn [C01.caps_ok] in H1, H2. destruct c1; [|discriminate]. destruct c1'; [|discriminate].
        cbn [C01.render] in Hr. rewrite !app_nil_r in Hr. exact Hr.
      - apply orb_true_iff in Hc. destruct Hc as [Hf|Hc].
        + unfold final_lit in Hf. destruct r'; [|discriminate]. destruct st; [discriminate|].
          cbn [C01.caps_ok] in H1, H2. destruct c1; [|discriminate]. destruct c1'; [|discriminate].
          eapply app_inv_tail. exact Hr.
        + apply andb_true_iff in Hc. destruct Hc as [Hnv Hc]. apply negb_true_iff in Hnv.
          cbn [C01.render] in Hr. apply app_eq_app in Hr. destruct Hr as (w & [[E1 E2]|[E1 E2]]).
          * destruct w as [|x w]; [rewrite app_nil_r in E1; exact E1|]. exfalso.
            cbn [app] in E2. inversion E2; subst x.
            assert (Hin : In c v) by (rewrite E1; apply in_or_app; right; left; reflexivity).
            apply memN_In in Hin. congruence.
          * destruct w as [|x w]; [rewrite app_nil_r in E1; symmetry; exact E1|]. exfalso.
            cbn [app] in E2. inversion E2 as [[Ex E3]]. subst x.
            apply orb_true_iff in Hc. destruct Hc as [Hc|Hc]; apply negb_true_iff in Hc.
            -- unfold C01.hole_ok in Hv'. apply andb_true_iff in Hv'. destruct Hv' as [_ Hall].
               rewrite forallb_forall in Hall.
               assert (Hin : In c v') by (rewrite E1; apply in_or_app; right; left; reflexivity).
               rewrite (Hall _ Hin) in Hc. discriminate.
            -- assert (Hin : In c (l ++ C01.render r' c1)) by (rewrite E3; apply in_or_app; right; left; reflexivity).
               apply memN_In in Hin. congruence. }
    subst v'. apply app_inv_head in Hr. f_equal. eapply IH; eauto.
Qed.

(* a pattern whose separators can never occur inside the preceding placeholder is separable for
   every admissible assignment of values *)
Theorem separable_sep_val O st its : forall caps,
  separable O st its = true -> C01.caps_ok O st its caps = true -> sep_val O st its caps = true.
Proof.
  induction its as [|[l|n h] r IH]; intros caps Hs Hc.
  - reflexivity.
  - cbn [separable sep_val C01.caps_ok] in *. eauto.
  - cbn [separable sep_val C01.caps_ok] in *. destruct caps as [|v c1]; [discriminate|].
    apply andb_true_iff in Hs. destruct Hs as [Hs1 Hs2]. apply andb_true_iff in Hc. destruct Hc as [Hv Hc].
    rewrite (IH _ Hs2 Hc), andb_true_r.
    destruct r as [|[[|c l]|m h2] r']; try exact Hs1.
    apply orb_true_iff in Hs1. destruct Hs1 as [->|Hn]; [reflexivity|].
    apply orb_true_iff. right. rewrite Hn. cbn [orb]. rewrite andb_true_r.
    destruct (memN c v) eqn:E; [|reflexivity]. apply memN_In in E.
    unfold C01.hole_ok in Hv. apply andb_true_iff in Hv. destruct Hv as [_ Hall]. rewrite forallb_forall in Hall.
    rewrite (Hall _ E) in Hn. discriminate.
Qed.

(* ------------------------------------------------------------ the round trip *)
Theorem route_roundtrip_normalising O p kw u caps :
  generate (to_pattern p) kw = Ok u -> u <> [] -> kw_caps p kw = Some caps ->
  C01.caps_ok O (C01.star p) (C01.items p) caps = true ->
  sep_val O (C01.star p) (C01.items p) caps = true ->
  match_back O p (unquote u) = Some (C01.mk_dict (C01.items p) (C01.star p) caps).
Proof.
  intros Hg Hne Hk Hc Hs. destruct (generate_decodes _ _ _ Hg) as (caps' & Hk' & Hv & Hq & Hu & Hd).
  rewrite Hk in Hk'. inversion Hk'; subst caps'. clear Hk'.
  unfold match_back, C01.request_path. rewrite Hd.
  destruct (C01.render (C01.items p) caps) as [|x s'] eqn:Er.
  { exfalso. apply Hne. apply unquote_nil. rewrite Hu. reflexivity. }
  rewrite <- Er. rewrite C01.match_spec. unfold C01.spec_match.
  destruct (C01.all_decs O (C01.star p) (C01.items p) (C01.render (C01.items p) caps)) as [|caps1 rest] eqn:Ea.
  - exfalso. assert (Hin : In caps []) by (rewrite <- Ea; apply C01.all_decs_char; split; [reflexivity|assumption]).
    contradiction.
  - assert (Hin : In caps1 (caps1 :: rest)) by (left; reflexivity). rewrite <- Ea in Hin.
    apply C01.all_decs_char in Hin. destruct Hin as [E C1]. f_equal. f_equal. symmetry.
    eapply sep_val_unique; eauto.
Qed.

(* the declarative dictionary is the one built from the captures *)
Lemma spec_hole_dict_mk cap its : forall hc sc st, map_opt cap (C01.hole_names its) = Some hc ->
  exists hd, spec_hole_dict cap its = Some hd /\ C01.mk_dict its st (hc ++ sc) = hd ++ C01.mk_dict [] st sc.
Proof.
  induction its as [|[l|n h] r IH]; intros hc sc st Hm.
  - cbn in Hm. inversion Hm; subst hc. exists []. split; reflexivity.
  - rewrite names_lit in Hm. cbn [spec_hole_dict C01.mk_dict]. eauto.
  - rewrite names_hole in Hm. cbn [map_opt] in Hm. destruct (cap n) as [v|] eqn:Ec; [|discriminate].
    destruct (map_opt cap (C01.hole_names r)) as [hc'|] eqn:Em; [|discriminate]. inversion Hm; subst hc.
    destruct (IH hc' sc st eq_refl) as (hd & H1 & H2). exists ((n, C01.MText v) :: hd).
    cbn [spec_hole_dict]. rewrite Ec, H1. cbn [obind]. split; [reflexivity|].
    cbn [app C01.mk_dict]. rewrite H2. reflexivity.
Qed.

Lemma star_segs_spec v t : val_text true v = Some t -> star_segs v = Some (split_path_info t).
Proof.
  destruct v as [x|l shown]; cbn [val_text star_segs].
  - intros ->. reflexivity.
  - destruct (map_opt spec_text l) as [ts|]; [|discriminate]. cbn [obind]. intros H. inversion H; subst t.
    destruct (forallb normal_segb ts) eqn:E; [|reflexivity].
    f_equal. symmetry. apply spi_normal_id. apply Forall_forall. intros s Hs.
    rewrite forallb_forall in E. apply normal_segb_spec. auto.
Qed.

Theorem spec_dict_mk p kw caps : kw_caps p kw = Some caps ->
  spec_dict p kw = Some (C01.mk_dict (C01.items p) (C01.star p) caps).
Proof.
  unfold kw_caps, spec_dict.
  destruct (map_opt (cap_of (C01.star p) kw) (C01.hole_names (C01.items p))) as [hc|] eqn:Eh; [|discriminate].
  cbn [obind]. intros H.
  destruct (C01.star p) as [[|c r]|] eqn:Es.
  - cbn [obind] in H. inversion H; subst caps.
    destruct (spec_hole_dict_mk _ _ hc [[]] (@Some text []) Eh) as (hd & H1 & H2). rewrite H1. cbn [obind]. f_equal. symmetry. exact H2.
  - unfold cap_of in H at 1. destruct (assoc (c :: r) kw) as [v|] eqn:Ea; [|discriminate].
    rewrite text_eqb_refl in H. destruct (val_text true v) as [t|] eqn:Et; [|discriminate].
    cbn [obind] in H. inversion H; subst caps.
    destruct (spec_hole_dict_mk _ _ hc [t] (@Some text (c :: r)) Eh) as (hd & H1 & H2). rewrite H1.
    cbn [obind]. rewrite (star_segs_spec _ _ Et). cbn [obind]. f_equal. symmetry. exact H2.
  - cbn [obind] in H. inversion H; subst caps.
    destruct (spec_hole_dict_mk _ _ hc [] (@None text) Eh) as (hd & H1 & H2). rewrite H1. cbn [obind]. f_equal. symmetry. exact H2.
Qed.

(* central theorem: generating a path for admissible values of a separable pattern and matching the
   server-decoded path with the same pattern yields the supplied values *)
Theorem route_roundtrip O p kw u caps :
  generate (to_pattern p) kw = Ok u -> u <> [] -> kw_caps p kw = Some caps ->
  C01.caps_ok O (C01.star p) (C01.items p) caps = true ->
  sep_val O (C01.star p) (C01.items p) caps = true ->
  exists d, spec_dict p kw = Some d /\ roundtrip O p kw = Some d.
Proof.
  intros Hg Hne Hk Hc Hs. exists (C01.mk_dict (C01.items p) (C01.star p) caps).
  split; [apply spec_dict_mk; assumption|]. unfold roundtrip. rewrite Hg.
  eapply route_roundtrip_normalising; eauto.
Qed.

(* pattern-level form: no condition on the values beyond lying in the placeholders' languages *)
Corollary route_roundtrip_separable O p kw u caps :
  generate (to_pattern p) kw = Ok u -> u <> [] -> kw_caps p kw = Some caps ->
  C01.caps_ok O (C01.star p) (C01.items p) caps = true ->
  separable O (C01.star p) (C01.items p) = true ->
  exists d, spec_dict p kw = Some d /\ roundtrip O p kw = Some d.
Proof.
  intros Hg Hne Hk Hc Hs. eapply route_roundtrip; eauto. apply separable_sep_val; assumption.
Qed.

(* the remainder given as a sequence of normal segments comes back as that sequence *)
Lemma star_segs_normal l shown ts :
  map_opt spec_text l = Some ts -> Forall normal_seg ts -> star_segs (KSeq l shown) = Some ts.
Proof.
  intros Hm Hn. cbn [star_segs]. rewrite Hm. cbn [obind].
  assert (E : forallb normal_segb ts = true).
  { apply forallb_forall. intros s Hs. apply normal_segb_spec. rewrite Forall_forall in Hn. auto. }
  rewrite E. reflexivity.
Qed.

(* ... and anything else is what split_path_info makes of the joined text *)
Lemma star_segs_normalising v t : val_text true v = Some t -> star_segs v = Some (split_path_info t).
Proof. apply star_segs_spec. Qed.

(* ------------------------------------------------------------ a placeholder without a value *)
Definition slot_names (p : C01.pat) : list text :=
  C01.hole_names (C01.items p) ++ match C01.star p with Some (c :: r) => [c :: r] | _ => [] end.

Lemma format_parts_cases d tpl : Forall lit_ok tpl ->
  (exists parts, mapM (format_part d) tpl = Ok parts) \/ mapM (format_part d) tpl = Err EKey.
Proof.
  induction 1 as [|t r Ht _ IH]; [left; exists []; reflexivity|].
  cbn [mapM]. destruct t as [s|n].
  - destruct Ht as (q & -> & _). cbn [format_part]. rewrite undouble_double. cbn [rbind].
    destruct IH as [(parts & ->)| ->]; [left; eexists; reflexivity|right; reflexivity].
  - cbn [format_part]. destruct (assoc n d); cbn [rbind]; [|right; reflexivity].
    destruct IH as [(parts & ->)| ->]; [left; eexists; reflexivity|right; reflexivity].
Qed.

Lemma Forall2_in_l {A B} (R : A -> B -> Prop) l l' x : Forall2 R l l' -> In x l -> exists y, R x y.
Proof. induction 1; intros Hin; [contradiction|]. destruct Hin as [<-|Hin]; eauto. Qed.

Theorem generate_missing_key p kw n tpl d :
  In n (slot_names p) -> assoc n kw = None ->
  gen_template (to_pattern p) = Ok tpl -> build_newdict (to_pattern p) kw = Ok d ->
  generate (to_pattern p) kw = Err EKey.
Proof.
  intros Hin Hn Ht Hd.
  destruct (format_parts_cases d tpl (gen_template_ok _ _ Ht)) as [(parts & Hp)|He].
  - exfalso.
    assert (Hg : generate (to_pattern p) kw = Ok (concat parts))
      by (unfold generate; rewrite Ht, Hd; cbn [rbind]; rewrite Hp; reflexivity).
    destruct (generate_decodes _ _ _ Hg) as (caps & Hk & _). unfold kw_caps in Hk.
    destruct (map_opt (cap_of (C01.star p) kw) (C01.hole_names (C01.items p))) as [hc|] eqn:Em; [|discriminate].
    cbn [obind] in Hk. unfold slot_names in Hin. apply in_app_or in Hin. destruct Hin as [Hin|Hin].
    + apply map_opt_inv in Em. destruct (Forall2_in_l _ _ _ _ Em Hin) as (y & Hy).
      unfold cap_of in Hy. rewrite Hn in Hy. discriminate.
    + destruct (C01.star p) as [[|c r]|]; try contradiction. destruct Hin as [<-|[]].
      unfold cap_of in Hk at 1. rewrite Hn in Hk. discriminate.
  - unfold generate. rewrite Ht, Hd. cbn [rbind]. rewrite He. reflexivity.
Qed.

(* the converse: a successful generation had a value for every placeholder *)
Theorem generate_ok_all_keys p kw u n :
  generate (to_pattern p) kw = Ok u -> In n (slot_names p) -> assoc n kw <> None.
Proof.
  intros Hg Hin Hn. destruct (generate_decodes _ _ _ Hg) as (caps & Hk & _). unfold kw_caps in Hk.
  destruct (map_opt (cap_of (C01.star p) kw) (C01.hole_names (C01.items p))) as [hc|] eqn:Em; [|discriminate].
  cbn [obind] in Hk. unfold slot_names in Hin. apply in_app_or in Hin. destruct Hin as [Hin|Hin].
  - apply map_opt_inv in Em. destruct (Forall2_in_l _ _ _ _ Em Hin) as (y & Hy).
    unfold cap_of in Hy. rewrite Hn in Hy. discriminate.
  - destruct (C01.star p) as [[|c r]|]; try contradiction. destruct Hin as [<-|[]].
    unfold cap_of in Hk at 1. rewrite Hn in Hk. discriminate.
Qed.

(* ------------------------------------------------------------ route_url / route_path around generate *)
Theorem route_url_prefix O ds e name els o kw u :
  o_app_url o = None -> route_url [] e (gen_routes O ds) name els o kw = Ok u ->
  exists p, route_path [] e (gen_routes O ds) name els o kw = Ok p /\ u = host_part e o ++ p.
Proof. apply route_path_is_url_minus_authority. Qed.

Lemma encode_nil_inv t : encode t = [] -> t = [].
Proof.
  destruct t as [|c r]; [reflexivity|]. unfold encode. cbn [flat_map]. unfold encode1.
  destruct (c <? 128); [discriminate|]. destruct (c <? 2048); [discriminate|]. destruct (c <? 65536); discriminate.
Qed.

Lemma quoted_script_form e qs : quoted_script_name e = Ok qs ->
  forallb valid_scalar (e_script e) = true /\ qs = quote script_name_safe (encode (e_script e)).
Proof.
  unfold quoted_script_name. intros H. apply rbind_ok in H. destruct H as (b & Hb & H).
  apply utf8_enc_ok in Hb. destruct Hb as [Hv ->]. unfold url_quote in H. cbn [to_bytes rbind] in H.
  inversion H. auto.
Qed.

(* the mount point is cut off exactly: what remains of the decoded path is the decoded generated path *)
Theorem script_name_cut e qs g :
  quoted_script_name e = Ok qs -> Forall ascii g ->
  wsgi_path_info (e_script e) (qs ++ g) = Some (unquote g).
Proof.
  intros Hq Hg. destruct (quoted_script_form _ _ Hq) as [Hv ->].
  pose proof Facts_ok_script_name_safe as HF. apply path_safe_ok_parts in HF. destruct HF as (Hgs & _).
  apply good_safe_spec in Hgs. destruct Hgs as [Ha H37].
  pose proof (encode_bytes _ Hv) as Hb.
  unfold wsgi_path_info. rewrite text_bytes_ascii.
  - rewrite unquote_quote_app by assumption. apply strip_prefix_spec. reflexivity.
  - apply Forall_app. split; [apply quote_ascii; assumption|assumption].
Qed.

(* the whole way for the path form: urlsplit's cut into path / query / fragment, the server's
   cut into SCRIPT_NAME / PATH_INFO, the route's matcher *)
Theorem route_path_way_back O p e rs n o kw P caps :
  Verif.Proofs.C17.wf_query (o_query o) -> Verif.Proofs.C17.wf_anchor (o_anchor o) ->
  assoc n rs = Some (to_pattern p) ->
  route_path [] e rs n [] o kw = Ok P ->
  kw_caps p kw = Some caps -> C01.render (C01.items p) caps <> [] ->
  C01.caps_ok O (C01.star p) (C01.items p) caps = true ->
  sep_val O (C01.star p) (C01.items p) caps = true ->
  exists base qt f pi,
    cut_ref P = (base, qt, f)
    /\ wsgi_path_info (e_script e) base = Some pi
    /\ match_back O p pi = Some (C01.mk_dict (C01.items p) (C01.star p) caps).
Proof.
  intros Hwq Hwa Ha H Hk Hne Hc Hs.
  unfold route_path, path_app_url in H. rewrite Facts_ok_route_path in H.
  apply rbind_ok in H. destruct H as (qs & Hqs & H).
  unfold route_url in H. rewrite Ha in H. rewrite parse_url_overrides_eq in H.
  apply rbind_ok in H. destruct H as ([[app q0] fr0] & H0 & H).
  apply rbind_ok in H0. destruct H0 as (app' & Happ & H0). apply rbind_ok in H0. destruct H0 as ([q1 fr1] & Ht & H0).
  inversion H0; subst. clear H0. cbn [fst snd] in H.
  unfold parse_app in Happ. cbn [set_app_url o_app_url] in Happ. inversion Happ; subst app. clear Happ.
  unfold tail_parts in Ht. cbn [set_app_url o_query o_anchor] in Ht.
  apply rbind_ok in Ht. destruct Ht as (q2 & Hq2 & Ht). apply rbind_ok in Ht. destruct Ht as (fr2 & Hfr & Ht).
  inversion Ht; subst. clear Ht.
  apply rbind_ok in H. destruct H as (g & Hg & H). cbn [rbind] in H. inversion H; subst P. clear H.
  destruct (query_string_spec _ _ Hwq Hq2) as (qt & Q1 & Q2 & _ & _).
  destruct (fragment_spec _ _ Hwa Hfr) as (f & F1 & _ & _).
  destruct (generate_ascii _ _ _ Hg) as (_ & Gascii & G63 & G35).
  destruct (pc_no_delims _ (quoted_script_chars _ _ Hqs)) as [S63 S35].
  exists (qs ++ g), qt, f, (unquote g). split; [|split].
  - replace (qs ++ g ++ q0 ++ fr0) with ((qs ++ g) ++ q0 ++ fr0) by (rewrite <- app_assoc; reflexivity).
    apply cut_ref_generated; auto; rewrite in_app_iff; tauto.
  - apply script_name_cut; assumption.
  - eapply route_roundtrip_normalising; eauto.
    intros ->. destruct (generate_decodes _ _ _ Hg) as (caps' & Hk' & _ & _ & Hu & _).
    rewrite Hk in Hk'. inversion Hk'; subst caps'. cbn [unquote] in Hu. symmetry in Hu.
    apply encode_nil_inv in Hu. contradiction.
Qed.

(* ------------------------------------------------------------ non-vacuity *)
Definition ex_src : text := [47; 97; 32; 98; 47; 123; 120; 125; 47; 37; 47; 42; 114; 101; 115; 116].   (* "/a b/{x}/%/*rest" *)
Definition ex_kw : list (text * kwval) :=
  [([114; 101; 115; 116], KSeq [PStr [112; 32; 113]; PInt 7] [40; 39; 112; 32; 113; 39; 44; 32; 55; 41]);   (* rest=('p q', 7) *)
   ([120], KScalar (PStr [233; 32; 37]))].                                                                    (* x='e-acute %' *)

Example route_roundtrip_example :
  match C01.parse_pattern C01.no_oracle ex_src with
  | C01.Ok p =>
      generate (to_pattern p) ex_kw
        = Ok [47; 97; 37; 50; 48; 98; 47; 37; 67; 51; 37; 65; 57; 37; 50; 48; 37; 50; 53; 47; 37; 50; 53; 47; 112; 37; 50; 48; 113; 47; 55]
      (* /a%20b/%C3%A9%20%25/%25/p%20q/7 *)
      /\ (exists caps, kw_caps p ex_kw = Some caps
                       /\ C01.caps_ok C01.no_oracle (C01.star p) (C01.items p) caps = true
                       /\ sep_val C01.no_oracle (C01.star p) (C01.items p) caps = true)
      /\ separable C01.no_oracle (C01.star p) (C01.items p) = true
      /\ roundtrip C01.no_oracle p ex_kw
         = Some [([120], C01.MText [233; 32; 37]); ([114; 101; 115; 116], C01.MSegs [[112; 32; 113]; [55]])]
  | _ => False
  end.
Proof. vm_compute. split; [reflexivity|]. split; [eexists; repeat split; reflexivity|]. split; reflexivity. Qed.

(* without separability the statement is false: '/{x}-{y}' with x='a', y='b-c' comes back as x='a-b', y='c'
   (greedy matching); this is the boundary the hypothesis [sep_val] draws *)
Example not_separable_example :
  match C01.parse_pattern C01.no_oracle [47; 123; 120; 125; 45; 123; 121; 125] with
  | C01.Ok p =>
      let kw := [([120], KScalar (PStr [97])); ([121], KScalar (PStr [98; 45; 99]))] in
      (exists caps, kw_caps p kw = Some caps /\ C01.caps_ok C01.no_oracle (C01.star p) (C01.items p) caps = true
                    /\ sep_val C01.no_oracle (C01.star p) (C01.items p) caps = false)
      /\ roundtrip C01.no_oracle p kw = Some [([120], C01.MText [97; 45; 98]); ([121], C01.MText [99])]
  | _ => False
  end.
Proof. vm_compute. split; [eexists; repeat split; reflexivity|reflexivity]. Qed.
