(* C13 part (b), translated router functions: generated = reference (for every value of the leaves), reference
   instantiated with the interpreter's leaves = the hand-written pipeline model, hence generated = model.
   The scripts of the gen_*_is_ref lemmas never mention the generated text. *)
From Coq Require Import List NArith ZArith Bool Arith Lia.
Import ListNotations.
Require Import Verif.Lib.Wire Verif.Lib.C13Bracket Verif.Gen.Facts_C13 Verif.Model.C13 Verif.Proofs.C13_b Verif.Proofs.C13_c.
Local Open Scope N_scope.

Lemma while_ext t1 t2 b1 b2 :
  (forall s, t1 s = t2 s) -> (forall s, b1 s = b2 s) ->
  forall f s, while_ f t1 b1 s = while_ f t2 b2 s.
Proof.
  intros Ht Hb f. induction f as [|f IH]; intros s; simpl; [reflexivity|].
  rewrite Ht. destruct (t2 s) as [s1 [v|k]]; [|reflexivity].
  destruct (truthy v); [|reflexivity]. rewrite Hb.
  destruct (b2 s1) as [s2 [v2|k2]]; [apply IH|reflexivity].
Qed.

Ltac mx_unfold := unfold seq, while_fuelled in *; unfold bind, catch, finally, ret, raise in *; cbn beta iota.
(* symbolic execution: case analysis on the innermost scrutinee of the goal, until both sides coincide *)
Ltac mx_step :=
  match goal with
  | |- context [match ?x with _ => _ end] =>
      lazymatch x with
      | context [match _ with _ => _ end] => fail
      | _ => destruct x eqn:?
      end
  | |- context [if ?x then _ else _] =>
      lazymatch x with
      | context [match _ with _ => _ end] => fail
      | _ => destruct x eqn:?
      end
  end.
Ltac mx_rw := fail.
Ltac mx := mx_unfold; repeat (first [reflexivity | congruence | progress mx_rw | mx_step; subst; cbn beta iota ]).

Lemma bind_ext (m1 m2 : M) f1 f2 st :
  (forall s, m1 s = m2 s) -> (forall v s, f1 v s = f2 v s) -> bind m1 f1 st = bind m2 f2 st.
Proof. intros Hm Hf. unfold bind. rewrite Hm. destruct (m2 st) as [s [v|k]]; [apply Hf|reflexivity]. Qed.
Lemma seq_ext (m1 m2 n1 n2 : M) st :
  (forall s, m1 s = m2 s) -> (forall s, n1 s = n2 s) -> seq m1 n1 st = seq m2 n2 st.
Proof. intros Hm Hn. apply bind_ext; [exact Hm|intros _; exact Hn]. Qed.
Lemma catch_ext (m1 m2 : M) h st : (forall s, m1 s = m2 s) -> catch m1 h st = catch m2 h st.
Proof. intros Hm. unfold catch. rewrite Hm. reflexivity. Qed.
Lemma finally_ext (m1 m2 f : M) st : (forall s, m1 s = m2 s) -> finally m1 f st = finally m2 f st.
Proof. intros Hm. unfold finally. rewrite Hm. reflexivity. Qed.


Section GenIsRef.
Variable P : prims.

Lemma gen_process_response_callbacks_is_ref st : gen_process_response_callbacks P st = ref_resp_loop P st.
Proof. unfold gen_process_response_callbacks, ref_resp_loop. mx. Qed.
Lemma gen_process_finished_callbacks_is_ref st : gen_process_finished_callbacks P st = ref_fin_loop P st.
Proof. unfold gen_process_finished_callbacks, ref_fin_loop. mx. Qed.
Lemma gen_finish_request_is_ref st : gen_finish_request P st = ref_finish_request P st.
Proof.
  unfold gen_finish_request, ref_finish_request.
  mx_unfold; repeat (first [reflexivity | congruence | rewrite gen_process_finished_callbacks_is_ref | mx_step; subst; cbn beta iota]).
Qed.
Lemma gen_invoke_request_is_ref tw st : gen_invoke_request P tw st = ref_invoke_request P tw st.
Proof.
  unfold gen_invoke_request, ref_invoke_request, ref_invoke_body.
  mx_unfold; repeat (first [reflexivity | congruence | rewrite gen_process_response_callbacks_is_ref
                            | rewrite gen_finish_request_is_ref | mx_step; subst; cbn beta iota]).
Qed.
Lemma gen_rc_scope_is_ref (m : M) st :
  bind (gen_rc_enter P) (fun _ => finally m (gen_rc_exit P)) st = ref_scope P m st.
Proof.
  unfold gen_rc_enter, gen_rc_exit, gen_rc_begin, gen_rc_end, ref_scope. mx.
Qed.
Lemma gen_default_execution_policy_is_ref st :
  gen_default_execution_policy P st = ref_default_execution_policy P st.
Proof.
  unfold gen_default_execution_policy, ref_default_execution_policy, gen_request_context, ref_extensions,
    gen_rc_enter, gen_rc_exit, gen_rc_begin, gen_rc_end, ref_scope.
  mx_unfold; repeat (first [reflexivity | congruence | rewrite gen_invoke_request_is_ref | mx_step; subst; cbn beta iota]).
Qed.
Lemma gen_invoke_subrequest_is_ref tw st :
  gen_invoke_subrequest P tw st = ref_invoke_subrequest P tw st.
Proof.
  unfold gen_invoke_subrequest, ref_invoke_subrequest, ref_extensions,
    gen_rc_enter, gen_rc_exit, gen_rc_begin, gen_rc_end, ref_scope.
  mx_unfold; repeat (first [reflexivity | congruence | rewrite gen_invoke_request_is_ref | mx_step; subst; cbn beta iota]).
Qed.
Lemma gen_invoke_exception_view_is_ref k rr st :
  gen_invoke_exception_view P k rr st = ref_invoke_exception_view P k rr st.
Proof. unfold gen_invoke_exception_view, ref_invoke_exception_view. mx. Qed.
Lemma gen_error_handler_is_ref k st : gen_error_handler P k st = ref_error_handler P k st.
Proof.
  unfold gen_error_handler, ref_error_handler.
  mx_unfold; repeat (first [reflexivity | congruence | rewrite gen_invoke_exception_view_is_ref | mx_step; subst; cbn beta iota]).
Qed.
Lemma gen_handle_request_is_ref st : gen_handle_request P st = ref_handle_request P st.
Proof. unfold gen_handle_request, ref_handle_request, ref_handle_tail, notify_if. mx. Qed.
Lemma gen_excview_tween_is_ref st : gen_excview_tween P st = ref_excview_tween P st.
Proof.
  unfold gen_excview_tween, ref_excview_tween.
  mx_unfold; repeat (first [reflexivity | congruence | rewrite gen_error_handler_is_ref | mx_step; subst; cbn beta iota]).
Qed.
End GenIsRef.

(* ---- the reference programs, instantiated with the interpreter's leaves, are the hand-written model *)
Section Inst.
Variables (ev l : N) (sc : scn) (subrun : option M) (chain : M).
Hypothesis Hchain : forall st, chain st = tween_chain ev l sc subrun st.
Variable hr : M.
Hypothesis Hhr : forall st, hr st = handle_request l sc (vsub sc subrun) st.
Let P := prims_of ev l sc subrun chain hr.

Lemma bind_ext_l (m1 m2 : M) f s : m1 s = m2 s -> bind m1 f s = bind m2 f s.
Proof. unfold bind. intros ->. reflexivity. Qed.
Lemma pred_succ1 n : N.pred (n + 1) = n.
Proof. rewrite N.add_1_r. apply N.pred_succ. Qed.

Lemma resp_while fuel : forall st,
  while_ fuel (cb_pending rq) (bind resp_popleft (fun cb => seq (resp_call l sc cb) (ret 0))) st
  = resp_cbs fuel l sc st.
Proof.
  induction fuel as [|f IH]; intros st; [reflexivity|].
  cbn [while_ resp_cbs]. unfold cb_pending at 1. destruct (rq st) as [|o rest] eqn:E.
  - reflexivity.
  - cbn [truthy N.eqb negb]. unfold bind at 1, resp_popleft at 1. rewrite E.
    unfold seq, bind, ret, resp_call. cbn [nr]. rewrite pred_succ1.
    destruct (hit l sc P_RESP_CB o (nr st) false _) as [s2 [v|k]]; [apply IH|reflexivity].
Qed.
Lemma fin_while fuel : forall st,
  while_ fuel (cb_pending fq) (bind fin_popleft (fun cb => seq (fin_call l sc cb) (ret 0))) st
  = fin_cbs fuel l sc st.
Proof.
  induction fuel as [|f IH]; intros st; [reflexivity|].
  cbn [while_ fin_cbs]. unfold cb_pending at 1. destruct (fq st) as [|o rest] eqn:E.
  - reflexivity.
  - cbn [truthy N.eqb negb]. unfold bind at 1, fin_popleft at 1. rewrite E.
    unfold seq, bind, ret, fin_call. cbn [nf]. rewrite pred_succ1.
    destruct (hit l sc P_FIN_CB o (nf st) false _) as [s2 [v|k]]; [apply IH|reflexivity].
Qed.
Lemma resp_cbs_ok fuel : forall st st' v, resp_cbs fuel l sc st = (st', Ok v) -> v = 0.
Proof.
  induction fuel as [|f IH]; intros st st' v H; cbn [resp_cbs] in H; [discriminate|].
  destruct (rq st) as [|o rest]; [congruence|].
  destruct (hit l sc P_RESP_CB o (nr st) false _) as [s2 [v2|k]]; [eapply IH; eassumption|discriminate].
Qed.
Lemma fin_cbs_ok fuel : forall st st' v, fin_cbs fuel l sc st = (st', Ok v) -> v = 0.
Proof.
  induction fuel as [|f IH]; intros st st' v H; cbn [fin_cbs] in H; [discriminate|].
  destruct (fq st) as [|o rest]; [congruence|].
  destruct (hit l sc P_FIN_CB o (nf st) false _) as [s2 [v2|k]]; [eapply IH; eassumption|discriminate].
Qed.

Lemma ref_resp_loop_inst st : ref_resp_loop P st = resp_loop l sc st.
Proof.
  unfold ref_resp_loop, P, prims_of, seq, bind, ret, while_fuelled, resp_loop. cbn [p_resp_fuel p_resp_pending p_resp_popleft p_resp_call].
  rewrite resp_while.
  destruct (resp_cbs _ l sc st) as [s1 [v|k]] eqn:E; [|reflexivity].
  apply resp_cbs_ok in E. subst v. reflexivity.
Qed.
Lemma ref_fin_loop_inst st : ref_fin_loop P st = fin_loop l sc st.
Proof.
  unfold ref_fin_loop, P, prims_of, seq, bind, ret, while_fuelled, fin_loop. cbn [p_fin_fuel p_fin_pending p_fin_popleft p_fin_call].
  rewrite fin_while.
  destruct (fin_cbs _ l sc st) as [s1 [v|k]] eqn:E; [|reflexivity].
  apply fin_cbs_ok in E. subst v. reflexivity.
Qed.

Lemma resp_loop_empty st : rq st = [] -> resp_loop l sc st = (st, Ok 0).
Proof. intros E. unfold resp_loop. cbn [resp_cbs]. rewrite E. reflexivity. Qed.
Lemma fin_loop_empty st : fq st = [] -> fin_loop l sc st = (st, Ok 0).
Proof. intros E. unfold fin_loop. cbn [fin_cbs]. rewrite E. reflexivity. Qed.

Lemma ref_body_tail r s1 :
  seq (bind (p_resp_pending P) (fun b => if truthy b then ref_resp_loop P else ret 0))
      (seq (bind (p_has_listeners P) (fun b => if truthy b then p_notify_newresponse P else ret 0)) (ret r)) s1
  = seq (resp_loop l sc) (seq (hit0 l sc P_NEWRESP) (ret r)) s1.
Proof.
  assert (Hg : bind (p_resp_pending P) (fun b => if truthy b then ref_resp_loop P else ret 0) s1 = resp_loop l sc s1).
  { unfold bind, P, prims_of. cbn [p_resp_pending]. unfold cb_pending.
    destruct (rq s1) as [|o rest] eqn:E.
    - cbn. symmetry. apply resp_loop_empty. exact E.
    - cbn [truthy N.eqb negb]. apply ref_resp_loop_inst. }
  unfold seq. rewrite (bind_ext_l _ _ _ _ Hg).
  unfold bind. destruct (resp_loop l sc s1) as [s2 [v|k]]; reflexivity.
Qed.
Lemma ref_invoke_body_inst tw st : ref_invoke_body P tw st = invoke_body ev l sc tw subrun st.
Proof.
  unfold ref_invoke_body, invoke_body, invoke_chain.
  destruct tw; unfold bind at 1; [replace (p_handle_tweens P st) with (tween_chain ev l sc subrun st) by (symmetry; apply Hchain)
                                 | replace (p_handle_orig P st) with (handle_request l sc (vsub sc subrun) st) by (symmetry; apply Hhr)];
  unfold bind at 3.
  - destruct (tween_chain ev l sc subrun st) as [s1 [r|k]]; [apply ref_body_tail|reflexivity].
  - destruct (handle_request l sc (vsub sc subrun) st) as [s1 [r|k]]; [apply ref_body_tail|reflexivity].
Qed.
Lemma ref_finish_request_inst st :
  ref_finish_request P st = match fin_loop l sc st with (s, Ok _) => (s, Ok 0) | r => r end.
Proof.
  unfold ref_finish_request, bind, P, prims_of. cbn [p_fin_pending]. unfold cb_pending.
  destruct (fq st) as [|o rest] eqn:E.
  - rewrite fin_loop_empty by exact E. reflexivity.
  - cbn [truthy N.eqb negb]. unfold seq, bind, ret. rewrite ref_fin_loop_inst. reflexivity.
Qed.
Lemma ref_invoke_request_inst tw st : ref_invoke_request P tw st = invoke_request ev l sc tw subrun st.
Proof.
  unfold ref_invoke_request, invoke_request, finally. rewrite ref_invoke_body_inst.
  destruct (invoke_body ev l sc tw subrun st) as [s1 r]. rewrite ref_finish_request_inst.
  destruct (fin_loop l sc s1) as [s2 [v|k]]; reflexivity.
Qed.

Lemma ref_scope_inst m1 m2 st : (forall s, m1 s = m2 s) -> ref_scope P m1 st = frame l m2 st.
Proof.
  intros H. unfold ref_scope, frame, P, prims_of. cbn [p_push p_pop]. unfold seq, bind, finally.
  destruct (push l st) as [s1 [v|k]]; [rewrite H|]; reflexivity.
Qed.
Lemma ref_invoke_subrequest_inst tw st :
  ref_invoke_subrequest P tw st = frame l (invoke_request ev l sc tw subrun) st.
Proof.
  unfold ref_invoke_subrequest. unfold seq at 1. unfold bind at 1.
  change (ref_extensions P st) with (st, Ok 0). cbn iota.
  apply ref_scope_inst. intros s. apply ref_invoke_request_inst.
Qed.
Lemma ref_default_execution_policy_inst st :
  ref_default_execution_policy P st = frame l (invoke_request ev l sc true subrun) st.
Proof.
  unfold ref_default_execution_policy. unfold seq at 1. unfold bind at 1.
  change (p_setup P st) with (st, Ok 0). cbn iota.
  unfold seq at 1. unfold bind at 1.
  change (ref_extensions P st) with (st, Ok 0). cbn iota.
  apply ref_scope_inst. intros s. apply ref_invoke_request_inst.
Qed.
(* _call_view as invoke_exception_view sees it vs. the model's call_views: same state; same result, or
   "None / the last PredicateMismatch" against the model's HTTPNotFound *)
Lemma call_views_f_rel : forall vs seen st, Forall (fun p => p <> 0) vs ->
  match call_views_f l sc vs seen st, call_views l sc vs st with
  | (s1, r1), (s2, r2) =>
      s1 = s2 /\ ((r1 = r2 /\ r1 <> Ok 0) \/ ((r1 = Ok 0 \/ r1 = Ex K_PM) /\ r2 = Ex K_NOTFOUND))
  end.
Proof.
  induction vs as [|p rest IH]; intros seen st F.
  - cbn [call_views_f call_views]. destruct seen; cbn; split; auto.
  - inversion F as [|? ? Hp Fr]; subst. cbn [call_views_f call_views].
    destruct (N.eqb p P_DEFAULT_VIEW).
    + cbn. split; [reflexivity|]. left. split; [reflexivity|]. intros X; injection X as X; contradiction.
    + unfold catch, seq, bind, ret. destruct (hit0 l sc p st) as [s' [v|k2]].
      * split; [reflexivity|]. left. split; [reflexivity|]. intros X; injection X as X; contradiction.
      * destruct (N.eqb k2 K_PM); [apply IH; exact Fr|].
        cbn. split; [reflexivity|]. left. split; [reflexivity|discriminate].
Qed.
Lemma exc_views_nonzero k : Forall (fun p => p <> 0) (exc_views ev k).
Proof.
  apply Forall_forall. intros p I. destruct (exc_views_pts _ _ _ I) as [-> | [-> | ->]]; discriminate.
Qed.
Lemma ref_error_handler_inst k st : ref_error_handler P k st = error_handler ev l sc k st.
Proof.
  unfold ref_error_handler, ref_invoke_exception_view, error_handler, frame, P, prims_of.
  cbn [p_push p_pop p_call_exception_view p_is_notfound p_exc_notfound].
  pose proof (call_views_f_rel (exc_views ev k) false) as R.
  unfold seq. unfold catch, bind, finally, push, pop, upd_stk, ret, raise. cbn [stk log rq fq nr nf].
  match goal with |- context [call_views_f l sc _ false ?s0] => specialize (R s0 (exc_views_nonzero k)) end.
  destruct (call_views_f l sc (exc_views ev k) false _) as [s1 r1].
  destruct (call_views l sc (exc_views ev k) _) as [s2 r2].
  destruct R as [<- [[<- Hn] | [[-> | ->] ->]]].
  - destruct r1 as [v|k2]; [|reflexivity]. destruct (N.eqb v 0) eqn:Ev; [|reflexivity].
    apply N.eqb_eq in Ev. subst v. contradiction Hn; reflexivity.
  - reflexivity.
  - reflexivity.
Qed.
Lemma ref_excview_tween_inst st :
  ref_excview_tween P st = excview_tween ev l sc (tween l sc P_UNDER_IN P_UNDER_OUT (handle_request l sc (vsub sc subrun))) st.
Proof.
  unfold ref_excview_tween, excview_tween, catch.
  replace (p_handler P st) with (tween l sc P_UNDER_IN P_UNDER_OUT (handle_request l sc (vsub sc subrun)) st).
  - destruct (tween l sc P_UNDER_IN P_UNDER_OUT (handle_request l sc (vsub sc subrun)) st) as [s1 [v|k]]; [reflexivity|].
    apply ref_error_handler_inst.
  - unfold P, prims_of. cbn [p_handler]. unfold tween. apply seq_ext; [reflexivity|intros s1].
    apply bind_ext; [intros s2; symmetry; apply Hhr|reflexivity].
Qed.
Lemma bind_ret_l v (f : N -> M) s : bind (ret v) f s = f v s.
Proof. reflexivity. Qed.
Lemma derived_view_nonzero st st' v : derived_view l sc (vsub sc subrun) st = (st', Ok v) -> v <> 0.
Proof.
  unfold derived_view, seq. unfold bind, ret, raise. intros E.
  destruct (hit l sc P_VIEW_PRED 0 0 true st) as [s1 [a|k]]; [|discriminate].
  destruct (N.eqb a 0); [discriminate|].
  destruct (hit l sc P_PERMITS 0 0 true s1) as [s2 [b|k]]; [|discriminate].
  destruct (N.eqb b 0); [discriminate|].
  destruct (view_body l sc (vsub sc subrun) s2) as [s3 [c|k]]; [|discriminate].
  destruct (hit0 l sc P_RENDERER s3) as [s4 [d|k]]; [|discriminate].
  injection E as _ <-. discriminate.
Qed.
Lemma ref_handle_tail_inst (rf : M) st :
  ref_handle_tail P rf st =
  seq (hit0 l sc P_BEFORE_TRAV) (seq rf (seq (hit0 l sc P_TRAVERSER) (seq (hit0 l sc P_CTX_FOUND) (derived_view l sc (vsub sc subrun))))) st.
Proof.
  unfold ref_handle_tail, notify_if, P, prims_of.
  cbn [p_has_listeners p_notify_beforetraversal p_traverser p_notify_contextfound p_call_view p_exc_notfound].
  unfold seq, bind, ret, raise. cbn [truthy N.eqb negb].
  destruct (hit0 l sc P_BEFORE_TRAV st) as [s1 [v1|k]]; [|reflexivity].
  destruct (rf s1) as [s2 [v2|k]]; [|reflexivity].
  destruct (hit0 l sc P_TRAVERSER s2) as [s3 [v3|k]]; [|reflexivity].
  destruct (hit0 l sc P_CTX_FOUND s3) as [s4 [v4|k]]; [|reflexivity].
  destruct (derived_view l sc (vsub sc subrun) s4) as [s5 [v5|k]] eqn:E; [|reflexivity].
  apply derived_view_nonzero in E. destruct (N.eqb v5 0) eqn:Ev; [|reflexivity].
  apply N.eqb_eq in Ev. contradiction.
Qed.
Lemma ref_handle_request_inst st : ref_handle_request P st = handle_request l sc (vsub sc subrun) st.
Proof.
  unfold ref_handle_request, handle_request, notify_if.
  change (p_has_listeners P) with (ret 1). change (p_notify_newrequest P) with (hit0 l sc P_NEWREQ).
  change (p_has_mapper P) with (ret 1).
  change (p_routes_mapper P) with (if s_route sc then hit l sc P_ROUTE_PRED 0 0 true else ret 0).
  change (p_root_factory P) with (hit0 l sc P_ROOT_FACTORY).
  change (p_route_factory P) with (hit0 l sc P_ROUTE_FACTORY).
  apply seq_ext; [intros s; reflexivity|intros s1].
  rewrite bind_ret_l. cbn beta. change (truthy 1) with true. cbn iota.
  apply bind_ext; [reflexivity|intros matched s2].
  destruct (N.eqb matched 0); apply ref_handle_tail_inst.
Qed.

(* generated = model, for the leaves of the pipeline interpreter *)
Lemma gen_invoke_request_inst tw st : gen_invoke_request P tw st = invoke_request ev l sc tw subrun st.
Proof. rewrite gen_invoke_request_is_ref. apply ref_invoke_request_inst. Qed.
Lemma gen_invoke_subrequest_inst tw st :
  gen_invoke_subrequest P tw st = frame l (invoke_request ev l sc tw subrun) st.
Proof. rewrite gen_invoke_subrequest_is_ref. apply ref_invoke_subrequest_inst. Qed.
Lemma gen_default_execution_policy_inst st :
  gen_default_execution_policy P st = frame l (invoke_request ev l sc true subrun) st.
Proof. rewrite gen_default_execution_policy_is_ref. apply ref_default_execution_policy_inst. Qed.
Lemma gen_handle_request_inst st : gen_handle_request P st = handle_request l sc (vsub sc subrun) st.
Proof. rewrite gen_handle_request_is_ref. apply ref_handle_request_inst. Qed.
Lemma gen_error_handler_inst k st : gen_error_handler P k st = error_handler ev l sc k st.
Proof. rewrite gen_error_handler_is_ref. apply ref_error_handler_inst. Qed.
Lemma gen_excview_tween_inst st :
  gen_excview_tween P st = excview_tween ev l sc (tween l sc P_UNDER_IN P_UNDER_OUT (handle_request l sc (vsub sc subrun))) st.
Proof. rewrite gen_excview_tween_is_ref. apply ref_excview_tween_inst. Qed.
Lemma gen_loops_inst st :
  gen_process_response_callbacks P st = resp_loop l sc st /\
  gen_process_finished_callbacks P st = fin_loop l sc st.
Proof.
  split; [rewrite gen_process_response_callbacks_is_ref; apply ref_resp_loop_inst
         |rewrite gen_process_finished_callbacks_is_ref; apply ref_fin_loop_inst].
Qed.
End Inst.

(* ---- extensionality of the interpreter in what a subrequest does *)
Definition sub_eq (a b : option M) : Prop :=
  match a, b with
  | None, None => True
  | Some f, Some g => forall s, f s = g s
  | _, _ => False
  end.
Lemma view_body_ext l sc a b st : sub_eq a b -> view_body l sc a st = view_body l sc b st.
Proof.
  intros H. unfold view_body. destruct a as [f|], b as [g|]; simpl in H; try contradiction; [|reflexivity].
  rewrite H. reflexivity.
Qed.
Lemma handle_request_ext l sc a b st : sub_eq a b -> handle_request l sc a st = handle_request l sc b st.
Proof.
  intros H. unfold handle_request, derived_view.
  apply seq_ext; [reflexivity|intros s1].
  apply bind_ext; [reflexivity|intros matched s2].
  repeat (apply seq_ext; [reflexivity|intros ?s]).
  apply bind_ext; [reflexivity|intros ok s7]. destruct (N.eqb ok 0); [reflexivity|].
  apply bind_ext; [reflexivity|intros ok2 s8]. destruct (N.eqb ok2 0); [reflexivity|].
  apply seq_ext; [intros s9; apply view_body_ext; exact H|reflexivity].
Qed.
Lemma tween_ext l sc a b (h1 h2 : M) st : (forall s, h1 s = h2 s) -> tween l sc a b h1 st = tween l sc a b h2 st.
Proof.
  intros H. unfold tween. apply seq_ext; [reflexivity|intros s1]. apply bind_ext; [exact H|reflexivity].
Qed.
Lemma tween_x_ext l sc a b sr1 sr2 (h1 h2 : M) st : sub_eq sr1 sr2 -> (forall s, h1 s = h2 s) ->
  tween_x l sc a b sr1 h1 st = tween_x l sc a b sr2 h2 st.
Proof.
  intros Hs H. unfold tween_x. apply seq_ext; [reflexivity|intros s1]. apply bind_ext; [exact H|intros r s2].
  apply seq_ext; [|reflexivity]. destruct sr1 as [f|], sr2 as [g|]; simpl in Hs; try contradiction; [exact Hs|reflexivity].
Qed.
Lemma vsub_eq sc a b : sub_eq a b -> sub_eq (vsub sc a) (vsub sc b).
Proof. unfold vsub. destruct (N.eqb (sub_place sc) 1); [intros _; exact I|auto]. Qed.
Lemma tsub_eq sc a b : sub_eq a b -> sub_eq (tsub sc a) (tsub sc b).
Proof. unfold tsub. destruct (N.eqb (sub_place sc) 1); [auto|intros _; exact I]. Qed.
Lemma sub_eq_refl a : sub_eq a a.
Proof. destruct a; simpl; auto. Qed.
Lemma tween_chain_ext ev l sc a b st : sub_eq a b -> tween_chain ev l sc a st = tween_chain ev l sc b st.
Proof.
  intros H. unfold tween_chain. apply tween_x_ext; [apply tsub_eq; exact H|]. intros s1.
  unfold excview_tween. apply catch_ext. intros s2.
  apply tween_ext. intros s3. apply handle_request_ext. apply vsub_eq. exact H.
Qed.
Lemma invoke_request_ext ev l sc tw a b st :
  sub_eq a b -> invoke_request ev l sc tw a st = invoke_request ev l sc tw b st.
Proof.
  intros H. unfold invoke_request. apply finally_ext. intros s1. unfold invoke_body.
  apply bind_ext; [|reflexivity]. intros s2. unfold invoke_chain.
  destruct tw; [apply tween_chain_ext; exact H|apply handle_request_ext; apply vsub_eq; exact H].
Qed.
Lemma frame_ext l (m1 m2 : M) st : (forall s, m1 s = m2 s) -> frame l m1 st = frame l m2 st.
Proof. intros H. unfold frame. apply seq_ext; [reflexivity|intros s1]. apply finally_ext. exact H. Qed.
Lemma fresh_ext (m1 m2 : M) st : (forall s, m1 s = m2 s) -> with_fresh_request m1 st = with_fresh_request m2 st.
Proof. intros H. unfold with_fresh_request. rewrite H. reflexivity. Qed.

Lemma gen_hr_is_model ev l sc subrun st : gen_hr ev l sc subrun st = handle_request l sc (vsub sc subrun) st.
Proof. unfold gen_hr. apply gen_handle_request_inst. Qed.
Lemma gen_chain_is_model ev l sc subrun st : gen_chain ev l sc subrun st = tween_chain ev l sc subrun st.
Proof.
  unfold gen_chain, tween_chain. apply tween_x_ext; [apply sub_eq_refl|]. intros s1.
  apply (gen_excview_tween_inst ev l sc subrun (ret 0) _ (gen_hr_is_model ev l sc subrun)).
Qed.

Fixpoint gen_run_request_is_model (sc : scn) : forall ev l tw st,
  gen_run_request ev l sc tw st = run_request ev l sc tw st.
Proof.
  intros ev l tw st. destruct sc as [r fs rs sb]. cbn [gen_run_request run_request s_sub].
  apply fresh_ext. intros s1. unfold prims_top.
  rewrite (gen_invoke_subrequest_inst ev l (Scn r fs rs sb) _ _ (gen_chain_is_model ev l (Scn r fs rs sb) _)
             _ (gen_hr_is_model ev l (Scn r fs rs sb) _)).
  apply frame_ext. intros s2. apply invoke_request_ext.
  destruct sb as [|tw' pl' sc']; [exact I|]. simpl. intros s3. apply gen_run_request_is_model.
Qed.

Theorem gen_run_top_is_model ev sc s0 : gen_run_top ev sc s0 = run_top ev sc s0.
Proof.
  unfold gen_run_top, run_top. destruct sc as [r fs rs sb]. cbn [run_request s_sub].
  apply fresh_ext. intros s1. unfold prims_top.
  rewrite (gen_default_execution_policy_inst ev 0 (Scn r fs rs sb) _ _ (gen_chain_is_model ev 0 (Scn r fs rs sb) _)
             _ (gen_hr_is_model ev 0 (Scn r fs rs sb) _)).
  apply frame_ext. intros s2. apply invoke_request_ext.
  destruct sb as [|tw' pl' sc']; [exact I|]. simpl. intros s3. apply gen_run_request_is_model.
Qed.

Theorem gen_request_is_model : forall ev l sc subrun chain hr,
  (forall st, chain st = tween_chain ev l sc subrun st) ->
  (forall st, hr st = handle_request l sc (vsub sc subrun) st) ->
  let P := prims_of ev l sc subrun chain hr in
  (forall st, gen_handle_request P st = handle_request l sc (vsub sc subrun) st) /\
  (forall k st, gen_error_handler P k st = error_handler ev l sc k st) /\
  (forall tw st, gen_invoke_request P tw st = invoke_request ev l sc tw subrun st) /\
  (forall tw st, gen_invoke_subrequest P tw st = frame l (invoke_request ev l sc tw subrun) st) /\
  (forall st, gen_default_execution_policy P st = frame l (invoke_request ev l sc true subrun) st) /\
  (forall st, gen_excview_tween P st =
              excview_tween ev l sc (tween l sc P_UNDER_IN P_UNDER_OUT (handle_request l sc (vsub sc subrun))) st) /\
  (forall st, gen_process_response_callbacks P st = resp_loop l sc st) /\
  (forall st, gen_process_finished_callbacks P st = fin_loop l sc st).
Proof.
  intros ev l sc subrun chain hr H H2 P. repeat match goal with |- _ /\ _ => split end; intros.
  - apply gen_handle_request_inst.
  - apply gen_error_handler_inst.
  - apply gen_invoke_request_inst; assumption.
  - apply gen_invoke_subrequest_inst; assumption.
  - apply gen_default_execution_policy_inst; assumption.
  - apply gen_excview_tween_inst; assumption.
  - apply (gen_loops_inst ev l sc subrun chain hr st).
  - apply (gen_loops_inst ev l sc subrun chain hr st).
Qed.

(* the property theorems restated for the interpreter assembled from the GENERATED programs *)
Theorem gen_pipeline_depth : forall ev sc s0 st r,
  gen_run_top ev sc s0 = (st, r) ->
  stk st = s0 /\ Forall (fun e => e_cur e = true) (log st).
Proof. intros ev sc s0 st r E. rewrite gen_run_top_is_model in E. eapply pipeline_depth; eassumption. Qed.
Theorem gen_satisfies_judge : forall ev sc st r,
  valid_tree sc = true -> gen_run_top ev sc [] = (st, r) ->
  judge sc (N.of_nat (length (stk st))) (log st) = true.
Proof. intros ev sc st r V E. rewrite gen_run_top_is_model in E. eapply model_satisfies_judge; eassumption. Qed.
Theorem gen_is_ref : forall P : prims,
  (forall st, gen_process_response_callbacks P st = ref_resp_loop P st) /\
  (forall st, gen_process_finished_callbacks P st = ref_fin_loop P st) /\
  (forall st, gen_finish_request P st = ref_finish_request P st) /\
  (forall tw st, gen_invoke_request P tw st = ref_invoke_request P tw st) /\
  (forall m st, bind (gen_rc_enter P) (fun _ => finally m (gen_rc_exit P)) st = ref_scope P m st) /\
  (forall st, gen_default_execution_policy P st = ref_default_execution_policy P st) /\
  (forall tw st, gen_invoke_subrequest P tw st = ref_invoke_subrequest P tw st) /\
  (forall k st, gen_error_handler P k st = ref_error_handler P k st) /\
  (forall st, gen_excview_tween P st = ref_excview_tween P st) /\
  (forall k rr st, gen_invoke_exception_view P k rr st = ref_invoke_exception_view P k rr st) /\
  (forall st, gen_handle_request P st = ref_handle_request P st).
Proof.
  intros P. repeat match goal with |- _ /\ _ => split end; intros.
  - apply gen_process_response_callbacks_is_ref.
  - apply gen_process_finished_callbacks_is_ref.
  - apply gen_finish_request_is_ref.
  - apply gen_invoke_request_is_ref.
  - apply gen_rc_scope_is_ref.
  - apply gen_default_execution_policy_is_ref.
  - apply gen_invoke_subrequest_is_ref.
  - apply gen_error_handler_is_ref.
  - apply gen_excview_tween_is_ref.
  - apply gen_invoke_exception_view_is_ref.
  - apply gen_handle_request_is_ref.
Qed.

(* ---- one request object through invoke_request twice (retrying execution policy) *)
Lemma good_retry_body first second mode :
  good 0 first -> good 0 second -> good 0 (retry_body first second mode).
Proof.
  intros Hf Hs st st' r E T. unfold retry_body in E.
  destruct (first st) as [st1 r1] eqn:E1. pose proof (Hf _ _ _ E1 T) as X1.
  pose proof (ext_top _ _ _ X1 T) as T1.
  assert (Hsec : forall r', seq log_retry second st1 = (st', r') -> ext st st').
  { intros r' E2. unfold seq, bind, log_retry in E2.
    pose proof (log_ev_ext 0 P_RETRY 0 st1 T1) as X2.
    pose proof (ext_top _ _ _ X2 T1) as T2.
    eapply ext_trans; [exact X1|]. eapply ext_trans; [exact X2|]. eapply Hs; eassumption. }
  destruct r1 as [v|k].
  - destruct mode; [eapply Hsec; exact E|]. injection E as <- _. exact X1.
  - eapply Hsec; exact E.
Qed.

Theorem retry_depth : forall ev mode sc1 sc2 s0 st r,
  run_retry ev mode sc1 sc2 s0 = (st, r) ->
  stk st = s0 /\ Forall (fun e => e_cur e = true) (log st).
Proof.
  intros ev mode sc1 sc2 s0 st r E. unfold run_retry in E.
  assert (N : neutral (with_fresh_request
     (frame 0 (retry_body (invoke_request ev 0 sc1 true None) (invoke_request ev 0 sc2 true None) mode)))).
  { apply neutral_fresh. apply neutral_frame. apply good_retry_body; apply good_invoke_request; intros sr X; discriminate X. }
  destruct (N _ _ _ E) as [S [new [L C]]]. simpl in S, L. split; [exact S|]. rewrite L. exact C.
Qed.

Lemma judge_pass_own sc L : judge_pass sc 0 0 [] L = judge_own 0 sc true L.
Proof. reflexivity. Qed.

Theorem retry_first_attempt_judged : forall ev sc1 st st1 r1,
  valid_level sc1 = true -> rq st = [] -> fq st = [] -> nr st = 0 -> nf st = 0 ->
  invoke_request ev 0 sc1 true None st = (st1, r1) ->
  exists new, log st1 = log st ++ new /\
    (Forall (fun e => e_cur e = true) new -> judge_pass sc1 0 0 [] new = true).
Proof.
  intros ev sc1 st st1 r1 V Hr Hf Hnr Hnf E.
  assert (Hsub : forall sr, @None M = Some sr -> pres (Rsub 0 never) sr) by (intros sr X; discriminate X).
  destruct (request_judged 0 sc1 V never None Hsub ev true st st1 r1 Hr Hf Hnr Hnf E) as [new [L [F [S J]]]].
  exists new. split; [exact L|]. intros C. rewrite judge_pass_own.
  destruct S as [S|S]; [|contradiction].
  assert (Hl : Forall (fun e => e_lvl e = 0) new).
  { rewrite Forall_forall in *. intros e I. 
    destruct (N.eq_dec (e_lvl e) 0) as [Z|Z]; [exact Z|exfalso].
    assert (In e (ge_log (0 + 1) new)) as X.
    { unfold ge_log. apply filter_In. split; [exact I|]. apply N.leb_le. lia. }
    rewrite S in X. exact X. }
  destruct (own_all 0 new Hl) as [O _]. rewrite <- O at 1. apply J. exact C.
Qed.

Definition quiet_fin (sc : scn) : Prop :=
  (forall n, find_fault (s_faults sc) P_FIN_CB n = 0) /\ (forall rg, In rg (s_regs sc) -> r_pt rg <> P_FIN_CB).

(* both attempts of a retried request: the finished callbacks pending when the try body of an attempt ends run
   once, in order, after everything else of that attempt; the second attempt starts with an empty deque, so what
   runs at its end is exactly what was registered during it *)
Theorem retry_finished_callbacks : forall ev mode sc1 sc2 st st' r,
  quiet_fin sc1 -> quiet_fin sc2 ->
  retry_body (invoke_request ev 0 sc1 true None) (invoke_request ev 0 sc2 true None) mode st = (st', r) ->
  exists m1 r1 st1,
    invoke_body ev 0 sc1 true None st = (m1, r1) /\
    invoke_request ev 0 sc1 true None st = (st1, r1) /\
    fq st1 = [] /\ log st1 = log m1 ++ map (cb_event P_FIN_CB 0 m1) (fq m1) /\
    ((mode = false /\ (exists v, r1 = Ok v) /\ st' = st1 /\ r = r1) \/
     ((mode = true \/ exists k, r1 = Ex k) /\
      let st2 := log_ev 0 P_RETRY 0 st1 in
      fq st2 = [] /\
      exists m2 r2,
        invoke_body ev 0 sc2 true None st2 = (m2, r2) /\ r = r2 /\ fq st' = [] /\
        log st' = log m2 ++ map (cb_event P_FIN_CB 0 m2) (fq m2))).
Proof.
  intros ev mode sc1 sc2 st st' r [F1 R1] [F2 R2] E. unfold retry_body in E.
  destruct (invoke_request ev 0 sc1 true None st) as [st1 r1] eqn:E1.
  destruct (finished_callbacks_once_in_order _ _ _ _ _ _ _ _ F1 R1 E1) as [m1 [rm [B1 [Er [_ [Q1 L1]]]]]].
  subst rm. exists m1, r1, st1. split; [exact B1|]. split; [reflexivity|]. split; [exact Q1|]. split; [exact L1|].
  assert (Hsec : forall r', seq log_retry (invoke_request ev 0 sc2 true None) st1 = (st', r') ->
     let st2 := log_ev 0 P_RETRY 0 st1 in
      fq st2 = [] /\
      exists m2 r2,
        invoke_body ev 0 sc2 true None st2 = (m2, r2) /\ r' = r2 /\ fq st' = [] /\
        log st' = log m2 ++ map (cb_event P_FIN_CB 0 m2) (fq m2)).
  { intros r' E2. unfold seq, bind, log_retry in E2. cbn zeta. split; [exact Q1|].
    destruct (finished_callbacks_once_in_order _ _ _ _ _ _ _ _ F2 R2 E2) as [m2 [r2 [B2 [Er2 [_ [Q2 L2]]]]]].
    exists m2, r2. auto. }
  destruct r1 as [v|k].
  - destruct mode.
    + right. split; [left; reflexivity|]. apply Hsec. exact E.
    + left. injection E as <- <-. split; [reflexivity|]. split; [exists v; reflexivity|]. split; reflexivity.
  - right. split; [right; exists k; reflexivity|]. apply Hsec. exact E.
Qed.

Lemma retry_body_ext (f1 f2 s1 s2 : M) mode st :
  (forall s, f1 s = f2 s) -> (forall s, s1 s = s2 s) -> retry_body f1 s1 mode st = retry_body f2 s2 mode st.
Proof.
  intros Hf Hs. unfold retry_body. rewrite Hf. destruct (f2 st) as [st1 [v|k]].
  - destruct mode; [|reflexivity]. apply seq_ext; [reflexivity|exact Hs].
  - apply seq_ext; [reflexivity|exact Hs].
Qed.
Theorem gen_run_retry_is_model ev mode sc1 sc2 s0 : gen_run_retry ev mode sc1 sc2 s0 = run_retry ev mode sc1 sc2 s0.
Proof.
  unfold gen_run_retry, run_retry. apply fresh_ext. intros s1. apply frame_ext. intros s2.
  apply retry_body_ext; intros s; unfold prims_top;
    (apply gen_invoke_request_inst; intros s'; [apply gen_chain_is_model|apply gen_hr_is_model]).
Qed.
Example ex_retry :
  let sc1 := Scn false [mkFault P_VIEW K_PLAIN 0] [mkReg P_NEWREQ 3 0; mkReg P_VIEW 2 0] NoSub in
  let sc2 := Scn false [] [mkReg P_VIEW 3 0] NoSub in
  let '(st, r) := run_retry 0 false sc1 sc2 [] in
  r = Ok P_VIEW /\ judge_retry sc1 sc2 0 (log st) = true /\
  map e_aux (filter (is_pt P_RESP_CB) (log st)) = [P_NEWREQ; P_VIEW] /\
  map e_aux (filter (is_pt P_FIN_CB) (log st)) = [P_NEWREQ; P_VIEW; P_VIEW] /\
  judge_retry sc1 sc2 0 (filter (fun e => negb (is_pt P_FIN_CB e && N.eqb (e_aux e) P_VIEW)) (log st)) = false.
Proof. vm_compute. repeat split; reflexivity. Qed.
