(* C03 -- locality of registration: add_view.register_view reads and writes exactly the slot of the view it
   registers.  Consequences: the adapter found at a slot is a function of the registrations of THAT slot alone
   (in their order); a lookup is a function of the registrations of the looked-up classifier and view name.
   And the converse shape of seeded change C03-18: a register_view that looks up / unregisters under one slot
   key and registers under another (the key computed two ways) is NOT the model -- witness below. *)
From Coq Require Import List NArith ZArith Bool Lia.
Import ListNotations.
Require Import Verif.Lib.Wire Verif.Lib.Text Verif.Gen.Facts_C03 Verif.Model.C03 Verif.Proofs.C03.

Definition agree_at (s : slot) (R1 R2 : registry) : Prop := forall vt, R1 s vt = R2 s vt.

Lemma register_view_frame ao R v s' vt : r_slot v <> s' -> register_view ao R v s' vt = R s' vt.
Proof.
  intros Hne. unfold register_view. cbv zeta.
  match goal with |- (if ?c then _ else _) _ _ = _ => destruct c end;
    (rewrite reg_set_other_slot by assumption; apply unregister_all_other; assumption).
Qed.

Lemma unregister_all_agree s R1 R2 l :
  agree_at s R1 R2 -> agree_at s (unregister_all R1 s l) (unregister_all R2 s l).
Proof.
  unfold unregister_all. revert R1 R2. induction l as [|x l IH]; intros R1 R2 H; simpl; [exact H|].
  apply IH. intros vt. unfold reg_set. destruct (slot_eqb s s && vtype_eqb x vt); [reflexivity|apply H].
Qed.

Lemma first_registered_agree s R1 R2 l : agree_at s R1 R2 -> first_registered R1 s l = first_registered R2 s l.
Proof. intros H. induction l as [|vt l IH]; simpl; [reflexivity|]. rewrite (H vt), IH. reflexivity. Qed.

Lemma reg_set_agree s R1 R2 vt c : agree_at s R1 R2 -> agree_at s (reg_set R1 s vt c) (reg_set R2 s vt c).
Proof. intros H vt'. unfold reg_set. destruct (slot_eqb s s && vtype_eqb vt vt'); [reflexivity|apply H]. Qed.

Lemma register_view_local ao R1 R2 v :
  agree_at (r_slot v) R1 R2 -> agree_at (r_slot v) (register_view ao R1 v) (register_view ao R2 v).
Proof.
  intros H. unfold register_view. cbv zeta.
  rewrite (first_registered_agree _ R1 R2 _ H).
  match goal with |- agree_at _ (if ?c then _ else _) _ => destruct c end;
    apply reg_set_agree; apply unregister_all_agree; exact H.
Qed.

Lemma fold_register_local ao s regs : forall R1 R2,
  agree_at s R1 R2 ->
  agree_at s (fold_left (register_view ao) regs R1) (fold_left (register_view ao) (slot_regs regs s) R2).
Proof.
  induction regs as [|v regs IH]; intros R1 R2 H; [exact H|].
  unfold slot_regs. cbn [fold_left filter]. destruct (slot_eqb (r_slot v) s) eqn:E.
  - apply slot_eqb_eq in E. subst s. cbn [fold_left]. apply IH. apply register_view_local. exact H.
  - apply IH. intros vt. rewrite register_view_frame; [apply H|]. apply slot_eqb_neq. exact E.
Qed.

(* the adapter registered at a slot after any sequence of add_view calls is the one the registrations of that
   slot alone (in their order) produce: registrations for other contexts, routes, names or classifiers never
   change it, wherever they come in the sequence *)
Theorem register_all_slot_local ao regs s vt :
  register_all ao regs s vt = register_all ao (slot_regs regs s) s vt.
Proof. unfold register_all. apply fold_register_local. intros vt'. reflexivity. Qed.

(* hence a lookup never depends on registrations of another classifier or another view name *)
Definition relevant (cls : N) (name : text) (v : reg) : bool :=
  N.eqb (s_cls (r_slot v)) cls && text_eqb (s_name (r_slot v)) name.

Lemma slot_regs_filter_relevant cls name regs r c :
  slot_regs (filter (relevant cls name) regs) (mkSlot cls r c name) = slot_regs regs (mkSlot cls r c name).
Proof.
  unfold slot_regs. induction regs as [|v regs IH]; [reflexivity|]. cbn [filter].
  destruct (slot_eqb (r_slot v) (mkSlot cls r c name)) eqn:E.
  - assert (Hr : relevant cls name v = true).
    { apply slot_eqb_eq in E. unfold relevant. rewrite E. cbn. rewrite N.eqb_refl, text_eqb_refl. reflexivity. }
    rewrite Hr. cbn [filter]. rewrite E, IH. reflexivity.
  - destruct (relevant cls name v); [cbn [filter]; rewrite E|]; exact IH.
Qed.

Theorem lookup_ignores_other_names ao regs cls rq :
  call_view (register_all ao regs) cls rq =
  call_view (register_all ao (filter (relevant cls (q_view_name rq)) regs)) cls rq.
Proof.
  unfold call_view. f_equal. unfold find_views.
  apply flat_map_ext. intros rc. apply flat_map_ext. intros vt.
  rewrite register_all_slot_local, (register_all_slot_local ao (filter _ regs)), slot_regs_filter_relevant.
  reflexivity.
Qed.

(* ---- the key computed two ways (shape of seeded change C03-18): look up / unregister under [sl], register
   under the view's own slot *)
Definition register_view2 (accept_order : list text) (R : registry) (v : reg) (sl : slot) : registry :=
  let s := r_slot v in
  let old := first_registered R sl register_view_types in
  let old_phash := match old with Some (CView o) => attr_phash o | _ => default_phash end in
  let is_multiview := match old with Some (CMulti _) => true | _ => false end in
  let want_multiview :=
    is_multiview || (match old with Some _ => true | None => false end && negb (text_eqb old_phash (r_phash v))) in
  if negb want_multiview then
    reg_set (unregister_all R sl override_unregister_types) s
            (if r_secured v then ISecuredView else IView) (Some (CView v))
  else
    let multiview :=
      match old with
      | Some (CMulti m) => m
      | Some (CView o) => mv_add mv_empty o (attr_order o) old_phash (attr_accept o) None
      | None => mv_empty
      end in
    let multiview := mv_add multiview v (r_order v) (r_phash v) (r_accept v) (Some accept_order) in
    reg_set (unregister_all R sl unregister_view_types) s IMultiView (Some (CMulti multiview)).

Theorem register_view2_same_key ao R v : register_view2 ao R v (r_slot v) = register_view ao R v.
Proof. reflexivity. Qed.

(* with another lookup key two views of one slot never meet: the second replaces the first *)
Definition w_slot : slot := mkSlot 0 1 2 [].
Definition w_other : slot := mkSlot 0 1 0 [].
Definition w_v1 : reg := mkReg w_slot 1 [PXhr true] 5 (pred_phash (PXhr true)) None false.
Definition w_v2 : reg := mkReg w_slot 2 [] max_order default_phash None false.

Theorem register_view2_other_key_refuted :
  exists ao v1 v2 sl,
    r_slot v1 = r_slot v2 /\ r_phash v1 <> r_phash v2 /\ sl <> r_slot v1 /\
    (exists m, register_all ao [v1; v2] (r_slot v1) IMultiView = Some (CMulti m)) /\
    register_view2 ao (register_view2 ao reg_empty v1 sl) v2 sl (r_slot v1) IMultiView = None /\
    register_view2 ao (register_view2 ao reg_empty v1 sl) v2 sl (r_slot v1) IView = Some (CView v2).
Proof.
  exists [], w_v1, w_v2, w_other. split; [reflexivity|]. split; [vm_compute; discriminate|].
  split; [vm_compute; discriminate|]. split; [eexists; vm_compute; reflexivity|].
  split; vm_compute; reflexivity.
Qed.

Example register_all_slot_local_nonvacuous :
  slot_regs [w_v1; mkReg w_other 3 [] max_order default_phash None false; w_v2] w_slot = [w_v1; w_v2].
Proof. vm_compute. reflexivity. Qed.
