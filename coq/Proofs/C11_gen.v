(* C11 -- the program REGENERATED from src/pyramid/authorization.py on this run
   (Gen/Facts_C11.v: gen_permits, gen_principals_allowed) equals the hand-written
   reference model (Model/C11.v), for all inputs; the property theorems of
   Proofs/C11.v are then restated about the regenerated program.

   The proof scripts below never mention the text of the generated terms: they
   take the loops apart by pattern ([?F L 0], [?G a 0], ...), do one induction
   per loop, case-split on the ATOMS of the primitive table (the ACE action, the
   permission test, membership / equality tests of the ACE principal) and ask
   that both sides then compute to the same result or to the induction
   hypothesis.  Hence they are insensitive to the names of the source's locals,
   to the nesting and order of its tests ([if a: if b:] vs [if a and b:], [elif]
   vs nested [if], an independent test moved up or down) and to the order in
   which the inner loop carries its three sets; they fail as soon as some
   valuation of the atoms leads the regenerated program to another result than
   the model (or the loop structure itself changes). *)
From Coq Require Import List NArith ZArith Bool Lia.
Import ListNotations.
Require Import Verif.Lib.Wire Verif.Gen.Facts_C11 Verif.Model.C11 Verif.Proofs.C11.

Lemma remove_absent x l : mem_text x l = false -> remove x l = l.
Proof.
  induction l as [|y r IH]; simpl; [reflexivity|].
  destruct (text_eqb x y); [discriminate|]. intros H. rewrite (IH H). reflexivity.
Qed.

(* one iteration of an inner loop: split on every atom the table can produce for the
   current ACE [e] *)
Ltac split_atoms e p :=
  destruct (act e) eqn:?; destruct (perm_in p (what e)) eqn:?;
  repeat match goal with
         | |- context [mem_text (who e) ?s] =>
             lazymatch goal with
             | _ : mem_text (who e) s = _ |- _ => fail
             | _ => destruct (mem_text (who e) s) eqn:?
             end
         | |- context [text_eqb (who e) ?s] =>
             lazymatch goal with
             | _ : text_eqb (who e) s = _ |- _ => fail
             | _ => destruct (text_eqb (who e) s) eqn:?
             end
         end.

Theorem gen_permits_is_model L ps p : gen_permits L ps p = permits L ps p.
Proof.
  unfold gen_permits, permits.
  match goal with
  | |- ?F L 0 = _ => enough (H : forall l d, F l d = permits_from d l ps p) by apply H
  end.
  induction l as [|loc r IH]; intros d; [reflexivity|].
  destruct loc as [a|]; [|simpl; apply IH].
  simpl.
  match goal with
  | |- ?G a 0 = _ =>
      enough (HI : forall a i, G a i = match scan_acl ps p a i with
                                       | Some (true, j) => Allowed d j
                                       | Some (false, j) => Denied d j
                                       | None => permits_from (S d) r ps p
                                       end) by apply HI
  end.
  clear a. induction a as [|e a IHa]; intros i; simpl; [apply IH|].
  unfold ace_matches.
  split_atoms e p; simpl; rewrite ?IHa; reflexivity.
Qed.

(* ------------------------------------------------------------ principals_allowed_by_permission *)
Definition pa_exit (p : text) (r : lineage) (a : acl) (al ah dh : list text) : list text :=
  fold_left (pa_step p) r (union (fst (pa_scan p a al ah dh)) (snd (pa_scan p a al ah dh))).

Lemma pa_step_exit p r a al :
  fold_left (pa_step p) (Some a :: r) al = pa_exit p r a al [] [].
Proof. unfold pa_exit. simpl. destruct (pa_scan p a al [] []); reflexivity. Qed.

(* the six ways the inner loop may order its three carried sets (the translator orders them by
   first occurrence in the loop body, which a harmless rewrite may change) *)
Definition sh1 {X} (f : list text -> list text -> list text -> X) al ah dh := f al ah dh.
Definition sh2 {X} (f : list text -> list text -> list text -> X) al ah dh := f al dh ah.
Definition sh3 {X} (f : list text -> list text -> list text -> X) al ah dh := f ah al dh.
Definition sh4 {X} (f : list text -> list text -> list text -> X) al ah dh := f ah dh al.
Definition sh5 {X} (f : list text -> list text -> list text -> X) al ah dh := f dh al ah.
Definition sh6 {X} (f : list text -> list text -> list text -> X) al ah dh := f dh ah al.

Ltac pa_inner sh p r IH G :=
  solve [
    let HI := fresh "HI" in
    enough (HI : forall a al ah dh, sh _ (G a) al ah dh = pa_exit p r a al ah dh)
      by (unfold sh in HI; apply HI);
    unfold sh;
    let b := fresh "b" in let e := fresh "e" in let IHb := fresh "IHb" in
    intros b; induction b as [|e b IHb]; intros ? ? ?;
    [ unfold pa_exit; simpl; apply IH
    | unfold pa_exit in *; simpl;
      split_atoms e p; simpl;
      rewrite ?remove_absent by assumption; rewrite ?IHb, ?IH; reflexivity ] ].

Theorem gen_principals_allowed_is_model L p : gen_principals_allowed L p = principals_allowed L p.
Proof.
  unfold gen_principals_allowed, principals_allowed.
  match goal with
  | |- ?F (rev L) [] = _ => enough (H : forall l al, F l al = fold_left (pa_step p) l al) by apply H
  end.
  induction l as [|loc r IH]; intros al; [reflexivity|].
  destruct loc as [a|]; [|simpl; apply IH].
  rewrite pa_step_exit. simpl.
  match goal with
  | |- ?G a _ _ _ = _ =>
      first [ pa_inner @sh6 p r IH G | pa_inner @sh1 p r IH G | pa_inner @sh2 p r IH G
            | pa_inner @sh3 p r IH G | pa_inner @sh4 p r IH G | pa_inner @sh5 p r IH G ]
  end.
Qed.

(* ------------------------------------------------------------ the property theorems, about the regenerated program *)
Theorem gen_permits_first_match L ps p :
  granted (gen_permits L ps p) = spec_granted L ps p.
Proof. rewrite gen_permits_is_model. apply permits_first_match. Qed.

Theorem gen_permits_deciding_ace L ps p :
  match gen_permits L ps p with
  | Allowed d i | Denied d i =>
      exists a e, nth_error L d = Some (Some a) /\ nth_error a i = Some e
                  /\ first_match L ps p = Some e
                  /\ (act e = Allow <-> granted (gen_permits L ps p) = true)
  | DefaultDeny => first_match L ps p = None
  end.
Proof. rewrite gen_permits_is_model. apply permits_deciding_ace. Qed.

Theorem gen_permits_default_deny L ps p :
  first_match L ps p = None -> gen_permits L ps p = DefaultDeny.
Proof. rewrite gen_permits_is_model. apply permits_default_deny. Qed.

Theorem gen_no_acl_refused L ps p :
  Forall (fun o => o = None \/ o = Some []) L -> gen_permits L ps p = DefaultDeny.
Proof. rewrite gen_permits_is_model. apply no_acl_refused. Qed.

Theorem gen_child_decides child parents ps p e :
  find (spec_matches ps p) child = Some e ->
  granted (gen_permits (Some child :: parents) ps p) = decide (Some e).
Proof. rewrite gen_permits_is_model. apply child_decides. Qed.

Theorem gen_allowed_consistent L p q :
  wf_lineage L = true ->
  In q (gen_principals_allowed L p) ->
  granted (gen_permits L [q; everyone] p) = true.
Proof. rewrite gen_permits_is_model, gen_principals_allowed_is_model. apply allowed_consistent. Qed.

(* ------------------------------------------------------------ the public wrapper ACLAuthorizationPolicy *)
Theorem gen_policy_permits_is_model L ps p : gen_policy_permits L ps p = permits L ps p.
Proof. unfold gen_policy_permits. apply gen_permits_is_model. Qed.

Theorem gen_policy_principals_allowed_is_model L p :
  gen_policy_principals_allowed L p = principals_allowed L p.
Proof. unfold gen_policy_principals_allowed. apply gen_principals_allowed_is_model. Qed.

Theorem gen_policy_permits_first_match L ps p :
  granted (gen_policy_permits L ps p) = spec_granted L ps p.
Proof. rewrite gen_policy_permits_is_model. apply permits_first_match. Qed.

Theorem gen_policy_allowed_consistent L p q :
  wf_lineage L = true ->
  In q (gen_policy_principals_allowed L p) ->
  granted (gen_policy_permits L [q; everyone] p) = true.
Proof. rewrite gen_policy_permits_is_model, gen_policy_principals_allowed_is_model. apply allowed_consistent. Qed.

(* non-vacuity, computed by the regenerated program itself *)
Example c11_gen_nonvacuous :
  let alice := [97; 108]%N in let view := [118]%N in
  let L := [Some [mkAce Deny alice (PNames [view])]; Some [mkAce Allow alice PAll]] in
  wf_lineage L = true /\ gen_permits L [alice] view = Denied 0 0
  /\ gen_permits [None; Some [mkAce Allow alice PAll]] [alice] view = Allowed 1 0
  /\ gen_principals_allowed [Some [mkAce Allow alice PAll]] view = [alice]
  /\ gen_principals_allowed L view = [].
Proof. vm_compute. repeat split. Qed.
