(* C07 -- proof-only round: (1) end to end for elements of any type: the path string generated for a resource
   plus elements resolves back to the DESCENDANT the elements name; (2) now that _join_path_tuple carries no memo
   (regenerated fact c07_join_raw_key = false) the second typed call is the cache-free one and the executable
   spec of observations 16..22 is met unconditionally. *)
From Coq Require Import List NArith ZArith Bool Lia Arith.
Import ListNotations.
Require Import Verif.Lib.Wire Verif.Lib.Text Verif.Lib.PathNorm Verif.Lib.Utf8 Verif.Lib.Percent
               Verif.Lib.C07Types Verif.Gen.Facts_C02 Verif.Gen.Facts_C07 Verif.Model.C02 Verif.Proofs.C02
               Verif.Model.C07 Verif.Proofs.C07_rt Verif.Proofs.C07 Verif.Proofs.C07_elt.
Close Scope N_scope.

(* ------------------------------------------------------------ (1) generate with elements, resolve back *)
(* resource_path(r, *els) IS the path of the descendant of r that the elements name ... *)
Theorem typed_path_is_descendant_path root r r' names els ts :
  good_resource root r = Some names -> good_resource root r' = Some (names ++ ts) -> elts_texts els = Some ts ->
  resource_path_e root r els = resource_path root r' [].
Proof.
  intros Hg Hg' He. rewrite (resource_path_e_shape root r names els ts Hg He).
  rewrite (resource_path_good root r' (names ++ ts) Hg'). reflexivity.
Qed.

(* ... so find_resource, from any start resource, leads from it to that very descendant *)
Theorem typed_path_resolves_to_descendant root r r' a names els ts :
  good_resource root r = Some names -> good_resource root r' = Some (names ++ ts) -> elts_texts els = Some ts ->
  xbind (resource_path_e root r els) (fun s => find7 root a (PStr s)) = Val (FoundAt r').
Proof.
  intros Hg Hg' He. rewrite (typed_path_is_descendant_path root r r' names els ts Hg Hg' He).
  exact (find_path_string root r' a (names ++ ts) Hg').
Qed.

(* non-vacuity: the child "two" of /one named by a bytes element; the child named "1" by the int 1 *)
Definition wit_ids : res := Node (Some [(n_one, Node (Some [(t_1, Node None)]))]).
Example typed_path_resolves_nontrivial :
  good_resource wit7 [0] = Some [n_one] /\ good_resource wit7 [0; 0] = Some ([n_one] ++ [n_two]) /\
  elts_texts [SBytes n_two] = Some [n_two] /\
  good_resource wit_ids [0] = Some [n_one] /\ good_resource wit_ids [0; 0] = Some ([n_one] ++ [t_1]) /\
  elts_texts [SObj 0 t_1] = Some [t_1] /\
  xbind (resource_path_e wit_ids [0] [SObj 0 t_1]) (fun s => find7 wit_ids [] (PStr s)) = Val (FoundAt [0; 0]).
Proof. vm_compute. repeat split; reflexivity. Qed.

(* ------------------------------------------------------------ (2) no memo on _join_path_tuple any more *)
Lemma f_join_not_raw_keyed : c07_join_raw_key = false.
Proof. reflexivity. Qed.

(* history independence of the second call, for the code as it is: whatever was asked before *)
Theorem second_call_history_free root r e1 e2 :
  resource_path_second c07_join_raw_key root r e1 e2 = resource_path_e root r e2.
Proof. rewrite f_join_not_raw_keyed. apply resource_path_second_free. Qed.

(* the model of observations 16..22 that the harness compares the implementation with delivers everything the
   executable spec demands -- no side condition left *)
Theorem spec_ext_sound_now c e1 e2 i sv :
  nth_error (spec_ext c e1 e2) i = Some sv -> sv <> none_val ->
  nth_error (model_ext UrlTupleCompare c07_join_raw_key c e1 e2) i = Some sv.
Proof.
  intros Hs Hne. apply (spec_ext_sound c07_join_raw_key c e1 e2 i sv Hs Hne).
  intros _. left. exact f_join_not_raw_keyed.
Qed.
