(* C18 -- the WIRE-LEVEL judges (judge_steps, judge_history / judge_request, judge_derivers, judge_preds: what
   spec_holds of the harness evaluates on the implementation's observation) accept every answer the model itself
   can put on the wire, for every case.  With the Prop-level theorems of C18_rep.v this closes the gap between
   "the model's answers satisfy the property" and "the executable judge run by the harness says so":
   correspondence (impl = model on the wire) then implies spec_holds. *)
From Coq Require Import List NArith ZArith Bool Lia Permutation.
Import ListNotations.
Require Import Verif.Lib.Wire Verif.Model.C18_base Verif.Gen.Facts_C18 Verif.Model.C18.
Require Import Verif.Proofs.C18_kahn Verif.Proofs.C18_build Verif.Proofs.C18 Verif.Proofs.C18_rep Verif.Proofs.C18_derivers.

(* ---------- decoding what was encoded *)
Lemma map_opt_retract {A} (f : A -> val) (g : val -> option A) l :
  (forall x, g (f x) = Some x) -> map_opt g (map f l) = Some l.
Proof. intros H. induction l as [|x l IH]; simpl; [reflexivity|]. rewrite H, IH. reflexivity. Qed.

Lemma get_texts_vtexts l : get_texts (vtexts l) = Some l.
Proof. unfold get_texts, get_list_of, vtexts. apply map_opt_retract. reflexivity. Qed.

Definition dec_pair (x : val) : option (node * N) :=
  match x with VL [VT n; VI z] => Some (n, Z.to_N z) | _ => None end.
Definition enc_pair (nv : node * N) : val := VL [VT (fst nv); vN (snd nv)].

Lemma dec_enc_pair nv : dec_pair (enc_pair nv) = Some nv.
Proof. destruct nv as [n v]. unfold enc_pair, dec_pair, vN. cbn [fst snd]. rewrite N2Z.id. reflexivity. Qed.

Lemma get_pairs_put l : get_pairs (map enc_pair l) = Some l.
Proof. unfold get_pairs. apply (map_opt_retract enc_pair dec_pair). exact dec_enc_pair. Qed.

Lemma get_event_put e : get_event (put_event e) = Some e.
Proof. destruct e; reflexivity. Qed.

Lemma get_events_put l : map_opt get_event (map put_event l) = Some l.
Proof. apply map_opt_retract. exact get_event_put. Qed.

Definition dec_centry (x : val) : option (node * list node) :=
  match x with VL [VT n; c] => olet c := get_texts c in Some (n, c) | _ => None end.
Definition enc_centry (kv : node * list node) : val := VL [VT (fst kv); vtexts (snd kv)].
Lemma dec_enc_centry kv : dec_centry (enc_centry kv) = Some kv.
Proof. destruct kv as [k v]. unfold enc_centry, dec_centry. cbn [fst snd]. rewrite get_texts_vtexts. reflexivity. Qed.

Lemma get_outcome_put o : o <> Internal -> get_outcome (put_outcome o) = Some o.
Proof.
  destruct o as [l|l|l|l|]; intros H; [| | | |congruence].
  - change (get_outcome (put_outcome (Sorted l))) with (olet l' := map_opt dec_pair (map enc_pair l) in Some (Sorted l')).
    rewrite (map_opt_retract enc_pair dec_pair) by exact dec_enc_pair. reflexivity.
  - change (get_outcome (put_outcome (UnsatBefore l))) with (olet l' := get_texts (vtexts l) in Some (UnsatBefore l')).
    rewrite get_texts_vtexts. reflexivity.
  - change (get_outcome (put_outcome (UnsatAfter l))) with (olet l' := get_texts (vtexts l) in Some (UnsatAfter l')).
    rewrite get_texts_vtexts. reflexivity.
  - change (get_outcome (put_outcome (Cyclic l))) with (olet l' := map_opt dec_centry (map enc_centry l) in Some (Cyclic l')).
    rewrite (map_opt_retract enc_centry dec_centry) by exact dec_enc_centry. reflexivity.
Qed.

Lemma texts_eqb_refl l : texts_eqb l l = true.
Proof. induction l as [|x l IH]; simpl; [reflexivity|]. rewrite text_eqb_refl, IH. reflexivity. Qed.

Lemma events_eqb_refl l : events_eqb l l = true.
Proof.
  induction l as [|x l IH]; simpl; [reflexivity|]. rewrite IH.
  destruct x; simpl; rewrite ?text_eqb_refl; reflexivity.
Qed.

Lemma forallb2_eq_refl l : forallb2_eq l l = true.
Proof.
  induction l as [|[n f] l IH]; simpl; [reflexivity|]. rewrite text_eqb_refl, N.eqb_refl, IH. reflexivity.
Qed.

(* ---------- sorter cases (tags 0 / 1) *)
Definition verdict (c : cfg) (ds : list decl) (o : op) (v : val) : bool :=
  let ds' := spec_op c ds o in
  match v with
  | VL [VI 5%Z] => match o with ORemove n => negb (mem_text n (dnames ds)) | _ => false end
  | _ => match get_outcome v with
         | Some out =>
             match o with
             | ORemove n => mem_text n (dnames ds) && judge c ds' out
             | _ => judge c ds' out
             end
         | None => false
         end
  end.

Lemma judge_steps_cons c ds o r v vr :
  judge_steps c ds (o :: r) (v :: vr) = vbool (verdict c ds o v) :: judge_steps c (spec_op c ds o) r vr.
Proof. reflexivity. Qed.

Lemma verdict_outcome c ds o out : out <> Internal ->
  verdict c ds o (put_outcome out) =
  match o with
  | ORemove n => mem_text n (dnames ds) && judge c (spec_op c ds o) out
  | _ => judge c (spec_op c ds o) out
  end.
Proof.
  intros H. unfold verdict. cbv zeta. rewrite (get_outcome_put out H).
  destruct out; reflexivity.
Qed.

Lemma all_true_cons {A} (x : A) l : vbool true :: map (fun _ : A => vbool true) l = map (fun _ => vbool true) (x :: l).
Proof. reflexivity. Qed.

Lemma judge_steps_run c ops : forall s ds, Rep c s ds ->
  judge_steps c ds ops (map put_step (run_ops s ops)) = map (fun _ => vbool true) ops.
Proof.
  induction ops as [|o ops IH]; intros s ds R; [reflexivity|].
  pose proof (run_ops_judged c (o :: ops) s ds R) as HJ.
  pose proof (Rep_op c s ds o R) as R'.
  cbn [run_ops] in *. destruct (apply_op s o) as [s' ve] eqn:Ea. cbn [fst] in R'.
  cbn [map]. rewrite judge_steps_cons. rewrite (IH s' _ R'). f_equal. f_equal.
  cbn [steps_ok] in HJ. destruct HJ as (HJ & _). destruct ve.
  - destruct HJ as (n & -> & Hn). cbn [put_step]. unfold verdict.
    apply negb_true_iff. apply mem_text_false. exact Hn.
  - destruct HJ as (Hj & Hrm). cbn [put_step]. rewrite verdict_outcome by apply sorted_never_internal.
    destruct o as [n v a b|n]; [exact Hj|]. rewrite Hj. rewrite andb_true_r.
    apply mem_text_In. apply (Hrm n eq_refl).
Qed.

Theorem wire_steps_judged c ops :
  judge_steps c [] ops (map put_step (run_ops (new_sorter c) ops)) = map (fun _ => vbool true) ops.
Proof. apply judge_steps_run. apply Rep_new. Qed.

(* ---------- tween histories (tags 2 / 3) *)
Definition live (use : list (node * N)) : list (node * N) := filter (fun nf => negb (N.eqb (snd nf) 0)) use.

Lemma trace_user_wrap_right use : trace_user (wrap_right use Base) = nest_trace use.
Proof.
  unfold nest_trace. induction use as [|[n f] use IH]; [reflexivity|].
  cbn [wrap_right fold_right fst snd trace_user filter]. fold (wrap_right use Base).
  destruct (N.eqb f 0); cbn [negb]; [exact IH|].
  rewrite IH. cbn [map rev]. rewrite map_app. cbn [map fst]. rewrite <- !app_assoc. reflexivity.
Qed.

Lemma put_pairs_enc l : put_pairs l = VL (map enc_pair l).
Proof. reflexivity. Qed.

Lemma judge_request_sorted ex ds use :
  (if nonempty ex then forallb2_eq use ex else judge cfg_tweens ds (Sorted use)) = true ->
  judge_request ex ds (VL [VI 0; put_pairs use; VL (map put_event (nest_trace use))]) = true.
Proof.
  intros H. rewrite put_pairs_enc.
  change (match get_pairs (map enc_pair use), map_opt get_event (map put_event (nest_trace use)) with
          | Some use0, Some tr =>
              (if nonempty ex then forallb2_eq use0 ex else judge cfg_tweens ds (Sorted use0))
              && events_eqb tr (nest_trace use0)
          | _, _ => false
          end = true).
  rewrite get_pairs_put, get_events_put, H, events_eqb_refl. reflexivity.
Qed.

Lemma judge_request_error ex ds e :
  e <> Internal -> (forall l, e <> Sorted l) -> ex = [] -> judge cfg_tweens ds e = true ->
  judge_request ex ds (VL [VI 1; put_outcome e]) = true.
Proof.
  intros Hi Hs -> Hj.
  change (match get_outcome (put_outcome e) with
          | Some (Sorted _) => false
          | Some out => negb (nonempty (@nil (node * N))) && judge cfg_tweens ds out
          | None => false
          end = true).
  rewrite (get_outcome_put e Hi). destruct e; try exact Hj. exfalso; eapply Hs; reflexivity.
Qed.

Lemma request_obs_judged t ds : Rep cfg_tweens (tw_sorter t) ds -> judge_request (tw_explicit t) ds (request_obs t) = true.
Proof.
  intros R. pose proof (judge_sorted cfg_tweens (tw_sorter t) ds R) as HJ. fold (implicit t) in HJ.
  unfold request_obs, tweens_call. destruct (tw_explicit t) as [|x ex] eqn:Ex; cbn [nonempty].
  - destruct (implicit t) as [use|l|l|l|] eqn:Ei.
    + rewrite wrap_all_right, trace_user_wrap_right. apply judge_request_sorted. exact HJ.
    + apply judge_request_error; [discriminate|discriminate|reflexivity|exact HJ].
    + apply judge_request_error; [discriminate|discriminate|reflexivity|exact HJ].
    + apply judge_request_error; [discriminate|discriminate|reflexivity|exact HJ].
    + exfalso. exact (sorted_never_internal _ Ei).
  - rewrite wrap_all_right, trace_user_wrap_right. apply judge_request_sorted. cbn [nonempty].
    apply forallb2_eq_refl.
Qed.

Lemma add_implicit_explicit n f u o t : tw_explicit (add_implicit n f u o t) = tw_explicit t.
Proof. unfold add_implicit. destruct (if tw_after_is_under then (u, o) else (o, u)). reflexivity. Qed.

Lemma judge_history_run evs : forall t ds, Rep cfg_tweens (tw_sorter t) ds ->
  judge_history (tw_explicit t) ds evs (tweens_history t evs) = map (fun _ => vbool true) evs.
Proof.
  induction evs as [|e evs IH]; intros t ds R; [reflexivity|].
  destruct e as [[[[n f] u] o]| |].
  - cbn [tweens_history]. unfold tween_decl_ops.
    destruct (N.eqb (add_tween_check n u o) 0) eqn:Ec.
    + cbn [judge_history]. unfold tween_decl_ops. rewrite Ec. cbn [fold_left spec_op].
      rewrite <- (add_implicit_explicit n f u o t).
      rewrite IH by (rewrite add_implicit_sorter; exact (Rep_add cfg_tweens (tw_sorter t) ds n f u o R)).
      cbn [map]. f_equal. apply N.eqb_eq in Ec. rewrite Ec. reflexivity.
    + cbn [judge_history]. unfold tween_decl_ops. rewrite Ec. cbn [fold_left].
      rewrite IH by exact R. cbn [map]. f_equal. unfold vN. rewrite Z.eqb_refl. reflexivity.
  - cbn [tweens_history judge_history]. rewrite IH by exact R. cbn [map]. f_equal.
    rewrite get_outcome_put by apply sorted_never_internal.
    unfold implicit. rewrite (judge_sorted cfg_tweens (tw_sorter t) ds R). reflexivity.
  - cbn [tweens_history judge_history]. rewrite IH by exact R. cbn [map]. f_equal.
    rewrite (request_obs_judged t ds R). reflexivity.
Qed.

Lemma tweens_init_explicit ex : tw_explicit (tweens_init ex) = ex.
Proof.
  unfold tweens_init.
  assert (E0 : forall l t, tw_explicit (fold_left (fun t n => add_implicit n 0%N HNone HNone t) l t) = tw_explicit t).
  { induction l as [|x l IH]; intros t; cbn [fold_left]; [reflexivity|]. rewrite IH. apply add_implicit_explicit. }
  assert (E1 : forall l t, tw_explicit (fold_left (fun t nf => add_explicit (fst nf) (snd nf) t) l t) = tw_explicit t ++ l).
  { induction l as [|[n f] l IH]; intros t; cbn [fold_left]; [rewrite app_nil_r; reflexivity|].
    rewrite IH. unfold add_explicit. cbn [tw_explicit fst snd]. rewrite <- app_assoc. reflexivity. }
  rewrite E1, E0. reflexivity.
Qed.

Theorem wire_history_judged ex evs :
  judge_history ex tweens_init_decls evs (tweens_history (tweens_init ex) evs) = map (fun _ => vbool true) evs.
Proof.
  rewrite <- (tweens_init_explicit ex) at 1. apply judge_history_run. apply tweens_init_rep.
Qed.

(* ---------- deriver scenarios (tags 4 / 5) *)
Lemma live_outer l : live (map (fun n : node => (n, 0%N)) l) = [].
Proof. unfold live. induction l as [|x l IH]; [reflexivity|]. cbn [map filter snd]. exact IH. Qed.

Lemma nest_trace_outer l use : nest_trace (map (fun n : node => (n, 0%N)) l ++ use) = nest_trace use.
Proof. unfold nest_trace. rewrite filter_app. fold (live (map (fun n : node => (n, 0%N)) l)). rewrite live_outer. reflexivity. Qed.

Theorem wire_derivers_judged adds : judge_derivers adds (derivers_obs (fst (derivers_scenario adds))) = true.
Proof.
  set (s := fst (derivers_scenario adds)).
  assert (R : Rep cfg_derivers s (decls_of cfg_derivers (deriver_ops adds))).
  { unfold s. rewrite derivers_scenario_ops. apply Rep_reachable. }
  pose proof (judge_sorted cfg_derivers s _ R) as HJ.
  pose proof (derivers_mapped_innermost adds) as HM. fold s in HM.
  unfold derivers_obs, apply_view_derivers.
  assert (Er : dv_reversed = true) by reflexivity. rewrite Er.
  destruct (sorted s) as [use|l|l|l|] eqn:Es.
  - specialize (HM use eq_refl).
    rewrite <- fold_left_rev_right, rev_involutive. fold (wrap_right (map (fun n => (n, 0%N)) dv_outer ++ use) Base).
    rewrite trace_user_wrap_right, nest_trace_outer. rewrite put_pairs_enc. unfold put_events.
    change (match get_pairs (map enc_pair use), map_opt get_event (map put_event (nest_trace use)) with
            | Some use0, Some tr =>
                judge cfg_derivers (decls_of cfg_derivers (deriver_ops adds)) (Sorted use0)
                && mapped_innermost (map fst use0) && events_eqb tr (nest_trace use0)
            | _, _ => false
            end = true).
    rewrite get_pairs_put, get_events_put, HJ, HM, events_eqb_refl. reflexivity.
  - change (match get_outcome (put_outcome (UnsatBefore l)) with
            | Some (Sorted _) => false
            | Some out => judge cfg_derivers (decls_of cfg_derivers (deriver_ops adds)) out
            | None => false end = true).
    rewrite get_outcome_put by discriminate. exact HJ.
  - change (match get_outcome (put_outcome (UnsatAfter l)) with
            | Some (Sorted _) => false
            | Some out => judge cfg_derivers (decls_of cfg_derivers (deriver_ops adds)) out
            | None => false end = true).
    rewrite get_outcome_put by discriminate. exact HJ.
  - change (match get_outcome (put_outcome (Cyclic l)) with
            | Some (Sorted _) => false
            | Some out => judge cfg_derivers (decls_of cfg_derivers (deriver_ops adds)) out
            | None => false end = true).
    rewrite get_outcome_put by discriminate. exact HJ.
  - exfalso. exact (sorted_never_internal _ Es).
Qed.

(* ---------- predicate scenarios (tags 6 / 7) *)
Theorem wire_preds_judged k adds :
  let '(o, ev) := preds_obs (preds_scenario k adds) in judge_preds k adds o ev = Some true.
Proof.
  unfold preds_obs. cbv zeta. unfold judge_preds.
  rewrite get_outcome_put by apply sorted_never_internal. cbn [obind].
  rewrite get_texts_vtexts. cbn [obind].
  rewrite preds_scenario_judged, texts_eqb_refl. reflexivity.
Qed.

(* ---------- the wire judges are not constantly true: a stale / reversed answer is rejected *)
Example wire_judge_rejects_missing_name :
  judge_steps cfg_plain [] [OAdd (tx 97) 1 HNone HNone] [put_outcome (Sorted [])] = [vbool false].
Proof. vm_compute. reflexivity. Qed.

Example wire_judge_rejects_reversed_order :
  let ops := [OAdd (tx 97) 1 HNone HNone; OAdd (tx 98) 2 (HOne (tx 97)) HNone] in
  judge_steps cfg_plain [] ops [put_outcome (Sorted [(tx 97, 1%N)]); put_outcome (Sorted [(tx 98, 2%N); (tx 97, 1%N)])]
  = [vbool true; vbool false]
  /\ judge_steps cfg_plain [] ops (map put_step (run_ops (new_sorter cfg_plain) ops)) = [vbool true; vbool true].
Proof. vm_compute. split; reflexivity. Qed.

Example wire_request_rejects_wrong_nesting :
  let t := add_implicit (tx 98) 2 (HOne (tx 97)) HNone (add_implicit (tx 97) 1 HNone HNone new_tweens) in
  let ds := decls_of cfg_tweens [OAdd (tx 97) 1 HNone HNone; OAdd (tx 98) 2 (HOne (tx 97)) HNone] in
  judge_request [] ds (request_obs t) = true /\
  judge_request [] ds (VL [VI 0; put_pairs [(tx 97, 1%N); (tx 98, 2%N)];
                           VL (map put_event [Enter (tx 98); Enter (tx 97); Call; Exit (tx 97); Exit (tx 98)])]) = false.
Proof. vm_compute. split; reflexivity. Qed.

(* =====================================================================
   Through the OUTERMOST dispatch: for every case put on the wire (encoders below = what harness to_wire writes), feeding
   the model's answer (run_C18 tag 0/2/4/6) back to the judge entry (tag 1/3/5/7) -- exactly what spec_holds does when the
   implementation agrees with the model -- yields all-true. *)
Definition enc_hint (h : hint) : val :=
  match h with HNone => VL [] | HOne u => VL [VT u] | HMany l => VL [VL (map VT l)] end.
Definition enc_op (o : op) : val :=
  match o with
  | OAdd n v a b => VL [VI 0; VT n; vN v; enc_hint a; enc_hint b]
  | ORemove n => VL [VI 1; VT n]
  end.
Definition enc_tadd (x : node * N * hint * hint) : val :=
  let '(n, f, u, o) := x in VL [VT n; vN f; enc_hint u; enc_hint o].
Definition enc_tevent (e : tevent) : val :=
  match e with TAdd x => VL [VI 0; enc_tadd x] | TImplicit => VL [VI 1] | TRequest => VL [VI 2] end.
Definition enc_pkind (k : pkind) : val := match k with PView => VI 0 | PRoute => VI 1 | PSubscriber => VI 2 end.

Lemma get_hint_enc h : get_hint (enc_hint h) = Some h.
Proof.
  destruct h as [|u|l]; [reflexivity|reflexivity|].
  change (get_hint (enc_hint (HMany l))) with
    (match map_opt get_text (map VT l) with Some ts => Some (HMany ts) | None => None end).
  rewrite (map_opt_retract VT get_text) by reflexivity. reflexivity.
Qed.

Lemma get_op_enc o : get_op (enc_op o) = Some o.
Proof.
  destruct o as [n v a b|n]; [|reflexivity].
  change (get_op (enc_op (OAdd n v a b))) with
    (olet a' := get_hint (enc_hint a) in olet b' := get_hint (enc_hint b) in Some (OAdd n (Z.to_N (Z.of_N v)) a' b')).
  rewrite !get_hint_enc. cbn [obind]. rewrite N2Z.id. reflexivity.
Qed.

Lemma get_tadd_enc x : get_tadd (enc_tadd x) = Some x.
Proof.
  destruct x as [[[n f] u] o].
  change (get_tadd (enc_tadd (n, f, u, o))) with
    (olet u' := get_hint (enc_hint u) in olet o' := get_hint (enc_hint o) in Some (n, Z.to_N (Z.of_N f), u', o')).
  rewrite !get_hint_enc. cbn [obind]. rewrite N2Z.id. reflexivity.
Qed.

Lemma get_tevent_enc e : get_tevent (enc_tevent e) = Some e.
Proof.
  destruct e as [x| |]; [|reflexivity|reflexivity].
  change (get_tevent (enc_tevent (TAdd x))) with (olet x' := get_tadd (enc_tadd x) in Some (TAdd x')).
  rewrite get_tadd_enc. reflexivity.
Qed.

Lemma get_pkind_enc k : get_pkind (enc_pkind k) = Some k.
Proof. destruct k; reflexivity. Qed.

Lemma get_list_enc {A} (enc : A -> val) (dec : val -> option A) l :
  (forall x, dec (enc x) = Some x) -> get_list_of dec (VL (map enc l)) = Some l.
Proof. intros H. unfold get_list_of. apply map_opt_retract. exact H. Qed.

Theorem run_C18_steps_judged z c ops :
  get_cfg (VI z) = Some c ->
  run_C18 (VL [VI 1; VI z; VL (map enc_op ops); run_C18 (VL [VI 0; VI z; VL (map enc_op ops)])])
  = VL (map (fun _ => vbool true) ops).
Proof.
  intros Hc.
  assert (E0 : run_C18 (VL [VI 0; VI z; VL (map enc_op ops)]) = VL (map put_step (run_ops (new_sorter c) ops))).
  { change (run_C18 (VL [VI 0; VI z; VL (map enc_op ops)])) with
      (ret_or_bad (olet c0 := get_cfg (VI z) in olet ops0 := get_list_of get_op (VL (map enc_op ops)) in
                   Some (VL (map put_step (run_ops (new_sorter c0) ops0))))).
    rewrite Hc, (get_list_enc enc_op get_op) by exact get_op_enc. reflexivity. }
  rewrite E0.
  change (ret_or_bad (olet c0 := get_cfg (VI z) in olet ops0 := get_list_of get_op (VL (map enc_op ops)) in
                      Some (VL (judge_steps c0 [] ops0 (map put_step (run_ops (new_sorter c) ops)))))
          = VL (map (fun _ => vbool true) ops)).
  rewrite Hc, (get_list_enc enc_op get_op) by exact get_op_enc. cbn [obind ret_or_bad].
  rewrite wire_steps_judged. reflexivity.
Qed.

Theorem run_C18_history_judged ex evs :
  run_C18 (VL [VI 3; VL (map enc_pair ex); VL (map enc_tevent evs);
               run_C18 (VL [VI 2; VL (map enc_pair ex); VL (map enc_tevent evs)])])
  = VL (map (fun _ => vbool true) evs).
Proof.
  assert (E0 : run_C18 (VL [VI 2; VL (map enc_pair ex); VL (map enc_tevent evs)])
               = VL (tweens_history (tweens_init ex) evs)).
  { change (run_C18 (VL [VI 2; VL (map enc_pair ex); VL (map enc_tevent evs)])) with
      (ret_or_bad (olet ex0 := get_pairs (map enc_pair ex) in
                   olet evs0 := get_list_of get_tevent (VL (map enc_tevent evs)) in
                   Some (VL (tweens_history (tweens_init ex0) evs0)))).
    rewrite get_pairs_put, (get_list_enc enc_tevent get_tevent) by exact get_tevent_enc. reflexivity. }
  rewrite E0.
  change (ret_or_bad (olet ex0 := get_pairs (map enc_pair ex) in
                      olet evs0 := get_list_of get_tevent (VL (map enc_tevent evs)) in
                      Some (VL (judge_history ex0 tweens_init_decls evs0 (tweens_history (tweens_init ex) evs))))
          = VL (map (fun _ => vbool true) evs)).
  rewrite get_pairs_put, (get_list_enc enc_tevent get_tevent) by exact get_tevent_enc. cbn [obind ret_or_bad].
  rewrite wire_history_judged. reflexivity.
Qed.

Theorem run_C18_derivers_judged adds :
  match run_C18 (VL [VI 4; VL (map enc_tadd adds)]) with
  | VL [_; obs] => run_C18 (VL [VI 5; VL (map enc_tadd adds); obs]) = vbool true
  | _ => False
  end.
Proof.
  assert (E0 : run_C18 (VL [VI 4; VL (map enc_tadd adds)])
               = VL [put_codes (snd (derivers_scenario adds)); derivers_obs (fst (derivers_scenario adds))]).
  { change (run_C18 (VL [VI 4; VL (map enc_tadd adds)])) with
      (ret_or_bad (olet adds0 := get_list_of get_tadd (VL (map enc_tadd adds)) in
                   let '(s, codes) := derivers_scenario adds0 in Some (VL [put_codes codes; derivers_obs s]))).
    rewrite (get_list_enc enc_tadd get_tadd) by exact get_tadd_enc. cbn [obind].
    destruct (derivers_scenario adds) as [s codes]. reflexivity. }
  rewrite E0.
  change (ret_or_bad (olet adds0 := get_list_of get_tadd (VL (map enc_tadd adds)) in
                      Some (vbool (judge_derivers adds0 (derivers_obs (fst (derivers_scenario adds)))))) = vbool true).
  rewrite (get_list_enc enc_tadd get_tadd) by exact get_tadd_enc. cbn [obind ret_or_bad].
  rewrite wire_derivers_judged. reflexivity.
Qed.

Theorem run_C18_preds_judged k adds :
  match run_C18 (VL [VI 6; enc_pkind k; VL (map enc_tadd adds)]) with
  | VL [o; ev] => run_C18 (VL [VI 7; enc_pkind k; VL (map enc_tadd adds); VL [o; ev]]) = vbool true
  | _ => False
  end.
Proof.
  pose proof (wire_preds_judged k adds) as HW.
  assert (E0 : run_C18 (VL [VI 6; enc_pkind k; VL (map enc_tadd adds)])
               = VL [fst (preds_obs (preds_scenario k adds)); snd (preds_obs (preds_scenario k adds))]).
  { change (run_C18 (VL [VI 6; enc_pkind k; VL (map enc_tadd adds)])) with
      (ret_or_bad (olet k0 := get_pkind (enc_pkind k) in
                   olet adds0 := get_list_of get_tadd (VL (map enc_tadd adds)) in
                   let '(o, ev) := preds_obs (preds_scenario k0 adds0) in Some (VL [o; ev]))).
    rewrite get_pkind_enc, (get_list_enc enc_tadd get_tadd) by exact get_tadd_enc. cbn [obind].
    destruct (preds_obs (preds_scenario k adds)) as [o ev]. reflexivity. }
  rewrite E0. destruct (preds_obs (preds_scenario k adds)) as [o ev]. cbn [fst snd].
  change (ret_or_bad (olet k0 := get_pkind (enc_pkind k) in
                      olet adds0 := get_list_of get_tadd (VL (map enc_tadd adds)) in
                      olet b := judge_preds k0 adds0 o ev in Some (vbool b)) = vbool true).
  rewrite get_pkind_enc, (get_list_enc enc_tadd get_tadd) by exact get_tadd_enc. cbn [obind].
  rewrite HW. reflexivity.
Qed.
