(* C04 proofs, part 1: regenerated facts, refutation witnesses of the two
   defects of the unrepaired code, non-vacuity examples. *)
From Coq Require Import List NArith ZArith Bool Lia.
Import ListNotations.
Require Import Verif.Lib.Wire Verif.Lib.C04Sort Verif.Gen.Facts_C04 Verif.Model.C04.

(* ---------- the regenerated facts have the repaired shape *)
Lemma facts_current_fixed : cfg_current = cfg_fixed.
Proof. reflexivity. Qed.

Lemma facts_keys :
  conflict_test = [1; 2]%N /\ orderandpos_key = [1; 2]%N /\ orderonly_key = [1]%N /\
  bypath_key = [3; 4; 5]%N /\ output_key = [5]%N /\ min_order_cmp = 0%N /\ include_path = 1%N.
Proof. repeat split; reflexivity. Qed.

(* ---------- the override test is "not a strict prefix" *)
Lemma path_eqb_eq a b : path_eqb a b = true <-> a = b.
Proof.
  revert b; induction a as [|x a IH]; destruct b as [|y b]; simpl; try (split; congruence).
  rewrite andb_true_iff, text_eqb_eq, IH. split; [intros [-> ->]; reflexivity|intros H; inversion H; auto].
Qed.

Lemma path_eqb_refl a : path_eqb a a = true.
Proof. apply path_eqb_eq. reflexivity. Qed.

Lemma is_prefix_firstn a b : is_prefix a b = path_eqb (firstn (length a) b) a.
Proof.
  revert b; induction a as [|x a IH]; intros b; simpl; [reflexivity|].
  destruct b as [|y b]; simpl; [reflexivity|]. rewrite IH.
  destruct (text_eqb_spec x y) as [->|Hne].
  - rewrite text_eqb_refl. reflexivity.
  - simpl. destruct (text_eqb_spec y x); [congruence|reflexivity].
Qed.

Lemma path_eqb_sym a b : path_eqb a b = path_eqb b a.
Proof.
  destruct (path_eqb a b) eqn:E1, (path_eqb b a) eqn:E2; try reflexivity.
  - apply path_eqb_eq in E1. subst. rewrite path_eqb_refl in E2. discriminate.
  - apply path_eqb_eq in E2. subst. rewrite path_eqb_refl in E1. discriminate.
Qed.

Lemma conflicting_strict_prefix base p : conflicting base p = negb (strict_prefix base p).
Proof.
  unfold conflicting, strict_prefix. replace conflict_test with [1; 2]%N by reflexivity.
  simpl. rewrite is_prefix_firstn, orb_false_r, (path_eqb_sym p base).
  destruct (path_eqb (firstn (length base) p) base), (path_eqb base p); reflexivity.
Qed.

Lemma is_prefix_spec a b : is_prefix a b = true <-> exists r, b = a ++ r.
Proof.
  revert b; induction a as [|x a IH]; intros b; simpl.
  - split; [intros _; exists b; reflexivity|auto].
  - destruct b as [|y b]; [split; [discriminate|intros [r H]; discriminate]|].
    rewrite andb_true_iff, text_eqb_eq, IH. split.
    + intros [-> [r ->]]. exists r. reflexivity.
    + intros [r H]. inversion H. split; [reflexivity|exists r; reflexivity].
Qed.

Lemma strict_prefix_spec a b : strict_prefix a b = true <-> exists r, r <> [] /\ b = a ++ r.
Proof.
  unfold strict_prefix. rewrite andb_true_iff, is_prefix_spec, negb_true_iff. split.
  - intros [[r ->] Hne]. exists r. split; [|reflexivity]. intros ->. rewrite app_nil_r, path_eqb_refl in Hne. discriminate.
  - intros [r [Hr ->]]. split; [exists r; reflexivity|].
    destruct (path_eqb a (a ++ r)) eqn:E; [|reflexivity]. apply path_eqb_eq in E.
    rewrite <- (app_nil_r a) in E at 1. apply app_inv_head in E. congruence.
Qed.

(* Configurator.include: the including configurator overrides what it includes *)
Lemma include_strict_prefix parent spec : strict_prefix parent (child_path parent spec) = true.
Proof. apply strict_prefix_spec. exists [spec]. split; [discriminate|reflexivity]. Qed.

Lemma strict_prefix_irrefl a : strict_prefix a a = false.
Proof. unfold strict_prefix. rewrite path_eqb_refl, andb_false_r. reflexivity. Qed.

Lemma strict_prefix_trans a b c : strict_prefix a b = true -> strict_prefix b c = true -> strict_prefix a c = true.
Proof.
  rewrite !strict_prefix_spec. intros [r1 [H1 ->]] [r2 [H2 ->]]. exists (r1 ++ r2). split.
  - destruct r1; [congruence|discriminate].
  - rewrite app_assoc. reflexivity.
Qed.

Lemma strict_prefix_asym a b : strict_prefix a b = true -> strict_prefix b a = false.
Proof.
  intros H. destruct (strict_prefix b a) eqn:E; [|reflexivity].
  pose proof (strict_prefix_trans _ _ _ H E) as T. rewrite strict_prefix_irrefl in T. discriminate.
Qed.

(* ---------- witnesses (DESIGN.md section 5, items 3 and 4) *)
Definition t (s : list N) : text := s.
Definition pa : path := [[97]%N].   (* ("a",) *)
Definition pb : path := [[98]%N].   (* ("b",) *)
Definition act (i : N) (d : option N) (p : path) (o : Z) (adds : list action) : action :=
  mkA i (Eager d) p (Some o) adds.

(* item 3: d@() in phase 0, d@(a) and d@(b) in phase 5 *)
Definition w_crossphase : list action :=
  [act 0 (Some 1%N) [] 0 []; act 1 (Some 1%N) pa 5 []; act 2 (Some 1%N) pb 5 []].
(* item 4: d@() overrides d@(a) in phase 0; a phase-5 action declares another phase-5 action *)
Definition w_lingering : list action :=
  [act 0 (Some 1%N) [] 0 []; act 1 (Some 1%N) pa 0 []; act 2 None [] 5 [act 3 None [] 5 []]].

Definition obs (r : outcome * list event) : spec_outcome * list event := (obs_outcome (fst r), snd r).

(* the unrepaired code contradicts the specification on both ... *)
Lemma commit_spec_refuted_crossphase :
  wf_ids w_crossphase = true /\ wf_orders w_crossphase = true /\ flat w_crossphase = true /\
  commit_spec w_crossphase = (SDone, [Run 0%N]) /\
  obs (commit_with cfg_old w_crossphase) = (SConflict [1%N], [Run 0%N]).
Proof. vm_compute. repeat split; reflexivity. Qed.

Lemma late_phase_only_refuted :
  wf_ids w_lingering = true /\ wf_orders w_lingering = true /\
  spec_exec w_lingering = (SDone, [Run 0%N; Run 2%N; Run 3%N]) /\
  obs (commit_with cfg_old w_lingering) = (SLate 0 5, [Run 0%N; Run 2%N]).
Proof. vm_compute. repeat split; reflexivity. Qed.

(* each repair alone removes exactly its own defect *)
Lemma crossphase_needs_prev_all :
  obs (commit_with {| prev_all := true; drop_discarded := false |} w_crossphase) = commit_spec w_crossphase /\
  obs (commit_with {| prev_all := false; drop_discarded := true |} w_crossphase) <> commit_spec w_crossphase.
Proof. vm_compute. split; [reflexivity|discriminate]. Qed.

Lemma lingering_needs_drop :
  obs (commit_with {| prev_all := false; drop_discarded := true |} w_lingering) = spec_exec w_lingering /\
  obs (commit_with {| prev_all := true; drop_discarded := false |} w_lingering) <> spec_exec w_lingering.
Proof. vm_compute. split; [reflexivity|discriminate]. Qed.

(* ... the repaired one agrees *)
Example commit_fixed_crossphase : obs (commit_with cfg_fixed w_crossphase) = commit_spec w_crossphase.
Proof. vm_compute. reflexivity. Qed.
Example commit_fixed_lingering : obs (commit_with cfg_fixed w_lingering) = spec_exec w_lingering.
Proof. vm_compute. reflexivity. Qed.

(* non-vacuity: overriding, a real conflict, a real late addition, a deferred discriminator *)
Example ex_override :
  obs (commit_with cfg_fixed [act 0 (Some 1%N) pa 0 []; act 1 (Some 1%N) [] 0 []; act 2 None pb 0 []])
  = (SDone, [Run 1%N; Run 2%N]).
Proof. vm_compute. reflexivity. Qed.
Example ex_conflict :
  obs (commit_with cfg_fixed [act 0 None [] 0 []; act 1 (Some 1%N) pa 5 []; act 2 (Some 1%N) pb 5 []; act 3 (Some 2%N) [] 5 []])
  = (SConflict [1%N], [Run 0%N]).
Proof. vm_compute. reflexivity. Qed.
Example ex_late :
  obs (commit_with cfg_fixed [act 0 None [] 5 [act 1 None [] 0 []]]) = (SLate 0 5, [Run 0%N]).
Proof. vm_compute. reflexivity. Qed.
Example ex_deferred :
  obs (commit_with cfg_fixed [mkA 0 (Defer (Some 1%N)) [] (Some 5%Z) []; act 1 None [] 0 []])
  = (SDone, [Run 1%N; Force 0%N; Run 0%N]).
Proof. vm_compute. reflexivity. Qed.
Example ex_reentrant_clash :
  obs (commit_with cfg_fixed [act 0 (Some 1%N) pa 0 [act 1 (Some 1%N) [] 0 []]]) = (SConflict [1%N], [Run 0%N]).
Proof. vm_compute. reflexivity. Qed.
