(* C07 -- the SCRIPT_NAME part of the application URL is the one C17 models and
   proves well-formed: C07's quoting of the script name coincides with
   Model/C17.v's [quoted_script_name] (the model of Request._quoted_script_name). *)
From Coq Require Import List NArith ZArith Bool.
Import ListNotations.
Require Import Verif.Lib.Wire Verif.Lib.Utf8 Verif.Lib.Percent Verif.Gen.Facts_C07 Verif.Model.C02 Verif.Model.C07.
Require Verif.Gen.Facts_C17 Verif.Model.C17.

Lemma script_safe_same : c07_script_safe = Verif.Gen.Facts_C17.script_name_safe.
Proof. vm_compute. reflexivity. Qed.

Lemma quoted_script_name_is_c17 e sn d :
  decode_path_info sn = Ok d -> Verif.Model.C17.e_script e = d -> forallb valid_scalar d = true ->
  exists t, quoted_script_name sn = Val t /\ Verif.Model.C17.quoted_script_name e = Verif.Model.C17.Ok t.
Proof.
  intros Hd He Hv. exists (Percent.quote c07_script_safe (Utf8.encode d)). split.
  - unfold quoted_script_name. rewrite Hd. reflexivity.
  - unfold Verif.Model.C17.quoted_script_name, Verif.Model.C17.utf8_enc. rewrite He, Hv.
    cbn [Verif.Model.C17.rbind]. unfold Verif.Model.C17.url_quote, Verif.Model.C17.to_bytes.
    cbn [Verif.Model.C17.rbind]. rewrite script_safe_same. reflexivity.
Qed.
