(* C06: generation succeeds whenever the property speaks about the case -- every supplied value
   stands for a text, the pattern's literals are Unicode scalar values, every placeholder has a value.
   (Justifies the "a URL is expected" verdict of the executable specification.) *)
From Coq Require Import List NArith ZArith Bool Lia ZifyBool ZifyN.
Import ListNotations.
Require Import Verif.Lib.Wire Verif.Lib.Text Verif.Lib.PathNorm Verif.Lib.Utf8 Verif.Lib.Percent Verif.Lib.C06Utf8.
Require Verif.Gen.Facts_C01 Verif.Model.C01 Verif.Proofs.C01.
Require Import Verif.Gen.Facts_C17 Verif.Model.C17 Verif.Proofs.C17.
Require Import Verif.Gen.Facts_C06 Verif.Model.C06 Verif.Proofs.C06.
Open Scope N_scope.

Lemma ascii_valid s : Forall ascii s -> forallb valid_scalar s = true.
Proof.
  induction 1 as [|c r Hc _ IH]; [reflexivity|]. cbn [forallb]. rewrite IH. unfold ascii in Hc. unfold valid_scalar. lia.
Qed.

Lemma spec_text_text_of v t : spec_text v = Some t -> text_of v = Ok t /\ forallb valid_scalar t = true.
Proof.
  destruct v as [s|b|z|k s]; cbn [spec_text text_of].
  - destruct (forallb valid_scalar s) eqn:E; [|discriminate]. intros H; inversion H; subst. auto.
  - intros H. unfold utf8_dec. rewrite H. split; [reflexivity|]. eapply decode_valid; eassumption.
  - intros H; inversion H; subst. split; [reflexivity|]. apply ascii_valid, show_Z_ascii.
  - destruct (forallb valid_scalar s) eqn:E; [|discriminate]. intros H; inversion H; subst. auto.
Qed.

Lemma q_value_total v t : spec_text v = Some t -> exists q, q_value v = Ok q.
Proof.
  intros H. apply spec_text_text_of in H. destruct H as [Ht Hv].
  unfold q_value, quote_path_segment. rewrite Ht. cbn [rbind]. unfold utf8_enc. rewrite Hv. cbn [rbind]. eauto.
Qed.

Lemma gen_value_total b v t : val_text b v = Some t -> exists q, gen_value b v = Ok q.
Proof.
  destruct v as [x|l shown].
  - cbn [val_text]. intros H. destruct x; exact (q_value_total _ _ H).
  - cbn [val_text gen_value]. destruct b.
    + destruct (map_opt spec_text l) as [ts|] eqn:Em; [|discriminate]. intros _.
      assert (HH : exists qs, mapM q_value l = Ok qs).
      { apply map_opt_inv in Em. induction Em as [|v t' l' ts' Hv _ IH]; [exists []; reflexivity|].
        destruct IH as (qs & IH). destruct (q_value_total _ _ Hv) as (q & Hq).
        exists (q :: qs). cbn [mapM]. rewrite Hq. cbn [rbind]. rewrite IH. reflexivity. }
      destruct HH as (qs & ->). cbn [rbind]. eauto.
    + destruct (forallb valid_scalar shown) eqn:E; [|discriminate]. intros _.
      apply (q_value_total (PStr shown) shown). cbn [spec_text]. rewrite E. reflexivity.
Qed.

Lemma build_newdict_total g kw : wf_kw (p_star g) kw = true -> exists d, build_newdict g kw = Ok d.
Proof.
  unfold build_newdict, wf_kw.
  set (f := fun kv : text * kwval => rlet q := gen_value (is_star_key g (fst kv)) (snd kv) in Ok (fst kv, q)).
  induction kw as [|[k v] kw IH]; intros H; [exists []; reflexivity|].
  cbn [forallb fst snd] in H. apply andb_true_iff in H. destruct H as [Hv Hr].
  destruct (IH Hr) as (d & Hd).
  destruct (val_text (match p_star g with Some r => text_eqb k r | None => false end) v) as [t|] eqn:Et; [|discriminate].
  destruct (gen_value_total _ _ _ Et) as (q & Hq).
  assert (E : f (k, v) = Ok (k, q)) by (unfold f, is_star_key; cbn [fst snd]; rewrite Hq; reflexivity).
  cbn [mapM]. rewrite E. cbn [rbind]. rewrite Hd. cbn [rbind]. eauto.
Qed.

Lemma lit_part_total safe s : forallb valid_scalar s = true -> exists q, lit_part safe s = Ok (TLit (double_pct q)).
Proof.
  intros Hv. unfold lit_part, quote_path_segment. cbn [text_of rbind]. unfold utf8_enc. rewrite Hv. cbn [rbind]. eauto.
Qed.

(* the literals of the generation pattern are concatenations of the matcher pattern's literals *)
Lemma to_holes_valid its : forall n lit,
  forallb valid_scalar lit = true -> forallb (forallb valid_scalar) (lits its) = true ->
  forallb (fun h : text * text => forallb valid_scalar (snd h)) (to_holes n lit its) = true
  /\ map fst (to_holes n lit its) = n :: C01.hole_names its.
Proof.
  induction its as [|[l|m h] r IH]; intros n lit Hl Hr.
  - cbn. rewrite Hl. auto.
  - change (lits (C01.Lit l :: r)) with (l :: lits r) in Hr. cbn [forallb] in Hr. apply andb_true_iff in Hr. destruct Hr as [H1 H2].
    cbn [to_holes]. rewrite names_lit. apply IH; [rewrite valid_app, Hl, H1; reflexivity|assumption].
  - change (lits (C01.Hole m h :: r)) with (lits r) in Hr. cbn [to_holes forallb map fst snd]. rewrite Hl, names_hole.
    destruct (IH m [] eq_refl Hr) as [I1 I2]. rewrite I1, I2. auto.
Qed.

Lemma to_prefix_valid its : forall pre,
  forallb valid_scalar pre = true -> forallb (forallb valid_scalar) (lits its) = true ->
  forallb valid_scalar (fst (to_prefix pre its)) = true
  /\ forallb (fun h : text * text => forallb valid_scalar (snd h)) (snd (to_prefix pre its)) = true
  /\ map fst (snd (to_prefix pre its)) = C01.hole_names its.
Proof.
  induction its as [|[l|m h] r IH]; intros pre Hp Hr.
  - cbn. auto.
  - change (lits (C01.Lit l :: r)) with (l :: lits r) in Hr. cbn [forallb] in Hr. apply andb_true_iff in Hr. destruct Hr as [H1 H2].
    cbn [to_prefix]. rewrite names_lit. apply IH; [rewrite valid_app, Hp, H1; reflexivity|assumption].
  - change (lits (C01.Hole m h :: r)) with (lits r) in Hr. cbn [to_prefix fst snd]. rewrite names_hole.
    destruct (to_holes_valid r m [] eq_refl Hr) as [I1 I2]. auto.
Qed.

Definition hole_fn (h : text * text) : res (list tpart) :=
  match snd h with
  | [] => Ok [TSlot (fst h)]
  | s => rlet l := lit_part compile_literal_safe s in Ok [TSlot (fst h); l]
  end.

Lemma holes_total holes : forallb (fun h : text * text => forallb valid_scalar (snd h)) holes = true ->
  exists hs, mapM hole_fn holes = Ok hs
             /\ forall n, In (TSlot n) (concat hs) -> In n (map fst holes).
Proof.
  induction holes as [|[n l] holes IH]; intros H; [exists []; split; [reflexivity|intros ? []]|].
  cbn [forallb snd] in H. apply andb_true_iff in H. destruct H as [Hl Hr]. destruct (IH Hr) as (hs & Hm & Hin).
  cbn [mapM]. unfold hole_fn at 1. cbn [fst snd]. destruct l as [|c l].
  - cbn [rbind]. rewrite Hm. cbn [rbind]. eexists. split; [reflexivity|].
    intros m Hm'. cbn [concat app map fst] in *. destruct Hm' as [E|Hm']; [inversion E; left; reflexivity|right; auto].
  - destruct (lit_part_total compile_literal_safe (c :: l) Hl) as (q & ->). cbn [rbind]. rewrite Hm. cbn [rbind].
    eexists. split; [reflexivity|].
    intros m Hm'. cbn [concat app map fst] in *. destruct Hm' as [E|[E|Hm']]; [inversion E; left; reflexivity|discriminate|right; auto].
Qed.

Lemma gen_template_total g :
  forallb valid_scalar (p_prefix g) = true ->
  forallb (fun h : text * text => forallb valid_scalar (snd h)) (p_holes g) = true ->
  exists tpl, gen_template g = Ok tpl
              /\ forall n, In (TSlot n) tpl -> In n (map fst (p_holes g)) \/ star_slot g = Some n.
Proof.
  intros Hp Hh. unfold gen_template. destruct (lit_part_total compile_prefix_safe _ Hp) as (q & ->). cbn [rbind].
  destruct (holes_total _ Hh) as (hs & Hm & Hin). unfold hole_fn in Hm. rewrite Hm. cbn [rbind].
  eexists. split; [reflexivity|]. intros n [E|Hn]; [discriminate|]. apply in_app_or in Hn. destruct Hn as [Hn|Hn].
  - left. auto.
  - right. destruct (star_slot g) as [r|]; [|contradiction]. destruct Hn as [E|[]]. inversion E. reflexivity.
Qed.

Lemma format_total d tpl : Forall lit_ok tpl -> (forall n, In (TSlot n) tpl -> assoc n d <> None) ->
  exists parts, mapM (format_part d) tpl = Ok parts.
Proof.
  induction 1 as [|t r Ht _ IH]; intros Hs; [exists []; reflexivity|].
  destruct IH as (parts & IH); [intros n Hn; apply Hs; right; exact Hn|].
  cbn [mapM]. destruct t as [s|n].
  - destruct Ht as (q & -> & _). cbn [format_part]. rewrite undouble_double. cbn [rbind]. rewrite IH. cbn [rbind]. eauto.
  - cbn [format_part]. destruct (assoc n d) eqn:Ea; [|exfalso; apply (Hs n); [left; reflexivity|exact Ea]].
    cbn [rbind]. rewrite IH. cbn [rbind]. eauto.
Qed.

(* every placeholder of the pattern got a value that stands for a text *)
Lemma kw_caps_all p kw caps n : kw_caps p kw = Some caps -> In n (slot_names p) ->
  exists v, assoc n kw = Some v.
Proof.
  unfold kw_caps, slot_names. intros Hk Hin.
  destruct (map_opt (cap_of (C01.star p) kw) (C01.hole_names (C01.items p))) as [hc|] eqn:Em; [|discriminate].
  cbn [obind] in Hk. apply in_app_or in Hin. destruct Hin as [Hin|Hin].
  - apply map_opt_inv in Em. destruct (Forall2_in_l _ _ _ _ Em Hin) as (y & Hy).
    unfold cap_of in Hy. destruct (assoc n kw); [eauto|discriminate].
  - destruct (C01.star p) as [[|c r]|]; try contradiction. destruct Hin as [<-|[]].
    unfold cap_of in Hk at 1. destruct (assoc (c :: r) kw); [eauto|discriminate].
Qed.

Theorem generate_succeeds p kw caps :
  forallb (forallb valid_scalar) (lits (C01.items p)) = true ->
  wf_kw (C01.star p) kw = true -> kw_caps p kw = Some caps ->
  exists u, generate (to_pattern p) kw = Ok u.
Proof.
  intros Hl Hw Hk.
  pose proof (to_prefix_valid (C01.items p) [] eq_refl Hl) as (P1 & P2 & P3).
  assert (Eg : to_pattern p = mkPat (fst (to_prefix [] (C01.items p))) (snd (to_prefix [] (C01.items p))) (C01.star p)).
  { unfold to_pattern. destruct (to_prefix [] (C01.items p)); reflexivity. }
  destruct (gen_template_total (to_pattern p)) as (tpl & Ht & Hslots); [rewrite Eg; exact P1|rewrite Eg; exact P2|].
  destruct (build_newdict_total (to_pattern p) kw) as (d & Hd); [rewrite Eg; exact Hw|].
  destruct (format_total d tpl (gen_template_ok _ _ Ht)) as (parts & Hp).
  { intros n Hn. assert (Hin : In n (slot_names p)).
    { destruct (Hslots n Hn) as [H|H].
      - rewrite Eg in H. cbn [p_holes] in H. rewrite P3 in H. unfold slot_names. apply in_or_app. left. exact H.
      - rewrite Eg in H. unfold star_slot in H. cbn [p_star] in H. unfold slot_names. apply in_or_app. right.
        destruct (C01.star p) as [[|c r]|]; try discriminate. inversion H. left. reflexivity. }
    destruct (kw_caps_all _ _ _ _ Hk Hin) as (v & Hv).
    pose proof (newdict_assoc _ _ _ Hd n) as Hn'. rewrite Hv in Hn'. destruct Hn' as (q & Hq & _). congruence. }
  exists (concat parts). unfold generate. rewrite Ht, Hd. cbn [rbind]. rewrite Hp. reflexivity.
Qed.
