(* C05 proofs: sequences of commits; the link between the program text, the table of derived views and the
   declarative [protected]; soundness of the judge's clauses on model traces. *)
From Coq Require Import List NArith ZArith Bool Lia Sorting.Sorted Sorting.Permutation.
Import ListNotations.
Require Import Verif.Lib.Wire Verif.Gen.Facts_C03 Verif.Model.C03 Verif.Proofs.C03.
Require Import Verif.Gen.Facts_C05 Verif.Model.C05 Verif.Proofs.C05 Verif.Proofs.C05_cfg.
Local Close Scope N_scope.
Local Open Scope nat_scope.

(* ================================================================== *)
(* several commits *)

Lemma configure_table batches : forall s0 rt d,
  In (rt, d) (cs_D (fold_left commit batches s0)) ->
  In (rt, d) (cs_D s0) \/
  exists pre batch post st eo o b,
    batches = pre ++ batch :: post /\ In st batch /\
    directive (cs_rs (fold_left commit pre s0)) st = Some (AView o b) /\ rt = rtag (o_tag o) eo /\
    d_perm d = secured_permission (cs_rs (commit (fold_left commit pre s0) batch)) eo (o_perm o) /\ d_body d = b /\
    var_ok eo o.
Proof.
  induction batches as [|b r IH]; intros s0 rt d H; simpl in H; [left; exact H|].
  destruct (IH _ _ _ H) as [H1|(pre & batch & post & st & eo & o & bd & E & H2 & H3 & H4 & H5 & H6 & H7)].
  - destruct (commit_table _ _ _ _ H1) as [H0|(st & eo & o & bd & H2 & H3 & H4 & H5 & H6 & H7)]; [left; exact H0|right].
    exists [], b, r, st, eo, o, bd. simpl. repeat split; assumption.
  - right. exists (b :: pre), batch, post, st, eo, o, bd. simpl. rewrite E. repeat split; assumption.
Qed.

(* mediation for any sequence of commits: the effective permission of a statement is read in the registry state
   at the end of the commit that holds the statement *)
Lemma mediation_sequence irq ier iw batches tb q i e rt c d :
  let s0 := init_state irq ier iw in
  let s := fold_left commit batches s0 in
  nth_error (fst (run_request s tb q)) i = Some e -> (e = Body rt c \/ e = Deco rt c) ->
  assocN rt (cs_D s) = Some d ->
  In (rt, d) (cs_D s0) \/
  exists pre batch post st eo o b,
    batches = pre ++ batch :: post /\ In st batch /\
    directive (cs_rs (fold_left commit pre s0)) st = Some (AView o b) /\ rt = rtag (o_tag o) eo /\
    let sk := commit (fold_left commit pre s0) batch in
    forall p, rs_policy (cs_rs sk) = true ->
              match o_perm o with
              | Some p' => strip_npr (Some p')
              | None => if eo then None else strip_npr (rs_defperm (cs_rs sk))
              end = Some p ->
              exists j, j < i /\ nth_error (fst (run_request s tb q)) j = Some (Permits p c true).
Proof.
  intros s0 s Hn He Hd.
  destruct (configure_table batches s0 rt d (assocN_In _ _ _ Hd))
    as [H|(pre & batch & post & st & eo & o & b & E & H2 & H3 & H4 & H5 & _)]; [left; exact H|right].
  exists pre, batch, post, st, eo, o, b. repeat split; try assumption.
  intros sk p Hpol Hperm. unfold run_request in *. eapply mediation; eauto.
  rewrite H5. fold sk. destruct (cs_rs sk) as [pol dq]. simpl in Hpol. subst pol.
  rewrite secured_permission_declarative. exact Hperm.
Qed.

(* a commit without policy / default-permission statements leaves the phase-1/2 state alone *)
Definition view_only_stmt (st : regstate) (s : stmt) : bool :=
  match directive st s with Some APolicy | Some (ADefPerm _) => false | _ => true end.

Lemma forallb_perm {A} (f : A -> bool) l l' : Permutation l l' -> forallb f l = forallb f l'.
Proof.
  induction 1; simpl; try congruence.
  rewrite !andb_assoc, (andb_comm (f y)). reflexivity.
Qed.

Lemma commit_rs_stable s batch :
  forallb (view_only_stmt (cs_rs s)) batch = true -> cs_rs (commit s batch) = cs_rs s.
Proof.
  intros H. unfold commit, batch_actions. apply views_only_rs.
  rewrite (forallb_perm _ _ _ (isort_perm action_leb _)).
  induction batch as [|x r IH]; simpl in *; [reflexivity|].
  apply andb_true_iff in H. destruct H as [Hx Hr]. unfold view_only_stmt in Hx.
  destruct (directive (cs_rs s) x) as [[|p|o b]|]; simpl; try discriminate Hx; auto.
Qed.

Lemma later_commits_stable batches : forall s,
  forallb (fun b => forallb (view_only_stmt (cs_rs s)) b) batches = true ->
  cs_rs (fold_left commit batches s) = cs_rs s.
Proof.
  induction batches as [|b r IH]; intros s H; simpl in *; [reflexivity|].
  apply andb_true_iff in H. destruct H as [Hb Hr].
  pose proof (commit_rs_stable s b Hb) as E.
  rewrite IH; [exact E|]. rewrite E. exact Hr.
Qed.

(* ================================================================== *)
(* secure=False / __call_permissive__ : modelled, and never used by the router *)

Section Permissive.
  Variable R : registry.
  Variable D : list (N * dview).
  Variable tb : grants.
  Variable q : rq5.

  Lemma call_loop_s_secure lookup l c : forall pme,
    call_loop_s D tb q true lookup l c pme = call_loop5 D tb q lookup l c pme.
  Proof.
    induction l as [|cmp r IH]; intros pme; simpl; [reflexivity|].
    unfold call_component_s. destruct (call_component5 D tb q lookup cmp c) as [tr o].
    destruct o as [t|e| |]; try reflexivity. destruct e; try reflexivity. rewrite IH. reflexivity.
  Qed.

  (* the function the router is built from IS the secure instance of the general _call_view; the permissive branches
     (call_reg_permissive, mv_call_permissive) are unreachable from router_call *)
  Lemma router_uses_secure fuel cls req_sro name c :
    call_view5 R D tb q fuel cls req_sro name c = call_view_s R D tb q true fuel cls req_sro name c.
  Proof. destruct fuel; simpl; [reflexivity|]. rewrite call_loop_s_secure. reflexivity. Qed.

  Lemma below_secured_wrappers d p : d_perm d = Some p -> below_secured (wrappers d) = Some (csrf_part d ++ ow_part d ++ deco_part d).
  Proof.
    intros Hp. rewrite wrappers_shape. unfold pred_part, sec_part. rewrite Hp.
    destruct (r_preds (d_reg d)); reflexivity.
  Qed.

  Lemma below_secured_none d : d_perm d = None -> below_secured (wrappers d) = None.
  Proof.
    intros Hp. rewrite wrappers_shape. unfold pred_part, sec_part, ow_part, deco_part, csrf_part. rewrite Hp.
    destruct (r_preds (d_reg d)), (d_wrapper d), (d_deco d), (d_csrf d); reflexivity.
  Qed.

  (* what secure=False skips is exactly the predicates and the check: when the predicates hold and the policy grants,
     the secure call is the permissive call preceded by Permits p c true *)
  Lemma secure_vs_permissive lookup v c d p :
    assocN (r_tag v) D = Some d -> d_perm d = Some p ->
    qualifies (q_base q) (d_reg d) = true -> granted tb p c = true ->
    call_reg D tb q lookup v c =
    (Permits p c true :: fst (call_reg_permissive D tb q lookup v c), snd (call_reg_permissive D tb q lookup v c)).
  Proof.
    intros Hd Hp Hq Hg. unfold call_reg, call_reg_permissive. rewrite Hd, (below_secured_wrappers d p Hp).
    rewrite wrappers_shape. unfold pred_part, sec_part. rewrite Hp.
    destruct (r_preds (d_reg d)); cbn [app run_ws]; rewrite ?Hq, Hg;
      destruct (run_ws tb q lookup (csrf_part d ++ ow_part d ++ deco_part d) d (r_tag v) c); reflexivity.
  Qed.

  (* an unsecured view has no __call_permissive__: the permissive call is the ordinary call *)
  Lemma permissive_unsecured lookup v c d :
    assocN (r_tag v) D = Some d -> d_perm d = None ->
    call_reg_permissive D tb q lookup v c = call_reg D tb q lookup v c.
  Proof. intros Hd Hp. unfold call_reg, call_reg_permissive. rewrite Hd, (below_secured_none d Hp). reflexivity. Qed.

  (* __permitted__ answers exactly what the check inside the secured view would answer *)
  Lemma permitted_is_the_check v c d p :
    assocN (r_tag v) D = Some d -> d_perm d = Some p ->
    permitted_reg D tb v c = ([Permits p c (granted tb p c)], granted tb p c).
  Proof. intros Hd Hp. unfold permitted_reg. rewrite Hd, Hp. reflexivity. Qed.
End Permissive.

(* ---- the repaired _call_view: with secure=False a single secured view still honours its predicates *)
Section PermissivePredicates.
  Variable D : list (N * dview).
  Variable tb : grants.
  Variable q : rq5.

  Lemma permissive_checks_predicates_ok : permissive_checks_predicates = true.
  Proof. reflexivity. Qed.

  Lemma permissive_honours_predicates lookup v c d p :
    assocN (r_tag v) D = Some d -> d_perm d = Some p -> qualifies (q_base q) (d_reg d) = false ->
    call_component_s D tb q false lookup (CView v) c = ([], Raise EPredMismatch).
  Proof.
    intros Hd Hp Hq. unfold call_component_s. rewrite Hd, Hp, Hq, permissive_checks_predicates_ok. reflexivity.
  Qed.

  (* at component level, for a secured single view: predicates fail => both calls are a PredicateMismatch;
     predicates hold and the policy grants => the secure call is the permissive call preceded by the check *)
  Lemma secure_vs_permissive_component lookup v c d p :
    assocN (r_tag v) D = Some d -> d_perm d = Some p -> granted tb p c = true ->
    let '(trp, op) := call_component_s D tb q false lookup (CView v) c in
    call_component5 D tb q lookup (CView v) c =
    if qualifies (q_base q) (d_reg d) then (Permits p c true :: trp, op) else (trp, op).
  Proof.
    intros Hd Hp Hg. destruct (qualifies (q_base q) (d_reg d)) eqn:Hq.
    - unfold call_component_s. rewrite Hd, Hp, Hq, andb_false_r.
      cbn [call_component5]. rewrite (secure_vs_permissive D tb q lookup v c d p Hd Hp Hq Hg).
      destruct (call_reg_permissive D tb q lookup v c). reflexivity.
    - rewrite (permissive_honours_predicates lookup v c d p Hd Hp Hq).
      cbn [call_component5]. unfold call_reg. rewrite Hd, wrappers_shape. unfold pred_part.
      unfold qualifies in Hq. destruct (r_preds (d_reg d)) eqn:Ep; [discriminate Hq|].
      cbn [app run_ws]. unfold qualifies. rewrite Ep, Hq. reflexivity.
  Qed.
End PermissivePredicates.

(* ---- csrf_view enabled next to a permission: the order of the two checks comes from the computed deriver order *)
Section Csrf.
  Variable D : list (N * dview).
  Variable tb : grants.
  Variable q : rq5.

  Lemma csrf_between_secured_and_owrapped :
    exists pre mid post, deriver_names = pre ++ nm_secured_view :: mid ++ nm_csrf_view :: nm_owrapped_view :: post /\ mid = [].
  Proof. exists [nm_attr_wrapped_view; nm_predicated_view], [], [nm_http_cached_view; nm_decorated_view; nm_rendered_view; nm_mapped_view].
         split; [rewrite deriver_names_eq; reflexivity|reflexivity]. Qed.

  (* a view with a permission and require_csrf=True whose predicates hold: a refusal is decided before the token is
     looked at; a grant followed by a bad token raises BadCSRFToken and nothing of the view runs *)
  Lemma csrf_after_permission lookup v c d p :
    assocN (r_tag v) D = Some d -> d_perm d = Some p -> d_csrf d = true ->
    qualifies (q_base q) (d_reg d) = true ->
    call_reg D tb q lookup v c =
    if granted tb p c
    then if q_csrf_ok q
         then let '(tr, o) := run_ws tb q lookup (ow_part d ++ deco_part d) d (r_tag v) c in (Permits p c true :: tr, o)
         else ([Permits p c true], Raise ECsrf)
    else ([Permits p c false], Raise EForbidden).
  Proof.
    intros Hd Hp Hc Hq. unfold call_reg. rewrite Hd, wrappers_shape. unfold pred_part, sec_part, csrf_part.
    rewrite Hp, Hc. destruct (r_preds (d_reg d)); cbn [app run_ws]; rewrite ?Hq;
      destruct (granted tb p c); try reflexivity; destruct (q_csrf_ok q); reflexivity.
  Qed.
End Csrf.
