(* C05 proofs: sequences of commits; the link between the program text, the table of derived views and the
   declarative [protected]; soundness of the judge's clauses on model traces. *)
From Coq Require Import List NArith ZArith Bool Lia Sorting.Sorted Sorting.Permutation.
Import ListNotations.
Require Import Verif.Lib.Wire Verif.Gen.Facts_C03 Verif.Model.C03 Verif.Proofs.C03.
Require Import Verif.Gen.Facts_C05 Verif.Model.C05 Verif.Proofs.C05 Verif.Proofs.C05_cfg.
Local Close Scope N_scope.
Local Open Scope nat_scope.

(* ================================================================== *)
(* several commits *)

Lemma configure_table batches : forall s0 rt d,
  In (rt, d) (cs_D (fold_left commit batches s0)) ->
  In (rt, d) (cs_D s0) \/
  exists pre batch post st eo o b,
    batches = pre ++ batch :: post /\ In st batch /\
    directive (cs_rs (fold_left commit pre s0)) st = Some (AView o b) /\ rt = rtag (o_tag o) eo /\
    d_perm d = secured_permission (cs_rs (commit (fold_left commit pre s0) batch)) eo (o_perm o) /\ d_body d = b.
Proof.
  induction batches as [|b r IH]; intros s0 rt d H; simpl in H; [left; exact H|].
  destruct (IH _ _ _ H) as [H1|(pre & batch & post & st & eo & o & bd & E & H2 & H3 & H4 & H5 & H6)].
  - destruct (commit_table _ _ _ _ H1) as [H0|(st & eo & o & bd & H2 & H3 & H4 & H5 & H6)]; [left; exact H0|right].
    exists [], b, r, st, eo, o, bd. simpl. repeat split; assumption.
  - right. exists (b :: pre), batch, post, st, eo, o, bd. simpl. rewrite E. repeat split; assumption.
Qed.

(* mediation for any sequence of commits: the effective permission of a statement is read in the registry state
   at the end of the commit that holds the statement *)
Lemma mediation_sequence irq ier iw batches tb q i e rt c d :
  let s0 := init_state irq ier iw in
  let s := fold_left commit batches s0 in
  nth_error (fst (run_request s tb q)) i = Some e -> (e = Body rt c \/ e = Deco rt c) ->
  assocN rt (cs_D s) = Some d ->
  In (rt, d) (cs_D s0) \/
  exists pre batch post st eo o b,
    batches = pre ++ batch :: post /\ In st batch /\
    directive (cs_rs (fold_left commit pre s0)) st = Some (AView o b) /\ rt = rtag (o_tag o) eo /\
    let sk := commit (fold_left commit pre s0) batch in
    forall p, rs_policy (cs_rs sk) = true ->
              match o_perm o with
              | Some p' => strip_npr (Some p')
              | None => if eo then None else strip_npr (rs_defperm (cs_rs sk))
              end = Some p ->
              exists j, j < i /\ nth_error (fst (run_request s tb q)) j = Some (Permits p c true).
Proof.
  intros s0 s Hn He Hd.
  destruct (configure_table batches s0 rt d (assocN_In _ _ _ Hd))
    as [H|(pre & batch & post & st & eo & o & b & E & H2 & H3 & H4 & H5 & _)]; [left; exact H|right].
  exists pre, batch, post, st, eo, o, b. repeat split; try assumption.
  intros sk p Hpol Hperm. unfold run_request in *. eapply mediation; eauto.
  rewrite H5. fold sk. destruct (cs_rs sk) as [pol dq]. simpl in Hpol. subst pol.
  rewrite secured_permission_declarative. exact Hperm.
Qed.

(* a commit without policy / default-permission statements leaves the phase-1/2 state alone *)
Definition view_only_stmt (st : regstate) (s : stmt) : bool :=
  match directive st s with Some APolicy | Some (ADefPerm _) => false | _ => true end.

Lemma forallb_perm {A} (f : A -> bool) l l' : Permutation l l' -> forallb f l = forallb f l'.
Proof.
  induction 1; simpl; try congruence.
  rewrite !andb_assoc, (andb_comm (f y)). reflexivity.
Qed.

Lemma commit_rs_stable s batch :
  forallb (view_only_stmt (cs_rs s)) batch = true -> cs_rs (commit s batch) = cs_rs s.
Proof.
  intros H. unfold commit, batch_actions. apply views_only_rs.
  rewrite (forallb_perm _ _ _ (isort_perm action_leb _)).
  induction batch as [|x r IH]; simpl in *; [reflexivity|].
  apply andb_true_iff in H. destruct H as [Hx Hr]. unfold view_only_stmt in Hx.
  destruct (directive (cs_rs s) x) as [[|p|o b]|]; simpl; try discriminate Hx; auto.
Qed.

Lemma later_commits_stable batches : forall s,
  forallb (fun b => forallb (view_only_stmt (cs_rs s)) b) batches = true ->
  cs_rs (fold_left commit batches s) = cs_rs s.
Proof.
  induction batches as [|b r IH]; intros s H; simpl in *; [reflexivity|].
  apply andb_true_iff in H. destruct H as [Hb Hr].
  pose proof (commit_rs_stable s b Hb) as E.
  rewrite IH; [exact E|]. rewrite E. exact Hr.
Qed.
